import SymVerif.Lemmas.C25Basic
/-!
C25 — `CSRMatrix::set`: the two-sided binary search, the `p_` shifts, and the three ways a
canonical matrix changes (overwrite, insert, erase).
-/
namespace SymVerif.C25
open SymVerif.CSR Finset

/-! ### array facts in the `[k]!` form -/

theorem set_get! {α : Type} [Inhabited α] (a : Array α) (k : Nat) (v : α) (h : k < a.size) (l : Nat) :
    (a.set k v h)[l]! = if l = k then v else a[l]! := by
  grind

theorem insertIdx_get! {α : Type} [Inhabited α] (a : Array α) (k : Nat) (v : α) (h : k ≤ a.size)
    (l : Nat) :
    (a.insertIdx k v h)[l]! = if l < k then a[l]! else if l = k then v else a[l - 1]! := by
  have hs : (a.insertIdx k v h).size = a.size + 1 := by simp
  grind

theorem eraseIdx_get! {α : Type} [Inhabited α] (a : Array α) (k : Nat) (h : k < a.size) (l : Nat) :
    (a.eraseIdx k h)[l]! = if l < k then a[l]! else a[l + 1]! := by
  have hs : (a.eraseIdx k h).size = a.size - 1 := by simp
  grind

/-! ### the search -/

theorem setSearch_spec (j : Array Nat) (c lo0 hi0 : Nat) (hs : SortedOn j lo0 hi0)
    (hj : hi0 ≤ j.size) :
    ∀ fuel k e, e - k < fuel → lo0 ≤ k → k ≤ e → e ≤ hi0 →
      (∀ a, lo0 ≤ a → a < k → j[a]! < c) → (∀ a, e ≤ a → a < hi0 → c ≤ j[a]!) →
      ∃ r, setSearch j c fuel k e = .ok r ∧ lo0 ≤ r ∧ r ≤ hi0 ∧
        (∀ a, lo0 ≤ a → a < r → j[a]! < c) ∧ (∀ a, r ≤ a → a < hi0 → c ≤ j[a]!) := by
  intro fuel
  induction fuel with
  | zero => intro k e h; omega
  | succ f ih =>
    intro k e hf hk hke he hlow hhigh
    unfold setSearch
    by_cases hlt : k < e
    · simp only [hlt, if_true]
      have hm1 : k ≤ (k + e) / 2 := by omega
      have hm2 : (k + e) / 2 < e := by omega
      by_cases hmk : (k + e) / 2 = k
      · have hek : e = k + 1 := by omega
        have hkj : k < j.size := by omega
        simp only [hmk, if_true, rd_lt hkj, ok_bind, pure_ok]
        by_cases hjk : j[k]! < c
        · refine ⟨k + 1, by simp [hjk], by omega, by omega, ?_, ?_⟩
          · intro a h1 h2
            by_cases hak : a = k
            · subst hak; exact hjk
            · exact hlow a h1 (by omega)
          · intro a h1 h2
            exact hhigh a (by omega) h2
        · refine ⟨k, by simp [hjk], by omega, by omega, hlow, ?_⟩
          intro a h1 h2
          by_cases hak : a = k
          · subst hak; omega
          · exact hhigh a (by omega) h2
      · simp only [hmk, if_false]
        generalize hmid : (k + e) / 2 = mid at hm1 hm2 hmk
        have hmj : mid < j.size := by omega
        have hmj1 : mid - 1 < j.size := by omega
        simp only [rd_lt hmj, rd_lt hmj1, ok_bind, pure_ok]
        by_cases hc1 : j[mid]! ≥ c ∧ j[mid - 1]! < c
        · simp only [hc1, and_self, if_true]
          refine ⟨mid, rfl, by omega, by omega, ?_, ?_⟩
          · intro a h1 h2
            by_cases ha : a = mid - 1
            · subst ha; exact hc1.2
            · have := hs a (mid - 1) h1 (by omega) (by omega); omega
          · intro a h1 h2
            by_cases ha : a = mid
            · subst ha; exact hc1.1
            · have := hs mid a (by omega) (by omega) h2; omega
        · simp only [hc1, if_false]
          by_cases hc2 : j[mid - 1]! ≥ c
          · simp only [hc2, if_true]
            apply ih k (mid - 1) (by omega) hk (by omega) (by omega) hlow
            intro a h1 h2
            by_cases ha : a = mid - 1
            · subst ha; exact hc2
            · have := hs (mid - 1) a (by omega) (by omega) h2; omega
          · simp only [hc2, if_false]
            have hjm : j[mid]! < c := by
              by_contra hcon
              exact hc1 ⟨by omega, by omega⟩
            apply ih (mid + 1) e (by omega) (by omega) (by omega) he _ hhigh
            intro a h1 h2
            by_cases ha : a = mid
            · subst ha; exact hjm
            · have := hs a mid h1 (by omega) (by omega); omega
    · simp only [hlt, if_false, pure_ok]
      exact ⟨k, rfl, hk, by omega, hlow, fun a h1 h2 => hhigh a (by omega) h2⟩

/-! ### the `p_` shift loop -/

theorem bumpLoop_spec (f : Nat → Except Err Nat) (g : Nat → Nat) :
    ∀ n l (p : Array Nat), l + n = p.size →
      (∀ a, l ≤ a → a < p.size → f p[a]! = .ok (g p[a]!)) →
      ∃ p', bumpLoop f n l p = .ok p' ∧ p'.size = p.size ∧
        ∀ a, p'[a]! = if l ≤ a ∧ a < p.size then g p[a]! else p[a]! := by
  intro n
  induction n with
  | zero =>
    intro l p hl _
    refine ⟨p, rfl, rfl, ?_⟩
    intro a
    have : ¬ (l ≤ a ∧ a < p.size) := by omega
    simp [this]
  | succ n ih =>
    intro l p hl hf
    have hlp : l < p.size := by omega
    unfold bumpLoop
    simp only [rd_lt hlp, ok_bind, hf l (Nat.le_refl l) hlp, wr_lt _ hlp]
    obtain ⟨p', h1, h2, h3⟩ := ih (l + 1) (p.set l (g p[l]!) hlp) (by simp; omega) (by
      intro a ha1 ha2
      rw [set_get!]
      have : a ≠ l := by omega
      simp only [this, if_false]
      exact hf a (by omega) (by simpa using ha2))
    refine ⟨p', h1, by simpa using h2, ?_⟩
    intro a
    rw [h3 a, set_get!]
    simp only [Array.size_set]
    by_cases hal : a = l
    · subst hal
      have h4 : ¬ (a + 1 ≤ a ∧ a < p.size) := by omega
      have h5 : a ≤ a ∧ a < p.size := by omega
      rw [if_neg h4, if_pos rfl, if_pos h5]
    · by_cases hc : l + 1 ≤ a ∧ a < p.size
      · have h5 : l ≤ a ∧ a < p.size := by omega
        rw [if_pos hc, if_neg hal, if_pos h5]
      · have h5 : ¬ (l ≤ a ∧ a < p.size) := by omega
        rw [if_neg hc, if_neg hal, if_neg h5]

/-! ### overwrite -/

theorem cellOf_set (j : Array Nat) (x : Array Q) (k : Nat) (e : Q) (h : k < x.size) (c a : Nat) :
    cellOf j (x.set k e h) c a = if a = k then (if j[k]! = c then e else 0) else cellOf j x c a := by
  unfold cellOf
  rw [set_get!]
  by_cases hak : a = k
  · subst hak; simp
  · simp [hak]

theorem canon_overwrite {m : Mat} (h : CanonCSR m) (k : Nat) (e : Q) (hk : k < m.x.size) :
    CanonCSR { m with x := m.x.set k e hk } :=
  { psize := h.psize, xsize := by simpa using h.xsize, p0 := h.p0, plast := h.plast,
    pmono := h.pmono, sorted := h.sorted, jlt := h.jlt }

/-- rows other than `i` do not contain position `k` of row `i` -/
theorem CanonCSR.other_row {m : Mat} (h : CanonCSR m) {i i' k : Nat} (hi : i < m.row)
    (hi' : i' < m.row) (hne : i' ≠ i) (hk1 : m.p[i]! ≤ k) (hk2 : k < m.p[i + 1]!) :
    ∀ a, m.p[i']! ≤ a → a < m.p[i' + 1]! → a ≠ k := by
  intro a ha1 ha2
  rcases Nat.lt_or_gt_of_ne hne with hlt | hgt
  · have := h.pmono (i' + 1) i (by omega) (by omega); omega
  · have := h.pmono (i + 1) i' (by omega) (by omega); omega

theorem dense_overwrite {m : Mat} (h : CanonCSR m) {i c k : Nat} (e : Q) (hi : i < m.row)
    (hk : k < m.x.size) (hk1 : m.p[i]! ≤ k) (hk2 : k < m.p[i + 1]!) (hjk : m.j[k]! = c) :
    ∀ i' c', i' < m.row →
      dense { m with x := m.x.set k e hk } i' c' = if i' = i ∧ c' = c then e else dense m i' c' := by
  intro i' c' hi'
  unfold dense
  simp only
  by_cases hii : i' = i
  · subst hii
    by_cases hcc : c' = c
    · subst hcc
      simp only [and_self, if_true]
      rw [sum_Ico_single k hk1 hk2]
      · rw [cellOf_set]; simp [hjk]
      · intro b hb1 hb2 hne
        rw [cellOf_set]
        simp only [hne, if_false]
        unfold cellOf
        have : m.j[b]! ≠ m.j[k]! := by
          rcases Nat.lt_or_gt_of_ne hne with hl | hg
          · have := h.sorted i' hi' b k hb1 hl hk2; omega
          · have := h.sorted i' hi' k b hk1 hg hb2; omega
        rw [hjk] at this
        simp [this]
    · have : ¬ (i' = i' ∧ c' = c) := by simp [hcc]
      rw [if_neg this]
      apply sum_Ico_congr
      intro a ha1 ha2
      rw [cellOf_set]
      by_cases hak : a = k
      · subst hak
        have : m.j[a]! ≠ c' := by rw [hjk]; exact fun h => hcc h.symm
        simp [cellOf, this]
      · simp [hak]
  · have : ¬ (i' = i ∧ c' = c) := by simp [hii]
    simp only [this, if_false]
    apply sum_Ico_congr
    intro a ha1 ha2
    rw [cellOf_set]
    have := h.other_row hi hi' hii hk1 hk2 a ha1 ha2
    simp [this]

/-! ### insert -/

theorem cellOf_insert (j : Array Nat) (x : Array Q) (k c : Nat) (e : Q) (hj : k ≤ j.size)
    (hx : k ≤ x.size) (c' a : Nat) :
    cellOf (j.insertIdx k c hj) (x.insertIdx k e hx) c' a =
      if a < k then cellOf j x c' a else if a = k then (if c = c' then e else 0)
      else cellOf j x c' (a - 1) := by
  unfold cellOf
  rw [insertIdx_get!, insertIdx_get!]
  by_cases h1 : a < k
  · simp [h1]
  · by_cases h2 : a = k
    · simp [h2]
    · simp [h1, h2]

theorem canon_insert {m : Mat} (h : CanonCSR m) {i c k : Nat} (e : Q) (hi : i < m.row)
    (hc : c < m.col) (hk1 : m.p[i]! ≤ k) (hk2 : k ≤ m.p[i + 1]!)
    (hlow : ∀ a, m.p[i]! ≤ a → a < k → m.j[a]! < c)
    (hhigh : ∀ a, k ≤ a → a < m.p[i + 1]! → c < m.j[a]!)
    (p' : Array Nat) (hp's : p'.size = m.p.size)
    (hp' : ∀ a, p'[a]! = if i + 1 ≤ a ∧ a < m.p.size then m.p[a]! + 1 else m.p[a]!)
    (hkj : k ≤ m.j.size) (hkx : k ≤ m.x.size) :
    CanonCSR { m with p := p', j := m.j.insertIdx k c hkj, x := m.x.insertIdx k e hkx } := by
  have hps := h.psize
  have hr := h.row_le hi
  refine { psize := by simpa [hp's] using h.psize, xsize := by simp [h.xsize], p0 := ?_, plast := ?_,
           pmono := ?_, sorted := ?_, jlt := ?_ }
  · show p'[0]! = 0
    rw [hp' 0]
    have : ¬ (i + 1 ≤ 0 ∧ 0 < m.p.size) := by omega
    simp [this, h.p0]
  · show p'[m.row]! = (m.j.insertIdx k c hkj).size
    rw [hp' m.row]
    have : i + 1 ≤ m.row ∧ m.row < m.p.size := by omega
    rw [if_pos this, h.plast]
    simp
    try omega
  · intro a b hab hb
    have hb : b ≤ m.row := hb
    show p'[a]! ≤ p'[b]!
    rw [hp' a, hp' b]
    have := h.pmono a b hab hb
    by_cases h1 : i + 1 ≤ a ∧ a < m.p.size
    · have h2 : i + 1 ≤ b ∧ b < m.p.size := by omega
      simp only [h1, h2, and_self, if_true]; omega
    · by_cases h2 : i + 1 ≤ b ∧ b < m.p.size
      · simp only [h1, h2, and_self, if_true, if_false]; omega
      · simp only [h1, h2, if_false]; omega
  · intro r hr' a b ha hab hb
    have hr' : r < m.row := hr'
    show (m.j.insertIdx k c hkj)[a]! < (m.j.insertIdx k c hkj)[b]!
    have ha' : p'[r]! ≤ a := ha
    have hb' : b < p'[r + 1]! := hb
    rw [hp' r] at ha'
    rw [hp' (r + 1)] at hb'
    rw [insertIdx_get!, insertIdx_get!]
    rcases Nat.lt_trichotomy r i with hlt | heq | hgt
    · -- rows before `i`: everything below `k`
      have h1 : ¬ (i + 1 ≤ r ∧ r < m.p.size) := by omega
      have h2 : ¬ (i + 1 ≤ r + 1 ∧ r + 1 < m.p.size) := by omega
      simp only [h1, h2, if_false] at ha' hb'
      have := h.pmono (r + 1) i (by omega) (by omega)
      have hak : a < k := by omega
      have hbk : b < k := by omega
      simp only [hak, hbk, if_true]
      exact h.sorted r hr' a b ha' hab hb'
    · subst heq
      have h1 : ¬ (r + 1 ≤ r ∧ r < m.p.size) := by omega
      have h2 : r + 1 ≤ r + 1 ∧ r + 1 < m.p.size := by omega
      simp only [h1, h2, and_self, if_true, if_false] at ha' hb'
      by_cases hak : a < k
      · simp only [hak, if_true]
        by_cases hbk : b < k
        · simp only [hbk, if_true]
          exact h.sorted r hr' a b ha' hab (by omega)
        · by_cases hbk2 : b = k
          · simp only [hbk, hbk2, if_false, if_true]
            subst hbk2
            simp only [Nat.lt_irrefl, if_false, if_true]
            exact hlow a ha' hak
          · simp only [hbk, hbk2, if_false]
            exact h.sorted r hr' a (b - 1) ha' (by omega) (by omega)
      · have hbk : ¬ b < k := by omega
        have hbk2 : ¬ b = k := by omega
        simp only [hak, hbk, hbk2, if_false]
        by_cases hak2 : a = k
        · simp only [hak2, if_true]
          exact hhigh (b - 1) (by omega) (by omega)
        · simp only [hak2, if_false]
          exact h.sorted r hr' (a - 1) (b - 1) (by omega) (by omega) (by omega)
    · have h1 : i + 1 ≤ r ∧ r < m.p.size := by omega
      have h2 : i + 1 ≤ r + 1 ∧ r + 1 < m.p.size := by omega
      simp only [h1, h2, and_self, if_true] at ha' hb'
      have := h.pmono (i + 1) r (by omega) (by omega)
      have hak : ¬ a < k := by omega
      have hak2 : ¬ a = k := by omega
      have hbk : ¬ b < k := by omega
      have hbk2 : ¬ b = k := by omega
      simp only [hak, hak2, hbk, hbk2, if_false]
      exact h.sorted r hr' (a - 1) (b - 1) (by omega) (by omega) (by omega)
  · intro a ha
    show (m.j.insertIdx k c hkj)[a]! < m.col
    have ha' : a < m.j.size + 1 := by simpa using ha
    rw [insertIdx_get!]
    by_cases h1 : a < k
    · simp only [h1, if_true]; exact h.jlt a (by omega)
    · by_cases h2 : a = k
      · simp only [h1, h2, if_false, if_true, Nat.lt_irrefl]; exact hc
      · simp only [h1, h2, if_false]; exact h.jlt (a - 1) (by omega)

theorem dense_insert {m : Mat} (h : CanonCSR m) {i c k : Nat} (e : Q) (hi : i < m.row)
    (hk1 : m.p[i]! ≤ k) (hk2 : k ≤ m.p[i + 1]!)
    (hlow : ∀ a, m.p[i]! ≤ a → a < k → m.j[a]! < c)
    (hhigh : ∀ a, k ≤ a → a < m.p[i + 1]! → c < m.j[a]!)
    (p' : Array Nat)
    (hp' : ∀ a, p'[a]! = if i + 1 ≤ a ∧ a < m.p.size then m.p[a]! + 1 else m.p[a]!)
    (hkj : k ≤ m.j.size) (hkx : k ≤ m.x.size) :
    ∀ i' c', i' < m.row →
      dense { m with p := p', j := m.j.insertIdx k c hkj, x := m.x.insertIdx k e hkx } i' c' =
        if i' = i ∧ c' = c then e else dense m i' c' := by
  intro i' c' hi'
  have hps := h.psize
  unfold dense
  simp only
  rw [hp' i', hp' (i' + 1)]
  rcases Nat.lt_trichotomy i' i with hlt | heq | hgt
  · have h1 : ¬ (i + 1 ≤ i' ∧ i' < m.p.size) := by omega
    have h2 : ¬ (i + 1 ≤ i' + 1 ∧ i' + 1 < m.p.size) := by omega
    have h3 : ¬ (i' = i ∧ c' = c) := by omega
    simp only [h1, h2, h3, if_false]
    have := h.pmono (i' + 1) i (by omega) (by omega)
    apply sum_Ico_congr
    intro a ha1 ha2
    rw [cellOf_insert]
    have : a < k := by omega
    simp [this]
  · subst heq
    have h1 : ¬ (i' + 1 ≤ i' ∧ i' < m.p.size) := by omega
    have h2 : i' + 1 ≤ i' + 1 ∧ i' + 1 < m.p.size := by omega
    simp only [h1, h2, and_self, if_true, if_false, true_and]
    have e1 : ∑ a ∈ Ico m.p[i']! k, cellOf (m.j.insertIdx k c hkj) (m.x.insertIdx k e hkx) c' a
        = ∑ a ∈ Ico m.p[i']! k, cellOf m.j m.x c' a :=
      sum_Ico_congr (fun a _ h2 => by rw [cellOf_insert]; simp [h2])
    have e2 : ∑ a ∈ Ico k (k + 1), cellOf (m.j.insertIdx k c hkj) (m.x.insertIdx k e hkx) c' a
        = if c = c' then e else 0 := by
      rw [Nat.Ico_succ_singleton, Finset.sum_singleton, cellOf_insert]; simp
    have e3 : ∑ a ∈ Ico (k + 1) (m.p[i' + 1]! + 1),
          cellOf (m.j.insertIdx k c hkj) (m.x.insertIdx k e hkx) c' a
        = ∑ a ∈ Ico k m.p[i' + 1]!, cellOf m.j m.x c' a := by
      rw [sum_Ico_shift]
      apply sum_Ico_congr
      intro a h1 h2
      rw [cellOf_insert]
      have n1 : ¬ a + 1 < k := by omega
      have n2 : ¬ a + 1 = k := by omega
      simp [n1, n2]
    rw [sum_Ico_split k hk1 (by omega) (hi := m.p[i' + 1]! + 1),
        sum_Ico_split (k + 1) (by omega) (by omega) (lo := k) (hi := m.p[i' + 1]! + 1), e1, e2, e3]
    by_cases hcc : c' = c
    · subst hcc
      simp only [if_true]
      rw [sum_cell_miss (fun b h1 h2 => by have := hlow b h1 h2; omega),
          sum_cell_miss (fun b h1 h2 => by have := hhigh b h1 h2; omega)]
      simp
    · have hcc' : ¬ c = c' := fun h => hcc h.symm
      simp only [hcc, hcc', if_false, zero_add]
      rw [sum_Ico_split k hk1 hk2 (hi := m.p[i' + 1]!)]
  · have h1 : i + 1 ≤ i' ∧ i' < m.p.size := by omega
    have h2 : i + 1 ≤ i' + 1 ∧ i' + 1 < m.p.size := by omega
    have h3 : ¬ (i' = i ∧ c' = c) := by omega
    simp only [h1, h2, h3, and_self, if_true, if_false]
    have := h.pmono (i + 1) i' (by omega) (by omega)
    rw [sum_Ico_shift]
    apply sum_Ico_congr
    intro a ha1 ha2
    rw [cellOf_insert]
    have n1 : ¬ a + 1 < k := by omega
    have n2 : ¬ a + 1 = k := by omega
    simp [n1, n2]

/-! ### erase -/

theorem cellOf_erase (j : Array Nat) (x : Array Q) (k : Nat) (hj : k < j.size) (hx : k < x.size)
    (c' a : Nat) :
    cellOf (j.eraseIdx k hj) (x.eraseIdx k hx) c' a =
      if a < k then cellOf j x c' a else cellOf j x c' (a + 1) := by
  unfold cellOf
  rw [eraseIdx_get!, eraseIdx_get!]
  by_cases h1 : a < k
  · simp [h1]
  · simp [h1]

theorem canon_erase {m : Mat} (h : CanonCSR m) {i k : Nat} (hi : i < m.row)
    (hk1 : m.p[i]! ≤ k) (hk2 : k < m.p[i + 1]!)
    (p' : Array Nat) (hp's : p'.size = m.p.size)
    (hp' : ∀ a, p'[a]! = if i + 1 ≤ a ∧ a < m.p.size then m.p[a]! - 1 else m.p[a]!)
    (hkj : k < m.j.size) (hkx : k < m.x.size) :
    CanonCSR { m with p := p', j := m.j.eraseIdx k hkj, x := m.x.eraseIdx k hkx } := by
  have hps := h.psize
  have hr := h.row_le hi
  refine { psize := by simpa [hp's] using h.psize, xsize := by simp [h.xsize], p0 := ?_, plast := ?_,
           pmono := ?_, sorted := ?_, jlt := ?_ }
  · show p'[0]! = 0
    rw [hp' 0]
    have : ¬ (i + 1 ≤ 0 ∧ 0 < m.p.size) := by omega
    simp [this, h.p0]
  · show p'[m.row]! = (m.j.eraseIdx k hkj).size
    rw [hp' m.row]
    have : i + 1 ≤ m.row ∧ m.row < m.p.size := by omega
    rw [if_pos this, h.plast]
    simp
    try omega
  · intro a b hab hb
    have hb : b ≤ m.row := hb
    show p'[a]! ≤ p'[b]!
    rw [hp' a, hp' b]
    have := h.pmono a b hab hb
    by_cases h1 : i + 1 ≤ a ∧ a < m.p.size
    · have h2 : i + 1 ≤ b ∧ b < m.p.size := by omega
      simp only [h1, h2, and_self, if_true]; omega
    · by_cases h2 : i + 1 ≤ b ∧ b < m.p.size
      · simp only [h1, h2, and_self, if_true, if_false]
        have := h.pmono a i (by omega) (by omega)
        have := h.pmono (i + 1) b (by omega) (by omega)
        omega
      · simp only [h1, h2, if_false]; omega
  · intro r hr' a b ha hab hb
    have hr' : r < m.row := hr'
    show (m.j.eraseIdx k hkj)[a]! < (m.j.eraseIdx k hkj)[b]!
    have ha' : p'[r]! ≤ a := ha
    have hb' : b < p'[r + 1]! := hb
    rw [hp' r] at ha'
    rw [hp' (r + 1)] at hb'
    rw [eraseIdx_get!, eraseIdx_get!]
    rcases Nat.lt_trichotomy r i with hlt | heq | hgt
    · have h1 : ¬ (i + 1 ≤ r ∧ r < m.p.size) := by omega
      have h2 : ¬ (i + 1 ≤ r + 1 ∧ r + 1 < m.p.size) := by omega
      simp only [h1, h2, if_false] at ha' hb'
      have := h.pmono (r + 1) i (by omega) (by omega)
      have hak : a < k := by omega
      have hbk : b < k := by omega
      simp only [hak, hbk, if_true]
      exact h.sorted r hr' a b ha' hab hb'
    · subst heq
      have h1 : ¬ (r + 1 ≤ r ∧ r < m.p.size) := by omega
      have h2 : r + 1 ≤ r + 1 ∧ r + 1 < m.p.size := by omega
      simp only [h1, h2, and_self, if_true, if_false] at ha' hb'
      by_cases hak : a < k
      · simp only [hak, if_true]
        by_cases hbk : b < k
        · simp only [hbk, if_true]
          exact h.sorted r hr' a b ha' hab (by omega)
        · simp only [hbk, if_false]
          exact h.sorted r hr' a (b + 1) ha' (by omega) (by omega)
      · have hbk : ¬ b < k := by omega
        simp only [hak, hbk, if_false]
        exact h.sorted r hr' (a + 1) (b + 1) (by omega) (by omega) (by omega)
    · have h1 : i + 1 ≤ r ∧ r < m.p.size := by omega
      have h2 : i + 1 ≤ r + 1 ∧ r + 1 < m.p.size := by omega
      simp only [h1, h2, and_self, if_true] at ha' hb'
      have := h.pmono (i + 1) r (by omega) (by omega)
      have := h.pmono r (r + 1) (by omega) (by omega)
      have hak : ¬ a < k := by omega
      have hbk : ¬ b < k := by omega
      simp only [hak, hbk, if_false]
      exact h.sorted r hr' (a + 1) (b + 1) (by omega) (by omega) (by omega)
  · intro a ha
    show (m.j.eraseIdx k hkj)[a]! < m.col
    have ha' : a < m.j.size - 1 := by simpa using ha
    rw [eraseIdx_get!]
    by_cases h1 : a < k
    · simp only [h1, if_true]; exact h.jlt a (by omega)
    · simp only [h1, if_false]; exact h.jlt (a + 1) (by omega)

theorem dense_erase {m : Mat} (h : CanonCSR m) {i c k : Nat} (hi : i < m.row)
    (hk1 : m.p[i]! ≤ k) (hk2 : k < m.p[i + 1]!) (hjk : m.j[k]! = c)
    (p' : Array Nat)
    (hp' : ∀ a, p'[a]! = if i + 1 ≤ a ∧ a < m.p.size then m.p[a]! - 1 else m.p[a]!)
    (hkj : k < m.j.size) (hkx : k < m.x.size) :
    ∀ i' c', i' < m.row →
      dense { m with p := p', j := m.j.eraseIdx k hkj, x := m.x.eraseIdx k hkx } i' c' =
        if i' = i ∧ c' = c then 0 else dense m i' c' := by
  intro i' c' hi'
  have hps := h.psize
  unfold dense
  simp only
  rw [hp' i', hp' (i' + 1)]
  rcases Nat.lt_trichotomy i' i with hlt | heq | hgt
  · have h1 : ¬ (i + 1 ≤ i' ∧ i' < m.p.size) := by omega
    have h2 : ¬ (i + 1 ≤ i' + 1 ∧ i' + 1 < m.p.size) := by omega
    have h3 : ¬ (i' = i ∧ c' = c) := by omega
    simp only [h1, h2, h3, if_false]
    have := h.pmono (i' + 1) i (by omega) (by omega)
    apply sum_Ico_congr
    intro a ha1 ha2
    rw [cellOf_erase]
    have : a < k := by omega
    simp [this]
  · subst heq
    have h1 : ¬ (i' + 1 ≤ i' ∧ i' < m.p.size) := by omega
    have h2 : i' + 1 ≤ i' + 1 ∧ i' + 1 < m.p.size := by omega
    simp only [h1, h2, and_self, if_true, if_false, true_and]
    have e1 : ∑ a ∈ Ico m.p[i']! k, cellOf (m.j.eraseIdx k hkj) (m.x.eraseIdx k hkx) c' a
        = ∑ a ∈ Ico m.p[i']! k, cellOf m.j m.x c' a :=
      sum_Ico_congr (fun a _ h2 => by rw [cellOf_erase]; simp [h2])
    have e3 : ∑ a ∈ Ico k (m.p[i' + 1]! - 1),
          cellOf (m.j.eraseIdx k hkj) (m.x.eraseIdx k hkx) c' a
        = ∑ a ∈ Ico (k + 1) m.p[i' + 1]!, cellOf m.j m.x c' a := by
      have hpe : m.p[i' + 1]! = (m.p[i' + 1]! - 1) + 1 := by omega
      rw [hpe, sum_Ico_shift]
      simp only [Nat.add_sub_cancel]
      apply sum_Ico_congr
      intro a h1 h2
      rw [cellOf_erase]
      have n1 : ¬ a < k := by omega
      simp [n1]
    rw [sum_Ico_split k hk1 (by omega) (hi := m.p[i' + 1]! - 1), e1, e3]
    have hold : ∑ a ∈ Ico m.p[i']! m.p[i' + 1]!, cellOf m.j m.x c' a
        = ∑ a ∈ Ico m.p[i']! k, cellOf m.j m.x c' a + cellOf m.j m.x c' k
          + ∑ a ∈ Ico (k + 1) m.p[i' + 1]!, cellOf m.j m.x c' a := by
      rw [sum_Ico_split k hk1 (by omega) (hi := m.p[i' + 1]!),
          sum_Ico_split (k + 1) (by omega) (by omega) (lo := k) (hi := m.p[i' + 1]!),
          Nat.Ico_succ_singleton, Finset.sum_singleton]
      ring
    by_cases hcc : c' = c
    · subst hcc
      simp only [if_true]
      rw [sum_cell_miss, sum_cell_miss]
      · simp
      · intro b hb1 hb2
        have := h.sorted i' hi' k b hk1 (by omega) hb2
        omega
      · intro b hb1 hb2
        have := h.sorted i' hi' b k hb1 hb2 hk2
        omega
    · simp only [hcc, if_false]
      rw [hold]
      have : cellOf m.j m.x c' k = 0 := by
        unfold cellOf
        have : m.j[k]! ≠ c' := by rw [hjk]; exact fun h => hcc h.symm
        simp [this]
      rw [this, add_zero]
  · have h1 : i + 1 ≤ i' ∧ i' < m.p.size := by omega
    have h2 : i + 1 ≤ i' + 1 ∧ i' + 1 < m.p.size := by omega
    have h3 : ¬ (i' = i ∧ c' = c) := by omega
    simp only [h1, h2, h3, and_self, if_true, if_false]
    have := h.pmono (i + 1) i' (by omega) (by omega)
    have := h.pmono i' (i' + 1) (by omega) (by omega)
    have hpe : m.p[i']! = (m.p[i']! - 1) + 1 := by omega
    have hpe2 : m.p[i' + 1]! = (m.p[i' + 1]! - 1) + 1 := by omega
    conv_rhs => rw [hpe, hpe2, sum_Ico_shift]
    apply sum_Ico_congr
    intro a ha1 ha2
    rw [cellOf_erase]
    have n1 : ¬ a < k := by omega
    simp [n1]

/-! ### `CSRMatrix::set` -/

/-- `set` on a canonical matrix: never leaves the arrays, the result is canonical, and the dense
image is the old one updated at `(i, c)` — covering the overwrite, insert, erase (value zero on a
stored position) and no-op (value zero on an absent position) branches. -/
theorem set_spec {m : Mat} (h : CanonCSR m) {i c : Nat} (hi : i < m.row) (hc : c < m.col) (e : Q) :
    ∃ m', CSR.set m i c e = .ok m' ∧ CanonCSR m' ∧ m'.row = m.row ∧ m'.col = m.col ∧
      ∀ i' c', i' < m.row → dense m' i' c' = if i' = i ∧ c' = c then e else dense m i' c' := by
  have hr := h.row_le hi
  have hps := h.psize
  have h1 : i < m.p.size := by omega
  have h2 : i + 1 < m.p.size := by omega
  obtain ⟨k, hk, hk1, hk2, hlow, hhigh⟩ :=
    setSearch_spec m.j c m.p[i]! m.p[i + 1]! (h.sorted i hi) hr.2
      (m.p[i + 1]! - m.p[i]! + 1) m.p[i]! m.p[i + 1]! (by omega) (Nat.le_refl _) hr.1 (Nat.le_refl _)
      (fun a h1 h2 => by omega) (fun a h1 h2 => by omega)
  unfold CSR.set
  simp only [hi, hc, and_self, not_true_eq_false, if_false, rd_lt h1, rd_lt h2, ok_bind, hk]
  by_cases hin : k < m.p[i + 1]!
  · have hkj : k < m.j.size := by omega
    have hkx : k < m.x.size := by rw [h.xsize]; exact hkj
    simp only [hin, if_true, rd_lt hkj, ok_bind, pure_ok]
    by_cases hjk : m.j[k]! = c
    · -- the position is stored
      have hbeq : (m.j[k]! == c) = true := by simp [hjk]
      simp only [hbeq, if_true]
      by_cases he : e = 0
      · -- erase
        have hdec : ∀ a, i + 1 ≤ a → a < m.p.size → decr m.p[a]! = .ok (m.p[a]! - 1) := by
          intro a ha1 ha2
          have := h.pmono (i + 1) a ha1 (by omega)
          have : m.p[a]! ≠ 0 := by omega
          simp [decr, this]
        obtain ⟨p', hp1, hp2, hp3⟩ := bumpLoop_spec decr (· - 1) (m.row - i) (i + 1) m.p (by omega) hdec
        simp only [he, ne_eq, not_true_eq_false, if_false, del, hkx, hkj, dite_true, ok_bind, hp1]
        refine ⟨_, rfl, canon_erase h hi hk1 hin p' hp2 hp3 hkj hkx, rfl, rfl, ?_⟩
        exact dense_erase h hi hk1 hin hjk p' hp3 hkj hkx
      · -- overwrite
        simp only [he, ne_eq, not_false_eq_true, if_true, wr_lt _ hkx, ok_bind]
        refine ⟨_, rfl, canon_overwrite h k e hkx, rfl, rfl, ?_⟩
        exact dense_overwrite h e hi hkx hk1 hin hjk
    · have hbeq : (m.j[k]! == c) = false := by simp [hjk]
      simp only [hbeq]
      have hhigh' : ∀ a, k ≤ a → a < m.p[i + 1]! → c < m.j[a]! := by
        intro a ha1 ha2
        by_cases hak : a = k
        · subst hak; have := hhigh a ha1 ha2; omega
        · have := h.sorted i hi k a hk1 (by omega) ha2
          have := hhigh k (Nat.le_refl k) hin
          omega
      by_cases he : e = 0
      · -- no-op
        simp only [he, ne_eq, not_true_eq_false, if_false, Bool.false_eq_true]
        refine ⟨m, rfl, h, rfl, rfl, ?_⟩
        intro i' c' hi'
        by_cases hic : i' = i ∧ c' = c
        · obtain ⟨rfl, rfl⟩ := hic
          simp only [and_self, if_true]
          unfold dense
          rw [sum_Ico_split k hk1 hk2,
              sum_cell_miss (fun b h1 h2 => by have := hlow b h1 h2; omega),
              sum_cell_miss (fun b h1 h2 => by have := hhigh' b h1 h2; omega)]
          simp
        · simp [hic]
      · -- insert
        obtain ⟨p', hp1, hp2, hp3⟩ := bumpLoop_spec incr (· + 1) (m.row - i) (i + 1) m.p (by omega)
          (fun a _ _ => rfl)
        have hkj' : k ≤ m.j.size := by omega
        have hkx' : k ≤ m.x.size := by omega
        simp only [he, ne_eq, not_false_eq_true, if_true, Bool.false_eq_true, if_false, ins, hkx', hkj',
          dite_true, ok_bind, hp1]
        refine ⟨_, rfl, canon_insert h e hi hc hk1 hk2 hlow hhigh' p' hp2 hp3 hkj' hkx', rfl, rfl, ?_⟩
        exact dense_insert h e hi hk1 hk2 hlow hhigh' p' hp3 hkj' hkx'
  · -- `k` is the end of the row: not stored
    have hke : k = m.p[i + 1]! := by omega
    simp only [hin, if_false, pure_ok, ok_bind]
    have hhigh' : ∀ a, k ≤ a → a < m.p[i + 1]! → c < m.j[a]! := fun a h1 h2 => by omega
    by_cases he : e = 0
    · simp only [he, ne_eq, not_true_eq_false, if_false, Bool.false_eq_true]
      refine ⟨m, rfl, h, rfl, rfl, ?_⟩
      intro i' c' hi'
      by_cases hic : i' = i ∧ c' = c
      · obtain ⟨rfl, rfl⟩ := hic
        simp only [and_self, if_true]
        unfold dense
        rw [sum_cell_miss (fun b h1 h2 => by have := hlow b h1 (by omega); omega)]
      · simp [hic]
    · obtain ⟨p', hp1, hp2, hp3⟩ := bumpLoop_spec incr (· + 1) (m.row - i) (i + 1) m.p (by omega)
        (fun a _ _ => rfl)
      have hkj' : k ≤ m.j.size := by omega
      have hkx' : k ≤ m.x.size := by rw [h.xsize]; exact hkj'
      simp only [he, ne_eq, not_false_eq_true, if_true, Bool.false_eq_true, if_false, ins, hkx', hkj',
        dite_true, ok_bind, hp1]
      refine ⟨_, rfl, canon_insert h e hi hc hk1 hk2 hlow hhigh' p' hp2 hp3 hkj' hkx', rfl, rfl, ?_⟩
      exact dense_insert h e hi hk1 hk2 hlow hhigh' p' hp3 hkj' hkx'

end SymVerif.C25
