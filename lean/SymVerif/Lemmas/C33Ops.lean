import SymVerif.Lemmas.C33Loops
import Mathlib.Data.List.TakeWhile
/-! Specifications of `extend`, `generate_primes`. -/
namespace SymVerif.C33
open SymVerif.Sieve

theorem extend_spec (s : State) (limit : Nat) (hinv : Inv s) (hlim : limit < maxLimit) :
    ∃ s', extend s limit = .ok s' ∧ Inv s' ∧
      s'.size = max s.size (cnt (limit + 1)) ∧
      s'.sieveBits = s.sieveBits ∧ s'.clearFlag = s.clearFlag ∧ s.buf.size ≤ s'.buf.size := by
  apply extendWith_spec 63 s limit hinv
  calc limit < 2 ^ 31 := hlim
    _ < 2 ^ 2 ^ 63 := Nat.pow_lt_pow_right (by omega) (by decide)

/-- the primes `≤ limit`, in increasing order -/
abbrev primesUpTo (limit : Nat) : List Nat := (List.range (limit + 1)).filter (fun k => decide k.Prime)

theorem logical_eq {s : State} (hinv : Inv s) :
    s.buf.toList.take s.size = (List.range s.size).map np := by
  apply List.ext_getElem?
  intro i
  have := hinv.size_le
  by_cases hi : i < s.size
  · rw [List.getElem?_take_of_lt hi]
    simp [hinv.nth i (by omega), hi]
  · rw [List.getElem?_eq_none (by simp; omega), List.getElem?_eq_none (by simp; omega)]

theorem takeWhile_filter_range (p : Nat → Bool) (L M : Nat) (h : L + 1 ≤ M) :
    ((List.range M).filter p).takeWhile (· ≤ L) = (List.range (L + 1)).filter p := by
  obtain ⟨d, rfl⟩ := Nat.exists_eq_add_of_le h
  rw [List.range_add, List.filter_append, List.takeWhile_append_of_pos]
  · suffices hh : List.takeWhile (fun x => decide (x ≤ L))
        (List.filter p (List.map (fun x => L + 1 + x) (List.range d))) = [] by rw [hh]; simp
    generalize hl : List.filter p (List.map (fun x => L + 1 + x) (List.range d)) = l
    cases l with
    | nil => rfl
    | cons x xs =>
      have hx : x ∈ List.filter p (List.map (fun x => L + 1 + x) (List.range d)) := by
        rw [hl]; exact List.mem_cons_self
      have := (List.mem_filter.1 hx).1
      obtain ⟨k, _, rfl⟩ := List.mem_map.1 this
      rw [List.takeWhile_cons_of_neg]
      simp; omega
  · intro a ha
    have := (List.mem_filter.1 ha).1
    simp at this
    simp; omega

theorem upTo_eq {s : State} (hinv : Inv s) (limit : Nat) (h : cnt (limit + 1) ≤ s.size) :
    s.upTo limit = primesUpTo limit := by
  unfold State.upTo primesUpTo
  rw [logical_eq hinv, hinv.size_eq_cnt, ← filter_range_prime]
  by_cases hm : limit + 1 ≤ s.back + 1
  · exact takeWhile_filter_range _ _ _ hm
  · have he : cnt (s.back + 1) = cnt (limit + 1) := by
      apply le_antisymm (cnt_mono (by omega))
      rw [← hinv.size_eq_cnt]; exact h
    rw [filter_range_prime (limit + 1), ← he, ← filter_range_prime]
    rw [List.takeWhile_eq_self_iff]
    intro a ha
    have := (List.mem_filter.1 ha).1
    simp at this
    simp; omega

theorem generatePrimes_spec (s : State) (limit : Nat) (hinv : Inv s) (hlim : limit < maxLimit) :
    ∃ s', generatePrimes s limit = .ok (s', primesUpTo limit) ∧ Inv s' ∧
      s'.sieveBits = s.sieveBits ∧ s'.clearFlag = s.clearFlag ∧ s.buf.size ≤ s'.buf.size := by
  obtain ⟨s1, e, i1, sz, b, c, g⟩ := extend_spec s limit hinv hlim
  unfold generatePrimes
  rw [if_neg (by omega), e]
  simp only []
  rw [upTo_eq i1 limit (by rw [sz]; exact le_max_right _ _)]
  by_cases hc : s1.clearFlag = true
  · rw [if_pos hc]
    exact ⟨s1.clear, rfl, inv_clear i1, b, c, g⟩
  · rw [if_neg hc]
    exact ⟨s1, rfl, i1, b, c, g⟩

theorem generatePrimes_range (s : State) (limit : Nat) (hlim : maxLimit ≤ limit) :
    generatePrimes s limit = .error .range := by
  unfold generatePrimes
  rw [if_pos hlim]

end SymVerif.C33
