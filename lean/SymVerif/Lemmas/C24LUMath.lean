import Mathlib.Algebra.BigOperators.Fin
import Mathlib.Algebra.BigOperators.Intervals
import Mathlib.Tactic.Ring
import Mathlib.Tactic.FieldSimp
import Mathlib.Tactic.Linarith
import SymVerif.Lemmas.C24LU
/-! From the Doolittle recurrences on the storage (`ColEq`, X-level) to `L * U = A` over `ℚ`. -/
namespace SymVerif.Dense
open Finset

theorem fin_of_isFin {x : X} (h : x.isFin = true) : x = X.fin x.toRat := by
  cases x <;> simp_all [X.isFin, X.toRat]

theorem X_sub_mul_fin (a r c : ℚ) : X.sub (X.fin a) (X.mul (X.fin r) (X.fin c)) = X.fin (a - r * c) := by
  simp only [X.sub, X.add, X.mul, X.minusOne]
  congr 1; ring

theorem redF_fin (row colv : Nat → X) (r c : Nat → ℚ) (a : ℚ) :
    ∀ lim, (∀ k, k < lim → row k = X.fin (r k)) → (∀ k, k < lim → colv k = X.fin (c k)) →
      redF row colv (X.fin a) lim = X.fin (a - ∑ k ∈ range lim, r k * c k) := by
  intro lim
  induction lim with
  | zero => intro _ _; simp [redF, accF]
  | succ lim ih =>
    intro h1 h2
    have := ih (fun k hk => h1 k (by omega)) (fun k hk => h2 k (by omega))
    unfold redF at this ⊢
    simp only [accF]
    rw [this, h1 lim (by omega), h2 lim (by omega), X_sub_mul_fin, sum_range_succ]
    congr 1; ring

theorem X_mul_div_fin (x p : ℚ) (hp : p ≠ 0) :
    X.mul (X.fin x) (X.div X.one (X.fin p)) = X.fin (x * (1 / p)) := by
  simp [X.div, X.one, X.mul, hp]

/-- rational view of a storage -/
def qv (W : Array X) (n i j : Nat) : ℚ := (cell W n i j).toRat

/-- Under the algorithm's own precondition (every pivot that is divided by is a non-zero rational)
    all entries of the combined storage are rationals. -/
theorem lu_fin (n : Nat) (A W : Array X) (hcol : ∀ c, c < n → ColEq n A W c)
    (hA : ∀ i, i < n → ∀ j, j < n → (cell A n i j).isFin = true)
    (hp : ∀ j, j + 1 < n → (cell W n j j).isFin = true ∧ (cell W n j j).toRat ≠ 0) :
    ∀ c, c < n → ∀ i, i < n → (cell W n i c).isFin = true := by
  intro c
  induction c using Nat.strong_induction_on with
  | _ c ihc =>
    intro hc
    -- the reduction value of row i in column c, once the entries it reads are rational
    have red : ∀ i, i < n → (∀ k, k < min i c → (cell W n k c).isFin = true) →
        redF (fun k => cell W n i k) (fun k => cell W n k c) (cell A n i c) (min i c) =
          X.fin (qv A n i c - ∑ k ∈ range (min i c), qv W n i k * qv W n k c) := by
      intro i hi hk
      rw [fin_of_isFin (hA i hi c hc)]
      exact redF_fin _ _ (fun k => qv W n i k) (fun k => qv W n k c) _ _
        (fun k hk' => fin_of_isFin (ihc k (by omega) (by omega) i hi))
        (fun k hk' => fin_of_isFin (hk k hk'))
    have up : ∀ i, i ≤ c → (cell W n i c).isFin = true := by
      intro i
      induction i using Nat.strong_induction_on with
      | _ i ihi =>
        intro hic
        have hi : i < n := by omega
        rw [hcol c hc i hi]
        unfold colVal
        simp only [if_pos hic]
        rw [red i hi (fun k hk => ihi k (by omega) (by omega))]
        rfl
    intro i hi
    by_cases hic : i ≤ c
    · exact up i hic
    · have hcc := hcol c hc c hc
      unfold colVal at hcc
      simp only [if_pos (Nat.le_refl c)] at hcc
      rw [hcol c hc i hi]
      unfold colVal
      simp only [if_neg hic]
      rw [← hcc, red i hi (fun k hk => up k (by omega))]
      obtain ⟨pf, pz⟩ := hp c (by omega)
      rw [fin_of_isFin pf, X_mul_div_fin _ _ pz]
      rfl

/-- the Doolittle equations over `ℚ` -/
theorem lu_eqs (n : Nat) (A W : Array X) (hcol : ∀ c, c < n → ColEq n A W c)
    (hA : ∀ i, i < n → ∀ j, j < n → (cell A n i j).isFin = true)
    (hp : ∀ j, j + 1 < n → (cell W n j j).isFin = true ∧ (cell W n j j).toRat ≠ 0) :
    ∀ c, c < n → ∀ i, i < n →
      (i ≤ c → qv W n i c = qv A n i c - ∑ k ∈ range i, qv W n i k * qv W n k c) ∧
      (c < i → qv W n i c * qv W n c c = qv A n i c - ∑ k ∈ range c, qv W n i k * qv W n k c) := by
  have hfin := lu_fin n A W hcol hA hp
  intro c hc
  have red : ∀ i, i < n →
      redF (fun k => cell W n i k) (fun k => cell W n k c) (cell A n i c) (min i c) =
        X.fin (qv A n i c - ∑ k ∈ range (min i c), qv W n i k * qv W n k c) := by
    intro i hi
    rw [fin_of_isFin (hA i hi c hc)]
    exact redF_fin _ _ (fun k => qv W n i k) (fun k => qv W n k c) _ _
      (fun k hk' => fin_of_isFin (hfin k (by omega) i hi))
      (fun k hk' => fin_of_isFin (hfin c hc k (by omega)))
  intro i hi
  have hic := hcol c hc i hi
  unfold colVal at hic
  constructor
  · intro h
    simp only [if_pos h, red i hi] at hic
    unfold qv at hic ⊢
    rw [hic, Nat.min_eq_left h]; rfl
  · intro h
    have hcc := hcol c hc c hc
    unfold colVal at hcc
    have rc := red c hc
    rw [Nat.min_self] at rc
    simp only [if_pos (Nat.le_refl c), Nat.min_self, rc] at hcc
    simp only [if_neg (Nat.not_le.mpr h), red i hi, Nat.min_self, rc] at hic
    obtain ⟨_, pz⟩ := hp c (by omega)
    have hw : qv W n c c = qv A n c c - ∑ k ∈ range c, qv W n c k * qv W n k c := by
      unfold qv; rw [hcc]; rfl
    have pz' : qv W n c c ≠ 0 := pz
    rw [← hw] at hic
    have : X.mul (X.fin (qv A n i c - ∑ k ∈ range (min i c), qv W n i k * qv W n k c))
        (X.div X.one (X.fin (qv W n c c))) = _ := X_mul_div_fin _ _ pz'
    rw [this] at hic
    have hv : qv W n i c = (qv A n i c - ∑ k ∈ range (min i c), qv W n i k * qv W n k c) * (1 / qv W n c c) := by
      unfold qv at hic ⊢; rw [hic]; rfl
    rw [Nat.min_eq_right (Nat.le_of_lt h)] at hv
    rw [hv]
    field_simp

theorem sum_range_cut (f : ℕ → ℚ) (b n : ℕ) (hb : b ≤ n) (h0 : ∀ k, b ≤ k → k < n → f k = 0) :
    ∑ k ∈ range n, f k = ∑ k ∈ range b, f k := by
  induction n, hb using Nat.le_induction with
  | base => rfl
  | succ n hbn ih =>
    rw [sum_range_succ, ih (fun k hk hk2 => h0 k hk (by omega)), h0 n hbn (by omega), add_zero]

/-- the product of the unit-lower and the upper part of `W` is `A`, entry by entry -/
theorem lu_product (n : Nat) (A W : Array X) (hcol : ∀ c, c < n → ColEq n A W c)
    (hA : ∀ i, i < n → ∀ j, j < n → (cell A n i j).isFin = true)
    (hp : ∀ j, j + 1 < n → (cell W n j j).isFin = true ∧ (cell W n j j).toRat ≠ 0)
    (i j : Nat) (hi : i < n) (hj : j < n) :
    ∑ k ∈ range n, (if k < i then qv W n i k else if k = i then 1 else 0) *
        (if j < k then 0 else qv W n k j) = qv A n i j := by
  obtain ⟨e1, e2⟩ := lu_eqs n A W hcol hA hp j hj i hi
  by_cases hij : i ≤ j
  · rw [sum_range_cut _ (i + 1) n (by omega) (fun k hk _ => by
      rw [if_neg (by omega), if_neg (by omega), zero_mul]), sum_range_succ]
    rw [if_neg (Nat.lt_irrefl i), if_pos rfl, if_neg (by omega), one_mul, e1 hij]
    have : ∑ k ∈ range i, (if k < i then qv W n i k else if k = i then 1 else 0) *
        (if j < k then 0 else qv W n k j) = ∑ k ∈ range i, qv W n i k * qv W n k j := by
      apply sum_congr rfl
      intro k hk
      have hk := mem_range.mp hk
      rw [if_pos hk, if_neg (by omega)]
    rw [this]; ring
  · have hji : j < i := by omega
    rw [sum_range_cut _ (j + 1) n (by omega) (fun k hk _ => by
      simp only [if_pos (show j < k by omega), mul_zero]), sum_range_succ]
    rw [if_pos hji, if_neg (Nat.lt_irrefl j), e2 hji]
    have : ∑ k ∈ range j, (if k < i then qv W n i k else if k = i then 1 else 0) *
        (if j < k then 0 else qv W n k j) = ∑ k ∈ range j, qv W n i k * qv W n k j := by
      apply sum_congr rfl
      intro k hk
      have hk := mem_range.mp hk
      rw [if_pos (by omega), if_neg (by omega)]
    rw [this]; ring

end SymVerif.Dense
