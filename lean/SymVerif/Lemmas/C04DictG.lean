/-
C04: the dictionary algebra of Lemmas/C04Dict.lean for an arbitrary value semantics.

A `VS α` describes which expressions are legal dictionary *values* (`ok`), their meaning `val` in a
commutative monoid `α` (injective on legal values), the pure sum `add` of two values and the zero test
`isZ` that the C++ uses to erase an entry.  A sorted dictionary with legal non-zero values is a finitely
supported function `key ↦ α` (`lkG`), determined by it (`dokG_ext`); the generic update `updG` adds
point-wise, hence merging is commutative, associative and permutation invariant.

Instance used by the Mul theorems: values = summands of the safe Add fragment (exponents), with
`val a = (coefficient, term ↦ coefficient)` — see Lemmas/C04MulS.lean.
-/
import SymVerif.Lemmas.C04Dict

namespace SymVerif.AC
open SymVerif SymVerif.Arith

structure VS (α : Type) [AddCommMonoid α] where
  ok : Expr → Prop
  val : Expr → α
  inj : ∀ {a b : Expr}, ok a → ok b → val a = val b → a = b
  add : Expr → Expr → Expr
  add_ok : ∀ {a b : Expr}, ok a → ok b → ok (add a b)
  val_add : ∀ {a b : Expr}, ok a → ok b → val (add a b) = val a + val b
  isZ : Expr → Bool
  isZ_iff : ∀ {a : Expr}, ok a → (isZ a = true ↔ val a = 0)

variable {α : Type} [AddCommMonoid α] (V : VS α)

/-- the value at key `t` (0 when absent) -/
noncomputable def lkG (d : Dict) (t : Expr) : α :=
  match dfind d t with
  | some v => V.val v
  | none => 0

/-- sorted, legal values, no zero value -/
def DOKG (d : Dict) : Prop := Sorted d ∧ ∀ p ∈ d, V.ok p.2 ∧ V.val p.2 ≠ 0

theorem DOKG.nil : DOKG V [] := ⟨List.Pairwise.nil, by simp⟩

theorem dokG_ext {d₁ d₂ : Dict} (h1 : DOKG V d₁) (h2 : DOKG V d₂) (h : ∀ t, lkG V d₁ t = lkG V d₂ t) :
    d₁ = d₂ := by
  apply dfind_ext h1.1 h2.1
  intro t
  have := h t
  unfold lkG at this
  cases f1 : dfind d₁ t with
  | none =>
    cases f2 : dfind d₂ t with
    | none => rfl
    | some v₂ =>
      rw [f1, f2] at this
      exact absurd this.symm (h2.2 _ (dfind_some f2)).2
  | some v₁ =>
    cases f2 : dfind d₂ t with
    | none =>
      rw [f1, f2] at this
      exact absurd this (h1.2 _ (dfind_some f1)).2
    | some v₂ =>
      rw [f1, f2] at this
      have e : v₁ = v₂ := V.inj (h1.2 _ (dfind_some f1)).1 (h2.2 _ (dfind_some f2)).1 this
      rw [e]

/-- the generic point-wise update -/
noncomputable def updG (d : Dict) (c t : Expr) : Dict :=
  match dfind d t with
  | none => if !V.isZ c then dinsert d t c else d
  | some v => if V.isZ (V.add v c) then derase d t else dset d t (V.add v c)

theorem updG_DOK {d : Dict} {c : Expr} (t : Expr) (hd : DOKG V d) (hc : V.ok c) : DOKG V (updG V d c t) := by
  unfold updG
  cases hf : dfind d t with
  | none =>
    simp only []
    split
    · rename_i hz
      refine ⟨sorted_dinsert hd.1, ?_⟩
      intro p hp
      rcases mem_dinsert hp with rfl | hp
      · refine ⟨hc, ?_⟩
        intro h0
        rw [← V.isZ_iff hc] at h0
        simp [h0] at hz
      · exact hd.2 p hp
    · exact hd
  | some v =>
    simp only []
    have hv := (hd.2 _ (dfind_some hf)).1
    split
    · exact ⟨sorted_derase hd.1, fun p hp => hd.2 p (mem_derase hp)⟩
    · rename_i hz
      refine ⟨sorted_dset hd.1, ?_⟩
      intro p hp
      rcases mem_dset hp with rfl | hp
      · refine ⟨V.add_ok hv hc, ?_⟩
        intro h0
        apply hz
        rw [V.isZ_iff (V.add_ok hv hc)]
        exact h0
      · exact hd.2 p hp

theorem lkG_upd {d : Dict} {c : Expr} (t u : Expr) (hd : DOKG V d) (hc : V.ok c) :
    lkG V (updG V d c t) u = lkG V d u + (if key u == key t then V.val c else 0) := by
  unfold updG
  cases hf : dfind d t with
  | none =>
    simp only []
    split
    · unfold lkG
      rw [dfind_dinsert u hf]
      by_cases hut : (key u == key t) = true
      · have e : u = t := key_beq_iff.mp hut
        subst e
        simp [hf]
      · simp [hut]
    · rename_i hz
      have hz' : V.isZ c = true := by simpa using hz
      rw [V.isZ_iff hc] at hz'
      simp [hz']
  | some v =>
    simp only []
    have hv := (hd.2 _ (dfind_some hf)).1
    split
    · rename_i hz
      rw [V.isZ_iff (V.add_ok hv hc), V.val_add hv hc] at hz
      unfold lkG
      rw [dfind_derase t u hd.1]
      by_cases hut : (key u == key t) = true
      · have e : u = t := key_beq_iff.mp hut
        subst e
        simp [hf, hz]
      · simp [hut]
    · unfold lkG
      rw [dfind_dset]
      by_cases hut : (key u == key t) = true
      · have e : u = t := key_beq_iff.mp hut
        subst e
        simp [hf, V.val_add hv hc]
      · simp [hut]

noncomputable def mergeG (d : Dict) : Dict → Dict
  | [] => d
  | (k, v) :: r => mergeG (updG V d v k) r

def ValsOKG (l : Dict) : Prop := ∀ p ∈ l, V.ok p.2

theorem DOKG.vals {d : Dict} (h : DOKG V d) : ValsOKG V d := fun p hp => (h.2 p hp).1

theorem mergeG_DOK : ∀ {d : Dict} (l : Dict), DOKG V d → ValsOKG V l → DOKG V (mergeG V d l)
  | _, [], hd, _ => hd
  | d, (k, v) :: r, hd, hl =>
    mergeG_DOK r (updG_DOK V k hd (hl (k, v) List.mem_cons_self))
      (fun p hp => hl p (List.mem_cons_of_mem _ hp))

noncomputable def contribG (l : Dict) (u : Expr) : α :=
  (l.map (fun p => if key u == key p.1 then V.val p.2 else 0)).sum

theorem lkG_merge_contrib : ∀ {d : Dict} (l : Dict) (u : Expr), DOKG V d → ValsOKG V l →
    lkG V (mergeG V d l) u = lkG V d u + contribG V l u
  | _, [], _, _, _ => by simp [mergeG, contribG]
  | d, (k, v) :: r, u, hd, hl => by
    have hv : V.ok v := hl (k, v) List.mem_cons_self
    simp only [mergeG]
    rw [lkG_merge_contrib r u (updG_DOK V k hd hv) (fun p hp => hl p (List.mem_cons_of_mem _ hp)),
      lkG_upd V k u hd hv]
    simp [contribG, add_assoc]

theorem contribG_perm {l₁ l₂ : Dict} (h : l₁.Perm l₂) (u : Expr) : contribG V l₁ u = contribG V l₂ u :=
  (h.map _).sum_eq

theorem contribG_sorted : ∀ {l : Dict} (u : Expr), Sorted l → contribG V l u = lkG V l u
  | [], u, _ => by simp [contribG, lkG, dfind]
  | (k, v) :: r, u, hs => by
    have ih := contribG_sorted u hs.tail
    unfold contribG at ih ⊢
    simp only [List.map_cons, List.sum_cons, ih]
    unfold lkG
    rw [dfind_cons]
    by_cases hku : (key k == key u) = true
    · have e : k = u := key_beq_iff.mp hku
      subst e
      simp [dfind_tail_none hs]
    · have : ¬ (key u == key k) = true := by rw [keq_comm]; exact hku
      simp [hku, this]

theorem lkG_merge {d₁ d₂ : Dict} (u : Expr) (h1 : DOKG V d₁) (h2 : DOKG V d₂) :
    lkG V (mergeG V d₁ d₂) u = lkG V d₁ u + lkG V d₂ u := by
  rw [lkG_merge_contrib V d₂ u h1 h2.vals, contribG_sorted V u h2.1]

theorem mergeG_comm {d₁ d₂ : Dict} (h1 : DOKG V d₁) (h2 : DOKG V d₂) : mergeG V d₁ d₂ = mergeG V d₂ d₁ := by
  apply dokG_ext V (mergeG_DOK V _ h1 h2.vals) (mergeG_DOK V _ h2 h1.vals)
  intro t
  rw [lkG_merge V t h1 h2, lkG_merge V t h2 h1, add_comm]

theorem mergeG_assoc {d₁ d₂ d₃ : Dict} (h1 : DOKG V d₁) (h2 : DOKG V d₂) (h3 : DOKG V d₃) :
    mergeG V (mergeG V d₁ d₂) d₃ = mergeG V d₁ (mergeG V d₂ d₃) := by
  have h12 := mergeG_DOK V _ h1 h2.vals
  have h23 := mergeG_DOK V _ h2 h3.vals
  apply dokG_ext V (mergeG_DOK V _ h12 h3.vals) (mergeG_DOK V _ h1 h23.vals)
  intro t
  rw [lkG_merge V t h12 h3, lkG_merge V t h1 h2, lkG_merge V t h1 h23, lkG_merge V t h2 h3, add_assoc]

theorem mergeG_nil_left {d : Dict} (h : DOKG V d) : mergeG V [] d = d := by
  apply dokG_ext V (mergeG_DOK V _ (DOKG.nil V) h.vals) h
  intro t
  rw [lkG_merge V t (DOKG.nil V) h]
  simp [lkG, dfind]

theorem mergeG_perm {d : Dict} {l₁ l₂ : Dict} (hd : DOKG V d) (h1 : ValsOKG V l₁) (hp : l₁.Perm l₂) :
    mergeG V d l₁ = mergeG V d l₂ := by
  have h2 : ValsOKG V l₂ := fun p hp' => h1 p (hp.mem_iff.mpr hp')
  apply dokG_ext V (mergeG_DOK V _ hd h1) (mergeG_DOK V _ hd h2)
  intro t
  rw [lkG_merge_contrib V l₁ t hd h1, lkG_merge_contrib V l₂ t hd h2, contribG_perm V hp]

theorem mergeG_keys : ∀ (l d : Dict) (P : Expr → Prop), (∀ q ∈ d, P q.1) → (∀ q ∈ l, P q.1) →
    ∀ q ∈ mergeG V d l, P q.1
  | [], d, _, hd, _, q, hq => hd q hq
  | (k, v) :: r, d, P, hd, hl, q, hq => by
    refine mergeG_keys r (updG V d v k) P ?_ (fun q hq => hl q (List.mem_cons_of_mem _ hq)) q hq
    intro q hq
    unfold updG at hq
    split at hq
    · split at hq
      · rcases mem_dinsert hq with rfl | hq
        · exact hl (k, v) List.mem_cons_self
        · exact hd q hq
      · exact hd q hq
    · split at hq
      · exact hd q (mem_derase hq)
      · rcases mem_dset hq with rfl | hq
        · exact hl (k, v) List.mem_cons_self
        · exact hd q hq

theorem length_updG_le (d : Dict) (c t : Expr) : (updG V d c t).length ≤ d.length + 1 := by
  have hins : ∀ (d : Dict) (t v : Expr), (dinsert d t v).length ≤ d.length + 1 := by
    intro d
    induction d with
    | nil => intros; simp [dinsert]
    | cons p r ih =>
      obtain ⟨k, x⟩ := p
      intro t v
      simp only [dinsert]
      split
      · simp
      · split
        · simp
        · simp only [List.length_cons]; have := ih t v; omega
  have hset : ∀ (d : Dict) (t v : Expr), (dset d t v).length = d.length := by
    intro d t v
    have := congrArg List.length (dset_keys d t v)
    simpa using this
  unfold updG
  split
  · split
    · exact hins d t c
    · omega
  · split
    · have := (derase_sublist d t).length_le; omega
    · rw [hset]; omega

theorem length_mergeG_le : ∀ (l d : Dict), (mergeG V d l).length ≤ d.length + l.length
  | [], d => by simp [mergeG]
  | (k, v) :: r, d => by
    simp only [mergeG, List.length_cons]
    have := length_mergeG_le r (updG V d v k)
    have := length_updG_le V d v k
    omega

end SymVerif.AC
