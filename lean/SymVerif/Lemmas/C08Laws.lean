import SymVerif.Lemmas.C08Trig
import Mathlib.Analysis.SpecialFunctions.Trigonometric.Basic
/-!
C08: the real and the complex trigonometric functions satisfy `TrigLaws`.
The six functions are built from `sin` and `cos` (`tan = sin/cos`, `cot = cos/sin`, `csc = 1/sin`,
`sec = 1/cos`, with Lean's total division); the laws are derived from eight laws of the pair.
-/
set_option linter.unusedSectionVars false
set_option linter.unusedSimpArgs false
namespace SymVerif.Funcs

variable {K : Type} [Field K] [CharZero K]

structure SinCos (pi : K) (S C : K → K) : Prop where
  sin_per : ∀ (x : K) (k : ℤ), S (x + k * (2 * pi)) = S x
  cos_per : ∀ (x : K) (k : ℤ), C (x + k * (2 * pi)) = C x
  sin_neg : ∀ x, S (-x) = -S x
  cos_neg : ∀ x, C (-x) = C x
  sin_quarter : ∀ x, S (x + pi / 2) = C x
  cos_quarter : ∀ x, C (x + pi / 2) = -S x
  sin_half : ∀ x, S (x + pi) = -S x
  cos_half : ∀ x, C (x + pi) = -C x

/-- the six functions from a sine and a cosine -/
def mkF (S C : K → K) : TrigFn → K → K
  | .sin, x => S x
  | .cos, x => C x
  | .tan, x => S x / C x
  | .cot, x => C x / S x
  | .csc, x => 1 / S x
  | .sec, x => 1 / C x

theorem SinCos.int_pi {pi : K} {S C : K → K} (h : SinCos pi S C) (x : K) (k : ℤ) :
    ∃ ε : K, ε ≠ 0 ∧ S (x + k * pi) = ε * S x ∧ C (x + k * pi) = ε * C x := by
  induction k using Int.induction_on with
  | zero => exact ⟨1, one_ne_zero, by simp, by simp⟩
  | succ n ih =>
    obtain ⟨ε, h0, hs, hc⟩ := ih
    refine ⟨-ε, neg_ne_zero.mpr h0, ?_, ?_⟩
    · have : x + ((n + 1 : ℕ) : ℤ) * pi = (x + (n : ℤ) * pi) + pi := by push_cast; ring
      rw [show ((↑n + 1 : ℤ) : K) = (((n + 1 : ℕ) : ℤ) : K) by push_cast; ring, this, h.sin_half, hs]; ring
    · have : x + ((n + 1 : ℕ) : ℤ) * pi = (x + (n : ℤ) * pi) + pi := by push_cast; ring
      rw [show ((↑n + 1 : ℤ) : K) = (((n + 1 : ℕ) : ℤ) : K) by push_cast; ring, this, h.cos_half, hc]; ring
  | pred n ih =>
    obtain ⟨ε, h0, hs, hc⟩ := ih
    refine ⟨-ε, neg_ne_zero.mpr h0, ?_, ?_⟩
    · have e : (x + ((-(n : ℤ) - 1 : ℤ) : K) * pi) + pi = x + ((-(n : ℤ) : ℤ) : K) * pi := by push_cast; ring
      have := h.sin_half (x + ((-(n : ℤ) - 1 : ℤ) : K) * pi)
      rw [e, hs] at this
      linear_combination this
    · have e : (x + ((-(n : ℤ) - 1 : ℤ) : K) * pi) + pi = x + ((-(n : ℤ) : ℤ) : K) * pi := by push_cast; ring
      have := h.cos_half (x + ((-(n : ℤ) - 1 : ℤ) : K) * pi)
      rw [e, hc] at this
      linear_combination this

theorem trigLaws_of_sinCos {pi : K} {S C : K → K} (h : SinCos pi S C) : TrigLaws pi (mkF S C) where
  periodic := by
    intro fn x k
    have two : x + (k : K) * ((2 : ℕ) : K) * pi = x + k * (2 * pi) := by push_cast; ring
    have one' : x + (k : K) * ((1 : ℕ) : K) * pi = x + k * pi := by push_cast; ring
    cases fn
    · simp only [TrigFn.period, mkF]; rw [two, h.sin_per]
    · simp only [TrigFn.period, mkF]; rw [two, h.cos_per]
    · simp only [TrigFn.period, mkF]; rw [one']
      obtain ⟨ε, h0, hs, hc⟩ := h.int_pi x k
      rw [hs, hc, mul_div_mul_left _ _ h0]
    · simp only [TrigFn.period, mkF]; rw [one']
      obtain ⟨ε, h0, hs, hc⟩ := h.int_pi x k
      rw [hs, hc, mul_div_mul_left _ _ h0]
    · simp only [TrigFn.period, mkF]; rw [two, h.sin_per]
    · simp only [TrigFn.period, mkF]; rw [two, h.cos_per]
  parity := by
    intro fn x
    cases fn <;> simp [TrigFn.odd, mkF, h.sin_neg, h.cos_neg, neg_div, div_neg]
  quarter := by
    intro fn x
    cases fn <;> simp [TrigFn.conjOdd, TrigFn.co, mkF, h.sin_quarter, h.cos_quarter, neg_div, div_neg]
  half := by
    intro fn x hP
    cases fn <;> simp [TrigFn.period] at hP <;>
      simp [mkF, h.sin_half, h.cos_half, neg_div, div_neg]

open Real in
theorem realSinCos : SinCos (K := ℝ) π Real.sin Real.cos where
  sin_per := Real.sin_add_int_mul_two_pi
  cos_per := Real.cos_add_int_mul_two_pi
  sin_neg := Real.sin_neg
  cos_neg := Real.cos_neg
  sin_quarter := Real.sin_add_pi_div_two
  cos_quarter := Real.cos_add_pi_div_two
  sin_half := Real.sin_add_pi
  cos_half := Real.cos_add_pi

open Real in
theorem complexSinCos : SinCos (K := ℂ) (π : ℂ) Complex.sin Complex.cos where
  sin_per := Complex.sin_add_int_mul_two_pi
  cos_per := Complex.cos_add_int_mul_two_pi
  sin_neg := Complex.sin_neg
  cos_neg := Complex.cos_neg
  sin_quarter := Complex.sin_add_pi_div_two
  cos_quarter := Complex.cos_add_pi_div_two
  sin_half := Complex.sin_add_pi
  cos_half := Complex.cos_add_pi

/-- sin cos tan cot csc sec on ℝ -/
noncomputable def Fr : TrigFn → ℝ → ℝ := mkF Real.sin Real.cos
/-- sin cos tan cot csc sec on ℂ -/
noncomputable def Fc : TrigFn → ℂ → ℂ := mkF Complex.sin Complex.cos

theorem realLaws : TrigLaws (K := ℝ) Real.pi Fr := trigLaws_of_sinCos realSinCos
theorem complexLaws : TrigLaws (K := ℂ) (Real.pi : ℂ) Fc := trigLaws_of_sinCos complexSinCos

theorem Fr_tan (x : ℝ) : Fr .tan x = Real.tan x := by simp [Fr, mkF, Real.tan_eq_sin_div_cos]
theorem Fc_tan (x : ℂ) : Fc .tan x = Complex.tan x := by simp [Fc, mkF, Complex.tan_eq_sin_div_cos]

end SymVerif.Funcs
