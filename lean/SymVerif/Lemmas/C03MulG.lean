/-
C03: `PowerExpOK` — the exponent `v * n` computed by `Mul::power_num` is non-zero, and a legal
exponent for its base wherever it is handed on to `dict_add_term_new`.
-/
import SymVerif.Lemmas.C03MulF

namespace SymVerif.Arith

/-! ### multiplication by a non-zero Integer does not give zero -/

theorem Q.norm_den_ne {n : Int} {d : Nat} (hd : d ≠ 0) : (Q.norm n d).den ≠ 0 :=
  (Q.canon_iff.mp (Q.norm_canon n d hd)).1

theorem Q.norm_num_zero {n : Int} {d : Nat} (hd : d ≠ 0) : (Q.norm n d).num = 0 ↔ n = 0 := by
  have hg : 0 < Nat.gcd n.natAbs d := Nat.gcd_pos_of_pos_right _ (Nat.pos_of_ne_zero hd)
  have hdvd : ((Nat.gcd n.natAbs d : Nat) : Int) ∣ n := Int.ofNat_dvd_left.mpr (Nat.gcd_dvd_left _ _)
  obtain ⟨g, hgdef⟩ : ∃ g, g = Nat.gcd n.natAbs d := ⟨_, rfl⟩
  rw [← hgdef] at hg hdvd
  have hg0 : (g == 0) = false := by simp; omega
  simp only [Q.norm, ← hgdef, hg0, Bool.false_eq_true, ↓reduceIte]
  constructor
  · intro h
    obtain ⟨c, hc⟩ := hdvd
    have hgne : (g : Int) ≠ 0 := by omega
    rw [hc, Int.mul_ediv_cancel_left _ hgne] at h
    rw [hc, h]; simp
  · intro h; simp [h]

theorem Q.mul_num_zero {a b : Q} (ha : a.den ≠ 0) (hb : b.den ≠ 0) :
    (Q.mul a b).num = 0 ↔ a.num = 0 ∨ b.num = 0 := by
  unfold Q.mul
  rw [Q.norm_num_zero (Nat.mul_ne_zero ha hb)]
  exact Int.mul_eq_zero

theorem Q.mul_den_ne {a b : Q} (ha : a.den ≠ 0) (hb : b.den ≠ 0) : (Q.mul a b).den ≠ 0 :=
  Q.norm_den_ne (Nat.mul_ne_zero ha hb)

theorem Q.add_num_zero_of_right {a b : Q} (ha : a.den ≠ 0) (hb : b.den ≠ 0) (hz : b.num = 0) :
    (Q.add a b).num = 0 ↔ a.num = 0 := by
  unfold Q.add
  rw [Q.norm_num_zero (Nat.mul_ne_zero ha hb), hz]
  simp
  constructor
  · intro h
    rcases Int.mul_eq_zero.mp h with h | h
    · exact h
    · omega
  · intro h; simp [h]

theorem Q.add_num_zero_of_left {a b : Q} (ha : a.den ≠ 0) (hb : b.den ≠ 0) (hz : a.num = 0) :
    (Q.add a b).num = 0 ↔ b.num = 0 := by
  unfold Q.add
  rw [Q.norm_num_zero (Nat.mul_ne_zero ha hb), hz]
  simp
  constructor
  · intro h
    rcases Int.mul_eq_zero.mp h with h | h
    · exact h
    · omega
  · intro h; simp [h]

theorem numIsZero_ofGQ {re im : Q} (h : numIsZero (ofGQ re im) = true) : re.num = 0 ∧ im.num = 0 := by
  unfold ofGQ at h
  split at h
  · rename_i hi
    refine ⟨?_, by simpa using hi⟩
    unfold ofQ at h
    split at h <;> simpa [numIsZero] using h
  · simp [numIsZero] at h

theorem exOK_dens {a : Expr} {ar ai : Q} (ha : canon a = true) (hg : toGQ a = some (ar, ai)) :
    ar.den ≠ 0 ∧ ai.den ≠ 0 := by
  have := toGQ_canon ha hg
  exact ⟨(Q.canon_iff.mp this.1).1, (Q.canon_iff.mp this.2).1⟩

theorem numIsZero_of_parts {a : Expr} {ar ai : Q} (ha : canon a = true) (hg : toGQ a = some (ar, ai))
    (h1 : ar.num = 0) (h2 : ai.num = 0) : numIsZero a = true := by
  cases a <;> simp [toGQ] at hg
  · obtain ⟨rfl, _⟩ := hg; simpa [numIsZero] using h1
  · obtain ⟨rfl, _⟩ := hg; simpa [numIsZero] using h1
  · obtain ⟨rfl, rfl⟩ := hg
    rw [canon_cplx] at ha
    simp [cplxCanon, h2] at ha

/-- `a * m` for a canonical non-zero Number `a` and a non-zero Integer `m` is not zero -/
theorem numMul_int_nonzero {a r : Expr} {m : Int} (ha : NumOK a) (hz : numIsZero a = false)
    (hm : m ≠ 0) (h : numMul a (.int m) = .ok r) : numIsZero r = false := by
  cases hg : toGQ a with
  | some p =>
    obtain ⟨ar, ai⟩ := p
    obtain ⟨dr, di⟩ := exOK_dens ha.2 hg
    have dm : (⟨m, 1⟩ : Q).den ≠ 0 := by simp
    have hm' : toGQ (.int m) = some (⟨m, 1⟩, Q.zero) := rfl
    simp only [numMul, hg, hm'] at h
    simp at h; subst h
    cases hzr : numIsZero (ofGQ (Q.sub (Q.mul ar ⟨m, 1⟩) (Q.mul ai Q.zero))
        (Q.add (Q.mul ar Q.zero) (Q.mul ai ⟨m, 1⟩))) with
    | false => rfl
    | true =>
      obtain ⟨h1, h2⟩ := numIsZero_ofGQ hzr
      have z1 : (Q.mul ai Q.zero).num = 0 := (Q.mul_num_zero di (by decide)).mpr (Or.inr rfl)
      have z2 : (Q.mul ar Q.zero).num = 0 := (Q.mul_num_zero dr (by decide)).mpr (Or.inr rfl)
      have e1 : ar.num = 0 := by
        unfold Q.sub at h1
        rw [Q.add_num_zero_of_right (Q.mul_den_ne dr dm)
          (by simpa [Q.neg] using Q.mul_den_ne di (by decide)) (by simp [Q.neg, z1])] at h1
        rcases (Q.mul_num_zero dr dm).mp h1 with h | h
        · exact h
        · exact absurd h hm
      have e2 : ai.num = 0 := by
        rw [Q.add_num_zero_of_left (Q.mul_den_ne dr (by decide)) (Q.mul_den_ne di dm) z2] at h2
        rcases (Q.mul_num_zero di dm).mp h2 with h | h
        · exact h
        · exact absurd h hm
      rw [numIsZero_of_parts ha.2 hg e1 e2] at hz
      exact absurd hz (by simp)
  | none =>
    have hex : isExactNum a = false := by
      cases a <;> simp_all [toGQ, isExactNum]
    cases a <;> simp_all [toGQ, isExactNum, numMul, Expr.isNum]
    · -- infty
      unfold inftyMulExact at h
      split at h
      · simp at h
      · split at h
        · simp at h; subst h; rfl
        · split at h
          · simp at h; subst h; rfl
          · rename_i h1 h2
            simp [numIsPositive, numIsNegative] at h1 h2
            omega

/-- `1 * v` for a canonical non-zero Number `v` is not zero -/
theorem numMul_one_nonzero {v r : Expr} (hv : NumOK v) (hz : numIsZero v = false)
    (h : numMul one v = .ok r) : numIsZero r = false := by
  cases hg : toGQ v with
  | some p =>
    obtain ⟨vr, vi⟩ := p
    obtain ⟨dr, di⟩ := exOK_dens hv.2 hg
    have ho : toGQ one = some (⟨1, 1⟩, Q.zero) := rfl
    simp only [numMul, hg, ho] at h
    simp at h; subst h
    cases hzr : numIsZero (ofGQ (Q.sub (Q.mul ⟨1, 1⟩ vr) (Q.mul Q.zero vi))
        (Q.add (Q.mul ⟨1, 1⟩ vi) (Q.mul Q.zero vr))) with
    | false => rfl
    | true =>
      obtain ⟨h1, h2⟩ := numIsZero_ofGQ hzr
      have z1 : (Q.mul Q.zero vi).num = 0 := (Q.mul_num_zero (by decide) di).mpr (Or.inl rfl)
      have z2 : (Q.mul Q.zero vr).num = 0 := (Q.mul_num_zero (by decide) dr).mpr (Or.inl rfl)
      have e1 : vr.num = 0 := by
        unfold Q.sub at h1
        rw [Q.add_num_zero_of_right (Q.mul_den_ne (by decide) dr)
          (by simpa [Q.neg] using Q.mul_den_ne (by decide) di) (by simp [Q.neg, z1])] at h1
        rcases (Q.mul_num_zero (by decide) dr).mp h1 with h | h
        · simp at h
        · exact h
      have e2 : vi.num = 0 := by
        rw [Q.add_num_zero_of_right (Q.mul_den_ne (by decide) di) (Q.mul_den_ne (by decide) dr) z2] at h2
        rcases (Q.mul_num_zero (by decide) di).mp h2 with h | h
        · simp at h
        · exact h
      rw [numIsZero_of_parts hv.2 hg e1 e2] at hz
      exact absurd hz (by simp)
  | none =>
    cases v <;> simp_all [toGQ, numMul, Expr.isNum, one, isExactNum]
    · unfold inftyMulExact at h
      simp [numIsPositive] at h
      subst h; rfl

end SymVerif.Arith
