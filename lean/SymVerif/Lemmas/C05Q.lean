import SymVerif.Model.Num
import Mathlib.Data.Rat.Lemmas
import Mathlib.Tactic.Ring
import Mathlib.Tactic.FieldSimp
import Mathlib.Tactic.Linarith
import Mathlib.Tactic.Positivity
import Mathlib.Data.Nat.Cast.Field
import Mathlib.Data.Int.Cast.Field
import Mathlib.Algebra.Order.Ring.Int
/-!
Lemmas about the `mpq` model `Q`: every operation returns the canonical representation of the
mathematical result (`toRat` is the value in Mathlib's `ℚ`).
-/
namespace SymVerif.Num.Q

theorem natAbs_q_of_neg {n : ℤ} (h : n < 0) : ((n.natAbs : ℕ) : ℚ) = -(n : ℚ) := by
  rw [Nat.cast_natAbs, abs_of_neg h]; push_cast; rfl

theorem natAbs_q_of_nonneg {n : ℤ} (h : 0 ≤ n) : ((n.natAbs : ℕ) : ℚ) = (n : ℚ) := by
  rw [Nat.cast_natAbs, abs_of_nonneg h]

/-- mathematical value -/
def toRat (q : Q) : ℚ := (q.num : ℚ) / (q.den : ℚ)

/-- canonical `mpq`: positive denominator, lowest terms -/
def Canon (q : Q) : Prop := 0 < q.den ∧ Int.gcd q.num (q.den : Int) = 1

theorem canon_iff (q : Q) : q.canon = true ↔ q.Canon := by
  simp [canon, Canon]

theorem Canon.pos {q : Q} (h : q.Canon) : 0 < q.den := h.1

theorem Canon.ofInt (n : Int) : (Q.ofInt n).Canon := by
  simp [Canon, Q.ofInt]

@[simp] theorem toRat_ofInt (n : Int) : (Q.ofInt n).toRat = n := by
  simp [toRat, Q.ofInt]

theorem norm_den_pos {n : Int} {d : Nat} (hd : 0 < d) : 0 < (norm n d).den := by
  have hg : 0 < Int.gcd n (d : Int) := Int.gcd_pos_of_ne_zero_right _ (by exact_mod_cast hd.ne')
  have hdvd : Int.gcd n (d : Int) ∣ d := by
    have := Int.gcd_dvd_right n (d : Int)
    exact_mod_cast this
  simp only [norm]
  exact Nat.div_pos (Nat.le_of_dvd hd hdvd) hg

theorem norm_canon {n : Int} {d : Nat} (hd : 0 < d) : (norm n d).Canon := by
  refine ⟨norm_den_pos hd, ?_⟩
  have hg : 0 < Int.gcd n (d : Int) := Int.gcd_pos_of_ne_zero_right _ (by exact_mod_cast hd.ne')
  have h := Int.gcd_div_gcd_div_gcd (i := n) (j := (d : Int)) hg
  simp only [norm]
  rw [Int.natCast_div]
  exact h

theorem toRat_norm {n : Int} {d : Nat} (hd : 0 < d) : (norm n d).toRat = (n : ℚ) / (d : ℚ) := by
  have hg : 0 < Int.gcd n (d : Int) := Int.gcd_pos_of_ne_zero_right _ (by exact_mod_cast hd.ne')
  have hgq : ((Int.gcd n (d : Int) : ℕ) : ℚ) ≠ 0 := by exact_mod_cast hg.ne'
  have h1 : ((Int.gcd n (d : Int) : ℕ) : ℤ) ∣ n := Int.gcd_dvd_left n (d : Int)
  have h2 : Int.gcd n (d : Int) ∣ d := by
    have := Int.gcd_dvd_right n (d : Int)
    exact_mod_cast this
  have hdq : (d : ℚ) ≠ 0 := by exact_mod_cast hd.ne'
  simp only [norm, toRat]
  rw [Int.cast_div h1 (by exact_mod_cast hgq), Nat.cast_div h2 hgq]
  push_cast
  field_simp

theorem toRat_add {a b : Q} (ha : 0 < a.den) (hb : 0 < b.den) :
    (a.add b).toRat = a.toRat + b.toRat := by
  have h1 : (a.den : ℚ) ≠ 0 := by exact_mod_cast ha.ne'
  have h2 : (b.den : ℚ) ≠ 0 := by exact_mod_cast hb.ne'
  rw [Q.add, toRat_norm (Nat.mul_pos ha hb)]
  simp only [toRat]; push_cast; field_simp

theorem toRat_sub {a b : Q} (ha : 0 < a.den) (hb : 0 < b.den) :
    (a.sub b).toRat = a.toRat - b.toRat := by
  have h1 : (a.den : ℚ) ≠ 0 := by exact_mod_cast ha.ne'
  have h2 : (b.den : ℚ) ≠ 0 := by exact_mod_cast hb.ne'
  rw [Q.sub, toRat_norm (Nat.mul_pos ha hb)]
  simp only [toRat]; push_cast; field_simp

theorem toRat_mul {a b : Q} (ha : 0 < a.den) (hb : 0 < b.den) :
    (a.mul b).toRat = a.toRat * b.toRat := by
  have h1 : (a.den : ℚ) ≠ 0 := by exact_mod_cast ha.ne'
  have h2 : (b.den : ℚ) ≠ 0 := by exact_mod_cast hb.ne'
  rw [Q.mul, toRat_norm (Nat.mul_pos ha hb)]
  simp only [toRat]; push_cast; field_simp

@[simp] theorem toRat_neg (a : Q) : a.neg.toRat = -a.toRat := by
  simp only [toRat, Q.neg]; push_cast; ring

theorem add_den_pos {a b : Q} (ha : 0 < a.den) (hb : 0 < b.den) : 0 < (a.add b).den :=
  norm_den_pos (Nat.mul_pos ha hb)
theorem sub_den_pos {a b : Q} (ha : 0 < a.den) (hb : 0 < b.den) : 0 < (a.sub b).den :=
  norm_den_pos (Nat.mul_pos ha hb)
theorem mul_den_pos {a b : Q} (ha : 0 < a.den) (hb : 0 < b.den) : 0 < (a.mul b).den :=
  norm_den_pos (Nat.mul_pos ha hb)
theorem add_canon {a b : Q} (ha : 0 < a.den) (hb : 0 < b.den) : (a.add b).Canon :=
  norm_canon (Nat.mul_pos ha hb)
theorem sub_canon {a b : Q} (ha : 0 < a.den) (hb : 0 < b.den) : (a.sub b).Canon :=
  norm_canon (Nat.mul_pos ha hb)
theorem mul_canon {a b : Q} (ha : 0 < a.den) (hb : 0 < b.den) : (a.mul b).Canon :=
  norm_canon (Nat.mul_pos ha hb)
theorem neg_canon {a : Q} (ha : a.Canon) : a.neg.Canon := by
  obtain ⟨h1, h2⟩ := ha
  exact ⟨h1, by simpa [Q.neg] using h2⟩

theorem inv_den_pos {a : Q} (hn : a.num ≠ 0) : 0 < a.inv.den := by
  unfold Q.inv; split <;> simpa [Int.natAbs_pos] using hn

theorem toRat_inv {a : Q} (ha : 0 < a.den) (hn : a.num ≠ 0) : a.inv.toRat = (a.toRat)⁻¹ := by
  have h1 : (a.den : ℚ) ≠ 0 := by exact_mod_cast ha.ne'
  have h2 : (a.num : ℚ) ≠ 0 := by exact_mod_cast hn
  unfold Q.inv toRat
  split
  · next h =>
    rw [natAbs_q_of_neg h]; push_cast; field_simp
  · next h =>
    rw [natAbs_q_of_nonneg (not_lt.mp h)]; push_cast; field_simp

theorem inv_canon {a : Q} (ha : a.Canon) (hn : a.num ≠ 0) : a.inv.Canon := by
  refine ⟨inv_den_pos hn, ?_⟩
  obtain ⟨_, h2⟩ := ha
  have h3 : Nat.gcd a.num.natAbs a.den = 1 := by simpa [Int.gcd] using h2
  unfold Q.inv; split <;> simp [Int.gcd] <;> (rw [Int.natAbs_abs, Nat.gcd_comm]; exact h3)

theorem toRat_div {a b : Q} (ha : 0 < a.den) (hb : 0 < b.den) (hn : b.num ≠ 0) :
    (a.div b).toRat = a.toRat / b.toRat := by
  rw [Q.div, toRat_mul ha (inv_den_pos hn), toRat_inv hb hn, div_eq_mul_inv]

theorem div_canon {a b : Q} (ha : 0 < a.den) (hn : b.num ≠ 0) : (a.div b).Canon :=
  mul_canon ha (inv_den_pos hn)

theorem toRat_pow (a : Q) (k : Nat) : (a.pow k).toRat = a.toRat ^ k := by
  simp only [toRat, Q.pow]; push_cast; rw [div_pow]

theorem pow_canon {a : Q} (ha : a.Canon) (k : Nat) : (a.pow k).Canon := by
  obtain ⟨h1, h2⟩ := ha
  refine ⟨by simpa [Q.pow] using Nat.pow_pos (n := k) h1, ?_⟩
  simp only [Q.pow]
  have hc : Nat.Coprime a.num.natAbs a.den := by simpa [Int.gcd] using h2
  have := Nat.Coprime.pow k k hc
  simpa [Int.gcd, Int.natAbs_pow] using this

theorem toRat_eq_zero_iff {a : Q} (ha : 0 < a.den) : a.toRat = 0 ↔ a.num = 0 := by
  have h1 : (a.den : ℚ) ≠ 0 := by exact_mod_cast ha.ne'
  simp [toRat, h1]

theorem toRat_pos_iff {a : Q} (ha : 0 < a.den) : 0 < a.toRat ↔ 0 < a.num := by
  have h1 : (0 : ℚ) < (a.den : ℚ) := by exact_mod_cast ha
  simp only [toRat]
  rw [lt_div_iff₀ h1, zero_mul]; exact_mod_cast Iff.rfl

theorem toRat_neg_iff {a : Q} (ha : 0 < a.den) : a.toRat < 0 ↔ a.num < 0 := by
  have h1 : (0 : ℚ) < (a.den : ℚ) := by exact_mod_cast ha
  simp only [toRat]
  rw [div_lt_iff₀ h1, zero_mul]; exact_mod_cast Iff.rfl

/-- canonical representations are unique -/
theorem canon_ext {a b : Q} (ha : a.Canon) (hb : b.Canon) (h : a.toRat = b.toRat) : a = b := by
  obtain ⟨ha1, ha2⟩ := ha
  obtain ⟨hb1, hb2⟩ := hb
  have hca : Nat.Coprime a.num.natAbs ((a.den : ℤ)).natAbs := by simpa [Int.gcd] using ha2
  have hcb : Nat.Coprime b.num.natAbs ((b.den : ℤ)).natAbs := by simpa [Int.gcd] using hb2
  have := Rat.div_int_inj (a := a.num) (b := (a.den : ℤ)) (c := b.num) (d := (b.den : ℤ))
    (by exact_mod_cast ha1) (by exact_mod_cast hb1) hca hcb (by simpa [toRat] using h)
  cases a; cases b
  simp only [Q.mk.injEq]
  exact ⟨this.1, by exact_mod_cast this.2⟩

/-- a canonical fraction with numerator 0 is 0/1; hence a `rat` (den ≠ 1) is never zero -/
theorem canon_num_ne_zero {a : Q} (ha : a.Canon) (hd : a.den ≠ 1) : a.num ≠ 0 := by
  intro h
  obtain ⟨_, h2⟩ := ha
  rw [h] at h2
  simp at h2
  exact hd h2

theorem make_canon (n : Int) {m : Int} (hm : m ≠ 0) : (make n m).Canon := by
  unfold make; split <;> exact norm_canon (by simpa [Int.natAbs_pos] using hm)

theorem toRat_make (n : Int) {m : Int} (hm : m ≠ 0) : (make n m).toRat = (n : ℚ) / (m : ℚ) := by
  have hpos : 0 < m.natAbs := by simpa [Int.natAbs_pos] using hm
  have hmq : (m : ℚ) ≠ 0 := by exact_mod_cast hm
  unfold make; split
  · next h =>
    rw [toRat_norm hpos, natAbs_q_of_neg h]; push_cast; field_simp
  · next h =>
    rw [toRat_norm hpos, natAbs_q_of_nonneg (not_lt.mp h)]

end SymVerif.Num.Q

namespace SymVerif.Num
open Q

theorem toRat_modSq {re im : Q} (hre : 0 < re.den) (him : 0 < im.den) :
    (modSq re im).toRat = re.toRat * re.toRat + im.toRat * im.toRat := by
  unfold modSq
  rw [toRat_add (mul_den_pos hre hre) (mul_den_pos him him), toRat_mul hre hre, toRat_mul him him]

theorem modSq_den_pos {re im : Q} (hre : 0 < re.den) (him : 0 < im.den) : 0 < (modSq re im).den :=
  add_den_pos (mul_den_pos hre hre) (mul_den_pos him him)

/-- `|z|² ≠ 0` when the imaginary part is not zero -/
theorem modSq_num_ne_zero {re im : Q} (hre : 0 < re.den) (him : 0 < im.den) (h : im.num ≠ 0) :
    (modSq re im).num ≠ 0 := by
  intro h0
  have hz := (toRat_eq_zero_iff (modSq_den_pos hre him)).mpr h0
  rw [toRat_modSq hre him] at hz
  have him0 : im.toRat ≠ 0 := fun e => h ((toRat_eq_zero_iff him).mp e)
  have : 0 < im.toRat * im.toRat := mul_self_pos.mpr him0
  nlinarith [mul_self_nonneg re.toRat]

end SymVerif.Num
