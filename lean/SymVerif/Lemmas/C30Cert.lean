import SymVerif.Lemmas.C30Den
/-!
C30 — soundness of the factorisation certificate `checkFactor` (Model/SolveCert.lean):
if the coefficients of `lc · Π (X - rᵢ)^{mᵢ}` agree formally with those of `p`, the values of the `rᵢ`
are exactly the roots of `p` in `K`.
-/
namespace SymVerif.C30
open SymVerif SymVerif.Solve SymVerif.Solve.RP

set_option linter.unusedSectionVars false
variable {K : Type*} [Field K] [CharZero K]

/-- Horner value of a coefficient list c0, c1, … -/
def evalK (cs : List K) (x : K) : K := cs.foldr (fun c acc => c + x * acc) 0

@[simp] theorem evalK_nil (x : K) : evalK ([] : List K) x = 0 := rfl
@[simp] theorem evalK_cons (c : K) (cs : List K) (x : K) : evalK (c :: cs) x = c + x * evalK cs x := rfl

/-- a rational polynomial seen in `K` -/
def polyK (p : Poly) : List K := List.map (fun (c : ℚ) => (c : K)) p

variable (sq : ℚ → K) (hsq : ∀ r : ℚ, sq r * sq r = (r : K))

def evs (q : List RP) : List K := q.map (ev sq)

theorem evalK_addHead (c : RP) (q : List RP) (x : K) :
    evalK (evs sq (addHead c q)) x = ev sq c + evalK (evs sq q) x := by
  cases q with
  | nil => simp [addHead, evs]
  | cons d ds => simp [addHead, evs]; ring

include hsq in
theorem evalK_mulLin (r : RP) (q : List RP) (x : K) :
    evalK (evs sq (mulLin r q)) x = (x - ev sq r) * evalK (evs sq q) x := by
  induction q with
  | nil => simp [mulLin, evs]
  | cons c cs ih =>
    have h1 : evs sq (mulLin r (c :: cs)) = ev sq (neg (mul r c)) :: evs sq (addHead c (mulLin r cs)) := rfl
    have h2 : evs sq (c :: cs) = ev sq c :: evs sq cs := rfl
    rw [h1, h2, evalK_cons, evalK_cons, evalK_addHead, ih, ev_neg, ev_mul sq hsq]
    ring

include hsq in
theorem evalK_mulLinPow (r : RP) (m : ℕ) (q : List RP) (x : K) :
    evalK (evs sq (mulLinPow r m q)) x = (x - ev sq r) ^ m * evalK (evs sq q) x := by
  induction m generalizing q with
  | zero => simp [mulLinPow]
  | succ m ih =>
    simp only [mulLinPow]
    rw [ih, evalK_mulLin sq hsq, pow_succ]
    ring

/-- `lc · Π (x - rᵢ)^{mᵢ}` -/
def prodVal (lc : ℚ) (x : K) : List (RP × ℕ) → K
  | [] => (lc : K)
  | (r, m) :: rest => (x - ev sq r) ^ m * prodVal lc x rest

include hsq in
theorem evalK_prodPoly (lc : ℚ) (l : List (RP × ℕ)) (x : K) :
    evalK (evs sq (prodPoly lc l)) x = prodVal sq lc x l := by
  induction l with
  | nil => simp [prodPoly, evs, prodVal]
  | cons a rest ih =>
    obtain ⟨r, m⟩ := a
    simp only [prodPoly, prodVal]
    rw [evalK_mulLinPow sq hsq, ih]

include hsq in
theorem coeffsEq_sound : ∀ (q : List RP) (p : Poly), coeffsEq q p = true → evs sq q = polyK p
  | [], [], _ => rfl
  | c :: cs, a :: as, h => by
    simp only [coeffsEq, Bool.and_eq_true] at h
    have h1 := isZero_sound sq hsq _ h.1
    rw [ev_sub, ev_ofRat, sub_eq_zero] at h1
    have h2 := coeffsEq_sound cs as h.2
    show ev sq c :: evs sq cs = (a : K) :: polyK as
    rw [h1, h2]
  | [], _ :: _, h => by simp [coeffsEq] at h
  | _ :: _, [], h => by simp [coeffsEq] at h

theorem prodVal_eq_zero_iff (lc : ℚ) (hlc : lc ≠ 0) (x : K) :
    ∀ (rs : List RP) (ms : List ℕ), rs.length = ms.length → (∀ m ∈ ms, 0 < m) →
      (prodVal sq lc x (rs.zip ms) = 0 ↔ x ∈ rs.map (ev sq))
  | [], [], _, _ => by
    simp only [List.zip_nil_left, prodVal, List.map_nil, List.not_mem_nil, iff_false]
    exact_mod_cast hlc
  | r :: rs, m :: ms, hlen, hpos => by
    have hm : 0 < m := hpos m (by simp)
    have ih := prodVal_eq_zero_iff lc hlc x rs ms (by simpa using hlen)
      (fun m' hm' => hpos m' (by simp [hm']))
    simp only [List.zip_cons_cons, prodVal, mul_eq_zero, List.map_cons, List.mem_cons]
    rw [ih, pow_eq_zero_iff (by omega), sub_eq_zero]
  | [], _ :: _, hlen, _ => by simp at hlen
  | _ :: _, [], hlen, _ => by simp at hlen

include hsq in
theorem checkFactorWith_sound (p : Poly) (lc : ℚ) (hlc : lc ≠ 0) (rs : List RP) (ms : List ℕ)
    (h : checkFactorWith p lc rs ms = true) (x : K) :
    evalK (polyK p) x = 0 ↔ x ∈ rs.map (ev sq) := by
  simp only [checkFactorWith, Bool.and_eq_true, decide_eq_true_eq, List.all_eq_true] at h
  obtain ⟨⟨hlen, hpos⟩, hco⟩ := h
  rw [← coeffsEq_sound sq hsq _ _ hco, evalK_prodPoly sq hsq]
  exact prodVal_eq_zero_iff sq lc hlc x rs ms hlen hpos

include hsq in
/-- the factorisation certificate is sound: accepted ⇒ the listed numbers are exactly the roots -/
theorem checkFactor_sound (p : Poly) (rs : List RP) (h : checkFactor p rs = true) (x : K) :
    evalK (polyK p) x = 0 ↔ x ∈ rs.map (ev sq) := by
  unfold checkFactor at h
  split at h
  · simp at h
  · rename_i lc _
    simp only [Bool.and_eq_true, decide_eq_true_eq, List.any_eq_true] at h
    obtain ⟨⟨hlc, _⟩, ms, _, hms⟩ := h
    exact checkFactorWith_sound sq hsq p lc hlc rs ms hms x

variable (rt : ℕ → K → K) (hrt : ∀ (d : ℕ) (x : K), d ≠ 0 → rt d x ^ d = x)

include hrt in
theorem toRPs_sound : ∀ (es : List Expr) (ps : List RP), toRPs es = some ps →
    es.map (den rt) = ps.map (ev (sqOf rt))
  | [], ps, h => by
    simp only [toRPs, Option.some.injEq] at h; subst h; rfl
  | e :: es, ps, h => by
    simp only [toRPs] at h
    cases he : toRP e with
    | none => simp [he] at h
    | some p =>
      cases hes : toRPs es with
      | none => simp [he, hes] at h
      | some ps' =>
        simp only [he, hes, Option.bind_eq_bind, Option.bind_some, Option.pure_def, Option.some.injEq] at h
        subst h
        simp only [List.map_cons]
        rw [toRP_sound rt hrt e p he, toRPs_sound es ps' hes]

end SymVerif.C30
