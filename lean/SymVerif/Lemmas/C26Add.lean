import SymVerif.Lemmas.C26Unary
/-!
Value preservation of `matrix_add`.
-/
namespace SymVerif.MatExpr
open MExpr

/-- entrywise sum of the values of a list of expressions -/
def S (env : Env) (l : List MExpr) (i j : Nat) : GQ := ((valsOf env l).map fun w => w.f i j).sum

theorem S_nil (env : Env) (i j : Nat) : S env [] i j = 0 := by simp [S, valsOf]
theorem S_cons (env : Env) (t : MExpr) (l : List MExpr) (i j : Nat) :
    S env (t :: l) i j = (valOf env t).f i j + S env l i j := by simp [S, valsOf]
theorem S_append (env : Env) (l1 l2 : List MExpr) (i j : Nat) :
    S env (l1 ++ l2) i j = S env l1 i j + S env l2 i j := by
  simp [S, valsOf_eq_map, List.sum_append]
theorem S_single (env : Env) (t : MExpr) (i j : Nat) : S env [t] i j = (valOf env t).f i j := by
  simp [S, valsOf]

theorem valsOf_append (env : Env) (l1 l2 : List MExpr) :
    valsOf env (l1 ++ l2) = valsOf env l1 ++ valsOf env l2 := by simp [valsOf_eq_map]

theorem okAll_append (env : Env) (l1 l2 : List MExpr) :
    okAll env (l1 ++ l2) ↔ okAll env l1 ∧ okAll env l2 := by
  simp only [okAll_iff, List.mem_append]
  constructor
  · intro h; exact ⟨fun e he => h e (Or.inl he), fun e he => h e (Or.inr he)⟩
  · rintro ⟨h1, h2⟩ e (he | he); exact h1 e he; exact h2 e he

/-- the sum node over a list with a common shape and the given entrywise sums -/
theorem add_node {env : Env} {R C : Nat} {l : List MExpr} (hne : l ≠ []) (hok : okAll env l)
    (hd : AllDims R C (valsOf env l)) :
    okOf env (add l) ∧ (valOf env (add l)).r = R ∧ (valOf env (add l)).c = C ∧
      ∀ i j, (valOf env (add l)).f i j = S env l i j := by
  have hv := valsOf_ne_nil (env := env) hne
  refine ⟨⟨hne, hok, sameDims_of_allDims hd⟩, ?_, ?_, fun i j => ?_⟩
  · simp only [valOf]; exact (sumV_r_c hv hd).1
  · simp only [valOf]; exact (sumV_r_c hv hd).2
  · simp only [valOf]; rw [sumV_f' hv]; rfl

/-- from `okOf (add l)` to the common shape -/
theorem add_node_inv {env : Env} {l : List MExpr} (h : okOf env (add l)) :
    l ≠ [] ∧ okAll env l ∧
      AllDims (valOf env (add l)).r (valOf env (add l)).c (valsOf env l) := by
  obtain ⟨hne, hok, hsd⟩ := h
  refine ⟨hne, hok, ?_⟩
  have hv := valsOf_ne_nil (env := env) hne
  obtain ⟨v, t, hvt⟩ := List.exists_cons_of_ne_nil hv
  simp only [valOf]
  rw [hvt] at hsd ⊢
  exact allDims_of_sameDims hsd

/-! ### flattening -/

theorem flattenAdd_spec (env : Env) (R C : Nat) : ∀ (l : List MExpr), okAll env l →
    AllDims R C (valsOf env l) →
    okAll env (flattenAdd l) ∧ AllDims R C (valsOf env (flattenAdd l)) ∧
      (l ≠ [] → flattenAdd l ≠ []) ∧ ∀ i j, S env (flattenAdd l) i j = S env l i j
  | [], _, _ => by simp [flattenAdd, okAll, valsOf, AllDims]
  | t :: rest, hok, hd => by
    have hd' : ((valOf env t).r = R ∧ (valOf env t).c = C) ∧ AllDims R C (valsOf env rest) := by
      simpa [valsOf, allDims_cons] using hd
    obtain ⟨ih1, ih2, _, ih4⟩ := flattenAdd_spec env R C rest hok.2 hd'.2
    by_cases ha : ∃ us, t = add us
    · obtain ⟨us, rfl⟩ := ha
      obtain ⟨hne, hoku, hdu⟩ := add_node_inv hok.1
      rw [hd'.1.1, hd'.1.2] at hdu
      simp only [flattenAdd]
      refine ⟨(okAll_append _ _ _).2 ⟨hoku, ih1⟩, ?_, fun _ => by simp [hne], fun i j => ?_⟩
      · rw [valsOf_append]; exact allDims_append.2 ⟨hdu, ih2⟩
      · rw [S_append, S_cons, ih4]
        congr 1
        simp only [valOf]
        rw [sumV_f' (valsOf_ne_nil hne)]; rfl
    · have hfl : flattenAdd (t :: rest) = t :: flattenAdd rest := by
        cases t <;> first | rfl | exact absurd ⟨_, rfl⟩ ha
      rw [hfl]
      refine ⟨⟨hok.1, ih1⟩, ?_, fun _ => by simp, fun i j => ?_⟩
      · simpa [valsOf, allDims_cons] using ⟨hd'.1, ih2⟩
      · rw [S_cons, S_cons, ih4]

/-! ### the partition loop -/

def dgF (dg : Option (List GQ)) (i j : Nat) : GQ :=
  match dg with
  | none => 0
  | some d => if i = j then d.getD i 0 else 0

def dnF (dn : Option (Nat × Nat × List GQ)) (i j : Nat) : GQ :=
  match dn with
  | none => 0
  | some (_, c, v) => ent v c i j

structure AddWF (env : Env) (R C : Nat) (st : AddSt) : Prop where
  keepOk : okAll env st.keep
  keepDims : AllDims R C (valsOf env st.keep)
  dgOk : ∀ d, st.dg = some d → d.length = R ∧ R = C
  dnOk : ∀ r c v, st.dn = some (r, c, v) → r = R ∧ c = C ∧ v.length = R * C
  zrOk : ∀ a b, st.zr = some (a, b) → a.eval env = R ∧ b.eval env = C

def addF (env : Env) (st : AddSt) (i j : Nat) : GQ :=
  S env st.keep i j + dgF st.dg i j + dnF st.dn i j

theorem getD_zipWith_add {a b : List GQ} (h : a.length = b.length) (k : Nat) :
    (List.zipWith (· + ·) a b).getD k 0 = a.getD k 0 + b.getD k 0 := by
  simp only [List.getD_eq_getElem?_getD, List.getElem?_zipWith]
  by_cases hk : k < a.length
  · have hk' : k < b.length := h ▸ hk
    simp [List.getElem?_eq_getElem hk, List.getElem?_eq_getElem hk']
  · have hk' : ¬ k < b.length := h ▸ hk
    simp [List.getElem?_eq_none (Nat.le_of_not_lt hk), List.getElem?_eq_none (Nat.le_of_not_lt hk')]

theorem getD_zipWith_mul {a b : List GQ} (h : a.length = b.length) (k : Nat) :
    (List.zipWith (· * ·) a b).getD k 0 = a.getD k 0 * b.getD k 0 := by
  simp only [List.getD_eq_getElem?_getD, List.getElem?_zipWith]
  by_cases hk : k < a.length
  · have hk' : k < b.length := h ▸ hk
    simp [List.getElem?_eq_getElem hk, List.getElem?_eq_getElem hk']
  · have hk' : ¬ k < b.length := h ▸ hk
    simp [List.getElem?_eq_none (Nat.le_of_not_lt hk), List.getElem?_eq_none (Nat.le_of_not_lt hk')]

theorem zipSame_ok {f : GQ → GQ → GQ} {a b s : List GQ} (h : zipSame f a b = .ok s) :
    a.length = b.length ∧ s = List.zipWith f a b := by
  simp only [zipSame] at h
  split at h
  · simp at h; exact ⟨by assumption, h.symm⟩
  · simp at h

theorem keep_push {env : Env} {R C : Nat} {st : AddSt} (hwf : AddWF env R C st) (t : MExpr)
    (hok : okOf env t) (hdt : (valOf env t).r = R ∧ (valOf env t).c = C) :
    AddWF env R C { st with keep := st.keep ++ [t] } ∧
      ∀ i j, addF env { st with keep := st.keep ++ [t] } i j = addF env st i j + (valOf env t).f i j := by
  refine ⟨⟨?_, ?_, hwf.dgOk, hwf.dnOk, hwf.zrOk⟩, fun i j => ?_⟩
  · exact (okAll_append _ _ _).2 ⟨hwf.keepOk, hok, trivial⟩
  · rw [valsOf_append]
    exact allDims_append.2 ⟨hwf.keepDims, by simpa [valsOf, AllDims] using hdt⟩
  · simp only [addF, S_append, S_single]; ring

theorem addStep_spec {env : Env} {R C : Nat} {st st' : AddSt} {t : MExpr}
    (h : addStep st t = .ok st') (hwf : AddWF env R C st) (hok : okOf env t)
    (hdt : (valOf env t).r = R ∧ (valOf env t).c = C) :
    AddWF env R C st' ∧ ∀ i j, i < R → j < C →
      addF env st' i j = addF env st i j + (valOf env t).f i j := by
  cases t with
  | zero a b =>
    simp [addStep] at h; subst h
    refine ⟨⟨hwf.keepOk, hwf.keepDims, hwf.dgOk, hwf.dnOk, ?_⟩, fun i j _ _ => ?_⟩
    · intro a' b' hab; simp at hab; obtain ⟨rfl, rfl⟩ := hab; exact hdt
    · simp [addF, valOf]
  | diag d =>
    have hdl : d.length = R ∧ R = C := by
      simp only [valOf] at hdt; exact ⟨hdt.1, hdt.1.symm.trans hdt.2⟩
    simp only [addStep] at h
    split at h
    · rename_i hdg
      simp at h; subst h
      refine ⟨⟨hwf.keepOk, hwf.keepDims, ?_, hwf.dnOk, hwf.zrOk⟩, fun i j _ _ => ?_⟩
      · intro d' hd'; simp at hd'; subst hd'; exact hdl
      · simp [addF, dgF, hdg, valOf]; ring
    · rename_i d0 hdg
      simp only [bind_ok] at h
      obtain ⟨s, hs, _, _, h⟩ := h
      simp [pure, Except.pure] at h; subst h
      obtain ⟨hlen, rfl⟩ := zipSame_ok hs
      refine ⟨⟨hwf.keepOk, hwf.keepDims, ?_, hwf.dnOk, hwf.zrOk⟩, fun i j _ _ => ?_⟩
      · intro d' hd'; simp at hd'; subst hd'
        have := hwf.dgOk d0 hdg
        exact ⟨by simp [List.length_zipWith, hlen, hdl.1], this.2⟩
      · simp only [addF, dgF, hdg, valOf]
        split
        · rw [getD_zipWith_add hlen]; ring
        · ring
  | dense a b v =>
    have hlen : v.length = a * b := hok
    have hab : a = R ∧ b = C := by simpa [valOf] using hdt
    simp only [addStep] at h
    split at h
    · rename_i hdn
      simp at h; subst h
      refine ⟨⟨hwf.keepOk, hwf.keepDims, hwf.dgOk, ?_, hwf.zrOk⟩, fun i j _ _ => ?_⟩
      · intro r c v' hv'; simp at hv'; obtain ⟨rfl, rfl, rfl⟩ := hv'
        exact ⟨hab.1, hab.2, by rw [hlen, hab.1, hab.2]⟩
      · simp [addF, dnF, hdn, valOf]
    · rename_i r0 c0 v0 hdn
      simp only [bind_ok] at h
      obtain ⟨s, hs, _, _, h⟩ := h
      simp [pure, Except.pure] at h; subst h
      obtain ⟨hl, rfl⟩ := zipSame_ok hs
      have h0 := hwf.dnOk r0 c0 v0 hdn
      refine ⟨⟨hwf.keepOk, hwf.keepDims, hwf.dgOk, ?_, hwf.zrOk⟩, fun i j _ _ => ?_⟩
      · intro r c v' hv'; simp at hv'; obtain ⟨rfl, rfl, rfl⟩ := hv'
        exact ⟨h0.1, h0.2.1, by simp [List.length_zipWith, hl, h0.2.2]⟩
      · simp only [addF, dnF, hdn, valOf, ent]
        rw [getD_zipWith_add hl, h0.2.1, hab.2]; ring
  | ident n =>
    simp [addStep] at h; subst h
    obtain ⟨h1, h2⟩ := keep_push hwf _ hok hdt
    exact ⟨h1, fun i j _ _ => h2 i j⟩
  | sym n =>
    simp [addStep] at h; subst h
    obtain ⟨h1, h2⟩ := keep_push hwf _ hok hdt
    exact ⟨h1, fun i j _ _ => h2 i j⟩
  | add ts =>
    simp [addStep] at h; subst h
    obtain ⟨h1, h2⟩ := keep_push hwf _ hok hdt
    exact ⟨h1, fun i j _ _ => h2 i j⟩
  | mul s fs =>
    simp [addStep] at h; subst h
    obtain ⟨h1, h2⟩ := keep_push hwf _ hok hdt
    exact ⟨h1, fun i j _ _ => h2 i j⟩
  | had fs =>
    simp [addStep] at h; subst h
    obtain ⟨h1, h2⟩ := keep_push hwf _ hok hdt
    exact ⟨h1, fun i j _ _ => h2 i j⟩
  | transpose e =>
    simp [addStep] at h; subst h
    obtain ⟨h1, h2⟩ := keep_push hwf _ hok hdt
    exact ⟨h1, fun i j _ _ => h2 i j⟩
  | conj e =>
    simp [addStep] at h; subst h
    obtain ⟨h1, h2⟩ := keep_push hwf _ hok hdt
    exact ⟨h1, fun i j _ _ => h2 i j⟩

theorem addLoop_spec {env : Env} {R C : Nat} : ∀ (l : List MExpr) (st st' : AddSt),
    addLoop l st = .ok st' → AddWF env R C st → okAll env l → AllDims R C (valsOf env l) →
    AddWF env R C st' ∧ ∀ i j, i < R → j < C → addF env st' i j = addF env st i j + S env l i j
  | [], st, st', h, hwf, _, _ => by
    simp [addLoop] at h; subst h
    exact ⟨hwf, fun i j _ _ => by simp [S_nil]⟩
  | t :: rest, st, st', h, hwf, hok, hd => by
    simp only [addLoop, bind_ok] at h
    obtain ⟨st1, h1, h2⟩ := h
    have hd' : ((valOf env t).r = R ∧ (valOf env t).c = C) ∧ AllDims R C (valsOf env rest) := by
      simpa [valsOf, allDims_cons] using hd
    obtain ⟨w1, f1⟩ := addStep_spec h1 hwf hok.1 hd'.1
    obtain ⟨w2, f2⟩ := addLoop_spec rest st1 st' h2 w1 hok.2 hd'.2
    exact ⟨w2, fun i j hi hj => by rw [f2 i j hi hj, f1 i j hi hj, S_cons]; ring⟩

/-! ### the merge and the result -/

theorem addMerge_spec {env : Env} {R C : Nat} {st : AddSt} {keep : List MExpr}
    (h : addMerge st = .ok keep) (hwf : AddWF env R C st) :
    okAll env keep ∧ AllDims R C (valsOf env keep) ∧
      ∀ i j, i < R → j < C → S env keep i j = addF env st i j := by
  simp only [addMerge] at h
  split at h
  · rename_i d r c v hdg hdn
    split at h
    · rename_i hg
      simp only [bind_ok] at h
      obtain ⟨_, _, h⟩ := h
      simp [pure, Except.pure] at h; subst h
      obtain ⟨h1, h2, h3⟩ := hwf.dnOk r c v hdn
      subst h1; subst h2
      refine ⟨(okAll_append _ _ _).2 ⟨hwf.keepOk, by simp [okOf, okAll, length_mkFlat]⟩, ?_,
        fun i j hi hj => ?_⟩
      · rw [valsOf_append]
        exact allDims_append.2 ⟨hwf.keepDims, by simp [valsOf, AllDims, valOf]⟩
      · simp only [S_append, S_single, addF, dgF, dnF, hdg, hdn, valOf]
        rw [ent_mkFlat _ hi hj]
        split <;> (try simp only [List.getD_eq_getElem?_getD]) <;> ring
    · simp at h
  · rename_i d hdg hdn
    simp at h; subst h
    obtain ⟨h1, h2⟩ := hwf.dgOk d hdg
    refine ⟨(okAll_append _ _ _).2 ⟨hwf.keepOk, by simp [okOf, okAll]⟩, ?_, fun i j _ _ => ?_⟩
    · rw [valsOf_append]
      exact allDims_append.2 ⟨hwf.keepDims, by simp [valsOf, AllDims, valOf, h1, ← h2]⟩
    · simp [S_append, S_single, addF, dgF, dnF, hdg, hdn, valOf]
  · rename_i r c v hdg hdn
    simp at h; subst h
    obtain ⟨h1, h2, h3⟩ := hwf.dnOk r c v hdn
    refine ⟨(okAll_append _ _ _).2 ⟨hwf.keepOk, by simp [okOf, okAll, h3, h1, h2]⟩, ?_,
      fun i j _ _ => ?_⟩
    · rw [valsOf_append]
      exact allDims_append.2 ⟨hwf.keepDims, by simp [valsOf, AllDims, valOf, h1, h2]⟩
    · simp [S_append, S_single, addF, dgF, dnF, hdg, hdn, valOf]
  · rename_i hdg hdn
    simp at h; subst h
    exact ⟨hwf.keepOk, hwf.keepDims, fun i j _ _ => by simp [addF, dgF, dnF, hdg, hdn]⟩

theorem addFinish_spec {env : Env} {R C : Nat} {st : AddSt} {r : MExpr}
    (h : addFinish st = .ok r) (hwf : AddWF env R C st) :
    okOf env r ∧ (valOf env r).r = R ∧ (valOf env r).c = C ∧
      ∀ i j, i < R → j < C → (valOf env r).f i j = addF env st i j := by
  simp only [addFinish, bind_ok] at h
  obtain ⟨keep, hk, h⟩ := h
  obtain ⟨k1, k2, k3⟩ := addMerge_spec hk hwf
  rcases keep with _ | ⟨k, _ | ⟨k', t⟩⟩
  · -- keep is empty
    cases hz : st.zr with
    | none =>
      rw [hz] at h
      simp [mkAdd, addCanonical] at h
    | some ab =>
      obtain ⟨a, b⟩ := ab
      rw [hz] at h
      simp [pure, Except.pure] at h
      obtain ⟨h1, h2⟩ := hwf.zrOk a b hz
      rw [← h]
      exact ⟨trivial, h1, h2, fun i j hi hj => by rw [← k3 i j hi hj]; simp [valOf, S_nil]⟩
  · -- a single element
    simp [pure, Except.pure] at h
    rw [← h]
    have hd : (valOf env k).r = R ∧ (valOf env k).c = C := by
      simpa [valsOf, AllDims] using k2
    exact ⟨k1.1, hd.1, hd.2, fun i j hi hj => by rw [← k3 i j hi hj, S_single]⟩
  · have h' : mkAdd (k :: k' :: t) = .ok r := by simpa using h
    have := mkAdd_ok h'; subst this
    obtain ⟨a1, a2, a3, a4⟩ := add_node (by simp) k1 k2
    exact ⟨a1, a2, a3, fun i j hi hj => by rw [a4, k3 i j hi hj]⟩

theorem addWF_init (env : Env) (R C : Nat) : AddWF env R C {} :=
  ⟨trivial, by simp [valsOf, AllDims], by simp, by simp, by simp⟩

/-- `matrix_add` preserves the value: whenever the sum of the operands is defined, the result is
    defined and equal to it -/
theorem matrixAdd_value (env : Env) (ts : List MExpr) (r : MExpr) (h : matrixAdd ts = .ok r)
    (hok : okOf env (add ts)) : okOf env r ∧ valOf env r ≃ valOf env (add ts) := by
  obtain ⟨hne, hoks, hd⟩ := add_node_inv hok
  obtain ⟨_, a2, a3, a4⟩ := add_node hne hoks hd
  match ts, h with
  | [], h => simp [matrixAdd] at h
  | [t], h =>
    simp [matrixAdd] at h; subst h
    have hdt : (valOf env t).r = (valOf env (add [t])).r ∧ (valOf env t).c = (valOf env (add [t])).c := by
      simpa [valsOf, AllDims] using hd
    exact ⟨hoks.1, hdt.1, hdt.2, fun i j _ _ => by rw [a4, S_single]⟩
  | t1 :: t2 :: rest, h =>
    simp only [matrixAdd, bind_ok] at h
    obtain ⟨_, _, st, hl, hf⟩ := h
    obtain ⟨f1, f2, _, f4⟩ := flattenAdd_spec env _ _ _ hoks hd
    obtain ⟨w, hw⟩ := addLoop_spec _ _ _ hl (addWF_init env _ _) f1 f2
    obtain ⟨r1, r2, r3, r4⟩ := addFinish_spec hf w
    refine ⟨r1, r2, r3, fun i j hi hj => ?_⟩
    rw [r2] at hi; rw [r3] at hj
    rw [r4 i j hi hj, hw i j hi hj, f4, a4]
    simp [addF, dgF, dnF, S_nil]

end SymVerif.MatExpr
