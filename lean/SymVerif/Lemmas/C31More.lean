/-
C31 helper lemmas, part 4: series_atan, series_atanh (integrals of `S'/(1 ± S²)`), series_sinh and
series_cosh (through series_exp and series_invert).
-/
import SymVerif.Lemmas.C31ExpLog

namespace SymVerif.C31
open SymVerif.Series PowerSeries

/-- an approximate inverse of an approximation of `B` is an approximation of `B⁻¹` -/
theorem eqMod_inv_of_mul {n : ℕ} {P A B : ℚ⟦X⟧} (h : EqMod n (P * A) 1) (hAB : EqMod n A B)
    (hB : constantCoeff B ≠ 0) : EqMod n P B⁻¹ := by
  have h1 : EqMod n (P * B) 1 := ((EqMod.mul_left P hAB).symm).trans h
  have := h1.mul_right B⁻¹
  rwa [mul_assoc, PowerSeries.mul_inv_cancel B hB, mul_one, one_mul] at this

theorem constantCoeff_toPS (s : Poly) : constantCoeff (toPS s) = Series.coeff s 0 := by
  rw [← coeff_zero_eq_constantCoeff_apply]; simp [toPS]

/-- formal arctangent of a series with zero constant term -/
noncomputable def fatan (S : ℚ⟦X⟧) : ℚ⟦X⟧ := integ (d⁄dX ℚ S * (1 + S * S)⁻¹)
/-- formal area tangent -/
noncomputable def fatanh (S : ℚ⟦X⟧) : ℚ⟦X⟧ := integ (d⁄dX ℚ S * (1 - S * S)⁻¹)

theorem fatan_zero : fatan 0 = 0 := by
  unfold fatan; rw [map_zero, zero_mul, integ_zero]

theorem inv_one_add_X_sq :
    (1 + X * X : ℚ⟦X⟧)⁻¹ = PowerSeries.mk fun n => if n % 2 = 0 then (-1 : ℚ) ^ (n / 2) else 0 := by
  symm
  rw [PowerSeries.eq_inv_iff_mul_eq_one (by simp)]
  ext n
  rw [mul_add, mul_one, map_add, ← mul_assoc]
  cases n with
  | zero => simp
  | succ n =>
    cases n with
    | zero => simp [coeff_succ_mul_X]
    | succ n =>
      rw [coeff_succ_mul_X, coeff_succ_mul_X, coeff_mk, coeff_mk]
      have h1 : (n + 1 + 1) % 2 = n % 2 := by omega
      have h2 : (n + 1 + 1) / 2 = n / 2 + 1 := by omega
      rw [h1, h2]
      have : coeff (n + 1 + 1) (1 : ℚ⟦X⟧) = 0 := by
        rw [coeff_one]; simp
      rw [this]
      split <;> simp [pow_succ]

theorem fatan_X_coeff (k : ℕ) :
    coeff (k + 1) (fatan X) = (if k % 2 = 0 then (-1 : ℚ) ^ (k / 2) else 0) / (k + 1) := by
  unfold fatan
  rw [coeff_succ_integ, derivative_X, one_mul, inv_one_add_X_sq, coeff_mk]

theorem toPS_atanFast (prec : ℕ) : EqMod prec (toPS (atanFast prec)) (fatan X) := by
  intro k hk
  rw [coeff_toPS]
  unfold atanFast
  rw [getD_map_range, if_pos hk]
  cases k with
  | zero =>
    have : coeff 0 (fatan X) = 0 := coeff_zero_integ _
    rw [this]; simp
  | succ k =>
    rw [fatan_X_coeff]
    by_cases hk2 : k % 2 = 0
    · have h1 : ((k + 1) % 2 == 1) = true := by
        have : (k + 1) % 2 = 1 := by omega
        simpa using this
      simp only [h1, if_true, hk2]
      by_cases hk4 : k % 4 = 0
      · have h2 : ((k + 1) % 4 == 1) = true := by
          have : (k + 1) % 4 = 1 := by omega
          simpa using this
        have hev : Even (k / 2) := ⟨k / 4, by omega⟩
        simp only [h2, if_true, hev.neg_one_pow]
        push_cast; ring
      · have h2 : ((k + 1) % 4 == 1) = false := by
          have : (k + 1) % 4 ≠ 1 := by omega
          simpa using this
        have hodd : Odd (k / 2) := ⟨k / 4, by omega⟩
        simp only [h2, hodd.neg_one_pow]
        push_cast; simp
    · have h1 : ((k + 1) % 2 == 1) = false := by
        have : (k + 1) % 2 ≠ 1 := by omega
        simpa using this
      simp [h1, hk2]

/-- the common general branch of series_atan / series_atanh -/
theorem integ_quot_spec (s p ip : Poly) (n : ℕ) (D : ℚ⟦X⟧) (hp : EqMod n (toPS p) D)
    (hD : constantCoeff D ≠ 0) (hip : invert p n = .ok ip) :
    EqMod (n + 1) (toPS (integrate (mulTrunc (diff s) ip n))) (integ (d⁄dX ℚ (toPS s) * D⁻¹)) := by
  rw [toPS_integrate]
  apply EqMod.integ
  refine (toPS_mulTrunc _ _ _).trans ?_
  rw [toPS_diff]
  exact EqMod.mul_left _ (eqMod_inv_of_mul (invert_spec p ip n hip) hp hD)

/-- **series_atan**: the result is `∫ S'/(1+S²)` modulo `X^prec` (zero constant term required) -/
theorem atan_spec (s g : Poly) (prec : ℕ) (h : seriesAtan s prec = .ok g) :
    constantCoeff (toPS s) = 0 ∧ EqMod prec (toPS g) (fatan (toPS s)) := by
  unfold seriesAtan at h
  split at h
  · next h0 =>
    cases h
    rw [toPS_of_isZero h0, fatan_zero, toPS_nil]
    exact ⟨by simp, EqMod.refl _ _⟩
  · split at h
    · next hv =>
      cases h
      rw [toPS_of_isVar hv]
      exact ⟨by simp, toPS_atanFast prec⟩
    · split at h
      · cases h
      · next hp =>
        have hp' : prec ≠ 0 := by simpa using hp
        simp only [bind, Except.bind] at h
        split at h
        · cases h
        · next ip hip =>
          split at h
          · next hc =>
            simp only [pure, Except.pure, Except.ok.injEq] at h
            subst h
            have hc0 : Series.coeff s 0 = 0 := by simpa using hc
            have hS : constantCoeff (toPS s) = 0 := by rw [constantCoeff_toPS, hc0]
            refine ⟨hS, ?_⟩
            obtain ⟨n, rfl⟩ : ∃ n, prec = n + 1 := ⟨prec - 1, by omega⟩
            simp only [Nat.add_sub_cancel] at hip ⊢
            unfold fatan
            apply integ_quot_spec s _ ip n _ _ _ hip
            · rw [toPS_padd, toPS_one, add_comm]
              apply (EqMod.refl _ _).add
              have := toPS_powPos s 2 n (by omega)
              rwa [pow_two] at this
            · rw [map_add, map_mul, hS]; simp
          · cases h

/-- **series_atanh**: the result is `∫ S'/(1-S²)` modulo `X^prec` (zero constant term required) -/
theorem atanh_spec (s g : Poly) (prec : ℕ) (h : seriesAtanh s prec = .ok g) :
    constantCoeff (toPS s) = 0 ∧ EqMod prec (toPS g) (fatanh (toPS s)) := by
  unfold seriesAtanh at h
  split at h
  · cases h
  · next hp =>
    have hp' : prec ≠ 0 := by simpa using hp
    simp only [bind, Except.bind] at h
    split at h
    · cases h
    · next ip hip =>
      split at h
      · next hc =>
        simp only [pure, Except.pure, Except.ok.injEq] at h
        subst h
        have hc0 : Series.coeff s 0 = 0 := by simpa using hc
        have hS : constantCoeff (toPS s) = 0 := by rw [constantCoeff_toPS, hc0]
        refine ⟨hS, ?_⟩
        obtain ⟨n, rfl⟩ : ∃ n, prec = n + 1 := ⟨prec - 1, by omega⟩
        simp only [Nat.add_sub_cancel] at hip ⊢
        unfold fatanh
        apply integ_quot_spec s _ ip n _ _ _ hip
        · rw [toPS_psub, toPS_one]
          apply (EqMod.refl _ _).sub
          have := toPS_powPos s 2 n (by omega)
          rwa [pow_two] at this
        · rw [map_sub, map_mul, hS]; simp
      · cases h

/-- **series_sinh / series_cosh**: `(E ∓ E⁻¹)/2` for the formal exponential `E` of the argument -/
theorem sinh_cosh_core (s p1 p2 : Poly) (prec : ℕ) {E : ℚ⟦X⟧} (hE : IsExpOf (toPS s) E)
    (h1 : seriesExp s prec = .ok p1) (h2 : invert p1 prec = .ok p2) :
    EqMod prec (toPS p1) E ∧ EqMod prec (toPS p2) E⁻¹ := by
  have hp1 := (exp_spec s p1 prec h1 hE).2
  have hEc : constantCoeff E ≠ 0 := by rw [hE.1]; exact one_ne_zero
  exact ⟨hp1, eqMod_inv_of_mul (invert_spec p1 p2 prec h2) hp1 hEc⟩

theorem sinh_spec (s g : Poly) (prec : ℕ) (h : seriesSinh s prec = .ok g) {E : ℚ⟦X⟧}
    (hE : IsExpOf (toPS s) E) : EqMod prec (toPS g) (C (1 / 2 : ℚ) * (E - E⁻¹)) := by
  unfold seriesSinh at h
  split at h
  · cases h
  · simp only [bind, Except.bind] at h
    split at h
    · cases h
    · next p1 h1 =>
      split at h
      · cases h
      · next p2 h2 =>
        simp only [pure, Except.pure, Except.ok.injEq] at h
        subst h
        obtain ⟨ha, hb⟩ := sinh_cosh_core s p1 p2 prec hE h1 h2
        rw [toPS_scale, toPS_psub]
        exact EqMod.mul_left _ (ha.sub hb)

theorem cosh_spec (s g : Poly) (prec : ℕ) (h : seriesCosh s prec = .ok g) {E : ℚ⟦X⟧}
    (hE : IsExpOf (toPS s) E) : EqMod prec (toPS g) (C (1 / 2 : ℚ) * (E + E⁻¹)) := by
  unfold seriesCosh at h
  split at h
  · cases h
  · simp only [bind, Except.bind] at h
    split at h
    · cases h
    · next p1 h1 =>
      split at h
      · cases h
      · next p2 h2 =>
        simp only [pure, Except.pure, Except.ok.injEq] at h
        subst h
        obtain ⟨ha, hb⟩ := sinh_cosh_core s p1 p2 prec hE h1 h2
        rw [toPS_scale, toPS_padd]
        exact EqMod.mul_left _ (ha.add hb)

end SymVerif.C31
