/-
C04, Mul side, numeric-exponent fragment: factors `k ** e` with an opaque base `k` (not a Number,
not a Mul, not a Pow) and an exact numeric exponent `e` (Integer, Rational or Gaussian), and
coefficients in ℚ(i) \ {0}.  On this fragment `Mul::dict_add_term_new` is point-wise addition of
exponents (`datNew_atom`), so

    mulF a b = Mul::from_dict (reprM a ⊗ reprM b)              (`mulF_eq`)
    reprM (Mul::from_dict s) = s                               (`reprM_fromDict`)

with `⊗` (`rmul`): product of the coefficients in ℚ(i), point-wise sum of the exponents — the same
dictionary algebra as for Add (Lemmas/C04Dict.lean).  Results do not depend on the recursion fuel
(beyond a linear bound) nor on the dictionary iteration order `rv`.
-/
import SymVerif.Lemmas.C04Add

namespace SymVerif.AC
open SymVerif SymVerif.Arith

/-- normal (coef, dict) pair of a product -/
def NRM (s : Expr × Dict) : Prop :=
  ExOK s.1 ∧ gq s.1 ≠ 0 ∧ DOK s.2 ∧ ∀ p ∈ s.2, atomBase p.1 = true ∧ exact p.1 = true

/-- a factor: its representation is normal and `Mul::from_dict` rebuilds it -/
def MOK (a : Expr) : Prop := NRM (reprM a) ∧ mulFromDict (reprM a).1 (reprM a).2 = a

/-- `⊗` on representations -/
noncomputable def rmul (r s : Expr × Dict) : Expr × Dict :=
  (ofG (cmul (gq r.1) (gq s.1)), merge r.2 s.2)

theorem cmul_ne_zero {a b : ℚ × ℚ} (ha : a ≠ 0) (hb : b ≠ 0) : cmul a b ≠ 0 := by
  obtain ⟨a1, a2⟩ := a
  obtain ⟨b1, b2⟩ := b
  intro h
  simp only [cmul, Prod.mk_eq_zero] at h
  have key : (a1 ^ 2 + a2 ^ 2) * (b1 ^ 2 + b2 ^ 2) = 0 := by
    have : (a1 * b1 - a2 * b2) ^ 2 + (a1 * b2 + a2 * b1) ^ 2 = (a1 ^ 2 + a2 ^ 2) * (b1 ^ 2 + b2 ^ 2) := by
      ring
    rw [← this, h.1, h.2]; ring
  have sq0 : ∀ x y : ℚ, x ^ 2 + y ^ 2 = 0 → x = 0 ∧ y = 0 := by
    intro x y hxy
    have h1 := (add_eq_zero_iff_of_nonneg (sq_nonneg x) (sq_nonneg y)).mp hxy
    exact ⟨pow_eq_zero_iff (two_ne_zero) |>.mp h1.1, pow_eq_zero_iff (two_ne_zero) |>.mp h1.2⟩
  rcases mul_eq_zero.mp key with h1 | h1
  · obtain ⟨e1, e2⟩ := sq0 _ _ h1
    exact ha (by simp [e1, e2])
  · obtain ⟨e1, e2⟩ := sq0 _ _ h1
    exact hb (by simp [e1, e2])

theorem merge_keys : ∀ (l d : Dict) (P : Expr → Prop), (∀ q ∈ d, P q.1) → (∀ q ∈ l, P q.1) →
    ∀ q ∈ merge d l, P q.1
  | [], d, _, hd, _, q, hq => hd q hq
  | (k, v) :: r, d, P, hd, hl, q, hq => by
    refine merge_keys r (upd d v k) P ?_ (fun q hq => hl q (List.mem_cons_of_mem _ hq)) q hq
    intro q hq
    unfold upd at hq
    split at hq
    · split at hq
      · rcases mem_dinsert hq with rfl | hq
        · exact hl (k, v) List.mem_cons_self
        · exact hd q hq
      · exact hd q hq
    · split at hq
      · exact hd q (mem_derase hq)
      · rcases mem_dset hq with rfl | hq
        · exact hl (k, v) List.mem_cons_self
        · exact hd q hq

theorem NRM.rmul {r s : Expr × Dict} (hr : NRM r) (hs : NRM s) : NRM (rmul r s) := by
  refine ⟨exOK_ofG _, ?_, merge_DOK _ hr.2.2.1 hs.2.2.1.vals, ?_⟩
  · show gq (ofG _) ≠ 0
    rw [gq_ofG]
    exact cmul_ne_zero hr.2.1 hs.2.1
  · exact merge_keys s.2 r.2 (fun k => atomBase k = true ∧ exact k = true) hr.2.2.2 hs.2.2.2

theorem rmul_comm {r s : Expr × Dict} (hr : NRM r) (hs : NRM s) : rmul r s = rmul s r := by
  unfold rmul
  rw [cmul_comm, merge_comm hr.2.2.1 hs.2.2.1]

theorem rmul_assoc {r s t : Expr × Dict} (hr : NRM r) (hs : NRM s) (ht : NRM t) :
    rmul (rmul r s) t = rmul r (rmul s t) := by
  unfold rmul
  simp only [gq_ofG]
  rw [cmul_assoc, merge_assoc hr.2.2.1 hs.2.2.1 ht.2.2.1]

theorem NRM_unit : NRM (one, []) :=
  ⟨exOK_int 1, by rw [gq_one]; simp, DOK.nil, by simp⟩

theorem rmul_unit {s : Expr × Dict} (hs : NRM s) : rmul (one, []) s = s := by
  obtain ⟨c, d⟩ := s
  unfold rmul
  simp only [gq_one, one_cmul, ofG_gq hs.1, merge_nil_left hs.2.2.1]

/-! ### `Mul::from_dict` and `reprM` are inverse on normal representations -/

theorem atomBase_facts {t : Expr} (h : atomBase t = true) :
    t.isNum = false ∧ isMul t = false ∧ isPow t = false := by
  unfold atomBase at h
  simp only [Bool.and_eq_true, Bool.not_eq_true'] at h
  exact ⟨h.1.1, h.1.2, h.2⟩

theorem reprM_atom {t : Expr} (h : atomBase t = true) : reprM t = (one, [(t, one)]) := by
  obtain ⟨h1, h2, h3⟩ := atomBase_facts h
  cases t <;> simp_all [reprM, isMul, isPow, Expr.isNum]

theorem numIsZero_false {c : Expr} (hc : ExOK c) (h0 : gq c ≠ 0) : numIsZero c = false := by
  cases h : numIsZero c with
  | false => rfl
  | true => exact absurd ((numIsZero_iff hc).mp h) h0

theorem numIsOne_eq_one {c : Expr} (hc : ExOK c) (h : numIsOne c = true) : c = one :=
  numIsOne_canon hc.2 h

theorem reprM_fromDict {s : Expr × Dict} (h : NRM s) :
    reprM (mulFromDict s.1 s.2) = s ∧ exact (mulFromDict s.1 s.2) = true := by
  obtain ⟨c, d⟩ := s
  obtain ⟨hc, hc0, hd, hk⟩ := h
  simp only at hc hc0 hd hk
  have hz := numIsZero_false hc hc0
  have hcx := exact_of_exOK hc
  have hcn := exOK_isNum hc
  have hdx : exactPairs d = true := by
    have : ∀ (l : Dict), (∀ p ∈ l, ExOK p.2) → (∀ p ∈ l, exact p.1 = true) → exactPairs l = true := by
      intro l
      induction l with
      | nil => intros; rfl
      | cons p r ih =>
        obtain ⟨k, v⟩ := p
        intro hv hk
        simp only [exactPairs, hk (k, v) List.mem_cons_self, exact_of_exOK (hv (k, v) List.mem_cons_self),
          Bool.and_self, Bool.true_and]
        exact ih (fun p hp => hv p (List.mem_cons_of_mem _ hp)) (fun p hp => hk p (List.mem_cons_of_mem _ hp))
    exact this d (fun p hp => (hd.2 p hp).1) (fun p hp => (hk p hp).2)
  cases d with
  | nil =>
    simp only [mulFromDict, hz, Bool.false_eq_true, if_false]
    refine ⟨?_, hcx⟩
    cases c <;> simp_all [reprM, Expr.isNum]
  | cons p r =>
    obtain ⟨b, e⟩ := p
    cases r with
    | nil =>
      have hb := hk (b, e) List.mem_cons_self
      have he := hd.2 (b, e) List.mem_cons_self
      simp only at hb he
      by_cases h1 : numIsOne c = true
      · have := numIsOne_eq_one hc h1
        subst this
        by_cases he1 : isIntLit e 1 = true
        · have := isIntLit_eq he1
          subst this
          have : mulFromDict one [(b, .int 1)] = b := by simp [mulFromDict, one, numIsZero, numIsOne, isIntLit]
          rw [this]
          exact ⟨reprM_atom hb.1, hb.2⟩
        · have he1' : isIntLit e 1 = false := by simpa using he1
          have : mulFromDict one [(b, e)] = .pow b e := by
            simp [mulFromDict, one, numIsZero, numIsOne, he1']
          rw [this]
          refine ⟨rfl, ?_⟩
          simp [exact, hb.2, exact_of_exOK he.1]
      · have : mulFromDict c [(b, e)] = .mul c [(b, e)] := by simp [mulFromDict, hz, h1]
        rw [this]
        exact ⟨rfl, by simp [exact, hcx, hdx]⟩
    | cons q r =>
      have : mulFromDict c ((b, e) :: q :: r) = .mul c ((b, e) :: q :: r) := by simp [mulFromDict, hz]
      rw [this]
      exact ⟨rfl, by simp [exact, hcx, hdx]⟩

theorem MOK_fromDict {s : Expr × Dict} (h : NRM s) :
    MOK (mulFromDict s.1 s.2) ∧ reprM (mulFromDict s.1 s.2) = s ∧ exact (mulFromDict s.1 s.2) = true := by
  obtain ⟨h1, h2⟩ := reprM_fromDict h
  refine ⟨⟨?_, ?_⟩, h1, h2⟩
  · rw [h1]; exact h
  · rw [h1]

/-! ### `Mul::dict_add_term_new` on an opaque base with a numeric exponent -/

theorem derase_dset : ∀ (d : Dict) (t v : Expr), derase (dset d t v) t = derase d t
  | [], _, _ => rfl
  | (k, x) :: r, t, v => by
    simp only [dset]
    by_cases hk : (key k == key t) = true
    · simp [hk, derase]
    · simp [hk, derase, derase_dset r t v]

theorem datNew_atom {fuel : Nat} {rv : Bool} {coef : Expr} {d : Dict} {e t : Expr}
    (hd : DOK d) (ht : atomBase t = true) (he : ExOK e) (he0 : gq e ≠ 0) :
    datNew (fuel + 2) rv coef d e t = .ok (coef, upd d e t) := by
  obtain ⟨t1, t2, t3⟩ := atomBase_facts ht
  have ti : isInteger t = false := by cases t <;> simp_all [isInteger, Expr.isNum]
  have tr : isRational t = false := by cases t <;> simp_all [isRational, Expr.isNum]
  have tc : isComplex t = false := by cases t <;> simp_all [isComplex, Expr.isNum]
  have t0 : isIntLit t 0 = false := by cases t <;> simp_all [isIntLit, Expr.isNum]
  have hez := numIsZero_false he he0
  have hen := exOK_isNum he
  unfold upd
  cases hf : dfind d t with
  | none =>
    simp [datNew, hf, ti, tr, tc, t3, hez]
  | some old =>
    have hold := (hd.2 _ (dfind_some hf)).1
    have holdn := exOK_isNum hold
    simp only [datNew, hf, hen, holdn, Bool.and_self, if_true, numAdd_eq hold he, ok_bind]
    have hv := exOK_ofG (gq old + gq e)
    have hvn := exOK_isNum hv
    by_cases hz : numIsZero (ofG (gq old + gq e)) = true
    · have hv0 := numIsZero_eq_zero hv hz
      rw [hv0] at hz ⊢
      have : isInteger zero = true := rfl
      simp [datFound, ti, tr, tc, this, hz, derase_dset]
      rfl
    · have hz' : numIsZero (ofG (gq old + gq e)) = false := by simpa using hz
      simp only [datFound, ti, tr, tc, t3, t0, hz', hvn, Bool.or_self, Bool.and_false, Bool.false_eq_true,
        if_false, Bool.false_and, if_true]
      simp only [pure, Except.pure, ok_bind, bind, Except.bind]
      split
      · rename_i mc mfs
        simp [isMul] at t2
      · rfl

theorem datNew_atom' {fuel : Nat} {rv : Bool} {coef : Expr} {d : Dict} {e t : Expr} (hfu : 2 ≤ fuel)
    (hd : DOK d) (ht : atomBase t = true) (he : ExOK e) (he0 : gq e ≠ 0) :
    datNew fuel rv coef d e t = .ok (coef, upd d e t) := by
  obtain ⟨k, rfl⟩ : ∃ k, fuel = k + 2 := ⟨fuel - 2, by omega⟩
  exact datNew_atom hd ht he he0

/-- entries that `dict_add_term_new` merges point-wise -/
def FacsOK (l : Dict) : Prop := ∀ p ∈ l, (atomBase p.1 = true ∧ exact p.1 = true) ∧ ExOK p.2 ∧ gq p.2 ≠ 0

theorem FacsOK_of_NRM {s : Expr × Dict} (h : NRM s) : FacsOK s.2 :=
  fun p hp => ⟨h.2.2.2 p hp, h.2.2.1.2 p hp⟩

theorem datLoop_atoms {rv : Bool} {coef : Expr} : ∀ (l : Dict) {fuel : Nat} {d : Dict},
    l.length + 3 ≤ fuel → DOK d → FacsOK l → datLoop fuel rv coef d l = .ok (coef, merge d l)
  | [], fuel, d, hfu, _, _ => by
    obtain ⟨k, rfl⟩ : ∃ k, fuel = k + 1 := ⟨fuel - 1, by omega⟩
    simp [datLoop, merge]
  | (k, v) :: r, fuel, d, hfu, hd, hl => by
    obtain ⟨f, rfl⟩ : ∃ f, fuel = f + 1 := ⟨fuel - 1, by omega⟩
    have hkv := hl (k, v) List.mem_cons_self
    simp only [List.length_cons] at hfu
    have h2 : 2 ≤ f := by omega
    have h3 : r.length + 3 ≤ f := by omega
    simp only [datLoop, datNew_atom' h2 hd hkv.1.1 hkv.2.1 hkv.2.2, ok_bind, merge]
    exact datLoop_atoms r h3 (upd_DOK k hd hkv.2.1) (fun p hp => hl p (List.mem_cons_of_mem _ hp))

theorem FacsOK.vals {l : Dict} (h : FacsOK l) : ValsOK l := fun p hp => (h p hp).2.1

theorem merge_iterOrder {d l : Dict} (rv : Bool) (hd : DOK d) (hl : FacsOK l) :
    merge d (iterOrder rv l) = merge d l := by
  unfold iterOrder
  split
  · exact merge_perm hd (fun p hp => hl.vals p (List.mem_reverse.mp hp)) (List.reverse_perm l)
  · rfl

theorem FacsOK_iterOrder {l : Dict} (rv : Bool) (h : FacsOK l) : FacsOK (iterOrder rv l) := by
  unfold iterOrder
  split
  · exact fun p hp => h p (List.mem_reverse.mp hp)
  · exact h

theorem length_iterOrder (rv : Bool) (l : Dict) : (iterOrder rv l).length = l.length := by
  unfold iterOrder; split <;> simp

/-! ### one multiplication step -/

theorem MOK_num {a : Expr} (ha : MOK a) (hn : a.isNum = true) : reprM a = (a, []) ∧ ExOK a ∧ gq a ≠ 0 := by
  have hr : reprM a = (a, []) := by cases a <;> simp_all [reprM, Expr.isNum]
  have := ha.1
  rw [hr] at this
  exact ⟨hr, this.1, this.2.1⟩

theorem cmul_gq_one {c : Expr} (hc : ExOK c) : ofG (cmul (gq c) (gq one)) = c := by
  rw [gq_one, cmul_one, ofG_gq hc]

/-- `mulStep`: multiply the state by a factor that is not a Mul -/
theorem mulStep_eq {fuel : Nat} {rv : Bool} {coef : Expr} {d : Dict} {b : Expr} (hfu : 3 ≤ fuel)
    (hs : NRM (coef, d)) (hb : MOK b) (hnm : isMul b = false) :
    mulStep fuel rv coef d b = .ok (rmul (coef, d) (reprM b)) := by
  obtain ⟨f, rfl⟩ : ∃ f, fuel = f + 1 := ⟨fuel - 1, by omega⟩
  by_cases hn : b.isNum = true
  · obtain ⟨hr, hbx, _⟩ := MOK_num hb hn
    simp only [mulStep, hn, if_true, numMul_eq hs.1 hbx, ok_bind, hr, rmul, merge]
    rfl
  · have hn' : b.isNum = false := by simpa using hn
    by_cases hp : isPow b = true
    · obtain ⟨bb, e, rfl⟩ : ∃ bb e, b = .pow bb e := by cases b <;> simp_all [isPow]
      have hnr := hb.1
      have hr : reprM (.pow bb e) = (one, [(bb, e)]) := rfl
      rw [hr] at hnr
      have hk := hnr.2.2.2 (bb, e) List.mem_cons_self
      have hv := hnr.2.2.1.2 (bb, e) List.mem_cons_self
      have h2 : 2 ≤ f := by omega
      simp only [mulStep, Expr.isNum, Bool.false_eq_true, if_false, asBaseExp, ok_bind,
        datNew_atom' h2 hs.2.2.1 hk.1 hv.1 hv.2, hr, rmul, merge_single, cmul_gq_one hs.1]
    · have hp' : isPow b = false := by simpa using hp
      have hat : atomBase b = true := by simp [atomBase, hn', hnm, hp']
      have hr := reprM_atom hat
      have hab : asBaseExp b = .ok (one, b) := by
        cases b <;> simp_all [asBaseExp, isMul, isPow, Expr.isNum]
      have h1 : gq one ≠ 0 := by rw [gq_one]; simp
      have h2 : 2 ≤ f := by omega
      simp only [mulStep, hn', Bool.false_eq_true, if_false, hab, ok_bind, hr, rmul, merge_single,
        cmul_gq_one hs.1]
      exact datNew_atom' h2 hs.2.2.1 hat (exOK_int 1) h1

theorem length_upd_le (d : Dict) (c t : Expr) : (upd d c t).length ≤ d.length + 1 := by
  have hins : ∀ (d : Dict) (t v : Expr), (dinsert d t v).length ≤ d.length + 1 := by
    intro d
    induction d with
    | nil => intros; simp [dinsert]
    | cons p r ih =>
      obtain ⟨k, x⟩ := p
      intro t v
      simp only [dinsert]
      split
      · simp
      · split
        · simp
        · simp only [List.length_cons]; have := ih t v; omega
  have hset : ∀ (d : Dict) (t v : Expr), (dset d t v).length = d.length := by
    intro d t v
    have := congrArg List.length (dset_keys d t v)
    simpa using this
  unfold upd
  split
  · split
    · exact hins d t c
    · omega
  · split
    · have := (derase_sublist d t).length_le; omega
    · rw [hset]; omega

theorem length_merge_le : ∀ (l d : Dict), (merge d l).length ≤ d.length + l.length
  | [], d => by simp [merge]
  | (k, v) :: r, d => by
    simp only [merge, List.length_cons]
    have := length_merge_le r (upd d v k)
    have := length_upd_le d v k
    omega

/-- `mul(a, b)` is `Mul::from_dict` of the product of the representations, for either iteration
order and every sufficient fuel -/
theorem mulF_eq {fuel : Nat} {rv : Bool} {a b : Expr} (ha : MOK a) (hb : MOK b)
    (hfu : dlen a + dlen b + 6 ≤ fuel) :
    mulF fuel rv a b = .ok (mulFromDict (rmul (reprM a) (reprM b)).1 (rmul (reprM a) (reprM b)).2) := by
  obtain ⟨f, rfl⟩ : ∃ f, fuel = f + 1 := ⟨fuel - 1, by omega⟩
  by_cases hma : isMul a = true
  · obtain ⟨ac, ad, rfl⟩ : ∃ ac ad, a = .mul ac ad := by cases a <;> simp_all [isMul]
    have hna : NRM (ac, ad) := ha.1
    by_cases hmb : isMul b = true
    · obtain ⟨bc, bd, rfl⟩ : ∃ bc bd, b = .mul bc bd := by cases b <;> simp_all [isMul]
      have hnb : NRM (bc, bd) := hb.1
      have hfl : FacsOK (iterOrder rv bd) := FacsOK_iterOrder rv (FacsOK_of_NRM hnb)
      simp only [dlen, reprM] at hfu
      have hlen : (iterOrder rv bd).length + 3 ≤ f := by rw [length_iterOrder]; omega
      have hrest : ∀ coef, datLoop f rv coef ad (iterOrder rv bd) = .ok (coef, merge ad bd) := by
        intro coef
        rw [datLoop_atoms (iterOrder rv bd) hlen hna.2.2.1 hfl,
          merge_iterOrder rv hna.2.2.1 (FacsOK_of_NRM hnb)]
      simp only [mulF, reprM, rmul]
      split
      · simp only [numMul_eq hna.1 hnb.1, ok_bind, hrest]
        rfl
      · rename_i h
        simp only [Bool.or_eq_true, Bool.not_eq_true', not_or, Bool.not_eq_false] at h
        have e1 := numIsOne_eq_one hna.1 h.1
        have e2 := numIsOne_eq_one hnb.1 h.2
        subst e1; subst e2
        simp only [pure, Except.pure, ok_bind, hrest]
        rw [gq_one, cmul_one, ← gq_one, ofG_gq (e := one) (exOK_int 1)]
    · have hmb' : isMul b = false := by simpa using hmb
      have : mulF (f + 1) rv (.mul ac ad) b = mulOnto f rv ac ad b := by
        cases b <;> simp_all [mulF, isMul]
      rw [this]
      obtain ⟨g, rfl⟩ : ∃ g, f = g + 1 := ⟨f - 1, by omega⟩
      simp only [mulOnto, mulStep_eq (by omega : 3 ≤ g) hna hb hmb', ok_bind, reprM]
      rfl
  · have hma' : isMul a = false := by simpa using hma
    by_cases hmb : isMul b = true
    · obtain ⟨bc, bd, rfl⟩ : ∃ bc bd, b = .mul bc bd := by cases b <;> simp_all [isMul]
      have hnb : NRM (bc, bd) := hb.1
      have : mulF (f + 1) rv a (.mul bc bd) = mulOnto f rv bc bd a := by
        cases a <;> simp_all [mulF, isMul]
      rw [this]
      obtain ⟨g, rfl⟩ : ∃ g, f = g + 1 := ⟨f - 1, by omega⟩
      simp only [mulOnto, mulStep_eq (by omega : 3 ≤ g) hnb ha hma', ok_bind]
      have e : reprM (.mul bc bd) = (bc, bd) := rfl
      rw [e, rmul_comm ha.1 hnb]
      rfl
    · have hmb' : isMul b = false := by simpa using hmb
      have : mulF (f + 1) rv a b = (do
          let (coef, d) ← mulStep f rv one [] a
          let (coef, d) ← mulStep f rv coef d b
          pure (mulFromDict coef d)) := by
        cases a <;> cases b <;> simp_all [mulF, isMul]
      rw [this, mulStep_eq (by omega : 3 ≤ f) NRM_unit ha hma', rmul_unit ha.1]
      simp only [ok_bind]
      have hra : NRM ((reprM a).1, (reprM a).2) := ha.1
      rw [mulStep_eq (by omega : 3 ≤ f) hra hb hmb']
      rfl

end SymVerif.AC
