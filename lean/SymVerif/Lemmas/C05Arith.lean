import SymVerif.Lemmas.C05Num
import SymVerif.Lemmas.C05Div
/-! add / sub / mul / div of exact numbers: total, exact value, normalised result (all nine kind pairs each). -/
namespace SymVerif.C05
open SymVerif.Num

set_option linter.unusedSimpArgs false
set_option linter.unusedSectionVars false
set_option linter.unusedVariables false
set_option linter.unnecessarySeqFocus false
set_option linter.unusedTactic false
set_option linter.unreachableTactic false

variable {F : Type} [FloatOps F]

/-- closes goals `0 < q.den` for `q` built by the `mpq` operations from parts with positive denominator -/
syntax "qpos" : tactic
/-- closes goals `q.Canon` for results of the `mpq` operations -/
syntax "qcanon" : tactic
macro_rules
  | `(tactic| qpos) => `(tactic| first
    | assumption
    | exact Q.Canon.pos (by assumption)
    | exact Nat.one_pos
    | exact Q.add_den_pos (by qpos) (by qpos)
    | exact Q.sub_den_pos (by qpos) (by qpos)
    | exact Q.mul_den_pos (by qpos) (by qpos)
    | exact Q.Canon.pos (Q.neg_canon (by assumption)))
macro_rules
  | `(tactic| qcanon) => `(tactic| first
    | assumption
    | exact Q.Canon.ofInt _
    | exact Q.neg_canon (by assumption)
    | exact Q.add_canon (by qpos) (by qpos)
    | exact Q.sub_canon (by qpos) (by qpos)
    | exact Q.mul_canon (by qpos) (by qpos))

/-- value goals: both components, after rewriting the `mpq` operations to `ℚ` operations -/
syntax "qval" : tactic
macro_rules
  | `(tactic| qval) => `(tactic|
      (apply Complex.ext <;>
        simp only [gv_re, gv_im, Complex.add_re, Complex.add_im, Complex.sub_re, Complex.sub_im,
          Complex.mul_re, Complex.mul_im] <;>
        (repeat (first
          | rw [Q.toRat_add (by qpos) (by qpos)]
          | rw [Q.toRat_sub (by qpos) (by qpos)]
          | rw [Q.toRat_mul (by qpos) (by qpos)]
          | rw [Q.toRat_neg]
          | rw [Q.toRat_ofInt])) <;>
        push_cast <;> ring))

/-- **C05 (a)** addition of exact numbers: total, exact, normalised. -/
theorem add_good (a b : Num F) (ea : Exact a) (eb : Exact b) (na : Normalised a) (nb : Normalised b)
    (za zb : ℂ) (ha : val a = some za) (hb : val b = some zb) :
    ∃ r, Num.add a b = .ok r ∧ Good r (za + zb) := by
  have pa := parts_canon ea na
  have pb := parts_canon eb nb
  cases a <;> cases b <;> simp only [Exact, Num.isExact, Bool.false_eq_true] at ea eb
  all_goals simp only [val, Option.some.injEq] at ha hb
  all_goals subst ha hb
  all_goals simp only [Num.add, intAdd, ratAdd, cplxAdd]
  all_goals simp only [parts] at pa pb
  all_goals obtain ⟨pa1, pa2⟩ := pa
  all_goals obtain ⟨pb1, pb2⟩ := pb
  · exact ⟨_, rfl, rfl, rfl, by simp only [val]; congr 1; apply Complex.ext <;> simp [gv, Q.toRat, Q.ofInt]⟩
  all_goals refine ⟨_, rfl, ?_⟩
  all_goals first
    | (apply fromMpq_good (by qcanon); qval)
    | (apply cFromMpq_good (by qcanon) (by qcanon); qval)

/-- **C05 (a)** subtraction of exact numbers: total, exact, normalised. -/
theorem sub_good (a b : Num F) (ea : Exact a) (eb : Exact b) (na : Normalised a) (nb : Normalised b)
    (za zb : ℂ) (ha : val a = some za) (hb : val b = some zb) :
    ∃ r, Num.sub a b = .ok r ∧ Good r (za - zb) := by
  have pa := parts_canon ea na
  have pb := parts_canon eb nb
  cases a <;> cases b <;> simp only [Exact, Num.isExact, Bool.false_eq_true] at ea eb
  all_goals simp only [val, Option.some.injEq] at ha hb
  all_goals subst ha hb
  all_goals simp only [Num.sub, intSub, ratSub, cplxSub, ratRsub, cplxRsub]
  all_goals simp only [parts] at pa pb
  all_goals obtain ⟨pa1, pa2⟩ := pa
  all_goals obtain ⟨pb1, pb2⟩ := pb
  · exact ⟨_, rfl, rfl, rfl, by simp only [val]; congr 1; apply Complex.ext <;> simp [gv, Q.toRat, Q.ofInt]⟩
  all_goals refine ⟨_, rfl, ?_⟩
  all_goals first
    | (apply fromMpq_good (by qcanon); qval)
    | (apply cFromMpq_good (by qcanon) (by qcanon); qval)

/-- **C05 (a)** multiplication of exact numbers: total, exact, normalised. -/
theorem mul_good (a b : Num F) (ea : Exact a) (eb : Exact b) (na : Normalised a) (nb : Normalised b)
    (za zb : ℂ) (ha : val a = some za) (hb : val b = some zb) :
    ∃ r, Num.mul a b = .ok r ∧ Good r (za * zb) := by
  have pa := parts_canon ea na
  have pb := parts_canon eb nb
  cases a <;> cases b <;> simp only [Exact, Num.isExact, Bool.false_eq_true] at ea eb
  all_goals simp only [val, Option.some.injEq] at ha hb
  all_goals subst ha hb
  all_goals simp only [Num.mul, intMul, ratMul, cplxMul]
  all_goals simp only [parts] at pa pb
  all_goals obtain ⟨pa1, pa2⟩ := pa
  all_goals obtain ⟨pb1, pb2⟩ := pb
  · exact ⟨_, rfl, rfl, rfl, by simp only [val]; congr 1; apply Complex.ext <;> simp [gv, Q.toRat, Q.ofInt]⟩
  all_goals refine ⟨_, rfl, ?_⟩
  all_goals first
    | (apply fromMpq_good (by qcanon); qval)
    | (apply cFromMpq_good (by qcanon) (by qcanon); qval)

/-- **C05 (b)** division of exact numbers by anything but the exact zero: total (no `NotImplementedError`
for any pair of kinds — this is where D10 was), exact, normalised. -/
theorem div_good (a b : Num F) (ea : Exact a) (eb : Exact b) (na : Normalised a) (nb : Normalised b)
    (za zb : ℂ) (ha : val a = some za) (hb : val b = some zb) (hb0 : b ≠ .int 0) :
    ∃ r, Num.div a b = .ok r ∧ Good r (za / zb) := by
  have pa := parts_canon ea na
  have pb := parts_canon eb nb
  cases a <;> cases b <;> simp only [Exact, Num.isExact, Bool.false_eq_true] at ea eb
  all_goals simp only [val, Option.some.injEq] at ha hb
  all_goals subst ha hb
  all_goals simp only [parts] at pa pb
  all_goals obtain ⟨pa1, pa2⟩ := pa
  all_goals obtain ⟨pb1, pb2⟩ := pb
  · -- Integer / Integer : divint
    rename_i n m
    have hm : m ≠ 0 := fun e => hb0 (by rw [e])
    refine ⟨fromMpq (Q.make n m), by simp [Num.div, intDiv, divint, hm], ?_⟩
    exact fromMpq_good (Q.make_canon n hm) (gv_make n hm).symm
  · -- Integer / Rational : Rational::rdiv
    rename_i n p
    have hp := rat_num_ne_zero nb
    refine ⟨fromMpq ((Q.ofInt n).div p), by simp [Num.div, intDiv, ratRdiv, hp], ?_⟩
    exact fromMpq_good (Q.div_canon Nat.one_pos hp) (gv_div_rat Nat.one_pos pb1.pos hp).symm
  · -- Integer / Complex : Complex::rdivcomp(Integer)
    rename_i n re im
    obtain ⟨_, _, him⟩ := normalised_cplx.mp nb
    have hm2 := modSq_num_ne_zero pb1.pos pb2.pos him
    refine ⟨cFromMpq ((re.mul (.ofInt n)).div (modSq re im)) ((im.mul (.ofInt (-n))).div (modSq re im)),
      by simp [Num.div, intDiv, cplxRdiv, hm2], ?_⟩
    exact cFromMpq_good (Q.div_canon (by qpos) hm2) (Q.div_canon (by qpos) hm2)
      (gv_rdiv_cplx (p := .ofInt n) pb1.pos pb2.pos Nat.one_pos him).symm
  · -- Rational / Integer
    rename_i q m
    have hm : m ≠ 0 := fun e => hb0 (by rw [e])
    refine ⟨fromMpq (q.div (.ofInt m)), by simp [Num.div, ratDiv, hm], ?_⟩
    exact fromMpq_good (Q.div_canon pa1.pos hm) (gv_div_rat pa1.pos Nat.one_pos hm).symm
  · -- Rational / Rational
    rename_i q p
    have hp := rat_num_ne_zero nb
    refine ⟨fromMpq (q.div p), by simp [Num.div, ratDiv, hp], ?_⟩
    exact fromMpq_good (Q.div_canon pa1.pos hp) (gv_div_rat pa1.pos pb1.pos hp).symm
  · -- Rational / Complex : Complex::rdivcomp(Rational)  (the D10 patch)
    rename_i q re im
    obtain ⟨_, _, him⟩ := normalised_cplx.mp nb
    have hm2 := modSq_num_ne_zero pb1.pos pb2.pos him
    refine ⟨cFromMpq ((re.mul q).div (modSq re im)) ((im.mul q.neg).div (modSq re im)),
      by simp [Num.div, ratDiv, cplxRdiv, hm2], ?_⟩
    have hqn : 0 < q.neg.den := pa1.pos
    exact cFromMpq_good (Q.div_canon (by qpos) hm2) (Q.div_canon (by qpos) hm2)
      (gv_rdiv_cplx pb1.pos pb2.pos pa1.pos him).symm
  · -- Complex / Integer
    rename_i re im m
    have hm : m ≠ 0 := fun e => hb0 (by rw [e])
    refine ⟨cFromMpq (re.div (.ofInt m)) (im.div (.ofInt m)), by simp [Num.div, cplxDiv, hm], ?_⟩
    exact cFromMpq_good (Q.div_canon pa1.pos hm) (Q.div_canon pa2.pos hm)
      (gv_div_real pa1.pos pa2.pos Nat.one_pos hm).symm
  · -- Complex / Rational
    rename_i re im p
    have hp := rat_num_ne_zero nb
    refine ⟨cFromMpq (re.div p) (im.div p), by simp [Num.div, cplxDiv, hp], ?_⟩
    exact cFromMpq_good (Q.div_canon pa1.pos hp) (Q.div_canon pa2.pos hp)
      (gv_div_real pa1.pos pa2.pos pb1.pos hp).symm
  · -- Complex / Complex
    rename_i re im re' im'
    obtain ⟨_, _, him⟩ := normalised_cplx.mp nb
    have hm2 := modSq_num_ne_zero pb1.pos pb2.pos him
    have hn : 0 < re.neg.den := pa1.pos
    refine ⟨cFromMpq (((re.mul re').add (im.mul im')).div (modSq re' im'))
        (((re.neg.mul im').add (im.mul re')).div (modSq re' im')),
      by simp [Num.div, cplxDiv, hm2], ?_⟩
    exact cFromMpq_good (Q.div_canon (by qpos) hm2) (Q.div_canon (by qpos) hm2)
      (gv_div_cplx pa1.pos pa2.pos pb1.pos pb2.pos him).symm


end SymVerif.C05
