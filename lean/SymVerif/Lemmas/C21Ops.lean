import SymVerif.Lemmas.C21Basic

/-! C21: schoolbook multiplication, `operator*=`, `setKey`, degree / leading coefficient,
evaluation, differentiation. -/
set_option linter.unusedSectionVars false
open Polynomial
namespace SymVerif.C21
open SymVerif.UPoly

variable {R : Type} [CommRing R] [DecidableEq R]

/-! ### `ODictWrapper::mul` -/

theorem toPoly_accTerm (d : Dict R) (k : Nat) (v : R) :
    toPoly (accTerm d k v) = toPoly d + monomial k v := by
  induction d with
  | nil => simp [accTerm]
  | cons p t ih =>
    obtain ⟨k', c'⟩ := p
    simp only [accTerm]
    split
    · simp [ih, add_assoc]
    · split
      · rename_i h1 h2
        subst h2
        simp only [toPoly_cons, map_add]; ring
      · simp only [toPoly_cons, zero_add]; ring

theorem key_mem_accTerm {d : Dict R} {k : Nat} {v : R} {q : Nat × R} (h : q ∈ accTerm d k v) :
    q.1 = k ∨ ∃ r ∈ d, r.1 = q.1 := by
  induction d with
  | nil => simp [accTerm] at h; left; rw [h]
  | cons p t ih =>
    obtain ⟨k', c'⟩ := p
    simp only [accTerm] at h
    split at h
    · rcases List.mem_cons.1 h with h | h
      · right; exact ⟨(k', c'), List.mem_cons_self, by rw [h]⟩
      · rcases ih h with h | ⟨r, hr, hrk⟩
        · left; exact h
        · right; exact ⟨r, List.mem_cons_of_mem _ hr, hrk⟩
    · split at h
      · rcases List.mem_cons.1 h with h | h
        · right; exact ⟨(k', c'), List.mem_cons_self, by rw [h]⟩
        · right; exact ⟨q, List.mem_cons_of_mem _ h, rfl⟩
      · rcases List.mem_cons.1 h with h | h
        · left; rw [h]
        · right; exact ⟨q, h, rfl⟩

theorem sorted_accTerm {d : Dict R} {k : Nat} {v : R} (hd : Sorted d) : Sorted (accTerm d k v) := by
  induction d with
  | nil => simp [accTerm, Sorted]
  | cons p t ih =>
    obtain ⟨k', c'⟩ := p
    have ⟨h1, h2⟩ := sorted_cons.1 hd
    simp only [accTerm]
    split
    · rename_i hlt
      refine sorted_cons.2 ⟨?_, ih h2⟩
      intro q hq
      rcases key_mem_accTerm hq with h | ⟨r, hr, hrk⟩
      · rw [h]; exact hlt
      · rw [← hrk]; exact h1 r hr
    · split
      · exact sorted_cons.2 ⟨h1, h2⟩
      · rename_i hnlt hne
        have hgt : k < k' := by omega
        refine sorted_cons.2 ⟨?_, hd⟩
        intro q hq
        rcases List.mem_cons.1 hq with h | h
        · rw [h]; exact hgt
        · exact Nat.lt_trans hgt (h1 q h)

theorem toPoly_mulInner (b : Dict R) (k1 : Nat) (c1 : R) (p : Dict R) :
    toPoly (b.foldl (fun p i2 => accTerm p (k1 + i2.1) (c1 * i2.2)) p)
      = toPoly p + monomial k1 c1 * toPoly b := by
  induction b generalizing p with
  | nil => simp
  | cons q t ih =>
    simp only [List.foldl_cons, ih, toPoly_accTerm, toPoly_cons, mul_add, monomial_mul_monomial]
    ring

theorem sorted_mulInner (b : Dict R) (k1 : Nat) (c1 : R) {p : Dict R} (hp : Sorted p) :
    Sorted (b.foldl (fun p i2 => accTerm p (k1 + i2.1) (c1 * i2.2)) p) := by
  induction b generalizing p with
  | nil => simpa using hp
  | cons q t ih => simp only [List.foldl_cons]; exact ih (sorted_accTerm hp)

theorem toPoly_mulOuter (a b : Dict R) (p : Dict R) :
    toPoly (a.foldl (fun p i1 => b.foldl (fun p i2 => accTerm p (i1.1 + i2.1) (i1.2 * i2.2)) p) p)
      = toPoly p + toPoly a * toPoly b := by
  induction a generalizing p with
  | nil => simp
  | cons q t ih =>
    simp only [List.foldl_cons, ih, toPoly_mulInner, toPoly_cons, add_mul]
    ring

theorem sorted_mulOuter (a b : Dict R) {p : Dict R} (hp : Sorted p) :
    Sorted (a.foldl (fun p i1 => b.foldl (fun p i2 => accTerm p (i1.1 + i2.1) (i1.2 * i2.2)) p) p) := by
  induction a generalizing p with
  | nil => simpa using hp
  | cons q t ih => simp only [List.foldl_cons]; exact ih (sorted_mulInner b _ _ hp)

theorem toPoly_mulAcc (a b : Dict R) : toPoly (mulAcc a b) = toPoly a * toPoly b := by
  unfold mulAcc; rw [toPoly_mulOuter]; simp

theorem toPoly_filter (d : Dict R) : toPoly (d.filter (fun q => q.2 ≠ 0)) = toPoly d := by
  induction d with
  | nil => simp
  | cons p t ih =>
    rw [List.filter_cons]
    by_cases h : p.2 = 0
    · rw [if_neg (by simp [h]), ih, toPoly_cons, h]; simp
    · rw [if_pos (by simp [h]), toPoly_cons, ih, toPoly_cons]

theorem canon_filter {d : Dict R} (hd : Sorted d) : Canon (d.filter (fun q => q.2 ≠ 0)) := by
  constructor
  · exact List.Pairwise.sublist List.filter_sublist hd
  · intro p hp
    have := (List.mem_filter.1 hp).2
    simpa using this

theorem toPoly_fromMap (d : Dict R) : toPoly (fromMap d) = toPoly d := toPoly_filter d
theorem canon_fromMap {d : Dict R} (hd : Sorted d) : Canon (fromMap d) := canon_filter hd

theorem toPoly_mulGeneric (a b : Dict R) : toPoly (mulGeneric a b) = toPoly a * toPoly b := by
  unfold mulGeneric
  split
  · rename_i h; simp [List.isEmpty_iff.1 h]
  · split
    · rename_i h; simp [List.isEmpty_iff.1 h]
    · rw [toPoly_filter, toPoly_mulAcc]

theorem canon_mulGeneric {a b : Dict R} (ha : Canon a) (hb : Canon b) : Canon (mulGeneric a b) := by
  unfold mulGeneric
  split
  · exact ha
  · split
    · exact hb
    · exact canon_filter (sorted_mulOuter a b sorted_nil)

/-! ### `m[k] = c` -/

theorem setKey_append {d : Dict R} {k : Nat} {c : R} (h : ∀ q ∈ d, q.1 < k) :
    setKey d k c = d ++ [(k, c)] := by
  induction d with
  | nil => simp [setKey]
  | cons p t ih =>
    obtain ⟨k', c'⟩ := p
    have h1 : k' < k := h (k', c') List.mem_cons_self
    simp [setKey, h1, ih (fun q hq => h q (List.mem_cons_of_mem _ hq))]

theorem sorted_append_single {d : Dict R} {k : Nat} {c : R} (hd : Sorted d) (h : ∀ q ∈ d, q.1 < k) :
    Sorted (d ++ [(k, c)]) := by
  unfold Sorted
  rw [List.pairwise_append]
  refine ⟨hd, by simp, ?_⟩
  intro a ha b hb
  simp at hb
  rw [hb]; exact h a ha

/-! ### degree and leading coefficient -/

theorem degree_cons_cons (p q : Nat × R) (t : Dict R) :
    UPoly.degree (p :: q :: t) = UPoly.degree (q :: t) := by
  simp [UPoly.degree]
theorem getLc_cons_cons (p q : Nat × R) (t : Dict R) : getLc (p :: q :: t) = getLc (q :: t) := by
  simp [getLc]

/-- the last key is the largest, its coefficient is `get_lc` -/
theorem degree_spec {d : Dict R} (hs : Sorted d) (hne : d ≠ []) :
    (UPoly.degree d, getLc d) ∈ d ∧ ∀ q ∈ d, q.1 ≤ UPoly.degree d := by
  induction d with
  | nil => exact absurd rfl hne
  | cons p t ih =>
    cases t with
    | nil =>
      obtain ⟨k, c⟩ := p
      simp [UPoly.degree, getLc]
    | cons q u =>
      have ⟨h1, h2⟩ := sorted_cons.1 hs
      have ⟨ihm, ihle⟩ := ih h2 (by simp)
      rw [degree_cons_cons, getLc_cons_cons]
      refine ⟨List.mem_cons_of_mem _ ihm, ?_⟩
      intro r hr
      rcases List.mem_cons.1 hr with h | h
      · rw [h]; exact Nat.le_of_lt (Nat.lt_of_lt_of_le (h1 q List.mem_cons_self) (ihle q List.mem_cons_self))
      · exact ihle r h

theorem getCoeff_of_mem {d : Dict R} (hs : Sorted d) {k : Nat} {c : R} (hm : (k, c) ∈ d) :
    getCoeff d k = c := by
  induction d with
  | nil => cases hm
  | cons p t ih =>
    obtain ⟨k', c'⟩ := p
    have ⟨h1, h2⟩ := sorted_cons.1 hs
    simp only [getCoeff]
    rcases List.mem_cons.1 hm with h | h
    · rw [if_pos ((Prod.ext_iff.1 h).1.symm)]; exact ((Prod.ext_iff.1 h).2).symm
    · have hlt := h1 _ h
      simp only at hlt
      rw [if_neg (Nat.ne_of_lt hlt)]
      exact ih h2 h

theorem coeff_degree {d : Dict R} (hs : Sorted d) : (toPoly d).coeff (UPoly.degree d) = getLc d := by
  by_cases hne : d = []
  · subst hne; simp [UPoly.degree, getLc]
  · rw [← getCoeff_spec hs]
    exact getCoeff_of_mem hs (degree_spec hs hne).1

theorem coeff_gt_degree {d : Dict R} (hs : Sorted d) {k : Nat} (hk : UPoly.degree d < k) :
    (toPoly d).coeff k = 0 := by
  by_cases hne : d = []
  · subst hne; simp
  · have ⟨_, hle⟩ := degree_spec hs hne
    exact coeff_eq_zero_of_gt (fun q hq => Nat.lt_of_le_of_lt (hle q hq) hk)

theorem getLc_ne_zero {d : Dict R} (hd : Canon d) (hne : d ≠ []) : getLc d ≠ 0 :=
  hd.2 _ (degree_spec hd.1 hne).1

theorem toPoly_ne_zero {d : Dict R} (hd : Canon d) (hne : d ≠ []) : toPoly d ≠ 0 := by
  intro h
  have := coeff_degree hd.1
  rw [h] at this
  exact getLc_ne_zero hd hne (by simpa using this.symm)

theorem natDegree_toPoly {d : Dict R} (hd : Canon d) (hne : d ≠ []) :
    (toPoly d).natDegree = UPoly.degree d := by
  apply le_antisymm
  · rw [natDegree_le_iff_coeff_eq_zero]
    intro k hk
    exact coeff_gt_degree hd.1 hk
  · apply le_natDegree_of_ne_zero
    rw [coeff_degree hd.1]
    exact getLc_ne_zero hd hne

theorem leadingCoeff_toPoly {d : Dict R} (hd : Canon d) (hne : d ≠ []) :
    (toPoly d).leadingCoeff = getLc d := by
  rw [leadingCoeff, natDegree_toPoly hd hne, coeff_degree hd.1]

end SymVerif.C21
