import Mathlib.Data.Nat.GCD.Basic
import Mathlib.Data.Int.GCD
import Mathlib.Tactic.Ring
import Mathlib.Tactic.Linarith
import Mathlib.Data.Nat.ModEq
import Mathlib.Data.Int.ModEq
import Mathlib.Data.Int.Basic
import SymVerif.Model.NTheory
/-! Basic facts about the GMP layer of the C32 model. -/
namespace SymVerif.C32
open SymVerif.NTheory

theorem powModNat_eq (a e m : Nat) : powModNat a e m = a ^ e % m := by
  induction e using Nat.strongRecOn with
  | ind e ih =>
    unfold powModNat
    by_cases h : e = 0
    · simp [h]
    · simp only [h, dite_false]
      have hlt : e / 2 < e := Nat.div_lt_self (Nat.pos_of_ne_zero h) (by decide)
      rw [ih _ hlt]
      have he : e = 2 * (e / 2) + e % 2 := (Nat.div_add_mod e 2).symm
      have hsq : a ^ (e / 2) % m * (a ^ (e / 2) % m) % m ≡ a ^ (e / 2) * a ^ (e / 2) [MOD m] :=
        (Nat.mod_modEq _ _).trans ((Nat.mod_modEq _ _).mul (Nat.mod_modEq _ _))
      by_cases h1 : e % 2 = 1
      · simp only [h1, if_true]
        have : a ^ e = a ^ (e / 2) * a ^ (e / 2) * a := by
          conv_lhs => rw [he, h1]
          ring
        rw [this]
        exact (hsq.mul (Nat.mod_modEq a m))
      · have h0 : e % 2 = 0 := by omega
        simp only [h1, if_false]
        have : a ^ e = a ^ (e / 2) * a ^ (e / 2) := by
          conv_lhs => rw [he, h0]
          ring
        rw [this]
        have := hsq
        unfold Nat.ModEq at this
        rwa [Nat.mod_mod] at this

theorem egcd_spec (a b : Nat) :
    (egcd a b).1 = Nat.gcd a b ∧ (a : Int) * (egcd a b).2.1 + (b : Int) * (egcd a b).2.2 = (Nat.gcd a b : Int) := by
  induction b using Nat.strongRecOn generalizing a with
  | ind b ih =>
    unfold egcd
    by_cases h : b = 0
    · subst h; simp
    · simp only [h, dite_false]
      have hlt : a % b < b := Nat.mod_lt _ (Nat.pos_of_ne_zero h)
      obtain ⟨h1, h2⟩ := ih (a % b) hlt b
      refine ⟨?_, ?_⟩
      · rw [h1, Nat.gcd_comm a b, Nat.gcd_rec b a, Nat.gcd_comm]
      · have hg : Nat.gcd a b = Nat.gcd b (a % b) := by
          rw [Nat.gcd_comm a b, Nat.gcd_rec b a, Nat.gcd_comm]
        rw [hg, ← h2]
        have hd : (a : Int) = b * (a / b : Nat) + (a % b : Nat) := by
          exact_mod_cast (Nat.div_add_mod a b).symm
        conv_lhs => rw [hd]
        push_cast
        ring

theorem invNat_some {a m i : Nat} (hm : 0 < m) (h : invNat a m = some i) :
    i < m ∧ a * i % m = 1 % m ∧ Nat.gcd a m = 1 := by
  unfold invNat at h
  obtain ⟨h1, h2⟩ := egcd_spec (a % m) m
  simp only [beq_iff_eq] at h
  split at h
  · rename_i hg
    injection h with h
    rw [h1] at hg
    have hgcd : Nat.gcd a m = 1 := by rwa [← Nat.gcd_rec, Nat.gcd_comm] at hg
    have hmz : (m : Int) ≠ 0 := by exact_mod_cast hm.ne'
    have hnn : 0 ≤ (egcd (a % m) m).2.1 % (m : Int) := Int.emod_nonneg _ hmz
    have hlt : (egcd (a % m) m).2.1 % (m : Int) < m := Int.emod_lt_of_pos _ (by exact_mod_cast hm)
    have hi : (i : Int) = (egcd (a % m) m).2.1 % (m : Int) := by
      rw [← h]; exact Int.toNat_of_nonneg hnn
    refine ⟨by exact_mod_cast (hi ▸ hlt), ?_, hgcd⟩
    -- a * i ≡ 1 mod m
    rw [hg] at h2
    have hmod : ((a : Int) * i) ≡ 1 [ZMOD m] := by
      have e1 : (i : Int) ≡ (egcd (a % m) m).2.1 [ZMOD m] := by rw [hi]; exact Int.mod_modEq _ _
      have e2 : (a : Int) ≡ ((a % m : Nat) : Int) [ZMOD m] := by
        push_cast; exact (Int.mod_modEq _ _).symm
      have e3 : ((a % m : Nat) : Int) * (egcd (a % m) m).2.1 ≡ 1 [ZMOD m] := by
        have : ((a % m : Nat) : Int) * (egcd (a % m) m).2.1 = 1 - (m : Int) * (egcd (a % m) m).2.2 := by
          have h2' := h2
          push_cast at h2' ⊢
          linarith
        rw [this]
        exact Int.modEq_iff_dvd.mpr ⟨(egcd (a % m) m).2.2, by ring⟩
      exact (e2.mul e1).trans e3
    have : ((a * i : Nat) : Int) % m = ((1 : Nat) : Int) % m := by
      push_cast; exact hmod
    exact_mod_cast this
  · exact absurd h (by simp)

theorem invNat_none {a m : Nat} (h : invNat a m = none) : Nat.gcd a m ≠ 1 := by
  unfold invNat at h
  obtain ⟨h1, _⟩ := egcd_spec (a % m) m
  simp only [beq_iff_eq] at h
  split at h
  · exact absurd h (by simp)
  · rename_i hg
    rw [h1] at hg
    intro hc
    apply hg
    rwa [← Nat.gcd_rec, Nat.gcd_comm]

theorem invNat_isSome_iff {a m : Nat} (hm : 0 < m) : (invNat a m).isSome ↔ Nat.gcd a m = 1 := by
  constructor
  · intro h
    obtain ⟨i, hi⟩ := Option.isSome_iff_exists.mp h
    exact (invNat_some hm hi).2.2
  · intro h
    cases hi : invNat a m with
    | none => exact absurd h (invNat_none hi)
    | some i => simp

/-- `powmN` is the canonical representative of `a^e` modulo `m > 0`. -/
theorem powmN_eq (a : Int) (e m : Nat) (hm : 0 < m) : powmN a e m = a ^ e % (m : Int) := by
  unfold powmN
  rw [powModNat_eq]
  have hmz : (m : Int) ≠ 0 := by exact_mod_cast hm.ne'
  have hnn : 0 ≤ a % (m : Int) := Int.emod_nonneg _ hmz
  push_cast
  rw [Int.toNat_of_nonneg hnn]
  exact (Int.ModEq.pow e (Int.mod_modEq a m))

theorem gcd_toNat_emod (a : Int) (M : Nat) (hM : 0 < M) :
    Nat.gcd (a % (M : Int)).toNat M = Int.gcd a M := by
  have hmz : (M : Int) ≠ 0 := by exact_mod_cast hM.ne'
  have hnn : 0 ≤ a % (M : Int) := Int.emod_nonneg _ hmz
  have h := Int.gcd_emod a (M : Int)
  have e1 : (a % (M : Int)).natAbs = (a % (M : Int)).toNat := by omega
  simp only [Int.gcd, Int.natAbs_natCast] at h ⊢
  rw [← e1, h]

/-- `invNat` on the canonical residue of an integer. -/
theorem invNat_int (a : Int) (M : Nat) (hM : 0 < M) :
    (Int.gcd a M = 1 → ∃ i : Nat, invNat (a % (M : Int)).toNat M = some i ∧ i < M ∧
        (a * i) % (M : Int) = 1 % (M : Int)) ∧
    (Int.gcd a M ≠ 1 → invNat (a % (M : Int)).toNat M = none) := by
  have hmz : (M : Int) ≠ 0 := by exact_mod_cast hM.ne'
  have hnn : 0 ≤ a % (M : Int) := Int.emod_nonneg _ hmz
  have hg := gcd_toNat_emod a M hM
  constructor
  · intro hcop
    have hs : (invNat (a % (M : Int)).toNat M).isSome := (invNat_isSome_iff hM).mpr (hg.trans hcop)
    obtain ⟨i, hi⟩ := Option.isSome_iff_exists.mp hs
    obtain ⟨h1, h2, _⟩ := invNat_some hM hi
    refine ⟨i, hi, h1, ?_⟩
    have h2' : (((a % (M : Int)).toNat * i : Nat) : Int) % (M : Int) = ((1 : Nat) : Int) % (M : Int) := by
      rw [← Int.natCast_mod, ← Int.natCast_mod, h2]
    rw [Nat.cast_mul, Int.toNat_of_nonneg hnn, Nat.cast_one] at h2'
    rw [← h2']
    exact (Int.ModEq.mul_right _ (Int.mod_modEq a _)).symm
  · intro hncop
    cases hi : invNat (a % (M : Int)).toNat M with
    | none => rfl
    | some i => exact absurd (hg.symm.trans (invNat_some hM hi).2.2) hncop

end SymVerif.C32
