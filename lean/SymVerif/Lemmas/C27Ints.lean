import SymVerif.Lemmas.C27Sem
import Mathlib.Tactic.Linarith
import Mathlib.Data.Rat.Defs

/-! Interval ∩ Integers / Naturals / Naturals0: the enumeration `ceil(start) … floor(end)`. -/
namespace SymVerif.Sets

theorem mem_intRange (n : ℕ) : ∀ (first : ℤ) (q : ℚ),
    ENum.fin q ∈ intRange first n ↔ ∃ k : ℤ, first ≤ k ∧ k < first + n ∧ q = (k : ℚ) := by
  induction n with
  | zero => intro first q; simp [intRange]; intro k h1 h2; omega
  | succ m ih =>
    intro first q
    simp only [intRange, List.mem_cons, ENum.fin.injEq, ih]
    constructor
    · rintro (h | ⟨k, h1, h2, h3⟩)
      · exact ⟨first, le_refl _, by push_cast; omega, h⟩
      · exact ⟨k, by omega, by push_cast; omega, h3⟩
    · rintro ⟨k, h1, h2, h3⟩
      by_cases hk : k = first
      · left; rw [h3, hk]
      · right; exact ⟨k, by omega, by push_cast at h2; omega, h3⟩

theorem mem_intRange_int (n : ℕ) (first k : ℤ) :
    ENum.fin (k : ℚ) ∈ intRange first n ↔ (first ≤ k ∧ k < first + n) := by
  rw [mem_intRange]
  constructor
  · rintro ⟨j, h1, h2, h3⟩
    have : k = j := by exact_mod_cast h3
    subst this
    exact ⟨h1, h2⟩
  · rintro ⟨h1, h2⟩
    exact ⟨k, h1, h2, rfl⟩

theorem rat_den_one_iff (q : ℚ) : q.den = 1 ↔ ∃ k : ℤ, q = (k : ℚ) := by
  constructor
  · intro h; exact ⟨q.num, ((Rat.den_eq_one_iff q).1 h).symm⟩
  · rintro ⟨k, rfl⟩; simp

/-- the rational points of the number set `kind` (0 Integers, 1 Naturals, otherwise Naturals0) at an integer -/
def kindOK (kind : Nat) (k : ℤ) : Prop := if kind = 0 then True else if kind = 1 then 0 < k else 0 ≤ k

theorem mem_numSet_int (kind : Nat) (k : ℤ) : mem (numSet kind) (k : ℚ) ↔ kindOK kind k := by
  unfold numSet kindOK
  by_cases h0 : kind = 0
  · simp [h0, mem]
  · by_cases h1 : kind = 1
    · simp [h1, mem]
    · simp [h0, h1, mem]

theorem mem_numSet_den (kind : Nat) (q : ℚ) (h : mem (numSet kind) q) : q.den = 1 := by
  unfold numSet at h
  split at h
  · simpa [mem] using h
  · split at h <;> simp [mem] at h <;> exact h.1

theorem floor_le_ceil (s : ℚ) : s.floor ≤ s.ceil := by
  have h1 : (s.floor : ℚ) ≤ s := Rat.le_floor_iff.1 (le_refl _)
  have h2 : s ≤ (s.ceil : ℚ) := Rat.ceil_le_iff.1 (le_refl _)
  exact_mod_cast h1.trans h2

theorem ceil_le_floor_add_one (s : ℚ) : s.ceil ≤ s.floor + 1 := by
  have h1 : s < ((s.floor + 1 : ℤ) : ℚ) := Rat.floor_lt_iff.1 (by omega)
  exact Rat.ceil_le_iff.2 h1.le

theorem ivInterInts_mem (s e : ℚ) (lo ro : Bool) (kind : Nat) (hkind : kind ≤ 2) (q : ℚ) :
    mem (ivInterInts s e lo ro kind) q ↔
      (memIv (.fin s) (.fin e) lo ro q ∧ mem (numSet kind) q) := by
  -- both sides force `q` to be an integer
  have key : ∀ k : ℤ, mem (ivInterInts s e lo ro kind) (k : ℚ) ↔
      (memIv (.fin s) (.fin e) lo ro (k : ℚ) ∧ kindOK kind k) := by
    intro k
    have hs1 := floor_le_ceil s
    have hs2 := ceil_le_floor_add_one s
    have he1 := floor_le_ceil e
    have he2 := ceil_le_floor_add_one e
    have e1 : ∀ j : ℤ, ((j : ℚ) = s) ↔ (s.ceil ≤ j ∧ j ≤ s.floor) := by
      intro j
      rw [Rat.ceil_le_iff, Rat.le_floor_iff]
      constructor
      · intro h; rw [h]; exact ⟨le_refl _, le_refl _⟩
      · intro h; exact le_antisymm h.2 h.1
    have e2 : ∀ j : ℤ, ((j : ℚ) = e) ↔ (e.ceil ≤ j ∧ j ≤ e.floor) := by
      intro j
      rw [Rat.ceil_le_iff, Rat.le_floor_iff]
      constructor
      · intro h; rw [h]; exact ⟨le_refl _, le_refl _⟩
      · intro h; exact le_antisymm h.2 h.1
    have m : memIv (.fin s) (.fin e) lo ro (k : ℚ) ↔
        ((s.floor < k ∨ ((s.ceil ≤ k ∧ k ≤ s.floor) ∧ lo = false)) ∧
         (k < e.ceil ∨ ((e.ceil ≤ k ∧ k ≤ e.floor) ∧ ro = false))) := by
      unfold memIv
      simp only [ENum.fin_lt_fin, ENum.fin.injEq]
      rw [← Rat.floor_lt_iff, ← Rat.lt_ceil_iff, ← e1 k, ← e2 k]
      constructor
      · rintro ⟨h1, h2⟩
        exact ⟨h1.imp id (fun h => ⟨h.1.symm, h.2⟩), h2.imp id (fun h => ⟨h.1.symm, h.2⟩)⟩
      · rintro ⟨h1, h2⟩
        exact ⟨h1.imp id (fun h => ⟨h.1.symm, h.2⟩), h2.imp id (fun h => ⟨h.1.symm, h.2⟩)⟩
    have e1_one : ((1 : ℚ) = s) ↔ (s.ceil ≤ 1 ∧ 1 ≤ s.floor) := by simpa using e1 1
    have e1_zero : ((0 : ℚ) = s) ↔ (s.ceil ≤ 0 ∧ 0 ≤ s.floor) := by simpa using e1 0
    rw [m]
    clear m
    unfold ivInterInts kindOK
    simp only [beq_iff_eq, Bool.and_eq_true, Bool.not_eq_true', decide_eq_true_eq, decide_eq_false_iff_not, e1, e2]
    cases lo <;> cases ro <;>
      simp only [Bool.false_eq_true, and_false, and_true, if_false, reduceCtorEq] <;>
      split_ifs <;>
      simp only [mem, mem_finiteset, mem_mkSB, mem_intRange_int, false_iff, and_true, Int.cast_one,
        Int.cast_zero, e1_one, e1_zero, e1, or_false, false_or, and_false, false_and, not_false_eq_true] at * <;>
      omega
  constructor
  · intro h
    have hden : q.den = 1 := by
      unfold ivInterInts at h
      dsimp only at h
      split_ifs at h
      all_goals first
        | (simp only [mem] at h)
        | (rw [mem_finiteset, mem_mkSB, mem_intRange] at h
           obtain ⟨k, _, _, rfl⟩ := h
           simp)
    obtain ⟨k, rfl⟩ := (rat_den_one_iff q).1 hden
    rw [mem_numSet_int]
    exact (key k).1 h
  · rintro ⟨h1, h2⟩
    obtain ⟨k, rfl⟩ := (rat_den_one_iff q).1 (mem_numSet_den kind q h2)
    rw [mem_numSet_int] at h2
    exact (key k).2 ⟨h1, h2⟩

end SymVerif.Sets
