/-
C04: binary bracketings.  `BTree` is a bracketing of a list of operands, `evalT f` combines it with
the binary constructor `f`.  For `add`: every bracketing of every permutation evaluates to the n-ary
constructor on the leaves (`evalT_add_eq_addN`), hence all of them agree (`evalT_add_perm`).
-/
import SymVerif.Lemmas.C04Add

namespace SymVerif.AC
open SymVerif SymVerif.Arith

inductive BTree where
  | leaf (a : Expr)
  | node (l r : BTree)

def BTree.leaves : BTree → List Expr
  | .leaf a => [a]
  | .node l r => l.leaves ++ r.leaves

/-- evaluate a bracketing with the binary constructor `f` -/
def evalT (f : Expr → Expr → R Expr) : BTree → R Expr
  | .leaf a => .ok a
  | .node l r => do
    let x ← evalT f l
    let y ← evalT f r
    f x y

theorem rsum_append (s : Expr × Dict) (l₁ l₂ : List Expr) : rsum s (l₁ ++ l₂) = rsum (rsum s l₁) l₂ := by
  simp [rsum, List.foldl_append]

theorem rsum_eq_radd : ∀ (l : List Expr) {s : Expr × Dict}, NR s → (∀ a ∈ l, AOK a) →
    rsum s l = radd s (rsum (zero, []) l)
  | [], s, hs, _ => by
    obtain ⟨c, d⟩ := s
    simp only [rsum, List.foldl, radd, gq_zero, add_zero, ofG_gq hs.1, merge]
  | a :: r, s, hs, hl => by
    have ha := (hl a List.mem_cons_self).1
    have hr : ∀ x ∈ r, AOK x := fun x hx => hl x (List.mem_cons_of_mem _ hx)
    show rsum (radd s (repr a)) r = radd s (rsum (radd (zero, []) (repr a)) r)
    rw [rsum_eq_radd r (hs.radd ha) hr, radd_unit ha, rsum_eq_radd r ha hr,
      radd_assoc hs ha (rsum_NR r NR_unit hr)]

/-- every bracketing evaluates to `Add::from_dict` of the accumulated representation of its leaves -/
theorem evalT_add : ∀ (t : BTree), (∀ a ∈ t.leaves, AOK a ∧ exact a = true) →
    ∃ r, evalT addE t = .ok r ∧ AOK r ∧ exact r = true ∧ repr r = rsum (zero, []) t.leaves
  | .leaf a, h => by
    have ha := h a (by simp [BTree.leaves])
    refine ⟨a, rfl, ha.1, ha.2, ?_⟩
    simp only [BTree.leaves, rsum, List.foldl, radd_unit ha.1.1]
  | .node l r, h => by
    have hl : ∀ a ∈ l.leaves, AOK a ∧ exact a = true := fun a ha => h a (by simp [BTree.leaves, ha])
    have hr : ∀ a ∈ r.leaves, AOK a ∧ exact a = true := fun a ha => h a (by simp [BTree.leaves, ha])
    obtain ⟨x, hx, hxa, hxe, hxr⟩ := evalT_add l hl
    obtain ⟨y, hy, hya, hye, hyr⟩ := evalT_add r hr
    have hnr : NR (radd (repr x) (repr y)) := hxa.1.radd hya.1
    obtain ⟨z, hz, _⟩ := repr_fromDict hnr
    obtain ⟨hza, hzr, hze⟩ := AOK_fromDict hnr hz
    refine ⟨z, ?_, hza, hze, ?_⟩
    · simp only [evalT, hx, hy, ok_bind]
      unfold addE guard2
      simp only [hxe, hye, Bool.and_self, if_true]
      rw [addCore_eq hxa hya, hz]
    · rw [hzr, hxr, hyr, BTree.leaves, rsum_append,
        rsum_eq_radd r.leaves (rsum_NR _ NR_unit (fun a ha => (hl a ha).1)) (fun a ha => (hr a ha).1)]

theorem evalT_add_eq_addN (t : BTree) (h : ∀ a ∈ t.leaves, AOK a ∧ exact a = true) :
    evalT addE t = addN t.leaves := by
  obtain ⟨r, h1, h2, _, h4⟩ := evalT_add t h
  rw [h1, addN_eq h, ← h4]
  exact h2.2.symm

theorem addN_perm_aux {l₁ l₂ : List Expr} (hp : l₁.Perm l₂) (h : ∀ a ∈ l₁, AOK a ∧ exact a = true) :
    addN l₁ = addN l₂ := by
  have h2 : ∀ a ∈ l₂, AOK a ∧ exact a = true := fun a ha => h a (hp.mem_iff.mpr ha)
  rw [addN_eq h, addN_eq h2, rsum_perm hp (fun a ha => (h a ha).1) _ NR_unit]

end SymVerif.AC
