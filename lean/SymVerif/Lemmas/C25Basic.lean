import SymVerif.Model.CSR
import Mathlib.Algebra.BigOperators.Intervals
import Mathlib.Algebra.BigOperators.Ring.Finset
import Mathlib.Algebra.Order.Ring.Rat
import Mathlib.Tactic.Ring
/-!
C25 — basic definitions (abstraction `dense`, invariant `CanonCSR`) and the lemmas about the
checked accessors and the binary searches of `get`/`set`.
-/
namespace SymVerif.C25
open SymVerif.CSR Finset

/-! ### the `Except` plumbing -/

@[simp] theorem ok_bind {α β : Type} (a : α) (f : α → Except Err β) :
    (Except.ok a >>= f) = f a := rfl
@[simp] theorem err_bind {α β : Type} (e : Err) (f : α → Except Err β) :
    ((Except.error e : Except Err α) >>= f) = Except.error e := rfl
@[simp] theorem pure_ok {α : Type} (a : α) : (pure a : Except Err α) = Except.ok a := rfl

@[simp] theorem rd_lt {α : Type} [Inhabited α] {a : Array α} {k : Nat} (h : k < a.size) :
    rd a k = .ok a[k]! := by
  simp [rd, h]

@[simp] theorem wr_lt {α : Type} {a : Array α} {k : Nat} (v : α) (h : k < a.size) :
    wr a k v = .ok (a.set k v h) := by
  simp [wr, h]

/-! ### abstraction and invariant -/

/-- the value stored at position `k`, if that position belongs to column `c` -/
def cellOf (j : Array Nat) (x : Array Q) (c k : Nat) : Q := if j[k]! = c then x[k]! else 0

/-- the dense matrix a CSR state denotes: entry `(i, c)` is the sum of everything stored for
column `c` in the index range of row `i` (for canonical states: the unique such entry, or 0) -/
def dense (m : Mat) (i c : Nat) : Q := ∑ k ∈ Ico m.p[i]! m.p[i + 1]!, cellOf m.j m.x c k

/-- strictly increasing column indices on the positions `[lo, hi)` -/
def SortedOn (j : Array Nat) (lo hi : Nat) : Prop :=
  ∀ a b, lo ≤ a → a < b → b < hi → j[a]! < j[b]!

/-- canonical CSR: consistent sizes, `p` starts at 0, is non-decreasing and ends at nnz, the
column indices of every row are strictly increasing and below `col` -/
structure CanonCSR (m : Mat) : Prop where
  psize : m.p.size = m.row + 1
  xsize : m.x.size = m.j.size
  p0 : m.p[0]! = 0
  plast : m.p[m.row]! = m.j.size
  pmono : ∀ a b, a ≤ b → b ≤ m.row → m.p[a]! ≤ m.p[b]!
  sorted : ∀ i, i < m.row → SortedOn m.j m.p[i]! m.p[i + 1]!
  jlt : ∀ k, k < m.j.size → m.j[k]! < m.col

theorem CanonCSR.row_le {m : Mat} (h : CanonCSR m) {i : Nat} (hi : i < m.row) :
    m.p[i]! ≤ m.p[i + 1]! ∧ m.p[i + 1]! ≤ m.j.size := by
  refine ⟨h.pmono i (i + 1) (by omega) (by omega), ?_⟩
  have := h.pmono (i + 1) m.row (by omega) (by omega)
  rw [h.plast] at this
  exact this

/-! ### sums over index ranges -/

theorem sum_Ico_zero {f : Nat → Q} {lo hi : Nat} (h : ∀ k, lo ≤ k → k < hi → f k = 0) :
    ∑ k ∈ Ico lo hi, f k = 0 :=
  Finset.sum_eq_zero (fun k hk => by
    rw [Finset.mem_Ico] at hk
    exact h k hk.1 hk.2)

theorem sum_Ico_single {f : Nat → Q} {lo hi : Nat} (k : Nat) (hlo : lo ≤ k) (hhi : k < hi)
    (h : ∀ b, lo ≤ b → b < hi → b ≠ k → f b = 0) : ∑ b ∈ Ico lo hi, f b = f k := by
  apply Finset.sum_eq_single_of_mem k (Finset.mem_Ico.mpr ⟨hlo, hhi⟩)
  intro b hb hne
  rw [Finset.mem_Ico] at hb
  exact h b hb.1 hb.2 hne

theorem sum_Ico_split {f : Nat → Q} {lo hi : Nat} (k : Nat) (hlo : lo ≤ k) (hhi : k ≤ hi) :
    ∑ b ∈ Ico lo hi, f b = ∑ b ∈ Ico lo k, f b + ∑ b ∈ Ico k hi, f b :=
  (Finset.sum_Ico_consecutive f hlo hhi).symm

theorem sum_Ico_congr {f g : Nat → Q} {lo hi : Nat} (h : ∀ k, lo ≤ k → k < hi → f k = g k) :
    ∑ k ∈ Ico lo hi, f k = ∑ k ∈ Ico lo hi, g k :=
  Finset.sum_congr rfl (fun k hk => by
    rw [Finset.mem_Ico] at hk
    exact h k hk.1 hk.2)

theorem sum_Ico_shift (f : Nat → Q) (lo hi : Nat) :
    ∑ k ∈ Ico (lo + 1) (hi + 1), f k = ∑ k ∈ Ico lo hi, f (k + 1) :=
  (Finset.sum_Ico_add' f lo hi 1).symm

/-- on a strictly sorted range the sum for column `c` is the entry at a hit position -/
theorem sum_cell_hit {j : Array Nat} {x : Array Q} {lo hi : Nat} (hs : SortedOn j lo hi) {c k : Nat}
    (hlo : lo ≤ k) (hhi : k < hi) (hk : j[k]! = c) :
    ∑ b ∈ Ico lo hi, cellOf j x c b = x[k]! := by
  rw [sum_Ico_single k hlo hhi]
  · simp [cellOf, hk]
  · intro b hb1 hb2 hne
    have : j[b]! ≠ c := by
      rcases Nat.lt_or_gt_of_ne hne with h | h
      · have := hs b k hb1 h hhi; omega
      · have := hs k b hlo h hb2; omega
    simp [cellOf, this]

theorem sum_cell_miss {j : Array Nat} {x : Array Q} {lo hi c : Nat}
    (h : ∀ b, lo ≤ b → b < hi → j[b]! ≠ c) : ∑ b ∈ Ico lo hi, cellOf j x c b = 0 :=
  sum_Ico_zero (fun b h1 h2 => by simp [cellOf, h b h1 h2])

/-! ### get -/

theorem getLoop_spec (j : Array Nat) (x : Array Q) (c : Nat) :
    ∀ fuel lo hi, hi - lo < fuel → hi ≤ j.size → hi ≤ x.size → SortedOn j lo hi →
      getLoop j x c fuel lo hi = .ok (∑ k ∈ Ico lo hi, cellOf j x c k) := by
  intro fuel
  induction fuel with
  | zero => intro lo hi h; omega
  | succ f ih =>
    intro lo hi hf hj hx hs
    unfold getLoop
    by_cases hlt : lo < hi
    · have hk1 : lo ≤ (lo + hi) / 2 := by omega
      have hk2 : (lo + hi) / 2 < hi := by omega
      generalize (lo + hi) / 2 = k at hk1 hk2
      have hkj : k < j.size := by omega
      have hkx : k < x.size := by omega
      simp only [hlt, if_true, rd_lt hkj, ok_bind]
      by_cases hc : j[k]! = c
      · simp only [hc, if_true, rd_lt hkx]
        rw [sum_cell_hit hs hk1 hk2 hc]
      · simp only [hc, if_false]
        by_cases hl : j[k]! < c
        · simp only [hl, if_true]
          rw [ih (k + 1) hi (by omega) hj hx (fun a b h1 h2 h3 => hs a b (by omega) h2 h3)]
          rw [sum_Ico_split (k + 1) (by omega) (by omega) (lo := lo) (hi := hi)]
          rw [sum_cell_miss (lo := lo), zero_add]
          intro b hb1 hb2
          by_cases hbk : b = k
          · subst hbk; exact hc
          · have := hs b k hb1 (by omega) hk2; omega
        · simp only [hl, if_false]
          rw [ih lo k (by omega) (by omega) (by omega) (fun a b h1 h2 h3 => hs a b h1 h2 (by omega))]
          rw [sum_Ico_split k hk1 (by omega) (lo := lo) (hi := hi)]
          rw [sum_cell_miss (lo := k), add_zero]
          intro b hb1 hb2
          by_cases hbk : b = k
          · subst hbk; exact hc
          · have := hs k b hk1 (by omega) hb2; omega
    · simp only [hlt, if_false, pure_ok]
      rw [Finset.Ico_eq_empty (by omega), Finset.sum_empty]

/-- `get` on a canonical matrix never leaves its arrays and returns the dense entry -/
theorem get_spec {m : Mat} (h : CanonCSR m) {i c : Nat} (hi : i < m.row) (hc : c < m.col) :
    CSR.get m i c = .ok (dense m i c) := by
  have hr := h.row_le hi
  have h1 : i < m.p.size := by rw [h.psize]; omega
  have h2 : i + 1 < m.p.size := by rw [h.psize]; omega
  unfold CSR.get
  simp only [hi, hc, and_self, not_true_eq_false, if_false, rd_lt h1, rd_lt h2, ok_bind]
  by_cases he : m.p[i]! = m.p[i + 1]!
  · simp only [he, if_true, pure_ok, dense]
    rw [Finset.Ico_eq_empty (by omega), Finset.sum_empty]
  · simp only [he, if_false]
    rw [getLoop_spec m.j m.x c _ _ _ (by omega) hr.2 (by rw [h.xsize]; exact hr.2) (h.sorted i hi)]
    rfl

end SymVerif.C25
