/-
Precedence climbing round trip (token level) for `Model/Parser.lean`.

`Doc` is a *printed form*: a concrete syntax tree that records every parenthesis pair and every use of the
implicit-multiplication tokens.  `Doc.toks` is the token sequence, `Doc.ast` the tree the printed form stands for.
`Doc.OK bp d` says that the parentheses present in `d` are sufficient w.r.t. the binding powers `bp`
(any number of redundant pairs may be present).  Main result:

  parseExpr_doc :  OK d → LeftOK m d → the token after `d` is not captured →
                   parseExpr (enough fuel) m (toks d ++ rest) = parseLoop … m (ast d) rest

and `parseTokens_doc : OK d → LeftOK 0 d → parseTokens bp (toks d ++ [eof]) = ok (ast d)`.
Core Lean only (no Mathlib).
-/
import SymVerif.Model.Parser

namespace SymVerif
namespace Parser

/-! ### fuel monotonicity: an `ok` answer does not change when more fuel is supplied -/

section Mono
variable (bp : BP)

def MonoAt (f : Nat) : Prop :=
  (∀ m ts v, parseExpr bp f m ts = .ok v → parseExpr bp (f + 1) m ts = .ok v) ∧
  (∀ m lhs ts v, parseLoop bp f m lhs ts = .ok v → parseLoop bp (f + 1) m lhs ts = .ok v) ∧
  (∀ ts v, parsePrefix bp f ts = .ok v → parsePrefix bp (f + 1) ts = .ok v) ∧
  (∀ ts v, parseArgs bp f ts = .ok v → parseArgs bp (f + 1) ts = .ok v) ∧
  (∀ ts v, parsePairs bp f ts = .ok v → parsePairs bp (f + 1) ts = .ok v)

theorem mono_zero : MonoAt bp 0 := by
  refine ⟨?_, ?_, ?_, ?_, ?_⟩ <;> intros <;> rename_i h <;> simp [parseExpr, parseLoop, parsePrefix, parseArgs, parsePairs] at h

theorem mono_succ (f : Nat) (ih : MonoAt bp f) : MonoAt bp (f + 1) := by
  obtain ⟨ihE, ihL, ihP, ihA, ihR⟩ := ih
  refine ⟨?_, ?_, ?_, ?_, ?_⟩
  · -- parseExpr
    intro m ts v h
    rw [parseExpr.eq_def] at h ⊢
    simp only at h ⊢
    cases hp : parsePrefix bp f ts with
    | error e => rw [hp] at h; cases h
    | ok p =>
      obtain ⟨lhs, r⟩ := p
      rw [hp] at h
      rw [ihP _ _ hp]
      exact ihL _ _ _ _ h
  · -- parseLoop
    intro m lhs ts v h
    rw [parseLoop.eq_def] at h ⊢
    simp only at h ⊢
    cases ts with
    | nil => exact h
    | cons t r =>
      simp only at h ⊢
      cases hb : binOfTok t with
      | none => rw [hb] at h; exact h
      | some o =>
        rw [hb] at h
        simp only at h ⊢
        by_cases hl : bp.lbp o > m
        · rw [if_pos hl] at h ⊢
          cases he : parseExpr bp f (bp.rbp o) r with
          | error e => rw [he] at h; cases h
          | ok q =>
            obtain ⟨rhs, r'⟩ := q
            rw [he] at h
            rw [ihE _ _ _ he]
            exact ihL _ _ _ _ h
        · rw [if_neg hl] at h ⊢
          exact h
  · -- parsePrefix
    intro ts v h
    rw [parsePrefix.eq_def] at h ⊢
    simp only at h ⊢
    split at h
    · -- .op c :: r
      rename_i c r
      skip
      by_cases h40 : (c == 40) = true
      · rw [if_pos h40] at h ⊢
        cases he : parseExpr bp f 0 r with
        | error e => rw [he] at h; cases h
        | ok q =>
          obtain ⟨e, r'⟩ := q
          rw [he] at h
          rw [ihE _ _ _ he]
          exact h
      · rw [if_neg h40] at h ⊢
        by_cases h45 : (c == 45) = true
        · rw [if_pos h45] at h ⊢
          cases he : parseExpr bp f (bp.ubp .neg) r with
          | error e => rw [he] at h; cases h
          | ok q => rw [he] at h; rw [ihE _ _ _ he]; exact h
        · rw [if_neg h45] at h ⊢
          by_cases h43 : (c == 43) = true
          · rw [if_pos h43] at h ⊢
            cases he : parseExpr bp f (bp.ubp .pos) r with
            | error e => rw [he] at h; cases h
            | ok q => rw [he] at h; rw [ihE _ _ _ he]; exact h
          · rw [if_neg h43] at h ⊢
            by_cases h126 : (c == 126) = true
            · rw [if_pos h126] at h ⊢
              cases he : parseExpr bp f (bp.ubp .not) r with
              | error e => rw [he] at h; cases h
              | ok q => rw [he] at h; rw [ihE _ _ _ he]; exact h
            · rw [if_neg h126] at h ⊢
              exact h
    · exact h
    · rename_i s r
      cases he : parseExpr bp f (bp.rbp .pow) r with
      | error e => rw [he] at h; cases h
      | ok q => rw [he] at h; rw [ihE _ _ _ he]; exact h
    · exact h
    · rename_i s r
      cases he : parseArgs bp f r with
      | error e => rw [he] at h; cases h
      | ok q => rw [he] at h; rw [ihA _ _ he]; exact h
    · exact h
    · rename_i r
      cases he : parsePairs bp f r with
      | error e => rw [he] at h; cases h
      | ok q => rw [he] at h; rw [ihR _ _ he]; exact h
    · cases h
  · -- parseArgs
    intro ts v h
    rw [parseArgs.eq_def] at h ⊢
    simp only at h ⊢
    cases he : parseExpr bp f 0 ts with
    | error e => rw [he] at h; cases h
    | ok q =>
      obtain ⟨e, r⟩ := q
      rw [he] at h
      rw [ihE _ _ _ he]
      simp only at h ⊢
      split at h
      · rename_i r'
        cases ha : parseArgs bp f r' with
        | error e => rw [ha] at h; cases h
        | ok q2 => rw [ha] at h; rw [ihA _ _ ha]; exact h
      · exact h
      · cases h
  · -- parsePairs
    intro ts v h
    rw [parsePairs.eq_def] at h ⊢
    simp only at h ⊢
    split at h
    · rename_i r
      cases he : parseExpr bp f 0 r with
      | error e => rw [he] at h; cases h
      | ok q =>
        obtain ⟨v1, r1⟩ := q
        rw [he] at h
        skip
        rw [ihE _ _ _ he]
        simp only at h ⊢
        split at h
        · rename_i r2
          cases he2 : parseExpr bp f 0 r2 with
          | error e => rw [he2] at h; cases h
          | ok q2 =>
            obtain ⟨c, r3⟩ := q2
            rw [he2] at h
            rw [ihE _ _ _ he2]
            simp only at h ⊢
            split at h
            · rename_i r4
              cases hp : parsePairs bp f r4 with
              | error e => rw [hp] at h; cases h
              | ok q3 => rw [hp] at h; rw [ihR _ _ hp]; exact h
            · exact h
            · cases h
        · cases h
    · cases h

theorem mono_all : ∀ f, MonoAt bp f
  | 0 => mono_zero bp
  | f + 1 => mono_succ bp f (mono_all f)

theorem parseExpr_mono {f g m ts v} (h : parseExpr bp f m ts = .ok v) (hfg : f ≤ g) :
    parseExpr bp g m ts = .ok v := by
  induction hfg with
  | refl => exact h
  | step _ ih => exact (mono_all bp _).1 _ _ _ ih

theorem parseLoop_mono {f g m lhs ts v} (h : parseLoop bp f m lhs ts = .ok v) (hfg : f ≤ g) :
    parseLoop bp g m lhs ts = .ok v := by
  induction hfg with
  | refl => exact h
  | step _ ih => exact (mono_all bp _).2.1 _ _ _ _ ih

theorem parseArgs_mono {f g ts v} (h : parseArgs bp f ts = .ok v) (hfg : f ≤ g) :
    parseArgs bp g ts = .ok v := by
  induction hfg with
  | refl => exact h
  | step _ ih => exact (mono_all bp _).2.2.2.1 _ _ ih

theorem parsePairs_mono {f g ts v} (h : parsePairs bp f ts = .ok v) (hfg : f ≤ g) :
    parsePairs bp g ts = .ok v := by
  induction hfg with
  | refl => exact h
  | step _ ih => exact (mono_all bp _).2.2.2.2 _ _ ih

end Mono

/-! ### printed forms -/

def tokOfBin : BinOp → Tok
  | .add => .op 43 | .sub => .op 45 | .mul => .op 42 | .div => .op 47 | .pow => .pow
  | .lt => .op 60 | .gt => .op 62 | .ne => .ne | .le => .le | .ge => .ge | .eq => .eq
  | .or => .op 124 | .and => .op 38 | .xor => .op 94

def tokOfUn : UnOp → Tok
  | .neg => .op 45 | .pos => .op 43 | .not => .op 126

theorem binOfTok_tokOfBin (o : BinOp) : binOfTok (tokOfBin o) = some o := by
  cases o <;> rfl

inductive Doc where
  | num (text : Bytes)                    -- a NUMERIC token
  | ident (s : Bytes)                     -- an IDENTIFIER token
  | imul (text : Bytes)                   -- an IMPLICIT_MUL token used as a leaf:  2x
  | imulPow (text : Bytes) (e : Doc)      -- IMPLICIT_MUL POW expr:  2x**e
  | paren (d : Doc)                       -- ( d )
  | un (o : UnOp) (d : Doc)
  | bin (o : BinOp) (l r : Doc)
  | call (f : Bytes) (args : List Doc)    -- f(a, b, ...)
  deriving Repr, Inhabited

/-- separator after an argument: `,` if more arguments follow, else the closing parenthesis -/
def sepTok (t : List Doc) : Tok := if t.isEmpty then .op 41 else .op 44

mutual
  def Doc.toks : Doc → List Tok
    | .num t => [.num t]
    | .ident s => [.ident s]
    | .imul t => [.imul t]
    | .imulPow t e => .imul t :: .pow :: e.toks
    | .paren d => .op 40 :: (d.toks ++ [.op 41])
    | .un o d => tokOfUn o :: d.toks
    | .bin o l r => l.toks ++ tokOfBin o :: r.toks
    | .call f args => .ident f :: .op 40 :: Doc.argToks args
  def Doc.argToks : List Doc → List Tok
    | [] => []
    | a :: t => a.toks ++ sepTok t :: Doc.argToks t
end

mutual
  def Doc.ast : Doc → PExpr
    | .num t => parseNumeric t
    | .ident s => .ident s
    | .imul t => Parser.imulLeaf t
    | .imulPow t e => Parser.imulPow t e.ast
    | .paren d => d.ast
    | .un o d => .un o d.ast
    | .bin o l r => .bin o l.ast r.ast
    | .call f args => .call f (Doc.asts args)
  def Doc.asts : List Doc → List PExpr
    | [] => []
    | a :: t => a.ast :: Doc.asts t
end

section PP
variable (bp : BP)

/-- every operator on the left spine of the bare form binds tighter than `m`: the form can be read by
`parseExpr m` without being cut short -/
def LeftOK (m : Nat) : Doc → Prop
  | .bin o l _ => bp.lbp o > m ∧ LeftOK m l
  | _ => True

/-- a following token `t`, if it is a binary operator, binds no tighter than `k`: the pending construct of
tolerance `k` is reduced before `t` is consumed -/
def CapOK (bp : BP) (t : Tok) (k : Nat) : Prop :=
  match binOfTok t with
  | some o' => bp.lbp o' ≤ k
  | none => True

instance (bp : BP) (t : Tok) (k : Nat) : Decidable (CapOK bp t k) := by
  unfold CapOK; split <;> infer_instance

theorem CapOK.le {bp : BP} {t : Tok} {k : Nat} (h : CapOK bp t k) : ∀ o, binOfTok t = some o → bp.lbp o ≤ k := by
  intro o ho; unfold CapOK at h; rw [ho] at h; exact h

theorem capOK_of_none {bp : BP} {t : Tok} {k : Nat} (h : binOfTok t = none) : CapOK bp t k := by
  unfold CapOK; rw [h]; trivial

/-- a following token `t` is not swallowed by a construct that is still open at the right end of the form -/
def NoCapture (t : Tok) : Doc → Prop
  | .bin o _ r => CapOK bp t (bp.rbp o) ∧ NoCapture t r
  | .un u x => CapOK bp t (bp.ubp u) ∧ NoCapture t x
  | .imulPow _ e => CapOK bp t (bp.rbp .pow) ∧ NoCapture t e
  | .imul _ => t ≠ .pow
  | .ident _ => t ≠ .op 40
  | _ => True

def NoCaptureRest (d : Doc) : List Tok → Prop
  | [] => True
  | t :: _ => NoCapture bp t d

mutual
  /-- the parentheses present are sufficient -/
  def OK : Doc → Prop
    | .num _ => True
    | .ident _ => True
    | .imul _ => True
    | .imulPow _ e => OK e ∧ LeftOK bp (bp.rbp .pow) e
    | .paren d => OK d ∧ LeftOK bp 0 d
    | .un u x => OK x ∧ LeftOK bp (bp.ubp u) x
    | .bin o l r => OK l ∧ OK r ∧ LeftOK bp (bp.rbp o) r ∧ NoCapture bp (tokOfBin o) l
    | .call _ args => args ≠ [] ∧ OKs args
  def OKs : List Doc → Prop
    | [] => True
    | a :: t => OK a ∧ LeftOK bp 0 a ∧ OKs t
end

mutual
  /-- fuel that certainly suffices for the form -/
  def need : Doc → Nat
    | .num _ => 2
    | .ident _ => 2
    | .imul _ => 2
    | .imulPow _ e => need e + 4
    | .paren d => need d + 4
    | .un _ x => need x + 4
    | .bin _ l r => need l + need r + 4
    | .call _ args => needs args + 4
  def needs : List Doc → Nat
    | [] => 0
    | a :: t => need a + needs t + 4
end

/-- tokens that never continue or capture anything: `)`, `,`, END_OF_FILE -/
theorem noCapture_of_inert (t : Tok) (h1 : binOfTok t = none) (h2 : t ≠ .pow) (h3 : t ≠ .op 40) :
    ∀ d : Doc, NoCapture bp t d
  | .num _ => trivial
  | .ident _ => h3
  | .imul _ => h2
  | .imulPow _ e => ⟨capOK_of_none h1, noCapture_of_inert t h1 h2 h3 e⟩
  | .paren _ => trivial
  | .un _ x => ⟨capOK_of_none h1, noCapture_of_inert t h1 h2 h3 x⟩
  | .bin _ _ r => ⟨capOK_of_none h1, noCapture_of_inert t h1 h2 h3 r⟩
  | .call _ _ => trivial

theorem parseLoop_stop (m : Nat) (lhs : PExpr) (rest : List Tok)
    (h : ∀ t r, rest = t :: r → ∀ o, binOfTok t = some o → bp.lbp o ≤ m) :
    parseLoop bp 1 m lhs rest = .ok (lhs, rest) := by
  rw [parseLoop.eq_def]
  simp only
  cases rest with
  | nil => rfl
  | cons t r =>
    simp only
    cases hb : binOfTok t with
    | none => rfl
    | some o =>
      simp only
      have := h t r rfl o hb
      rw [if_neg (by omega)]

/-! ### one-step unfoldings of `parsePrefix` -/

theorem parsePrefix_num (f : Nat) (s : Bytes) (r : List Tok) :
    parsePrefix bp (f + 1) (.num s :: r) = .ok (parseNumeric s, r) := by
  rw [parsePrefix.eq_def]

theorem parsePrefix_ident (f : Nat) (s : Bytes) (r : List Tok) (h : ∀ r', r ≠ .op 40 :: r') :
    parsePrefix bp (f + 1) (.ident s :: r) = .ok (.ident s, r) := by
  rw [parsePrefix.eq_def]
  simp only

theorem parsePrefix_imul (f : Nat) (s : Bytes) (r : List Tok) (h : ∀ r', r ≠ .pow :: r') :
    parsePrefix bp (f + 1) (.imul s :: r) = .ok (imulLeaf s, r) := by
  rw [parsePrefix.eq_def]
  simp only

theorem parsePrefix_imulPow (f : Nat) (s : Bytes) (r : List Tok) :
    parsePrefix bp (f + 1) (.imul s :: .pow :: r) =
      (match parseExpr bp f (bp.rbp .pow) r with
       | .error e => .error e
       | .ok (e, r') => .ok (imulPow s e, r')) := by
  rw [parsePrefix.eq_def]
  rfl

theorem parsePrefix_paren (f : Nat) (r : List Tok) :
    parsePrefix bp (f + 1) (.op 40 :: r) =
      (match parseExpr bp f 0 r with
       | .error e => .error e
       | .ok (e, r') =>
         match r' with
         | .op 41 :: r'' => .ok (e, r'')
         | _ => .error .parse) := by
  rw [parsePrefix.eq_def]
  rfl

theorem parsePrefix_un (f : Nat) (u : UnOp) (r : List Tok) :
    parsePrefix bp (f + 1) (tokOfUn u :: r) =
      (match parseExpr bp f (bp.ubp u) r with
       | .error e => .error e
       | .ok (e, r') => .ok (.un u e, r')) := by
  rw [parsePrefix.eq_def]
  cases u <;> rfl

theorem parsePrefix_call (f : Nat) (s : Bytes) (r : List Tok) :
    parsePrefix bp (f + 1) (.ident s :: .op 40 :: r) =
      (match parseArgs bp f r with
       | .error e => .error e
       | .ok (args, r') => .ok (.call s args, r')) := by
  rw [parsePrefix.eq_def]
  rfl

theorem parseExpr_succ (f m : Nat) (ts : List Tok) :
    parseExpr bp (f + 1) m ts =
      (match parsePrefix bp f ts with
       | .error e => .error e
       | .ok (lhs, r) => parseLoop bp f m lhs r) := by
  rw [parseExpr.eq_def]
  rfl

theorem parseLoop_succ_cons (f m : Nat) (lhs : PExpr) (t : Tok) (r : List Tok) (o : BinOp)
    (ho : binOfTok t = some o) (hm : bp.lbp o > m) :
    parseLoop bp (f + 1) m lhs (t :: r) =
      (match parseExpr bp f (bp.rbp o) r with
       | .error e => .error e
       | .ok (rhs, r') => parseLoop bp f m (.bin o lhs rhs) r') := by
  rw [parseLoop.eq_def]
  simp only [ho, if_pos hm]
  rfl

theorem parseArgs_succ (f : Nat) (ts : List Tok) :
    parseArgs bp (f + 1) ts =
      (match parseExpr bp f 0 ts with
       | .error e => .error e
       | .ok (e, r) =>
         match r with
         | .op 44 :: r' =>
           match parseArgs bp f r' with
           | .error e => .error e
           | .ok (es, r'') => .ok (e :: es, r'')
         | .op 41 :: r' => .ok ([e], r')
         | _ => .error .parse) := by
  rw [parseArgs.eq_def]
  rfl

/-- from a prefix and a loop to an expression -/
theorem parseExpr_of_prefix {g m : Nat} {ts r : List Tok} {lhs : PExpr} {v}
    (hp : parsePrefix bp g ts = .ok (lhs, r)) (hl : parseLoop bp g m lhs r = .ok v) :
    parseExpr bp (g + 1) m ts = .ok v := by
  rw [parseExpr_succ, hp]
  exact hl


/-- the loop stops right after a form whose right end does not capture the next token -/
theorem loop_stops (lhs : PExpr) (rest : List Tok) (k : Nat)
    (h : ∀ t r, rest = t :: r → ∀ o, binOfTok t = some o → bp.lbp o ≤ k) :
    parseLoop bp 1 k lhs rest = .ok (lhs, rest) := parseLoop_stop bp k lhs rest h

mutual
  /-- **Precedence-climbing round trip.**  A printed form with sufficient parentheses, read by `parseExpr m` in a
  context where its left spine binds tighter than `m` and the next token is not captured by its right end, is
  consumed entirely and yields its tree as the left operand of the enclosing loop. -/
  theorem parseExpr_doc : ∀ (d : Doc), OK bp d → ∀ (m : Nat) (rest : List Tok) (f : Nat) (v : PExpr × List Tok),
      LeftOK bp m d → NoCaptureRest bp d rest → parseLoop bp f m d.ast rest = .ok v →
      parseExpr bp (f + need d) m (d.toks ++ rest) = .ok v
    | .num t, _, m, rest, f, v, _, _, hl => by
      have hp : parsePrefix bp (f + 1) ((Doc.num t).toks ++ rest) = .ok (parseNumeric t, rest) := by
        simp only [Doc.toks, List.cons_append, List.nil_append]
        exact parsePrefix_num bp f t rest
      exact parseExpr_of_prefix bp hp (parseLoop_mono bp hl (by omega))
    | .ident s, _, m, rest, f, v, _, hn, hl => by
      have hne : ∀ r', rest ≠ .op 40 :: r' := by
        intro r' h; subst h; exact hn rfl
      have hp : parsePrefix bp (f + 1) ((Doc.ident s).toks ++ rest) = .ok (.ident s, rest) := by
        simp only [Doc.toks, List.cons_append, List.nil_append]
        exact parsePrefix_ident bp f s rest hne
      exact parseExpr_of_prefix bp hp (parseLoop_mono bp hl (by omega))
    | .imul s, _, m, rest, f, v, _, hn, hl => by
      have hne : ∀ r', rest ≠ .pow :: r' := by
        intro r' h; subst h; exact hn rfl
      have hp : parsePrefix bp (f + 1) ((Doc.imul s).toks ++ rest) = .ok (imulLeaf s, rest) := by
        simp only [Doc.toks, List.cons_append, List.nil_append]
        exact parsePrefix_imul bp f s rest hne
      exact parseExpr_of_prefix bp hp (parseLoop_mono bp hl (by omega))
    | .imulPow s e, hok, m, rest, f, v, _, hn, hl => by
      obtain ⟨hoke, hle⟩ := hok
      have hstop : parseLoop bp 1 (bp.rbp .pow) e.ast rest = .ok (e.ast, rest) := by
        apply loop_stops
        intro t r hr o ho
        subst hr
        exact hn.1.le o ho
      have hne : NoCaptureRest bp e rest := by
        cases rest with
        | nil => trivial
        | cons t r => exact hn.2
      have he := parseExpr_doc e hoke (bp.rbp .pow) rest 1 (e.ast, rest) hle hne hstop
      have he' : parseExpr bp (f + need e + 1) (bp.rbp .pow) (e.toks ++ rest) = .ok (e.ast, rest) :=
        parseExpr_mono bp he (by omega)
      have hp : parsePrefix bp (f + need e + 2) ((Doc.imulPow s e).toks ++ rest) = .ok (imulPow s e.ast, rest) := by
        simp only [Doc.toks, List.cons_append]
        rw [parsePrefix_imulPow, he']
      have := parseExpr_of_prefix bp hp (parseLoop_mono bp (m := m) hl (by omega))
      exact parseExpr_mono bp this (by simp only [need]; omega)
    | .paren d, hok, m, rest, f, v, _, _, hl => by
      obtain ⟨hokd, hld⟩ := hok
      have hstop : parseLoop bp 1 0 d.ast (.op 41 :: rest) = .ok (d.ast, .op 41 :: rest) := by
        apply loop_stops
        intro t r hr o ho
        injection hr with h1 h2
        subst h1
        cases ho
      have hne : NoCaptureRest bp d (.op 41 :: rest) :=
        noCapture_of_inert bp (.op 41) rfl (by simp) (by simp) d
      have hd := parseExpr_doc d hokd 0 (.op 41 :: rest) 1 (d.ast, .op 41 :: rest) hld hne hstop
      have hd' : parseExpr bp (f + need d + 1) 0 (d.toks ++ .op 41 :: rest) = .ok (d.ast, .op 41 :: rest) :=
        parseExpr_mono bp hd (by omega)
      have hp : parsePrefix bp (f + need d + 2) ((Doc.paren d).toks ++ rest) = .ok (d.ast, rest) := by
        simp only [Doc.toks, List.cons_append, List.append_assoc, List.nil_append]
        rw [parsePrefix_paren, hd']
        rfl
      have := parseExpr_of_prefix bp hp (parseLoop_mono bp (m := m) hl (by omega))
      exact parseExpr_mono bp this (by simp only [need]; omega)
    | .un u x, hok, m, rest, f, v, _, hn, hl => by
      obtain ⟨hokx, hlx⟩ := hok
      have hstop : parseLoop bp 1 (bp.ubp u) x.ast rest = .ok (x.ast, rest) := by
        apply loop_stops
        intro t r hr o ho
        subst hr
        exact hn.1.le o ho
      have hne : NoCaptureRest bp x rest := by
        cases rest with
        | nil => trivial
        | cons t r => exact hn.2
      have hx := parseExpr_doc x hokx (bp.ubp u) rest 1 (x.ast, rest) hlx hne hstop
      have hx' : parseExpr bp (f + need x + 1) (bp.ubp u) (x.toks ++ rest) = .ok (x.ast, rest) :=
        parseExpr_mono bp hx (by omega)
      have hp : parsePrefix bp (f + need x + 2) ((Doc.un u x).toks ++ rest) = .ok (.un u x.ast, rest) := by
        simp only [Doc.toks, List.cons_append]
        rw [parsePrefix_un, hx']
      have := parseExpr_of_prefix bp hp (parseLoop_mono bp (m := m) hl (by omega))
      exact parseExpr_mono bp this (by simp only [need]; omega)
    | .bin o l r, hok, m, rest, f, v, hleft, hn, hl => by
      obtain ⟨hokl, hokr, hlr, hcl⟩ := hok
      obtain ⟨hlbp, hll⟩ := hleft
      -- the right operand
      have hstop : parseLoop bp 1 (bp.rbp o) r.ast rest = .ok (r.ast, rest) := by
        apply loop_stops
        intro t r' hr o' ho
        subst hr
        exact hn.1.le o' ho
      have hne : NoCaptureRest bp r rest := by
        cases rest with
        | nil => trivial
        | cons t r' => exact hn.2
      have hr := parseExpr_doc r hokr (bp.rbp o) rest 1 (r.ast, rest) hlr hne hstop
      have hr' : parseExpr bp (f + need r + 1) (bp.rbp o) (r.toks ++ rest) = .ok (r.ast, rest) :=
        parseExpr_mono bp hr (by omega)
      -- the loop after the left operand
      have hloop : parseLoop bp (f + need r + 2) m l.ast (tokOfBin o :: (r.toks ++ rest)) = .ok v := by
        rw [parseLoop_succ_cons bp (f + need r + 1) m l.ast (tokOfBin o) (r.toks ++ rest) o
          (binOfTok_tokOfBin o) hlbp, hr']
        exact parseLoop_mono bp hl (by omega)
      have hl' := parseExpr_doc l hokl m (tokOfBin o :: (r.toks ++ rest)) (f + need r + 2) v hll hcl hloop
      have heq : (Doc.bin o l r).toks ++ rest = l.toks ++ tokOfBin o :: (r.toks ++ rest) := by
        simp only [Doc.toks, List.append_assoc, List.cons_append]
      rw [heq]
      exact parseExpr_mono bp hl' (by simp only [need]; omega)
    | .call fn args, hok, m, rest, f, v, _, _, hl => by
      obtain ⟨hne, hoks⟩ := hok
      have ha := parseArgs_docs args hne hoks rest
      have ha' : parseArgs bp (f + needs args + 1) (Doc.argToks args ++ rest) = .ok (Doc.asts args, rest) :=
        parseArgs_mono bp ha (by omega)
      have hp : parsePrefix bp (f + needs args + 2) ((Doc.call fn args).toks ++ rest)
          = .ok (.call fn (Doc.asts args), rest) := by
        simp only [Doc.toks, List.cons_append]
        rw [parsePrefix_call, ha']
      have := parseExpr_of_prefix bp hp (parseLoop_mono bp (m := m) hl (by omega))
      exact parseExpr_mono bp this (by simp only [need]; omega)
  theorem parseArgs_docs : ∀ (args : List Doc), args ≠ [] → OKs bp args → ∀ (rest : List Tok),
      parseArgs bp (needs args + 1) (Doc.argToks args ++ rest) = .ok (Doc.asts args, rest)
    | [], h, _, _ => absurd rfl h
    | a :: t, _, hok, rest => by
      obtain ⟨hoka, hla, hokt⟩ := hok
      have hsep : binOfTok (sepTok t) = none ∧ sepTok t ≠ .pow ∧ sepTok t ≠ .op 40 := by
        unfold sepTok; split <;> simp [binOfTok]
      have hstop : parseLoop bp 1 0 a.ast (sepTok t :: (Doc.argToks t ++ rest))
          = .ok (a.ast, sepTok t :: (Doc.argToks t ++ rest)) := by
        apply loop_stops
        intro t' r hr o ho
        injection hr with h1 h2
        subst h1
        rw [hsep.1] at ho
        cases ho
      have hne : NoCaptureRest bp a (sepTok t :: (Doc.argToks t ++ rest)) :=
        noCapture_of_inert bp (sepTok t) hsep.1 hsep.2.1 hsep.2.2 a
      have ha := parseExpr_doc a hoka 0 _ 1 _ hla hne hstop
      have ha' : parseExpr bp (need a + needs t + 4) 0 (a.toks ++ sepTok t :: (Doc.argToks t ++ rest))
          = .ok (a.ast, sepTok t :: (Doc.argToks t ++ rest)) := parseExpr_mono bp ha (by omega)
      have heq : Doc.argToks (a :: t) ++ rest = a.toks ++ sepTok t :: (Doc.argToks t ++ rest) := by
        simp only [Doc.argToks, List.append_assoc, List.cons_append]
      rw [heq]
      show parseArgs bp (need a + needs t + 4 + 1) _ = _
      rw [parseArgs_succ, ha']
      cases t with
      | nil =>
        simp [sepTok, Doc.argToks, Doc.asts]
      | cons b t' =>
        have ht := parseArgs_docs (b :: t') (by simp) hokt rest
        have ht' : parseArgs bp (need a + needs (b :: t') + 4) (Doc.argToks (b :: t') ++ rest)
            = .ok (Doc.asts (b :: t'), rest) := parseArgs_mono bp ht (by omega)
        simp only [sepTok, List.isEmpty_cons, Bool.false_eq_true, if_false]
        rw [ht']
        simp [Doc.asts]
end

mutual
  theorem need_le_aux : ∀ d : Doc, need d ≤ 4 * d.toks.length ∧ 1 ≤ d.toks.length
    | .num _ => by simp [need, Doc.toks]
    | .ident _ => by simp [need, Doc.toks]
    | .imul _ => by simp [need, Doc.toks]
    | .imulPow _ e => by
      have := need_le_aux e
      simp only [need, Doc.toks, List.length_cons]; omega
    | .paren d => by
      have := need_le_aux d
      simp only [need, Doc.toks, List.length_cons, List.length_append, List.length_nil]; omega
    | .un _ x => by
      have := need_le_aux x
      simp only [need, Doc.toks, List.length_cons]; omega
    | .bin _ l r => by
      have h1 := need_le_aux l
      have h2 := need_le_aux r
      simp only [need, Doc.toks, List.length_cons, List.length_append]; omega
    | .call _ args => by
      have := needs_le_aux args
      simp only [need, Doc.toks, List.length_cons]; omega
  theorem needs_le_aux : ∀ args : List Doc, needs args ≤ 4 * (Doc.argToks args).length
    | [] => by simp [needs, Doc.argToks]
    | a :: t => by
      have h1 := need_le_aux a
      have h2 := needs_le_aux t
      simp only [needs, Doc.argToks, List.length_cons, List.length_append]; omega
end

theorem need_le (d : Doc) : need d ≤ 4 * d.toks.length ∧ 1 ≤ d.toks.length := need_le_aux d

/-- **Token-level round trip**: the token sequence of a printed form followed by END_OF_FILE parses to the tree
the form stands for. -/
theorem parseTokens_doc (d : Doc) (hok : OK bp d) (hl : LeftOK bp 0 d) :
    parseTokens bp (d.toks ++ [.eof]) = .ok d.ast := by
  have hstop : parseLoop bp 1 0 d.ast [.eof] = .ok (d.ast, [.eof]) := by
    apply loop_stops
    intro t r hr o ho
    injection hr with h1 h2
    subst h1
    cases ho
  have hne : NoCaptureRest bp d [.eof] := noCapture_of_inert bp .eof rfl (by simp) (by simp) d
  have h := parseExpr_doc bp d hok 0 [.eof] 1 (d.ast, [.eof]) hl hne hstop
  have hfuel : 1 + need d ≤ 4 * (d.toks ++ [Tok.eof]).length + 4 := by
    have := (need_le d).1
    simp only [List.length_append, List.length_cons, List.length_nil]
    omega
  unfold parseTokens
  rw [parseExpr_mono bp h hfuel]

end PP

end Parser
end SymVerif
