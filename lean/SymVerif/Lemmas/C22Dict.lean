import Mathlib.Algebra.MvPolynomial.Eval
import SymVerif.Model.MPoly
/-! Semantics of the association-list dictionaries of `Model/MPoly.lean` in
`MvPolynomial ℕ R`, and the dictionary-level arithmetic lemmas for C22. -/

open SymVerif.MPoly MvPolynomial

namespace SymVerif.C22
set_option linter.unusedSectionVars false

variable {R : Type} [CommRing R] [DecidableEq R]

/-- the monomial `∏ vars[k] ^ e[k]` as a finitely supported exponent map on variable names -/
noncomputable def monoOf : List Var → Mono → (ℕ →₀ ℕ)
  | v :: vs, e :: es => Finsupp.single v e + monoOf vs es
  | _, _ => 0

/-- the polynomial denoted by a dictionary whose exponent vectors are read over `vars` -/
noncomputable def dictMv (vars : List Var) : Dict R → MvPolynomial ℕ R
  | [] => 0
  | kc :: t => monomial (monoOf vars kc.1) kc.2 + dictMv vars t

def keys (d : Dict R) : List Mono := d.map Prod.fst

/-- all exponent vectors have length `n` -/
def LenOk (n : Nat) (d : Dict R) : Prop := ∀ kc ∈ d, kc.1.length = n
/-- no stored zero coefficient -/
def NoZero (d : Dict R) : Prop := ∀ kc ∈ d, kc.2 ≠ 0
/-- the container invariant of `UDictWrapper` with `vec_size = n` -/
structure Canon (n : Nat) (d : Dict R) : Prop where
  len : LenOk n d
  nz : NoZero d
  nodup : (keys d).Nodup

@[simp] theorem monoOf_nil_left (e : Mono) : monoOf [] e = 0 := by
  cases e <;> rfl
@[simp] theorem monoOf_nil_right (v : List Var) : monoOf v [] = 0 := by
  cases v <;> rfl
@[simp] theorem monoOf_cons (v : Var) (vs : List Var) (e : Nat) (es : Mono) :
    monoOf (v :: vs) (e :: es) = Finsupp.single v e + monoOf vs es := rfl

@[simp] theorem dictMv_nil (vars : List Var) : dictMv vars ([] : Dict R) = 0 := rfl
@[simp] theorem dictMv_cons (vars : List Var) (kc : Mono × R) (t : Dict R) :
    dictMv vars (kc :: t) = monomial (monoOf vars kc.1) kc.2 + dictMv vars t := rfl

theorem monoOf_replicate_zero (vars : List Var) (n : Nat) : monoOf vars (List.replicate n 0) = 0 := by
  induction vars generalizing n with
  | nil => simp
  | cons v vs ih =>
    cases n with
    | zero => simp
    | succ n => simp [List.replicate_succ, ih]

theorem monoOf_zipWith_add (vars : List Var) (a b : Mono) (h : a.length = b.length) :
    monoOf vars (List.zipWith (· + ·) a b) = monoOf vars a + monoOf vars b := by
  induction vars generalizing a b with
  | nil => simp
  | cons v vs ih =>
    cases a with
    | nil =>
      cases b with
      | nil => simp
      | cons y ys => simp at h
    | cons x xs =>
      cases b with
      | nil => simp at h
      | cons y ys =>
        simp only [List.length_cons, Nat.add_right_cancel_iff] at h
        simp only [List.zipWith_cons_cons, monoOf_cons, ih xs ys h, Finsupp.single_add]
        abel

/-! ### basic facts on `find?`, keys -/

theorem find?_eq_none_iff (d : Dict R) (k : Mono) : find? d k = none ↔ k ∉ keys d := by
  induction d with
  | nil => simp [find?, keys]
  | cons kc t ih =>
    obtain ⟨k', c⟩ := kc
    simp only [find?, keys, List.map_cons, List.mem_cons, not_or]
    by_cases h : k' = k
    · simp [h]
    · simp only [h, if_false]
      rw [ih]; simp [keys, Ne.symm h]

theorem find?_some_mem {d : Dict R} {k : Mono} {c : R} (h : find? d k = some c) : (k, c) ∈ d := by
  induction d with
  | nil => simp [find?] at h
  | cons kc t ih =>
    obtain ⟨k', c'⟩ := kc
    simp only [find?] at h
    by_cases hk : k' = k
    · simp only [hk, if_true, Option.some.injEq] at h
      simp [hk, h]
    · simp only [hk, if_false] at h
      exact List.mem_cons_of_mem _ (ih h)

theorem find?_of_mem_nodup {d : Dict R} {k : Mono} {c : R} (hn : (keys d).Nodup) (h : (k, c) ∈ d) :
    find? d k = some c := by
  induction d with
  | nil => simp at h
  | cons kc t ih =>
    obtain ⟨k', c'⟩ := kc
    simp only [keys, List.map_cons, List.nodup_cons] at hn
    simp only [List.mem_cons, Prod.mk.injEq] at h
    simp only [find?]
    rcases h with ⟨h1, h2⟩ | h
    · simp [h1, h2]
    · have : k' ≠ k := by
        intro e
        apply hn.1
        rw [e]
        exact List.mem_map_of_mem (f := Prod.fst) h
      simp only [this, if_false]
      exact ih hn.2 h

/-! ### stripZeros -/

theorem dictMv_stripZeros (vars : List Var) (d : Dict R) : dictMv vars (stripZeros d) = dictMv vars d := by
  induction d with
  | nil => rfl
  | cons kc t ih =>
    simp only [stripZeros, List.filter_cons]
    by_cases h : kc.2 = 0
    · simp only [h, ne_eq, not_true_eq_false, decide_false, Bool.false_eq_true, if_false, dictMv_cons,
        monomial_zero, zero_add]
      exact ih
    · simp only [h, ne_eq, not_false_eq_true, decide_true, if_true, dictMv_cons]
      rw [← ih]; rfl

theorem keys_stripZeros_sublist (d : Dict R) : (keys (stripZeros d)).Sublist (keys d) := by
  unfold keys stripZeros
  exact List.Sublist.map _ List.filter_sublist

theorem canon_stripZeros {n : Nat} {d : Dict R} (hl : LenOk n d) (hn : (keys d).Nodup) :
    Canon n (stripZeros d) where
  len := fun kc h => hl kc (List.mem_of_mem_filter h)
  nz := fun kc h => by
    have := (List.mem_filter.mp h).2
    simpa using this
  nodup := hn.sublist (keys_stripZeros_sublist d)

theorem stripZeros_of_noZero {d : Dict R} (h : NoZero d) : stripZeros d = d := by
  unfold stripZeros
  rw [List.filter_eq_self]
  intro kc hk
  simpa using h kc hk

/-! ### `+=`, `-=`, unary minus -/

theorem dictMv_addTerm (vars : List Var) (d : Dict R) (k : Mono) (c : R) :
    dictMv vars (addTerm d k c) = dictMv vars d + monomial (monoOf vars k) c := by
  induction d with
  | nil => simp [addTerm]
  | cons kc t ih =>
    obtain ⟨k', c'⟩ := kc
    simp only [addTerm]
    by_cases hk : k' = k
    · subst hk
      simp only [if_true]
      by_cases hz : c' + c = 0
      · simp only [hz, if_true, dictMv_cons]
        have : monomial (monoOf vars k') c' + monomial (monoOf vars k') c = (0 : MvPolynomial ℕ R) := by
          rw [← map_add, hz, map_zero]
        calc dictMv vars t = 0 + dictMv vars t := by simp
          _ = _ := by rw [← this]; abel
      · simp only [hz, if_false, dictMv_cons, map_add]
        abel
    · simp only [hk, if_false, dictMv_cons, ih]
      abel

theorem dictMv_subTerm (vars : List Var) (d : Dict R) (k : Mono) (c : R) :
    dictMv vars (subTerm d k c) = dictMv vars d - monomial (monoOf vars k) c := by
  induction d with
  | nil => simp [subTerm, sub_eq_add_neg]
  | cons kc t ih =>
    obtain ⟨k', c'⟩ := kc
    simp only [subTerm]
    by_cases hk : k' = k
    · subst hk
      simp only [if_true]
      by_cases hz : c' - c = 0
      · simp only [hz, if_true, dictMv_cons]
        have hc : c' = c := sub_eq_zero.mp hz
        subst hc
        abel
      · simp only [hz, if_false, dictMv_cons]
        rw [sub_eq_add_neg c' c, map_add, map_neg]
        abel
    · simp only [hk, if_false, dictMv_cons, ih]
      abel

theorem mem_keys_addTerm {d : Dict R} {k k2 : Mono} {c : R} (h : k2 ∈ keys (addTerm d k c)) :
    k2 ∈ keys d ∨ k2 = k := by
  induction d with
  | nil => simpa [addTerm, keys] using h
  | cons kc t ih =>
    obtain ⟨k', c'⟩ := kc
    simp only [addTerm] at h
    by_cases hk : k' = k
    · simp only [hk, if_true] at h
      by_cases hz : c' + c = 0
      · simp only [hz, if_true] at h
        left; simp only [keys, List.map_cons, List.mem_cons]; right; exact h
      · simp only [hz, if_false, keys, List.map_cons, List.mem_cons] at h
        rcases h with h | h
        · right; exact h
        · left; simp only [keys, List.map_cons, List.mem_cons]; right; exact h
    · simp only [hk, if_false, keys, List.map_cons, List.mem_cons] at h
      rcases h with h | h
      · left; simp [keys, h]
      · rcases ih h with h | h
        · left; simp only [keys, List.map_cons, List.mem_cons]; right; exact h
        · right; exact h

theorem canon_addTerm {n : Nat} {d : Dict R} {k : Mono} {c : R} (hd : Canon n d) (hk : k.length = n)
    (hc : c ≠ 0) : Canon n (addTerm d k c) := by
  induction d with
  | nil =>
    refine ⟨?_, ?_, ?_⟩
    · intro kc h; simp only [addTerm, List.mem_singleton] at h; subst h; exact hk
    · intro kc h; simp only [addTerm, List.mem_singleton] at h; subst h; exact hc
    · simp [addTerm, keys]
  | cons kc t ih =>
    obtain ⟨k', c'⟩ := kc
    have ht : Canon n t := ⟨fun x hx => hd.len x (List.mem_cons_of_mem _ hx),
      fun x hx => hd.nz x (List.mem_cons_of_mem _ hx), (List.nodup_cons.mp hd.nodup).2⟩
    have hk'notin : k' ∉ keys t := (List.nodup_cons.mp hd.nodup).1
    simp only [addTerm]
    by_cases hkk : k' = k
    · simp only [hkk, if_true]
      by_cases hz : c' + c = 0
      · simp only [hz, if_true]; exact ht
      · simp only [hz, if_false]
        refine ⟨?_, ?_, ?_⟩
        · intro x hx
          rcases List.mem_cons.mp hx with hx | hx
          · subst hx; exact hk
          · exact ht.len x hx
        · intro x hx
          rcases List.mem_cons.mp hx with hx | hx
          · subst hx; exact hz
          · exact ht.nz x hx
        · simp only [keys, List.map_cons, List.nodup_cons]
          exact ⟨hkk ▸ hk'notin, ht.nodup⟩
    · simp only [hkk, if_false]
      have ih' := ih ht
      refine ⟨?_, ?_, ?_⟩
      · intro x hx
        rcases List.mem_cons.mp hx with hx | hx
        · subst hx; exact hd.len _ (List.mem_cons_self ..)
        · exact ih'.len x hx
      · intro x hx
        rcases List.mem_cons.mp hx with hx | hx
        · subst hx; exact hd.nz _ (List.mem_cons_self ..)
        · exact ih'.nz x hx
      · simp only [keys, List.map_cons, List.nodup_cons]
        refine ⟨?_, ih'.nodup⟩
        intro hmem
        rcases mem_keys_addTerm hmem with h | h
        · exact hk'notin h
        · exact hkk h

end SymVerif.C22
