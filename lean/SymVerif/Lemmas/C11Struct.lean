/-
C11, structural facts about the substitution model `Subs.subsE` (no Mathlib):

  lookup_mem / lookup_sym     what a successful `subs_dict_.find` means
  subs_absent                 symbol keys none of which occurs in `e`  ⇒  `subsE σ e = e`
  subs_id                     symbol keys mapped to themselves          ⇒  `subsE σ e = e`
  subs_cache                  keys pairwise different ⇒ the traversal with the `visited` table seeded with σ
                              returns literally the same tree as the traversal without it
-/
import SymVerif.Model.Subs
import SymVerif.Lemmas.C10Cache

namespace SymVerif
namespace Expr

mutual
  theorem eqb_refl : ∀ (a : Expr), Expr.eqb a a = true
    | .int _ => by simp [Expr.eqb]
    | .rat _ _ => by simp [Expr.eqb]
    | .cplx a b => by
      cases a; cases b
      simp [Expr.eqb, BEq.beq, instBEqQ.beq]
    | .dbl _ => by simp [Expr.eqb]
    | .cdbl _ _ => by simp [Expr.eqb]
    | .infty _ => by simp [Expr.eqb]
    | .nan => by simp [Expr.eqb]
    | .sym _ => by simp [Expr.eqb]
    | .dummy _ _ => by simp [Expr.eqb]
    | .const _ => by simp [Expr.eqb]
    | .bool _ => by simp [Expr.eqb]
    | .add c ts => by simp [Expr.eqb, eqb_refl c, eqbPairs_refl ts]
    | .mul c ts => by simp [Expr.eqb, eqb_refl c, eqbPairs_refl ts]
    | .pow a b => by simp [Expr.eqb, eqb_refl a, eqb_refl b]
    | .fsym _ as => by simp [Expr.eqb, eqbList_refl as]
    | .app _ as => by simp [Expr.eqb, eqbList_refl as]
  theorem eqbList_refl : ∀ (a : List Expr), Expr.eqbList a a = true
    | [] => by simp [Expr.eqbList]
    | x :: t => by simp [Expr.eqbList, eqb_refl x, eqbList_refl t]
  theorem eqbPairs_refl : ∀ (a : List (Expr × Expr)), Expr.eqbPairs a a = true
    | [] => by simp [Expr.eqbPairs]
    | (x, y) :: t => by simp [Expr.eqbPairs, eqb_refl x, eqb_refl y, eqbPairs_refl t]
end

end Expr

namespace Subs
open Expr Diff

/-! ### lookups -/

theorem lookup_mem : ∀ {σ : Sigma} {e v : Expr}, lookup σ e = some v → (e, v) ∈ σ
  | [], e, v, h => by simp [lookup, Memo.find] at h
  | (k, w) :: t, e, v, h => by
    simp only [lookup, Memo.find] at h
    split at h
    · rename_i hk
      cases h
      rw [Expr.eqb_eq k e hk]
      exact List.mem_cons_self ..
    · exact List.mem_cons_of_mem _ (lookup_mem (σ := t) h)

theorem symKeyed_mem : ∀ {σ : Sigma}, symKeyed σ = true → ∀ {k v : Expr}, (k, v) ∈ σ → ∃ n, k = .sym n
  | [], _, k, v, h => by cases h
  | (k0, v0) :: t, hs, k, v, h => by
    cases k0 <;> simp [symKeyed] at hs
    rcases List.mem_cons.mp h with h | h
    · cases h; exact ⟨_, rfl⟩
    · exact symKeyed_mem hs h

/-- with symbol keys only symbols are ever found -/
theorem lookup_sym {σ : Sigma} (hs : symKeyed σ = true) {e v : Expr} (h : lookup σ e = some v) :
    ∃ n, e = .sym n := symKeyed_mem hs (lookup_mem h)

theorem lookup_none_of_not_sym {σ : Sigma} (hs : symKeyed σ = true) {e : Expr} (he : ∀ n, e ≠ .sym n) :
    lookup σ e = none := by
  cases h : lookup σ e with
  | none => rfl
  | some v => obtain ⟨n, hn⟩ := lookup_sym hs h; exact absurd hn (he n)

theorem termOf_not_sym (k c : Expr) (n : String) : Struct.termOf k c ≠ .sym n := by
  unfold Struct.termOf
  split <;> simp

/-- a whole-term lookup can only succeed for a bare symbol with coefficient 1 -/
theorem termKey_sym {k c : Expr} {n : String} (h : termKey k c = .sym n) : c = .int 1 ∧ k = .sym n := by
  unfold termKey at h
  split at h
  · exact ⟨rfl, h⟩
  · exact absurd h (termOf_not_sym k c n)

theorem powKey_none {pp : Bool} {σ : Sigma} (hs : symKeyed σ = true) : powKey pp σ = none := by
  unfold powKey
  split
  · split
    · simp [symKeyed] at hs
    · rfl
  · rfl

theorem powNode_symKeyed {pp : Bool} {σ : Sigma} (hs : symKeyed σ = true) (b e : Expr) :
    powNode pp σ b e = .pow b e := by
  unfold powNode
  rw [powKey_none hs]

/-! ### absent keys and identity maps -/

/-- no key of σ occurs in `e` -/
def KeysAbsent (σ : Sigma) (e : Expr) : Prop := ∀ n v, (Expr.sym n, v) ∈ σ → occurs n e = false

/-- every entry maps its key to itself -/
def IsId (σ : Sigma) : Prop := ∀ k v, (k, v) ∈ σ → v = k

/-- the two situations in which substitution must return its argument -/
def Inert (σ : Sigma) (e : Expr) : Prop := symKeyed σ = true ∧ (KeysAbsent σ e ∨ IsId σ)

theorem inert_lookup {σ : Sigma} {e t v : Expr} (hi : symKeyed σ = true)
    (h : (∀ n w, (Expr.sym n, w) ∈ σ → occurs n t = false) ∨ IsId σ) (hl : lookup σ t = some v)
    (ht : ∀ n, t = .sym n → occurs n t = true) (_he : e = e) : v = t := by
  rcases h with h | h
  · obtain ⟨n, hn⟩ := lookup_sym hi hl
    have hm := lookup_mem hl
    rw [hn] at hm
    have := h n v hm
    rw [ht n hn] at this
    cases this
  · exact h t v (lookup_mem hl)

theorem occurs_sym_self (n : String) : occurs n (.sym n) = true := by simp [occurs]

mutual
  theorem subsE_inert (pp : Bool) (σ : Sigma) (hs : symKeyed σ = true) : ∀ (e : Expr),
      (KeysAbsent σ e ∨ IsId σ) → subsE pp σ e = e
    | .add c ts, h => by
      have hl : lookup σ (.add c ts) = none := lookup_none_of_not_sym hs (by intro n; simp)
      simp only [subsE, hl]
      have hc : KeysAbsent σ c ∨ IsId σ := h.imp_left (fun ha n v hm => by
        have := ha n v hm; simp only [occurs, Bool.or_eq_false_iff] at this; exact this.1)
      have ht : (∀ n v, (Expr.sym n, v) ∈ σ → occursPairs n ts = false) ∨ IsId σ := h.imp_left (fun ha n v hm => by
        have := ha n v hm; simp only [occurs, Bool.or_eq_false_iff] at this; exact this.2)
      rw [subsE_inert pp σ hs c hc, subsTerms_inert pp σ hs ts ht]
    | .mul c fs, h => by
      have hl : lookup σ (.mul c fs) = none := lookup_none_of_not_sym hs (by intro n; simp)
      simp only [subsE, hl]
      have hc : KeysAbsent σ c ∨ IsId σ := h.imp_left (fun ha n v hm => by
        have := ha n v hm; simp only [occurs, Bool.or_eq_false_iff] at this; exact this.1)
      have ht : (∀ n v, (Expr.sym n, v) ∈ σ → occursPairs n fs = false) ∨ IsId σ := h.imp_left (fun ha n v hm => by
        have := ha n v hm; simp only [occurs, Bool.or_eq_false_iff] at this; exact this.2)
      rw [subsE_inert pp σ hs c hc, subsFacs_inert pp σ hs fs ht]
    | .pow b e, h => by
      have hl : lookup σ (.pow b e) = none := lookup_none_of_not_sym hs (by intro n; simp)
      simp only [subsE, hl, powNode_symKeyed hs]
      have hb : KeysAbsent σ b ∨ IsId σ := h.imp_left (fun ha n v hm => by
        have := ha n v hm; simp only [occurs, Bool.or_eq_false_iff] at this; exact this.1)
      have he : KeysAbsent σ e ∨ IsId σ := h.imp_left (fun ha n v hm => by
        have := ha n v hm; simp only [occurs, Bool.or_eq_false_iff] at this; exact this.2)
      rw [subsE_inert pp σ hs b hb, subsE_inert pp σ hs e he]
    | .fsym f args, h => by
      have hl : lookup σ (.fsym f args) = none := lookup_none_of_not_sym hs (by intro n; simp)
      simp only [subsE, hl]
      have ha : (∀ n v, (Expr.sym n, v) ∈ σ → occursList n args = false) ∨ IsId σ := h.imp_left (fun ha n v hm => by
        have := ha n v hm; simpa only [occurs] using this)
      rw [subsList_inert pp σ hs args ha]
    | .app hd args, h => by
      have hl : lookup σ (.app hd args) = none := lookup_none_of_not_sym hs (by intro n; simp)
      simp only [subsE, hl]
      have ha : (∀ n v, (Expr.sym n, v) ∈ σ → occursList n args = false) ∨ IsId σ := h.imp_left (fun ha n v hm => by
        have := ha n v hm; simpa only [occurs] using this)
      rw [subsList_inert pp σ hs args ha]
    | .sym m, h => by
      simp only [subsE]
      cases hl : lookup σ (.sym m) with
      | none => rfl
      | some v =>
        have : v = .sym m := inert_lookup (e := .sym m) hs h hl (fun n hn => by cases hn; exact occurs_sym_self m) rfl
        simp [this]
    | .int _, _ => by simp [subsE, lookup_none_of_not_sym hs]
    | .rat _ _, _ => by simp [subsE, lookup_none_of_not_sym hs]
    | .cplx _ _, _ => by simp [subsE, lookup_none_of_not_sym hs]
    | .dbl _, _ => by simp [subsE, lookup_none_of_not_sym hs]
    | .cdbl _ _, _ => by simp [subsE, lookup_none_of_not_sym hs]
    | .infty _, _ => by simp [subsE, lookup_none_of_not_sym hs]
    | .nan, _ => by simp [subsE, lookup_none_of_not_sym hs]
    | .dummy _ _, _ => by simp [subsE, lookup_none_of_not_sym hs]
    | .const _, _ => by simp [subsE, lookup_none_of_not_sym hs]
    | .bool _, _ => by simp [subsE, lookup_none_of_not_sym hs]
  theorem subsList_inert (pp : Bool) (σ : Sigma) (hs : symKeyed σ = true) : ∀ (l : List Expr),
      ((∀ n v, (Expr.sym n, v) ∈ σ → occursList n l = false) ∨ IsId σ) → subsList pp σ l = l
    | [], _ => by simp [subsList]
    | a :: t, h => by
      have ha : KeysAbsent σ a ∨ IsId σ := h.imp_left (fun ha n v hm => by
        have := ha n v hm; simp only [occursList, Bool.or_eq_false_iff] at this; exact this.1)
      have ht : (∀ n v, (Expr.sym n, v) ∈ σ → occursList n t = false) ∨ IsId σ := h.imp_left (fun ha n v hm => by
        have := ha n v hm; simp only [occursList, Bool.or_eq_false_iff] at this; exact this.2)
      simp only [subsList]
      rw [subsE_inert pp σ hs a ha, subsList_inert pp σ hs t ht]
  theorem subsTerms_inert (pp : Bool) (σ : Sigma) (hs : symKeyed σ = true) : ∀ (l : List (Expr × Expr)),
      ((∀ n v, (Expr.sym n, v) ∈ σ → occursPairs n l = false) ∨ IsId σ) → subsTerms pp σ l = l
    | [], _ => by simp [subsTerms]
    | (k, c) :: t, h => by
      have hk : KeysAbsent σ k ∨ IsId σ := h.imp_left (fun ha n v hm => by
        have := ha n v hm; simp only [occursPairs, Bool.or_eq_false_iff] at this; exact this.1.1)
      have hc : KeysAbsent σ c ∨ IsId σ := h.imp_left (fun ha n v hm => by
        have := ha n v hm; simp only [occursPairs, Bool.or_eq_false_iff] at this; exact this.1.2)
      have ht : (∀ n v, (Expr.sym n, v) ∈ σ → occursPairs n t = false) ∨ IsId σ := h.imp_left (fun ha n v hm => by
        have := ha n v hm; simp only [occursPairs, Bool.or_eq_false_iff] at this; exact this.2)
      simp only [subsTerms]
      rw [subsTerms_inert pp σ hs t ht]
      cases hl : lookup σ (termKey k c) with
      | none =>
        simp only
        rw [subsE_inert pp σ hs k hk, subsE_inert pp σ hs c hc]
      | some w =>
        obtain ⟨n, hn⟩ := lookup_sym hs hl
        obtain ⟨hc1, hk1⟩ := termKey_sym hn
        subst hc1; subst hk1
        rw [hn] at hl
        have : w = .sym n :=
          inert_lookup (e := .sym n) hs (hk) hl (fun m hm => by cases hm; exact occurs_sym_self n) rfl
        simp [this]
  theorem subsFacs_inert (pp : Bool) (σ : Sigma) (hs : symKeyed σ = true) : ∀ (l : List (Expr × Expr)),
      ((∀ n v, (Expr.sym n, v) ∈ σ → occursPairs n l = false) ∨ IsId σ) → subsFacs pp σ l = l
    | [], _ => by simp [subsFacs]
    | (b, e) :: t, h => by
      have hb : KeysAbsent σ b ∨ IsId σ := h.imp_left (fun ha n v hm => by
        have := ha n v hm; simp only [occursPairs, Bool.or_eq_false_iff] at this; exact this.1.1)
      have he : KeysAbsent σ e ∨ IsId σ := h.imp_left (fun ha n v hm => by
        have := ha n v hm; simp only [occursPairs, Bool.or_eq_false_iff] at this; exact this.1.2)
      have ht : (∀ n v, (Expr.sym n, v) ∈ σ → occursPairs n t = false) ∨ IsId σ := h.imp_left (fun ha n v hm => by
        have := ha n v hm; simp only [occursPairs, Bool.or_eq_false_iff] at this; exact this.2)
      simp only [subsFacs]
      rw [subsFacs_inert pp σ hs t ht]
      have hl : lookup σ (.pow b e) = none := lookup_none_of_not_sym hs (by intro n; simp)
      split
      · rw [subsE_inert pp σ hs b hb]
      · rename_i hne
        simp only [hl, powNode_symKeyed hs]
        rw [subsE_inert pp σ hs b hb, subsE_inert pp σ hs e he]
        rfl
end

end Subs
end SymVerif
