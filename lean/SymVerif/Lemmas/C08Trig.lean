import SymVerif.Lemmas.C08Lin
/-!
C08: soundness of `trigSimplify` and of the six trigonometric constructors for *any* family of
functions satisfying the period / parity / quarter-turn laws (`TrigLaws`).
-/
set_option linter.unusedSectionVars false
set_option linter.unusedSimpArgs false
namespace SymVerif.Funcs
open SymVerif

variable {K : Type} [Field K] [CharZero K]

/-- the laws the rewriting of trig_simplify relies on -/
structure TrigLaws (pi : K) (F : TrigFn → K → K) : Prop where
  periodic : ∀ (fn : TrigFn) (x : K) (k : ℤ), F fn (x + (k : K) * ((fn.period : ℕ) : K) * pi) = F fn x
  parity : ∀ (fn : TrigFn) (x : K), F fn (-x) = (if fn.odd then -1 else 1) * F fn x
  quarter : ∀ (fn : TrigFn) (x : K), F fn (x + pi / 2) = (if fn.conjOdd then -1 else 1) * F fn.co x
  half : ∀ (fn : TrigFn) (x : K), fn.period = 2 → F fn (x + pi) = - F fn x

theorem TrigFn.period_cases (fn : TrigFn) : fn.period = 1 ∨ fn.period = 2 := by
  cases fn <;> simp [TrigFn.period]

theorem TrigFn.conjOdd_eq (fn : TrigFn) : fn.conjOdd = fn.co.odd := by
  cases fn <;> rfl

/-- value of a constructor result -/
def Res.sem (ρ : Expr → K) (pi : K) (F : TrigFn → K → K) : Res → K
  | .tab sgn fn i => (sgn : K) * F fn (pi * (i : K) / 12)
  | .app sgn fn a => (sgn : K) * F fn (a.eval ρ pi)

theorem Res.sem_scale (ρ : Expr → K) (pi : K) (F : TrigFn → K → K) (s : Int) (r : Res) :
    (r.scale s).sem ρ pi F = (s : K) * r.sem ρ pi F := by
  cases r <;> simp [Res.scale, Res.sem] <;> ring

/-! ### the shift `m` -/

theorem ratFloor_le (q : Rat) : ratFloor q ≤ q := Rat.floor_le q
theorem lt_ratFloor_add_one (q : Rat) : q < ratFloor q + 1 := by
  have := Rat.lt_floor_add_one q
  simpa [ratFloor] using this

theorem rat_of_den_one {n : Rat} (h : n.den = 1) : n = (n.num : Rat) := by
  have := Rat.num_div_den n
  rw [h] at this
  simpa using this.symm

theorem natAbs_cast_nonneg {z : ℤ} (h : 0 ≤ z) : ((z.natAbs : ℕ) : Rat) = (z : Rat) := by
  calc ((z.natAbs : ℕ) : Rat) = (((z.natAbs : ℕ) : ℤ) : Rat) := (Int.cast_natCast _).symm
    _ = (z : Rat) := by rw [Int.natAbs_of_nonneg h]

theorem natAbs_cast_nonpos {z : ℤ} (h : z ≤ 0) : ((z.natAbs : ℕ) : Rat) = -(z : Rat) := by
  calc ((z.natAbs : ℕ) : Rat) = (((z.natAbs : ℕ) : ℤ) : Rat) := (Int.cast_natCast _).symm
    _ = ((-z : ℤ) : Rat) := by rw [Int.ofNat_natAbs_of_nonpos h]
    _ = -(z : Rat) := by push_cast; ring

theorem shiftM_spec (n : Rat) (P : Nat) (hP : P = 1 ∨ P = 2) :
    ∃ k : ℤ, n = shiftM n P / 2 + (k : Rat) * (P : Rat) := by
  unfold shiftM
  by_cases hd : (n.den == 1) = true
  · have hd' : n.den = 1 := by simpa using hd
    rw [if_pos hd]
    have hn := rat_of_den_one hd'
    rcases le_or_gt 0 n.num with h | h
    · refine ⟨0, ?_⟩
      have hA : ((n.num.natAbs : ℕ) : Rat) = n := (natAbs_cast_nonneg h).trans hn.symm
      rw [hA]
      rcases hP with hP | hP <;> subst hP <;> push_cast <;> ring
    · have hA : ((n.num.natAbs : ℕ) : Rat) = -n := by
        rw [natAbs_cast_nonpos (le_of_lt h), ← hn]
      rw [hA]
      rcases hP with hP | hP
      · subst hP
        refine ⟨2 * n.num, ?_⟩
        push_cast; rw [← hn]; ring
      · subst hP
        refine ⟨n.num, ?_⟩
        push_cast; rw [← hn]; ring
  · rw [if_neg hd]
    refine ⟨(n / (P : Rat)).floor, ?_⟩
    have hP0 : (P : Rat) ≠ 0 := by rcases hP with hP | hP <;> subst hP <;> norm_num
    simp only [ratFloor]
    field_simp
    ring

theorem shiftM_lt_two (n : Rat) (hd : ¬ n.den = 1) : shiftM n 1 < 2 := by
  unfold shiftM
  have hd' : ¬ (n.den == 1) = true := by simpa using hd
  rw [if_neg hd']
  have h1 := lt_ratFloor_add_one (n / ((1 : ℕ) : Rat))
  have h2 : n / ((1 : ℕ) : Rat) - ratFloor (n / ((1 : ℕ) : Rat)) < 1 := by linarith
  calc (n / ((1 : ℕ) : Rat) - ratFloor (n / ((1 : ℕ) : Rat))) * (2 * ((1 : ℕ) : Rat))
      = (n / ((1 : ℕ) : Rat) - ratFloor (n / ((1 : ℕ) : Rat))) * 2 := by push_cast; ring
    _ < 1 * 2 := by nlinarith
    _ = 2 := by norm_num

/-- an integer `n` always takes one of the early exits when the period is 1 (12·n ≡ 0 mod 12) -/
theorem int_mul12 {n : Rat} (hd : n.den = 1) : (n * 12).den = 1 ∧ (n * 12).num = n.num * 12 := by
  have hn := rat_of_den_one hd
  have : n * 12 = ((n.num * 12 : ℤ) : Rat) := by push_cast; rw [← hn]
  rw [this]
  exact ⟨Rat.den_intCast _, Rat.num_intCast _⟩

/-! ### parity through handle_minus -/

theorem parity_apply {pi : K} {F : TrigFn → K → K} (L : TrigLaws pi F) (g : TrigFn) (b : Bool) (x y : K)
    (h : y = (if b then -1 else 1) * x) :
    F g x = (if g.odd && b then -1 else 1) * F g y := by
  cases b with
  | false =>
    have h' : y = x := by simpa using h
    subst h'; simp
  | true =>
    have h' : y = -x := by simpa using h
    have hx : x = -y := by rw [h']; ring
    rw [hx, L.parity]
    simp

/-! ### trig_simplify -/

/-- what `trig_simplify` promises about its outputs -/
structure SimpSem (ρ : Expr → K) (pi : K) (F : TrigFn → K → K) (fn : TrigFn) (arg : Lin) (s : Simp) : Prop where
  wf : s.rarg.wf = true
  sign : s.sign = 1 ∨ s.sign = -1
  conj : s.conj = true → F fn (arg.eval ρ pi) = (s.sign : K) * F fn.co (s.rarg.eval ρ pi)
  same : s.conj = false → s.rarg.isZero = false → F fn (arg.eval ρ pi) = (s.sign : K) * F fn (s.rarg.eval ρ pi)
  table : s.conj = false → s.rarg.isZero = true → ∀ i : Int, s.index = some i → 0 ≤ i →
    F fn (arg.eval ρ pi) = (s.sign : K) * F fn (pi * (i : K) / 12)

/-- the generic shape of every non-table branch -/
theorem simpSem_of_generic {ρ : Expr → K} {pi : K} {F : TrigFn → K → K} {fn : TrigFn} {arg : Lin}
    (ra : Lin) (idx : Option Int) (sg : Int) (hwf : ra.wf = true) (hs : sg = 1 ∨ sg = -1)
    (hidx : idx = some 0 ∨ idx = some (-1) ∨ idx = none)
    (h : F fn (arg.eval ρ pi) = (sg : K) * F fn (ra.eval ρ pi)) :
    SimpSem ρ pi F fn arg ⟨false, ra, idx, sg⟩ := by
  refine ⟨hwf, hs, by simp, fun _ _ => h, ?_⟩
  intro _ hz i hi h0
  rcases hidx with hidx | hidx | hidx
  · simp only [hidx, Option.some.injEq] at hi
    subst hi
    rw [h, Lin.eval_of_isZero hz]; simp
  · simp only [hidx, Option.some.injEq] at hi
    subst hi; omega
  · simp [hidx] at hi

theorem withMinus_ok {order : List Expr} {l : Lin} {k : Bool → Lin → Simp} {s : Simp}
    (h : withMinus order l k = .ok s) : ∃ b ra, handleMinus order hmFuel l = .ok (b, ra) ∧ s = k b ra := by
  unfold withMinus at h
  split at h
  · cases h
  · rename_i b ra hh
    exact ⟨b, ra, hh, (Except.ok.inj h).symm⟩

theorem oddSign_cases (o b : Bool) : (if o && b then (-1 : Int) else 1) = 1 ∨ (if o && b then (-1 : Int) else 1) = -1 := by
  cases o <;> cases b <;> simp

section
variable {ρ : Expr → K} {pi : K} {F : TrigFn → K → K} (L : TrigLaws pi F) (hρ : Compositional ρ pi)
  (order : List Expr) (fn : TrigFn)
include L hρ

/-- `f(x) = ±f(handle_minus(x))` with the sign the C++ computes for an odd / even function -/
theorem minus_generic (x : Lin) (hx : x.wf = true) (idx : Option Int)
    (hidx : idx = some 0 ∨ idx = some (-1) ∨ idx = none) (arg : Lin) (σ : Int) (hσ : σ = 1 ∨ σ = -1)
    (hF : F fn (arg.eval ρ pi) = (σ : K) * F fn (x.eval ρ pi)) (s : Simp)
    (h : withMinus order x (fun b ra => ⟨false, ra, idx, if fn.odd && b then -σ else σ⟩) = .ok s) :
    SimpSem ρ pi F fn arg s := by
  obtain ⟨b, ra, hh, hs⟩ := withMinus_ok h
  subst hs
  obtain ⟨e1, w1, _⟩ := handleMinus_sound ρ pi hρ order hmFuel x b ra hx hh
  refine simpSem_of_generic ra idx _ w1 ?_ hidx ?_
  · rcases hσ with hσ | hσ <;> subst hσ <;> cases fn.odd <;> cases b <;> simp
  · rw [hF, parity_apply L fn b (x.eval ρ pi) (ra.eval ρ pi) e1]
    rcases hσ with hσ | hσ <;> subst hσ <;> cases fn.odd <;> cases b <;> simp

theorem simpNoShift_sound (arg : Lin) (hw : arg.wf = true) (s : Simp)
    (h : simpNoShift order arg fn.odd = .ok s) : SimpSem ρ pi F fn arg s := by
  unfold simpNoShift at h
  refine minus_generic L hρ order fn arg hw (some (-1)) (Or.inr (Or.inl rfl)) arg 1 (Or.inl rfl) (by simp) s ?_
  simpa using h

theorem simpEarlyMinus_sound (arg r : Lin) (wr : r.wf = true)
    (hF : F fn (arg.eval ρ pi) = F fn (r.eval ρ pi)) (s : Simp)
    (h : simpEarlyMinus order r fn.odd = .ok s) : SimpSem ρ pi F fn arg s := by
  unfold simpEarlyMinus at h
  refine minus_generic L hρ order fn r wr (some 0) (Or.inl rfl) arg 1 (Or.inl rfl) (by simpa using hF) s ?_
  simpa using h

theorem simpHalf_sound (arg r : Lin) (q : Rat) (wr : r.wf = true) (hP : fn.period = 2)
    (hF : F fn (arg.eval ρ pi) = F fn (r.eval ρ pi + (q : K) * pi + pi)) (s : Simp)
    (h : simpHalf order r q fn.odd = .ok s) : SimpSem ρ pi F fn arg s := by
  unfold simpHalf at h
  obtain ⟨ea, wa⟩ := addPi_sound ρ pi r q wr
  refine minus_generic L hρ order fn (r.addPi q) wa none (Or.inr (Or.inr rfl)) arg (-1) (Or.inr rfl) ?_ s ?_
  · rw [hF, ← ea, L.half fn _ hP]; simp
  · simpa using h

theorem simpQuarter_sound (arg r : Lin) (q : Rat) (s0 : Int) (hs0 : s0 = 1 ∨ s0 = -1) (wr : r.wf = true)
    (hF : F fn (arg.eval ρ pi) = (s0 : K) * F fn (r.eval ρ pi + (q : K) * pi + pi / 2)) (s : Simp)
    (h : simpQuarter order r s0 q fn.conjOdd = .ok s) : SimpSem ρ pi F fn arg s := by
  unfold simpQuarter at h
  obtain ⟨ea, wa⟩ := addPi_sound ρ pi r q wr
  obtain ⟨b, ra, hh, hs⟩ := withMinus_ok h
  subst hs
  obtain ⟨e1, w1, _⟩ := handleMinus_sound ρ pi hρ order hmFuel _ b ra wa hh
  refine ⟨w1, ?_, ?_, by simp, by simp⟩
  · rcases hs0 with hs0 | hs0 <;> subst hs0 <;> cases fn.conjOdd <;> cases b <;> simp
  · intro _
    rw [hF, ← ea, L.quarter, parity_apply L fn.co b ((r.addPi q).eval ρ pi) (ra.eval ρ pi) e1,
      ← fn.conjOdd_eq]
    rcases hs0 with hs0 | hs0 <;> subst hs0 <;> cases fn.conjOdd <;> cases b <;> simp

theorem simpFall_sound (arg r : Lin) (n : Rat) (wr : r.wf = true)
    (earg : arg.eval ρ pi = r.eval ρ pi + (n : K) * pi)
    (hlt : fn.period = 1 → shiftM n fn.period < 2) (s : Simp)
    (h : simpFall order r n fn.period fn.odd fn.conjOdd = .ok s) : SimpSem ρ pi F fn arg s := by
  have hPc := fn.period_cases
  obtain ⟨k, hk⟩ := shiftM_spec n fn.period hPc
  unfold simpFall at h
  simp only at h
  set m := shiftM n fn.period with hm
  -- arg ≡ r + (m/2)·pi modulo the period
  have hF : F fn (arg.eval ρ pi) = F fn (r.eval ρ pi + ((m / 2 : Rat) : K) * pi) := by
    have hn : (n : K) = ((m / 2 : Rat) : K) + (k : K) * ((fn.period : ℕ) : K) := by
      have := congrArg (Rat.cast : Rat → K) hk
      rw [this]; push_cast; ring
    rw [earg, hn]
    have := L.periodic fn (r.eval ρ pi + ((m / 2 : Rat) : K) * pi) k
    rw [← this]; congr 1; ring
  split at h
  · rename_i hA
    simp only [Bool.and_eq_true, decide_eq_true_eq] at hA
    have hP2 : fn.period = 2 := by
      rcases hPc with hP | hP
      · have := hlt hP; linarith [hA.1]
      · exact hP
    refine simpHalf_sound L hρ order fn arg r _ wr hP2 ?_ s h
    rw [hF]; congr 1; push_cast; ring
  · split at h
    · split at h
      · refine simpQuarter_sound L hρ order fn arg r _ 1 (Or.inl rfl) wr ?_ s h
        rw [hF]; simp only [Int.cast_one, one_mul]; congr 1; push_cast; ring
      · rename_i hC
        have hP2 : fn.period = 2 := by
          rcases hPc with hP | hP
          · exact absurd (hlt hP) hC
          · exact hP
        refine simpQuarter_sound L hρ order fn arg r _ (-1) (Or.inr rfl) wr ?_ s h
        have hx : r.eval ρ pi + ((m / 2 : Rat) : K) * pi
            = (r.eval ρ pi + (((m - 3) / 2 : Rat) : K) * pi + pi / 2) + pi := by push_cast; ring
        rw [hF, hx, L.half fn _ hP2]; simp
    · have hs := Except.ok.inj h
      subst hs
      obtain ⟨ea, wa⟩ := addPi_sound ρ pi r (m / 2) wr
      refine simpSem_of_generic _ (some (-1)) 1 wa (Or.inl rfl) (Or.inr (Or.inl rfl)) ?_
      rw [hF, ea]; simp

theorem trigSimplify_sound (arg : Lin) (s : Simp) (hw : arg.wf = true)
    (h : trigSimplify order arg fn.period fn.odd fn.conjOdd = .ok s) : SimpSem ρ pi F fn arg s := by
  unfold trigSimplify at h
  split at h
  · exact simpNoShift_sound L hρ order fn arg hw s h
  · rename_i n r hg
    obtain ⟨earg, wr⟩ := getPiShift_sound ρ pi hg hw
    simp only at h
    split at h
    · rename_i ht
      have htd : (n * 12).den = 1 := by simpa using ht
      -- 12 n = t.num = (12 P) j + m
      have hnK : (n : K) * pi = pi * ((((n * 12).num % (12 * (fn.period : Int))) : ℤ) : K) / 12
          + ((((n * 12).num / (12 * (fn.period : Int))) : ℤ) : K) * ((fn.period : ℕ) : K) * pi := by
        have hdef := Int.emod_def (n * 12).num (12 * (fn.period : Int))
        have h12 : (n : K) = (((n * 12).num : ℤ) : K) / 12 := by
          have h1 := rat_of_den_one htd
          have h2 := congrArg (Rat.cast : Rat → K) h1
          push_cast at h2
          rw [← h2]; ring
        rw [hdef, h12]; push_cast; ring
      split at h
      · rename_i hz
        have hs := Except.ok.inj h
        subst hs
        refine ⟨by simp [Lin.wf, Lin.zero], Or.inl rfl, by simp, ?_, ?_⟩
        · intro _ hz'; simp [Lin.isZero, Lin.zero] at hz'
        · intro _ _ i hi h0
          simp only [Option.some.injEq] at hi
          subst hi
          rw [earg, Lin.eval_of_isZero hz, zero_add, hnK, L.periodic]
          simp
      · split at h
        · rename_i hm0
          have hm0' : (n * 12).num % (12 * (fn.period : Int)) = 0 := by simpa using hm0
          refine simpEarlyMinus_sound L hρ order fn arg r wr ?_ s h
          rw [earg, hnK, hm0']
          have := L.periodic fn (r.eval ρ pi) ((n * 12).num / (12 * (fn.period : Int)))
          rw [← this]; congr 1; simp
        · rename_i hm0
          refine simpFall_sound L hρ order fn arg r n wr earg ?_ s h
          intro hP
          rw [hP]
          apply shiftM_lt_two
          intro hd
          obtain ⟨_, h2⟩ := int_mul12 hd
          apply hm0
          rw [h2, hP]
          simp
    · rename_i ht
      refine simpFall_sound L hρ order fn arg r n wr earg ?_ s h
      intro hP
      rw [hP]
      apply shiftM_lt_two
      intro hd
      obtain ⟨h1, _⟩ := int_mul12 hd
      exact ht (by simpa using h1)

/-! ### the constructors -/

theorem trigCtor_sound : ∀ (fuel : Nat) (fn : TrigFn) (arg : Lin) (res : Res), arg.wf = true →
    trigCtor order fuel fn arg = .ok res → res.sem ρ pi F = F fn (arg.eval ρ pi) := by
  intro fuel
  induction fuel with
  | zero => intro fn arg res _ h; simp [trigCtor] at h
  | succ fuel ih =>
    intro fn arg res hw h
    unfold trigCtor at h
    split at h
    · rename_i hz
      have hs := Except.ok.inj h
      subst hs
      simp only [Bool.and_eq_true] at hz
      simp [Res.sem, Lin.eval_of_isZero hz.2]
    · split at h
      · cases h
      · cases hsimp : trigSimplify order arg fn.period fn.odd fn.conjOdd with
        | error e => simp [hsimp, bind, Except.bind] at h
        | ok s =>
          simp only [hsimp, bind, Except.bind] at h
          have S := trigSimplify_sound L hρ order fn arg s hw hsimp
          split at h
          · rename_i hc
            cases hrec : trigCtor order fuel fn.co s.rarg with
            | error e => simp [hrec] at h
            | ok r =>
              simp only [hrec, pure, Except.pure] at h
              have hs := Except.ok.inj h
              subst hs
              rw [Res.sem_scale, ih fn.co s.rarg r S.wf hrec, S.conj hc]
          · rename_i hc
            have hc' : s.conj = false := by simpa using hc
            split at h
            · rename_i hz
              split at h
              · cases h
              · rename_i i hi
                split at h
                · cases h
                · rename_i hneg
                  have hs := Except.ok.inj h
                  subst hs
                  have h0 : 0 ≤ i := by omega
                  have := S.table hc' hz i hi h0
                  simp only [Res.sem]
                  rw [this]
                  have : ((i.toNat : ℕ) : K) = ((i : ℤ) : K) := by
                    have := Int.toNat_of_nonneg h0
                    exact_mod_cast congrArg (fun z : ℤ => (z : K)) this
                  rw [this]
            · rename_i hz
              have hz' : s.rarg.isZero = false := by simpa using hz
              split at h
              · rename_i hs1
                have hs1' : s.sign = 1 := by simpa using hs1
                split at h
                · have := ih fn s.rarg res S.wf h
                  rw [this, S.same hc' hz', hs1']; simp
                · have hs := Except.ok.inj h
                  subst hs
                  simp [Res.sem]
              · rename_i hs1
                have hsm : s.sign = -1 := by
                  rcases S.sign with h1 | h1
                  · exact absurd (by simpa using h1) hs1
                  · exact h1
                cases hrec : trigCtor order fuel fn s.rarg with
                | error e => simp [hrec] at h
                | ok r =>
                  simp only [hrec, pure, Except.pure] at h
                  have hs := Except.ok.inj h
                  subst hs
                  rw [Res.sem_scale, ih fn s.rarg r S.wf hrec, S.same hc' hz', hsm]

end

end SymVerif.Funcs
