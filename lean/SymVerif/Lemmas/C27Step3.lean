import SymVerif.Lemmas.C27Step2

/-! Soundness of the free functions `set_union(set_set)`, `set_intersection(set_set)`, and of `ops n`. -/
namespace SymVerif.Sets

theorem combined_mem (q : ℚ) : ∀ (l : List SetE) (acc : List ENum),
    ENum.fin q ∈ l.foldl (fun acc s => match s with | .fs e => insertAllSB acc e | _ => acc) acc ↔
      (ENum.fin q ∈ acc ∨ ∃ e, SetE.fs e ∈ l ∧ ENum.fin q ∈ e)
  | [], acc => by simp
  | x :: t, acc => by
    rw [List.foldl_cons, combined_mem q t]
    cases x <;> simp [mem_insertAllSB, or_assoc]

theorem memAny_split (l : List SetE) (q : ℚ) :
    memAny l q ↔ ((∃ e, SetE.fs e ∈ l ∧ ENum.fin q ∈ e) ∨
      memAny (l.filter (fun s => !s.isFs && !s.isEmptySet)) q) := by
  simp only [memAny_iff, List.mem_filter]
  constructor
  · rintro ⟨s, hs, hq⟩
    cases s with
    | fs e => exact Or.inl ⟨e, hs, by simpa [mem] using hq⟩
    | empty => simp [mem] at hq
    | _ => exact Or.inr ⟨_, ⟨hs, by simp [SetE.isFs, SetE.isEmptySet]⟩, hq⟩
  · rintro (⟨e, he, hq⟩ | ⟨s, ⟨hs, _⟩, hq⟩)
    · exact ⟨_, he, by simpa [mem] using hq⟩
    · exact ⟨s, hs, hq⟩

theorem WFL_filter {l : List SetE} (p : SetE → Bool) (h : WFL l) : WFL (l.filter p) := by
  rw [WFL_iff] at h ⊢
  intro x hx
  exact h x (List.mem_filter.1 hx).1

theorem nuStep_sound {r : Ops} (hr : Sound r) (l : List SetE) (s : SetE) (hl : WFL l)
    (h : nuStep r l = .ok s) : WF s ∧ ∀ q, mem s q ↔ memAny l q := by
  unfold nuStep at h
  split at h
  · rename_i hany
    cases ok_inj h
    refine ⟨by simp [WF], fun q => ?_⟩
    rw [List.any_eq_true] at hany
    obtain ⟨x, hx, hxu⟩ := hany
    cases x <;> simp [SetE.isUniv] at hxu
    simp only [mem, true_iff, memAny_iff]
    exact ⟨_, hx, by simp [mem]⟩
  · dsimp only at h
    have hin := WFL_filter (fun s => !s.isFs && !s.isEmptySet) hl
    have hcomb : ∀ q, ENum.fin q ∈ l.foldl (fun acc s => match s with | .fs e => insertAllSB acc e | _ => acc) [] ↔
        ∃ e, SetE.fs e ∈ l ∧ ENum.fin q ∈ e := fun q => by rw [combined_mem]; simp
    revert h hin
    generalize hinp : l.filter (fun s => !s.isFs && !s.isEmptySet) = input
    generalize hcmb : l.foldl (fun acc s => match s with | .fs e => insertAllSB acc e | _ => acc) [] = combined
    intro h hin
    have key : ∀ q, memAny l q ↔ (ENum.fin q ∈ combined ∨ memAny input q) := by
      intro q
      rw [memAny_split l q, hinp, ← hcmb, hcomb q]
    split at h
    · cases ok_inj h
      exact ⟨WF_finiteset _, fun q => by rw [key q, mem_finiteset]; simp [memAny]⟩
    · rename_i x
      split at h
      · rename_i hemp
        cases ok_inj h
        refine ⟨hin.1, fun q => ?_⟩
        rw [key q]
        rw [List.isEmpty_iff] at hemp
        simp [hemp, memAny]
      · have := hr.mu _ _ s (WF_finiteset _) hin.1 h
        refine ⟨this.1, fun q => ?_⟩
        rw [this.2 q, key q, mem_finiteset]; simp [memAny]
    · have := foldE_mu hr _ _ s (WF_finiteset _) hin h
      refine ⟨this.1, fun q => ?_⟩
      rw [this.2 q, key q, mem_finiteset]

/-! ### free `set_intersection` -/

theorem memAll_erase {it : SetE} {l : List SetE} (hit : it ∈ l) (q : ℚ) :
    memAll l q ↔ (mem it q ∧ memAll (eraseK it l) q) := by
  simp only [memAll_iff]
  constructor
  · intro h
    exact ⟨h it hit, fun x hx => h x (mem_eraseK_imp _ _ _ hx)⟩
  · rintro ⟨h1, h2⟩ x hx
    rcases mem_of_eraseK soundBEq_SetE it x l hx with rfl | hx'
    · exact h1
    · exact h2 x hx'

theorem WFL_erase {it : SetE} {l : List SetE} (h : WFL l) : WFL (eraseK it l) := by
  rw [WFL_iff] at h ⊢
  intro x hx
  exact h x (mem_eraseK_imp _ _ _ hx)

theorem all_contains_iff (l : List SetE) (hl : WFL l) (q : ℚ) :
    l.all (fun s => contains s (.fin q)) = true ↔ memAll l q := by
  rw [List.all_eq_true, memAll_iff]
  rw [WFL_iff] at hl
  constructor
  · intro h x hx; exact (contains_iff x q (hl x hx)).1 (h x hx)
  · intro h x hx; exact (contains_iff x q (hl x hx)).2 (h x hx)

theorem memAll_partition (l : List SetE) (p : SetE → Bool) (q : ℚ) :
    memAll l q ↔ (memAll (l.filter p) q ∧ memAll (l.filter (fun s => !p s)) q) := by
  simp only [memAll_iff, List.mem_filter]
  constructor
  · intro h; exact ⟨fun x hx => h x hx.1, fun x hx => h x hx.1⟩
  · rintro ⟨h1, h2⟩ x hx
    cases hp : p x
    · exact h2 x ⟨hx, by simp [hp]⟩
    · exact h1 x ⟨hx, hp⟩

theorem niStep_sound {r : Ops} (hr : Sound r) (l : List SetE) (s : SetE) (hl : WFL l)
    (h : niStep r l = .ok s) : WF s ∧ ∀ q, mem s q ↔ memAll l q := by
  unfold niStep at h
  split at h
  · rename_i hemp
    cases ok_inj h
    rw [List.isEmpty_iff] at hemp
    subst hemp
    exact ⟨by simp [WF], fun q => by simp [mem, memAll]⟩
  · split at h
    · rename_i hany
      cases ok_inj h
      refine ⟨by simp [WF], fun q => ?_⟩
      rw [List.any_eq_true] at hany
      obtain ⟨x, hx, hxe⟩ := hany
      cases x <;> simp [SetE.isEmptySet] at hxe
      simp only [mem, false_iff, memAll_iff]
      intro hall
      simpa [mem] using hall _ hx
    · dsimp only at h
      have hinc := WFL_filter (fun s => !s.isUniv) hl
      have key : ∀ q, memAll l q ↔ memAll (l.filter (fun s => !s.isUniv)) q := by
        intro q
        simp only [memAll_iff, List.mem_filter]
        constructor
        · intro h x hx; exact h x hx.1
        · intro h x hx
          cases x with
          | univ => simp [mem]
          | _ => exact h _ ⟨hx, by simp [SetE.isUniv]⟩
      revert h hinc key
      generalize l.filter (fun s => !s.isUniv) = incopy
      intro h hinc key
      split at h
      · cases ok_inj h
        exact ⟨by simp [WF], fun q => by rw [key q]; simp [mem, memAll]⟩
      · rename_i x
        cases ok_inj h
        exact ⟨hinc.1, fun q => by rw [key q]; simp [memAll]⟩
      · split at h
        · -- a FiniteSet among the operands
          rename_i cont rest hfs
          cases ok_inj h
          refine ⟨WF_finiteset _, fun q => ?_⟩
          have hwf := WFL_filter SetE.isFs hinc
          rw [hfs] at hwf
          have hwo := WFL_filter (fun s => !s.isFs) hinc
          rw [key q, memAll_partition incopy SetE.isFs q, hfs, mem_finiteset, List.mem_filter]
          simp only [Bool.and_eq_true, memAll, mem]
          rw [all_contains_iff rest hwf.2 q, all_contains_iff _ hwo q]
          exact (and_assoc).symm
        · split at h
          · -- distribute over the first Union
            rename_i container hfind
            have hit : SetE.un container ∈ incopy := List.mem_of_find?_eq_some hfind
            have hwit : WF (SetE.un container) := (WFL_iff incopy).1 hinc _ hit
            simp only [bind, Except.bind] at h
            split at h
            · simp at h
            · rename_i other hother
              have ho := hr.ni _ other (WFL_erase hinc) hother
              split at h
              · simp at h
              · rename_i usets husets
                have hm := mapE_sem (P := fun c q => mem c q ∧ mem other q)
                  (by simp only [WF] at hwit; exact hwit.2)
                  (fun c y _ hc hcy => ni_pair hr hcy hc ho.1) husets
                have hn := hr.nu _ s ((WFL_mkSS _).2 hm.1) h
                refine ⟨hn.1, fun q => ?_⟩
                rw [hn.2 q, memAny_mkSS, hm.2.1 q, key q, memAll_erase hit q, ho.2 q]
                simp only [mem, memAny_iff]
                constructor
                · rintro ⟨c, hc, h1, h2⟩; exact ⟨⟨c, hc, h1⟩, h2⟩
                · rintro ⟨⟨c, hc, h1⟩, h2⟩; exact ⟨c, hc, h1, h2⟩
          · split at h
            · -- pull the first Complement out
              rename_i uni container hfind
              have hit : SetE.co uni container ∈ incopy := List.mem_of_find?_eq_some hfind
              have hwit : WF (SetE.co uni container) := (WFL_iff incopy).1 hinc _ hit
              simp only [WF] at hwit
              simp only [bind, Except.bind] at h
              split at h
              · simp at h
              · rename_i other hother
                have ho := hr.ni _ other (WFL_insertK (WFL_erase hinc) hwit.1) hother
                have hc := hr.mc container other s hwit.2 ho.1 h
                refine ⟨hc.1, fun q => ?_⟩
                rw [hc.2 q, ho.2 q, key q, memAll_erase hit q]
                simp only [memAll_iff, mem_insertK soundBEq_SetE, forall_eq_or_imp, mem]
                tauto
            · -- pairwise
              split at h
              · have := foldE_mi hr _ _ s hinc.1 hinc.2 h
                exact ⟨this.1, fun q => by rw [this.2 q, key q]; simp [memAll]⟩
              · simp at h

/-! ### all call depths -/

theorem ops_sound : ∀ n, Sound (ops n)
  | 0 => sound_bottom
  | n + 1 => by
    have hr := ops_sound n
    exact ⟨fun a b s ha hb h => muStep_sound hr a b s ha hb h,
      fun a b s ha hb h => miStep_sound hr a b s ha hb h,
      fun a b s ha hb h => mcStep_sound hr a b s ha hb h,
      fun l s hl h => nuStep_sound hr l s hl h,
      fun l s hl h => niStep_sound hr l s hl h⟩

theorem top_sound : Sound top := ops_sound topFuel

end SymVerif.Sets
