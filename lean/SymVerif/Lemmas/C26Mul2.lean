import SymVerif.Lemmas.C26Mul
/-!
Value preservation of `matrix_mul`: extraction of nested products and scalars, zero absorption,
the result.
-/
namespace SymVerif.MatExpr
open MExpr

theorem mkMul_ok {s : GQ} {l : List MExpr} {r : MExpr} (h : mkMul s l = .ok r) : r = mul s l := by
  simp only [mkMul] at h; split at h <;> simp at h; exact h.symm

theorem smul_mul_smul (s t : GQ) (a b : Val) :
    smulV (s * t) (mulV a b) ≃ mulV (smulV s a) (smulV t b) :=
  ⟨rfl, rfl, fun i j _ _ => by
    simp only [mulV, smulV, Finset.mul_sum]
    apply Finset.sum_congr rfl; intro k _; ring⟩

/-! ### the scalar and the matrix factors of an argument vector -/

def scalarsOf : List Factor → GQ
  | [] => 1
  | .scalar q :: rest => q * scalarsOf rest
  | .mat _ :: rest => scalarsOf rest

def matsOf : List Factor → List MExpr
  | [] => []
  | .scalar _ :: rest => matsOf rest
  | .mat e :: rest => e :: matsOf rest

/-- nested MatrixMul factors spliced in -/
def flatL : List MExpr → List MExpr
  | [] => []
  | mul _ fs :: rest => fs ++ flatL rest
  | e :: rest => e :: flatL rest

/-- the product of the scalars of the nested MatrixMul factors -/
def flatS : List MExpr → GQ
  | [] => 1
  | mul s _ :: rest => s * flatS rest
  | _ :: rest => flatS rest

theorem expandMul_eq : ∀ (fs : List Factor) (s : GQ) (acc : List MExpr),
    expandMul fs s acc = (s * scalarsOf fs * flatS (matsOf fs), acc ++ flatL (matsOf fs))
  | [], s, acc => by simp [expandMul, scalarsOf, matsOf, flatS, flatL]
  | .scalar q :: rest, s, acc => by
    rw [expandMul, expandMul_eq rest]
    simp only [scalarsOf, matsOf]
    congr 1; ring
  | .mat e :: rest, s, acc => by
    by_cases hm : ∃ s' gs, e = mul s' gs
    · obtain ⟨s', gs, rfl⟩ := hm
      rw [expandMul, expandMul_eq rest]
      simp only [scalarsOf, matsOf, flatS, flatL, List.append_assoc]
      congr 1; ring
    · have h1 : expandMul (.mat e :: rest) s acc = expandMul rest s (acc ++ [e]) := by
        cases e <;> first | rfl | exact absurd ⟨_, _, rfl⟩ hm
      have h2 : flatL (e :: matsOf rest) = e :: flatL (matsOf rest) := by
        cases e <;> first | rfl | exact absurd ⟨_, _, rfl⟩ hm
      have h3 : flatS (e :: matsOf rest) = flatS (matsOf rest) := by
        cases e <;> first | rfl | exact absurd ⟨_, _, rfl⟩ hm
      rw [h1, expandMul_eq rest]
      simp only [scalarsOf, matsOf, h2, h3, List.append_assoc, List.singleton_append]

/-- the head of a factor list, flattened -/
theorem flat_head (env : Env) (t : MExpr) (hok : okOf env t) :
    ∃ hL hS, (∀ rest, flatL (t :: rest) = hL ++ flatL rest) ∧ (∀ rest, flatS (t :: rest) = hS * flatS rest) ∧
      hL ≠ [] ∧ okAll env hL ∧ ChainOk (valsOf env hL) ∧
      smulV hS (prodV (valsOf env hL)) ≃ valOf env t := by
  by_cases hm : ∃ s' gs, t = mul s' gs
  · obtain ⟨s', gs, rfl⟩ := hm
    exact ⟨gs, s', fun _ => rfl, fun _ => rfl, hok.1, hok.2.1, hok.2.2, Val.Eqv.refl _⟩
  · refine ⟨[t], 1, fun rest => ?_, fun rest => ?_, by simp, ⟨hok, trivial⟩, by simp [valsOf, ChainOk], ?_⟩
    · cases t <;> first | rfl | exact absurd ⟨_, _, rfl⟩ hm
    · cases t <;> first | exact absurd ⟨_, _, rfl⟩ hm | simp [flatS]
    · simpa [valsOf, prodV] using smulV_one (valOf env t)

theorem flatten_spec (env : Env) : ∀ (ms : List MExpr), ms ≠ [] → okAll env ms →
    ChainOk (valsOf env ms) →
    flatL ms ≠ [] ∧ okAll env (flatL ms) ∧ ChainOk (valsOf env (flatL ms)) ∧
      smulV (flatS ms) (prodV (valsOf env (flatL ms))) ≃ prodV (valsOf env ms)
  | [], h, _, _ => absurd rfl h
  | t :: rest, _, hok, hch => by
    obtain ⟨hL, hS, e1, e2, hne, hokL, hchL, hv⟩ := flat_head env t hok.1
    by_cases hr : rest = []
    · subst hr
      rw [e1, e2]
      simp only [flatL, flatS, List.append_nil, mul_one, valsOf_single, prodV_single]
      exact ⟨hne, hokL, hchL, hv⟩
    · have hch' : ChainOk (valsOf env rest) := by
        simp only [valsOf] at hch; exact chainOk_tail hch
      obtain ⟨i1, i2, i3, i4⟩ := flatten_spec env rest hr hok.2 hch'
      have hrv := valsOf_ne_nil (env := env) hr
      -- the link between the head and the rest
      have hlink0 : (valOf env t).c = (prodV (valsOf env rest)).r := by
        have : valsOf env (t :: rest) = [valOf env t] ++ valsOf env rest := by simp [valsOf]
        rw [this] at hch
        have := chainOk_append_link (by simp) hrv hch
        rwa [prodV_single] at this
      have hlink : (prodV (valsOf env hL)).c = (prodV (valsOf env (flatL rest))).r := by
        have a1 : (prodV (valsOf env hL)).c = (valOf env t).c := hv.2.1
        have a2 : (prodV (valsOf env (flatL rest))).r = (prodV (valsOf env rest)).r := i4.1
        rw [a1, a2]; exact hlink0
      have hchA : ChainOk (valsOf env hL ++ valsOf env (flatL rest)) :=
        chainOk_append_of hchL i3 (fun _ _ => hlink)
      rw [e1, e2]
      refine ⟨by simp [hne], (okAll_append _ _ _).2 ⟨hokL, i2⟩, by rw [valsOf_append]; exact hchA, ?_⟩
      rw [valsOf_append]
      have p1 := prodV_append (valsOf_ne_nil hne) (valsOf_ne_nil i1) hchA
      refine (smulV_congr _ p1).trans ?_
      refine (smul_mul_smul _ _ _ _).trans ?_
      have : valsOf env (t :: rest) = valOf env t :: valsOf env rest := by simp [valsOf]
      rw [this]
      obtain ⟨w, rest', hw⟩ := List.exists_cons_of_ne_nil hrv
      rw [hw, prodV_cons_cons, ← hw]
      exact mulV_congr hv i4 (by simpa [smulV] using hlink)

/-! ### the tail of matrix_mul -/

theorem mulFinish_keep (st : MulSt) : mulKeep st = baseL st := by
  cases hdg : st.dg with
  | some d => simp [mulKeep, baseL, pend, hdg]
  | none =>
    cases hdn : st.dn with
    | some x => obtain ⟨r, c, v⟩ := x; simp [mulKeep, baseL, pend, hdg, hdn]
    | none => simp [mulKeep, baseL, pend, hdg, hdn]

theorem mul_node {env : Env} {s : GQ} {L Pr : List MExpr} (hne : L ≠ []) (hok : okAll env L)
    (hch : ChainOk (valsOf env L)) (hv : prodV (valsOf env L) ≃ prodV (valsOf env Pr)) :
    okOf env (mul s L) ∧ valOf env (mul s L) ≃ smulV s (prodV (valsOf env Pr)) :=
  ⟨⟨hne, hok, hch⟩, smulV_congr s hv⟩

theorem mulFinish_spec {env : Env} {s : GQ} {st : MulSt} {Pr : List MExpr} {r : MExpr}
    (h : mulFinish s st = .ok r) (hinv : MulInv env Pr st) (hp : Pr ≠ []) :
    okOf env r ∧ valOf env r ≃ smulV s (prodV (valsOf env Pr)) := by
  obtain ⟨hne, hv⟩ := hinv.val hp
  simp only [mulFinish, mulFinish_keep] at h
  have hsingle : ∀ k, semL st = [k] → (if (s == 1) = true then Except.ok k else mkMul s [k]) = .ok r →
      okOf env r ∧ valOf env r ≃ smulV s (prodV (valsOf env Pr)) := by
    intro k hk h
    have hok := hinv.ok
    rw [hk] at hok hv
    simp only [valsOf_single, prodV_single] at hv
    split at h
    · rename_i hs
      simp at h hs; subst h; subst hs
      exact ⟨hok.1, (smulV_one _).symm.trans (smulV_congr 1 hv)⟩
    · have := mkMul_ok h; subst this
      exact mul_node (by simp) hok (by simp [valsOf, ChainOk]) (by simpa [valsOf, prodV] using hv)
  rcases hb : baseL st with _ | ⟨k, _ | ⟨k', t⟩⟩
  · -- nothing but identities
    rw [hb] at h
    cases hid : st.idn with
    | none =>
      exfalso; apply hne; simp [semL, hb, hid]
    | some n =>
      rw [hid] at h
      exact hsingle (ident n) (by simp [semL, hb, hid]) (by simpa using h)
  · rw [hb] at h
    exact hsingle k (by simp [semL, hb]) (by simpa using h)
  · rw [hb] at h
    have h' : mkMul s (k :: k' :: t) = .ok r := by simpa using h
    have := mkMul_ok h'; subst this
    have hs : semL st = k :: k' :: t := by rw [semL_of_base_ne (by rw [hb]; simp), hb]
    have hok := hinv.ok
    have hch := hinv.chain
    rw [hs] at hok hch hv
    exact mul_node (by simp) hok hch hv

theorem mulInv_init (env : Env) : MulInv env [] {} :=
  ⟨Or.inl rfl, by simp [semL, baseL, pend, okAll], by simp [semL, baseL, pend, valsOf, ChainOk],
    fun _ => by simp [semL, baseL, pend], fun h => absurd rfl h⟩

theorem firstZero_mem : ∀ {l : List MExpr} {a b : Dim}, firstZero l = some (a, b) → zero a b ∈ l
  | [], _, _, h => by simp [firstZero] at h
  | t :: rest, a, b, h => by
    by_cases hz : ∃ x y, t = zero x y
    · obtain ⟨x, y, rfl⟩ := hz
      simp [firstZero] at h
      obtain ⟨rfl, rfl⟩ := h
      simp
    · have : firstZero (t :: rest) = firstZero rest := by
        cases t <;> first | rfl | exact absurd ⟨_, _, rfl⟩ hz
      rw [this] at h
      exact List.mem_cons_of_mem _ (firstZero_mem h)

/-- `matrix_mul` preserves the value: whenever the product of the operands (scalars times the chain
    of the matrix factors) is defined, the result is defined and equal to it -/
theorem matrixMul_value_aux (env : Env) (fs : List Factor) (r : MExpr) (h : matrixMul fs = .ok r)
    (hok : okOf env (mul (scalarsOf fs) (matsOf fs))) :
    okOf env r ∧ valOf env r ≃ valOf env (mul (scalarsOf fs) (matsOf fs)) := by
  obtain ⟨hne, hoks, hch⟩ := hok
  obtain ⟨f1, f2, f3, f4⟩ := flatten_spec env (matsOf fs) hne hoks hch
  -- the general path through the extraction
  have main : ∀ (s : GQ) (expanded : List MExpr),
      expandMul fs 1 [] = (s, expanded) →
      (do
        checkMatchingMulSizes (sizeList expanded)
        match firstZero expanded, mulOuterSize expanded with
        | some _, (some rows, some cols) => pure (zero rows cols)
        | _, _ =>
          let st ← mulLoop expanded {}
          mulFinish s st) = Except.ok r →
      okOf env r ∧ valOf env r ≃ valOf env (mul (scalarsOf fs) (matsOf fs)) := by
    intro s expanded he hrun
    rw [expandMul_eq] at he
    simp only [Prod.mk.injEq, List.nil_append, one_mul] at he
    obtain ⟨hs, hexp⟩ := he
    subst hs; subst hexp
    -- value of the flattened product
    have hflat : smulV (scalarsOf fs * flatS (matsOf fs)) (prodV (valsOf env (flatL (matsOf fs))))
        ≃ valOf env (mul (scalarsOf fs) (matsOf fs)) := by
      simp only [valOf]
      exact (smulV_smulV _ _ _).symm.trans (smulV_congr _ f4)
    simp only [bind_ok] at hrun
    obtain ⟨_, _, hrun⟩ := hrun
    have hgen : (do let st ← mulLoop (flatL (matsOf fs)) {}
                    mulFinish (scalarsOf fs * flatS (matsOf fs)) st) = Except.ok r →
        okOf env r ∧ valOf env r ≃ valOf env (mul (scalarsOf fs) (matsOf fs)) := by
      intro hrun
      simp only [bind_ok] at hrun
      obtain ⟨st, hl, hf⟩ := hrun
      have hinv := mulLoop_spec _ [] _ _ hl (mulInv_init env) f2 (by simpa using f3)
      simp only [List.nil_append] at hinv
      obtain ⟨r1, r2⟩ := mulFinish_spec hf hinv f1
      exact ⟨r1, r2.trans hflat⟩
    split at hrun
    · -- zero absorption with a known size
      rename_i zz rows cols hz hsz
      simp [pure, Except.pure] at hrun
      rw [← hrun]
      obtain ⟨a, b⟩ := zz
      have hmem := firstZero_mem hz
      have hsize := size_sound_aux env (mul 1 (flatL (matsOf fs))) ⟨f1, f2, f3⟩
      have hsz' : size (mul 1 (flatL (matsOf fs))) = (some rows, some cols) := by
        simpa [size, mulOuterSize] using hsz
      have hr := hsize.1 rows (by rw [hsz'])
      have hc := hsize.2 cols (by rw [hsz'])
      simp only [valOf, smulV] at hr hc
      refine ⟨trivial, ?_⟩
      refine Val.Eqv.trans ?_ hflat
      refine ⟨hr, hc, fun i j _ _ => ?_⟩
      have := prodV_zero_mem (l := valsOf env (flatL (matsOf fs))) (z := valOf env (zero a b))
        (by rw [valsOf_eq_map]; exact List.mem_map_of_mem hmem) (fun _ _ => rfl) i j
      simp [valOf, smulV, this]
    · exact hgen hrun
  -- the three shapes of the argument vector
  match fs, h, hne, hoks, hch, f1, f2, f3, f4, main with
  | [], h, _, _, _, _, _, _, _, _ => simp [matrixMul] at h
  | [.mat e], h, _, hoks, _, _, _, _, _, _ =>
    simp [matrixMul] at h; subst h
    refine ⟨hoks.1, ?_⟩
    simp only [scalarsOf, matsOf, valOf, valsOf_single, prodV_single]
    exact (smulV_one _).symm
  | [.scalar q], h, _, _, _, _, _, _, _, _ => simp [matrixMul] at h
  | a :: b :: rest, h, _, _, _, _, _, _, _, main =>
    simp only [matrixMul] at h
    split at h
    · simp at h
    · exact main _ _ rfl h

end SymVerif.MatExpr
