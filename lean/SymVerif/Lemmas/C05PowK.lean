import SymVerif.Lemmas.C05Pow
import SymVerif.Lemmas.C05Div
import Mathlib.Algebra.Group.Int.Even
import Mathlib.Tactic.Ring
/-! Integer powers of the three exact kinds: `Integer::powint / pow_negint`, `Rational::powrat`. -/
namespace SymVerif.C05
open SymVerif.Num

set_option linter.unusedSimpArgs false
set_option linter.unusedVariables false
set_option linter.unusedSectionVars false

variable {F : Type} [FloatOps F]

theorem gv_real (q : Q) : gv q (.ofInt 0) = ((q.toRat : ℚ) : ℂ) := by
  apply Complex.ext <;> simp [gv]

theorem hugeExp_lt : (hugeExp : Int) < (ulongMax : Int) := by decide

/-- `rational_class q(mp_sign(j), mp_abs(j))` is the canonical form of `1/j` -/
theorem signabs_canon {j : Int} (hj : j ≠ 0) : (⟨Int.sign j, j.natAbs⟩ : Q).Canon := by
  refine ⟨Int.natAbs_pos.mpr hj, ?_⟩
  rcases lt_trichotomy j 0 with h | h | h
  · simp [Int.sign_eq_neg_one_of_neg h, Int.gcd]
  · exact absurd h hj
  · simp [Int.sign_eq_one_of_pos h, Int.gcd]

theorem signabs_toRat {j : Int} (hj : j ≠ 0) : (⟨Int.sign j, j.natAbs⟩ : Q).toRat = ((j : ℚ))⁻¹ := by
  have hq : (j : ℚ) ≠ 0 := by exact_mod_cast hj
  rcases lt_trichotomy j 0 with h | h | h
  · simp only [Q.toRat, Int.sign_eq_neg_one_of_neg h, Q.natAbs_q_of_neg h]
    push_cast; field_simp
  · exact absurd h hj
  · simp only [Q.toRat, Int.sign_eq_one_of_pos h, Q.natAbs_q_of_nonneg h.le]
    push_cast; field_simp

/-- `Integer::powint` with a non-negative exponent in the modelled range -/
theorem powint_nonneg (n e : Int) (he : 0 ≤ e) (hs : e.natAbs ≤ hugeExp) :
    powint (F := F) n e = .ok (.int (n ^ e.toNat)) := by
  have h1 : ¬ e < 0 := not_lt.mpr he
  have h2 : ¬ e > (ulongMax : Int) := by
    have : e ≤ (hugeExp : Int) := by omega
    have := hugeExp_lt; omega
  have h3 : ¬ e.toNat > hugeExp := by omega
  simp [powint, powintNonneg, zpow, h1, h2, h3]

theorem powint_nonneg_good (n e : Int) (he : 0 ≤ e) (hs : e.natAbs ≤ hugeExp) :
    ∃ r, powint (F := F) n e = .ok r ∧ Good r ((n : ℂ) ^ e) := by
  refine ⟨_, powint_nonneg n e he hs, rfl, rfl, ?_⟩
  rw [val_int]; congr 1
  obtain ⟨k, rfl⟩ := Int.eq_ofNat_of_zero_le he
  simp

/-- `Integer::pow_negint`: a nonzero integer to a negative power is the canonical `1/n^|e|` -/
theorem powint_neg_good (n e : Int) (hn : n ≠ 0) (he : e < 0) (hs : e.natAbs ≤ hugeExp) :
    ∃ r, powint (F := F) n e = .ok r ∧ Good r ((n : ℂ) ^ e) := by
  have h2 : ¬ (-e) > (ulongMax : Int) := by
    have := hugeExp_lt; omega
  have h3 : ¬ (-e).toNat > hugeExp := by omega
  have hj : n ^ (-e).toNat ≠ 0 := pow_ne_zero _ hn
  refine ⟨fromMpq ⟨Int.sign (n ^ (-e).toNat), (n ^ (-e).toNat).natAbs⟩, ?_, ?_⟩
  · simp [powint, powNegint, powintNonneg, zpow, he, hn, h2, h3]
  · apply fromMpq_good (signabs_canon hj)
    rw [gv_real, signabs_toRat hj]
    have : e = -(((-e).toNat : ℕ) : ℤ) := by omega
    conv_lhs => rw [this]
    rw [zpow_neg, zpow_natCast]
    push_cast; rfl

/-- `0 ** negative` in `Integer::pow_negint` (patched) -/
theorem powint_zero_neg (e : Int) (he : e < 0) : powint (F := F) 0 e = .ok (.infty 0) := by
  simp [powint, powNegint, he]

/-- `Rational::powrat` for a canonical nonzero fraction -/
theorem powrat_good (q : Q) (hq : q.Canon) (hn : q.num ≠ 0) (e : Int) (hs : e.natAbs ≤ hugeExp) :
    ∃ r, powrat (F := F) q e = .ok r ∧ Good r (gv q (.ofInt 0) ^ e) := by
  have h1 : ¬ e.natAbs > ulongMax := by
    have : hugeExp < ulongMax := by decide
    omega
  have h2 : ¬ e.natAbs > hugeExp := by omega
  have hpn : (q.pow e.natAbs).num ≠ 0 := by
    show q.num ^ e.natAbs ≠ 0
    exact pow_ne_zero _ hn
  by_cases he : e < 0
  · refine ⟨fromMpq (q.pow e.natAbs).inv, by simp [powrat, h1, h2, he], ?_⟩
    apply fromMpq_good (Q.inv_canon (Q.pow_canon hq _) hpn)
    rw [gv_real, gv_real, Q.toRat_inv (Q.pow_canon hq _).pos hpn, Q.toRat_pow]
    have : e = -((e.natAbs : ℕ) : ℤ) := by omega
    conv_lhs => rw [this]
    rw [zpow_neg, zpow_natCast]
    push_cast; rfl
  · refine ⟨fromMpq (q.pow e.natAbs), by simp [powrat, h1, h2, he], ?_⟩
    apply fromMpq_good (Q.pow_canon hq _)
    rw [gv_real, gv_real, Q.toRat_pow]
    have : e = ((e.natAbs : ℕ) : ℤ) := by omega
    conv_lhs => rw [this]
    rw [zpow_natCast]
    push_cast; rfl

end SymVerif.C05
