/-
C04 helper lemmas: a sorted association list with canonical non-zero numeric values *is* a finitely
supported function `key ↦ ℚ(i)` (`lk`); two such lists with the same function are equal (`dok_ext`);
`Add::dict_add_term` adds point-wise (`lk_upd`), hence merging is commutative and associative
(`merge_comm`, `merge_assoc`).
-/
import SymVerif.Lemmas.C04Num

namespace SymVerif.AC
open SymVerif SymVerif.Arith

/-! ### find after insert / set / erase -/

theorem keq_comm (a b : Expr) : (key a == key b) = (key b == key a) := by
  rw [Bool.eq_iff_iff]
  constructor <;> intro h <;> (have := key_beq_iff.mp h; subst this; simp)

theorem dfind_cons (k x : Expr) (r : Dict) (u : Expr) :
    dfind ((k, x) :: r) u = if key k == key u then some x else dfind r u := rfl

theorem dfind_tail_none {k v : Expr} {r : Dict} (h : Sorted ((k, v) :: r)) : dfind r k = none := by
  cases hf : dfind r k with
  | none => rfl
  | some x =>
    have hm := dfind_some hf
    have := h.head _ hm
    unfold KLt at this
    simp [lexLt_irrefl] at this

theorem dfind_dinsert : ∀ {d : Dict} {t v : Expr} (u : Expr), dfind d t = none →
    dfind (dinsert d t v) u = if key u == key t then some v else dfind d u
  | [], t, v, u, _ => by
    rw [dinsert, dfind_cons, keq_comm t u]
  | (k, x) :: r, t, v, u, h => by
    rw [dfind_cons] at h
    split at h
    · simp at h
    · rename_i hk
      simp only [dinsert]
      split
      · simp only [dfind_cons, keq_comm t u]
      · rw [dfind_cons, dfind_cons, dfind_dinsert u h]
        by_cases hku : (key k == key u) = true
        · have hut : ¬ (key u == key t) = true := by
            intro hut
            apply hk
            have e1 : key k = key u := by simpa using hku
            have e2 : key u = key t := by simpa using hut
            simp [e1, e2]
          simp [hku, hut]
        · simp [hku]

theorem dfind_dset : ∀ (d : Dict) (t v u : Expr),
    dfind (dset d t v) u = if key u == key t then (dfind d t).map (fun _ => v) else dfind d u
  | [], t, v, u => by simp [dset, dfind]
  | (k, x) :: r, t, v, u => by
    simp only [dset]
    by_cases hkt : (key k == key t) = true
    · simp only [hkt, if_true, dfind_cons, Option.map_some]
      have e1 : key k = key t := by simpa using hkt
      by_cases hut : (key u == key t) = true
      · have e2 : key u = key t := by simpa using hut
        simp [e1, e2]
      · have : ¬ (key t == key u) = true := by rw [keq_comm]; exact hut
        simp [hut, e1, this]
    · simp only [hkt, if_false, Bool.false_eq_true, dfind_cons]
      rw [dfind_dset r t v u]
      by_cases hku : (key k == key u) = true
      · have hut : ¬ (key u == key t) = true := by
          intro hut
          apply hkt
          have e1 : key k = key u := by simpa using hku
          have e2 : key u = key t := by simpa using hut
          simp [e1, e2]
        simp [hku, hut]
      · simp [hku]

theorem dfind_derase : ∀ {d : Dict} (t u : Expr), Sorted d →
    dfind (derase d t) u = if key u == key t then none else dfind d u
  | [], t, u, _ => by simp [derase, dfind]
  | (k, x) :: r, t, u, hs => by
    simp only [derase]
    by_cases hkt : (key k == key t) = true
    · simp only [hkt, if_true, dfind_cons]
      have e1 : k = t := key_beq_iff.mp hkt
      subst e1
      by_cases hut : (key u == key k) = true
      · have e2 : u = k := key_beq_iff.mp hut
        subst e2
        simp [dfind_tail_none hs]
      · have : ¬ (key k == key u) = true := by rw [keq_comm]; exact hut
        simp [hut, this]
    · simp only [hkt, if_false, Bool.false_eq_true, dfind_cons]
      rw [dfind_derase t u hs.tail]
      by_cases hku : (key k == key u) = true
      · have hut : ¬ (key u == key t) = true := by
          intro hut
          apply hkt
          have e1 : key k = key u := by simpa using hku
          have e2 : key u = key t := by simpa using hut
          simp [e1, e2]
        simp [hku, hut]
      · simp [hku]

/-! ### extensionality of sorted dictionaries -/

theorem dfind_ext : ∀ {d₁ d₂ : Dict}, Sorted d₁ → Sorted d₂ → (∀ t, dfind d₁ t = dfind d₂ t) → d₁ = d₂
  | [], [], _, _, _ => rfl
  | [], (k, v) :: r, _, _, h => by
    have := h k
    simp [dfind] at this
  | (k, v) :: r, [], _, _, h => by
    have := h k
    simp [dfind] at this
  | (k₁, v₁) :: r₁, (k₂, v₂) :: r₂, h1, h2, h => by
    have hk : k₁ = k₂ := by
      have a1 : dfind ((k₂, v₂) :: r₂) k₁ = some v₁ := by rw [← h k₁]; simp [dfind]
      have a2 : dfind ((k₁, v₁) :: r₁) k₂ = some v₂ := by rw [h k₂]; simp [dfind]
      have m1 := dfind_some a1
      have m2 := dfind_some a2
      rcases List.mem_cons.mp m1 with e | m1
      · exact (Prod.mk.inj e).1
      · rcases List.mem_cons.mp m2 with e | m2
        · exact ((Prod.mk.inj e).1).symm
        · have l1 := h2.head _ m1
          have l2 := h1.head _ m2
          unfold KLt at l1 l2
          simp only at l1 l2
          rw [lexLt_asymm l1] at l2
          exact absurd l2 (by simp)
    subst hk
    have hv : v₁ = v₂ := by
      have := h k₁
      simpa [dfind] using this
    subst hv
    have ht : ∀ t, dfind r₁ t = dfind r₂ t := by
      intro t
      by_cases hkt : (key k₁ == key t) = true
      · have e : k₁ = t := key_beq_iff.mp hkt
        subst e
        rw [dfind_tail_none h1, dfind_tail_none h2]
      · have := h t
        simpa [dfind, hkt] using this
    rw [dfind_ext h1.tail h2.tail ht]

/-! ### dictionaries as finitely supported functions -/

/-- the value at key `t` (0 when absent) -/
noncomputable def lk (d : Dict) (t : Expr) : ℚ × ℚ :=
  match dfind d t with
  | some v => gq v
  | none => 0

/-- sorted, values canonical exact numbers, no zero value -/
def DOK (d : Dict) : Prop := Sorted d ∧ ∀ p ∈ d, ExOK p.2 ∧ gq p.2 ≠ 0

theorem DOK.nil : DOK [] := ⟨List.Pairwise.nil, by simp⟩

theorem dok_ext {d₁ d₂ : Dict} (h1 : DOK d₁) (h2 : DOK d₂) (h : ∀ t, lk d₁ t = lk d₂ t) : d₁ = d₂ := by
  apply dfind_ext h1.1 h2.1
  intro t
  have := h t
  unfold lk at this
  cases f1 : dfind d₁ t with
  | none =>
    cases f2 : dfind d₂ t with
    | none => rfl
    | some v₂ =>
      rw [f1, f2] at this
      exact absurd this.symm (h2.2 _ (dfind_some f2)).2
  | some v₁ =>
    cases f2 : dfind d₂ t with
    | none =>
      rw [f1, f2] at this
      exact absurd this (h1.2 _ (dfind_some f1)).2
    | some v₂ =>
      rw [f1, f2] at this
      have e : v₁ = v₂ := gq_inj (h1.2 _ (dfind_some f1)).1 (h2.2 _ (dfind_some f2)).1 this
      rw [e]

/-- `Add::dict_add_term(d, c, t)` as a pure function -/
noncomputable def upd (d : Dict) (c t : Expr) : Dict :=
  match dfind d t with
  | none => if !numIsZero c then dinsert d t c else d
  | some v =>
    if numIsZero (ofG (gq v + gq c)) then derase d t else dset d t (ofG (gq v + gq c))

theorem addDictAddTerm_eq {d : Dict} {c : Expr} (t : Expr) (hd : DOK d) (hc : ExOK c) :
    addDictAddTerm d c t = .ok (upd d c t) := by
  unfold addDictAddTerm upd
  cases hf : dfind d t with
  | none => rfl
  | some v =>
    simp only []
    rw [numAdd_eq (hd.2 _ (dfind_some hf)).1 hc]
    rfl

theorem upd_DOK {d : Dict} {c : Expr} (t : Expr) (hd : DOK d) (hc : ExOK c) : DOK (upd d c t) := by
  unfold upd
  cases hf : dfind d t with
  | none =>
    simp only []
    split
    · rename_i hz
      refine ⟨sorted_dinsert hd.1, ?_⟩
      intro p hp
      rcases mem_dinsert hp with rfl | hp
      · refine ⟨hc, ?_⟩
        intro h0
        rw [← numIsZero_iff hc] at h0
        simp [h0] at hz
      · exact hd.2 p hp
    · exact hd
  | some v =>
    simp only []
    split
    · exact ⟨sorted_derase hd.1, fun p hp => hd.2 p (mem_derase hp)⟩
    · rename_i hz
      refine ⟨sorted_dset hd.1, ?_⟩
      intro p hp
      rcases mem_dset hp with rfl | hp
      · refine ⟨exOK_ofG _, ?_⟩
        intro h0
        apply hz
        rw [numIsZero_iff (exOK_ofG _)]
        exact h0
      · exact hd.2 p hp

theorem lk_upd {d : Dict} {c : Expr} (t u : Expr) (hd : DOK d) (hc : ExOK c) :
    lk (upd d c t) u = lk d u + (if key u == key t then gq c else 0) := by
  unfold upd
  cases hf : dfind d t with
  | none =>
    simp only []
    split
    · unfold lk
      rw [dfind_dinsert u hf]
      by_cases hut : (key u == key t) = true
      · have e : u = t := key_beq_iff.mp hut
        subst e
        simp [hf]
      · simp [hut]
    · rename_i hz
      have hz' : numIsZero c = true := by simpa using hz
      rw [numIsZero_iff hc] at hz'
      simp [hz']
  | some v =>
    simp only []
    split
    · rename_i hz
      rw [numIsZero_iff (exOK_ofG _), gq_ofG] at hz
      unfold lk
      rw [dfind_derase t u hd.1]
      by_cases hut : (key u == key t) = true
      · have e : u = t := key_beq_iff.mp hut
        subst e
        simp [hf, hz]
      · simp [hut]
    · unfold lk
      rw [dfind_dset]
      by_cases hut : (key u == key t) = true
      · have e : u = t := key_beq_iff.mp hut
        subst e
        simp [hf, gq_ofG]
      · simp [hut]

/-! ### merging: `for (p : b) dict_add_term(d, p.second, p.first)` -/

noncomputable def merge (d : Dict) : Dict → Dict
  | [] => d
  | (k, v) :: r => merge (upd d v k) r

/-- values are canonical exact numbers -/
def ValsOK (l : Dict) : Prop := ∀ p ∈ l, ExOK p.2

theorem DOK.vals {d : Dict} (h : DOK d) : ValsOK d := fun p hp => (h.2 p hp).1

theorem addMergeLoop_eq : ∀ {d : Dict} (l : Dict), DOK d → ValsOK l → addMergeLoop d l = .ok (merge d l)
  | _, [], _, _ => rfl
  | d, (k, v) :: r, hd, hl => by
    have hv : ExOK v := hl (k, v) List.mem_cons_self
    simp only [addMergeLoop, merge, addDictAddTerm_eq k hd hv]
    exact addMergeLoop_eq r (upd_DOK k hd hv) (fun p hp => hl p (List.mem_cons_of_mem _ hp))

theorem merge_DOK : ∀ {d : Dict} (l : Dict), DOK d → ValsOK l → DOK (merge d l)
  | _, [], hd, _ => hd
  | d, (k, v) :: r, hd, hl =>
    merge_DOK r (upd_DOK k hd (hl (k, v) List.mem_cons_self))
      (fun p hp => hl p (List.mem_cons_of_mem _ hp))

/-- the contribution of a list of (key, value) pairs at key `u` -/
noncomputable def contrib (l : Dict) (u : Expr) : ℚ × ℚ :=
  (l.map (fun p => if key u == key p.1 then gq p.2 else 0)).sum

theorem lk_merge_contrib : ∀ {d : Dict} (l : Dict) (u : Expr), DOK d → ValsOK l →
    lk (merge d l) u = lk d u + contrib l u
  | _, [], _, _, _ => by simp [merge, contrib]
  | d, (k, v) :: r, u, hd, hl => by
    have hv : ExOK v := hl (k, v) List.mem_cons_self
    simp only [merge]
    rw [lk_merge_contrib r u (upd_DOK k hd hv) (fun p hp => hl p (List.mem_cons_of_mem _ hp)),
      lk_upd k u hd hv]
    simp [contrib, add_assoc]

theorem contrib_perm {l₁ l₂ : Dict} (h : l₁.Perm l₂) (u : Expr) : contrib l₁ u = contrib l₂ u :=
  (h.map _).sum_eq

theorem contrib_append (l₁ l₂ : Dict) (u : Expr) : contrib (l₁ ++ l₂) u = contrib l₁ u + contrib l₂ u := by
  simp [contrib]

/-- in a sorted dictionary the contribution at `u` is the value at `u` -/
theorem contrib_sorted : ∀ {l : Dict} (u : Expr), Sorted l → contrib l u = lk l u
  | [], u, _ => by simp [contrib, lk, dfind]
  | (k, v) :: r, u, hs => by
    have ih := contrib_sorted u hs.tail
    unfold contrib at ih ⊢
    simp only [List.map_cons, List.sum_cons, ih]
    unfold lk
    rw [dfind_cons]
    by_cases hku : (key k == key u) = true
    · have e : k = u := key_beq_iff.mp hku
      subst e
      simp [dfind_tail_none hs]
    · have : ¬ (key u == key k) = true := by rw [keq_comm]; exact hku
      simp [hku, this]

theorem lk_merge {d₁ d₂ : Dict} (u : Expr) (h1 : DOK d₁) (h2 : DOK d₂) :
    lk (merge d₁ d₂) u = lk d₁ u + lk d₂ u := by
  rw [lk_merge_contrib d₂ u h1 h2.vals, contrib_sorted u h2.1]

theorem merge_comm {d₁ d₂ : Dict} (h1 : DOK d₁) (h2 : DOK d₂) : merge d₁ d₂ = merge d₂ d₁ := by
  apply dok_ext (merge_DOK _ h1 h2.vals) (merge_DOK _ h2 h1.vals)
  intro t
  rw [lk_merge t h1 h2, lk_merge t h2 h1, add_comm]

theorem merge_assoc {d₁ d₂ d₃ : Dict} (h1 : DOK d₁) (h2 : DOK d₂) (h3 : DOK d₃) :
    merge (merge d₁ d₂) d₃ = merge d₁ (merge d₂ d₃) := by
  have h12 := merge_DOK _ h1 h2.vals
  have h23 := merge_DOK _ h2 h3.vals
  apply dok_ext (merge_DOK _ h12 h3.vals) (merge_DOK _ h1 h23.vals)
  intro t
  rw [lk_merge t h12 h3, lk_merge t h1 h2, lk_merge t h1 h23, lk_merge t h2 h3, add_assoc]

theorem merge_nil_left {d : Dict} (h : DOK d) : merge [] d = d := by
  apply dok_ext (merge_DOK _ DOK.nil h.vals) h
  intro t
  rw [lk_merge t DOK.nil h]
  simp [lk, dfind]

/-- merging any list of canonical (key, value) pairs only depends on the multiset -/
theorem merge_perm {d : Dict} {l₁ l₂ : Dict} (hd : DOK d) (h1 : ValsOK l₁) (hp : l₁.Perm l₂) :
    merge d l₁ = merge d l₂ := by
  have h2 : ValsOK l₂ := fun p hp' => h1 p (hp.mem_iff.mpr hp')
  apply dok_ext (merge_DOK _ hd h1) (merge_DOK _ hd h2)
  intro t
  rw [lk_merge_contrib l₁ t hd h1, lk_merge_contrib l₂ t hd h2, contrib_perm hp]

end SymVerif.AC
