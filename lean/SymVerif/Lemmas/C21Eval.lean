import SymVerif.Lemmas.C21Ops

/-! C21: `operator*=`, evaluation, differentiation, `pow`. -/
set_option linter.unusedSectionVars false
open Polynomial
namespace SymVerif.C21
open SymVerif.UPoly

variable {R : Type} [CommRing R] [DecidableEq R]

/-- what the generic theorems need to know about a `Wrapper::mul` -/
def MulOK (mul : Dict R → Dict R → Except Err (Dict R)) : Prop :=
  ∀ a b, Canon a → Canon b → ∃ r, mul a b = .ok r ∧ Canon r ∧ toPoly r = toPoly a * toPoly b

theorem gmul_ok : MulOK (gmul : Dict R → Dict R → Except Err (Dict R)) := by
  intro a b ha hb
  exact ⟨mulGeneric a b, rfl, canon_mulGeneric ha hb, toPoly_mulGeneric a b⟩

/-! ### `operator*=` -/

theorem mulAssign_ok [NoZeroDivisors R] {mul : Dict R → Dict R → Except Err (Dict R)} (hmul : MulOK mul) :
    MulOK (mulAssign mul) := by
  intro a b ha hb
  unfold mulAssign
  split
  · rename_i h
    refine ⟨a, rfl, ha, ?_⟩
    simp [List.isEmpty_iff.1 h]
  · split
    · rename_i h
      refine ⟨[], rfl, canon_nil, ?_⟩
      simp [List.isEmpty_iff.1 h]
    · split
      · rename_i c _
        have hc : c ≠ 0 := (noZero_cons.1 hb.2).1
        refine ⟨_, rfl, canon_scale ha hc, ?_⟩
        rw [toPoly_scale]; simp [monomial_zero_left]
      · exact hmul a b ha hb

/-! ### evaluation -/

theorem rpow_eq (x : R) (n : Nat) : rpow x n = x ^ n := by
  induction n with
  | zero => simp [rpow]
  | succ n ih => simp [rpow, ih, pow_succ]

/-- descending keys (the reverse iteration order) -/
def Desc (l : List (Nat × R)) : Prop := l.Pairwise (fun p q => q.1 < p.1)

theorem evalLoop_spec (x : R) (l : List (Nat × R)) (last : Nat) (res : R)
    (hd : Desc l) (hl : ∀ q ∈ l, q.1 ≤ last) :
    evalLoop x l last res = res * x ^ last + (l.map (fun p => p.2 * x ^ p.1)).sum := by
  induction l generalizing last res with
  | nil => simp [evalLoop, rpow_eq]
  | cons p t ih =>
    obtain ⟨k, c⟩ := p
    have ⟨h1, h2⟩ := List.pairwise_cons.1 hd
    have hk : k ≤ last := hl (k, c) List.mem_cons_self
    simp only [evalLoop]
    rw [ih k _ h2 (fun q hq => Nat.le_of_lt (h1 q hq)), rpow_eq]
    simp only [List.map_cons, List.sum_cons]
    have : x ^ (last - k) * x ^ k = x ^ last := by rw [← pow_add, Nat.sub_add_cancel hk]
    calc (c + x ^ (last - k) * res) * x ^ k + (t.map (fun p => p.2 * x ^ p.1)).sum
        = res * (x ^ (last - k) * x ^ k) + (c * x ^ k + (t.map (fun p => p.2 * x ^ p.1)).sum) := by ring
      _ = _ := by rw [this]

theorem eval_toPoly (d : Dict R) (x : R) :
    (toPoly d).eval x = (d.map (fun p => p.2 * x ^ p.1)).sum := by
  induction d with
  | nil => simp
  | cons p t ih => simp [ih, eval_monomial]

theorem desc_reverse {d : Dict R} (hs : Sorted d) : Desc d.reverse := by
  unfold Desc
  rw [List.pairwise_reverse]
  exact hs

/-- `USymEnginePoly::eval` (as repaired) is polynomial evaluation, and never fails -/
theorem eval_spec {d : Dict R} (hs : Sorted d) (x : R) :
    UPoly.eval d x = .ok ((toPoly d).eval x) := by
  unfold UPoly.eval evalWith
  split
  · rename_i h
    have : d = [] := by simpa using h
    subst this; simp
  · rename_i k c t h
    have hdesc := desc_reverse hs
    rw [h] at hdesc
    have hle : ∀ q ∈ (k, c) :: t, q.1 ≤ k := by
      intro q hq
      rcases List.mem_cons.1 hq with h' | h'
      · rw [h']
      · exact Nat.le_of_lt ((List.pairwise_cons.1 hdesc).1 q h')
    rw [evalLoop_spec x _ k 0 hdesc hle, eval_toPoly]
    have : (d.map (fun p => p.2 * x ^ p.1)).sum = (d.reverse.map (fun p => p.2 * x ^ p.1)).sum := by
      rw [List.map_reverse, List.sum_reverse]
    rw [this, h]; simp

/-! ### differentiation -/

theorem diff_fold_spec (a : Dict R) (d : Dict R)
    (hs : Sorted a) (hd : Sorted d) (hlt : ∀ q ∈ d, ∀ p ∈ a, q.1 + 1 < p.1 ∨ p.1 = 0 ∧ False) :
    let r := a.foldl (fun d p => if p.1 ≠ 0 then setKey d (p.1 - 1) (p.2 * (p.1 : R)) else d) d
    Sorted r ∧ toPoly r = toPoly d + derivative (toPoly a) := by
  induction a generalizing d with
  | nil => simp [hd]
  | cons p t ih =>
    obtain ⟨k, c⟩ := p
    have ⟨h1, h2⟩ := sorted_cons.1 hs
    simp only [List.foldl_cons]
    by_cases hk : k = 0
    · subst hk
      simp only [ne_eq, not_true_eq_false, if_false]
      have := ih d h2 hd (fun q hq p hp => hlt q hq p (List.mem_cons_of_mem _ hp))
      refine ⟨this.1, ?_⟩
      rw [this.2]; simp
    · simp only [ne_eq, hk, not_false_eq_true, if_true]
      have hall : ∀ q ∈ d, q.1 < k - 1 := by
        intro q hq
        rcases hlt q hq (k, c) List.mem_cons_self with h | ⟨_, h⟩
        · simp only at h; omega
        · exact absurd h id
      rw [setKey_append hall]
      have hs' : Sorted (d ++ [(k - 1, c * (k : R))]) := sorted_append_single hd hall
      have hlt' : ∀ q ∈ d ++ [(k - 1, c * (k : R))], ∀ p ∈ t, q.1 + 1 < p.1 ∨ p.1 = 0 ∧ False := by
        intro q hq p hp
        left
        have hkp : k < p.1 := h1 p hp
        rcases List.mem_append.1 hq with h | h
        · have := hall q h; omega
        · simp at h; rw [h]; simp only; omega
      have := ih _ h2 hs' hlt'
      refine ⟨this.1, ?_⟩
      rw [this.2, toPoly_append]
      simp only [toPoly_cons, toPoly_nil, add_zero, map_add, derivative_monomial]
      ring

/-- `diff_upoly` computes the formal derivative and returns a canonical dictionary -/
theorem diff_spec {a : Dict R} (hs : Sorted a) :
    toPoly (UPoly.diff a) = derivative (toPoly a) ∧ Canon (UPoly.diff a) := by
  have := diff_fold_spec a [] hs sorted_nil (by intro q hq; cases hq)
  unfold UPoly.diff
  refine ⟨?_, canon_fromMap this.1⟩
  rw [toPoly_fromMap, this.2]; simp

/-! ### `ODictWrapper::pow` -/

theorem canon_one [Nontrivial R] : Canon (one : Dict R) := by
  constructor
  · simp [one, Sorted]
  · intro p hp; simp [one] at hp; rw [hp]; exact one_ne_zero

theorem toPoly_one : toPoly (one : Dict R) = 1 := by
  simp [one, monomial_zero_left]

theorem powLoop_spec {mul : Dict R → Dict R → Except Err (Dict R)} (hmul : MulOK mul)
    (p : Nat) : ∀ (tmp res : Dict R), 1 ≤ p → Canon tmp → Canon res →
    ∃ t' r', powLoop mul tmp res p = .ok (t', r') ∧ Canon t' ∧ Canon r' ∧
      toPoly r' * toPoly t' = toPoly res * toPoly tmp ^ p := by
  induction p using Nat.strong_induction_on with
  | _ p ih =>
    intro tmp res hp ht hr
    rw [powLoop]
    by_cases h1 : p = 1
    · subst h1
      exact ⟨tmp, res, by simp, ht, hr, by simp⟩
    · have h0 : p ≠ 0 := by omega
      simp only [h1, h0, dite_false]
      obtain ⟨t2, ht2, hct2, hpt2⟩ := hmul tmp tmp ht ht
      have hlt : p / 2 < p := by omega
      have hge : 1 ≤ p / 2 := by omega
      by_cases hev : p % 2 = 0
      · simp only [hev, if_true, ht2]
        obtain ⟨t', r', h, hc1, hc2, hpoly⟩ := ih (p / 2) hlt t2 res hge hct2 hr
        refine ⟨t', r', h, hc1, hc2, ?_⟩
        rw [hpoly, hpt2, ← pow_two, ← pow_mul]
        congr 2; omega
      · simp only [hev, if_false]
        obtain ⟨r2, hr2, hcr2, hpr2⟩ := hmul res tmp hr ht
        simp only [hr2, ht2]
        obtain ⟨t', r', h, hc1, hc2, hpoly⟩ := ih (p / 2) hlt t2 r2 hge hct2 hcr2
        refine ⟨t', r', h, hc1, hc2, ?_⟩
        rw [hpoly, hpt2, hpr2, ← pow_two, ← pow_mul, mul_assoc, ← pow_succ']
        congr 2; omega

/-- `ODictWrapper::pow` (as repaired) terminates for every exponent, never fails, and computes the power -/
theorem pow_spec [Nontrivial R] {mul : Dict R → Dict R → Except Err (Dict R)} (hmul : MulOK mul)
    {a : Dict R} (ha : Canon a) (p : Nat) :
    ∃ r, UPoly.pow mul a p = .ok r ∧ Canon r ∧ toPoly r = toPoly a ^ p := by
  unfold UPoly.pow powWith
  by_cases h0 : p = 0
  · subst h0
    exact ⟨one, by simp, canon_one, by simp [toPoly_one]⟩
  · have : (true && p == 0) = false := by simp [h0]
    simp only [this]
    obtain ⟨t', r', h, hc1, hc2, hpoly⟩ := powLoop_spec hmul p a one (by omega) ha canon_one
    simp only [h]
    obtain ⟨r, hr, hcr, hpr⟩ := hmul r' t' hc2 hc1
    exact ⟨r, by simpa using hr, hcr, by rw [hpr, hpoly, toPoly_one, one_mul]⟩

/-- the code as found: `pow(a, 0)` never leaves the loop -/
theorem powOrig_zero_hangs (mul : Dict R → Dict R → Except Err (Dict R)) (a : Dict R) :
    powWith false mul a 0 = .error .hang := by
  unfold powWith
  rw [powLoop]
  simp

end SymVerif.C21
