/-
C10: chain rule for every function of the real fragment (`fn_correct`): the outer derivatives coded in
`Diff.fprime` are the derivatives of the real functions `fnR`.
-/
import SymVerif.Lemmas.C10Real

namespace SymVerif
namespace C10
open SymVerif Expr Diff

@[simp] theorem powV_rat (bv : ℝ) (n : Int) (d : Nat) (ev : ℝ) : powV bv (.rat n d) ev = bv ^ ev := rfl

section Fn
variable (x : String) (ρ : String → ℝ)

theorem fn_correct (h : String) (a : Expr)
    (ha : HasDerivAt (fun t => evalR (upd ρ x t) a) (evalR ρ (diffE x a)) (ρ x))
    (hok : FnOk h (evalR ρ a)) :
    HasDerivAt (fun t => fnR h (evalR (upd ρ x t) a)) (evalR ρ (appRule x h [a] [diffE x a])) (ρ x) := by
  have ha0 : evalR (upd ρ x (ρ x)) a = evalR ρ a := by rw [upd_self]
  have hs2 := Real.sin_sq_add_cos_sq (evalR ρ a)
  have hc2 := Real.cosh_sq_sub_sinh_sq (evalR ρ a)
  have hcp := Real.cosh_pos (evalR ρ a)
  unfold FnOk at hok
  split at hok
  · -- Sin
    simp only [fnR]
    have hz := ha.sin
    rw [ha0] at hz
    refine hz.congr_deriv ?_
    simp [appRule, fprime, prod, fn1, evalR, evalFacsR, fnR]
  · -- Cos
    simp only [fnR]
    have hz := ha.cos
    rw [ha0] at hz
    refine hz.congr_deriv ?_
    simp [appRule, fprime, prod, fn1, evalR, evalFacsR, fnR]
  · -- Tan
    simp only [fnR]
    have hz0 := (Real.hasDerivAt_tan (x := evalR (upd ρ x (ρ x)) a) (by rw [ha0]; exact hok)).comp (ρ x) ha
    have hz : HasDerivAt (fun t => Real.tan (evalR (upd ρ x t) a))
        (1 / Real.cos (evalR (upd ρ x (ρ x)) a) ^ 2 * evalR ρ (diffE x a)) (ρ x) := hz0
    rw [ha0] at hz
    have e1 : 1 / Real.cos (evalR ρ a) ^ 2 = 1 + Real.tan (evalR ρ a) ^ 2 := by
      rw [← Real.inv_one_add_tan_sq hok]; simp
    rw [e1] at hz
    refine hz.congr_deriv ?_
    simp [appRule, fprime, prod, fn1, Diff.sq, onePlus, evalR, evalFacsR, evalTermsR, fnR]
  · -- Cot
    simp only [fnR]
    have hz := ha.cos.fun_div ha.sin (by rw [ha0]; exact hok)
    rw [ha0] at hz
    refine hz.congr_deriv ?_
    simp [appRule, fprime, prod, fn1, Diff.sq, onePlus, evalR, evalFacsR, evalTermsR, fnR]
    field_simp
    ring
  · -- Sec
    simp only [fnR]
    have hz : HasDerivAt (fun t => (Real.cos (evalR (upd ρ x t) a))⁻¹) _ (ρ x) :=
      ha.cos.inv (by rw [ha0]; exact hok)
    rw [ha0] at hz
    refine hz.congr_deriv ?_
    simp [appRule, fprime, prod, fn1, evalR, evalFacsR, fnR, Real.tan_eq_sin_div_cos]
    field_simp
  · -- Csc
    simp only [fnR]
    have hz : HasDerivAt (fun t => (Real.sin (evalR (upd ρ x t) a))⁻¹) _ (ρ x) :=
      ha.sin.inv (by rw [ha0]; exact hok)
    rw [ha0] at hz
    refine hz.congr_deriv ?_
    simp [appRule, fprime, prod, fn1, evalR, evalFacsR, fnR]
    field_simp
  · -- ASin
    simp only [fnR]
    have hpos : 0 < 1 - evalR ρ a ^ 2 := by nlinarith [hok.1, hok.2]
    have hz0 := (Real.hasDerivAt_arcsin (x := evalR (upd ρ x (ρ x)) a) (by rw [ha0]; exact hok.1.ne')
      (by rw [ha0]; exact hok.2.ne)).comp (ρ x) ha
    have hz : HasDerivAt (fun t => Real.arcsin (evalR (upd ρ x t) a))
        (1 / √(1 - evalR (upd ρ x (ρ x)) a ^ 2) * evalR ρ (diffE x a)) (ρ x) := hz0
    rw [ha0, one_div, ← rpow_neg_half hpos] at hz
    refine hz.congr_deriv ?_
    simp [appRule, fprime, prod, fn1, Diff.sq, oneMinus, halfNeg, evalR, evalFacsR, evalTermsR, fnR]
    left; congr 1 <;> ring
  · -- ACos
    simp only [fnR]
    have hpos : 0 < 1 - evalR ρ a ^ 2 := by nlinarith [hok.1, hok.2]
    have hz0 := (Real.hasDerivAt_arccos (x := evalR (upd ρ x (ρ x)) a) (by rw [ha0]; exact hok.1.ne')
      (by rw [ha0]; exact hok.2.ne)).comp (ρ x) ha
    have hz : HasDerivAt (fun t => Real.arccos (evalR (upd ρ x t) a))
        (-(1 / √(1 - evalR (upd ρ x (ρ x)) a ^ 2)) * evalR ρ (diffE x a)) (ρ x) := hz0
    rw [ha0, one_div, ← rpow_neg_half hpos] at hz
    refine hz.congr_deriv ?_
    simp [appRule, fprime, prod, fn1, Diff.sq, oneMinus, halfNeg, evalR, evalFacsR, evalTermsR, fnR]
    left; congr 1 <;> ring
  · -- ATan
    simp only [fnR]
    have hz := ha.arctan
    rw [ha0] at hz
    refine hz.congr_deriv ?_
    simp [appRule, fprime, prod, fn1, Diff.sq, onePlus, evalR, evalFacsR, evalTermsR, fnR]
  · -- Sinh
    simp only [fnR]
    have hz := ha.sinh
    rw [ha0] at hz
    refine hz.congr_deriv ?_
    simp [appRule, fprime, prod, fn1, evalR, evalFacsR, fnR]
  · -- Cosh
    simp only [fnR]
    have hz := ha.cosh
    rw [ha0] at hz
    refine hz.congr_deriv ?_
    simp [appRule, fprime, prod, fn1, evalR, evalFacsR, fnR]
  · -- Tanh
    simp only [fnR]
    have hz := ha.sinh.fun_div ha.cosh (by rw [ha0]; exact hcp.ne')
    rw [ha0] at hz
    refine hz.congr_deriv ?_
    simp [appRule, fprime, prod, fn1, Diff.sq, oneMinus, evalR, evalFacsR, evalTermsR, fnR]
    field_simp
    ring
  · -- Coth
    simp only [fnR]
    have hz := ha.cosh.fun_div ha.sinh (by rw [ha0]; exact hok)
    rw [ha0] at hz
    refine hz.congr_deriv ?_
    simp [appRule, fprime, prod, fn1, evalR, evalFacsR, fnR]
    field_simp
    linear_combination (-(evalR ρ (diffE x a))) * hc2
  · -- Sech
    simp only [fnR]
    have hz : HasDerivAt (fun t => (Real.cosh (evalR (upd ρ x t) a))⁻¹) _ (ρ x) :=
      ha.cosh.inv (by rw [ha0]; exact hcp.ne')
    rw [ha0] at hz
    refine hz.congr_deriv ?_
    simp [appRule, fprime, prod, fn1, evalR, evalFacsR, fnR]
    field_simp
  · -- Csch
    simp only [fnR]
    have hz : HasDerivAt (fun t => (Real.sinh (evalR (upd ρ x t) a))⁻¹) _ (ρ x) :=
      ha.sinh.inv (by rw [ha0]; exact hok)
    rw [ha0] at hz
    refine hz.congr_deriv ?_
    simp [appRule, fprime, prod, fn1, evalR, evalFacsR, fnR]
    field_simp
  · -- ASinh
    simp only [fnR]
    have hpos : 0 < 1 + evalR ρ a ^ 2 := by positivity
    have hz := ha.arsinh
    rw [ha0, ← rpow_neg_half hpos] at hz
    refine hz.congr_deriv ?_
    simp [appRule, fprime, prod, fn1, Diff.sq, onePlus, halfNeg, evalR, evalFacsR, evalTermsR, fnR]
    all_goals (try simp)
  · -- ACosh
    simp only [fnR]
    have hpos : 0 < evalR ρ a ^ 2 - 1 := by nlinarith [hok]
    have hz0 := (Real.hasDerivAt_arcosh (x := evalR (upd ρ x (ρ x)) a) (by rw [ha0]; exact hok)).comp (ρ x) ha
    have hz : HasDerivAt (fun t => Real.arcosh (evalR (upd ρ x t) a))
        ((√(evalR (upd ρ x (ρ x)) a ^ 2 - 1))⁻¹ * evalR ρ (diffE x a)) (ρ x) := hz0
    rw [ha0, ← rpow_neg_half hpos] at hz
    refine hz.congr_deriv ?_
    simp [appRule, fprime, prod, fn1, Diff.sq, minusOnePlus, halfNeg, evalR, evalFacsR, evalTermsR, fnR]
    left; congr 1 <;> ring
  · -- Log
    simp only [fnR]
    have hz := ha.log (by rw [ha0]; exact hok)
    rw [ha0] at hz
    refine hz.congr_deriv ?_
    simp [appRule, fprime, prod, fn1, evalR, evalFacsR, fnR]
    field_simp
  · exact absurd hok id

end Fn
end C10
end SymVerif
