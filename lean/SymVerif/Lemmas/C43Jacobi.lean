import Mathlib.NumberTheory.LegendreSymbol.JacobiSymbol
import SymVerif.Model.MpSpec
import SymVerif.Model.MpBoost
/-! C43, Jacobi symbol: the specification's binary algorithm and `unchecked_jacobi` of mp_boost.cpp both
compute Mathlib's `jacobiSym`. -/
namespace SymVerif.C43
open SymVerif NumberTheorySymbols

/-- the specification's loop multiplies the accumulated sign by the Jacobi symbol -/
theorem jacobiLoop_spec (a n : Nat) (t : Int) (hn : n % 2 = 1) :
    MpSpec.jacobiLoop a n t = t * J(a | n) := by
  fun_induction MpSpec.jacobiLoop a n t with
  | case1 t =>
    simp [jacobiSym.one_right]
  | case2 n t hne =>
    have : 1 < n := by omega
    simp [jacobiSym.zero_left this]
  | case3 a n t h0 hev ih =>
    have ih' := ih hn
    simp only [dite_eq_ite] at ih'
    rw [ih']
    have key := jacobiSym.even_odd (a := (a : Int)) (b := n) (by omega) hn
    have hc : ((a / 2 : Nat) : Int) = (a : Int) / 2 := by simp
    rw [hc, ← key]
    split <;> ring
  | case4 a n t h0 hodd ih =>
    have ha : a % 2 = 1 := by omega
    have ih' := ih ha
    simp only [dite_eq_ite] at ih'
    rw [ih']
    have key := jacobiSym.quadratic_reciprocity_if (a := a) (b := n) ha hn
    have hm : J(((n % a : Nat) : Int) | a) = J((n : Int) | a) := by
      rw [jacobiSym.mod_left (n : Int) a]; simp
    rw [hm, ← key]
    split <;> ring


theorem jacobiPos_spec (a : Int) (n : Nat) (hn : n % 2 = 1) : MpSpec.jacobiPos a n = J(a | n) := by
  unfold MpSpec.jacobiPos
  rw [jacobiLoop_spec _ _ _ hn, one_mul]
  have hpos : (0 : Int) < n := by omega
  have : (((a % (n : Int)).toNat : Nat) : Int) = a % n := Int.toNat_of_nonneg (Int.emod_nonneg _ (by omega))
  rw [this, ← jacobiSym.mod_left]

/-! ### `unchecked_jacobi` of mp_boost.cpp -/

theorem fmod_pos (a m : Int) (hm : 0 < m) : MpBoost.fmod a m = a % m := by
  unfold MpBoost.fmod
  simp only
  rw [Int.tmod_eq_emod]
  by_cases h : 0 ≤ a ∨ m ∣ a
  · simp only [h, if_true]
    have := Int.emod_nonneg a (show m ≠ 0 by omega)
    split <;> omega
  · simp only [h, if_false]
    have h1 := Int.emod_nonneg a (show m ≠ 0 by omega)
    have h2 := Int.emod_lt_of_pos a hm
    have : (m.natAbs : Int) = m := by omega
    rw [this]
    split <;> omega

theorem stripTwos_spec : ∀ (fuel : Nat) (num : Int) (k : Nat), 0 ≤ num → num.toNat ≤ fuel →
    0 ≤ (MpBoost.stripTwos fuel num k).1 ∧ (MpBoost.stripTwos fuel num k).1 ≤ num ∧
    ((MpBoost.stripTwos fuel num k).1 = 0 ∨ (MpBoost.stripTwos fuel num k).1 % 2 = 1) ∧
    k ≤ (MpBoost.stripTwos fuel num k).2 ∧
    num = (MpBoost.stripTwos fuel num k).1 * 2 ^ ((MpBoost.stripTwos fuel num k).2 - k) := by
  intro fuel
  induction fuel with
  | zero =>
    intro num k h0 hf
    have : num = 0 := by omega
    subst this
    simp [MpBoost.stripTwos]
  | succ f ih =>
    intro num k h0 hf
    unfold MpBoost.stripTwos
    have ht : num.tmod 2 = num % 2 := Int.tmod_eq_emod_of_nonneg h0
    have hd : num.tdiv 2 = num / 2 := Int.tdiv_eq_ediv_of_nonneg h0
    by_cases hc : num.tmod 2 = 0 ∧ num ≠ 0
    · rw [if_pos hc, hd]
      obtain ⟨i1, i2, i3, i4, i5⟩ := ih (num / 2) (k + 1) (by omega) (by omega)
      refine ⟨i1, by omega, i3, by omega, ?_⟩
      have hk : (MpBoost.stripTwos f (num / 2) (k + 1)).2 - k = ((MpBoost.stripTwos f (num / 2) (k + 1)).2 - (k + 1)) + 1 := by omega
      rw [hk, pow_succ, ← mul_assoc, ← i5]
      omega
    · rw [if_neg hc]
      refine ⟨h0, le_refl _, ?_, le_refl _, by simp⟩
      by_cases hz : num = 0
      · exact Or.inl hz
      · right
        have : ¬ num.tmod 2 = 0 := fun h => hc ⟨h, hz⟩
        omega

theorem J_two (n : Nat) (hn : n % 2 = 1) : J(2 | n) = if n % 8 = 3 ∨ n % 8 = 5 then -1 else 1 := by
  have := jacobiSym.even_odd (a := 2) (b := n) (by norm_num) hn
  simp only [show (2 : Int) / 2 = 1 by norm_num, jacobiSym.one_left] at this
  exact this.symm

theorem J_two_pow (n j : Nat) (hn : n % 2 = 1) :
    J(2 | n) ^ j = if j % 2 = 1 ∧ (n % 8 = 3 ∨ n % 8 = 5) then -1 else 1 := by
  rw [J_two n hn]
  by_cases h8 : n % 8 = 3 ∨ n % 8 = 5
  · simp only [h8, if_true, and_true]
    by_cases hj : j % 2 = 1
    · simp only [hj, if_true]
      exact Odd.neg_one_pow (Nat.odd_iff.mpr hj)
    · simp only [hj, if_false]
      exact Even.neg_one_pow (Nat.even_iff.mpr (by omega))
  · simp [h8]


/-- steps (1)–(2) of `unchecked_jacobi`: reduce modulo `n`, pull out the twos -/
theorem jacobiPrep_spec (a n : Int) (hn : 0 < n) (hodd : n % 2 = 1) :
    0 ≤ (MpBoost.jacobiPrep a n).1 ∧ (MpBoost.jacobiPrep a n).1 < n ∧
    ((MpBoost.jacobiPrep a n).1 = 0 ∨ (MpBoost.jacobiPrep a n).1 % 2 = 1) ∧
    ((MpBoost.jacobiPrep a n).1 = 0 → (MpBoost.jacobiPrep a n).2 = 1) ∧
    J(a | n.toNat) = (MpBoost.jacobiPrep a n).2 * J((MpBoost.jacobiPrep a n).1 | n.toNat) := by
  unfold MpBoost.jacobiPrep
  simp only
  rw [fmod_pos a n hn, fmod_pos n 8 (by norm_num)]
  have h0 := Int.emod_nonneg a (show n ≠ 0 by omega)
  have h1 := Int.emod_lt_of_pos a hn
  obtain ⟨s1, s2, s3, s4, s5⟩ := stripTwos_spec (a % n).natAbs (a % n) 0 h0 (by omega)
  generalize hst : MpBoost.stripTwos (a % n).natAbs (a % n) 0 = st at s1 s2 s3 s4 s5
  obtain ⟨r, j⟩ := st
  simp only at s1 s2 s3 s4 s5 ⊢
  simp only [Nat.sub_zero] at s5
  have hnat : ((n.toNat : Nat) : Int) = n := Int.toNat_of_nonneg (by omega)
  have hno : n.toNat % 2 = 1 := by omega
  refine ⟨s1, by omega, s3, ?_, ?_⟩
  · intro hr
    subst hr
    have hz : a % n = 0 := by rw [s5]; simp
    rw [hz] at hst
    simp [MpBoost.stripTwos] at hst
    have : j = 0 := by omega
    simp [this]
  · have e1 : J(a | n.toNat) = J(a % n | n.toNat) := by
      rw [jacobiSym.mod_left a n.toNat, hnat]
    rw [e1, s5, jacobiSym.mul_left, jacobiSym.pow_left, J_two_pow n.toNat j hno]
    have h8 : (n % 8 = 3 ∨ n % 8 = 5) ↔ (n.toNat % 8 = 3 ∨ n.toNat % 8 = 5) := by omega
    by_cases hc : j % 2 = 1 ∧ (n % 8 = 3 ∨ n % 8 = 5)
    · have hc' : j % 2 = 1 ∧ (n.toNat % 8 = 3 ∨ n.toNat % 8 = 5) := ⟨hc.1, h8.mp hc.2⟩
      rw [if_pos hc, if_pos hc']; ring
    · have hc' : ¬ (j % 2 = 1 ∧ (n.toNat % 8 = 3 ∨ n.toNat % 8 = 5)) := fun h => hc ⟨h.1, h8.mpr h.2⟩
      rw [if_neg hc, if_neg hc']; ring

/-- **`unchecked_jacobi` (mp_boost.cpp) computes the Jacobi symbol** for every odd positive `n` -/
theorem uncheckedJacobi_spec : ∀ (N : Nat) (a n : Int), n.toNat = N → 0 < n → n % 2 = 1 →
    MpBoost.uncheckedJacobi a n = some J(a | n.toNat) := by
  intro N
  induction N using Nat.strongRecOn with
  | ind N IH =>
    intro a n hN hn hodd
    rw [MpBoost.uncheckedJacobi]
    by_cases ha : a = 1
    · subst ha; simp [jacobiSym.one_left]
    rw [if_neg ha, if_neg (by omega : ¬ n ≤ 0)]
    obtain ⟨p1, p2, p3, p4, p5⟩ := jacobiPrep_spec a n hn hodd
    have hnat : ((n.toNat : Nat) : Int) = n := Int.toNat_of_nonneg (by omega)
    by_cases h1 : (MpBoost.jacobiPrep a n).1 = 1
    · rw [if_pos h1, p5, h1]; simp [jacobiSym.one_left]
    rw [if_neg h1]
    by_cases hg : ((Int.gcd (MpBoost.jacobiPrep a n).1 n : Nat) : Int) ≠ 1
    · rw [if_pos hg, p5]
      have : J((MpBoost.jacobiPrep a n).1 | n.toNat) = 0 := by
        rw [jacobiSym.eq_zero_iff]
        refine ⟨by omega, ?_⟩
        rw [hnat]
        intro h; exact hg (by exact_mod_cast h)
      rw [this]; simp
    rw [if_neg hg, dif_pos ⟨p1, p2⟩]
    have hg1 : Int.gcd (MpBoost.jacobiPrep a n).1 n = 1 := by
      by_contra h; exact hg (by exact_mod_cast h)
    rcases p3 with hz | hro
    · -- the reduced numerator is 0: coprime only to n = 1
      have hn1 : n = 1 := by
        rw [hz] at hg1
        simp at hg1
        omega
      rw [hz]
      have : MpBoost.uncheckedJacobi n 0 = some 1 := by
        rw [hn1, MpBoost.uncheckedJacobi]; simp
      rw [this]
      simp only
      rw [p4 hz, hn1]
      simp [MpBoost.fmod, jacobiSym.one_right]
    · have hr1 : 0 < (MpBoost.jacobiPrep a n).1 := by omega
      have ih := IH (MpBoost.jacobiPrep a n).1.toNat (by omega) n (MpBoost.jacobiPrep a n).1 rfl hr1 hro
      rw [ih]
      simp only
      congr 1
      rw [p5, mul_assoc]
      congr 1
      rw [fmod_pos _ 4 (by norm_num), fmod_pos n 4 (by norm_num)]
      have hrn : (((MpBoost.jacobiPrep a n).1.toNat : Nat) : Int) = (MpBoost.jacobiPrep a n).1 :=
        Int.toNat_of_nonneg (by omega)
      have key := jacobiSym.quadratic_reciprocity_if (a := (MpBoost.jacobiPrep a n).1.toNat) (b := n.toNat)
        (by omega) (by omega)
      rw [hrn, hnat] at key
      rw [← key]
      have h4 : ((MpBoost.jacobiPrep a n).1 % 4 = 3 ∧ n % 4 = 3) ↔
          ((MpBoost.jacobiPrep a n).1.toNat % 4 = 3 ∧ n.toNat % 4 = 3) := by omega
      by_cases hc : (MpBoost.jacobiPrep a n).1 % 4 = 3 ∧ n % 4 = 3
      · rw [if_pos hc, if_pos (h4.mp hc)]; ring
      · rw [if_neg hc, if_neg (fun h => hc (h4.mpr h))]; ring


/-- **`mp_jacobi` (with the negative-`n` repair) = specification = Mathlib's Jacobi symbol**;
both are undefined for even `n`. -/
theorem boost_jacobi_spec (a n : Int) : MpBoost.jacobi a n = MpSpec.jacobi a n := by
  unfold MpBoost.jacobi MpSpec.jacobi
  have hpar : n.tmod 2 = 0 ↔ n % 2 = 0 := by
    constructor
    · intro h; exact Int.emod_eq_zero_of_dvd (Int.dvd_of_tmod_eq_zero h)
    · intro h; exact Int.tmod_eq_zero_of_dvd (Int.dvd_of_emod_eq_zero h)
  by_cases hev : n % 2 = 0
  · rw [if_pos (hpar.mpr hev), if_pos hev]
  · rw [if_neg (fun h => hev (hpar.mp h)), if_neg hev]
    have hodd : n % 2 = 1 := by omega
    by_cases hneg : n < 0
    · have hpos : ¬ n > 0 := by omega
      rw [if_pos hneg, if_neg hpos]
      have h1 := uncheckedJacobi_spec _ a (n.natAbs : Int) rfl (by omega) (by omega)
      rw [h1]
      simp only [Option.map_some, Int.toNat_natCast]
      rw [jacobiPos_spec a n.natAbs (by omega)]
    · have hpos : n > 0 := by omega
      rw [if_neg hneg, if_pos hpos]
      rw [uncheckedJacobi_spec _ a n rfl hpos hodd, jacobiPos_spec a n.toNat (by omega)]

/-- what the specification's `jacobi` is: Mathlib's `jacobiSym` (Kronecker extension for negative `n`) -/
theorem spec_jacobi_meaning (a n : Int) (hodd : n % 2 = 1) :
    MpSpec.jacobi a n = some ((if n < 0 ∧ a < 0 then -1 else 1) * J(a | n.natAbs)) := by
  unfold MpSpec.jacobi
  rw [if_neg (by omega : ¬ n % 2 = 0)]
  by_cases hpos : n > 0
  · rw [if_pos hpos]
    have : ¬ (n < 0 ∧ a < 0) := by omega
    rw [if_neg this, one_mul, jacobiPos_spec a n.toNat (by omega)]
    have : n.toNat = n.natAbs := by omega
    rw [this]
  · rw [if_neg hpos, jacobiPos_spec a n.natAbs (by omega)]
    have hn : n < 0 := by omega
    by_cases ha : a < 0
    · rw [if_pos ha, if_pos ⟨hn, ha⟩]
    · rw [if_neg ha, if_neg (fun h => ha h.2)]


/-! ### Kronecker symbol -/

/-- the `while (m % 2 == 0 && m != 0)` loop of `mp_kronecker` and the specification's `oddPart` agree -/
theorem stripTwos_eq_oddPart : ∀ (fuel x k : Nat),
    MpBoost.stripTwos fuel (x : Int) k = (((MpSpec.oddPart fuel x k).1 : Int), (MpSpec.oddPart fuel x k).2) := by
  intro fuel
  induction fuel with
  | zero => intro x k; simp [MpBoost.stripTwos, MpSpec.oddPart]
  | succ f ih =>
    intro x k
    unfold MpBoost.stripTwos MpSpec.oddPart
    have ht : (x : Int).tmod 2 = (x : Int) % 2 := Int.tmod_eq_emod_of_nonneg (by omega)
    have hd : (x : Int).tdiv 2 = ((x / 2 : Nat) : Int) := by
      rw [Int.tdiv_eq_ediv_of_nonneg (by omega)]; simp
    by_cases hc : x % 2 = 0 ∧ x ≠ 0
    · have hc' : (x : Int).tmod 2 = 0 ∧ (x : Int) ≠ 0 := by omega
      rw [if_pos hc, if_pos hc', hd, ih]
    · have hc' : ¬ ((x : Int).tmod 2 = 0 ∧ (x : Int) ≠ 0) := by omega
      rw [if_neg hc, if_neg hc']

theorem oddPart_odd : ∀ (fuel x k : Nat), x ≤ fuel → x ≠ 0 → (MpSpec.oddPart fuel x k).1 % 2 = 1 := by
  intro fuel
  induction fuel with
  | zero => intro x k h1 h2; omega
  | succ f ih =>
    intro x k h1 h2
    unfold MpSpec.oddPart
    by_cases hc : x % 2 = 0 ∧ x ≠ 0
    · rw [if_pos hc]
      exact ih (x / 2) (k + 1) (by omega) (by omega)
    · rw [if_neg hc]
      simp only
      omega

/-- **`mp_kronecker` (with the `n = 0` repair) = specification** -/
theorem boost_kronecker_spec (a n : Int) : MpBoost.kronecker a n = some (MpSpec.kronecker a n) := by
  unfold MpBoost.kronecker MpSpec.kronecker
  by_cases h0 : n = 0
  · rw [if_pos h0, if_pos h0]
    congr 1
    by_cases ha : a = 1 ∨ a = -1
    · have : a.natAbs = 1 := by omega
      rw [if_pos ha, if_pos this]
    · have : ¬ a.natAbs = 1 := by omega
      rw [if_neg ha, if_neg this]
  · rw [if_neg h0, if_neg h0]
    simp only
    rw [stripTwos_eq_oddPart]
    simp only
    have hm_odd := oddPart_odd n.natAbs n.natAbs 0 (le_refl _) (by omega)
    generalize hop : MpSpec.oddPart n.natAbs n.natAbs 0 = mj at hm_odd
    obtain ⟨m, j⟩ := mj
    simp only at hm_odd ⊢
    -- the Jacobi part
    have hj : MpBoost.uncheckedJacobi a (m : Int) = some J(a | m) := by
      have := uncheckedJacobi_spec _ a (m : Int) rfl (by omega) (by omega)
      simpa using this
    have hs : (MpSpec.jacobi a (m : Int)).getD 0 = J(a | m) := by
      unfold MpSpec.jacobi
      rw [if_neg (by omega), if_pos (by omega)]
      simp [jacobiPos_spec a m hm_odd]
    rw [hj, hs]
    simp only
    congr 1
    -- parity of n is "j = 0" ... we only need the case split on the code's own test
    have hpar : n.tmod 2 = 0 ↔ n % 2 = 0 := by
      constructor
      · intro h; exact Int.emod_eq_zero_of_dvd (Int.dvd_of_tmod_eq_zero h)
      · intro h; exact Int.tmod_eq_zero_of_dvd (Int.dvd_of_emod_eq_zero h)
    have hapar : a.tmod 2 ≠ 0 ↔ a % 2 ≠ 0 := by
      constructor
      · intro h h'; exact h (Int.tmod_eq_zero_of_dvd (Int.dvd_of_emod_eq_zero h'))
      · intro h h'; exact h (Int.emod_eq_zero_of_dvd (Int.dvd_of_tmod_eq_zero h'))
    -- j = 0 iff n odd
    have hj0 : j = 0 ↔ n % 2 ≠ 0 := by
      have hnn : n.natAbs ≠ 0 := by omega
      have hu : MpSpec.oddPart n.natAbs n.natAbs 0 = (m, j) := hop
      cases hN : n.natAbs with
      | zero => omega
      | succ N =>
        rw [hN] at hu
        unfold MpSpec.oddPart at hu
        by_cases hc : (N + 1) % 2 = 0 ∧ N + 1 ≠ 0
        · rw [if_pos hc] at hu
          have hge : 1 ≤ j := by
            have : ∀ (fuel x k : Nat), k ≤ (MpSpec.oddPart fuel x k).2 := by
              intro fuel
              induction fuel with
              | zero => intro x k; simp [MpSpec.oddPart]
              | succ f ih =>
                intro x k
                unfold MpSpec.oddPart
                split
                · exact Nat.le_trans (Nat.le_succ k) (ih _ _)
                · exact Nat.le_refl _
            have := this N ((N + 1) / 2) (0 + 1)
            rw [hu] at this
            simpa using this
          omega
        · rw [if_neg hc] at hu
          have : j = 0 := by
            have := congrArg Prod.snd hu
            simpa using this.symm
          omega
    rw [fmod_pos a 8 (by norm_num)]
    unfold MpSpec.kroneckerTwo
    by_cases hn2 : n % 2 = 0
    · have hjne : j ≠ 0 := fun h => (hj0.mp h) hn2
      rw [if_pos (hpar.mpr hn2), if_neg hjne]
      by_cases ha2 : a % 2 = 0
      · have : ¬ a.tmod 2 ≠ 0 := fun h => (hapar.mp h) ha2
        rw [if_neg this, if_pos ha2]
        by_cases hjo : j % 2 = 0 <;> simp [hjo]
      · rw [if_pos (hapar.mpr ha2), if_neg ha2, if_pos (hapar.mpr ha2)]
        by_cases h8 : a % 8 = 1 ∨ a % 8 = 7 <;> by_cases hjo : j % 2 = 0 <;> simp [h8, hjo]
    · have hjz : j = 0 := hj0.mpr hn2
      rw [if_neg (fun h => hn2 (hpar.mp h)), if_pos hjz]; ring

end SymVerif.C43
