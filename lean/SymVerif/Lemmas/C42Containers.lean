import SymVerif.Model.CApi
import Mathlib.Data.Finset.Card
import Mathlib.Data.List.Perm.Basic
/-!
# C42 — the C container state machines refine vectors, finite sets and finite maps

* `CVecBasic` / `CVectorInt`: the model state *is* a `List`; the theorems are the index laws of a vector for
  every state and every argument, plus "an out-of-range call changes nothing".
* `CSetBasic`: the duplicate-free list model refines `Finset String` (Mathlib) for all op sequences:
  same flags, same cardinalities, and `all` enumerates exactly the abstract set without repetition.
* `CMapBasicBasic`: the association-list model refines a finite map `String → Option String` with its domain.
-/
namespace SymVerif.C42Containers
open SymVerif SymVerif.CApi

/-! ## vectors -/

theorem vec_push_size (s : List Elem) (e : Elem) :
    (Vec.step (Vec.step s (.push e)).1 .size).2 = .ok (toString (s.length + 1)) := by
  simp [Vec.step]

theorem vec_push_get_last (s : List Elem) (e : Elem) :
    (Vec.step (Vec.step s (.push e)).1 (.get s.length)).2 = .ok ("0:" ++ e) := by
  simp [Vec.step]

/-- result of `get`, as a function of the list lookup -/
def getRes : Option Elem → Except Err String
  | some e => .ok ("0:" ++ e)
  | none => .error .oob

theorem vec_get_snd (s : List Elem) (n : Nat) : (Vec.step s (.get n)).2 = getRes s[n]? := by
  simp only [Vec.step]
  cases s[n]? <;> rfl

theorem vec_push_get_old (s : List Elem) (e : Elem) (n : Nat) (h : n < s.length) :
    (Vec.step (Vec.step s (.push e)).1 (.get n)).2 = (Vec.step s (.get n)).2 := by
  rw [vec_get_snd, vec_get_snd]
  simp [Vec.step, List.getElem?_append_left h]

theorem vec_set_get (s : List Elem) (e : Elem) (n m : Nat) (h : n < s.length) :
    (Vec.step (Vec.step s (.set n e)).1 (.get m)).2
      = if m = n then .ok ("0:" ++ e) else (Vec.step s (.get m)).2 := by
  rw [vec_get_snd, vec_get_snd]
  by_cases hm : m = n
  · subst hm
    simp [Vec.step, h, getRes]
  · have : n ≠ m := fun h' => hm h'.symm
    simp [Vec.step, h, hm, List.getElem?_set_ne this]

theorem vec_erase_get (s : List Elem) (n m : Nat) (h : n < s.length) :
    (Vec.step (Vec.step s (.erase n)).1 (.get m)).2
      = if m < n then (Vec.step s (.get m)).2 else (Vec.step s (.get (m + 1))).2 := by
  rw [vec_get_snd, vec_get_snd, vec_get_snd]
  simp only [Vec.step, h, if_true, List.getElem?_eraseIdx]
  split <;> rfl

/-- an out-of-range index is reported as `oob` and leaves the vector unchanged -/
theorem vec_oob_unchanged (s : List Elem) (e : Elem) (n : Nat) (h : s.length ≤ n) :
    Vec.step s (.get n) = (s, .error .oob) ∧ Vec.step s (.set n e) = (s, .error .oob)
      ∧ Vec.step s (.erase n) = (s, .error .oob) := by
  have h' : ¬ n < s.length := Nat.not_lt.mpr h
  refine ⟨?_, ?_, ?_⟩
  · simp [Vec.step, List.getElem?_eq_none h]
  · simp [Vec.step, h']
  · simp [Vec.step, h']

/-- for every history: one result per call -/
theorem vec_run_length (ops : List VecOp) : ∀ s : List Elem, (Vec.run s ops).2.length = ops.length := by
  induction ops with
  | nil => intro s; simp [Vec.run]
  | cons op ops ih => intro s; simp [Vec.run, ih]

example : (Vec.run [] [.push "a", .push "b", .erase 0, .get 0, .get 1, .size]).2.map showRes
    = ["0", "0", "0", "0:b", "E:oob", "1"] := by decide

theorem vint_push_get_last (s : List Int) (v : Int) :
    (VInt.step (VInt.step s (.push v)).1 (.get s.length)).2 = .ok (toString v) := by
  simp [VInt.step]

theorem vint_push_get_old (s : List Int) (v : Int) (n : Nat) (h : n < s.length) :
    (VInt.step (VInt.step s (.push v)).1 (.get n)).2 = (VInt.step s (.get n)).2 := by
  have h1 : (s ++ [v])[n]? = s[n]? := List.getElem?_append_left h
  simp only [VInt.step, h1]
  cases s[n]? <;> rfl

/-! ## sets -/

theorem insertStr_perm (a : String) (l : List String) : (insertStr a l).Perm (a :: l) := by
  induction l with
  | nil => simp [insertStr]
  | cons b t ih =>
    simp only [insertStr]
    split
    · exact List.Perm.refl _
    · exact (List.Perm.cons b ih).trans (List.Perm.swap a b t)

theorem sortStrs_perm (l : List String) : (sortStrs l).Perm l := by
  induction l with
  | nil => simp [sortStrs]
  | cons a t ih =>
    have : sortStrs (a :: t) = insertStr a (sortStrs t) := by simp [sortStrs]
    rw [this]
    exact (insertStr_perm a _).trans (List.Perm.cons a ih)

/-- abstract result of a set operation -/
inductive SpecRes where
  | flag (b : Bool) | num (n : Nat) | elems (S : Finset String)

/-- the specification: a mathematical finite set -/
def specStep (S : Finset String) : SetOp → Finset String × SpecRes
  | .insert e => (insert e S, .flag (decide (e ∉ S)))
  | .find e => (S, .flag (decide (e ∈ S)))
  | .erase e => (S.erase e, .flag (decide (e ∈ S)))
  | .size => (S, .num S.card)
  | .all => (S, .elems S)

def specRun (S : Finset String) : List SetOp → Finset String × List SpecRes
  | [] => (S, [])
  | op :: ops =>
    let r := specStep S op
    let rs := specRun r.1 ops
    (rs.1, r.2 :: rs.2)

/-- concrete result `r` represents abstract result `a` -/
def Rel : SetRes → SpecRes → Prop
  | .flag b, .flag b' => b = b'
  | .num n, .num n' => n = n'
  | .elems l, .elems S => l.Nodup ∧ l.toFinset = S
  | _, _ => False

theorem set_step_refines (s : List Elem) (hs : s.Nodup) (op : SetOp) :
    (SetM.stepR s op).1.Nodup
      ∧ (SetM.stepR s op).1.toFinset = (specStep s.toFinset op).1
      ∧ Rel (SetM.stepR s op).2 (specStep s.toFinset op).2 := by
  cases op with
  | insert e =>
    by_cases h : e ∈ s
    · simp [SetM.stepR, specStep, Rel, h, hs]
    · simp [SetM.stepR, specStep, Rel, h, hs]
  | find e =>
    by_cases h : e ∈ s <;> simp [SetM.stepR, specStep, Rel, h, hs]
  | erase e =>
    by_cases h : e ∈ s
    · refine ⟨?_, ?_, ?_⟩
      · simp [SetM.stepR, h, hs.erase e]
      · simp only [SetM.stepR, specStep, List.contains_iff_mem, h, if_true]
        ext x
        simp [List.Nodup.mem_erase_iff hs]
      · simp [SetM.stepR, specStep, Rel, h]
    · refine ⟨?_, ?_, ?_⟩
      · simp [SetM.stepR, h, hs]
      · simp only [SetM.stepR, specStep, List.contains_iff_mem, h]
        simp [Finset.erase_eq_of_notMem, h]
      · simp [SetM.stepR, specStep, Rel, h]
  | size =>
    refine ⟨by simp [SetM.stepR, hs], by simp [SetM.stepR, specStep], ?_⟩
    simp [SetM.stepR, specStep, Rel, List.toFinset_card_of_nodup hs]
  | all =>
    refine ⟨by simp [SetM.stepR, hs], by simp [SetM.stepR, specStep], ?_⟩
    simp only [SetM.stepR, specStep, Rel]
    exact ⟨(sortStrs_perm s).nodup_iff.mpr hs, List.toFinset_eq_of_perm _ _ (sortStrs_perm s)⟩

/-- **set refinement, all op sequences**: starting from related states, the list model and the `Finset`
specification stay related and produce related results call by call. -/
theorem set_run_refines (ops : List SetOp) :
    ∀ s : List Elem, s.Nodup →
      (SetM.runR s ops).1.Nodup
        ∧ (SetM.runR s ops).1.toFinset = (specRun s.toFinset ops).1
        ∧ List.Forall₂ Rel (SetM.runR s ops).2 (specRun s.toFinset ops).2 := by
  induction ops with
  | nil => intro s hs; simp [SetM.runR, specRun, hs]
  | cons op ops ih =>
    intro s hs
    obtain ⟨h1, h2, h3⟩ := set_step_refines s hs op
    obtain ⟨g1, g2, g3⟩ := ih (SetM.stepR s op).1 h1
    simp only [SetM.runR, specRun]
    rw [h2] at g2 g3
    exact ⟨g1, g2, List.Forall₂.cons h3 g3⟩

example : (SetM.run [] [.insert "b", .insert "a", .insert "b", .erase "c", .size, .all]).2
    = ["1", "1", "0", "0", "2", "{a b}"] := by decide

/-! ## maps -/

/-- the specification: a function with an explicit finite domain -/
structure SpecMap where
  m : String → Option String
  dom : Finset String

inductive SpecMapRes where
  | unit | found (v : Option String) | num (n : Nat)

def specMapStep (S : SpecMap) : MapOp → SpecMap × SpecMapRes
  | .insert k v => (⟨fun x => if x = k then some v else S.m x, insert k S.dom⟩, .unit)
  | .get k => (S, .found (S.m k))
  | .size => (S, .num S.dom.card)

def specMapRun (S : SpecMap) : List MapOp → SpecMap × List SpecMapRes
  | [] => (S, [])
  | op :: ops =>
    let r := specMapStep S op
    let rs := specMapRun r.1 ops
    (rs.1, r.2 :: rs.2)

def MapRel : MapRes → SpecMapRes → Prop
  | .unit, .unit => True
  | .found v, .found v' => v = v'
  | .num n, .num n' => n = n'
  | _, _ => False

/-- the association list `s` represents the finite map `S` -/
def Repr (s : List (Elem × Elem)) (S : SpecMap) : Prop :=
  (s.map Prod.fst).Nodup ∧ (s.map Prod.fst).toFinset = S.dom ∧ ∀ k, assocGet k s = S.m k

theorem assocGet_assocSet (k v x : Elem) (s : List (Elem × Elem)) :
    assocGet x (assocSet k v s) = if x = k then some v else assocGet x s := by
  induction s with
  | nil =>
    by_cases h : x = k
    · subst h; simp [assocSet, assocGet]
    · have : ¬ k = x := fun h' => h h'.symm
      simp [assocSet, assocGet, h, this]
  | cons p t ih =>
    obtain ⟨a, b⟩ := p
    by_cases hak : a = k
    · subst hak
      by_cases hx : x = a
      · subst hx; simp [assocSet, assocGet]
      · have : ¬ a = x := fun h => hx h.symm
        simp [assocSet, assocGet, hx, this]
    · by_cases hx : x = k
      · subst hx
        simp [assocSet, assocGet, hak, ih]
      · by_cases hax : a = x
        · subst hax
          simp [assocSet, assocGet, hak]
        · simp [assocSet, assocGet, hak, hax, ih, hx]

theorem keys_assocSet (k v : Elem) (s : List (Elem × Elem)) :
    (assocSet k v s).map Prod.fst = if k ∈ s.map Prod.fst then s.map Prod.fst else s.map Prod.fst ++ [k] := by
  induction s with
  | nil => simp [assocSet]
  | cons p t ih =>
    obtain ⟨a, b⟩ := p
    by_cases hak : a = k
    · subst hak; simp [assocSet]
    · have hka : ¬ k = a := fun h => hak h.symm
      by_cases hm : k ∈ t.map Prod.fst
      · simp only [assocSet, beq_iff_eq, hak, if_false, List.map_cons, ih, hm, if_true, List.mem_cons, or_true]
      · simp only [assocSet, beq_iff_eq, hak, if_false, List.map_cons, ih, hm, List.mem_cons, hka, or_self,
          List.cons_append]

theorem map_step_refines (s : List (Elem × Elem)) (S : SpecMap) (h : Repr s S) (op : MapOp) :
    Repr (MapM.stepR s op).1 (specMapStep S op).1 ∧ MapRel (MapM.stepR s op).2 (specMapStep S op).2 := by
  obtain ⟨h1, h2, h3⟩ := h
  cases op with
  | insert k v =>
    refine ⟨⟨?_, ?_, ?_⟩, by simp [MapM.stepR, specMapStep, MapRel]⟩
    · simp only [MapM.stepR, keys_assocSet]
      split
      · exact h1
      · rename_i hk
        exact List.Nodup.append h1 (by simp) (by simpa using hk)
    · simp only [MapM.stepR, specMapStep, keys_assocSet]
      split
      · rename_i hk
        rw [h2]
        have : k ∈ S.dom := by rw [← h2]; simpa using hk
        simp [this]
      · ext x
        simp [← h2]
    · intro x
      simp [MapM.stepR, specMapStep, assocGet_assocSet, h3]
  | get k =>
    exact ⟨⟨h1, h2, h3⟩, by simp [MapM.stepR, specMapStep, MapRel, h3]⟩
  | size =>
    refine ⟨⟨h1, h2, h3⟩, ?_⟩
    simp only [MapM.stepR, specMapStep, MapRel]
    rw [← h2, List.toFinset_card_of_nodup h1]
    simp

/-- **map refinement, all op sequences** -/
theorem map_run_refines (ops : List MapOp) :
    ∀ (s : List (Elem × Elem)) (S : SpecMap), Repr s S →
      Repr (MapM.runR s ops).1 (specMapRun S ops).1
        ∧ List.Forall₂ MapRel (MapM.runR s ops).2 (specMapRun S ops).2 := by
  induction ops with
  | nil => intro s S h; simpa [MapM.runR, specMapRun] using h
  | cons op ops ih =>
    intro s S h
    obtain ⟨h1, h2⟩ := map_step_refines s S h op
    obtain ⟨g1, g2⟩ := ih _ _ h1
    simp only [MapM.runR, specMapRun]
    exact ⟨g1, List.Forall₂.cons h2 g2⟩

/-- the empty containers are related -/
theorem repr_empty : Repr [] ⟨fun _ => none, ∅⟩ := by simp [Repr, assocGet]

example : (MapM.run [] [.insert "x" "1", .insert "y" "2", .insert "x" "3", .get "x", .get "z", .size]).2
    = ["-", "-", "-", "1:3", "0", "2"] := by decide

end SymVerif.C42Containers
