/-
C04: exponents as dictionary values.  A summand of the safe Add fragment (`AOK`, exact) means
`(coefficient, term ↦ coefficient)` in the commutative monoid `ℚ(i) × (Expr → ℚ(i))`; the meaning is
injective and `add` adds meanings (Lemmas/C04Add.lean), so exponents form a value semantics `expVS`
for the generic dictionary algebra (Lemmas/C04DictG.lean).
-/
import Mathlib.Algebra.Group.Pi.Basic
import SymVerif.Lemmas.C04DictG
import SymVerif.Lemmas.C04Add

namespace SymVerif.AC
open SymVerif SymVerif.Arith

abbrev ExpVal := (ℚ × ℚ) × (Expr → ℚ × ℚ)

/-- legal exponent: an exact summand of the safe Add fragment -/
def expOK (a : Expr) : Prop := AOK a ∧ exact a = true

noncomputable def expVal (a : Expr) : ExpVal := (gq (repr a).1, fun t => lk (repr a).2 t)

/-- the pure sum of two exponents (`add(a, b)` of the model) -/
noncomputable def expAdd (a b : Expr) : Expr :=
  match addFromDict (radd (repr a) (repr b)).1 (radd (repr a) (repr b)).2 with
  | .ok r => r
  | .error _ => zero

/-- `is_a<Integer>(v) && v.is_zero()` -/
def expIsZ (a : Expr) : Bool := isInteger a && numIsZero a

theorem expAdd_spec {a b : Expr} (ha : expOK a) (hb : expOK b) :
    addFromDict (radd (repr a) (repr b)).1 (radd (repr a) (repr b)).2 = .ok (expAdd a b)
    ∧ expOK (expAdd a b) ∧ repr (expAdd a b) = radd (repr a) (repr b) := by
  have hnr : NR (radd (repr a) (repr b)) := ha.1.1.radd hb.1.1
  obtain ⟨r, hr, _⟩ := repr_fromDict hnr
  obtain ⟨h1, h2, h3⟩ := AOK_fromDict hnr hr
  have e : expAdd a b = r := by unfold expAdd; rw [hr]
  rw [e]
  exact ⟨hr, ⟨h1, h3⟩, h2⟩

theorem expVal_inj {a b : Expr} (ha : expOK a) (hb : expOK b) (h : expVal a = expVal b) : a = b := by
  have h1 : gq (repr a).1 = gq (repr b).1 := congrArg Prod.fst h
  have h2 : ∀ t, lk (repr a).2 t = lk (repr b).2 t := fun t => congrFun (congrArg Prod.snd h) t
  have e1 : (repr a).1 = (repr b).1 := gq_inj ha.1.1.1 hb.1.1.1 h1
  have e2 : (repr a).2 = (repr b).2 := dok_ext ha.1.1.2.1 hb.1.1.2.1 h2
  have ea := ha.1.2
  have eb := hb.1.2
  rw [e1, e2, eb] at ea
  cases ea
  rfl

theorem expVal_add {a b : Expr} (ha : expOK a) (hb : expOK b) :
    expVal (expAdd a b) = expVal a + expVal b := by
  obtain ⟨_, _, hr⟩ := expAdd_spec ha hb
  unfold expVal
  rw [hr]
  refine Prod.ext ?_ ?_
  · simp [radd, gq_ofG]
  · funext t
    simp only [radd, Prod.snd_add, Pi.add_apply]
    exact lk_merge t ha.1.1.2.1 hb.1.1.2.1

theorem expOK_zero : expOK zero := by
  refine ⟨⟨?_, rfl⟩, rfl⟩
  exact NR_unit

theorem repr_zero : repr zero = (zero, []) := rfl

theorem expIsZ_iff {a : Expr} (ha : expOK a) : expIsZ a = true ↔ expVal a = 0 := by
  constructor
  · intro h
    unfold expIsZ at h
    simp only [Bool.and_eq_true] at h
    have : a = zero := by
      cases a <;> simp_all [isInteger, numIsZero, zero]
    subst this
    unfold expVal
    rw [repr_zero]
    refine Prod.ext ?_ ?_
    · simp [gq_zero]
    · funext t
      simp [lk_nil]
  · intro h
    have : expVal a = expVal zero := by
      rw [h]
      unfold expVal
      rw [repr_zero]
      refine Prod.ext ?_ ?_
      · simp [gq_zero]
      · funext t
        simp [lk_nil]
    have e := expVal_inj ha expOK_zero this
    subst e
    rfl

/-- exponents as a value semantics -/
noncomputable def expVS : VS ExpVal where
  ok := expOK
  val := expVal
  inj := expVal_inj
  add := expAdd
  add_ok := fun ha hb => (expAdd_spec ha hb).2.1
  val_add := expVal_add
  isZ := expIsZ
  isZ_iff := expIsZ_iff

/-- canonical exact numbers are legal exponents -/
theorem expOK_num {e : Expr} (h : ExOK e) : expOK e := by
  have hn := exOK_isNum h
  have hr : repr e = (e, []) := by cases e <;> simp_all [repr, Expr.isNum]
  refine ⟨⟨?_, ?_⟩, exact_of_exOK h⟩
  · rw [hr]; exact ⟨h, DOK.nil, by simp⟩
  · rw [hr]; rfl

theorem expOK_one : expOK one := expOK_num (exOK_int 1)

theorem expVal_one_ne : expVal one ≠ 0 := by
  intro h
  have := (expIsZ_iff expOK_one).mpr h
  simp [expIsZ, one, isInteger, numIsZero] at this

/-- what `dict_add_term_new` computes for the new exponent: `addnum` on two Numbers, `add` otherwise -/
theorem expAdd_model {old e : Expr} (ho : expOK old) (he : expOK e) :
    (if (e.isNum && old.isNum) = true then numAdd old e else addCore old e) = .ok (expAdd old e) := by
  obtain ⟨hfd, _, _⟩ := expAdd_spec ho he
  split
  · rename_i h
    simp only [Bool.and_eq_true] at h
    have hro : repr old = (old, []) := by cases old <;> simp_all [repr, Expr.isNum]
    have hre : repr e = (e, []) := by cases e <;> simp_all [repr, Expr.isNum]
    have ho' : ExOK old := by have := ho.1.1.1; rw [hro] at this; exact this
    have he' : ExOK e := by have := he.1.1.1; rw [hre] at this; exact this
    rw [numAdd_eq ho' he']
    rw [hro, hre] at hfd
    simp only [radd, merge, addFromDict] at hfd
    exact hfd
  · rw [addCore_eq ho.1 he.1]
    exact hfd

/-- a legal exponent that is a Number is a canonical exact number -/
theorem expOK_isNum {v : Expr} (hv : expOK v) (hn : v.isNum = true) : ExOK v := by
  have hr : repr v = (v, []) := by cases v <;> simp_all [repr, Expr.isNum]
  have := hv.1.1.1
  rw [hr] at this
  exact this

end SymVerif.AC
