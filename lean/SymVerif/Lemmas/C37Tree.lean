/-
C37 — soundness of atom matching (`atomEqWith`), of the table index, and of `treeEquiv`.
-/
import SymVerif.Lemmas.C37Equiv

namespace SymVerif
namespace CSE

open NF
open Classical

set_option linter.unusedSectionVars false

section
variable {K : Type} [Field K] [CharZero K] {M : Interp K}

/-! ### the table index -/

theorem findI_spec (p : Expr → Option Match) :
    ∀ (tbl : List Expr) (i : Nat) (m : Match), findI p tbl = some (i, m) →
      ∃ r, tbl[i]? = some r ∧ p r = some m
  | [], i, m, h => by simp [findI] at h
  | r :: t, i, m, h => by
    simp only [findI] at h
    cases hp : p r with
    | some m' =>
      simp only [hp, Option.some.injEq, Prod.mk.injEq] at h
      obtain ⟨rfl, rfl⟩ := h
      exact ⟨r, by simp, hp⟩
    | none =>
      simp only [hp] at h
      cases hf : findI p t with
      | none => simp [hf] at h
      | some q =>
        obtain ⟨j, m'⟩ := q
        simp only [hf, Option.map_some, Option.some.injEq, Prod.mk.injEq] at h
        obtain ⟨rfl, rfl⟩ := h
        obtain ⟨r', hr', hp'⟩ := findI_spec p t j m' hf
        exact ⟨r', by simpa using hr', hp'⟩

/-- the assignment of the abstract atoms: the value of the table entry with that number -/
noncomputable def rhoTbl (M : Interp K) (tbl : List Expr) : String → K := fun s =>
  match tbl[s.length - 4]? with
  | some r => (evalS M r).getD 0
  | none => 0

theorem rhoTbl_key (tbl : List Expr) (i : Nat) (r : Expr) (w : K) (hr : tbl[i]? = some r)
    (hw : evalS M r = some w) : rhoTbl M tbl (key i) = w := by
  simp only [rhoTbl, key_length, Nat.add_sub_cancel, hr, hw, Option.getD_some]

theorem idxOK_of_table (tbl : List Expr) (aeq : Expr → Expr → Option Match)
    (hdef : ∀ r ∈ tbl, ∃ w, evalS M r = some w)
    (haeq : ∀ x r m, aeq x r = some m → MatchSpec M x r m) :
    IdxOK M (rhoTbl M tbl) (fun x => findI (fun r => aeq x r) tbl) := by
  intro x i m v hi hv
  obtain ⟨r, hr, hp⟩ := findI_spec _ tbl i m hi
  have hmem : r ∈ tbl := List.mem_of_getElem? hr
  obtain ⟨w, hw⟩ := hdef r hmem
  rw [rhoTbl_key tbl i r w hr hw]
  exact haeq x r m hp v w hv hw

/-! ### matching of atoms -/

theorem listAll2_sound {teq : Expr → Expr → Bool} (hteq : ∀ a b, teq a b = true → Sound M a b) :
    ∀ (as bs : List Expr) (va vb : List K), listAll2 teq as bs = true →
      evalSList M as = some va → evalSList M bs = some vb → va = vb
  | [], [], va, vb, _, ha, hb => by
    simp only [evalSList, Option.some.injEq] at ha hb; rw [← ha, ← hb]
  | a :: t, b :: u, va, vb, h, ha, hb => by
    simp only [listAll2, Bool.and_eq_true] at h
    simp only [evalSList] at ha hb
    cases h1 : evalS M a with
    | none => simp [h1, consO] at ha
    | some x =>
      cases h2 : evalSList M t with
      | none => simp [h1, h2, consO] at ha
      | some xs =>
        cases h3 : evalS M b with
        | none => simp [h3, consO] at hb
        | some y =>
          cases h4 : evalSList M u with
          | none => simp [h3, h4, consO] at hb
          | some ys =>
            simp only [h1, h2, h3, h4, consO, Option.some.injEq] at ha hb
            rw [← ha, ← hb, hteq a b h.1 x y h1 h3, listAll2_sound hteq t u xs ys h.2 h2 h4]
  | [], _ :: _, _, _, h, _, _ => by simp [listAll2] at h
  | _ :: _, [], _, _, h, _, _ => by simp [listAll2] at h

theorem findShift_sound {teq : Expr → Expr → Bool} {e e' : Expr} :
    ∀ (ks : List Int) (k : Int) (inv : Bool), findShift teq e e' ks = some (k, inv) →
      teq e (shiftExp (if inv then negE e' else e') k) = true
  | [], k, inv, h => by simp [findShift] at h
  | k' :: ks, k, inv, h => by
    simp only [findShift] at h
    split at h
    · rename_i ht
      simp only [Option.some.injEq, Prod.mk.injEq] at h
      obtain ⟨rfl, rfl⟩ := h
      simpa using ht
    · split at h
      · rename_i ht
        simp only [Option.some.injEq, Prod.mk.injEq] at h
        obtain ⟨rfl, rfl⟩ := h
        simpa using ht
      · exact findShift_sound ks k inv h

theorem matchSpec_same {x r : Expr} (hnp : ∀ b e, x = .pow b e → intLit? e = none → False)
    (h : ∀ vx vr, evalS M x = some vx → evalS M r = some vr → vx = vr) :
    MatchSpec M x r ⟨false, 0, false⟩ := by
  intro vx vr hx hr
  have := h vx vr hx hr
  subst this
  refine ⟨fun _ _ => by simp [sgn], ?_⟩
  intro b e vb hx' he' hb'
  exact (hnp b e hx' he').elim

theorem evalS_app_one {h : String} {a : Expr} {v : K} (hv : evalS M (.app h [a]) = some v) :
    ∃ va, evalS M a = some va ∧ v = M.app h [va] := by
  simp only [evalS, evalSList] at hv
  cases ha : evalS M a with
  | none => simp [ha, consO] at hv
  | some va =>
    simp only [ha, consO, Option.map_some, Option.some.injEq] at hv
    exact ⟨va, rfl, hv.symm⟩

theorem atomEqWith_spec (hM : Lawful M) {teq : Expr → Expr → Bool}
    (hteq : ∀ a b, teq a b = true → Sound M a b) (x r : Expr) (m : Match)
    (h : atomEqWith teq x r = some m) : MatchSpec M x r m := by
  unfold atomEqWith at h
  split at h
  · -- sym
    split at h
    · rename_i hab
      simp only [Option.some.injEq] at h; subst h
      simp only [beq_iff_eq] at hab; subst hab
      exact matchSpec_same (fun b e hx _ => by cases hx) (fun vx vr hx hr => by rw [hx] at hr; exact Option.some.inj hr)
    · cases h
  · -- dummy
    split at h
    · rename_i hab
      simp only [Option.some.injEq] at h; subst h
      simp only [Bool.and_eq_true, beq_iff_eq] at hab
      obtain ⟨rfl, rfl⟩ := hab
      exact matchSpec_same (fun b e hx _ => by cases hx) (fun vx vr hx hr => by rw [hx] at hr; exact Option.some.inj hr)
    · cases h
  · -- const
    split at h
    · rename_i hab
      simp only [Option.some.injEq] at h; subst h
      simp only [beq_iff_eq] at hab; subst hab
      exact matchSpec_same (fun b e hx _ => by cases hx) (fun vx vr hx hr => by rw [hx] at hr; exact Option.some.inj hr)
    · cases h
  · -- fsym
    rename_i n as m' bs
    split at h
    · rename_i hab
      simp only [Option.some.injEq] at h; subst h
      simp only [Bool.and_eq_true, beq_iff_eq] at hab
      obtain ⟨rfl, hl⟩ := hab
      refine matchSpec_same (fun b e hx _ => by cases hx) (fun vx vr hx hr => ?_)
      simp only [evalS] at hx hr
      cases h1 : evalSList M as with
      | none => simp [h1] at hx
      | some xs =>
        cases h2 : evalSList M bs with
        | none => simp [h2] at hr
        | some ys =>
          simp only [h1, h2, Option.map_some, Option.some.injEq] at hx hr
          rw [← hx, ← hr, listAll2_sound hteq as bs xs ys hl h1 h2]
    · cases h
  · -- app
    rename_i n as m' bs
    split at h
    · rename_i hnm
      simp only [beq_iff_eq] at hnm; subst hnm
      split at h
      · rename_i hl
        simp only [Option.some.injEq] at h; subst h
        refine matchSpec_same (fun b e hx _ => by cases hx) (fun vx vr hx hr => ?_)
        simp only [evalS] at hx hr
        cases h1 : evalSList M as with
        | none => simp [h1] at hx
        | some xs =>
          cases h2 : evalSList M bs with
          | none => simp [h2] at hr
          | some ys =>
            simp only [h1, h2, Option.map_some, Option.some.injEq] at hx hr
            rw [← hx, ← hr, listAll2_sound hteq as bs xs ys hl h1 h2]
      · split at h
        · rename_i a b hnl
          split at h
          · -- odd head, negated argument
            rename_i hodd
            simp only [Option.some.injEq] at h; subst h
            simp only [Bool.and_eq_true, List.contains_iff_mem] at hodd
            intro vx vr hx hr
            obtain ⟨va, ha, rfl⟩ := evalS_app_one hx
            obtain ⟨vb, hb, rfl⟩ := evalS_app_one hr
            have := hteq a (negE b) hodd.2 va (-vb) ha (evalS_negE hb)
            subst this
            refine ⟨fun _ _ => by simp [sgn, hM.app_odd n hodd.1], ?_⟩
            intro b0 e0 vb0 hx0 _ _
            cases hx0
          · split at h
            · rename_i heven
              simp only [Option.some.injEq] at h; subst h
              simp only [Bool.and_eq_true, List.contains_iff_mem] at heven
              intro vx vr hx hr
              obtain ⟨va, ha, rfl⟩ := evalS_app_one hx
              obtain ⟨vb, hb, rfl⟩ := evalS_app_one hr
              have := hteq a (negE b) heven.2 va (-vb) ha (evalS_negE hb)
              subst this
              refine ⟨fun _ _ => by simp [sgn, hM.app_even n heven.1], ?_⟩
              intro b0 e0 vb0 hx0 _ _
              cases hx0
            · cases h
        · cases h
    · cases h
  · -- pow
    rename_i b e b' e'
    split at h
    · rename_i hc
      simp only [Bool.and_eq_true, Option.isNone_iff_eq_none] at hc
      obtain ⟨⟨he, he'⟩, hb⟩ := hc
      cases hk : findShift teq e e' shiftCandidates with
      | none => simp [hk] at h
      | some kq =>
        obtain ⟨k, inv⟩ := kq
        simp only [hk, Option.map_some, Option.some.injEq] at h
        subst h
        have hte := findShift_sound shiftCandidates k inv hk
        intro vx vr hx hr
        rw [evalS_pow_eq] at hx hr
        simp only [facVal, he, he'] at hx hr
        obtain ⟨vb, ve, hvb, hve, hne, rfl⟩ := pwVal_some hx
        obtain ⟨vb', ve', hvb', hve', hne', rfl⟩ := pwVal_some hr
        have h1 := hteq b b' hb vb vb' hvb hvb'
        subst h1
        cases inv with
        | false =>
          simp only [Bool.false_eq_true, if_false] at hte
          have h2 := hteq e (shiftExp e' k) hte ve _ hve (evalS_shiftExp k hve')
          subst h2
          have hlaw := hM.pw_add_int vb ve' k hne
          refine ⟨fun hs _ => ?_, ?_⟩
          · simp only at hs
            subst hs
            simp [sgn]
          · intro b0 e0 vb0 hx0 _ hb0
            simp only [Expr.pow.injEq] at hx0
            obtain ⟨rfl, rfl⟩ := hx0
            rw [hvb] at hb0
            simp only [Option.some.injEq] at hb0
            subst hb0
            simp only [sgn, invExp, Bool.false_eq_true, if_false, zpow_one]
            exact ⟨hlaw, hM.pw_ne_zero vb ve' hne⟩
        | true =>
          simp only [if_true] at hte
          have h2 := hteq e (shiftExp (negE e') k) hte ve _ hve (evalS_shiftExp k (evalS_negE hve'))
          subst h2
          have hlaw := hM.pw_add_int vb (-ve') k hne
          rw [hM.pw_neg vb ve' hne] at hlaw
          refine ⟨fun _ hi => (by cases hi), ?_⟩
          intro b0 e0 vb0 hx0 _ hb0
          simp only [Expr.pow.injEq] at hx0
          obtain ⟨rfl, rfl⟩ := hx0
          rw [hvb] at hb0
          simp only [Option.some.injEq] at hb0
          subst hb0
          simp only [sgn, invExp, Bool.false_eq_true, if_false, if_true, zpow_neg_one]
          exact ⟨hlaw, hM.pw_ne_zero vb ve' hne⟩
    · cases h
  · cases h

/-! ### trees -/

theorem treeEquivWith_sound (hM : Lawful M) (aeq : Expr → Expr → Option Match)
    (haeq : ∀ x r m, aeq x r = some m → MatchSpec M x r m) (a b : Expr)
    (h : treeEquivWith aeq a b = true) : Sound M a b := by
  intro va vb ha hb
  unfold treeEquivWith at h
  split at h
  · rename_i heq
    have := Expr.eqb_eq a b heq
    subst this
    rw [ha] at hb; exact Option.some.inj hb
  · simp only at h
    split at h
    · rename_i a' b' ha' hb'
      have ha1 := foldPow_sound hM a va ha
      have hb1 := foldPow_sound hM b vb hb
      have hdef : ∀ r ∈ atomsOf (foldPow a) ++ atomsOf (foldPow b), ∃ w, evalS M r = some w := by
        intro r hr
        rcases List.mem_append.mp hr with hr | hr
        · exact atomsOf_defined _ va ha1 r hr
        · exact atomsOf_defined _ vb hb1 r hr
      have hidx := idxOK_of_table (atomsOf (foldPow a) ++ atomsOf (foldPow b)) aeq hdef haeq
      have hKa := absE_sound hM _ _ hidx _ a' va ha' ha1
      have hKb := absE_sound hM _ _ hidx _ b' vb hb' hb1
      exact equiv_sound hM.I_sq h hKa hKb
    · cases h

theorem treeEquivF_sound (hM : Lawful M) : ∀ (f : Nat) (a b : Expr), treeEquivF f a b = true → Sound M a b
  | 0, a, b, h => by simp [treeEquivF] at h
  | f + 1, a, b, h => by
    simp only [treeEquivF] at h
    exact treeEquivWith_sound hM _
      (fun x r m hm => atomEqWith_spec hM (fun a b hab => treeEquivF_sound hM f a b hab) x r m hm) a b h

/-- **Soundness of `treeEquiv`** -/
theorem treeEquiv_sound (hM : Lawful M) {a b : Expr} (h : treeEquiv a b = true) : Sound M a b :=
  treeEquivF_sound hM _ a b h

end

end CSE
end SymVerif
