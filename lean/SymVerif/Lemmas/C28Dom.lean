import SymVerif.Lemmas.C28Truth
/-!
Soundness of substitution `x := e` and of `and_or<And>` with its FiniteSet-domain rule (`andD`), under numeric
valuations: atoms over `x` take their arithmetic value at `x`, opaque atoms are arbitrary.
-/
namespace SymVerif.C28
open SymVerif.Logic SymVerif.Logic.B

/-- numeric valuation: the symbol `x` has the integer value `x`; atoms over other symbols are valued by `v` -/
def nv (x : Int) (v : Val) : Val :=
  { rel := fun i n => if 8 ≤ i then (xrelSem (i - 8) x ^^ n) else v.rel i n
    mem := fun i => if 4 ≤ i then xmemSem (i - 4) x else v.mem i
    fs := fun l => decide (x ∈ l) }

theorem nv_ok (x : Int) (v : Val) (hv : v.ok) : (nv x v).ok := by
  intro i n
  simp only [nv]
  split
  · cases xrelSem (i - 8) x <;> cases n <;> rfl
  · exact hv i n

mutual
theorem subst_sound (x : Int) (v : Val) (hv : v.ok) :
    ∀ b, truth (nv x v) (substB x b) = truth (nv x v) b
  | .tt => by simp [substB]
  | .ff => by simp [substB]
  | .rel i n => by
    simp only [substB]
    split
    · rename_i h; simp [truth_const, truth, nv, h]
    · rfl
  | .mem i => by
    simp only [substB]
    split
    · rename_i h; simp [truth_const, truth, nv, h]
    · rfl
  | .fs l => by simp [substB, truth_const, truth, nv]
  | .and l => by
    simp only [substB, truth]
    rw [and_or_sound_fold _ (nv_ok x v hv)]
    simp only [foldOp, Bool.false_eq_true, if_false]
    exact substL_all x v hv l
  | .or l => by
    simp only [substB, truth]
    rw [and_or_sound_fold _ (nv_ok x v hv)]
    simp only [foldOp, if_true]
    exact substL_any x v hv l
  | .xor l => by
    simp only [substB, truth]
    rw [xor_sound_par _ (nv_ok x v hv)]
    exact substL_par x v hv l
  | .not b => by
    simp only [substB, truth]
    rw [not_sound _ (nv_ok x v hv), subst_sound x v hv b]
theorem substL_all (x : Int) (v : Val) (hv : v.ok) :
    ∀ l, allT (nv x v) (substL x l) = allT (nv x v) l
  | [] => by simp [substL]
  | a :: l => by simp only [substL, allT, subst_sound x v hv a, substL_all x v hv l]
theorem substL_any (x : Int) (v : Val) (hv : v.ok) :
    ∀ l, anyT (nv x v) (substL x l) = anyT (nv x v) l
  | [] => by simp [substL]
  | a :: l => by simp only [substL, anyT, subst_sound x v hv a, substL_any x v hv l]
theorem substL_par (x : Int) (v : Val) (hv : v.ok) :
    ∀ l, parT (nv x v) (substL x l) = parT (nv x v) l
  | [] => by simp [substL]
  | a :: l => by simp only [substL, parT, subst_sound x v hv a, substL_par x v hv l]
end

theorem classify_t (x : Int) (v : Val) (hv : v.ok) (rc : B) (h : classify x rc = .t) :
    truth (nv x v) rc = true := by
  unfold classify at h
  rw [← subst_sound x v hv rc]
  split at h
  · rename_i heq; rw [heq]; rfl
  · cases h
  · cases h

theorem classify_f (x : Int) (v : Val) (hv : v.ok) (rc : B) (h : classify x rc = .f) :
    truth (nv x v) rc = false := by
  unfold classify at h
  rw [← subst_sound x v hv rc]
  split at h
  · cases h
  · rename_i heq; rw [heq]; rfl
  · cases h

theorem allT_erase (v : Val) (a : B) : ∀ l, a ∈ l → allT v l = (truth v a && allT v (l.erase a))
  | [], h => by simp at h
  | b :: t, h => by
    by_cases hb : b = a
    · subst hb
      simp [allT]
    · have hne : (b == a) = false := by simpa using hb
      have ht : a ∈ t := by
        rcases List.mem_cons.1 h with h | h
        · exact absurd h.symm hb
        · exact h
      simp only [List.erase_cons, hne, Bool.false_eq_true, if_false, allT, allT_erase v a t ht]
      cases truth v a <;> cases truth v b <;> rfl

theorem finishAnd_sound (v : Val) (args : List B) : truth v (finishAnd args) = allT v args := by
  unfold finishAnd
  split
  · simp [truth, allT]
  · simp [allT]
  · simp [truth]

theorem fsContains_sound (x : Int) (v : Val) (l : List Int) :
    truth (nv x v) (fsContains l) = decide (x ∈ l) := by
  unfold fsContains
  split
  · rename_i h
    have : l = [] := by simpa using h
    simp [this, truth]
  · simp [truth, nv]

/-- `and_or<And>` with the FiniteSet-domain rule preserves the conjunction at every integer value of `x`. -/
theorem andD_sound (x : Int) (v : Val) (hv : v.ok) :
    ∀ (fuel : Nat) (s : List B) (b : B), andD fuel s = some b → truth (nv x v) b = allT (nv x v) s
  | 0, s, b, h => by simp [andD] at h
  | fuel + 1, s, b, h => by
    have hV := nv_ok x v hv
    have hc := collect_and (nv x v) s []
    unfold andD at h
    split at h
    · rename_i hcol
      rw [hcol] at hc
      simp only [Option.some.injEq] at h
      simp only at hc
      rw [← h, hc]; rfl
    · rename_i args hcol
      rw [hcol] at hc
      simp only [allT, Bool.and_true] at hc
      rw [← hc]
      split at h
      · rename_i hh
        simp only [Option.some.injEq] at h
        rw [← h, hasCompl_all _ hV args hh]; rfl
      · split at h
        · simp only [Option.some.injEq] at h
          rw [← h, finishAnd_sound]
        · rename_i fset hfil
          have hmem : B.fs fset ∈ args := by
            have : B.fs fset ∈ args.filter isFS := by rw [hfil]; exact List.mem_cons_self
            exact (List.mem_filter.1 this).1
          have hsplit := allT_erase (nv x v) (.fs fset) args hmem
          have hrc : truth (nv x v) (andOr false (args.erase (.fs fset)))
              = allT (nv x v) (args.erase (.fs fset)) := by
            rw [and_or_sound_fold _ hV]; simp [foldOp]
          have hfs : truth (nv x v) (.fs fset) = decide (x ∈ fset) := by simp [truth, nv]
          split at h
          · simp only [Option.some.injEq] at h
            rw [← h, finishAnd_sound]
          · simp only at h
            split at h
            · -- no element leaves anything symbolic
              rename_i hsym
              simp only [Option.some.injEq] at h
              rw [← h, fsContains_sound, hsplit, hfs, ← hrc]
              by_cases hx : x ∈ fset
              · have hno : classify x (andOr false (args.erase (.fs fset))) ≠ .other := by
                  intro hcl
                  have : fset.any (fun e => classify e (andOr false (args.erase (.fs fset))) == .other) = true :=
                    List.any_eq_true.2 ⟨x, hx, by simp [hcl]⟩
                  simp [this] at hsym
                cases hcl : classify x (andOr false (args.erase (.fs fset)))
                · rw [classify_t x v hv _ hcl]
                  simp [List.mem_filter, hx, hcl]
                · rw [classify_f x v hv _ hcl]
                  simp [List.mem_filter, hx, hcl]
                · exact absurd hcl hno
              · simp [List.mem_filter, hx]
            · split at h
              · -- some elements dropped, the rest stays symbolic: re-enter and_or
                have ih := andD_sound x v hv fuel _ b h
                rw [ih]
                simp only [allT, Bool.and_true, fsContains_sound, hsplit, hfs, ← hrc]
                by_cases hx : x ∈ fset
                · cases hcl : classify x (andOr false (args.erase (.fs fset)))
                  · simp [List.mem_filter, hx, hcl]
                  · rw [classify_f x v hv _ hcl]
                    simp
                  · simp [List.mem_filter, hx, hcl]
                · simp [List.mem_filter, hx]
              · simp only [Option.some.injEq] at h
                rw [← h, finishAnd_sound]
        · cases h

end SymVerif.C28
