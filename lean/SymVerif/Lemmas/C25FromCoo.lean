import SymVerif.Lemmas.C25Dup
/-!
C25 — `CSRMatrix::from_coo`: canonical result whose dense meaning is the coordinate list with
duplicates summed; no out-of-range access when the coordinates are inside the matrix.
-/
namespace SymVerif.C25
open SymVerif.CSR Finset

theorem replicate_get! {α : Type} [Inhabited α] (n : Nat) (v : α) (k : Nat) (hk : k < n) :
    (Array.replicate n v)[k]! = v := by
  have h1 : k < (Array.replicate n v).size := by simpa using hk
  rw [getElem!_pos (Array.replicate n v) k h1]
  simp

theorem fromCoo_spec (row col : Nat) (ts : List Triple) (h : ∀ t ∈ ts, t.1 < row ∧ t.2.1 < col) :
    ∃ m, fromCoo row col ts = .ok m ∧ CanonCSR m ∧ m.row = row ∧ m.col = col ∧
      ∀ i c, i < row → dense m i c = cooSum ts i c := by
  have hrowlt : ∀ t ∈ ts, t.1 < row := fun t ht => (h t ht).1
  have hbrow := base_row ts row hrowlt
  have hbmono : ∀ a b, a ≤ b → b ≤ row → base ts a ≤ base ts b := fun a b hab _ => base_mono ts a b hab
  -- 1 count
  obtain ⟨p1, e1, s1, g1⟩ := cooCount_spec ts (Array.replicate (row + 1) 0)
    (fun t ht => by simp; have := hrowlt t ht; omega)
  have s1' : p1.size = row + 1 := by simpa using s1
  have g1' : ∀ r, r ≤ row → p1[r]! = cnt ts r := by
    intro r hr
    rw [g1 r (by simp; omega), replicate_get! _ _ _ (by omega)]; simp
  -- 2 cumulative sum
  obtain ⟨p2, e2, s2, g2⟩ := cumsumLoop_spec row 0 0 p1 (by omega)
  have g2' : ∀ r, r < row → p2[r]! = base ts r := by
    intro r hr
    rw [g2 r, if_pos (by omega)]
    unfold base
    simp only [Nat.zero_add]
    apply Finset.sum_congr rfl
    intro r' hr'
    rw [Finset.mem_Ico] at hr'
    exact g1' r' (by omega)
  -- 3 p[row] = nnz
  have hrow2 : row < p2.size := by omega
  have g3 : ∀ r, r ≤ row → (p2.set row ts.length hrow2)[r]! = base ts r := by
    intro r hr
    rw [set_get!]
    by_cases hrr : r = row
    · rw [if_pos hrr, hrr, hbrow]
    · rw [if_neg hrr]; exact g2' r (by omega)
  -- 4 scatter
  have hcolpos : ∀ k, k < ts.length → (0 : Nat) < col := by
    intro k hk
    cases ts with
    | nil => simp at hk
    | cons t ts => have := (h t List.mem_cons_self).2; omega
  obtain ⟨p4, j1, x1, e4, s4, sj1, sx1, g4, g4r, hcol1, sum4⟩ :=
    scatter_spec row col ts.length (base ts) hbmono (by omega) ts (p2.set row ts.length hrow2)
      (Array.replicate ts.length 0) (Array.replicate ts.length 0)
      (by simp; omega) (by simp) (by simp) h
      (fun r hr => by
        rw [g3 r (by omega), base_succ]; exact ⟨Nat.le_refl _, rfl⟩)
      (fun k hk => by rw [replicate_get! _ _ _ hk]; exact hcolpos k hk)
  -- 5 shift
  obtain ⟨p5, e5, s5, g5⟩ := shiftLoop_spec (row + 1) 0 0 p4 (by omega)
  have g5' : ∀ r, r ≤ row → p5[r]! = base ts r := by
    intro r hr
    rw [g5 r, if_pos (by omega)]
    by_cases hr0 : r = 0
    · rw [if_pos hr0, hr0, base_zero]
    · rw [if_neg hr0, g4 (r - 1) (by omega)]
      congr 1; omega
  have s5' : p5.size = row + 1 := by omega
  have hmono5 : ∀ a b, a ≤ b → b ≤ row → p5[a]! ≤ p5[b]! := by
    intro a b hab hb
    rw [g5' a (by omega), g5' b hb]; exact hbmono a b hab hb
  have hlast5 : p5[row]! = ts.length := by rw [g5' row (Nat.le_refl _), hbrow]
  -- 6 sort
  obtain ⟨j2, x2, e6, sj2, sx2, _, hcol2, srt⟩ :=
    sortRows_spec p5 row col ts.length s5' hmono5 (by omega) row 0 j1 x1 (by omega) sj1 sx1 hcol1
  -- 7 sum duplicates
  obtain ⟨p6, j3, x3, e7, hcanon, hd⟩ :=
    sumDuplicates_spec p5 j2 x2 row col s5' (by rw [g5' 0 (Nat.zero_le _), base_zero]) hmono5
      (by omega) (by omega) (fun r hr => (srt r (Nat.zero_le _) hr).1)
      (fun k hk => hcol2 k (by omega))
  unfold fromCoo
  simp only [e1, ok_bind, e2, wr_lt _ hrow2, e4, e5, e6, e7, mk_of_canon hcanon]
  refine ⟨_, rfl, hcanon, rfl, rfl, fun i c hi => ?_⟩
  rw [dense_eq_denseA]
  simp only
  rw [hd i c hi]
  unfold denseA
  rw [(srt i (Nat.zero_le _) hi).2 c, g5' i (by omega), g5' (i + 1) (by omega), sum4 i c hi,
      g3 i (by omega)]
  simp

end SymVerif.C25
