import Mathlib.NumberTheory.LegendreSymbol.JacobiSymbol
import SymVerif.Lemmas.C43Jacobi
import SymVerif.Lemmas.C43Powm
import SymVerif.Lemmas.C43PP
/-! C43, `mp_legendre` of mp_boost.cpp (Euler's criterion through `mp_powm`) against the specification. -/
namespace SymVerif.C43
open SymVerif NumberTheorySymbols

/-- **`mp_legendre` = specification** for every odd prime modulus below 10^6 (where the specification's
primality test is trial division): Euler's criterion `a^((p-1)/2) ≡ (a|p) (mod p)`. -/
theorem boost_legendre_nat (a : Int) (q : Nat) (h2 : 2 < q) (hlt : q < 1000000) (hp : Nat.Prime q) :
    MpBoost.legendre a (q : Int) = MpSpec.legendre a (q : Int) := by
  haveI : Fact q.Prime := ⟨hp⟩
  have hodd : (q : Int) % 2 = 1 := by
    rcases hp.eq_two_or_odd with h | h <;> omega
  unfold MpBoost.legendre MpSpec.legendre
  have hprime : MpSpec.isPrime (q : Int).toNat = true := by
    rw [Int.toNat_natCast]
    unfold MpSpec.isPrime
    rw [if_pos (by omega)]
    exact (trialPrime_iff _).mpr hp
  rw [if_pos ⟨by omega, hprime⟩]
  rw [boost_powm_spec a _ (q : Int) (by omega)]
  have he : ((q : Int) - 1).tdiv 2 = ((q : Int) - 1) / 2 := Int.tdiv_eq_ediv_of_nonneg (by omega)
  have hexp : (((q : Int) - 1) / 2).toNat = q / 2 := by omega
  unfold MpSpec.powm
  rw [he, if_pos (by omega), spec_powModNat _ _ _ (by omega), hexp]
  simp only
  rw [spec_jacobi_meaning a (q : Int) hodd]
  congr 1
  have hsgn : ¬ ((q : Int) < 0 ∧ a < 0) := by omega
  rw [if_neg hsgn, one_mul, Int.natAbs_natCast, ← jacobiSym.legendreSym.to_jacobiSym]
  -- Euler's criterion in `ZMod q`
  have hr0 : 0 ≤ a ^ (q / 2) % (q : Int) := Int.emod_nonneg _ (by omega)
  have hr1 : a ^ (q / 2) % (q : Int) < q := Int.emod_lt_of_pos _ (by omega)
  have hz : ((a ^ (q / 2) % (q : Int) : Int) : ZMod q) = (legendreSym q a : ZMod q) := by
    rw [legendreSym.eq_pow, ZMod.intCast_mod]
    push_cast
    rfl
  rw [ZMod.intCast_eq_intCast_iff'] at hz
  rw [Int.emod_eq_of_lt hr0 hr1] at hz
  have htri := jacobiSym.trichotomy a q
  rw [← jacobiSym.legendreSym.to_jacobiSym] at htri
  rcases htri with h | h | h
  · rw [h] at hz ⊢
    have : a ^ (q / 2) % (q : Int) = 0 := by rw [hz]; simp
    rw [this]; simp
  · rw [h] at hz ⊢
    have : a ^ (q / 2) % (q : Int) = 1 := by rw [hz]; exact Int.emod_eq_of_lt (by omega) (by omega)
    rw [this]; simp
  · rw [h] at hz ⊢
    have : a ^ (q / 2) % (q : Int) = (q : Int) - 1 := by
      rw [hz]
      have e : (-1 : Int) = ((q : Int) - 1) + (q : Int) * (-1) := by ring
      rw [e, Int.add_mul_emod_self_left]
      exact Int.emod_eq_of_lt (by omega) (by omega)
    rw [this]
    have : ¬ ((q : Int) - 1 ≤ 1) := by omega
    rw [if_neg this]

/-- **`mp_legendre` = specification** for every odd prime modulus below 10^6 (where the specification's
primality test is trial division): Euler's criterion `a^((p-1)/2) ≡ (a|p) (mod p)`. -/
theorem boost_legendre_spec (a p : Int) (h2 : 2 < p) (hlt : p < 1000000) (hp : Nat.Prime p.toNat) :
    MpBoost.legendre a p = MpSpec.legendre a p := by
  obtain ⟨q, rfl⟩ : ∃ q : Nat, p = (q : Int) := ⟨p.toNat, (Int.toNat_of_nonneg (by omega)).symm⟩
  rw [Int.toNat_natCast] at hp
  exact boost_legendre_nat a q (by omega) (by omega) hp

end SymVerif.C43
