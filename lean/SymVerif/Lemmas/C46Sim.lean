import SymVerif.Lemmas.C46Inv
/-!
C46: the executable model (`Array` stack, `Frozen` table indexed by the stack depth, bounds-checked)
simulates the abstract algorithm; in particular no index leaves `Frozen` / `F`.
-/
namespace SymVerif.C46
open SymVerif.LDE

theorem getF_ok {F : Array Bool} {i : ℕ} (h : i < F.size) : getF F i = .ok (fz F i) := by
  simp [getF, fz, h, Array.getD_eq_getD_getElem?]

theorem setF_ok {F : Array Bool} {i : ℕ} (h : i < F.size) :
    setF F i = .ok (F.setIfInBounds i true) := by
  simp [setF, h, Array.setIfInBounds]

theorem setRow_ok {fr : Array (Array Bool)} {r : ℕ} (F : Array Bool) (h : r < fr.size) :
    setRow fr r F = .ok (fr.set r F h) := by
  simp [setRow, h]

theorem take_set_succ {α : Type} (l : List α) (n : ℕ) (a : α) (h : n < l.length) :
    (l.set n a).take (n + 1) = l.take n ++ [a] := by
  rw [List.take_add_one]
  simp [h, List.take_set_of_le]

theorem take_set_gt {α : Type} (l : List α) (n m : ℕ) (a : α) (h : m ≤ n) :
    (l.set n a).take m = l.take m := by
  rw [List.take_set_of_le h]

theorem sim_inner (A : List Vec) (product : Vec) (basis : List Vec) (tZero : Bool) (t : Vec) (q : ℕ) :
    ∀ (rem i : ℕ) (s : Inner), i + rem = q → s.F.size = q → s.frozen.size = q → s.P.size = s.n →
      s.n ≤ cnt s.F → s.T = (if i = 0 then t else incAt t (i - 1) 1) →
      ∃ r, innerLoop A product basis tZero rem i s = .ok r ∧
        r.P.toList = s.P.toList ++ (akids A product basis tZero t rem i s.F).map Prod.fst ∧
        r.frozen.size = q ∧
        r.frozen.toList.take (s.n + (akids A product basis tZero t rem i s.F).length)
          = s.frozen.toList.take s.n ++ (akids A product basis tZero t rem i s.F).map Prod.snd := by
  intro rem
  induction rem with
  | zero =>
    intro i s _ _ hfr _ _ _
    exact ⟨s, rfl, by simp [akids], hfr, by simp [akids]⟩
  | succ rem ih =>
    intro i s hi hF hfr hP hn hT
    have hiq : i < s.F.size := by omega
    have hT' : (if i > 0 then incAt (incAt s.T i 1) (i - 1) (-1) else incAt s.T i 1) = incAt t i 1 := by
      cases i with
      | zero => simp at hT; simp [hT]
      | succ i' =>
        simp only [Nat.add_sub_cancel, Nat.succ_ne_zero, if_false] at hT
        simp only [Nat.add_sub_cancel, gt_iff_lt, Nat.zero_lt_succ, if_true]
        rw [hT]; exact incAt_move t i'
    by_cases hc : (fz s.F i == false && kcond A product basis tZero t i) = true
    · -- pushed
      have hfz : fz s.F i = false := by
        rw [Bool.and_eq_true] at hc; simpa using hc.1
      have hnq : s.n < s.frozen.size := by
        have := cnt_lt_of_false hiq hfz; omega
      obtain ⟨r, hr, hrP, hrs, hrf⟩ := ih (i + 1)
        { T := incAt t i 1, F := s.F.setIfInBounds i true, n := s.n + 1, P := s.P.push (incAt t i 1),
          frozen := s.frozen.set s.n s.F hnq }
        (by omega) (by simpa using hF) (by simpa using hfr) (by simp [hP])
        (by show s.n + 1 ≤ cnt (s.F.setIfInBounds i true); rw [cnt_set hiq hfz]; omega) (by simp)
      refine ⟨r, ?_, ?_, hrs, ?_⟩
      · rw [← hr]
        have hc' := hc
        unfold kcond at hc'
        simp only [innerLoop, hT', getF_ok hiq, hc', Nat.add_sub_cancel, setRow_ok s.F hnq,
          setF_ok hiq, bind, Except.bind, if_true]
      · unfold akids
        rw [if_pos hc]
        simp only [Array.toList_push, List.append_assoc, List.singleton_append] at hrP
        simpa using hrP
      · unfold akids
        rw [if_pos hc]
        simp only [List.length_cons, List.map_cons]
        have : s.n + ((akids A product basis tZero t rem (i + 1) (s.F.setIfInBounds i true)).length + 1)
            = s.n + 1 + (akids A product basis tZero t rem (i + 1) (s.F.setIfInBounds i true)).length := by
          omega
        rw [this, hrf]
        simp only [Array.toList_set]
        rw [take_set_succ _ _ _ (by simpa using hnq)]
        simp
    · -- not pushed
      obtain ⟨r, hr, hrP, hrs, hrf⟩ := ih (i + 1) { s with T := incAt t i 1 }
        (by omega) hF hfr hP hn (by simp)
      refine ⟨r, ?_, ?_, hrs, ?_⟩
      · rw [← hr]
        have hc' := hc
        unfold kcond at hc'
        simp only [innerLoop, hT', getF_ok hiq, hc', bind, Except.bind]
        rfl
      · unfold akids
        rw [if_neg hc]
        exact hrP
      · unfold akids
        rw [if_neg hc]
        exact hrf

/-- the concrete state represents the abstract stack `L` (top first) -/
def Rel (q : ℕ) (s : St) (L : List Ent) : Prop :=
  s.frozen.size = q ∧ s.P.toList = L.reverse.map Prod.fst ∧
    s.frozen.toList.take L.length = L.reverse.map Prod.snd

theorem Rel.size {q : ℕ} {s : St} {L : List Ent} (h : Rel q s L) : s.P.size = L.length := by
  have := congrArg List.length h.2.1
  simpa using this

theorem sim_step (A : List Vec) (q : ℕ) (s : St) (t : Vec) (F : Array Bool) (rest : List Ent)
    (hrel : Rel q s ((t, F) :: rest)) (hinv : AInv A q ((t, F) :: rest) s.basis) :
    ∃ s', step A q s = .ok s' ∧ Rel q s' (astep A q ((t, F) :: rest, s.basis)).1 ∧
      s'.basis = (astep A q ((t, F) :: rest, s.basis)).2 := by
  obtain ⟨hfs, hP, hfr⟩ := hrel
  obtain ⟨htl, hFs, _⟩ : t.length = q ∧ F.size = q ∧ ∀ i, 0 ≤ cmp t i :=
    hinv.shape (t, F) List.mem_cons_self
  have hdepth : rest.length ≤ cnt F := hinv.depth.1
  have hsize : s.P.size = rest.length + 1 := by
    have := congrArg List.length hP; simpa using this
  have hP' : s.P.toList = rest.reverse.map Prod.fst ++ [t] := by simpa using hP
  have hn : s.P.size - 1 = rest.length := by omega
  have hget : s.P.getD (s.P.size - 1) [] = t := by
    rw [hn, Array.getD_eq_getD_getElem?, ← Array.getElem?_toList, hP']
    simp
  have hpop : s.P.pop.toList = rest.reverse.map Prod.fst := by
    rw [Array.toList_pop, hP', List.dropLast_concat]
  have hlen : rest.length < s.frozen.size := by
    have : cnt F < q := hinv.free (t, F) List.mem_cons_self
    omega
  have hfr' : s.frozen.toList.take rest.length ++ [s.frozen[rest.length]]
      = rest.reverse.map Prod.snd ++ [F] := by
    have h1 : s.frozen.toList.take (rest.length + 1)
        = s.frozen.toList.take rest.length ++ [s.frozen[rest.length]] := by
      rw [List.take_add_one]; simp [hlen]
    rw [← h1]; simpa using hfr
  have hinj := List.append_inj hfr' (by simp; omega)
  have hrow : s.frozen[rest.length] = F := by simpa using hinj.2
  have hgetRow : getRow s.frozen (s.P.size - 1) = .ok F := by
    rw [hn]; simp [getRow, hlen, hrow]
  by_cases hc : (isZero (mulVec A t) && !isZero t) = true
  · refine ⟨{ s with P := s.P.pop, basis := t :: s.basis }, ?_, ?_, ?_⟩
    · simp only [step, hget, hc, if_true]
    · have he : astep A q ((t, F) :: rest, s.basis) = (rest, t :: s.basis) := by simp [astep, hc]
      rw [he]
      exact ⟨hfs, hpop, hinj.1⟩
    · simp [astep, hc]
  · have he : astep A q ((t, F) :: rest, s.basis)
        = ((akids A (mulVec A t) s.basis (isZero t) t q 0 F).reverse ++ rest, s.basis) := by
      simp [astep, hc]
    obtain ⟨r, hr, hrP, hrs, hrf⟩ := sim_inner A (mulVec A t) s.basis (isZero t) t q q 0
      { T := t, F := F, n := rest.length, P := s.P.pop, frozen := s.frozen }
      (by omega) hFs hfs (by simp [hsize]) hdepth (by simp)
    refine ⟨{ P := r.P, frozen := r.frozen, basis := s.basis }, ?_, ?_, ?_⟩
    · have hc2 : (isZero (mulVec A t) && !isZero t) = false := by simpa using hc
      rw [hn] at hget hgetRow
      simp only [step, hn, hget, hc2, hgetRow, hr, bind, Except.bind]
      rfl
    · rw [he]
      refine ⟨hrs, ?_, ?_⟩
      · simp only [hrP, hpop, List.reverse_append, List.reverse_reverse, List.map_append]
      · simp only [List.length_append, List.length_reverse, List.reverse_append,
          List.reverse_reverse, List.map_append]
        rw [Nat.add_comm, hrf, hinj.1]
    · rw [he]

theorem sim_main (A : List Vec) (q : ℕ) (hA : ∀ r ∈ A, r.length = q) :
    ∀ (fuel : ℕ) (s : St) (L : List Ent), Rel q s L → AInv A q L s.basis →
      mainLoop A q fuel s = .error .fuel ∨
        ∃ out, mainLoop A q fuel s = .ok out ∧ AInv A q [] out.reverse := by
  intro fuel
  induction fuel with
  | zero => intro s L _ _; left; rfl
  | succ fuel ih =>
    intro s L hrel hinv
    match L, hrel, hinv with
    | [], hrel, hinv =>
      right
      have h0 : s.P.size = 0 := by simpa using hrel.size
      refine ⟨s.basis.reverse, ?_, by simpa using hinv⟩
      simp [mainLoop, h0]
    | (t, F) :: rest, hrel, hinv =>
      have hpos : s.P.size > 0 := by have := hrel.size; simp at this; omega
      obtain ⟨s', hs', hrel', hb'⟩ := sim_step A q s t F rest hrel hinv
      have hinv' := hinv.step hA
      rw [← hb'] at hinv'
      have := ih s' _ hrel' hinv'
      simp only [mainLoop, hpos, if_true, hs', bind, Except.bind]
      exact this

theorem Rel.init (q : ℕ) (hq : 0 < q) :
    Rel q (initSt q) [(List.replicate q 0, Array.replicate q false)] := by
  refine ⟨by simp [initSt], by simp [initSt], ?_⟩
  simp only [initSt, List.length_singleton, List.reverse_singleton, List.map_cons, List.map_nil]
  rw [Array.toList_setIfInBounds]
  cases q with
  | zero => omega
  | succ q' => simp [List.replicate_succ]

end SymVerif.C46
