/-
C03 helper lemmas: the token encoding `key` is injective, `lexLt` is a strict total order.
-/
import SymVerif.Model.Arith

namespace SymVerif.Arith

theorem encInt_inj {a b : Int} (h : encInt a = encInt b) : a = b := by
  unfold encInt at h
  split at h <;> split at h <;> omega

theorem encStr_append_inj {a b : String} {r s : List Nat}
    (h : encStr a ++ r = encStr b ++ s) : a = b ∧ r = s := by
  unfold encStr at h
  simp only [List.cons_append, List.cons.injEq] at h
  obtain ⟨hl, h⟩ := h
  have hlen : (a.toList.map Char.toNat).length = (b.toList.map Char.toNat).length := by
    simp [String.length_toList, hl]
  obtain ⟨h1, h2⟩ := List.append_inj h hlen
  refine ⟨?_, h2⟩
  have : a.toList = b.toList :=
    (List.map_inj_right (fun x y hxy => Char.toNat_inj.mp hxy)).mp h1
  exact String.toList_inj.mp this

theorem uint64_toNat_inj {a b : UInt64} (h : a.toNat = b.toNat) : a = b :=
  UInt64.toNat_inj.mp h

mutual
  theorem key_append_inj : ∀ (a b : Expr) (r s : List Nat),
      key a ++ r = key b ++ s → a = b ∧ r = s
    | .int n, b, r, s, h => by
      cases b <;> simp [key] at h
      exact ⟨by rw [encInt_inj h.1], h.2⟩
    | .rat n d, b, r, s, h => by
      cases b <;> simp [key] at h
      obtain ⟨h1, h2, h3⟩ := h
      exact ⟨by rw [encInt_inj h1, h2], h3⟩
    | .cplx re im, b, r, s, h => by
      cases b <;> simp [key] at h
      rename_i re' im'
      obtain ⟨h1, h2, h3, h4, h5⟩ := h
      refine ⟨?_, h5⟩
      cases re; cases im; cases re'; cases im'
      simp at h1 h2 h3 h4
      simp [encInt_inj h1, h2, encInt_inj h3, h4]
    | .dbl x, b, r, s, h => by
      cases b <;> simp [key] at h
      exact ⟨by rw [uint64_toNat_inj h.1], h.2⟩
    | .cdbl x y, b, r, s, h => by
      cases b <;> simp [key] at h
      exact ⟨by rw [uint64_toNat_inj h.1, uint64_toNat_inj h.2.1], h.2.2⟩
    | .infty d, b, r, s, h => by
      cases b <;> simp [key] at h
      exact ⟨by rw [encInt_inj h.1], h.2⟩
    | .nan, b, r, s, h => by
      cases b <;> simp [key] at h
      exact ⟨rfl, h⟩
    | .sym n, b, r, s, h => by
      cases b <;> simp [key] at h
      obtain ⟨h1, h2⟩ := encStr_append_inj h
      exact ⟨by rw [h1], h2⟩
    | .dummy n i, b, r, s, h => by
      cases b <;> simp [key] at h
      obtain ⟨h0, h⟩ := h
      obtain ⟨h1, h2⟩ := encStr_append_inj h
      exact ⟨by rw [h1, h0], h2⟩
    | .const n, b, r, s, h => by
      cases b <;> simp [key] at h
      obtain ⟨h1, h2⟩ := encStr_append_inj h
      exact ⟨by rw [h1], h2⟩
    | .add c ts, b, r, s, h => by
      cases b <;> simp [key] at h
      rename_i c' ts'
      obtain ⟨h1, h2⟩ := key_append_inj c c' _ _ h
      obtain ⟨h3, h4⟩ := keyPairs_append_inj ts ts' _ _ h2
      exact ⟨by rw [h1, h3], h4⟩
    | .mul c ts, b, r, s, h => by
      cases b <;> simp [key] at h
      rename_i c' ts'
      obtain ⟨h1, h2⟩ := key_append_inj c c' _ _ h
      obtain ⟨h3, h4⟩ := keyPairs_append_inj ts ts' _ _ h2
      exact ⟨by rw [h1, h3], h4⟩
    | .pow x y, b, r, s, h => by
      cases b <;> simp [key] at h
      rename_i x' y'
      obtain ⟨h1, h2⟩ := key_append_inj x x' _ _ h
      obtain ⟨h3, h4⟩ := key_append_inj y y' _ _ h2
      exact ⟨by rw [h1, h3], h4⟩
    | .fsym n args, b, r, s, h => by
      cases b <;> simp [key] at h
      rename_i n' args'
      obtain ⟨h1, h2⟩ := encStr_append_inj h
      obtain ⟨h3, h4⟩ := keyList_append_inj args args' _ _ h2
      exact ⟨by rw [h1, h3], h4⟩
    | .app n args, b, r, s, h => by
      cases b <;> simp [key] at h
      rename_i n' args'
      obtain ⟨h1, h2⟩ := encStr_append_inj h
      obtain ⟨h3, h4⟩ := keyList_append_inj args args' _ _ h2
      exact ⟨by rw [h1, h3], h4⟩
    | .bool x, b, r, s, h => by
      cases b <;> simp [key] at h
      rename_i y
      refine ⟨?_, h.2⟩
      cases x <;> cases y <;> simp at h ⊢
  theorem keyPairs_append_inj : ∀ (l m : List (Expr × Expr)) (r s : List Nat),
      keyPairs l ++ r = keyPairs m ++ s → l = m ∧ r = s
    | [], m, r, s, h => by
      cases m with
      | nil => simpa [keyPairs] using h
      | cons p m => obtain ⟨k, v⟩ := p; simp [keyPairs] at h
    | (k, v) :: l, m, r, s, h => by
      cases m with
      | nil => simp [keyPairs] at h
      | cons p m =>
        obtain ⟨k', v'⟩ := p
        simp [keyPairs] at h
        obtain ⟨h1, h2⟩ := key_append_inj k k' _ _ h
        obtain ⟨h3, h4⟩ := key_append_inj v v' _ _ h2
        obtain ⟨h5, h6⟩ := keyPairs_append_inj l m _ _ h4
        exact ⟨by rw [h1, h3, h5], h6⟩
  theorem keyList_append_inj : ∀ (l m : List Expr) (r s : List Nat),
      keyList l ++ r = keyList m ++ s → l = m ∧ r = s
    | [], m, r, s, h => by
      cases m with
      | nil => simpa [keyList] using h
      | cons p m => simp [keyList] at h
    | a :: l, m, r, s, h => by
      cases m with
      | nil => simp [keyList] at h
      | cons b m =>
        simp [keyList] at h
        obtain ⟨h1, h2⟩ := key_append_inj a b _ _ h
        obtain ⟨h3, h4⟩ := keyList_append_inj l m _ _ h2
        exact ⟨by rw [h1, h3], h4⟩
end

/-- the encoding is injective: structurally different model terms have different keys -/
theorem key_inj {a b : Expr} (h : key a = key b) : a = b := by
  have := key_append_inj a b [] [] (by simpa using h)
  exact this.1

theorem key_beq_iff {a b : Expr} : (key a == key b) = true ↔ a = b := by
  constructor
  · intro h; exact key_inj (by simpa using h)
  · intro h; simp [h]

/-! ### `lexLt` is a strict total order -/

theorem lexLt_irrefl : ∀ a : List Nat, lexLt a a = false
  | [] => rfl
  | x :: xs => by simp [lexLt, lexLt_irrefl xs]

theorem lexLt_trans : ∀ {a b c : List Nat}, lexLt a b = true → lexLt b c = true → lexLt a c = true
  | [], [], _, h, _ => by simp [lexLt] at h
  | [], _ :: _, [], _, h => by simp [lexLt] at h
  | [], _ :: _, _ :: _, _, _ => by simp [lexLt]
  | _ :: _, [], _, h, _ => by simp [lexLt] at h
  | _ :: _, _ :: _, [], _, h => by simp [lexLt] at h
  | x :: xs, y :: ys, z :: zs, h1, h2 => by
    simp only [lexLt] at h1 h2 ⊢
    split at h1
    · split at h2
      · have : x < z := by omega
        simp [this]
      · split at h2
        · simp at h2
        · have : x < z := by omega
          simp [this]
    · split at h1
      · simp at h1
      · split at h2
        · have : x < z := by omega
          simp [this]
        · split at h2
          · simp at h2
          · have e1 : x = y := by omega
            have e2 : y = z := by omega
            subst e1; subst e2
            simp [lexLt_trans h1 h2]

theorem lexLt_asymm {a b : List Nat} (h : lexLt a b = true) : lexLt b a = false := by
  cases hb : lexLt b a with
  | false => rfl
  | true =>
    have := lexLt_trans h hb
    simp [lexLt_irrefl] at this

theorem lexLt_total : ∀ {a b : List Nat}, lexLt a b = false → lexLt b a = false → a = b
  | [], [], _, _ => rfl
  | [], _ :: _, h, _ => by simp [lexLt] at h
  | _ :: _, [], _, h => by simp [lexLt] at h
  | x :: xs, y :: ys, h1, h2 => by
    simp only [lexLt] at h1 h2
    by_cases hxy : x < y
    · simp [hxy] at h1
    · by_cases hyx : y < x
      · simp [hyx] at h2
      · simp [hxy, hyx] at h1 h2
        have e : x = y := by omega
        subst e
        rw [lexLt_total h1 h2]

theorem lexLt_ne {a b : List Nat} (h : lexLt a b = true) : a ≠ b := by
  intro e; subst e; simp [lexLt_irrefl] at h

end SymVerif.Arith
