/-
C31 helper lemmas, part 3: series_log (formal logarithm `∫ S'/S`) and series_exp (Newton iteration
on the logarithm, characterised by the differential equation `E' = E S'`, `E(0) = 1`).
-/
import SymVerif.Lemmas.C31Newton

namespace SymVerif.C31
open SymVerif.Series PowerSeries

theorem eqMod_mul_zero {a b : ℕ} {f g : ℚ⟦X⟧} (hf : EqMod a f 0) (hg : EqMod b g 0) :
    EqMod (a + b) (f * g) 0 := by
  rw [eqMod_iff_dvd] at *
  simp only [sub_zero] at *
  rw [pow_add]
  exact mul_dvd_mul hf hg

theorem integ_zero : integ 0 = 0 := by
  ext n
  cases n with
  | zero => simp
  | succ n => simp

/-- formal logarithm of a power series with non-zero constant term (constant of integration 0) -/
noncomputable def flog (S : ℚ⟦X⟧) : ℚ⟦X⟧ := integ (d⁄dX ℚ S * S⁻¹)

theorem flog_one : flog 1 = 0 := by
  unfold flog
  rw [derivative_one, zero_mul, integ_zero]

@[simp] theorem constantCoeff_flog (S : ℚ⟦X⟧) : constantCoeff (flog S) = 0 := constantCoeff_integ _

theorem derivative_flog (S : ℚ⟦X⟧) : d⁄dX ℚ (flog S) = d⁄dX ℚ S * S⁻¹ := derivative_integ _

theorem flog_mul (A B : ℚ⟦X⟧) (hA : constantCoeff A ≠ 0) (hB : constantCoeff B ≠ 0) :
    flog (A * B) = flog A + flog B := by
  unfold flog
  rw [← integ_add]
  congr 1
  rw [Derivation.leibniz, PowerSeries.mul_inv_rev, smul_eq_mul, smul_eq_mul]
  have h1 := PowerSeries.mul_inv_cancel A hA
  have h2 := PowerSeries.mul_inv_cancel B hB
  calc (A * d⁄dX ℚ B + B * d⁄dX ℚ A) * (B⁻¹ * A⁻¹)
      = d⁄dX ℚ B * B⁻¹ * (A * A⁻¹) + d⁄dX ℚ A * A⁻¹ * (B * B⁻¹) := by ring
    _ = d⁄dX ℚ A * A⁻¹ + d⁄dX ℚ B * B⁻¹ := by rw [h1, h2]; ring

/-- `log(1 + e) ≡ e` modulo `X^(2m)` when `e ≡ 0` modulo `X^m` -/
theorem eqMod_flog_one_add {m : ℕ} (hm : 1 ≤ m) {e : ℚ⟦X⟧} (he : EqMod m e 0) :
    EqMod (2 * m) (flog (1 + e)) e := by
  have he0 : coeff 0 e = 0 := by simpa using he 0 (by omega)
  have hc : constantCoeff (1 + e) ≠ 0 := by
    rw [map_add, ← coeff_zero_eq_constantCoeff_apply e, he0]; simp
  obtain ⟨n, rfl⟩ : ∃ n, m = n + 1 := ⟨m - 1, by omega⟩
  have : 2 * (n + 1) = (n + (n + 1)) + 1 := by ring
  rw [this]
  apply eqMod_of_derivative
  · rw [coeff_zero_eq_constantCoeff_apply, constantCoeff_flog, he0]
  · rw [derivative_flog, map_add, derivative_one, zero_add]
    have hde : EqMod n (d⁄dX ℚ e) 0 := by
      have := he.derivative
      simpa using this
    have hprod := eqMod_mul_zero hde he
    have key : d⁄dX ℚ e * (1 + e)⁻¹ - d⁄dX ℚ e = -(d⁄dX ℚ e * e) * (1 + e)⁻¹ := by
      have h1 := PowerSeries.mul_inv_cancel (1 + e) hc
      calc d⁄dX ℚ e * (1 + e)⁻¹ - d⁄dX ℚ e
          = d⁄dX ℚ e * (1 + e)⁻¹ - d⁄dX ℚ e * ((1 + e) * (1 + e)⁻¹) := by rw [h1, mul_one]
        _ = -(d⁄dX ℚ e * e) * (1 + e)⁻¹ := by ring
    have h2 : EqMod (n + (n + 1)) (d⁄dX ℚ e * (1 + e)⁻¹ - d⁄dX ℚ e) 0 := by
      rw [key]
      have := (hprod.neg).mul_right (1 + e)⁻¹
      simpa using this
    intro k hk
    have := h2 k hk
    simpa [sub_eq_zero] using this

/-! ### the fast branches: explicit coefficient lists -/

theorem getD_map_range (f : ℕ → ℚ) (n k : ℕ) :
    ((List.range n).map f).getD k 0 = if k < n then f k else 0 := by
  by_cases h : k < n
  · simp [List.getD, h]
  · simp [List.getD, h]

theorem inv_one_add_X : (1 + X : ℚ⟦X⟧)⁻¹ = PowerSeries.mk fun n => (-1 : ℚ) ^ n := by
  symm
  rw [PowerSeries.eq_inv_iff_mul_eq_one (by simp)]
  ext n
  cases n with
  | zero => simp [mul_add]
  | succ n =>
    rw [mul_add, mul_one, map_add, coeff_succ_mul_X, coeff_mk, coeff_mk]
    simp [pow_succ]

theorem flog_one_add_X_coeff (k : ℕ) : coeff (k + 1) (flog (1 + X)) = (-1 : ℚ) ^ k / (k + 1) := by
  unfold flog
  rw [coeff_succ_integ, map_add, derivative_one, derivative_X, zero_add, one_mul, inv_one_add_X, coeff_mk]

theorem toPS_logFast (prec : ℕ) : EqMod prec (toPS (logFast prec)) (flog (1 + X)) := by
  intro k hk
  rw [coeff_toPS]
  unfold logFast
  rw [getD_map_range, if_pos hk]
  cases k with
  | zero =>
    simp only [beq_self_eq_true, if_true]
    rw [coeff_zero_eq_constantCoeff_apply, constantCoeff_flog]
  | succ k =>
    rw [flog_one_add_X_coeff]
    have h1 : ((k + 1 == 0) = false) := by simp
    simp only [h1]
    rcases Nat.even_or_odd k with he | ho
    · have : (k + 1) % 2 ≠ 0 := by obtain ⟨r, hr⟩ := he; omega
      have h2 : ((k + 1) % 2 == 0) = false := by simpa using this
      simp [h2, he.neg_one_pow]
    · have : (k + 1) % 2 = 0 := by obtain ⟨r, hr⟩ := ho; omega
      have h2 : ((k + 1) % 2 == 0) = true := by simpa using this
      simp [h2, ho.neg_one_pow]

/-- **series_log**: the result is the formal logarithm `∫ S'/S` modulo `X^prec`
(and the model only answers when the constant term is 1, i.e. when no `log(c)` constant is needed). -/
theorem log_spec (s g : Poly) (prec : ℕ) (h : seriesLog s prec = .ok g) :
    constantCoeff (toPS s) = 1 ∧ EqMod prec (toPS g) (flog (toPS s)) := by
  unfold seriesLog at h
  split at h
  · next h1 =>
    cases h
    rw [toPS_of_isOne h1, flog_one, toPS_nil]
    exact ⟨by simp, EqMod.refl _ _⟩
  · split at h
    · next h2 =>
      cases h
      rw [toPS_of_isVarPlusOne h2]
      exact ⟨by simp, toPS_logFast prec⟩
    · split at h
      · cases h
      · next hp =>
        have hp' : prec ≠ 0 := by simpa using hp
        simp only [bind, Except.bind] at h
        split at h
        · cases h
        · next inv hinv =>
          split at h
          · cases h
          · next hc =>
            simp only [pure, Except.pure, Except.ok.injEq] at h
            subst h
            have hc1 : Series.coeff s 0 = 1 := by simpa using hc
            have hcc : constantCoeff (toPS s) = 1 := by
              rw [← coeff_zero_eq_constantCoeff_apply]; simpa [toPS] using hc1
            refine ⟨hcc, ?_⟩
            have hne : constantCoeff (toPS s) ≠ 0 := by rw [hcc]; exact one_ne_zero
            have hi := invert_eqMod_inv s inv prec hinv hne
            obtain ⟨n, rfl⟩ : ∃ n, prec = n + 1 := ⟨prec - 1, by omega⟩
            rw [toPS_integrate]
            unfold flog
            apply EqMod.integ
            simp only [Nat.add_sub_cancel]
            refine (toPS_mulTrunc _ _ _).trans ?_
            rw [toPS_diff]
            exact EqMod.mul_left _ (hi.mono (by omega))

/-! ### series_exp -/

/-- `E` is the formal exponential of `S`:  `E(0) = 1` and `E' = E·S'` -/
def IsExpOf (S E : ℚ⟦X⟧) : Prop := constantCoeff E = 1 ∧ d⁄dX ℚ E = E * d⁄dX ℚ S

theorem flog_of_isExpOf {S E : ℚ⟦X⟧} (h : IsExpOf S E) (hS : constantCoeff S = 0) : flog E = S := by
  unfold flog
  rw [h.2]
  have hE : constantCoeff E ≠ 0 := by rw [h.1]; exact one_ne_zero
  have : E * d⁄dX ℚ S * E⁻¹ = d⁄dX ℚ S * (E * E⁻¹) := by ring
  rw [this, PowerSeries.mul_inv_cancel E hE, mul_one]
  exact integ_derivative S (by rw [coeff_zero_eq_constantCoeff_apply, hS])

/-- the differential equation determines the exponential -/
theorem isExpOf_unique {S E E' : ℚ⟦X⟧} (h : IsExpOf S E) (h' : IsExpOf S E') : E = E' := by
  have hE : constantCoeff E ≠ 0 := by rw [h.1]; exact one_ne_zero
  -- (E' / E)' = 0
  have hq : d⁄dX ℚ (E' * E⁻¹) = 0 := by
    rw [Derivation.leibniz, derivative_inv', h.2, h'.2, smul_eq_mul, smul_eq_mul]
    have h1 := PowerSeries.mul_inv_cancel E hE
    calc E' * (-E⁻¹ ^ 2 * (E * d⁄dX ℚ S)) + E⁻¹ * (E' * d⁄dX ℚ S)
        = E' * E⁻¹ * d⁄dX ℚ S * (1 - E * E⁻¹) := by ring
      _ = 0 := by rw [h1]; ring
  have hconst : E' * E⁻¹ = 1 := by
    apply derivative.ext
    · rw [hq, derivative_one]
    · rw [map_mul, constantCoeff_inv, h.1, h'.1]; simp
  calc E = (E' * E⁻¹) * E := by rw [hconst, one_mul]
    _ = E' * (E⁻¹ * E) := by ring
    _ = E' := by rw [PowerSeries.inv_mul_cancel E hE, mul_one]

theorem expStep_spec {S E : ℚ⟦X⟧} (hE : IsExpOf S E) (hS : constantCoeff S = 0) (s : Poly) (hs : toPS s = S)
    (m step : ℕ) (r r' : Poly) (hm : 1 ≤ m) (hr : EqMod m (toPS r) E) (hst : step ≤ 2 * m)
    (h : expStep (padd s [1]) r step = .ok r') : EqMod step (toPS r') E := by
  unfold expStep at h
  simp only [bind, Except.bind] at h
  split at h
  · cases h
  · next l hl =>
    simp only [pure, Except.pure, Except.ok.injEq] at h
    subst h
    obtain ⟨hR1, hlog⟩ := log_spec r l step hl
    set R := toPS r
    have hEc : constantCoeff E ≠ 0 := by rw [hE.1]; exact one_ne_zero
    have hRc : constantCoeff R ≠ 0 := by rw [hR1]; exact one_ne_zero
    -- first: the model step is R * (S + 1 - flog R) modulo X^step
    have h1 : EqMod step (toPS (mulTrunc r (psub (padd s [1]) l) step)) (R * (S + 1 - flog R)) := by
      refine (toPS_mulTrunc _ _ _).trans ?_
      apply EqMod.mul_left
      rw [toPS_psub, toPS_padd, toPS_one, hs]
      exact (EqMod.refl _ _).sub hlog
    refine h1.trans ?_
    -- Q = R / E ≡ 1 mod X^m
    set Q := R * E⁻¹
    have hQ : EqMod m Q 1 := by
      have := hr.mul_right E⁻¹
      rwa [PowerSeries.mul_inv_cancel E hEc] at this
    have hRQ : R = E * Q := by
      calc R = R * (E⁻¹ * E) := by rw [PowerSeries.inv_mul_cancel E hEc, mul_one]
        _ = E * Q := by ring
    have hQc : constantCoeff Q ≠ 0 := by
      rw [map_mul, constantCoeff_inv, hR1, hE.1]; simp
    have hflog : flog R = S + flog Q := by
      rw [hRQ, flog_mul E Q hEc hQc, flog_of_isExpOf hE hS]
    set e := Q - 1
    have he : EqMod m e 0 := by
      have := hQ.sub (EqMod.refl m 1)
      simpa using this
    have hQe : Q = 1 + e := by ring
    have hl2 : EqMod (2 * m) (flog Q) e := by rw [hQe]; exact eqMod_flog_one_add hm he
    have hfin : EqMod (2 * m) (R * (S + 1 - flog R)) E := by
      rw [hflog]
      have : R * (S + 1 - (S + flog Q)) = E * (Q * (1 - flog Q)) := by rw [hRQ]; ring
      rw [this]
      have h3 : EqMod (2 * m) (Q * (1 - flog Q)) (Q * (1 - e)) :=
        EqMod.mul_left _ ((EqMod.refl _ _).sub hl2)
      have h4 : EqMod (2 * m) (Q * (1 - e)) 1 := by
        have : Q * (1 - e) = 1 - e * e := by rw [hQe]; ring
        rw [this]
        have := (EqMod.refl (2 * m) (1 : ℚ⟦X⟧)).sub (eqMod_sq_of_eqMod he)
        simpa using this
      have := EqMod.mul_left E (h3.trans h4)
      simpa using this
    exact hfin.mono hst

/-- coefficient recurrence of the "fast exp(x)" list -/
theorem getD_expCoefs (n i : ℕ) (c : ℚ) (k : ℕ) (hk : k < n) :
    (expCoefs n i c).getD k 0
      = (if k = 0 then c else (expCoefs n i c).getD (k - 1) 0) / ((i + k : ℕ) : ℚ) := by
  induction n generalizing i c k with
  | zero => omega
  | succ n ih =>
    cases k with
    | zero => simp [expCoefs]
    | succ k =>
      simp only [expCoefs, List.getD_cons_succ, Nat.add_sub_cancel]
      rw [ih (i + 1) (c / (i : ℚ)) k (by omega)]
      have : i + 1 + k = i + (k + 1) := by omega
      rw [this]
      congr 1
      cases k with
      | zero => simp
      | succ k => simp

theorem toPS_expFast {E : ℚ⟦X⟧} (hE : IsExpOf X E) (prec : ℕ) : EqMod prec (toPS (expFast prec)) E := by
  have hrec : ∀ k, coeff (k + 1) E * ((k : ℚ) + 1) = coeff k E := by
    intro k
    have := congrArg (coeff k) hE.2
    rw [coeff_derivative, derivative_X, mul_one] at this
    exact this
  intro k
  induction k with
  | zero =>
    intro _
    rw [coeff_toPS, coeff_zero_eq_constantCoeff_apply, hE.1]
    simp [expFast]
  | succ k ih =>
    intro hk
    have ihk := ih (by omega)
    rw [coeff_toPS] at ihk ⊢
    have hne : ((k : ℚ) + 1) ≠ 0 := by positivity
    have hE1 : coeff (k + 1) E = coeff k E / ((k : ℚ) + 1) := by
      rw [← hrec k]; field_simp
    rw [hE1, ← ihk]
    unfold expFast
    simp only [List.getD_cons_succ]
    rw [getD_expCoefs (prec - 1) 1 1 k (by omega)]
    have : ((1 + k : ℕ) : ℚ) = (k : ℚ) + 1 := by push_cast; ring
    rw [this]
    congr 1
    cases k with
    | zero => simp
    | succ k => simp

/-- **series_exp**: the result agrees modulo `X^prec` with the (unique) formal solution of
`E' = E·S'`, `E(0) = 1` -/
theorem exp_spec (s g : Poly) (prec : ℕ) (h : seriesExp s prec = .ok g) {E : ℚ⟦X⟧}
    (hE : IsExpOf (toPS s) E) : constantCoeff (toPS s) = 0 ∧ EqMod prec (toPS g) E := by
  unfold seriesExp at h
  split at h
  · next h0 =>
    cases h
    have hs := toPS_of_isZero h0
    refine ⟨by rw [hs]; simp, ?_⟩
    have : E = 1 := by
      apply isExpOf_unique hE
      rw [hs]
      exact ⟨by simp, by simp [derivative_one]⟩
    rw [this, toPS_one]
    exact EqMod.refl _ _
  · split at h
    · next hv =>
      cases h
      have hs := toPS_of_isVar hv
      rw [hs] at hE ⊢
      exact ⟨by simp, toPS_expFast hE prec⟩
    · split at h
      · cases h
      · next hc =>
        have hc0 : Series.coeff s 0 = 0 := by simpa using hc
        have hS : constantCoeff (toPS s) = 0 := by
          rw [← coeff_zero_eq_constantCoeff_apply]; simpa [toPS] using hc0
        refine ⟨hS, ?_⟩
        by_cases hp : prec = 0
        · subst hp; exact eqMod_zero _ _
        have hinit : EqMod 1 (toPS [1]) E := by
          intro k hk
          have : k = 0 := by omega
          subst this
          rw [toPS_one, coeff_zero_eq_constantCoeff_apply, coeff_zero_eq_constantCoeff_apply, hE.1]
          simp
        have := newton_foldlM (fun m q => EqMod m (toPS q) E) (expStep (padd s [1]))
          (fun m st a b hm ha hst hb => expStep_spec hE hS s rfl m st a b hm ha hst hb)
          (stepList prec) 1 [1] g (stepList_pos prec (by omega)) le_rfl (chain_stepList prec) hinit h
        rwa [lastD_stepList] at this

end SymVerif.C31
