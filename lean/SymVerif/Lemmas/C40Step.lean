import SymVerif.Lemmas.C40
/-! Every handle-level operation preserves the invariant and cannot hit a memory error. -/
namespace SymVerif.RC

theorem count_set' {α : Type} [BEq α] [LawfulBEq α] : ∀ (l : List α) (h : Nat) (x y a : α), l[h]? = some y →
    (l.set h x).count a + (if y == a then 1 else 0) = l.count a + (if x == a then 1 else 0) := by
  intro l
  induction l with
  | nil => intro h x y a hh; simp at hh
  | cons z zs ih =>
    intro h x y a hh
    cases h with
    | zero =>
      simp at hh; subst hh
      simp only [List.set_cons_zero, List.count_cons]
      omega
    | succ h =>
      simp at hh
      have := ih h x y a hh
      simp only [List.set_cons_succ, List.count_cons]
      omega

/-- states whose heap is an extension: nothing is resurrected, ids are not reused, and an
    object that is still live has the members it always had (immutability) -/
structure Ext (s s' : State) : Prop where
  len : s.objs.length ≤ s'.objs.length
  live : ∀ x, x < s.objs.length → isLive s' x = true → isLive s x = true
  kids : ∀ x, x < s.objs.length → isLive s' x = true → childrenOf s' x = childrenOf s x

theorem Ext.refl (s : State) : Ext s s := ⟨Nat.le_refl _, fun _ _ h => h, fun _ _ _ => rfl⟩
theorem Ext.trans {a b c : State} (h1 : Ext a b) (h2 : Ext b c) : Ext a c :=
  ⟨Nat.le_trans h1.len h2.len,
   fun x hx h => h1.live x hx (h2.live x (Nat.lt_of_lt_of_le hx h1.len) h),
   fun x hx h => (h2.kids x (Nat.lt_of_lt_of_le hx h1.len) h).trans
     (h1.kids x hx (h2.live x (Nat.lt_of_lt_of_le hx h1.len) h))⟩
theorem Mono.ext {s s' : State} (m : Mono s s') : Ext s s' :=
  ⟨by rw [m.len]; exact Nat.le_refl _, fun x _ h => m.live x h, fun x _ _ => m.kids x⟩

theorem ext_of_objs_eq {s s' : State} (h : s'.objs = s.objs) : Ext s s' :=
  ⟨by rw [h]; exact Nat.le_refl _, fun x _ hx => by unfold isLive at *; rw [h] at hx; exact hx,
   fun x _ _ => by unfold childrenOf; rw [h]⟩

theorem InvT.of_objs_eq {s s' : State} {L L' : List Nat} (i : InvT s L) (ho : s'.objs = s.objs)
    (hc : ∀ o, s'.handles.count (some o) + L'.count o = s.handles.count (some o) + L.count o) : InvT s' L' := by
  refine ⟨?_, ?_, ?_⟩
  · intro o
    have := i.counts o
    have h2 := hc o
    unfold refs cnt parentRefs at *
    rw [ho]
    omega
  · intro o ob h hl; rw [ho] at h; exact i.pos o ob h hl
  · intro p ob h hl; rw [ho] at h; exact i.acyc p ob h hl

theorem InvT.pushSome {s : State} {L : List Nat} {o : Nat} (i : InvT s (o :: L)) :
    InvT (pushHandle s (some o)) L := by
  apply InvT.of_objs_eq (s' := pushHandle s (some o)) i rfl
  intro x
  simp only [pushHandle, List.count_append, List.count_cons, List.count_nil, beq_iff_eq, Option.some.injEq]
  omega

theorem InvT.pushNone {s : State} {L : List Nat} (i : InvT s L) : InvT (pushHandle s none) L := by
  apply InvT.of_objs_eq (s' := pushHandle s none) i rfl
  intro x
  simp [pushHandle, List.count_append, List.count_cons]

def optL : Option Nat → List Nat
  | none => []
  | some o => [o]

theorem InvT.setHandle {s : State} {L : List Nat} {h : Nat} {x y : Option Nat}
    (hh : s.handles[h]? = some y) (i : InvT s (optL x ++ L)) : InvT (setHandle s h x) (optL y ++ L) := by
  apply InvT.of_objs_eq (s' := RC.setHandle s h x) i rfl
  intro o
  have := count_set' s.handles h x y (some o) hh
  simp only [RC.setHandle, List.count_append]
  have hx : (optL x).count o = if x == some o then 1 else 0 := by
    cases x <;> simp [optL, List.count_cons]
  have hy : (optL y).count o = if y == some o then 1 else 0 := by
    cases y <;> simp [optL, List.count_cons]
  omega

theorem objs_alloc (s : State) (cs : List Nat) (p : Nat) :
    (alloc s cs).objs[p]? = if p < s.objs.length then s.objs[p]? else
      if p = s.objs.length then some { count := 1, children := cs, live := true } else none := by
  simp only [alloc, List.getElem?_append]
  by_cases h : p < s.objs.length
  · simp [h]
  · simp only [h, if_false]
    by_cases e : p = s.objs.length
    · simp [e]
    · have : p - s.objs.length ≠ 0 := by omega
      simp [e]
      cases hq : p - s.objs.length with
      | zero => omega
      | succ q => simp

theorem cnt_oob {s : State} {o : Nat} (h : s.objs.length ≤ o) : cnt s o = 0 := by
  unfold cnt
  have : s.objs[o]? = none := List.getElem?_eq_none h
  simp [this]

theorem InvT.alloc {s : State} {L cs : List Nat} (i : InvT s (cs ++ L)) : InvT (alloc s cs) L := by
  have hn := i.counts s.objs.length
  rw [cnt_oob (Nat.le_refl _)] at hn
  simp only [List.count_append] at hn
  refine ⟨?_, ?_, ?_⟩
  · intro x
    have hx := i.counts x
    simp only [List.count_append] at hx
    have hp : parentRefs (RC.alloc s cs) x = parentRefs s x + cs.count x := by
      simp [parentRefs, RC.alloc, List.sum_append]
    have hh : (RC.alloc s cs).handles.count (some x) = s.handles.count (some x) + (if s.objs.length = x then 1 else 0) := by
      simp [RC.alloc, List.count_append, List.count_cons]
    have hc : cnt (RC.alloc s cs) x = if x = s.objs.length then 1 else cnt s x := by
      unfold cnt
      rw [objs_alloc]
      by_cases h1 : x < s.objs.length
      · have : x ≠ s.objs.length := by omega
        simp [h1, this]
      · by_cases e : x = s.objs.length
        · simp [e]
        · have : s.objs[x]? = none := List.getElem?_eq_none (by omega)
          simp [h1, e, this]
    unfold refs at hx hn ⊢
    rw [hp, hh, hc]
    by_cases e : x = s.objs.length
    · subst e; simp; omega
    · have : ¬ s.objs.length = x := fun q => e q.symm
      simp [e, this]; omega
  · intro o ob h hl
    rw [objs_alloc] at h
    by_cases h1 : o < s.objs.length
    · rw [if_pos h1] at h; exact i.pos o ob h hl
    · by_cases e : o = s.objs.length
      · simp [e] at h; subst h; simp
      · simp [h1, e] at h
  · intro p ob h hl c hc
    rw [objs_alloc] at h
    by_cases h1 : p < s.objs.length
    · rw [if_pos h1] at h; exact i.acyc p ob h hl c hc
    · by_cases e : p = s.objs.length
      · simp [e] at h; subst h
        simp at hc
        have hpos : 0 < refs s c + (cs ++ L).count c := by
          have : 0 < cs.count c := List.count_pos_iff.mpr hc
          simp [List.count_append]; omega
        obtain ⟨ob, hob, _⟩ := i.live_of_ref hpos
        rw [e]; exact lt_of_getElem? hob
      · simp [h1, e] at h

theorem ext_alloc (s : State) (cs : List Nat) : Ext s (alloc s cs) := by
  refine ⟨by simp [alloc], ?_, ?_⟩
  · intro x hx h
    unfold isLive at *
    rw [objs_alloc] at h
    simpa [hx] using h
  · intro x hx _
    unfold childrenOf
    rw [objs_alloc]
    simp [hx]

theorem isLive_iff {s : State} {o : Nat} : isLive s o = true ↔ ∃ ob, s.objs[o]? = some ob ∧ ob.live = true := by
  unfold isLive
  cases s.objs[o]? <;> simp

theorem InvT.live_of_handle {s : State} {L : List Nat} (i : InvT s L) {h o : Nat}
    (hh : s.handles[h]? = some (some o)) : ∃ ob, s.objs[o]? = some ob ∧ ob.live = true := by
  have hm : some o ∈ s.handles := List.mem_of_getElem? hh
  have : 0 < s.handles.count (some o) := List.count_pos_iff.mpr hm
  obtain ⟨ob, h1, h2, _⟩ := i.live_of_ref (o := o) (by unfold refs; omega)
  exact ⟨ob, h1, h2⟩

theorem w_le_parentRefs {s : State} {p : Nat} {pb : Obj} (h : s.objs[p]? = some pb) (c : Nat) :
    w pb c ≤ parentRefs s c := by
  have := parentRefs_setObj { pb with live := false } c h
  have hz : w { pb with live := false } c = 0 := by simp [w]
  omega

theorem InvT.child_live {s : State} {L : List Nat} (i : InvT s L) {p c : Nat} {pb : Obj}
    (h : s.objs[p]? = some pb) (hl : pb.live = true) (hc : c ∈ pb.children) :
    ∃ ob, s.objs[c]? = some ob ∧ ob.live = true := by
  have h1 := w_le_parentRefs h c
  have : 0 < pb.children.count c := List.count_pos_iff.mpr hc
  simp only [w, hl, if_true] at h1
  obtain ⟨ob, h2, h3, _⟩ := i.live_of_ref (o := c) (by unfold refs; omega)
  exact ⟨ob, h2, h3⟩

/-- liveness is untouched -/
structure SameLive (s s' : State) : Prop where
  handles : s'.handles = s.handles
  len : s'.objs.length = s.objs.length
  live : ∀ x, isLive s' x = isLive s x
  kids : ∀ x, childrenOf s' x = childrenOf s x

theorem SameLive.mono {s s' : State} (m : SameLive s s') : Mono s s' :=
  ⟨m.handles, m.len, fun x h => by rw [← m.live x]; exact h, m.kids⟩

theorem sameLive_incref {s : State} {o : Nat} {ob : Obj} (h : s.objs[o]? = some ob) (n : Nat) :
    SameLive s (setObj s o { ob with count := n }) := by
  refine ⟨rfl, by simp [setObj], ?_, ?_⟩
  · intro x
    rw [isLive_setObj _ x h]
    by_cases e : x = o
    · subst e; simp [isLive, h]
    · simp [e]
  · intro x
    rw [childrenOf_setObj _ x h]
    by_cases e : x = o
    · subst e; simp [childrenOf, h]
    · simp [e]

theorem increfAll_ok : ∀ (os : List Nat) (s : State) (L : List Nat), InvT s L →
    (∀ o ∈ os, isLive s o = true) →
    ∃ s', increfAll s os = .ok s' ∧ InvT s' (os ++ L) ∧ SameLive s s' := by
  intro os
  induction os with
  | nil => intro s L i _; exact ⟨s, rfl, by simpa using i, ⟨rfl, rfl, fun _ => rfl, fun _ => rfl⟩⟩
  | cons o os ih =>
    intro s L i hl
    obtain ⟨ob, h1, h2⟩ := isLive_iff.mp (hl o (by simp))
    obtain ⟨e1, i1⟩ := incref_ok i h1 h2
    have sl := sameLive_incref h1 (ob.count + 1)
    obtain ⟨s', e2, i2, sl2⟩ := ih _ (o :: L) i1 (fun x hx => by rw [sl.live]; exact hl x (by simp [hx]))
    refine ⟨s', ?_, ?_, ⟨sl2.handles.trans sl.handles, sl2.len.trans sl.len, fun x => (sl2.live x).trans (sl.live x),
      fun x => (sl2.kids x).trans (sl.kids x)⟩⟩
    · simp [increfAll, e1, e2]
    · apply i2.congr
      intro x
      simp [List.count_append, List.count_cons]; omega

theorem getH_err {s : State} {h : Nat} {e : Err} (hh : getH s h = .error e) : e = .badOp := by
  unfold getH at hh
  split at hh <;> simp at hh
  exact hh.symm

theorem getH_ok {s : State} {h : Nat} {x : Option Nat} (hh : getH s h = .ok x) : s.handles[h]? = some x := by
  unfold getH at hh
  split at hh <;> simp at hh
  subst hh; assumption

theorem deref_err {s : State} {h : Nat} {e : Err} (hh : deref s h = .error e) : e = .badOp := by
  unfold deref at hh
  split at hh
  · rename_i e' he; simp at hh; subst hh; exact getH_err he
  · simp at hh; exact hh.symm
  · simp at hh

theorem deref_ok {s : State} {h o : Nat} (hh : deref s h = .ok o) : s.handles[h]? = some (some o) := by
  unfold deref at hh
  split at hh
  · simp at hh
  · simp at hh
  · rename_i o' he; simp at hh; subst hh; exact getH_ok he

theorem derefAll_err : ∀ (cs : List Nat) {s : State} {e : Err}, derefAll s cs = .error e → e = .badOp := by
  intro cs
  induction cs with
  | nil => intro s e h; simp [derefAll] at h
  | cons c cs ih =>
    intro s e h
    unfold derefAll at h
    split at h
    · rename_i e' he; simp at h; subst h; exact deref_err he
    · split at h
      · rename_i e' he; simp at h; subst h; exact ih he
      · simp at h

theorem derefAll_ok : ∀ (cs : List Nat) {s : State} {os : List Nat}, derefAll s cs = .ok os →
    ∀ o ∈ os, ∃ h : Nat, s.handles[h]? = some (some o) := by
  intro cs
  induction cs with
  | nil => intro s os h; simp [derefAll] at h; subst h; simp
  | cons c cs ih =>
    intro s os h
    cases hd : deref s c with
    | error e => simp [derefAll, hd] at h
    | ok o =>
      cases hos : derefAll s cs with
      | error e => simp [derefAll, hd, hos] at h
      | ok os' =>
        simp [derefAll, hd, hos] at h; subst h
        intro x hx
        simp at hx
        rcases hx with hx | hx
        · subst hx; exact ⟨c, deref_ok hd⟩
        · exact ih hos x hx

theorem resolve_ok : ∀ (path : List Nat) {s : State} {L : List Nat} (o : Nat), InvT s L → isLive s o = true →
    (∃ c, resolve s o path = .ok c ∧ isLive s c = true) ∨ resolve s o path = .error .badOp := by
  intro path
  induction path with
  | nil => intro s L o _ hl; exact Or.inl ⟨o, rfl, hl⟩
  | cons k path ih =>
    intro s L o i hl
    obtain ⟨ob, h1, h2⟩ := isLive_iff.mp hl
    unfold resolve
    simp only [getObj, h1, h2, if_true]
    cases hc : ob.children[k]? with
    | none => exact Or.inr rfl
    | some c =>
      have hm : c ∈ ob.children := List.mem_of_getElem? hc
      obtain ⟨cb, h3, h4⟩ := i.child_live h1 h2 hm
      exact ih c i (isLive_iff.mpr ⟨cb, h3, h4⟩)

/-- outcome of an operation started in a consistent state -/
def Good (s : State) (r : Except Err State) : Prop :=
  match r with
  | .ok s' => Inv s' ∧ Ext s s'
  | .error e => e = .badOp

theorem Mono.ext_of_objs {s s0 s' : State} (h : s0.objs = s.objs) (m : Mono s0 s') : Ext s s' :=
  (ext_of_objs_eq h).trans m.ext

theorem ext_setHandle_mono (s : State) (h : Nat) (x : Option Nat) {s' : State}
    (m : Mono (setHandle s h x) s') : Ext s s' :=
  Ext.trans (b := setHandle s h x) (ext_of_objs_eq rfl) m.ext

theorem dropOpt_good {s : State} {y : Option Nat} (i : InvT s (optL y ++ [])) :
    ∃ s', dropOpt s y = .ok s' ∧ Inv s' ∧ Mono s s' := by
  cases y with
  | none => exact ⟨s, rfl, by simpa [optL, Inv] using i, Mono.refl s⟩
  | some o =>
    have i' : InvT s (o :: []) := by simpa [optL] using i
    exact drop_ok i'

theorem push_incref_good {s : State} (i : Inv s) {o : Nat} (hl : isLive s o = true) :
    ∃ s1, incref s o = .ok s1 ∧ Inv (pushHandle s1 (some o)) ∧ Ext s (pushHandle s1 (some o)) := by
  obtain ⟨ob, h1, h2⟩ := isLive_iff.mp hl
  obtain ⟨e1, i1⟩ := incref_ok i h1 h2
  refine ⟨_, e1, i1.pushSome, ?_⟩
  exact (sameLive_incref h1 _).mono.ext.trans (ext_of_objs_eq rfl)

theorem InvT.kill {s : State} {R : List Nat} {o : Nat} {ob : Obj} (i : InvT s (o :: R))
    (h : s.objs[o]? = some ob) (hl : ob.live = true) (h1 : ob.count = 1) :
    InvT (setObj s o { ob with count := 0, live := false }) (ob.children ++ R) := by
  have hc : cnt s o = ob.count := by unfold cnt; simp [h, hl]
  have hcnt := i.counts o
  rw [hc, h1] at hcnt
  simp at hcnt
  have hchild : ob.children.count o = 0 := by
    apply List.count_eq_zero.mpr
    intro hm
    have := i.acyc o ob h hl o hm
    omega
  refine ⟨?_, ?_, ?_⟩
  · intro x
    have hpr := parentRefs_setObj { ob with count := 0, live := false } x h
    rw [cnt_setObj _ x h]
    have hcx := i.counts x
    unfold refs at hcx ⊢
    have hh : (setObj s o { ob with count := 0, live := false }).handles = s.handles := rfl
    rw [hh]
    simp [w, hl] at hpr
    by_cases hx : x = o
    · subst hx
      simp [List.count_append, hchild] at *
      omega
    · have hne : ¬ o = x := fun e => hx e.symm
      simp [hx, List.count_append, List.count_cons, hne] at *
      omega
  · intro p pb hp' hpl
    rw [objs_setObj] at hp'
    by_cases e : o = p
    · subst e
      have hlt := lt_of_getElem? h
      simp [hlt] at hp'; subst hp'; simp at hpl
    · simp [e] at hp'; exact i.pos p pb hp' hpl
  · intro p pb hp' hpl c hcm
    rw [objs_setObj] at hp'
    by_cases e : o = p
    · subst e
      have hlt := lt_of_getElem? h
      simp [hlt] at hp'; subst hp'; simp at hpl
    · simp [e] at hp'; exact i.acyc p pb hp' hpl c hcm

/-- releasing the *last* reference deletes the object -/
theorem drop_kills {s : State} {L : List Nat} {o : Nat} {ob : Obj} (i : InvT s (o :: L))
    (h : s.objs[o]? = some ob) (hl : ob.live = true) (h1 : ob.count = 1) :
    ∃ s', drop s o = .ok s' ∧ InvT s' L ∧ Mono s s' ∧ isLive s' o = false := by
  have hsum := sumCounts_setObj { ob with count := 0, live := false } h
  simp at hsum
  have ik := i.kill h hl h1
  obtain ⟨f, hf⟩ : ∃ f, sumCounts s = f + 1 := ⟨sumCounts s - 1, by omega⟩
  obtain ⟨s', hr, hi, hm⟩ := release_ok f _ (ob.children ++ []) L (by simpa using ik) (by omega)
  refine ⟨s', ?_, hi, (Mono.setObj { ob with count := 0, live := false } h (by simp) rfl).trans hm, ?_⟩
  · rw [← hr]
    unfold drop
    rw [hf]
    simp only [release, h]
    rw [if_neg (by simp [hl]), if_neg (by omega), if_pos h1]
  · cases hl' : isLive s' o with
    | false => rfl
    | true =>
      have := hm.live o hl'
      rw [isLive_setObj _ o h] at this
      simp at this

/-- heap extension in which object `o` may have lost its members (the steal) -/
structure ExtBut (o : Nat) (s s' : State) : Prop where
  len : s.objs.length ≤ s'.objs.length
  live : ∀ x, x < s.objs.length → isLive s' x = true → isLive s x = true
  kids : ∀ x, x ≠ o → x < s.objs.length → isLive s' x = true → childrenOf s' x = childrenOf s x

theorem Ext.but {s s' : State} (e : Ext s s') (o : Nat) : ExtBut o s s' := ⟨e.len, e.live, fun x _ => e.kids x⟩

theorem ExtBut.trans_ext {o : Nat} {a b c : State} (h1 : ExtBut o a b) (h2 : Ext b c) : ExtBut o a c :=
  ⟨Nat.le_trans h1.len h2.len,
   fun x hx h => h1.live x hx (h2.live x (Nat.lt_of_lt_of_le hx h1.len) h),
   fun x hne hx h => (h2.kids x (Nat.lt_of_lt_of_le hx h1.len) h).trans
     (h1.kids x hne hx (h2.live x (Nat.lt_of_lt_of_le hx h1.len) h))⟩

theorem childrenOf_alloc_new (s : State) (cs : List Nat) : childrenOf (alloc s cs) s.objs.length = cs := by
  unfold childrenOf
  rw [objs_alloc]; simp

theorem steal_tail {s s1 : State} {h o : Nat} {cs : List Nat} (i1 : InvT s1 (cs ++ []))
    (hh : s1.handles[h]? = some (some o)) (e : ExtBut o s s1)
    (hk : childrenOf s1 o = childrenOf s o ∨ cnt s1 o = 1) :
    ∃ s', drop (setHandle (alloc s1 cs) h none) o = .ok s' ∧ Inv s' ∧ Ext s s' ∧
      (cnt s1 o = 1 → isLive s' o = false) ∧ childrenOf s' s1.objs.length = cs := by
  have i2 : InvT (alloc s1 cs) (optL none ++ []) := by simpa [optL] using i1.alloc
  have hh2 : (alloc s1 cs).handles[h]? = some (some o) := by
    have := lt_of_getElem? hh
    simp only [alloc, List.getElem?_append, this, if_true]; exact hh
  have i3 := i2.setHandle hh2
  have i3' : InvT (setHandle (alloc s1 cs) h none) (o :: []) := by simpa [optL] using i3
  have e2 : ExtBut o s (setHandle (alloc s1 cs) h none) :=
    e.trans_ext ((ext_alloc s1 cs).trans (ext_of_objs_eq (s := alloc s1 cs) (s' := setHandle (alloc s1 cs) h none) rfl))
  have hnew : childrenOf (setHandle (alloc s1 cs) h none) s1.objs.length = cs := childrenOf_alloc_new s1 cs
  by_cases hc1 : cnt s1 o = 1
  · obtain ⟨ob, h1, h2, _, h4⟩ := cnt_pos_iff.mp (by omega : 0 < cnt s1 o)
    have hob : (setHandle (alloc s1 cs) h none).objs[o]? = some ob := by
      show (alloc s1 cs).objs[o]? = some ob
      rw [objs_alloc, if_pos (lt_of_getElem? h1)]; exact h1
    obtain ⟨s', e3, i4, m, hdead⟩ := drop_kills i3' hob h2 (by omega)
    have e3' := e2.trans_ext m.ext
    refine ⟨s', e3, i4, ⟨e3'.len, e3'.live, ?_⟩, fun _ => hdead, by rw [m.kids]; exact hnew⟩
    intro x hx hl
    by_cases hxo : x = o
    · subst hxo; rw [hdead] at hl; simp at hl
    · exact e3'.kids x hxo hx hl
  · have hk' : childrenOf s1 o = childrenOf s o := by
      rcases hk with hk | hk
      · exact hk
      · exact absurd hk hc1
    obtain ⟨s', e3, i4, m⟩ := drop_ok i3'
    have e3' := e2.trans_ext m.ext
    refine ⟨s', e3, i4, ⟨e3'.len, e3'.live, ?_⟩, fun hq => absurd hq hc1, by rw [m.kids]; exact hnew⟩
    intro x hx hl
    by_cases hxo : x = o
    · subst hxo
      rw [m.kids]
      have hlt : x < s1.objs.length := Nat.lt_of_lt_of_le hx e.len
      have : childrenOf (setHandle (alloc s1 cs) h none) x = childrenOf s1 x := by
        unfold childrenOf
        show (match (alloc s1 cs).objs[x]? with | some ob => ob.children | none => []) = _
        rw [objs_alloc]; simp [hlt]
      rw [this, hk']
    · exact e3'.kids x hxo hx hl

/-- the dictionary steal, both branches -/
theorem steal_full {s : State} (i : Inv s) {h o : Nat} {ob : Obj} (hd : deref s h = .ok o)
    (h1 : s.objs[o]? = some ob) (h2 : ob.live = true) :
    ∃ s', step s (.steal h) = .ok s' ∧ Inv s' ∧ Ext s s' ∧
      (ob.count = 1 → isLive s' o = false) ∧ childrenOf s' s.objs.length = ob.children := by
  simp only [step, hd]
  have hg : getObj s o = .ok ob := by simp [getObj, h1, h2]
  simp only [hg]
  by_cases hc : ob.count = 1
  · rw [if_pos hc]
    have hb : ExtBut o s (setObj s o { ob with children := [] }) := by
      refine ⟨by simp [setObj], ?_, ?_⟩
      · intro x _ hx
        rw [isLive_setObj _ x h1] at hx
        by_cases e : x = o
        · subst e; exact isLive_iff.mpr ⟨ob, h1, h2⟩
        · simpa [e] using hx
      · intro x hne _ _
        rw [childrenOf_setObj _ x h1]; simp [hne]
    have hc1 : cnt (setObj s o { ob with children := [] }) o = 1 := by
      rw [cnt_setObj _ o h1]; simp [h2, hc]
    have i1 : InvT (setObj s o { ob with children := [] }) (ob.children ++ []) := by
      -- moving the members out: they are in flight now
      refine ⟨?_, ?_, ?_⟩
      · intro x
        have hpr := parentRefs_setObj { ob with children := [] } x h1
        have hw1 : w { ob with children := [] } x = 0 := by simp [w]
        have hw2 : w ob x = ob.children.count x := by simp [w, h2]
        rw [cnt_setObj _ x h1]
        have hcx := i.counts x
        have hcnt : cnt s o = ob.count := by unfold cnt; simp [h1, h2]
        have hlive : (if ({ ob with children := [] } : Obj).live then ({ ob with children := [] } : Obj).count else 0)
            = ob.count := by simp [h2]
        unfold refs at hcx ⊢
        have hh : (setObj s o { ob with children := [] }).handles = s.handles := rfl
        rw [hh, hlive]
        simp only [List.append_nil, List.count_nil] at hcx ⊢
        by_cases hx : x = o
        · subst hx; rw [if_pos rfl]; omega
        · rw [if_neg hx]; omega
      · intro p pb hp hpl
        rw [objs_setObj] at hp
        by_cases e : o = p
        · subst e
          have hlt := lt_of_getElem? h1
          simp [hlt] at hp; subst hp; exact i.pos o ob h1 h2
        · simp [e] at hp; exact i.pos p pb hp hpl
      · intro p pb hp hpl c hcm
        rw [objs_setObj] at hp
        by_cases e : o = p
        · subst e
          have hlt := lt_of_getElem? h1
          simp [hlt] at hp; subst hp; simp at hcm
        · simp [e] at hp; exact i.acyc p pb hp hpl c hcm
    obtain ⟨s', e3, i4, x4, hdead, hnew⟩ :=
      steal_tail (s1 := setObj s o { ob with children := [] }) i1 (deref_ok hd) hb (Or.inr hc1)
    refine ⟨s', e3, i4, x4, fun _ => hdead hc1, ?_⟩
    have : (setObj s o { ob with children := [] }).objs.length = s.objs.length := by simp [setObj]
    rw [← this]; exact hnew
  · rw [if_neg hc]
    have hlive : ∀ c ∈ ob.children, isLive s c = true := fun c hcm =>
      isLive_iff.mpr (i.child_live h1 h2 hcm)
    obtain ⟨s1, e1, i1, sl⟩ := increfAll_ok ob.children s [] i hlive
    simp only [e1]
    obtain ⟨s', e3, i4, x4, _, hnew⟩ :=
      steal_tail i1 (by rw [sl.handles]; exact deref_ok hd) (sl.mono.ext.but o) (Or.inl (sl.kids o))
    refine ⟨s', e3, i4, x4, fun hq => absurd hq hc, ?_⟩
    rw [← sl.len]; exact hnew

theorem step_good (s : State) (i : Inv s) (op : Op) : Good s (step s op) := by
  cases op with
  | construct cs =>
    simp only [step]
    cases hd : derefAll s cs with
    | error e => exact derefAll_err cs hd
    | ok os =>
      have hlive : ∀ o ∈ os, isLive s o = true := by
        intro o ho
        obtain ⟨h, hh⟩ := derefAll_ok cs hd o ho
        exact isLive_iff.mpr (i.live_of_handle hh)
      obtain ⟨s1, e1, i1, sl⟩ := increfAll_ok os s [] i hlive
      simp only [e1]
      exact ⟨i1.alloc, sl.mono.ext.trans (ext_alloc s1 os)⟩
  | copy h =>
    simp only [step]
    cases hg : getH s h with
    | error e => exact getH_err hg
    | ok x =>
      cases x with
      | none => exact ⟨i.pushNone, ext_of_objs_eq rfl⟩
      | some o =>
        obtain ⟨s1, e1, i1, x1⟩ := push_incref_good i (isLive_iff.mpr (i.live_of_handle (getH_ok hg)))
        simp only [e1]; exact ⟨i1, x1⟩
  | move h =>
    simp only [step]
    cases hg : getH s h with
    | error e => exact getH_err hg
    | ok x =>
      have i1 : InvT (setHandle s h none) (optL x ++ []) := InvT.setHandle (getH_ok hg) (by simpa [optL, Inv] using i)
      refine ⟨?_, ext_of_objs_eq rfl⟩
      cases x with
      | none => exact InvT.pushNone (by simpa [optL] using i1)
      | some o => exact InvT.pushSome (by simpa [optL] using i1)
  | assign dst src =>
    simp only [step]
    cases hs : getH s src with
    | error e => exact getH_err hs
    | ok x =>
      cases hd : getH s dst with
      | error e => exact getH_err hd
      | ok y =>
        simp only []
        cases x with
        | none =>
          simp only []
          have i1 := InvT.setHandle (x := none) (getH_ok hd) (by simpa [optL, Inv] using i)
          obtain ⟨s', e3, i4, m⟩ := dropOpt_good i1
          rw [e3]; exact ⟨i4, ext_setHandle_mono _ _ _ m⟩
        | some o =>
          simp only []
          obtain ⟨ob, h1, h2⟩ := i.live_of_handle (getH_ok hs)
          obtain ⟨e1, i1⟩ := incref_ok i h1 h2
          simp only [e1]
          have i2 := InvT.setHandle (x := some o) (s := setObj s o { ob with count := ob.count + 1 })
            (getH_ok hd) (by simpa [optL] using i1)
          obtain ⟨s', e3, i4, m⟩ := dropOpt_good i2
          rw [e3]
          exact ⟨i4, (sameLive_incref h1 _).mono.ext.trans (ext_setHandle_mono _ _ _ m)⟩
  | moveAssign dst src =>
    simp only [step]
    cases hs : getH s src with
    | error e => exact getH_err hs
    | ok x =>
      cases hd : getH s dst with
      | error e => exact getH_err hd
      | ok y =>
        simp only []
        refine ⟨?_, ext_of_objs_eq rfl⟩
        apply InvT.of_objs_eq (s' := setHandle (setHandle s dst x) src y) (L' := []) i rfl
        intro o
        have hs' := getH_ok hs
        have hd' := getH_ok hd
        have c1 := count_set' s.handles dst x y (some o) hd'
        have hsrc : (s.handles.set dst x)[src]? = some x := by
          simp only [List.getElem?_set]
          by_cases e : dst = src
          · subst e
            have := lt_of_getElem? hd'
            simp [this]
          · simp [e, hs']
        have c2 := count_set' (s.handles.set dst x) src y x (some o) hsrc
        simp only [setHandle]
        omega
  | reset h =>
    simp only [step]
    cases hg : getH s h with
    | error e => exact getH_err hg
    | ok y =>
      have i1 := InvT.setHandle (x := none) (getH_ok hg) (by simpa [optL, Inv] using i)
      obtain ⟨s', e3, i4, m⟩ := dropOpt_good i1
      simp only [e3]; exact ⟨i4, ext_setHandle_mono _ _ _ m⟩
  | destroy h =>
    simp only [step]
    cases hg : getH s h with
    | error e => exact getH_err hg
    | ok y =>
      have i1 := InvT.setHandle (x := none) (getH_ok hg) (by simpa [optL, Inv] using i)
      obtain ⟨s', e3, i4, m⟩ := dropOpt_good i1
      simp only [e3]; exact ⟨i4, ext_setHandle_mono _ _ _ m⟩
  | rcpFromThis h =>
    simp only [step]
    cases hd : deref s h with
    | error e => exact deref_err hd
    | ok o =>
      obtain ⟨s1, e1, i1, x1⟩ := push_incref_good i (isLive_iff.mpr (i.live_of_handle (deref_ok hd)))
      simp only [e1]; exact ⟨i1, x1⟩
  | childCopy h path =>
    simp only [step]
    cases hd : deref s h with
    | error e => exact deref_err hd
    | ok o =>
      simp only []
      rcases resolve_ok path o i (isLive_iff.mpr (i.live_of_handle (deref_ok hd))) with ⟨c, hc, hl⟩ | hb
      · obtain ⟨s1, e1, i1, x1⟩ := push_incref_good i hl
        simp only [hc, e1]; exact ⟨i1, x1⟩
      · simp only [hb]; rfl
  | steal h =>
    cases hd : deref s h with
    | error e => simp only [step, hd]; exact deref_err hd
    | ok o =>
      obtain ⟨ob, h1, h2⟩ := i.live_of_handle (deref_ok hd)
      obtain ⟨s', e, i', x, _⟩ := steal_full i hd h1 h2
      rw [e]; exact ⟨i', x⟩

theorem inv_init : Inv init := by
  refine ⟨?_, ?_, ?_⟩
  · intro o; simp [refs, cnt, parentRefs, init]
  · intro o ob h; simp [init] at h
  · intro p ob h; simp [init] at h

theorem run_good : ∀ (ops : List Op) (s : State), Inv s → Good s (run s ops) := by
  intro ops
  induction ops with
  | nil => intro s i; exact ⟨i, Ext.refl s⟩
  | cons op ops ih =>
    intro s i
    have g := step_good s i op
    unfold run
    cases hs : step s op with
    | error e => rw [hs] at g; exact g
    | ok s1 =>
      rw [hs] at g
      have g2 := ih s1 g.1
      simp only []
      cases hr : run s1 ops with
      | error e => rw [hr] at g2; exact g2
      | ok s2 => rw [hr] at g2; exact ⟨g2.1, g.2.trans g2.2⟩

end SymVerif.RC
