/-
Bridge between the two semantics used by C10 / C11:

  NF.evalK I ρ'   (Lemmas/NFSound.lean)  atoms = arbitrary values attached to canonical dump *strings*
  C10.evalR ρ     (Lemmas/C10Real.lean)  real functions, symbols through ρ

`atomVal ρ` attaches to every dump string the real value of a tree with that dump.  Under `DumpFaithful ρ`
(trees with the same canonical dump have the same real value — true when names contain no blanks or parentheses,
since the dump is then injective up to the order of commutative containers; stated as a hypothesis, not proved)
the string semantics at `atomVal ρ` coincides with the real semantics on every tree that is `RealDef`ined.
Consequence (`equiv_real`): a certificate accepted by `NF.equiv` is an equality of *real values*.
-/
import Mathlib.Data.Complex.Basic
import SymVerif.Lemmas.NFSound
import SymVerif.Lemmas.C10Real

namespace SymVerif
namespace C10
open SymVerif Expr NF

/-- trees with the same canonical dump have the same real value -/
def DumpFaithful (ρ : String → ℝ) : Prop :=
  ∀ a b : Expr, Expr.dumpCanon a = Expr.dumpCanon b → evalR ρ a = evalR ρ b

/-- the value attached to a dump string: the real value of some tree with that dump -/
noncomputable def atomVal (ρ : String → ℝ) (s : String) : ℂ :=
  open Classical in
  if h : ∃ a : Expr, Expr.dumpCanon a = s then ((evalR ρ (Classical.choose h) : ℝ) : ℂ) else 0

theorem atomVal_dump {ρ : String → ℝ} (hf : DumpFaithful ρ) (a : Expr) :
    atomVal ρ (Expr.dumpCanon a) = ((evalR ρ a : ℝ) : ℂ) := by
  unfold atomVal
  have h : ∃ b : Expr, Expr.dumpCanon b = Expr.dumpCanon a := ⟨a, rfl⟩
  rw [dif_pos h]
  rw [hf _ _ (Classical.choose_spec h)]

theorem intLit?_some {e : Expr} {n : Int} (h : intLit? e = some n) : e = .int n := by
  cases e <;> simp [intLit?] at h
  rw [h]

mutual
  /-- the tree has a value in the string semantics: number leaves well formed, no `0 ^ negative` -/
  def RealDef (ρ : String → ℝ) : Expr → Prop
    | .int _ => True
    | .rat _ d => d ≠ 0
    | .cplx _ _ => False
    | .dbl _ => False
    | .cdbl _ _ => False
    | .infty _ => False
    | .nan => False
    | .bool _ => False
    | .add c ts => RealDef ρ c ∧ RealDefTerms ρ ts
    | .mul c fs => RealDef ρ c ∧ RealDefFacs ρ fs
    | .pow b e =>
      match intLit? e with
      | some n => RealDef ρ b ∧ (n < 0 → evalR ρ b ≠ 0)
      | none => True
    | _ => True
  def RealDefTerms (ρ : String → ℝ) : List (Expr × Expr) → Prop
    | [] => True
    | (k, v) :: t => RealDef ρ k ∧ RealDef ρ v ∧ RealDefTerms ρ t
  def RealDefFacs (ρ : String → ℝ) : List (Expr × Expr) → Prop
    | [] => True
    | (b, e) :: t =>
      (match intLit? e with
       | some n => RealDef ρ b ∧ (n < 0 → evalR ρ b ≠ 0)
       | none => True) ∧ RealDefFacs ρ t
end

theorem powVal_real (v : ℝ) (n : Int) (h : n < 0 → v ≠ 0) :
    powVal ((v : ℝ) : ℂ) n = some (((v ^ n : ℝ)) : ℂ) := by
  unfold powVal
  rw [if_neg]
  · simp
  · rintro ⟨hn, hv⟩
    exact h hn (by exact_mod_cast hv)

section
variable {ρ : String → ℝ} (hf : DumpFaithful ρ)
include hf

mutual
  theorem evalK_evalR : ∀ (e : Expr), RealDef ρ e →
      evalK Complex.I (atomVal ρ) e = some ((evalR ρ e : ℝ) : ℂ)
    | .int n, _ => by simp [evalK, evalR]
    | .rat n d, h => by
      simp only [RealDef] at h
      simp [evalK, evalR, h]
    | .cplx _ _, h => by simp [RealDef] at h
    | .dbl _, h => by simp [RealDef] at h
    | .cdbl _ _, h => by simp [RealDef] at h
    | .infty _, h => by simp [RealDef] at h
    | .nan, h => by simp [RealDef] at h
    | .bool _, h => by simp [RealDef] at h
    | .sym n, _ => by simp only [evalK]; rw [atomVal_dump hf]
    | .dummy n i, _ => by simp only [evalK]; rw [atomVal_dump hf]
    | .const n, _ => by simp only [evalK]; rw [atomVal_dump hf]
    | .fsym n args, _ => by simp only [evalK]; rw [atomVal_dump hf]
    | .app n args, _ => by simp only [evalK]; rw [atomVal_dump hf]
    | .add c ts, h => by
      simp only [RealDef] at h
      simp only [evalK, evalR, evalK_evalR c h.1, evalTerms_evalR ts h.2, add2]
      push_cast; rfl
    | .mul c fs, h => by
      simp only [RealDef] at h
      simp only [evalK, evalR, evalK_evalR c h.1, evalFacs_evalR fs h.2, mul2]
      push_cast; rfl
    | .pow b e, h => by
      simp only [RealDef] at h
      simp only [evalK]
      cases he : intLit? e with
      | none =>
        simp only []
        rw [atomVal_dump hf]
      | some n =>
        simp only [he] at h
        simp only [evalK_evalR b h.1, Option.bind_some, powVal_real _ n h.2]
        rw [intLit?_some he]
        simp [evalR]
  theorem evalTerms_evalR : ∀ (ts : List (Expr × Expr)), RealDefTerms ρ ts →
      evalTerms Complex.I (atomVal ρ) ts = some ((evalTermsR ρ ts : ℝ) : ℂ)
    | [], _ => by simp [evalTerms, evalTermsR]
    | (k, v) :: t, h => by
      simp only [RealDefTerms] at h
      simp only [evalTerms, evalTermsR, evalK_evalR k h.1, evalK_evalR v h.2.1, evalTerms_evalR t h.2.2, add2, mul2]
      push_cast; rfl
  theorem evalFacs_evalR : ∀ (fs : List (Expr × Expr)), RealDefFacs ρ fs →
      evalFacs Complex.I (atomVal ρ) fs = some ((evalFacsR ρ fs : ℝ) : ℂ)
    | [], _ => by simp [evalFacs, evalFacsR]
    | (b, e) :: t, h => by
      simp only [RealDefFacs] at h
      simp only [evalFacs, evalFacsR]
      cases he : intLit? e with
      | none =>
        simp only [evalFacs_evalR t h.2, mul2]
        rw [atomVal_dump hf]
        simp [evalR]
      | some n =>
        have h1 := h.1
        simp only [he] at h1
        simp only [evalK_evalR b h1.1, Option.bind_some, powVal_real _ n h1.2, evalFacs_evalR t h.2, mul2]
        rw [intLit?_some he]
        simp
end

/-- **A certificate is an equality of real values**: if `NF.equiv a b` and both trees are defined, they have the same
real value at `ρ`. -/
theorem equiv_real {a b : Expr} (h : NF.equiv a b = true) (ha : RealDef ρ a) (hb : RealDef ρ b) :
    evalR ρ a = evalR ρ b := by
  have := NF.equiv_sound (I := Complex.I) (ρ := atomVal ρ) Complex.I_mul_I h (evalK_evalR hf a ha) (evalK_evalR hf b hb)
  exact_mod_cast this

end

end C10
end SymVerif
