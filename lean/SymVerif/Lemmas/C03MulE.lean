/-
C03: induction step for `Rational::rpowrat`, `Mul::power_num` and its loop.
-/
import SymVerif.Lemmas.C03MulD

namespace SymVerif.Arith

variable {n : Nat}

/-! ### rpowrat -/

theorem gcd_fmod (a : Int) (d : Nat) (hd : d ≠ 0) :
    Nat.gcd (a.fmod d).natAbs d = Nat.gcd a.natAbs d := by
  rw [Int.fmod_eq_emod_of_nonneg a (by omega : (0 : Int) ≤ (d : Int))]
  have h1 : Int.gcd (a % (d : Int)) d = Int.gcd a d := by
    rw [Int.emod_def, Int.mul_comm]
    exact Int.gcd_sub_mul_right_left _ _ _
  simpa [Int.gcd_eq_natAbs_gcd_natAbs] using h1

theorem fmod_facts {nn : Int} {d : Nat} (h : ratCanon nn d = true) :
    Q.canon ⟨nn.fmod d, d⟩ = true ∧ 0 < nn.fmod d ∧ nn.fmod d < d ∧ ofQ ⟨nn.fmod d, d⟩ = .rat (nn.fmod d) d := by
  simp only [ratCanon, Bool.and_eq_true, bne_iff_ne, ne_eq, beq_iff_eq] at h
  obtain ⟨⟨hd0, hd1⟩, hg⟩ := h
  have hg' := gcd_fmod nn d hd0
  rw [hg] at hg'
  have hnn : 0 ≤ nn.fmod d := by
    rw [Int.fmod_eq_emod_of_nonneg nn (by omega : (0 : Int) ≤ (d : Int))]
    exact Int.emod_nonneg _ (by omega)
  have hlt : nn.fmod d < d := by
    rw [Int.fmod_eq_emod_of_nonneg nn (by omega : (0 : Int) ≤ (d : Int))]
    exact Int.emod_lt_of_pos _ (by omega)
  have hne : nn.fmod d ≠ 0 := by
    intro e
    rw [e] at hg'
    simp at hg'
    exact hd1 hg'
  refine ⟨by simp [Q.canon, hd0, hg'], by omega, hlt, ?_⟩
  simp [ofQ, hd1]

theorem numOK_imagUnit : NumOK imagUnit := by
  refine ⟨rfl, ?_⟩
  rw [imagUnit, canon_cplx]
  decide

theorem surd_dict {b : Int} {r : Int} {d : Nat} (hb1 : b ≠ 1) (hb0 : b ≠ 0)
    (hc : Q.canon ⟨r, d⟩ = true) (h0 : 0 < r) (hlt : r < d) (hof : ofQ ⟨r, d⟩ = .rat r d)
    (hrad : radOK b d = true) :
    MulDictOK (dinsert [] (.int b) (ofQ ⟨r, d⟩)) := by
  refine MulDictOK.nil.insert (exOK_int b).numOK.inv (ofQ_exOK hc).numOK.inv ?_
  rw [hof]
  simp [factorOK, isNumZero, Expr.isNum, numIsZero, isInteger, ratIn01, hb1, hb0, h0, hlt, hrad]
  omega

theorem step_rpowrat (ih : Spec n) : ∀ rv nn d other r, ratCanon nn d = true →
    rpowrat (n + 1) rv nn d other = .ok r → inv r = true := by
  intro rv nn d other r hnd h
  simp only [rpowrat, bind, Except.bind, pure, Except.pure] at h
  split at h
  · simp at h; subst h; exact numOK_one.inv
  · rename_i hne1
    split at h
    · simp at h; subst h
      split
      · exact numOK_zero.inv
      · exact NumOK.inv ⟨rfl, by rw [canon_infty]; simp⟩
    · rename_i hne0
      have hne1 : other ≠ 1 := by simpa using hne1
      have hne0 : other ≠ 0 := by simpa using hne0
      split at h
      · simp at h
      · rename_i o hearly
        cases o with
        | some x =>
          simp at h; subst h
          -- the perfect-power branches
          split at hearly
          · split at hearly
            · split at hearly
              · split at hearly
                · rename_i rt hroot
                  cases hs : rpowrat n rv nn d (-1) with
                  | error e => simp [hs] at hearly
                  | ok s =>
                    simp only [hs] at hearly
                    cases hp : numPowInt (.int rt) nn with
                    | error e => simp [hp] at hearly
                    | ok p =>
                      simp only [hp] at hearly
                      cases hm : mulF n rv s p with
                      | error e => simp [hm] at hearly
                      | ok m =>
                        simp [hm] at hearly
                        subst hearly
                        exact ih.mulF rv s p m (ih.rpowrat rv nn d (-1) s hnd hs)
                          (numPowInt_ok (exOK_int _) hp).inv hm
                · simp at hearly
              · simp at hearly
            · split at hearly
              · rename_i rt hroot
                cases hp : numPowInt (.int rt) nn with
                | error e => simp [hp] at hearly
                | ok p =>
                  simp [hp] at hearly
                  subst hearly
                  exact (numPowInt_ok (exOK_int _) hp).inv
              · simp at hearly
          · simp at hearly
        | none =>
          -- no exact root was found
          have hroot : d < 2 ^ 64 →
              (if other < 0 then (other == -1 || (exactRoot other.natAbs d).isNone)
               else (exactRoot other.toNat d).isNone) = true := by
            intro hd
            simp only [hd, if_true] at hearly
            split at hearly
            · rename_i hneg
              simp only [hneg, if_true]
              split at hearly
              · rename_i hm1
                split at hearly
                · rename_i rt hroot
                  cases hs : rpowrat n rv nn d (-1) with
                  | error e => simp [hs] at hearly
                  | ok s =>
                    simp only [hs] at hearly
                    cases hp : numPowInt (.int rt) nn with
                    | error e => simp [hp] at hearly
                    | ok p =>
                      simp only [hp] at hearly
                      cases hm : mulF n rv s p with
                      | error e => simp [hm] at hearly
                      | ok m => simp [hm] at hearly
                · rename_i hroot
                  simp [hroot]
              · rename_i hm1
                simp at hm1
                simp [hm1]
            · rename_i hneg
              simp only [hneg, if_false]
              split at hearly
              · rename_i rt hroot
                cases hp : numPowInt (.int rt) nn with
                | error e => simp [hp] at hearly
                | ok p => simp [hp] at hearly
              · rename_i hroot
                simp [hroot]
          clear hearly
          simp only at h
          obtain ⟨hc, h0, hlt, hof⟩ := fmod_facts hnd
          simp only [fdivmod] at h
          cases hp : numPowInt (.int other) (nn.fdiv d) with
          | error e => simp [hp] at h
          | ok coef =>
            simp only [hp] at h
            have hcoef := numPowInt_ok (exOK_int other) hp
            split at h
            · rename_i hneg
              simp only [Bool.and_eq_true, decide_eq_true_eq] at hneg
              cases hm : numMul coef imagUnit with
              | error e => simp [hm] at h
              | ok c2 =>
                simp [hm] at h
                subst h
                refine mulFromDict_inv (numMul_ok hcoef numOK_imagUnit hm) ?_
                by_cases hm1 : other = -1
                · simp [hm1]; exact MulDictOK.nil
                · rw [if_neg hm1]
                  have hd2 : d = 2 := by simpa using hneg.2
                  refine surd_dict (by omega) (by omega) hc h0 hlt hof ?_
                  have := hroot (by subst hd2; decide)
                  simp only [hneg.1, if_true, Bool.or_eq_true, beq_iff_eq, hm1, false_or] at this
                  have e : (-other).toNat = other.natAbs := by omega
                  have hnn : ¬ (-other < 0) := by omega
                  simp [radOK, hnn, e, this]
                  omega
            · simp at h
              subst h
              rename_i hnot
              refine mulFromDict_inv hcoef (surd_dict hne1 hne0 hc h0 hlt hof ?_)
              simp only [radOK, Bool.and_eq_true, Bool.or_eq_true, Bool.not_eq_true',
                decide_eq_false_iff_not, bne_iff_ne, ne_eq]
              refine ⟨⟨hne0, by simpa using hnot⟩, ?_⟩
              by_cases hd : d < 2 ^ 64
              · exact Or.inr (hroot hd)
              · exact Or.inl (by simpa using hd)

/-! ### power_num -/

theorem exOK_of_zero {e : Expr} (he : NumOK e) (hz : numIsZero e = true) : ExOK e := by
  refine ⟨?_, he.2⟩
  cases e <;> simp_all [numIsZero, isExactNum]

theorem numIsMinusOne_canon {v : Expr} (hc : canon v = true) (h : numIsMinusOne v = true) :
    v = .int (-1) := by
  cases v <;> simp [numIsMinusOne] at h
  · subst h; rfl
  · rename_i nn d
    rw [canon_rat] at hc
    simp [ratCanon] at hc
    subst h
    simp at hc
    omega

theorem inv_mul_ne_nil {c : Expr} {fs : Dict} (h : inv (.mul c fs) = true) : fs ≠ [] := by
  obtain ⟨_, _, h3, _, _⟩ := inv_mul_iff.mp h
  unfold mulCanonTop at h3
  simp only [Bool.and_eq_true] at h3
  intro e
  simp [e] at h3

/-- `(-3*x*y)**(1/2)`: the remaining product `-x*y` is a legal base for the exponent -/
theorem pre_negArm {sc exp : Expr} {sd : Dict} (hm : inv (.mul sc sd) = true) (he : NumOK exp)
    (hz : numIsZero exp = false) (hi : isInteger exp = false) :
    Pre (mulFromDict minusOne sd) exp := by
  have hne := inv_mul_ne_nil hm
  refine ⟨mulFromDict_inv numOK_minusOne (inv_mul_dict hm), he.inv, by simp [isNumZero, hz], ?_⟩
  have : mulFromDict minusOne sd = .mul minusOne sd := by
    unfold mulFromDict
    simp only [minusOne, numIsZero, numIsOne]
    match sd, hne with
    | [(b, e)], _ => simp
    | _ :: _ :: _, _ => simp
  rw [this]
  simp [preOK, minusOne, isExactNum, hi, isIntLit]

theorem pre_oneArm {sc exp : Expr} {sd : Dict} (hm : inv (.mul sc sd) = true) (he : NumOK exp)
    (hz : numIsZero exp = false) (hi : isInteger exp = false) :
    Pre (mulFromDict one sd) exp := by
  have hne := inv_mul_ne_nil hm
  have hd := inv_mul_dict hm
  refine ⟨mulFromDict_inv numOK_one hd, he.inv, by simp [isNumZero, hz], ?_⟩
  match sd, hne, hd with
  | [(b, e)], _, hd =>
    rw [mulFromDict_one_single]
    split
    · rename_i h1
      have hf := hd.fac (b, e) (by simp)
      unfold factorOK at hf
      unfold preOK
      cases b <;> cases e <;> simp_all [isIntLit, isInteger, isNumZero, Expr.isNum, numIsZero]
    · simp [preOK]
  | _ :: _ :: _, _, _ =>
    rw [mulFromDict_one_many]
    simp [preOK, one, isExactNum, hi, isIntLit]

theorem pre_selfArm {sc exp : Expr} {sd : Dict} (hm : inv (.mul sc sd) = true)
    (hex : isExactNum sc = true) (he : NumOK exp)
    (hz : numIsZero exp = false) (hi : isInteger exp = false)
    (h1 : (numIsNegative sc && !numIsMinusOne sc) = false)
    (h2 : (numIsPositive sc && !numIsOne sc) = false) : Pre (.mul sc sd) exp := by
  refine ⟨hm, he.inv, by simp [isNumZero, hz], ?_⟩
  have hsc := inv_mul_coef hm
  simp only [preOK, hex, hi, Bool.true_and, Bool.not_false, Bool.not_eq_true', Bool.and_eq_false_iff,
    Bool.not_eq_false', Bool.or_eq_false_iff]
  by_cases hp : numIsPositive sc = true
  · have : numIsOne sc = true := by simpa [hp] using h2
    have := numIsOne_canon hsc.2 this
    subst this
    simp [isIntLit]
  · by_cases hn : numIsNegative sc = true
    · have : numIsMinusOne sc = true := by simpa [hn] using h1
      have := numIsMinusOne_canon hsc.2 this
      subst this
      simp [isIntLit]
    · simp at hp hn
      simp [hp, hn]

theorem exOK_numMul {a b r : Expr} (ha : ExOK a) (hb : ExOK b) (h : numMul a b = .ok r) : ExOK r := by
  obtain ⟨ar, ai, hga, ca⟩ := exOK_toGQ ha
  obtain ⟨br, bi, hgb, cb⟩ := exOK_toGQ hb
  simp only [numMul, hga, hgb] at h
  simp at h; subst h
  exact ofGQ_exOK (Q.sub_canon (Q.mul_canon ca.1 cb.1) (Q.mul_canon ca.2 cb.2))
    (Q.add_canon (Q.mul_canon ca.1 cb.2) (Q.mul_canon ca.2 cb.1))

theorem okBase_of_exact {a : Expr} (h : isExactNum a = true) : okBase a = true := by
  cases a <;> simp_all [isExactNum, okBase]

theorem step_powerNum (ih : Spec n) : ∀ rv sc sd coef d exp c' d', inv (.mul sc sd) = true →
    isExactNum sc = true → St coef d → NumOK exp →
    powerNum (n + 1) rv sc sd coef d exp = .ok (c', d') → St c' d' := by
  intro rv sc sd coef d exp c' d' hm hex hs he h
  have hsc := inv_mul_coef hm
  have hscE : ExOK sc := ⟨hex, hsc.2⟩
  simp only [powerNum, bind, Except.bind, pure, Except.pure] at h
  split at h
  · rename_i hz
    cases hp : numPow exp zero with
    | error e => simp [hp] at h
    | ok p =>
      simp only [hp] at h
      cases hmu : numMul coef p with
      | error e => simp [hmu] at h
      | ok c1 =>
        simp [hmu] at h
        obtain ⟨rfl, rfl⟩ := h
        exact ⟨numMul_ok hs.1 (numPow_ok (exOK_of_zero he hz) hp) hmu, hs.2⟩
  · rename_i hz
    have hz : numIsZero exp = false := by simpa using hz
    split at h
    · simp at h
    · rename_i x hx
      obtain ⟨nc, c1, d1⟩ := x
      simp only at h
      -- every arm delivers an invariant-satisfying new coefficient and state
      have key : inv nc = true ∧ St c1 d1 := by
        split at hx
        · -- Integer exponent
          rename_i hi
          cases hpw : powF n rv sc exp with
          | error e => simp [hpw] at hx
          | ok nc' =>
            simp only [hpw] at hx
            cases hl : powerNumLoop n rv (iterOrder rv sd) exp coef d with
            | error e => simp [hl] at hx
            | ok cd =>
              simp [hl] at hx
              obtain ⟨rfl, rfl, rfl⟩ := hx
              refine ⟨ih.powF rv sc exp nc' hsc.inv he.inv (okBase_of_exact hex) hpw, ?_⟩
              have hd := inv_mul_dict hm
              cases exp with
              | int m =>
                have hm0 : m ≠ 0 := by simpa [numIsZero] using hz
                exact ih.powerNumLoop rv (iterOrder rv sd) m coef d cd.1 cd.2
                  (fun p hp => ⟨(hd.ent p (iterOrder_mem hp)).1, (hd.ent p (iterOrder_mem hp)).2,
                    hd.fac p (iterOrder_mem hp)⟩) hm0 hs hl
              | _ => simp [isInteger] at hi
        · rename_i hi
          have hi : isInteger exp = false := by simpa using hi
          split at hx
          · -- negative coefficient
            cases hmm : numMul sc minusOne with
            | error e => simp [hmm] at hx
            | ok m =>
              simp only [hmm] at hx
              have hmE := exOK_numMul hscE (exOK_int (-1)) hmm
              cases hpw : powF n rv m exp with
              | error e => simp [hpw] at hx
              | ok nc' =>
                simp only [hpw] at hx
                cases hdn : datNew n rv coef d exp (mulFromDict minusOne sd) with
                | error e => simp [hdn] at hx
                | ok cd =>
                  simp [hdn] at hx
                  obtain ⟨rfl, rfl, rfl⟩ := hx
                  exact ⟨ih.powF rv m exp nc' hmE.numOK.inv he.inv (okBase_of_exact hmE.1) hpw,
                    ih.datNew rv coef d exp _ cd.1 cd.2 hs (pre_negArm hm he hz hi) hdn⟩
          · rename_i hneg
            split at hx
            · -- positive coefficient
              cases hpw : powF n rv sc exp with
              | error e => simp [hpw] at hx
              | ok nc' =>
                simp only [hpw] at hx
                cases hdn : datNew n rv coef d exp (mulFromDict one sd) with
                | error e => simp [hdn] at hx
                | ok cd =>
                  simp [hdn] at hx
                  obtain ⟨rfl, rfl, rfl⟩ := hx
                  exact ⟨ih.powF rv sc exp nc' hsc.inv he.inv (okBase_of_exact hex) hpw,
                    ih.datNew rv coef d exp _ cd.1 cd.2 hs (pre_oneArm hm he hz hi) hdn⟩
            · rename_i hpos
              cases hdn : datNew n rv coef d exp (.mul sc sd) with
              | error e => simp [hdn] at hx
              | ok cd =>
                simp [hdn] at hx
                obtain ⟨rfl, rfl, rfl⟩ := hx
                exact ⟨numOK_one.inv, ih.datNew rv coef d exp _ cd.1 cd.2 hs
                  (pre_selfArm hm hex he hz hi (by simpa using hneg) (by simpa using hpos)) hdn⟩
      exact ih.mulInto rv c1 d1 nc c' d' key.2 key.1 h

theorem step_powerNumLoop (hexp : PowerExpOK) (ih : Spec n) : ∀ rv l m coef d c' d',
    (∀ p ∈ l, inv p.1 = true ∧ inv p.2 = true ∧ factorOK p.1 p.2 = true) → m ≠ 0 → St coef d →
    powerNumLoop (n + 1) rv l (.int m) coef d = .ok (c', d') → St c' d' := by
  intro rv l m coef d c' d' hl hm0 hs h
  cases l with
  | nil =>
    simp [powerNumLoop] at h
    obtain ⟨rfl, rfl⟩ := h
    exact hs
  | cons p r =>
    obtain ⟨k, v⟩ := p
    obtain ⟨hk, hv, hf⟩ := hl (k, v) (by simp)
    simp only [powerNumLoop, bind, Except.bind] at h
    cases hne : mulF n rv v (.int m) with
    | error e => simp [hne] at h
    | ok newExp =>
      simp only [hne] at h
      have hni := ih.mulF rv v (.int m) newExp hv (exOK_int m).numOK.inv hne
      obtain ⟨hnz, hpre⟩ := hexp n rv k v m newExp hk hv hf hm0 hne
      have hP : (isMul k = false ∨ isInteger newExp = false) → Pre k newExp :=
        fun hc => ⟨hk, hni, hnz, hpre hc⟩
      split at h
      · simp at h
      · rename_i cd hstep
        have hs1 : St cd.1 cd.2 := by
          split at hstep
          · rename_i kc kd
            split at hstep
            · rename_i hi
              have hex : isExactNum kc = true := by
                unfold factorOK at hf
                simp only [Bool.and_eq_true] at hf
                exact hf.2.1.1
              have hnum : NumOK newExp := by
                refine ⟨?_, inv_canon hni⟩
                cases newExp <;> simp_all [isInteger, Expr.isNum]
              exact ih.powerNum rv kc kd coef d newExp cd.1 cd.2 hk hex hs hnum hstep
            · rename_i hni'
              exact ih.datNew rv coef d newExp _ cd.1 cd.2 hs (hP (Or.inr (by simpa using hni'))) hstep
          · rename_i hnm
            refine ih.datNew rv coef d newExp k cd.1 cd.2 hs (hP (Or.inl ?_)) hstep
            cases k <;> simp_all [isMul]
        exact ih.powerNumLoop rv r m cd.1 cd.2 c' d' (fun q hq => hl q (by simp [hq])) hm0 hs1 h

end SymVerif.Arith
