/-
C31 helper lemmas, part 10: uniqueness modulo `X^n` of the solutions of the implicit equations that
characterise tan / tanh (`atan T = S`), lambertw (`W e^W = S`) and roots (`D^m = B`).
-/
import Mathlib.Algebra.Ring.GeomSum
import SymVerif.Lemmas.C31Lambert

namespace SymVerif.C31
open SymVerif.Series PowerSeries

/-- `fat σ` (atan, atanh) is injective modulo `X^n` on series without constant term -/
theorem fat_inj (σ : ℚ) : ∀ (n : ℕ) {G T : ℚ⟦X⟧}, constantCoeff G = 0 → constantCoeff T = 0 →
    EqMod n (fat σ G) (fat σ T) → EqMod n G T := by
  intro n
  induction n with
  | zero => intro G T _ _ _; exact eqMod_zero _ _
  | succ n ih =>
    intro G T hG hT h
    have hn : EqMod n G T := ih hG hT (h.mono (by omega))
    apply eqMod_of_derivative
    · rw [coeff_zero_eq_constantCoeff_apply, coeff_zero_eq_constantCoeff_apply, hG, hT]
    · have hd := h.derivative
      have e1 : d⁄dX ℚ (fat σ G) = d⁄dX ℚ G * (1 + C σ * (G * G))⁻¹ := derivative_integ _
      have e2 : d⁄dX ℚ (fat σ T) = d⁄dX ℚ T * (1 + C σ * (T * T))⁻¹ := derivative_integ _
      rw [e1, e2] at hd
      set AG := 1 + C σ * (G * G)
      set AT := 1 + C σ * (T * T)
      have hAG : constantCoeff AG ≠ 0 := by
        show constantCoeff (1 + C σ * (G * G)) ≠ 0
        rw [map_add, map_mul, map_mul, hG]; simp
      have hAT : constantCoeff AT ≠ 0 := by
        show constantCoeff (1 + C σ * (T * T)) ≠ 0
        rw [map_add, map_mul, map_mul, hT]; simp
      have hA : EqMod n AG AT := (EqMod.refl _ _).add (EqMod.mul_left _ (hn.mul hn))
      have hAi : EqMod n AG⁻¹ AT⁻¹ := inv_congr hA hAG hAT
      -- G'·AT⁻¹ ≡ G'·AG⁻¹ ≡ T'·AT⁻¹
      have h1 : EqMod n (d⁄dX ℚ G * AT⁻¹) (d⁄dX ℚ T * AT⁻¹) :=
        ((EqMod.mul_left _ hAi).symm).trans hd
      have := h1.mul_right AT
      have e : ∀ Z : ℚ⟦X⟧, Z * AT⁻¹ * AT = Z := fun Z => by
        rw [mul_assoc Z AT⁻¹ AT, PowerSeries.inv_mul_cancel AT hAT, mul_one]
      rwa [e, e] at this

/-- `w ↦ w·e^w` is injective modulo `X^n` on series without constant term -/
theorem lambert_inj : ∀ (n : ℕ) {G W : ℚ⟦X⟧}, constantCoeff G = 0 → constantCoeff W = 0 →
    EqMod n (G * fexp G) (W * fexp W) → EqMod n G W := by
  intro n
  induction n with
  | zero => intro G W _ _ _; exact eqMod_zero _ _
  | succ n ih =>
    intro G W hG hW h
    have hn : EqMod n G W := ih hG hW (h.mono (by omega))
    apply eqMod_of_derivative
    · rw [coeff_zero_eq_constantCoeff_apply, coeff_zero_eq_constantCoeff_apply, hG, hW]
    · have hd := h.derivative
      have e1 : d⁄dX ℚ (G * fexp G) = d⁄dX ℚ G * (fexp G * (1 + G)) := by
        rw [Derivation.leibniz, (isExpOf_fexp hG).2]
        simp only [smul_eq_mul]; ring
      have e2 : d⁄dX ℚ (W * fexp W) = d⁄dX ℚ W * (fexp W * (1 + W)) := by
        rw [Derivation.leibniz, (isExpOf_fexp hW).2]
        simp only [smul_eq_mul]; ring
      rw [e1, e2] at hd
      set UG := fexp G * (1 + G)
      set UW := fexp W * (1 + W)
      have hUW : constantCoeff UW ≠ 0 := by
        show constantCoeff (fexp W * (1 + W)) ≠ 0
        rw [map_mul, constantCoeff_fexp hW, map_add, hW]; simp
      have hU : EqMod n UG UW := (fexp_congr hn hG hW).mul ((EqMod.refl _ _).add hn)
      have h1 : EqMod n (d⁄dX ℚ G * UW) (d⁄dX ℚ W * UW) := ((EqMod.mul_left _ hU).symm).trans hd
      have := h1.mul_right UW⁻¹
      have e : ∀ Z : ℚ⟦X⟧, Z * UW * UW⁻¹ = Z := fun Z => by
        rw [mul_assoc Z UW UW⁻¹, PowerSeries.mul_inv_cancel UW hUW, mul_one]
      rwa [e, e] at this

/-- `m`-th roots with a prescribed non-zero constant term are unique modulo `X^n` -/
theorem pow_inj_mod {n m : ℕ} (hm : 1 ≤ m) {G D : ℚ⟦X⟧} (hc : constantCoeff G = constantCoeff D)
    (hD : constantCoeff D ≠ 0) (h : EqMod n (G ^ m) (D ^ m)) : EqMod n G D := by
  set U := ∑ i ∈ Finset.range m, G ^ i * D ^ (m - 1 - i) with hU
  have hfac : U * (G - D) = G ^ m - D ^ m := (Commute.all G D).geom_sum₂_mul m
  have hUc : constantCoeff U ≠ 0 := by
    rw [hU, map_sum]
    have : ∀ i ∈ Finset.range m, constantCoeff (G ^ i * D ^ (m - 1 - i)) = (constantCoeff D) ^ (m - 1) := by
      intro i hi
      have hi' := Finset.mem_range.mp hi
      rw [map_mul, map_pow, map_pow, hc, ← pow_add]
      congr 1; omega
    rw [Finset.sum_congr rfl this, Finset.sum_const, Finset.card_range, nsmul_eq_mul]
    have h1 : (m : ℚ) ≠ 0 := by positivity
    exact mul_ne_zero h1 (pow_ne_zero _ hD)
  have h0 : EqMod n (G ^ m - D ^ m) 0 := by
    have := h.sub (EqMod.refl n (D ^ m))
    simpa using this
  rw [← hfac] at h0
  have h1 := h0.mul_left U⁻¹
  rw [← mul_assoc, PowerSeries.inv_mul_cancel U hUc, one_mul, mul_zero] at h1
  intro k hk
  have := h1 k hk
  simpa [sub_eq_zero] using this

/-- positive rationals with equal `m`-th powers are equal -/
theorem pos_pow_inj {a b : ℚ} {m : ℕ} (hm : 1 ≤ m) (ha : 0 < a) (hb : 0 < b) (h : a ^ m = b ^ m) : a = b :=
  (pow_left_inj₀ ha.le hb.le (by omega : m ≠ 0)).mp h

end SymVerif.C31
