/-
is_even: `is_integer(b/2)` with the model `half` of `div(b, 2)` (Model/Queries2.lean).
-/
import SymVerif.Lemmas.C34Dom
import SymVerif.Model.Queries2
import Mathlib.Tactic.FieldSimp

namespace SymVerif.C34
open SymVerif SymVerif.Queries

theorem gcd_two_of_odd {m : ℕ} (h : m % 2 = 1) : Nat.gcd m 2 = 1 := by
  rw [Nat.gcd_comm, Nat.gcd_rec, h]
  decide

theorem wf_halfNum {c : Expr} (hw : wf c = true) : wf (halfNum c) = true := by
  cases c with
  | int n =>
    simp only [halfNum]
    split
    · simp [wf]
    · rename_i h
      have hodd : n.natAbs % 2 = 1 := by
        have : ¬ (n % 2 = 0) := by simpa using h
        omega
      simp [wf, gcd_two_of_odd hodd]
  | rat n d =>
    simp only [wf, Bool.and_eq_true, decide_eq_true_eq, beq_iff_eq] at hw
    obtain ⟨hd, hg⟩ := hw
    simp only [halfNum]
    split
    · rename_i h
      have he : n % 2 = 0 := by simpa using h
      have hdvd : (n / 2).natAbs ∣ n.natAbs := by
        apply Int.natAbs_dvd_natAbs.mpr
        exact ⟨2, by omega⟩
      have : Nat.Coprime (n / 2).natAbs d := Nat.Coprime.coprime_dvd_left hdvd hg
      simp [wf, hd, this.gcd_eq_one]
    · rename_i h
      have hodd : n.natAbs % 2 = 1 := by
        have : ¬ (n % 2 = 0) := by simpa using h
        omega
      have h2 : Nat.Coprime n.natAbs 2 := gcd_two_of_odd hodd
      have : Nat.Coprime n.natAbs (2 * d) := Nat.Coprime.mul_right h2 hg
      have hd2 : 1 < 2 * d := by omega
      simp [wf, hd2, this.gcd_eq_one]
  | _ => simpa [halfNum] using hw

theorem halfNum_isNum {c : Expr} (h : c.isNum = true) : (halfNum c).isNum = true := by
  cases c with
  | int n => simp only [halfNum]; split <;> rfl
  | rat n d => simp only [halfNum]; split <;> rfl
  | _ => simpa [halfNum] using h

theorem evalR_halfNum {ρ : String → ℝ} {c : Expr} {v : ℝ} (hn : c.isNum = true) (hv : evalR ρ c = some v) :
    evalR ρ (halfNum c) = some (v / 2) := by
  cases c with
  | int n =>
    simp [evalR] at hv
    subst hv
    simp only [halfNum]
    split
    · rename_i h
      have he : n % 2 = 0 := by simpa using h
      have hn : n = 2 * (n / 2) := by omega
      simp only [evalR]
      congr 1
      have : (n : ℝ) = 2 * ((n / 2 : ℤ) : ℝ) := by exact_mod_cast hn
      rw [this]; ring
    · simp [evalR]
  | rat n d =>
    simp [evalR] at hv
    obtain ⟨hd, rfl⟩ := hv
    have hdR : (d : ℝ) ≠ 0 := by exact_mod_cast hd
    simp only [halfNum]
    split
    · rename_i h
      have he : n % 2 = 0 := by simpa using h
      have hn : n = 2 * (n / 2) := by omega
      simp only [evalR, hd, if_false]
      congr 1
      have : (n : ℝ) = 2 * ((n / 2 : ℤ) : ℝ) := by exact_mod_cast hn
      rw [this]; field_simp
    · have h2d : 2 * d ≠ 0 := by omega
      simp only [evalR, h2d, if_false]
      congr 1
      push_cast
      field_simp
  | _ => simp [Expr.isNum, evalR] at hn hv

theorem half_default_spec {ρ : String → ℝ} {e : Expr} {v : ℝ} (hh : half e = .mul (.rat 1 2) [(e, .int 1)])
    (hw : wf e = true) (hv : evalR ρ e = some v) :
    wf (half e) = true ∧ evalR ρ (half e) = some (v / 2) := by
  rw [hh]
  refine ⟨?_, ?_⟩
  · have h12 : wf (.rat 1 2) = true := by decide
    simp [wf, wfPairs, hw, h12, Expr.isNum]
  · rw [evalR_mul_single, hv]
    simp [evalR]
    ring

/-- `half e` is well-formed and has half the value -/
theorem half_spec {ρ : String → ℝ} {e : Expr} {v : ℝ} (hw : wf e = true) (hv : evalR ρ e = some v) :
    wf (half e) = true ∧ evalR ρ (half e) = some (v / 2) := by
  have h12 : wf (.rat 1 2) = true := by decide
  cases e with
  | mul c fs =>
    simp only [wf, Bool.and_eq_true] at hw
    obtain ⟨⟨hwc, hcn⟩, hwfs⟩ := hw
    simp only [evalR] at hv
    cases hc : evalR ρ c with
    | none => simp [hc] at hv
    | some vc =>
      cases hP : evalFacs ρ fs with
      | none => simp [hc, hP] at hv
      | some P =>
        simp [hc, hP] at hv
        subst hv
        have hc' := evalR_halfNum hcn hc
        have hgen : wf (.mul (halfNum c) fs) = true ∧ evalR ρ (.mul (halfNum c) fs) = some (vc * P / 2) := by
          refine ⟨by simp [wf, wf_halfNum hwc, halfNum_isNum hcn, hwfs], ?_⟩
          simp [evalR, hc', hP]
          ring
        simp only [half]
        split
        · rename_i h1
          have h1' := isOne_eq h1
          rw [h1'] at hc'
          simp [evalR] at hc'
          split
          · rename_i b x
            simp only [wfPairs, Bool.and_eq_true] at hwfs
            simp only [evalFacs] at hP
            cases hp : powSem (evalR ρ b) x (evalR ρ x) with
            | none => simp [hp] at hP
            | some p =>
              simp [hp] at hP
              subst hP
              have hval : vc * p / 2 = p := by
                have : vc = 2 := by linarith
                rw [this]; ring
              split
              · rename_i hx1
                have := isOne_eq hx1
                subst this
                rw [powSem_one] at hp
                exact ⟨hwfs.1.1, by rw [hp, hval]⟩
              · refine ⟨by simp [wf, hwfs.1.1, hwfs.1.2], ?_⟩
                simp only [evalR, hp, hval]
          · exact hgen
        · exact hgen
  | pow b x =>
    refine ⟨?_, ?_⟩
    · simp only [wf, Bool.and_eq_true] at hw
      simp [half, wf, wfPairs, hw.1, hw.2, Expr.isNum, h12]
    · simp only [evalR] at hv
      simp only [half, evalR, evalFacs, hv]
      simp
      ring
  | int n =>
    exact ⟨by simpa [half, Expr.isNum] using wf_halfNum hw,
      by simpa [half, Expr.isNum] using evalR_halfNum (c := .int n) rfl hv⟩
  | rat n d =>
    exact ⟨by simpa [half, Expr.isNum] using wf_halfNum hw,
      by simpa [half, Expr.isNum] using evalR_halfNum (c := .rat n d) rfl hv⟩
  | sym s => exact half_default_spec (by simp [half, Expr.isNum]) hw hv
  | const c => exact half_default_spec (by simp [half, Expr.isNum]) hw hv
  | add c ts => exact half_default_spec (by simp [half, Expr.isNum]) hw hv
  | app h args => exact half_default_spec (by simp [half, Expr.isNum]) hw hv
  | _ => simp [evalR] at hv

/-! ## is_even -/

theorem isEven_sound {ρ : String → ℝ} {A : Assumptions} (hA : FactsSat ρ A) {e : Expr} {v : ℝ}
    (hw : wf e = true) (hv : evalR ρ e = some v) :
    (isEven A e = .t → ∃ n : ℤ, v = 2 * (n : ℝ)) ∧ (isEven A e = .f → ¬ ∃ n : ℤ, v = 2 * (n : ℝ)) := by
  obtain ⟨hwh, hvh⟩ := half_spec hw hv
  have := isIntegerF_sound hA (size (half e) + 1) (half e) (v / 2) hwh hvh
  constructor
  · intro h
    obtain ⟨n, hn⟩ := this.1 h
    exact ⟨n, by linarith⟩
  · intro h ⟨n, hn⟩
    exact this.2 h ⟨n, by rw [hn]; ring⟩


/-! ## is_odd -/

theorem gcd_add_den {n : ℤ} {d : ℕ} : Nat.gcd (n + (d : ℤ)).natAbs d = Nat.gcd n.natAbs d := by
  have h1 : Int.gcd (n + (d : ℤ)) (d : ℤ) = Int.gcd n (d : ℤ) := Int.gcd_add_self_left (d : ℤ) n
  simpa [Int.gcd_eq_natAbs_gcd_natAbs] using h1

theorem wf_addOneNum {c : Expr} (hw : wf c = true) : wf (addOneNum c) = true := by
  cases c with
  | int n => simp [addOneNum, wf]
  | rat n d =>
    simp only [wf, Bool.and_eq_true, decide_eq_true_eq, beq_iff_eq] at hw
    simp [addOneNum, wf, hw.1, gcd_add_den, hw.2]
  | _ => simpa [addOneNum] using hw

theorem addOneNum_isNum {c : Expr} (h : c.isNum = true) : (addOneNum c).isNum = true := by
  cases c <;> simp_all [addOneNum, Expr.isNum]

theorem evalR_addOneNum {ρ : String → ℝ} {c : Expr} {v : ℝ} (hn : c.isNum = true) (hv : evalR ρ c = some v) :
    evalR ρ (addOneNum c) = some (v + 1) := by
  cases c with
  | int n =>
    simp [evalR] at hv
    subst hv
    simp [addOneNum, evalR]
  | rat n d =>
    simp [evalR] at hv
    obtain ⟨hd, rfl⟩ := hv
    have hdR : (d : ℝ) ≠ 0 := by exact_mod_cast hd
    simp only [addOneNum, evalR, hd, if_false]
    congr 1
    push_cast
    field_simp
  | _ => simp [Expr.isNum, evalR] at hn hv

/-- the zero test of the new coefficient: only the Integer -1 becomes zero (canonical rationals cannot) -/
theorem addOneNum_zero {c : Expr} (hw : wf c = true) (hn : c.isNum = true) (hz : numIsZero (addOneNum c) = true) :
    (c = .int (-1)) ∨ (∀ (ρ : String → ℝ), evalR ρ c = none) := by
  cases c with
  | int n =>
    left
    simp [addOneNum, numIsZero] at hz
    have : n = -1 := by omega
    rw [this]
  | rat n d =>
    exfalso
    simp only [wf, Bool.and_eq_true, decide_eq_true_eq, beq_iff_eq] at hw
    simp [addOneNum, numIsZero] at hz
    have hn' : n = -(d : ℤ) := by omega
    have : n.natAbs = d := by rw [hn']; simp
    rw [this, Nat.gcd_self] at hw
    omega
  | _ => right; intro ρ; simp_all [evalR, Expr.isNum]

theorem size_pos (e : Expr) : ∃ k, size e = k + 1 := by
  have h : size e ≠ 0 := by
    cases e <;> simp only [size] <;> omega
  exact Nat.exists_eq_succ_of_ne_zero h

/-- `(1/2) * X` is never an integer for IntegerVisitor: its first argument is the Rational 1/2 -/
theorem isInteger_half_mul (A : Assumptions) (X : Expr) :
    isInteger A (.mul (.rat 1 2) [(X, .int 1)]) = .i := by
  unfold isInteger
  obtain ⟨k, hk⟩ := size_pos (.mul (.rat 1 2) [(X, .int 1)])
  obtain ⟨k', hk'⟩ : ∃ k', k = k' + 1 := by
    simp only [size, sizePairs] at hk
    exact ⟨k - 1, by omega⟩
  rw [hk, hk']
  simp [isIntegerF, argsOf, mulArgs, isOne, allT, Expr.isNum]

theorem isOdd_sound {ρ : String → ℝ} {A : Assumptions} (hA : FactsSat ρ A) {e : Expr} {v : ℝ}
    (hw : wf e = true) (hv : evalR ρ e = some v) :
    (isOdd A e = .t → ∃ n : ℤ, v + 1 = 2 * (n : ℝ)) ∧ (isOdd A e = .f → ¬ ∃ n : ℤ, v + 1 = 2 * (n : ℝ)) := by
  -- either `addOne e` is a well-formed expression with value v + 1, or the answer is indeterminate
  have key : (wf (addOne e) = true ∧ evalR ρ (addOne e) = some (v + 1)) ∨ isOdd A e = .i := by
    cases e with
    | int n => left; exact ⟨by simpa [addOne, Expr.isNum] using wf_addOneNum hw,
        by simpa [addOne, Expr.isNum] using evalR_addOneNum (c := .int n) rfl hv⟩
    | rat n d => left; exact ⟨by simpa [addOne, Expr.isNum] using wf_addOneNum hw,
        by simpa [addOne, Expr.isNum] using evalR_addOneNum (c := .rat n d) rfl hv⟩
    | add c ts =>
      left
      have hw0 := hw
      simp only [wf, Bool.and_eq_true] at hw
      obtain ⟨⟨⟨⟨hwc, hcn⟩, _⟩, hne⟩, hts⟩ := hw
      simp only [evalR] at hv
      cases hc : evalR ρ c with
      | none => simp [hc] at hv
      | some vc =>
        cases hs : evalTerms ρ ts with
        | none => simp [hc, hs] at hv
        | some vs =>
          simp [hc, hs] at hv
          subst hv
          have hc' := evalR_addOneNum hcn hc
          simp only [addOne]
          split
          · rename_i hz
            rcases addOneNum_zero hwc hcn hz with rfl | hnone
            · simp [evalR] at hc
              subst hc
              split
              · rename_i k w
                simp only [wfTerms, Bool.and_eq_true] at hts
                obtain ⟨⟨⟨⟨⟨hwk, hww⟩, hwn⟩, hmk⟩, _⟩, _⟩ := hts
                simp only [evalTerms] at hs
                have hterm := evalR_term (ρ := ρ) (k := k) (v := w) hmk
                cases hk : evalR ρ k with
                | none => simp [hk] at hs
                | some vk =>
                  cases hwv : evalR ρ w with
                  | none => simp [hk, hwv] at hs
                  | some vw =>
                    simp [hk, hwv] at hs
                    subst hs
                    rw [hk, hwv] at hterm
                    simp at hterm
                    refine ⟨?_, ?_⟩
                    · split
                      · exact hwk
                      · exact wf_termOf hwk hww hwn
                    · rw [hterm]; congr 1; ring
              · refine ⟨?_, ?_⟩
                · simp [wf, addOneNum, Expr.isNum, numIsZero, isIntZero, hne, hts]
                · simp [evalR, addOneNum, hs]
            · rw [hnone ρ] at hc; cases hc
          · rename_i hz
            refine ⟨?_, ?_⟩
            · simp [wf, wf_addOneNum hwc, addOneNum_isNum hcn, hz, hne, hts]
            · simp [evalR, hc', hs]; ring
    | sym s => right; simp [isOdd, addOne, half, Expr.isNum, isInteger_half_mul]
    | const c => right; simp [isOdd, addOne, half, Expr.isNum, isInteger_half_mul]
    | mul c fs => right; simp [isOdd, addOne, half, Expr.isNum, isInteger_half_mul]
    | pow b x => right; simp [isOdd, addOne, half, Expr.isNum, isInteger_half_mul]
    | app h args => right; simp [isOdd, addOne, half, Expr.isNum, isInteger_half_mul]
    | _ => simp [evalR] at hv
  rcases key with ⟨hwa, hva⟩ | hi
  · have := isEven_sound hA hwa hva
    exact this
  · rw [hi]; simp

end SymVerif.C34
