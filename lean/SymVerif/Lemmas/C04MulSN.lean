/-
C04, Mul side (symbolic-exponent fragment): the n-ary constructor, permutations and bracketings.
(Generated from C04MulN.lean by renaming.)
-/
import SymVerif.Lemmas.C04MulS
import SymVerif.Lemmas.C04MulN

namespace SymVerif.AC
open SymVerif SymVerif.Arith

/-- the accumulated representation of a list of factors -/
noncomputable def rprodS (s : Expr × Dict) (l : List Expr) : Expr × Dict :=
  l.foldl (fun s a => rmulS s (reprM a)) s

theorem rprodS_NRS : ∀ (l : List Expr) {s : Expr × Dict}, NRS s → (∀ a ∈ l, MOKS a) → NRS (rprodS s l)
  | [], _, hs, _ => hs
  | a :: r, s, hs, hl => by
    have ha := hl a List.mem_cons_self
    exact rprodS_NRS r (hs.rmulS ha.1) (fun x hx => hl x (List.mem_cons_of_mem _ hx))

theorem rprodS_perm {l₁ l₂ : List Expr} (hp : l₁.Perm l₂) :
    (∀ a ∈ l₁, MOKS a) → ∀ s, NRS s → rprodS s l₁ = rprodS s l₂ := by
  induction hp with
  | nil => intros; rfl
  | cons x _ ih =>
    intro hl s hs
    exact ih (fun a ha => hl a (List.mem_cons_of_mem _ ha)) _
      (hs.rmulS (hl x List.mem_cons_self).1)
  | swap x y l =>
    intro hl s hs
    have hx := (hl x (by simp)).1
    have hy := (hl y (by simp)).1
    show rprodS (rmulS (rmulS s (reprM y)) (reprM x)) l = rprodS (rmulS (rmulS s (reprM x)) (reprM y)) l
    rw [rmulS_assoc hs hy hx, rmulS_assoc hs hx hy, rmulS_comm hy hx]
  | trans h1 _ ih1 ih2 =>
    intro hl s hs
    rw [ih1 hl s hs, ih2 (fun a ha => hl a (h1.mem_iff.mpr ha)) s hs]

theorem rprodS_append (s : Expr × Dict) (l₁ l₂ : List Expr) :
    rprodS s (l₁ ++ l₂) = rprodS (rprodS s l₁) l₂ := by
  simp [rprodS, List.foldl_append]

theorem rprodS_eq_rmulS : ∀ (l : List Expr) {s : Expr × Dict}, NRS s → (∀ a ∈ l, MOKS a) →
    rprodS s l = rmulS s (rprodS (one, []) l)
  | [], s, hs, _ => by
    obtain ⟨c, d⟩ := s
    simp only [rprodS, List.foldl, rmulS, gq_one, cmul_one, ofG_gq hs.1, mergeG]
  | a :: r, s, hs, hl => by
    have ha := (hl a List.mem_cons_self).1
    have hr : ∀ x ∈ r, MOKS x := fun x hx => hl x (List.mem_cons_of_mem _ hx)
    show rprodS (rmulS s (reprM a)) r = rmulS s (rprodS (rmulS (one, []) (reprM a)) r)
    rw [rprodS_eq_rmulS r (hs.rmulS ha) hr, rmulS_unit ha, rprodS_eq_rmulS r ha hr,
      rmulS_assoc hs ha (rprodS_NRS r NRS_unit hr)]

theorem rprodS_len : ∀ (l : List Expr) (s : Expr × Dict), (rprodS s l).2.length ≤ s.2.length + tlen l
  | [], s => by simp [rprodS, tlen]
  | a :: r, s => by
    show (rprodS (rmulS s (reprM a)) r).2.length ≤ _
    have h1 := rprodS_len r (rmulS s (reprM a))
    have h2 : (rmulS s (reprM a)).2.length ≤ s.2.length + dlen a := length_mergeG_le expVS _ _
    simp only [tlen, List.map_cons, List.sum_cons] at h1 ⊢
    omega

theorem mulNLoopS_eq {rv : Bool} {fuel : Nat} : ∀ (l : List Expr) {coef : Expr} {d : Dict},
    NRS (coef, d) → (∀ a ∈ l, MOKS a) → (∀ a ∈ l, dlen a + 3 ≤ fuel) →
    mulNLoop fuel rv coef d l = .ok (rprodS (coef, d) l)
  | [], _, _, _, _, _ => rfl
  | a :: r, coef, d, hs, hl, hfu => by
    have ha := hl a List.mem_cons_self
    have hfa := hfu a List.mem_cons_self
    have hrest : ∀ {c' : Expr} {d' : Dict}, NRS (c', d') →
        mulNLoop fuel rv c' d' r = .ok (rprodS (c', d') r) := fun h =>
      mulNLoopS_eq r h (fun x hx => hl x (List.mem_cons_of_mem _ hx))
        (fun x hx => hfu x (List.mem_cons_of_mem _ hx))
    by_cases hma : isMul a = true
    · obtain ⟨ac, ad, rfl⟩ : ∃ ac ad, a = .mul ac ad := by cases a <;> simp_all [isMul]
      have hna : NRS (ac, ad) := ha.1
      simp only [dlen, reprM] at hfa
      have hlen : (iterOrder rv ad).length + 3 ≤ fuel := by rw [length_iterOrder]; exact hfa
      have hnew : NRS (rmulS (coef, d) (ac, ad)) := hs.rmulS hna
      simp only [mulNLoop, numMul_eq hs.1 hna.1, ok_bind,
        datLoopS_atoms (iterOrder rv ad) hlen hs.2.2.1 (FacsOKS_iterOrder rv (FacsOKS_of_NRS hna)),
        mergeS_iterOrder rv hs.2.2.1 (FacsOKS_of_NRS hna)]
      exact hrest hnew
    · have hma' : isMul a = false := by simpa using hma
      have h3 : 3 ≤ fuel := by omega
      have : mulNLoop fuel rv coef d (a :: r) = (do
          let (coef, d) ← mulStep fuel rv coef d a
          mulNLoop fuel rv coef d r) := by
        cases a <;> simp_all [mulNLoop, isMul]
      rw [this, mulStepS_eq h3 hs ha hma']
      simp only [ok_bind]
      exact hrest (hs.rmulS ha.1)

/-- every bracketing evaluates to `Mul::from_dict` of the accumulated representation of its leaves,
for either dictionary iteration order -/
theorem evalTS_mul (rv : Bool) : ∀ (t : BTree), (∀ a ∈ t.leaves, MOKS a ∧ exact a = true) →
    tlen t.leaves + 6 ≤ defaultFuel →
    ∃ r, evalT (mulEO rv) t = .ok r ∧ MOKS r ∧ exact r = true ∧ reprM r = rprodS (one, []) t.leaves
  | .leaf a, h, _ => by
    have ha := h a (by simp [BTree.leaves])
    refine ⟨a, rfl, ha.1, ha.2, ?_⟩
    simp only [BTree.leaves, rprodS, List.foldl, rmulS_unit ha.1.1]
  | .node l r, h, hfu => by
    have hl : ∀ a ∈ l.leaves, MOKS a ∧ exact a = true := fun a ha => h a (by simp [BTree.leaves, ha])
    have hr : ∀ a ∈ r.leaves, MOKS a ∧ exact a = true := fun a ha => h a (by simp [BTree.leaves, ha])
    have hsplit : tlen (l.leaves ++ r.leaves) = tlen l.leaves + tlen r.leaves := by
      simp [tlen]
    simp only [BTree.leaves, hsplit] at hfu
    obtain ⟨x, hx, hxa, hxe, hxr⟩ := evalTS_mul rv l hl (by omega)
    obtain ⟨y, hy, hya, hye, hyr⟩ := evalTS_mul rv r hr (by omega)
    have hnr : NRS (rmulS (reprM x) (reprM y)) := hxa.1.rmulS hya.1
    obtain ⟨hza, hzr, hze⟩ := MOKS_fromDict hnr
    have hdx : dlen x ≤ tlen l.leaves := by
      have := rprodS_len l.leaves (one, [])
      simp only [dlen, hxr]
      simpa using this
    have hdy : dlen y ≤ tlen r.leaves := by
      have := rprodS_len r.leaves (one, [])
      simp only [dlen, hyr]
      simpa using this
    refine ⟨_, ?_, hza, hze, ?_⟩
    · simp only [evalT, hx, hy, ok_bind]
      unfold mulEO guard2
      simp only [hxe, hye, Bool.and_self, if_true]
      exact mulFS_eq hxa hya (by omega)
    · rw [hzr, hxr, hyr, BTree.leaves, rprodS_append,
        rprodS_eq_rmulS r.leaves (rprodS_NRS _ NRS_unit (fun a ha => (hl a ha).1)) (fun a ha => (hr a ha).1)]

theorem mulNOS_eq {rv : Bool} {l : List Expr} (hl : ∀ a ∈ l, MOKS a ∧ exact a = true)
    (hfu : tlen l + 6 ≤ defaultFuel) :
    mulNO rv l = .ok (mulFromDict (rprodS (one, []) l).1 (rprodS (one, []) l).2) := by
  unfold mulNO
  have hx : exactList l = true := (exactList_iff' l).mpr (fun a ha => (hl a ha).2)
  have hf : ∀ a ∈ l, dlen a + 3 ≤ defaultFuel := by
    intro a ha
    have := dlen_le_tlen ha
    omega
  simp only [hx, if_true, mulNLoopS_eq l NRS_unit (fun a ha => (hl a ha).1) hf, ok_bind]
  rfl

end SymVerif.AC
