/-
C31 helper lemmas, part 7: series_nthroot (Newton iteration `r += (r - r^(n+1)·s/ct)/n`) and the
integrals built on it (series_asin, series_asinh).
-/
import SymVerif.Lemmas.C31Comp

namespace SymVerif.C31
open SymVerif.Series PowerSeries

/-- `(1+y)^m = 1 + m·y + y²·q` -/
theorem one_add_pow_exists {R : Type} [CommRing R] (y : R) (m : ℕ) :
    ∃ q : R, (1 + y) ^ m = 1 + (m : R) * y + y ^ 2 * q := by
  induction m with
  | zero => exact ⟨0, by simp⟩
  | succ m ih =>
    obtain ⟨q, hq⟩ := ih
    refine ⟨(m : R) + q + q * y, ?_⟩
    rw [pow_succ, hq]
    push_cast
    ring

theorem rootStep_spec (sn r : Poly) (m k step : ℕ) (hm : 1 ≤ m)
    (h : EqMod k (toPS r ^ m * toPS sn) 1) (hs : step ≤ 2 * k) :
    EqMod step (toPS (rootStep sn m r step) ^ m * toPS sn) 1 := by
  set R := toPS r
  set SN := toPS sn
  set e := 1 - R ^ m * SN with he_def
  have hmq : (m : ℚ) ≠ 0 := by positivity
  have he : EqMod k e 0 := by
    have := (EqMod.refl k (1 : ℚ⟦X⟧)).sub h
    simpa [he_def] using this
  have hee : EqMod step (e * e) 0 := (eqMod_sq_of_eqMod he).mono hs
  -- the model step is R·(1 + e/m) modulo X^step
  have h1 : EqMod step (toPS (rootStep sn m r step)) (R * (1 + C (1 / (m : ℚ)) * e)) := by
    unfold rootStep
    rw [toPS_padd, toPS_scale, toPS_psub]
    have hpw : EqMod step (toPS (mulTrunc (powPos r (m + 1) step) sn step)) (R ^ (m + 1) * SN) :=
      (toPS_mulTrunc _ _ _).trans ((toPS_powPos r (m + 1) step (by omega)).mul_right _)
    have : R * (1 + C (1 / (m : ℚ)) * e) = R + C (1 / (m : ℚ)) * (R - R ^ (m + 1) * SN) := by
      rw [he_def, pow_succ]; ring
    rw [this]
    exact (EqMod.refl _ _).add (EqMod.mul_left _ ((EqMod.refl _ _).sub hpw))
  have h2 := (h1.pow m).mul_right SN
  refine h2.trans ?_
  obtain ⟨q, hq⟩ := one_add_pow_exists (C (1 / (m : ℚ)) * e) m
  have hC : (m : ℚ⟦X⟧) * C (1 / (m : ℚ)) = 1 := by
    have : (m : ℚ⟦X⟧) = C (m : ℚ) := by simp
    rw [this, ← map_mul]
    have : (m : ℚ) * (1 / (m : ℚ)) = 1 := by field_simp
    rw [this, map_one]
  have key : (R * (1 + C (1 / (m : ℚ)) * e)) ^ m * SN
      = 1 - e * e * (1 - C (1 / (m : ℚ)) ^ 2 * q * (1 - e)) := by
    rw [mul_pow, hq]
    have hme : (m : ℚ⟦X⟧) * (C (1 / (m : ℚ)) * e) = e := by rw [← mul_assoc, hC, one_mul]
    rw [hme]
    have hRS : R ^ m * SN = 1 - e := by rw [he_def]; ring
    calc R ^ m * (1 + e + (C (1 / (m : ℚ)) * e) ^ 2 * q) * SN
        = (R ^ m * SN) * (1 + e + (C (1 / (m : ℚ)) * e) ^ 2 * q) := by ring
      _ = (1 - e) * (1 + e + (C (1 / (m : ℚ)) * e) ^ 2 * q) := by rw [hRS]
      _ = 1 - e * e * (1 - C (1 / (m : ℚ)) ^ 2 * q * (1 - e)) := by ring
  rw [key]
  have := (EqMod.refl step (1 : ℚ⟦X⟧)).sub (hee.mul_right (1 - C (1 / (m : ℚ)) ^ 2 * q * (1 - e)))
  simpa using this

/-- the Newton iterate keeps the constant term 1 -/
theorem rootStep_const (sn r : Poly) (m step : ℕ) (hm : 1 ≤ m) (hst : 1 ≤ step)
    (hsn : constantCoeff (toPS sn) = 1) (hr : constantCoeff (toPS r) = 1) :
    constantCoeff (toPS (rootStep sn m r step)) = 1 := by
  unfold rootStep
  rw [toPS_padd, toPS_scale, toPS_psub, map_add, map_mul, map_sub, hr]
  have h1 : constantCoeff (toPS (mulTrunc (powPos r (m + 1) step) sn step)) = 1 := by
    have hpw : EqMod step (toPS (mulTrunc (powPos r (m + 1) step) sn step)) (toPS r ^ (m + 1) * toPS sn) :=
      (toPS_mulTrunc _ _ _).trans ((toPS_powPos r (m + 1) step (by omega)).mul_right _)
    rw [constantCoeff_eq_of_eqMod hst hpw, map_mul, map_pow, hr, hsn]; simp
  rw [h1]; simp

/-- the Newton loop of series_nthroot: `r^m · sn ≡ 1`, constant term 1 -/
theorem rootLoop_spec (sn : Poly) (m prec : ℕ) (hm : 1 ≤ m) (hsn : constantCoeff (toPS sn) = 1) :
    (1 ≤ prec → constantCoeff (toPS ((stepList prec).foldl (rootStep sn m) [1])) = 1) ∧
    EqMod prec (toPS ((stepList prec).foldl (rootStep sn m) [1]) ^ m * toPS sn) 1 := by
  by_cases hp : prec = 0
  · subst hp; exact ⟨fun h => absurd h (by omega), eqMod_zero _ _⟩
  have hinit : (1 ≤ 1 → constantCoeff (toPS [1]) = 1) ∧ EqMod 1 (toPS [1] ^ m * toPS sn) 1 := by
    refine ⟨fun _ => by rw [toPS_one]; simp, ?_⟩
    intro k hk
    have : k = 0 := by omega
    subst this
    rw [toPS_one, one_pow, one_mul, coeff_zero_eq_constantCoeff_apply, hsn]
    simp
  have := newton_foldl (fun k q => (1 ≤ k → constantCoeff (toPS q) = 1) ∧ EqMod k (toPS q ^ m * toPS sn) 1)
    (rootStep sn m)
    (fun k st a hk ha hst => ⟨fun h1 => rootStep_const sn a m st hm h1 hsn (ha.1 hk),
      rootStep_spec sn a m k st hm ha.2 hst⟩)
    (stepList prec) 1 _ (stepList_pos prec (by omega)) le_rfl (chain_stepList prec) hinit
  rwa [lastD_stepList] at this

/-- exact rational roots -/
theorem ratRoot_spec (c r : ℚ) (m : ℕ) (h : ratRoot c m = some r) : r ^ m = c ∧ 0 < c := by
  unfold ratRoot at h
  split at h
  · next hc =>
    simp only at h
    split at h
    · next hab =>
      cases h
      simp only [Bool.and_eq_true, beq_iff_eq] at hab
      refine ⟨?_, hc⟩
      rw [Rat.mkRat_eq_div, div_pow]
      have hnum : (0 : ℤ) < c.num := Rat.num_pos.mpr hc
      have h1 : ((iroot c.num.toNat m : ℤ) : ℚ) ^ m = (c.num : ℚ) := by
        have : (iroot c.num.toNat m : ℤ) ^ m = c.num := by
          have := congrArg (fun t : ℕ => (t : ℤ)) hab.1
          simp only [Nat.cast_pow] at this
          rw [this, Int.toNat_of_nonneg (le_of_lt hnum)]
        exact_mod_cast congrArg (fun t : ℤ => (t : ℚ)) this
      have h2 : ((iroot c.den m : ℕ) : ℚ) ^ m = (c.den : ℚ) := by
        exact_mod_cast congrArg (fun t : ℕ => (t : ℚ)) hab.2
      rw [h1, h2]
      exact Rat.num_div_den c
    · cases h
  · cases h

theorem ratRoot_pos (c r : ℚ) (m : ℕ) (hm : 1 ≤ m) (h : ratRoot c m = some r) : 0 < r := by
  unfold ratRoot at h
  split at h
  · next hc =>
    simp only at h
    split at h
    · next hab =>
      cases h
      simp only [Bool.and_eq_true, beq_iff_eq] at hab
      rw [Rat.mkRat_eq_div]
      have hnum : (0 : ℤ) < c.num := Rat.num_pos.mpr hc
      have hnat : 0 < c.num.toNat := by omega
      have hd := c.den_pos
      have ha : 0 < iroot c.num.toNat m := by
        rcases Nat.eq_zero_or_pos (iroot c.num.toNat m) with h0 | h0
        · have h1 := hab.1
          rw [h0, zero_pow (by omega)] at h1
          omega
        · exact h0
      have hb : 0 < iroot c.den m := by
        rcases Nat.eq_zero_or_pos (iroot c.den m) with h0 | h0
        · have h2 := hab.2
          rw [h0, zero_pow (by omega)] at h2
          omega
        · exact h0
      apply div_pos
      · exact_mod_cast ha
      · exact_mod_cast hb
    · cases h
  · cases h

/-- **series_nthroot**: for `n ≥ 2` the result `g` satisfies `g^n ≡ s`, for `n ≤ -2` it satisfies
`g^|n| · s ≡ 1`; the constant term of `g` is the positive rational root of the constant term. -/
theorem nthroot_spec (s g : Poly) (n : Int) (prec : ℕ) (hn : 2 ≤ n.natAbs) (h : nthroot s n prec = .ok g) :
    (0 < n → EqMod prec (toPS g ^ n.natAbs) (toPS s)) ∧
    (n < 0 → EqMod prec (toPS g ^ n.natAbs * toPS s) 1) ∧
    0 < constantCoeff (toPS s) ∧ (1 ≤ prec → 0 < constantCoeff (toPS g)) := by
  unfold nthroot at h
  have h0 : (n == 0) = false := by
    have : n ≠ 0 := by intro h; subst h; simp at hn
    simpa using this
  have h1 : (n == 1) = false := by
    have : n ≠ 1 := by intro h; subst h; simp at hn
    simpa using this
  have hm1 : (n == -1) = false := by
    have : n ≠ -1 := by intro h; subst h; simp at hn
    simpa using this
  simp only [h0, h1, hm1, Bool.false_eq_true, ↓reduceIte] at h
  split at h
  · cases h
  · next hl =>
    have hc0 := coeff_zero_of_ldegree hl
    rw [coeff_zero_eq_constantCoeff_apply, constantCoeff_toPS] at hc0
    set ct := Series.coeff s 0
    set m := n.natAbs
    have hm : 1 ≤ m := by omega
    split at h
    · cases h
    · next ctroot hroot =>
      obtain ⟨hrt, hctpos⟩ := ratRoot_spec ct ctroot m hroot
      set sn := scale (1 / ct) s
      have hsnS : toPS sn = C (1 / ct) * toPS s := toPS_scale _ _
      have hsn1 : constantCoeff (toPS sn) = 1 := by
        rw [hsnS, map_mul, constantCoeff_C, constantCoeff_toPS]
        show 1 / ct * ct = 1
        field_simp
      obtain ⟨hres1, hloop⟩ := rootLoop_spec sn m prec hm hsn1
      set res := (stepList prec).foldl (rootStep sn m) [1]
      have hctroot0 : ctroot ≠ 0 := by
        intro h0; rw [h0, zero_pow (by omega)] at hrt; exact hc0 hrt.symm
      have hctrootpos : 0 < ctroot := ratRoot_pos ct ctroot m hm hroot
      have hCct : C ct * C (1 / ct) = (1 : ℚ⟦X⟧) := by
        rw [← map_mul]
        have : ct * (1 / ct) = 1 := by field_simp
        rw [this, map_one]
      have hpos : 0 < constantCoeff (toPS s) := by rw [constantCoeff_toPS]; exact hctpos
      split at h
      · next hneg =>
        cases h
        refine ⟨fun hp => absurd hp (by omega), fun _ => ?_, hpos, fun h1 => ?_⟩
        rotate_left
        · rw [toPS_scale, map_mul, constantCoeff_C, hres1 h1]
          positivity
        rw [toPS_scale, mul_pow, ← map_pow]
        have : (1 / ctroot) ^ m = 1 / ct := by rw [div_pow, one_pow, hrt]
        rw [this]
        have : C (1 / ct) * toPS res ^ m * toPS s = toPS res ^ m * (C (1 / ct) * toPS s) := by ring
        rw [this, ← hsnS]
        exact hloop
      · next hnn =>
        simp only [bind, Except.bind] at h
        split at h
        · cases h
        · next inv hinv =>
          simp only [pure, Except.pure, Except.ok.injEq] at h
          subst h
          have hi := invert_spec res inv prec hinv
          refine ⟨fun _ => ?_, fun hp => absurd hp (by omega), hpos, fun h1 => ?_⟩
          rotate_left
          · have hc := constantCoeff_eq_of_eqMod h1 hi
            rw [map_mul, hres1 h1, mul_one, map_one] at hc
            rw [toPS_scale, map_mul, constantCoeff_C, hc, mul_one]
            exact hctrootpos
          -- inv^m · res^m ≡ 1 and res^m · sn ≡ 1, hence inv^m ≡ sn
          have h3 : EqMod prec (toPS inv ^ m * toPS res ^ m) 1 := by
            have := hi.pow m
            rwa [mul_pow, one_pow] at this
          have h4 : EqMod prec (toPS inv ^ m) (toPS sn) := by
            have a1 := h3.mul_right (toPS sn)
            have a2 := EqMod.mul_left (toPS inv ^ m) hloop
            have : toPS inv ^ m * toPS res ^ m * toPS sn = toPS inv ^ m * (toPS res ^ m * toPS sn) := by ring
            rw [this] at a1
            have := a2.symm.trans a1
            simpa using this
          rw [toPS_scale, mul_pow, ← map_pow, hrt]
          have := EqMod.mul_left (C ct) h4
          refine this.trans (EqMod.of_eq ?_)
          rw [hsnS, ← mul_assoc, hCct, one_mul]
  · cases h

end SymVerif.C31
