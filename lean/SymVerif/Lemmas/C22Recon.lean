import SymVerif.Lemmas.C22Arith
import Mathlib.Data.List.Sort
/-! `merge`, `reconcile`, `translate` of `Model/MPoly.lean`. -/

open SymVerif.MPoly MvPolynomial

namespace SymVerif.C22
set_option linter.unusedSectionVars false

variable {R : Type} [CommRing R] [DecidableEq R]

/-! ### the sorted union -/

theorem mem_insertSorted (x y : Var) (l : List Var) : y ∈ insertSorted x l ↔ y = x ∨ y ∈ l := by
  induction l with
  | nil => simp [insertSorted]
  | cons a t ih =>
    simp only [insertSorted]
    by_cases h1 : x < a
    · simp [h1]
    · by_cases h2 : x = a
      · subst h2; simp
      · simp only [h1, h2, if_false, List.mem_cons, ih]; tauto

theorem sorted_insertSorted (x : Var) (l : List Var) (h : l.Pairwise (· < ·)) :
    (insertSorted x l).Pairwise (· < ·) := by
  induction l with
  | nil => simp [insertSorted]
  | cons a t ih =>
    simp only [insertSorted]
    by_cases h1 : x < a
    · simp only [h1, if_true]
      rw [List.pairwise_cons]
      refine ⟨?_, h⟩
      intro y hy
      rcases List.mem_cons.mp hy with hy | hy
      · exact hy ▸ h1
      · exact Nat.lt_trans h1 ((List.pairwise_cons.mp h).1 y hy)
    · by_cases h2 : x = a
      · simp [h1, h2, h]
      · simp only [h1, h2, if_false]
        rw [List.pairwise_cons] at h ⊢
        refine ⟨?_, ih h.2⟩
        intro y hy
        rcases (mem_insertSorted x y t).mp hy with hy | hy
        · rw [hy]; exact Nat.lt_of_le_of_ne (Nat.le_of_not_lt h1) (Ne.symm h2)
        · exact h.1 y hy

theorem length_insertSorted (x : Var) (l : List Var) (h : x ∉ l) :
    (insertSorted x l).length = l.length + 1 := by
  induction l with
  | nil => simp [insertSorted]
  | cons a t ih =>
    simp only [List.mem_cons, not_or] at h
    simp only [insertSorted]
    by_cases h1 : x < a
    · simp [h1]
    · simp [h1, h.1, ih h.2]

theorem nodup_of_sorted {l : List Var} (h : l.Pairwise (· < ·)) : l.Nodup :=
  h.imp (fun hab => Nat.ne_of_lt hab)

theorem mem_merge (s1 s2 : List Var) (x : Var) : x ∈ merge s1 s2 ↔ x ∈ s1 ∨ x ∈ s2 := by
  unfold merge
  induction s2 generalizing s1 with
  | nil => simp
  | cons b bs ih =>
    simp only [List.foldl_cons, ih, mem_insertSorted, List.mem_cons]; tauto

theorem sorted_merge (s1 s2 : List Var) (h1 : s1.Pairwise (· < ·)) (_h2 : s2.Pairwise (· < ·)) :
    (merge s1 s2).Pairwise (· < ·) := by
  unfold merge
  induction s2 generalizing s1 with
  | nil => exact h1
  | cons b bs ih =>
    simp only [List.foldl_cons]
    exact ih _ (sorted_insertSorted b s1 h1) (List.Pairwise.of_cons _h2)

theorem sublist_of_sorted_subset {l1 l2 : List Var} (h1 : l1.Pairwise (· < ·)) (h2 : l2.Pairwise (· < ·))
    (hsub : ∀ x ∈ l1, x ∈ l2) : l1.Sublist l2 :=
  List.sublist_of_subperm_of_pairwise (List.subperm_of_subset (nodup_of_sorted h1) hsub) h1 h2

theorem sublist_merge_left (s1 s2 : List Var) (h1 : s1.Pairwise (· < ·)) (h2 : s2.Pairwise (· < ·)) :
    s1.Sublist (merge s1 s2) :=
  sublist_of_sorted_subset h1 (sorted_merge s1 s2 h1 h2) (fun x hx => (mem_merge s1 s2 x).mpr (Or.inl hx))

theorem sublist_merge_right (s1 s2 : List Var) (h1 : s1.Pairwise (· < ·)) (h2 : s2.Pairwise (· < ·)) :
    s2.Sublist (merge s1 s2) :=
  sublist_of_sorted_subset h2 (sorted_merge s1 s2 h1 h2) (fun x hx => (mem_merge s1 s2 x).mpr (Or.inr hx))

/-! ### the position vectors -/

/-- one side of `recLoop` -/
def recLoop1 : List Var → List Var → Nat → List Nat
  | [], _, _ => []
  | it :: s, l, pos =>
    let hit := match l with
      | a :: _ => decide (it = a)
      | [] => false
    if hit then pos :: recLoop1 s l.tail (pos + 1) else recLoop1 s l (pos + 1)

theorem recLoop_fst (s l1 l2 : List Var) (pos : Nat) : (recLoop s l1 l2 pos).1 = recLoop1 s l1 pos := by
  induction s generalizing l1 l2 pos with
  | nil => rfl
  | cons it s ih =>
    simp only [recLoop, recLoop1]
    cases l1 with
    | nil => simp [ih]
    | cons a t => by_cases h : it = a <;> simp [h, ih]

theorem recLoop_snd (s l1 l2 : List Var) (pos : Nat) : (recLoop s l1 l2 pos).2 = recLoop1 s l2 pos := by
  induction s generalizing l1 l2 pos with
  | nil => rfl
  | cons it s ih =>
    simp only [recLoop, recLoop1]
    cases l2 with
    | nil => simp [ih]
    | cons a t => by_cases h : it = a <;> simp [h, ih]

theorem recLoop1_eq (s l : List Var) (pos : Nat) (hs : s.Nodup) (hl : l.Sublist s) :
    recLoop1 s l pos = l.map (fun x => pos + s.idxOf x) := by
  induction s generalizing l pos with
  | nil =>
    have : l = [] := List.sublist_nil.mp hl
    subst this; rfl
  | cons it s ih =>
    have hit_notin : it ∉ s := (List.nodup_cons.mp hs).1
    have hs' : s.Nodup := (List.nodup_cons.mp hs).2
    cases l with
    | nil => simp [recLoop1, ih [] (pos + 1) hs' (List.nil_sublist _)]
    | cons a t =>
      by_cases ha : it = a
      · subst ha
        have ht : t.Sublist s := List.cons_sublist_cons.mp hl
        simp only [recLoop1, decide_true, if_true, List.tail_cons, List.map_cons, List.idxOf_cons_self,
          Nat.add_zero, ih t (pos + 1) hs' ht]
        congr 1
        apply List.map_congr_left
        intro x hx
        have hxs : x ∈ s := ht.subset hx
        have : x ≠ it := fun e => hit_notin (e ▸ hxs)
        rw [List.idxOf_cons_ne _ (Ne.symm this)]
        omega
      · have hl' : (a :: t).Sublist s := by
          cases hl with
          | cons _ h => exact h
          | cons_cons _ h => exact absurd rfl ha
        simp only [recLoop1, ha, decide_false, Bool.false_eq_true, if_false, ih (a :: t) (pos + 1) hs' hl']
        apply List.map_congr_left
        intro x hx
        have hxs : x ∈ s := hl'.subset hx
        have : x ≠ it := fun e => hit_notin (e ▸ hxs)
        rw [List.idxOf_cons_ne _ (Ne.symm this)]
        omega

/-- what `reconcile` returns, for sorted inputs -/
theorem reconcile_eq (s1 s2 : List Var) (h1 : s1.Pairwise (· < ·)) (h2 : s2.Pairwise (· < ·)) :
    reconcile s1 s2 =
      (s1.map (fun x => (merge s1 s2).idxOf x), s2.map (fun x => (merge s1 s2).idxOf x), merge s1 s2) := by
  have hs := nodup_of_sorted (sorted_merge s1 s2 h1 h2)
  simp only [reconcile, recLoop_fst, recLoop_snd, recLoop1_eq _ _ 0 hs (sublist_merge_left s1 s2 h1 h2),
    recLoop1_eq _ _ 0 hs (sublist_merge_right s1 s2 h1 h2), Nat.zero_add]

/-! ### monomials: application, injectivity, `set` -/

theorem monoOf_apply_of_not_mem (l : List Var) (e : Mono) (a : Var) (h : a ∉ l) : monoOf l e a = 0 := by
  induction l generalizing e with
  | nil => simp
  | cons v vs ih =>
    cases e with
    | nil => simp
    | cons x xs =>
      simp only [List.mem_cons, not_or] at h
      simp only [monoOf_cons, Finsupp.add_apply, ih xs h.2, add_zero]
      rw [Finsupp.single_apply, if_neg (fun e => h.1 e.symm)]

theorem monoOf_injective (l : List Var) (e e' : Mono) (hl : l.Nodup) (h1 : e.length = l.length)
    (h2 : e'.length = l.length) (h : monoOf l e = monoOf l e') : e = e' := by
  induction l generalizing e e' with
  | nil =>
    simp only [List.length_nil, List.length_eq_zero_iff] at h1 h2
    rw [h1, h2]
  | cons v vs ih =>
    cases e with
    | nil => simp at h1
    | cons x xs =>
      cases e' with
      | nil => simp at h2
      | cons y ys =>
        have hv : v ∉ vs := (List.nodup_cons.mp hl).1
        simp only [monoOf_cons] at h
        have hx : x = y := by
          have := congrArg (fun f => f v) h
          simpa [Finsupp.add_apply, monoOf_apply_of_not_mem vs _ v hv] using this
        subst hx
        have := add_left_cancel h
        rw [ih xs ys (List.nodup_cons.mp hl).2 (by simpa using h1) (by simpa using h2) this]

theorem monoOf_set (s : List Var) (acc : Mono) (t x : Nat) (ht : t < s.length) (hlen : acc.length = s.length)
    (h0 : acc[t]? = some 0) : monoOf s (acc.set t x) = monoOf s acc + Finsupp.single (s[t]'ht) x := by
  induction s generalizing acc t with
  | nil => simp at ht
  | cons v vs ih =>
    cases acc with
    | nil => simp at hlen
    | cons y ys =>
      cases t with
      | zero =>
        simp only [List.getElem?_cons_zero, Option.some.injEq] at h0
        subst h0
        simp only [List.set_cons_zero, monoOf_cons, List.getElem_cons_zero, Finsupp.single_zero, zero_add]
        abel
      | succ t =>
        simp only [List.getElem?_cons_succ] at h0
        simp only [List.length_cons, Nat.add_lt_add_iff_right] at ht
        simp only [List.set_cons_succ, monoOf_cons, List.getElem_cons_succ,
          ih ys t ht (by simpa using hlen) h0]
        abel

theorem setAll_spec (s l : List Var) (e acc : Mono) (hs : s.Nodup) (hl : l.Nodup) (hsub : ∀ x ∈ l, x ∈ s)
    (he : e.length = l.length) (hacc : acc.length = s.length)
    (h0 : ∀ x ∈ l, acc[s.idxOf x]? = some 0) :
    ∃ r, setAll (l.map (fun x => s.idxOf x)) e acc = .ok r ∧ r.length = s.length ∧
      monoOf s r = monoOf s acc + monoOf l e := by
  induction l generalizing e acc with
  | nil => exact ⟨acc, by simp [setAll], hacc, by simp⟩
  | cons a l' ih =>
    cases e with
    | nil => simp at he
    | cons x xs =>
      have ha : a ∈ s := hsub a (List.mem_cons_self ..)
      have hlt : s.idxOf a < s.length := List.idxOf_lt_length_iff.mpr ha
      have hlt' : s.idxOf a < acc.length := by omega
      have hnot : a ∉ l' := (List.nodup_cons.mp hl).1
      obtain ⟨r, hr, hrl, hm⟩ := ih xs (acc.set (s.idxOf a) x) (List.nodup_cons.mp hl).2
        (fun y hy => hsub y (List.mem_cons_of_mem _ hy)) (by simpa using he) (by simpa using hacc)
        (by
          intro y hy
          have hne : s.idxOf a ≠ s.idxOf y := by
            intro e
            have hy' : y ∈ s := hsub y (List.mem_cons_of_mem _ hy)
            have : a = y := by
              have h1 := List.getElem_idxOf hlt
              have h2 := List.getElem_idxOf (List.idxOf_lt_length_iff.mpr hy')
              simp only [e] at h1
              rw [← h1, h2]
            exact hnot (this ▸ hy)
          rw [List.getElem?_set_ne hne]
          exact h0 y (List.mem_cons_of_mem _ hy))
      refine ⟨r, ?_, hrl, ?_⟩
      · simp only [List.map_cons, setAll, hlt', if_true]; exact hr
      · rw [hm, monoOf_set s acc _ x hlt hacc (h0 a (List.mem_cons_self ..)), List.getElem_idxOf hlt,
          monoOf_cons]
        abel

/-- `translate` of one exponent vector: same monomial, now written over `s` -/
theorem translateVec_spec (s l : List Var) (e : Mono) (hs : s.Nodup) (hl : l.Nodup)
    (hsub : ∀ x ∈ l, x ∈ s) (he : e.length = l.length) :
    ∃ r, translateVec (l.map (fun x => s.idxOf x)) s.length e = .ok r ∧ r.length = s.length ∧
      monoOf s r = monoOf l e := by
  obtain ⟨r, hr, hrl, hm⟩ := setAll_spec s l e (List.replicate s.length 0) hs hl hsub he (by simp)
    (by
      intro x hx
      have : s.idxOf x < s.length := List.idxOf_lt_length_iff.mpr (hsub x hx)
      simp [this])
  exact ⟨r, hr, hrl, by rw [hm, monoOf_replicate_zero, zero_add]⟩

theorem insertNew_of_not_mem (d : Dict R) (k : Mono) (c : R) (h : k ∉ keys d) : insertNew d k c = (k, c) :: d := by
  unfold insertNew
  rw [(find?_eq_none_iff d k).mpr h]

theorem translateRaw_spec (s l : List Var) (d : Dict R) (hs : s.Nodup) (hl : l.Nodup)
    (hsub : ∀ x ∈ l, x ∈ s) (hd : KeysOk l.length d) :
    ∃ d', translateRaw (l.map (fun x => s.idxOf x)) s.length d = .ok d' ∧ KeysOk s.length d' ∧
      dictMv s d' = dictMv l d ∧
      (∀ kc' ∈ d', ∃ kc ∈ d, kc'.2 = kc.2 ∧
        translateVec (l.map (fun x => s.idxOf x)) s.length kc.1 = .ok kc'.1) := by
  induction d with
  | nil => exact ⟨[], rfl, ⟨fun _ h => by simp at h, by simp [keys]⟩, rfl, fun _ h => by simp at h⟩
  | cons kc t ih =>
    obtain ⟨e, c⟩ := kc
    have he : e.length = l.length := hd.1 (e, c) (List.mem_cons_self ..)
    have hnot : e ∉ keys t := (List.nodup_cons.mp hd.2).1
    obtain ⟨t', ht', hk', hs', hsrc⟩ := ih ⟨fun x hx => hd.1 x (List.mem_cons_of_mem _ hx),
      (List.nodup_cons.mp hd.2).2⟩
    obtain ⟨e', he', hel', hm'⟩ := translateVec_spec s l e hs hl hsub he
    have hfresh : e' ∉ keys t' := by
      intro hmem
      obtain ⟨kc', hkc', hfst⟩ := List.mem_map.mp hmem
      obtain ⟨kc, hkc, _, htr⟩ := hsrc kc' hkc'
      have hlen : kc.1.length = l.length := hd.1 kc (List.mem_cons_of_mem _ hkc)
      obtain ⟨r2, hr2, _, hm2⟩ := translateVec_spec s l kc.1 hs hl hsub hlen
      rw [htr] at hr2
      have hr2' : kc'.1 = r2 := by injection hr2
      have : kc.1 = e := by
        apply monoOf_injective l _ _ hl hlen he
        rw [← hm2, ← hm', ← hr2', hfst]
      exact hnot (this ▸ List.mem_map_of_mem (f := Prod.fst) hkc)
    refine ⟨(e', c) :: t', ?_, ⟨?_, ?_⟩, ?_, ?_⟩
    · simp only [translateRaw, he', ht', insertNew_of_not_mem t' e' c hfresh]
    · intro x hx
      rcases List.mem_cons.mp hx with hx | hx
      · subst hx; exact hel'
      · exact hk'.1 x hx
    · simp only [keys, List.map_cons, List.nodup_cons]
      exact ⟨hfresh, hk'.2⟩
    · simp only [dictMv_cons, hm', hs']
    · intro kc' hkc'
      rcases List.mem_cons.mp hkc' with h | h
      · subst h
        exact ⟨(e, c), List.mem_cons_self .., rfl, he'⟩
      · obtain ⟨kc, hkc, h1, h2⟩ := hsrc kc' h
        exact ⟨kc, List.mem_cons_of_mem _ hkc, h1, h2⟩

/-- `UDictWrapper::translate` along an embedding of the variable list `l` into `s` -/
theorem translate_spec (s l : List Var) (d : Dict R) (hs : s.Nodup) (hl : l.Nodup)
    (hsub : ∀ x ∈ l, x ∈ s) (hd : KeysOk l.length d) :
    ∃ d', translate (l.map (fun x => s.idxOf x)) s.length d = .ok d' ∧ Canon s.length d' ∧
      dictMv s d' = dictMv l d := by
  obtain ⟨d', h, hk, hsem, _⟩ := translateRaw_spec s l d hs hl hsub hd
  refine ⟨stripZeros d', ?_, canon_stripZeros hk.1 hk.2, ?_⟩
  · simp only [translate, h]
  · rw [dictMv_stripZeros, hsem]

end SymVerif.C22
