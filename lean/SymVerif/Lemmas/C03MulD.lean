/-
C03: induction step for the found branch of `Mul::dict_add_term_new`.
-/
import SymVerif.Lemmas.C03MulC

namespace SymVerif.Arith

variable {n : Nat}

theorem step_datFound (hshape : RadShape) (ih : Spec n) : ∀ rv coef d0 t old v c' d', St coef d0 →
    (t, old) ∈ d0 → inv v = true → datFound (n + 1) rv coef (dset d0 t v) t v = .ok (c', d') →
    St c' d' := by
  intro rv coef d0 t old v c' d' hs hm hv h
  have ht : inv t = true := (hs.2.ent _ hm).1
  have hfo : factorOK t old = true := hs.2.fac _ hm
  have hE : St coef (derase (dset d0 t v) t) := ⟨hs.1, hs.2.set_erase⟩
  have hstay : factorOK t v = true → St coef (dset d0 t v) :=
    fun hf => ⟨hs.1, hs.2.set hm hv hf⟩
  simp only [datFound, bind, Except.bind, pure, Except.pure] at h
  split at h
  · -- Integer exponent of a Number base
    rename_i hc
    simp only [Bool.and_eq_true] at hc
    have hte := exOK_of_num3 ht hc.2
    split at h
    · cases hpw : numPow t v with
      | error e => simp [hpw] at h
      | ok p =>
        simp only [hpw] at h
        cases hmu : numMul coef p with
        | error e => simp [hmu] at h
        | ok c1 =>
          simp [hmu] at h
          obtain ⟨rfl, rfl⟩ := h
          exact ⟨numMul_ok hs.1 (numPow_ok hte hpw) hmu, hE.2⟩
    · simp at h
      obtain ⟨rfl, rfl⟩ := h
      exact hE
  · rename_i hc1
    split at h
    · simp at h
      obtain ⟨rfl, rfl⟩ := h
      exact hE
    · rename_i hc2
      split at h
      · -- Integer exponent of a Pow base: folded by pow()
        cases hr : powF n rv t v with
        | error e => simp [hr] at h
        | ok r =>
          simp only [hr] at h
          have hob : okBase t = true := by
            rename_i hpi
            simp only [Bool.and_eq_true] at hpi
            cases t <;> simp_all [isPow, okBase]
          exact ih.mulInto rv coef _ r c' d' hE (ih.powF rv t v r ht hv hob hr) h
      · rename_i hc3
        split at h
        · simp at h
        · rename_i o hearly
          -- what `early = none` tells us
          have hnone : o = none →
              (isRational v && (isInteger t || isRational t)) = true → factorOK t v = true := by
            intro ho hc
            subst ho
            simp only [hc, if_true] at hearly
            simp only [Bool.and_eq_true] at hc
            cases hres : powNumRat n rv t v with
            | error e => simp [hres] at hearly
            | ok res =>
              simp only [hres] at hearly
              have hri := ih.powNumRat rv t v res (exOK_of_intOrRat ht hc.2) (exOK_of_rat hv hc.1) hres
              split at hearly
              · rename_i hnm
                cases n with
                | zero => simp [absorb] at hearly
                | succ m =>
                  have := absorb_none hearly
                  simp [this.1, this.2] at hnm
              · rename_i hnm
                split at hearly
                · rename_i rb re
                  split at hearly
                  · cases hdn : datNew n rv coef (derase (dset d0 t v) t) re rb with
                    | error e => simp [hdn] at hearly
                    | ok x => simp [hdn] at hearly
                  · rename_i heq
                    simp only [Bool.not_eq_true', Bool.and_eq_false_iff, not_or, Bool.not_eq_false,
                      eqE_iff] at heq
                    obtain ⟨e1, e2⟩ := heq
                    subst e1; subst e2
                    exact (inv_pow_iff.mp hri).2.2.2
                · rename_i hnp
                  simp only [Bool.or_eq_true, not_or, Bool.not_eq_true] at hnm
                  rcases hshape n rv t v res hres with h1 | h1 | h1
                  · simp [hnm.1] at h1
                  · simp [hnm.2] at h1
                  · cases res <;> simp [isPow] at h1
                    exact absurd rfl (hnp _ _)
          -- `early = some x`
          have hsome : ∀ x, o = some x → St x.1 x.2 := by
            intro x ho
            subst ho
            split at hearly
            · rename_i hc
              simp only [Bool.and_eq_true] at hc
              cases hres : powNumRat n rv t v with
              | error e => simp [hres] at hearly
              | ok res =>
                simp only [hres] at hearly
                have hri := ih.powNumRat rv t v res (exOK_of_intOrRat ht hc.2) (exOK_of_rat hv hc.1) hres
                split at hearly
                · exact ih.absorb rv coef _ res x.1 x.2 hE hri hearly
                · rename_i hnm
                  split at hearly
                  · rename_i rb re
                    obtain ⟨hb, he, _, hfac⟩ := inv_pow_iff.mp hri
                    split at hearly
                    · cases hdn : datNew n rv coef (derase (dset d0 t v) t) re rb with
                      | error e => simp [hdn] at hearly
                      | ok y =>
                        simp only [hdn, Except.ok.injEq, Option.some.injEq] at hearly
                        subst hearly
                        exact ih.datNew rv coef _ re rb y.1 y.2 hE (pre_of_factor hb he hfac) hdn
                    · simp at hearly
                  · simp at hearly
            · simp at hearly
          clear hearly
          cases o with
          | some x =>
            simp at h
            subst h
            exact hsome (c', d') rfl
          | none =>
            have hnone' := hnone rfl
            simp only at h
            -- the entry stays with a Number exponent
            have stayNum : v.isNum = true → numIsZero v = false → isIntLit t 0 = false →
                (isInteger v = true → isMul t = false) →
                (∀ mc mfs, t = .mul mc mfs → (!isIntLit mc 1 && !isIntLit mc (-1)) = false) →
                factorOK t v = true := by
              intro hvn hvz ht0 hmul h4
              by_cases hr : (isRational v && (isInteger t || isRational t)) = true
              · exact hnone' hr
              · refine factor_stay_num hfo hvn hvz ?_ ?_ ht0 h4
                · intro hi
                  simp only [hi, Bool.true_and, Bool.not_eq_true] at hc1 hc3
                  exact ⟨hc1, hc3, hmul hi⟩
                · intro hrv
                  simpa [hrv] using hr
            split at h
            · rename_i hvn
              split at h
              · rename_i hvz
                have := numIsZero_isInteger (inv_canon hv) hvz
                simp [this, hvz] at hc2
              · rename_i hvz
                split at h
                · -- 0 ** z
                  cases hr : powF n rv t v with
                  | error e => simp [hr] at h
                  | ok r =>
                    simp only [hr] at h
                    have hob : okBase t = true := by
                      rename_i ht0
                      cases t <;> simp_all [isIntLit, okBase]
                    exact ih.mulInto rv coef _ r c' d' hE (ih.powF rv t v r ht hv hob hr) h
                · rename_i ht0
                  split at h
                  · rename_i mc mfs
                    split at h
                    · have hex : isExactNum mc = true := by
                        unfold factorOK at hfo
                        simp only [Bool.and_eq_true] at hfo
                        exact hfo.2.1.1
                      exact ih.powerNum rv mc mfs coef _ v c' d' ht hex hE ⟨hvn, inv_canon hv⟩ h
                    · rename_i hcond
                      simp at h
                      obtain ⟨rfl, rfl⟩ := h
                      simp only [Bool.or_eq_true, not_or, Bool.not_eq_true] at hcond
                      refine hstay (stayNum hvn (by simpa using hvz) (by simpa using ht0) ?_ ?_)
                      · intro hi; simp [hi] at hcond
                      · intro mc' mfs' e
                        simp at e
                        rw [← e.1]; exact hcond.2
                  · rename_i hnm
                    simp at h
                    obtain ⟨rfl, rfl⟩ := h
                    refine hstay (stayNum hvn (by simpa using hvz) (by simpa using ht0) ?_ ?_)
                    · intro _
                      cases t <;> simp_all [isMul]
                    · intro mc' mfs' e
                      exact absurd e (hnm mc' mfs')
            · rename_i hvn
              simp at h
              obtain ⟨rfl, rfl⟩ := h
              exact hstay (factor_stay_nonnum hfo (by simpa using hvn))

end SymVerif.Arith
