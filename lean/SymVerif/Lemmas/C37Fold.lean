/-
C37 — soundness of the preprocessing steps of `treeEquiv`: evaluation of the helper trees
(`scaleExp`, `shiftExp`, `negE`), of `foldPow`, and definedness of the atoms collected by `atomsOf`.
-/
import SymVerif.Lemmas.C37Sem

namespace SymVerif
namespace CSE

open NF
open Classical

set_option linter.unusedSectionVars false

section
variable {K : Type} [Field K] [CharZero K] {M : Interp K}

/-- value of the `Pow` node / `Mul` entry `(b, e)` -/
noncomputable def facVal (M : Interp K) (b e : Expr) : Option K :=
  match intLit? e with
  | some n => (evalS M b).bind (fun v => powVal v n)
  | none => pwVal M (evalS M b) (evalS M e)

theorem evalS_pow_eq (b e : Expr) : evalS M (.pow b e) = facVal M b e := by
  simp only [evalS, facVal]
  cases intLit? e <;> rfl

theorem evalSFacs_cons (b e : Expr) (t : List (Expr × Expr)) :
    evalSFacs M ((b, e) :: t) = mul2 (facVal M b e) (evalSFacs M t) := by
  simp only [evalSFacs, facVal]
  cases intLit? e <;> rfl

theorem pwVal_some {a b : Option K} {v : K} (h : pwVal M a b = some v) :
    ∃ vb ve, a = some vb ∧ b = some ve ∧ vb ≠ 0 ∧ v = M.pw vb ve := by
  cases a with
  | none => simp [pwVal] at h
  | some vb =>
    cases b with
    | none => simp [pwVal] at h
    | some ve =>
      simp only [pwVal] at h
      split at h
      · cases h
      · rename_i hz
        simp only [Option.some.injEq] at h
        exact ⟨vb, ve, rfl, rfl, hz, h.symm⟩

theorem pwVal_eq {vb ve : K} (h : vb ≠ 0) : pwVal M (some vb) (some ve) = some (M.pw vb ve) := by
  simp [pwVal, h]

theorem powVal_one (v : K) : powVal v 1 = some v := by
  simp [powVal]

theorem powVal_of_ne {v : K} (h : v ≠ 0) (n : Int) : powVal v n = some (v ^ n) := by
  simp [powVal, h]

theorem evalS_scaleExp {e : Expr} {ve : K} (k : Int) (he : evalS M e = some ve) :
    evalS M (scaleExp e k) = some ((k : K) * ve) := by
  simp [scaleExp, evalS, evalSFacs, intLit?, he, powVal_one, mul2]

theorem evalS_shiftExp {e : Expr} {ve : K} (k : Int) (he : evalS M e = some ve) :
    evalS M (shiftExp e k) = some ((k : K) + ve) := by
  simp [shiftExp, evalS, evalSTerms, he, add2, mul2]

theorem evalS_negE {a : Expr} {va : K} (ha : evalS M a = some va) :
    evalS M (negE a) = some (-va) := by
  simp [negE, evalS, evalSFacs, intLit?, ha, powVal_one, mul2]

theorem intLit_scaleExp (e : Expr) (k : Int) : intLit? (scaleExp e k) = none := rfl

/-! ### `expContent` -/

theorem intLit_expNorm (e : Expr) (h : intLit? e = none) : intLit? (expNorm e).2.2 = none := by
  unfold expNorm
  simp only
  have h1 : ∀ k : Int, intLit? (if k = 0 then e else .add (.int (-k)) [(e, .int 1)]) = none := by
    intro k
    split
    · exact h
    · rfl
  generalize (if (if isRatLit e then (0 : Int) else constHeur e).natAbs > 16 then (0 : Int)
      else (if isRatLit e then (0 : Int) else constHeur e)) = k
  have h2 := h1 k
  generalize (if k = 0 then e else Expr.add (.int (-k)) [(e, .int 1)]) = e1 at h2 ⊢
  generalize (if isRatLit e then (1 : Int) else contentHeur e1) = c0
  generalize (if c0 = 0 || c0.natAbs > 16 then (1 : Int) else c0) = c
  split
  · exact h2
  · rfl

theorem cast_sign_div {c : Int} (hc : c ≠ 0) :
    ((c : ℤ) : K) * (((c.sign : ℤ) : K) / ((c.natAbs : ℕ) : K)) = 1 := by
  have hn : c.natAbs ≠ 0 := by omega
  have hnK : ((c.natAbs : ℕ) : K) ≠ 0 := by exact_mod_cast hn
  have hs : ((c : ℤ) : K) = ((c.sign : ℤ) : K) * ((c.natAbs : ℕ) : K) := by
    have h1 : c = c.sign * ((c.natAbs : ℕ) : ℤ) := (Int.sign_mul_natAbs c).symm
    have h2 := congrArg (fun z : ℤ => (z : K)) h1
    simp only [Int.cast_mul, Int.cast_natCast] at h2
    exact h2
  have hss : ((c.sign : ℤ) : K) * ((c.sign : ℤ) : K) = 1 := by
    rcases Int.lt_trichotomy c 0 with hlt | heq | hgt
    · simp [Int.sign_eq_neg_one_of_neg hlt]
    · exact absurd heq hc
    · simp [Int.sign_eq_one_of_pos hgt]
  rw [hs]
  field_simp
  linear_combination hss

theorem evalS_expNorm {e : Expr} {ve : K} (h : evalS M e = some ve) :
    ∃ v0, evalS M (expNorm e).2.2 = some v0 ∧
      ve = ((expNorm e).1 : K) + ((expNorm e).2.1 : K) * v0 := by
  unfold expNorm
  simp only
  -- the shifted exponent `e1 = e - k`
  generalize hk : (if (if isRatLit e then (0 : Int) else constHeur e).natAbs > 16 then (0 : Int)
      else (if isRatLit e then (0 : Int) else constHeur e)) = k
  have h1 : ∃ v1, evalS M (if k = 0 then e else .add (.int (-k)) [(e, .int 1)]) = some v1 ∧
      ve = (k : K) + v1 := by
    split
    · rename_i hk0; exact ⟨ve, h, by simp [hk0]⟩
    · exact ⟨(-k : K) + ve, by simp [evalS, evalSTerms, h, add2, mul2], by ring⟩
  obtain ⟨v1, hv1, hve⟩ := h1
  generalize (if k = 0 then e else Expr.add (.int (-k)) [(e, .int 1)]) = e1 at hv1 ⊢
  generalize (if isRatLit e then (1 : Int) else contentHeur e1) = c0
  generalize hc : (if c0 = 0 || c0.natAbs > 16 then (1 : Int) else c0) = c
  have hc0 : c ≠ 0 := by
    rw [← hc]
    split
    · decide
    · rename_i hne
      simp only [Bool.or_eq_true, decide_eq_true_eq, not_or] at hne
      exact hne.1
  split
  · rename_i hc1
    exact ⟨v1, hv1, by rw [hve, hc1]; simp⟩
  · have hn : c.natAbs ≠ 0 := by omega
    refine ⟨((c.sign : ℤ) : K) / ((c.natAbs : ℕ) : K) * v1, ?_, ?_⟩
    · simp [evalS, evalSFacs, intLit?, hv1, hn, powVal_one, mul2]
    · rw [hve, ← mul_assoc, cast_sign_div hc0, one_mul]

/-- the atom `b ** e0` of the power `b ** e` is defined with it -/
theorem powAtom_defined {b e : Expr} {v : K} (he : intLit? e = none) (h : facVal M b e = some v) :
    ∃ vb ve v0, evalS M b = some vb ∧ vb ≠ 0 ∧ evalS M e = some ve ∧
      evalS M (expNorm e).2.2 = some v0 ∧
      ve = ((expNorm e).1 : K) + ((expNorm e).2.1 : K) * v0 ∧ v = M.pw vb ve ∧
      evalS M (.pow b (expNorm e).2.2) = some (M.pw vb v0) := by
  simp only [facVal, he] at h
  obtain ⟨vb, ve, hvb, hve, hne, rfl⟩ := pwVal_some h
  obtain ⟨v0, hv0, hc⟩ := evalS_expNorm hve
  refine ⟨vb, ve, v0, hvb, hne, hve, hv0, hc, rfl, ?_⟩
  rw [evalS_pow_eq]
  simp only [facVal, intLit_expNorm e he, hvb, hv0, pwVal_eq hne]

/-! ### `foldPow` -/

theorem mkPow_eq (b' e : Expr) : mkPow b' e = .pow (mkFac b' e).1 (mkFac b' e).2 := by
  unfold mkPow mkFac
  split
  · split <;> rfl
  · rfl

theorem facVal_mkFac (hM : Lawful M) (b' e : Expr) (v : K) (h : facVal M b' e = some v) :
    facVal M (mkFac b' e).1 (mkFac b' e).2 = some v := by
  unfold mkFac
  split
  · rename_i k b0 e0 hk
    split
    · rename_i he0
      -- the fold: (b0 ** e0) ** k  ↦  b0 ** (k * e0)
      simp only [facVal, hk, evalS_pow_eq, he0] at h
      obtain ⟨w, hw, hz, rfl⟩ := bind_powVal_some h
      obtain ⟨vb, ve, hb, he, hne, rfl⟩ := pwVal_some hw
      simp only [facVal, intLit_scaleExp, hb, evalS_scaleExp k he, pwVal_eq hne]
      rw [hM.pw_mul_int vb ve k hne]
    · exact h
  · exact h

theorem facVal_congr_base {b b2 e : Expr} {v : K}
    (hb : ∀ vb, evalS M b = some vb → evalS M b2 = some vb) (h : facVal M b e = some v) :
    facVal M b2 e = some v := by
  unfold facVal at h ⊢
  cases he : intLit? e with
  | some n =>
    simp only [he] at h ⊢
    obtain ⟨a, ha, _, _⟩ := bind_powVal_some h
    rw [hb a ha]; rw [ha] at h; exact h
  | none =>
    simp only [he] at h ⊢
    obtain ⟨vb, ve, hvb, hve, _, _⟩ := pwVal_some h
    rw [hb vb hvb]; rw [hvb] at h; exact h

mutual
  theorem foldPow_sound (hM : Lawful M) : ∀ (e : Expr) (v : K), evalS M e = some v →
      evalS M (foldPow e) = some v
    | .add c ts, v, h => by
      simp only [evalS] at h
      obtain ⟨a, b, ha, hb, rfl⟩ := add2_some h
      simp only [foldPow, evalS, ha, foldTerms_sound hM ts b hb, add2]
    | .mul c fs, v, h => by
      simp only [evalS] at h
      obtain ⟨a, b, ha, hb, rfl⟩ := mul2_some h
      simp only [foldPow, evalS, ha, foldFacs_sound hM fs b hb, mul2]
    | .pow b e, v, h => by
      rw [evalS_pow_eq] at h
      rw [foldPow, mkPow_eq, evalS_pow_eq]
      exact facVal_mkFac hM _ _ _ (facVal_congr_base (fun vb hvb => foldPow_sound hM b vb hvb) h)
    | .int _, v, h => by simpa [foldPow] using h
    | .rat _ _, v, h => by simpa [foldPow] using h
    | .cplx _ _, v, h => by simpa [foldPow] using h
    | .dbl _, v, h => by simpa [foldPow] using h
    | .cdbl _ _, v, h => by simpa [foldPow] using h
    | .infty _, v, h => by simpa [foldPow] using h
    | .nan, v, h => by simpa [foldPow] using h
    | .sym _, v, h => by simpa [foldPow] using h
    | .dummy _ _, v, h => by simpa [foldPow] using h
    | .const _, v, h => by simpa [foldPow] using h
    | .fsym _ _, v, h => by simpa [foldPow] using h
    | .app _ _, v, h => by simpa [foldPow] using h
    | .bool _, v, h => by simpa [foldPow] using h
  theorem foldTerms_sound (hM : Lawful M) : ∀ (ts : List (Expr × Expr)) (v : K),
      evalSTerms M ts = some v → evalSTerms M (foldTerms ts) = some v
    | [], v, h => by simpa [foldTerms] using h
    | (k, c) :: t, v, h => by
      simp only [evalSTerms] at h
      obtain ⟨x, y, hx, hy, rfl⟩ := add2_some h
      obtain ⟨a, b, ha, hb, rfl⟩ := mul2_some hx
      simp only [foldTerms, evalSTerms, foldPow_sound hM k a ha, hb, foldTerms_sound hM t y hy,
        add2, mul2]
  theorem foldFacs_sound (hM : Lawful M) : ∀ (fs : List (Expr × Expr)) (v : K),
      evalSFacs M fs = some v → evalSFacs M (foldFacs fs) = some v
    | [], v, h => by simpa [foldFacs] using h
    | (b, e) :: t, v, h => by
      rw [evalSFacs_cons] at h
      obtain ⟨x, y, hx, hy, rfl⟩ := mul2_some h
      have h1 := facVal_mkFac hM _ _ _
        (facVal_congr_base (fun vb hvb => foldPow_sound hM b vb hvb) hx)
      rw [foldFacs]
      rw [show mkFac (foldPow b) e = ((mkFac (foldPow b) e).1, (mkFac (foldPow b) e).2) from rfl]
      rw [evalSFacs_cons, h1, foldFacs_sound hM t y hy]
      rfl
end

/-! ### the atoms of a defined tree are defined -/

mutual
  theorem atomsOf_defined : ∀ (e : Expr) (v : K), evalS M e = some v →
      ∀ r ∈ atomsOf e, ∃ w, evalS M r = some w
    | .add c ts, v, h, r, hr => by
      simp only [evalS] at h
      obtain ⟨a, b, ha, hb, rfl⟩ := add2_some h
      simp only [atomsOf, List.mem_append] at hr
      rcases hr with hr | hr
      · exact atomsOf_defined c a ha r hr
      · exact atomsOfTerms_defined ts b hb r hr
    | .mul c fs, v, h, r, hr => by
      simp only [evalS] at h
      obtain ⟨a, b, ha, hb, rfl⟩ := mul2_some h
      simp only [atomsOf, List.mem_append] at hr
      rcases hr with hr | hr
      · exact atomsOf_defined c a ha r hr
      · exact atomsOfFacs_defined fs b hb r hr
    | .pow b e, v, h, r, hr => by
      have h0 := h
      simp only [evalS] at h
      simp only [atomsOf] at hr
      cases he : intLit? e with
      | some n =>
        simp only [he] at h hr
        obtain ⟨a, ha, _, _⟩ := bind_powVal_some h
        exact atomsOf_defined b a ha r hr
      | none =>
        simp only [he, List.mem_cons] at hr
        rw [evalS_pow_eq] at h0
        obtain ⟨vb, ve, v0, hvb, _, _, _, _, _, hat⟩ := powAtom_defined he h0
        rcases hr with hr | hr
        · subst hr; exact ⟨_, hat⟩
        · exact atomsOf_defined b vb hvb r hr
    | .sym n, v, h, r, hr => by
      simp only [atomsOf, List.mem_singleton] at hr; subst hr; exact ⟨v, h⟩
    | .dummy n i, v, h, r, hr => by
      simp only [atomsOf, List.mem_singleton] at hr; subst hr; exact ⟨v, h⟩
    | .const n, v, h, r, hr => by
      simp only [atomsOf, List.mem_singleton] at hr; subst hr; exact ⟨v, h⟩
    | .fsym n args, v, h, r, hr => by
      simp only [atomsOf, List.mem_singleton] at hr; subst hr; exact ⟨v, h⟩
    | .app hd args, v, h, r, hr => by
      simp only [atomsOf, List.mem_singleton] at hr; subst hr; exact ⟨v, h⟩
    | .int _, v, h, r, hr => by simp [atomsOf] at hr
    | .rat _ _, v, h, r, hr => by simp [atomsOf] at hr
    | .cplx _ _, v, h, r, hr => by simp [atomsOf] at hr
    | .dbl _, v, h, r, hr => by simp [atomsOf] at hr
    | .cdbl _ _, v, h, r, hr => by simp [atomsOf] at hr
    | .infty _, v, h, r, hr => by simp [atomsOf] at hr
    | .nan, v, h, r, hr => by simp [atomsOf] at hr
    | .bool _, v, h, r, hr => by simp [atomsOf] at hr
  theorem atomsOfTerms_defined : ∀ (ts : List (Expr × Expr)) (v : K), evalSTerms M ts = some v →
      ∀ r ∈ atomsOfTerms ts, ∃ w, evalS M r = some w
    | [], v, h, r, hr => by simp [atomsOfTerms] at hr
    | (k, c) :: t, v, h, r, hr => by
      simp only [evalSTerms] at h
      obtain ⟨x, y, hx, hy, rfl⟩ := add2_some h
      obtain ⟨a, b, ha, hb, rfl⟩ := mul2_some hx
      simp only [atomsOfTerms, List.mem_append] at hr
      rcases hr with hr | hr | hr
      · exact atomsOf_defined k a ha r hr
      · exact atomsOf_defined c b hb r hr
      · exact atomsOfTerms_defined t y hy r hr
  theorem atomsOfFacs_defined : ∀ (fs : List (Expr × Expr)) (v : K), evalSFacs M fs = some v →
      ∀ r ∈ atomsOfFacs fs, ∃ w, evalS M r = some w
    | [], v, h, r, hr => by simp [atomsOfFacs] at hr
    | (b, e) :: t, v, h, r, hr => by
      rw [evalSFacs_cons] at h
      obtain ⟨x, y, hx, hy, rfl⟩ := mul2_some h
      simp only [atomsOfFacs] at hr
      cases he : intLit? e with
      | some n =>
        simp only [he, List.mem_append] at hr
        simp only [facVal, he] at hx
        obtain ⟨a, ha, _, _⟩ := bind_powVal_some hx
        rcases hr with hr | hr
        · exact atomsOf_defined b a ha r hr
        · exact atomsOfFacs_defined t y hy r hr
      | none =>
        simp only [he, List.mem_cons, List.mem_append] at hr
        obtain ⟨vb, ve, v0, hvb, _, _, _, _, _, hat⟩ := powAtom_defined he hx
        rcases hr with hr | hr | hr
        · subst hr; exact ⟨_, hat⟩
        · exact atomsOf_defined b vb hvb r hr
        · exact atomsOfFacs_defined t y hy r hr
end

end

end CSE
end SymVerif
