import SymVerif.Lemmas.C24Basic
/-! Entry-level specifications of the structural operations of `Model/Dense.lean`:
each operation succeeds on well-formed inputs that satisfy the C++ assertion (so no access is
out of bounds) and every entry of the result is the stated expression in the entries of the inputs. -/
namespace SymVerif.Dense

/-- entry `(i, j)` of the row-major storage (`unk` outside the storage) -/
def DM.at (A : DM) (i j : Nat) : X := A.m.getD (i * A.col + j) X.unk

theorem fresh_size (r c : Nat) : (DM.fresh r c).m.size = r * c := by simp [DM.fresh]

theorem bind_ok {α β : Type} (a : α) (f : α → M β) : (Except.ok a : M α) >>= f = f a := rfl

theorem addDense_spec (A B : DM) (hA : A.wf) (hB : B.wf) (hr : A.row = B.row) (hc : A.col = B.col) :
    ∃ C, addDense A B = .ok C ∧ C.row = A.row ∧ C.col = A.col ∧ C.wf ∧
      ∀ i, i < A.row → ∀ j, j < A.col → C.at i j = X.add (A.at i j) (B.at i j) := by
  obtain ⟨c, hcok, hs, h1, _⟩ := fill2 A.row A.col (fun i j => i * A.col + j)
    (fun i j => X.add (A.at i j) (B.at i j))
    (fun i j c => do wr c (i * A.col + j) (X.add (← rd A.m (i * A.col + j)) (← rd B.m (i * A.col + j))))
    (DM.fresh A.row A.col).m
    (by
      intro i hi j hj c
      have h1 : i * A.col + j < A.m.size := by rw [hA]; exact idx_lt hi hj
      have h2 : i * A.col + j < B.m.size := by rw [hB, ← hr, ← hc]; exact idx_lt hi hj
      simp only [DM.at, ← hc]
      rw [rd_getD h1, rd_getD h2]; rfl)
    (by intro i hi j hj; rw [fresh_size]; exact idx_lt hi hj)
    (by intro i _ j hj i' _ j' hj' h; exact idx_inj hj hj' h)
  refine ⟨{ DM.fresh A.row A.col with m := c }, ?_, rfl, rfl, ?_, ?_⟩
  · have hq : (A.row == B.row && A.col == B.col) = true := by simp [hr, hc]
    simp only [addDense, req_true hq, bind_ok]
    rw [hcok]; rfl
  · simp [DM.wf, hs, DM.fresh]
  · intro i hi j hj
    exact h1 i hi j hj

theorem emulDense_spec (A B : DM) (hA : A.wf) (hB : B.wf) (hr : A.row = B.row) (hc : A.col = B.col) :
    ∃ C, emulDense A B = .ok C ∧ C.row = A.row ∧ C.col = A.col ∧ C.wf ∧
      ∀ i, i < A.row → ∀ j, j < A.col → C.at i j = X.mul (A.at i j) (B.at i j) := by
  obtain ⟨c, hcok, hs, h1, _⟩ := fill2 A.row A.col (fun i j => i * A.col + j)
    (fun i j => X.mul (A.at i j) (B.at i j))
    (fun i j c => do wr c (i * A.col + j) (X.mul (← rd A.m (i * A.col + j)) (← rd B.m (i * A.col + j))))
    (DM.fresh A.row A.col).m
    (by
      intro i hi j hj c
      have h1 : i * A.col + j < A.m.size := by rw [hA]; exact idx_lt hi hj
      have h2 : i * A.col + j < B.m.size := by rw [hB, ← hr, ← hc]; exact idx_lt hi hj
      simp only [DM.at, ← hc]
      rw [rd_getD h1, rd_getD h2]; rfl)
    (by intro i hi j hj; rw [fresh_size]; exact idx_lt hi hj)
    (by intro i _ j hj i' _ j' hj' h; exact idx_inj hj hj' h)
  refine ⟨{ DM.fresh A.row A.col with m := c }, ?_, rfl, rfl, ?_, ?_⟩
  · have hq : (A.row == B.row && A.col == B.col) = true := by simp [hr, hc]
    simp only [emulDense, req_true hq, bind_ok]
    rw [hcok]; rfl
  · simp [DM.wf, hs, DM.fresh]
  · intro i hi j hj
    exact h1 i hi j hj

theorem addScalar_spec (A : DM) (k : X) (hA : A.wf) :
    ∃ C, addScalar A k = .ok C ∧ C.row = A.row ∧ C.col = A.col ∧ C.wf ∧
      ∀ i, i < A.row → ∀ j, j < A.col → C.at i j = X.add (A.at i j) k := by
  obtain ⟨c, hcok, hs, h1, _⟩ := fill2 A.row A.col (fun i j => i * A.col + j)
    (fun i j => X.add (A.at i j) k)
    (fun i j c => do wr c (i * A.col + j) (X.add (← rd A.m (i * A.col + j)) k))
    (DM.fresh A.row A.col).m
    (by
      intro i hi j hj c
      have h1 : i * A.col + j < A.m.size := by rw [hA]; exact idx_lt hi hj
      simp only [DM.at]
      rw [rd_getD h1]; rfl)
    (by intro i hi j hj; rw [fresh_size]; exact idx_lt hi hj)
    (by intro i _ j hj i' _ j' hj' h; exact idx_inj hj hj' h)
  refine ⟨{ row := A.row, col := A.col, m := c }, ?_, rfl, rfl, ?_, ?_⟩
  · simp only [addScalar]
    rw [hcok]; rfl
  · simp [DM.wf, hs, DM.fresh]
  · intro i hi j hj
    exact h1 i hi j hj

theorem mulScalar_spec (A : DM) (k : X) (hA : A.wf) :
    ∃ C, mulScalar A k = .ok C ∧ C.row = A.row ∧ C.col = A.col ∧ C.wf ∧
      ∀ i, i < A.row → ∀ j, j < A.col → C.at i j = X.mul (A.at i j) k := by
  obtain ⟨c, hcok, hs, h1, _⟩ := fill2 A.row A.col (fun i j => i * A.col + j)
    (fun i j => X.mul (A.at i j) k)
    (fun i j c => do wr c (i * A.col + j) (X.mul (← rd A.m (i * A.col + j)) k))
    (DM.fresh A.row A.col).m
    (by
      intro i hi j hj c
      have h1 : i * A.col + j < A.m.size := by rw [hA]; exact idx_lt hi hj
      simp only [DM.at]
      rw [rd_getD h1]; rfl)
    (by intro i hi j hj; rw [fresh_size]; exact idx_lt hi hj)
    (by intro i _ j hj i' _ j' hj' h; exact idx_inj hj hj' h)
  refine ⟨{ row := A.row, col := A.col, m := c }, ?_, rfl, rfl, ?_, ?_⟩
  · simp only [mulScalar, mulScalarInto]
    rw [hcok]; rfl
  · simp [DM.wf, hs, DM.fresh]
  · intro i hi j hj
    exact h1 i hi j hj

theorem transposeDense_spec (A : DM) (hA : A.wf) :
    ∃ C, transposeDense A = .ok C ∧ C.row = A.col ∧ C.col = A.row ∧ C.wf ∧
      ∀ i, i < A.row → ∀ j, j < A.col → C.at j i = A.at i j := by
  obtain ⟨c, hcok, hs, h1, _⟩ := fill2 A.row A.col (fun i j => j * A.row + i)
    (fun i j => A.at i j)
    (fun i j c => do wr c (j * A.row + i) (← rd A.m (i * A.col + j)))
    (DM.fresh A.col A.row).m
    (by
      intro i hi j hj c
      have h1 : i * A.col + j < A.m.size := by rw [hA]; exact idx_lt hi hj
      simp only [DM.at]
      rw [rd_getD h1]; rfl)
    (by intro i hi j hj; rw [fresh_size]; exact idx_lt hj hi)
    (by intro i hi j _ i' hi' j' _ h; have := idx_inj hi hi' h; exact ⟨this.2, this.1⟩)
  refine ⟨{ DM.fresh A.col A.row with m := c }, ?_, rfl, rfl, ?_, ?_⟩
  · simp only [transposeDense]
    show (forN A.row 0 (fun i b => forN A.col 0 (fun j b => do
      wr b (j * A.row + i) (← rd A.m (i * A.col + j))) b) (DM.fresh A.col A.row).m >>= _) = _
    rw [hcok]; rfl
  · simp [DM.wf, hs, DM.fresh]
  · intro i hi j hj
    exact h1 i hi j hj

/-- a loop that keeps updating one cell `idx` from its own content -/
theorem forN_cell (idx : Nat) (g : Nat → X → X) (body : Nat → Array X → M (Array X)) :
    ∀ (n i : Nat) (m : Array X) (h : idx < m.size),
      (∀ k, i ≤ k → k < i + n → ∀ (m' : Array X) (h' : idx < m'.size),
        body k m' = .ok (m'.set idx (g k (m'.getD idx X.unk)) h')) →
      forN n i body m =
        .ok (m.set idx ((List.range' i n).foldl (fun acc k => g k acc) (m.getD idx X.unk)) h) := by
  intro n
  induction n with
  | zero =>
    intro i m h _
    simp [forN, pure, Except.pure, Array.getD, h]
  | succ n ih =>
    intro i m h hb
    have h1 := hb i (Nat.le_refl _) (by omega) m h
    have hsz : idx < (m.set idx (g i (m.getD idx X.unk)) h).size := by simp [h]
    have h2 := ih (i + 1) (m.set idx (g i (m.getD idx X.unk)) h) hsz
      (fun k hk hk2 m' h' => hb k (by omega) (by omega) m' h')
    simp only [forN, h1, bind_ok, h2, List.range'_succ, List.foldl_cons]
    congr 1
    rw [Array.set_set]
    congr 1
    rw [getD_set]; simp

/-- the `k` loop of mul_dense_dense at the level of entries -/
def dotX (A B : DM) (r c : Nat) : X :=
  (List.range' 0 A.col).foldl (fun acc k => X.add acc (X.mul (A.at r k) (B.at k c))) X.zero

theorem mulCell_spec (A B : DM) (hA : A.wf) (hB : B.wf) (hk : A.col = B.row) (r c : Nat)
    (hr : r < A.row) (hc : c < B.col) (cm : Array X) (h : r * B.col + c < cm.size) :
    mulCell A B B.col r c cm = wr cm (r * B.col + c) (dotX A B r c) := by
  simp only [mulCell, wr_ok _ h, bind_ok]
  have hsz : r * B.col + c < (cm.set (r * B.col + c) X.zero h).size := by simp [h]
  rw [forN_cell (r * B.col + c) (fun k acc => X.add acc (X.mul (A.at r k) (B.at k c))) _ A.col 0 _ hsz]
  · simp only [Array.set_set, getD_set, if_true, dotX]
  · intro k _ hk2 m' h'
    have hk2 : k < A.col := by omega
    have h1 : r * A.col + k < A.m.size := by rw [hA]; exact idx_lt hr hk2
    have h2 : k * B.col + c < B.m.size := by rw [hB]; exact idx_lt (by omega) hc
    rw [rd_getD h', rd_getD h1, rd_getD h2]
    simp only [bind_ok, wr_ok _ h', DM.at]

theorem mulDense_spec (A B : DM) (hA : A.wf) (hB : B.wf) (hk : A.col = B.row) :
    ∃ C, mulDense A B = .ok C ∧ C.row = A.row ∧ C.col = B.col ∧ C.wf ∧
      ∀ i, i < A.row → ∀ j, j < B.col → C.at i j = dotX A B i j := by
  obtain ⟨c, hcok, hs, h1, _⟩ := fill2 A.row B.col (fun i j => i * B.col + j)
    (fun i j => dotX A B i j)
    (fun i j c => mulCell A B B.col i j c)
    (DM.fresh A.row B.col).m
    (by
      intro i hi j hj c
      by_cases h : i * B.col + j < c.size
      · exact mulCell_spec A B hA hB hk i j hi hj c h
      · simp only [mulCell, wr, h, dite_false]; rfl)
    (by intro i hi j hj; rw [fresh_size]; exact idx_lt hi hj)
    (by intro i _ j hj i' _ j' hj' h; exact idx_inj hj hj' h)
  refine ⟨{ DM.fresh A.row B.col with m := c }, ?_, rfl, rfl, ?_, ?_⟩
  · have hq : (A.col == B.row) = true := by simp [hk]
    simp only [mulDense, req_true hq, bind_ok]
    rw [hcok]; rfl
  · simp [DM.wf, hs, DM.fresh]
  · intro i hi j hj
    exact h1 i hi j hj

theorem step_lt {t n s : Nat} (hs : 0 < s) (h : t < (n + s - 1) / s) : t * s < n := by
  have h1 : t + 1 ≤ (n + s - 1) / s := h
  rw [Nat.le_div_iff_mul_le hs, Nat.add_mul] at h1
  omega

theorem lt_step {t n s : Nat} (hs : 0 < s) (h : t * s < n) : t < (n + s - 1) / s := by
  show t + 1 ≤ (n + s - 1) / s
  rw [Nat.le_div_iff_mul_le hs, Nat.add_mul]
  omega

/-- submatrix_dense with arbitrary steps: the positions `(t*rs, u*cs)` receive the entries of `A`,
    every other position keeps the caller's content (zero in the harness) -/
theorem submatrixDense_spec (A : DM) (r0 c0 r1 c1 rs cs : Nat) (hA : A.wf)
    (h1 : r0 ≤ r1) (h2 : c0 ≤ c1) (h3 : r1 < A.row) (h4 : c1 < A.col) (hrs : 0 < rs) (hcs : 0 < cs) :
    ∃ C, submatrixDense A r0 c0 r1 c1 rs cs = .ok C ∧ C.row = r1 - r0 + 1 ∧ C.col = c1 - c0 + 1 ∧ C.wf ∧
      (∀ t u, t * rs < C.row → u * cs < C.col → C.at (t * rs) (u * cs) = A.at (r0 + t * rs) (c0 + u * cs)) ∧
      (∀ i j, i < C.row → j < C.col → (¬ (rs ∣ i ∧ cs ∣ j)) → C.at i j = X.zero) := by
  let row := r1 - r0 + 1
  let col := c1 - c0 + 1
  obtain ⟨c, hcok, hs, hv, hfr⟩ := fill2 ((row + rs - 1) / rs) ((col + cs - 1) / cs)
    (fun t u => (t * rs) * col + u * cs)
    (fun t u => A.at (r0 + t * rs) (c0 + u * cs))
    (fun t u b => do wr b ((t * rs) * col + u * cs) (← rd A.m ((r0 + t * rs) * A.col + c0 + u * cs)))
    (Array.replicate (row * col) X.zero)
    (by
      intro t ht u hu b
      have a1 := step_lt hrs ht
      have a2 := step_lt hcs hu
      have hlt : (r0 + t * rs) * A.col + c0 + u * cs < A.m.size := by
        rw [hA, Nat.add_assoc]; exact idx_lt (by omega) (by omega)
      rw [rd_getD hlt]
      simp only [bind_ok, DM.at, Nat.add_assoc])
    (by
      intro t ht u hu
      rw [Array.size_replicate]
      exact idx_lt (step_lt hrs ht) (step_lt hcs hu))
    (by
      intro t ht u hu t' ht' u' hu' h
      have := idx_inj (step_lt hcs hu) (step_lt hcs hu') h
      exact ⟨Nat.eq_of_mul_eq_mul_right hrs this.1, Nat.eq_of_mul_eq_mul_right hcs this.2⟩)
  refine ⟨{ row := row, col := col, m := c }, ?_, rfl, rfl, ?_, ?_, ?_⟩
  · have q1 : (decide (r1 ≥ r0) && decide (c1 ≥ c0)) = true := by simp [h1, h2]
    have q2 : decide (r1 < A.row) = true := by simp [h3]
    have q3 : decide (c1 < A.col) = true := by simp [h4]
    have q4 : ¬ (rs = 0 ∨ cs = 0) := by omega
    simp only [submatrixDense, req_true q1, req_true q2, req_true q3, bind_ok, if_neg q4, forStep]
    show (forN _ 0 _ _ >>= _) = _
    rw [hcok]; rfl
  · simp [DM.wf, hs]
  · intro t u ht hu
    exact hv t (lt_step hrs ht) u (lt_step hcs hu)
  · intro i j hi hj hnd
    have : c.getD (i * col + j) X.unk = (Array.replicate (row * col) X.zero).getD (i * col + j) X.unk := by
      apply hfr
      intro t ht u hu h
      have := idx_inj (step_lt hcs hu) hj h
      exact hnd ⟨⟨t, by rw [Nat.mul_comm]; exact this.1.symm⟩, ⟨u, by rw [Nat.mul_comm]; exact this.2.symm⟩⟩
    show c.getD (i * col + j) X.unk = X.zero
    rw [this]
    have hlt : i * col + j < row * col := idx_lt hi hj
    simp [Array.getD, hlt]

end SymVerif.Dense
