/-
C03: induction step of the Mul / Pow contracts — the simple functions.
-/
import SymVerif.Lemmas.C03MulA

namespace SymVerif.Arith

theorem asBaseExp_pre {b e t : Expr} (hb : inv b = true) (hn : b.isNum = false)
    (h : asBaseExp b = .ok (e, t)) : Pre t e := by
  unfold asBaseExp at h
  split at h
  · simp [Expr.isNum] at hn
  · rename_i x y
    simp at h
    obtain ⟨rfl, rfl⟩ := h
    obtain ⟨h1, h2, _, h4⟩ := inv_pow_iff.mp hb
    exact pre_of_factor h1 h2 h4
  · simp at h
  · rename_i h1 h2 h3
    simp at h
    obtain ⟨rfl, rfl⟩ := h
    refine ⟨hb, numOK_one.inv, rfl, ?_⟩
    unfold preOK
    cases b <;> simp_all [Expr.isNum]

theorem iterOrder_mem {rv : Bool} {d : Dict} {p : Expr × Expr} (h : p ∈ iterOrder rv d) : p ∈ d := by
  unfold iterOrder at h
  split at h
  · exact List.mem_reverse.mp h
  · exact h

theorem pre_of_mulDict {d : Dict} (hd : MulDictOK d) : ∀ p ∈ d, Pre p.1 p.2 :=
  fun p hp => pre_of_factor (hd.ent p hp).1 (hd.ent p hp).2 (hd.fac p hp)

theorem inv_mul_coef {c : Expr} {fs : Dict} (h : inv (.mul c fs) = true) : NumOK c := by
  obtain ⟨h1, _, h3, _, _⟩ := inv_mul_iff.mp h
  unfold mulCanonTop at h3
  simp only [Bool.and_eq_true] at h3
  exact ⟨h3.1.1.1.1, inv_canon h1⟩

variable {n : Nat}

theorem step_mulStep (ih : Spec n) : ∀ rv coef d b c' d', St coef d → inv b = true →
    mulStep (n + 1) rv coef d b = .ok (c', d') → St c' d' := by
  intro rv coef d b c' d' hs hb h
  simp only [mulStep] at h
  split at h
  · rename_i hn
    cases hm : numMul coef b with
    | error e => simp [hm, bind, Except.bind] at h
    | ok c1 =>
      simp [hm, bind, Except.bind, pure, Except.pure] at h
      obtain ⟨rfl, rfl⟩ := h
      exact ⟨numMul_ok hs.1 ⟨hn, inv_canon hb⟩ hm, hs.2⟩
  · rename_i hn
    cases ha : asBaseExp b with
    | error e => simp [ha, bind, Except.bind] at h
    | ok et =>
      obtain ⟨e, t⟩ := et
      simp [ha, bind, Except.bind] at h
      exact ih.datNew rv coef d e t c' d' hs (asBaseExp_pre hb (by simpa using hn) ha) h

theorem step_mulOnto (ih : Spec n) : ∀ rv coef d b r, St coef d → inv b = true →
    mulOnto (n + 1) rv coef d b = .ok r → inv r = true := by
  intro rv coef d b r hs hb h
  simp only [mulOnto] at h
  cases hm : mulStep n rv coef d b with
  | error e => simp [hm, bind, Except.bind] at h
  | ok cd =>
    obtain ⟨c1, d1⟩ := cd
    simp [hm, bind, Except.bind, pure, Except.pure] at h
    subst h
    have := ih.mulStep rv coef d b c1 d1 hs hb hm
    exact mulFromDict_inv this.1 this.2

theorem step_mulF (ih : Spec n) : ∀ rv a b r, inv a = true → inv b = true →
    mulF (n + 1) rv a b = .ok r → inv r = true := by
  intro rv a b r ha hb h
  simp only [mulF] at h
  split at h
  · rename_i ac ad bc bd
    have hac := inv_mul_coef ha
    have hbc := inv_mul_coef hb
    have had := inv_mul_dict ha
    have hbd := inv_mul_dict hb
    have fin : ∀ c0, NumOK c0 → ∀ cd, datLoop n rv c0 ad (iterOrder rv bd) = .ok cd →
        inv (mulFromDict cd.1 cd.2) = true := by
      intro c0 hc0 cd hl
      obtain ⟨c1, d1⟩ := cd
      have := ih.datLoop rv c0 ad (iterOrder rv bd) c1 d1 ⟨hc0, had⟩
        (fun p hp => pre_of_mulDict hbd p (iterOrder_mem hp)) hl
      exact mulFromDict_inv this.1 this.2
    by_cases hone : (!numIsOne ac || !numIsOne bc) = true
    · simp only [hone, if_true] at h
      cases hm : numMul ac bc with
      | error e => simp [hm, bind, Except.bind] at h
      | ok c0 =>
        simp only [hm, bind, Except.bind] at h
        cases hl : datLoop n rv c0 ad (iterOrder rv bd) with
        | error e => simp [hl] at h
        | ok cd =>
          simp [hl, pure, Except.pure] at h
          subst h
          exact fin c0 (numMul_ok hac hbc hm) cd hl
    · simp only [hone, if_false, bind, Except.bind, pure, Except.pure] at h
      cases hl : datLoop n rv one ad (iterOrder rv bd) with
      | error e => simp [hl] at h
      | ok cd =>
        simp [hl] at h
        subst h
        exact fin one numOK_one cd hl
  · rename_i ac ad _
    exact ih.mulOnto rv ac ad b r ⟨inv_mul_coef ha, inv_mul_dict ha⟩ hb h
  · rename_i bc bd _
    exact ih.mulOnto rv bc bd a r ⟨inv_mul_coef hb, inv_mul_dict hb⟩ ha h
  · cases h1 : mulStep n rv one [] a with
    | error e => simp [h1, bind, Except.bind] at h
    | ok cd =>
      obtain ⟨c1, d1⟩ := cd
      simp [h1, bind, Except.bind] at h
      have s1 := ih.mulStep rv one [] a c1 d1 ⟨numOK_one, MulDictOK.nil⟩ ha h1
      cases h2 : mulStep n rv c1 d1 b with
      | error e => simp [h2] at h
      | ok cd2 =>
        obtain ⟨c2, d2⟩ := cd2
        simp [h2, pure, Except.pure] at h
        subst h
        have s2 := ih.mulStep rv c1 d1 b c2 d2 s1 hb h2
        exact mulFromDict_inv s2.1 s2.2

theorem step_datLoop (ih : Spec n) : ∀ rv coef d l c' d', St coef d → (∀ p ∈ l, Pre p.1 p.2) →
    datLoop (n + 1) rv coef d l = .ok (c', d') → St c' d' := by
  intro rv coef d l c' d' hs hl h
  cases l with
  | nil =>
    simp [datLoop] at h
    obtain ⟨rfl, rfl⟩ := h
    exact hs
  | cons p r =>
    obtain ⟨k, v⟩ := p
    simp only [datLoop] at h
    cases h1 : datNew n rv coef d v k with
    | error e => simp [h1, bind, Except.bind] at h
    | ok cd =>
      obtain ⟨c1, d1⟩ := cd
      simp [h1, bind, Except.bind] at h
      have s1 := ih.datNew rv coef d v k c1 d1 hs (hl (k, v) (by simp)) h1
      exact ih.datLoop rv c1 d1 r c' d' s1 (fun p hp => hl p (by simp [hp])) h

theorem step_absorb (ih : Spec n) : ∀ rv coef d res c' d', St coef d → inv res = true →
    absorb (n + 1) rv coef d res = .ok (some (c', d')) → St c' d' := by
  intro rv coef d res c' d' hs hr h
  simp only [absorb] at h
  split at h
  · rename_i hn
    cases hm : numMul coef res with
    | error e => simp [hm, bind, Except.bind] at h
    | ok c1 =>
      simp [hm, bind, Except.bind, pure, Except.pure] at h
      obtain ⟨rfl, rfl⟩ := h
      exact ⟨numMul_ok hs.1 ⟨hn, inv_canon hr⟩ hm, hs.2⟩
  · split at h
    · rename_i mc mfs hnn
      cases hm : numMul coef mc with
      | error e => simp [hm, bind, Except.bind] at h
      | ok c1 =>
        simp only [hm, bind, Except.bind] at h
        cases hl : datLoop n rv c1 d (iterOrder rv mfs) with
        | error e => simp [hl] at h
        | ok cd =>
          simp [hl, pure, Except.pure] at h
          subst h
          exact ih.datLoop rv c1 d (iterOrder rv mfs) c' d'
            ⟨numMul_ok hs.1 (inv_mul_coef hr) hm, hs.2⟩
            (fun p hp => pre_of_mulDict (inv_mul_dict hr) p (iterOrder_mem hp)) hl
    · simp [pure, Except.pure] at h

/-- `absorb` answers `none` exactly for results that are neither Number nor Mul -/
theorem absorb_none {rv : Bool} {coef res : Expr} {d : Dict}
    (h : absorb (n + 1) rv coef d res = .ok none) : res.isNum = false ∧ isMul res = false := by
  simp only [absorb] at h
  split at h
  · cases hm : numMul coef res with
    | error e => simp [hm, bind, Except.bind] at h
    | ok c1 => simp [hm, bind, Except.bind, pure, Except.pure] at h
  · rename_i hn
    split at h
    · rename_i _ mc mfs
      cases hm : numMul coef mc with
      | error e => simp [hm, bind, Except.bind] at h
      | ok c1 =>
        simp only [hm, bind, Except.bind] at h
        cases hl : datLoop n rv c1 d (iterOrder rv mfs) with
        | error e => simp [hl] at h
        | ok cd => simp [hl, pure, Except.pure] at h
    · rename_i hm
      refine ⟨by simpa using hn, ?_⟩
      cases res <;> simp_all [isMul]

theorem step_mulInto (ih : Spec n) : ∀ rv coef d r c' d', St coef d → inv r = true →
    mulInto (n + 1) rv coef d r = .ok (c', d') → St c' d' := by
  intro rv coef d r c' d' hs hr h
  simp only [mulInto] at h
  cases ha : absorb n rv coef d r with
  | error e => simp [ha, bind, Except.bind] at h
  | ok o =>
    cases o with
    | some x =>
      obtain ⟨c1, d1⟩ := x
      simp [ha, bind, Except.bind, pure, Except.pure] at h
      obtain ⟨rfl, rfl⟩ := h
      exact ih.absorb rv coef d r c1 d1 hs hr ha
    | none =>
      simp [ha, bind, Except.bind] at h
      cases n with
      | zero => simp [absorb] at ha
      | succ m =>
        have hnn := absorb_none ha
        cases hb : asBaseExp r with
        | error e => simp [hb] at h
        | ok et =>
          obtain ⟨e, t⟩ := et
          simp [hb] at h
          exact ih.datNew rv coef d e t c' d' hs (asBaseExp_pre hr hnn.1 hb) h

theorem exOK_ratCanon {n : Int} {d : Nat} (h : ExOK (.rat n d)) : ratCanon n d = true := by
  have := h.2
  rwa [canon_rat] at this

theorem step_powNumRat (ih : Spec n) : ∀ rv t e r, ExOK t → ExOK e →
    powNumRat (n + 1) rv t e = .ok r → inv r = true := by
  intro rv t e r ht he h
  simp only [powNumRat] at h
  split at h
  · exact ih.rpowrat rv _ _ _ r (exOK_ratCanon he) h
  · exact ih.powrat rv _ _ _ _ r (exOK_ratCanon ht) (exOK_ratCanon he) h
  · simp at h

theorem ratCanon_neg {n : Int} {d : Nat} (h : ratCanon n d = true) : ratCanon (-n) d = true := by
  simpa [ratCanon] using h

theorem step_powrat (ih : Spec n) : ∀ rv p q nn d r, ratCanon p q = true → ratCanon nn d = true →
    powrat (n + 1) rv p q nn d = .ok r → inv r = true := by
  intro rv p q nn d r hpq hnd h
  simp only [powrat] at h
  cases h1 : rpowrat n rv nn d p with
  | error e => simp [h1, bind, Except.bind] at h
  | ok x =>
    simp [h1, bind, Except.bind] at h
    cases h2 : rpowrat n rv (-nn) d (q : Int) with
    | error e => simp [h2] at h
    | ok y =>
      simp [h2] at h
      exact ih.mulF rv x y r (ih.rpowrat rv nn d p x hnd h1)
        (ih.rpowrat rv (-nn) d q y (ratCanon_neg hnd) h2) h

end SymVerif.Arith
