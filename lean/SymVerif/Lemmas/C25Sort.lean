import SymVerif.Lemmas.C25Coo
/-!
C25 — `CSRMatrix::from_coo`, part 2: `csr_sort_indices` sorts every row segment, keeps the
per-column sums (it permutes the segment) and leaves everything else alone.
-/
namespace SymVerif.C25
open SymVerif.CSR Finset

/-- non-strictly increasing column indices on `[lo, hi)` -/
def SortedLeOn (j : Array Nat) (lo hi : Nat) : Prop :=
  ∀ a b, lo ≤ a → a < b → b < hi → j[a]! ≤ j[b]!

def pairVal (c : Nat) (a : Nat × Q) : Q := if a.1 = c then a.2 else 0

/-- a sum over an index range whose summands are given by a list -/
theorem sum_Ico_list (f : Nat × Q → Q) :
    ∀ (l : List (Nat × Q)) (jj : Nat) (g : Nat → Q),
      (∀ n, n < l.length → g (jj + n) = f l[n]!) →
      ∑ k ∈ Ico jj (jj + l.length), g k = (l.map f).sum := by
  intro l
  induction l with
  | nil => intro jj g _; simp
  | cons a l ih =>
    intro jj g h
    rw [Finset.sum_eq_sum_Ico_succ_bot (by simp)]
    have h0 := h 0 (by simp)
    simp only [Nat.add_zero] at h0
    have := ih (jj + 1) g (fun n hn => by
      have := h (n + 1) (by simp; omega)
      rw [show jj + 1 + n = jj + (n + 1) by omega, this]
      simp)
    rw [show jj + (a :: l).length = jj + 1 + l.length by simp; omega, this, h0]
    simp

theorem readPairs_spec (j : Array Nat) (x : Array Q) :
    ∀ n jj, jj + n ≤ j.size → jj + n ≤ x.size →
      readPairs j x n jj = .ok ((List.range' jj n).map (fun k => (j[k]!, x[k]!))) := by
  intro n
  induction n with
  | zero => intro jj _ _; rfl
  | succ n ih =>
    intro jj hj hx
    have h1 : jj < j.size := by omega
    have h2 : jj < x.size := by omega
    unfold readPairs
    simp only [rd_lt h1, rd_lt h2, ok_bind, ih (jj + 1) (by omega) (by omega), pure_ok,
      List.range'_succ, List.map_cons]

theorem writePairs_spec :
    ∀ (l : List (Nat × Q)) jj (j : Array Nat) (x : Array Q),
      jj + l.length ≤ j.size → jj + l.length ≤ x.size →
      ∃ j' x', writePairs l jj j x = .ok (j', x') ∧ j'.size = j.size ∧ x'.size = x.size ∧
        (∀ k, j'[k]! = if jj ≤ k ∧ k < jj + l.length then (l[k - jj]!).1 else j[k]!) ∧
        (∀ k, x'[k]! = if jj ≤ k ∧ k < jj + l.length then (l[k - jj]!).2 else x[k]!) := by
  intro l
  induction l with
  | nil =>
    intro jj j x _ _
    refine ⟨j, x, rfl, rfl, rfl, fun k => ?_, fun k => ?_⟩ <;>
    · have : ¬ (jj ≤ k ∧ k < jj + ([] : List (Nat × Q)).length) := by simp
      rw [if_neg this]
  | cons a l ih =>
    intro jj j x hj hx
    obtain ⟨a1, a2⟩ := a
    have hl : (((a1, a2) :: l).length) = l.length + 1 := by simp
    rw [hl] at hj hx
    have h1 : jj < j.size := by omega
    have h2 : jj < x.size := by omega
    unfold writePairs
    simp only [wr_lt _ h1, wr_lt _ h2, ok_bind]
    obtain ⟨j', x', e, s1, s2, g1, g2⟩ := ih (jj + 1) (j.set jj a1 h1) (x.set jj a2 h2)
      (by simp; omega) (by simp; omega)
    refine ⟨j', x', e, by simpa using s1, by simpa using s2, fun k => ?_, fun k => ?_⟩
    · rw [g1 k, hl, set_get!]
      by_cases hk : k = jj
      · subst hk
        have n1 : ¬ (k + 1 ≤ k ∧ k < k + 1 + l.length) := by omega
        have n2 : k ≤ k ∧ k < k + (l.length + 1) := by omega
        rw [if_neg n1, if_pos rfl, if_pos n2]; simp
      · by_cases hc : jj + 1 ≤ k ∧ k < jj + 1 + l.length
        · have n2 : jj ≤ k ∧ k < jj + (l.length + 1) := by omega
          rw [if_pos hc, if_pos n2]
          have : k - jj = (k - (jj + 1)) + 1 := by omega
          rw [this]; simp
        · have n2 : ¬ (jj ≤ k ∧ k < jj + (l.length + 1)) := by omega
          rw [if_neg hc, if_neg hk, if_neg n2]
    · rw [g2 k, hl, set_get!]
      by_cases hk : k = jj
      · subst hk
        have n1 : ¬ (k + 1 ≤ k ∧ k < k + 1 + l.length) := by omega
        have n2 : k ≤ k ∧ k < k + (l.length + 1) := by omega
        rw [if_neg n1, if_pos rfl, if_pos n2]; simp
      · by_cases hc : jj + 1 ≤ k ∧ k < jj + 1 + l.length
        · have n2 : jj ≤ k ∧ k < jj + (l.length + 1) := by omega
          rw [if_pos hc, if_pos n2]
          have : k - jj = (k - (jj + 1)) + 1 := by omega
          rw [this]; simp
        · have n2 : ¬ (jj ≤ k ∧ k < jj + (l.length + 1)) := by omega
          rw [if_neg hc, if_neg hk, if_neg n2]

/-- sorting one row segment `[rs, re)` -/
theorem sortSegment_spec (j : Array Nat) (x : Array Q) (rs re col : Nat) (hle : rs ≤ re)
    (hj : re ≤ j.size) (hx : re ≤ x.size) (hcol : ∀ k, k < j.size → j[k]! < col) :
    ∃ j' x', writePairs (((List.range' rs (re - rs)).map (fun k => (j[k]!, x[k]!))).mergeSort keyLe)
        rs j x = .ok (j', x') ∧
      j'.size = j.size ∧ x'.size = x.size ∧
      (∀ k, ¬ (rs ≤ k ∧ k < re) → j'[k]! = j[k]! ∧ x'[k]! = x[k]!) ∧
      (∀ k, k < j.size → j'[k]! < col) ∧
      SortedLeOn j' rs re ∧
      ∀ c, ∑ k ∈ Ico rs re, cellOf j' x' c k = ∑ k ∈ Ico rs re, cellOf j x c k := by
  generalize hL : (List.range' rs (re - rs)).map (fun k => (j[k]!, x[k]!)) = L
  have hLlen : L.length = re - rs := by rw [← hL]; simp
  have hLget : ∀ n, n < re - rs → L[n]! = (j[rs + n]!, x[rs + n]!) := by
    intro n hn
    rw [getElem!_pos L n (by omega)]
    subst hL
    simp
  have hperm := List.mergeSort_perm L keyLe
  generalize hS : L.mergeSort keyLe = S at hperm
  have hSlen : S.length = re - rs := by rw [hperm.length_eq, hLlen]
  have hsorted : S.Pairwise (fun a b => keyLe a b = true) := by
    rw [← hS]
    apply List.pairwise_mergeSort
    · intro a b c h1 h2
      simp only [keyLe, decide_eq_true_eq] at *
      omega
    · intro a b
      simp only [keyLe, Bool.or_eq_true, decide_eq_true_eq]
      omega
  obtain ⟨j', x', e, s1, s2, g1, g2⟩ := writePairs_spec S rs j x (by omega) (by omega)
  rw [hSlen] at g1 g2
  have hre : rs + (re - rs) = re := by omega
  rw [hre] at g1 g2
  refine ⟨j', x', e, s1, s2, ?_, ?_, ?_, ?_⟩
  · intro k hk
    rw [g1 k, g2 k, if_neg hk, if_neg hk]
    exact ⟨rfl, rfl⟩
  · intro k hk
    rw [g1 k]
    by_cases hin : rs ≤ k ∧ k < re
    · rw [if_pos hin]
      have hidx : k - rs < S.length := by omega
      rw [getElem!_pos S (k - rs) hidx]
      have hmem : S[k - rs] ∈ L := hperm.mem_iff.mp (List.getElem_mem hidx)
      rw [← hL] at hmem
      simp only [List.mem_map, List.mem_range'_1] at hmem
      obtain ⟨k', hk', heq⟩ := hmem
      rw [← heq]
      exact hcol k' (by omega)
    · rw [if_neg hin]; exact hcol k hk
  · intro a b ha hab hb
    rw [g1 a, g1 b, if_pos (by omega), if_pos (by omega)]
    have h1 : a - rs < S.length := by omega
    have h2 : b - rs < S.length := by omega
    rw [getElem!_pos S _ h1, getElem!_pos S _ h2]
    have := (List.pairwise_iff_getElem.mp hsorted) (a - rs) (b - rs) h1 h2 (by omega)
    simpa [keyLe] using this
  · intro c
    have e1 : ∑ k ∈ Ico rs re, cellOf j' x' c k = (S.map (pairVal c)).sum := by
      have := sum_Ico_list (pairVal c) S rs (fun k => cellOf j' x' c k) (fun n hn => by
        have hin : rs ≤ rs + n ∧ rs + n < re := by omega
        show cellOf j' x' c (rs + n) = pairVal c S[n]!
        unfold cellOf pairVal
        rw [g1, g2, if_pos hin, if_pos hin, Nat.add_sub_cancel_left])
      rw [hSlen, hre] at this
      exact this
    have e2 : ∑ k ∈ Ico rs re, cellOf j x c k = (L.map (pairVal c)).sum := by
      have := sum_Ico_list (pairVal c) L rs (fun k => cellOf j x c k) (fun n hn => by
        rw [hLget n (by omega)]
        rfl)
      rw [hLlen, hre] at this
      exact this
    rw [e1, e2]
    exact (hperm.map _).sum_eq

/-- `csr_sort_indices` over the rows `[i, row)` -/
theorem sortRows_spec (p : Array Nat) (row col N : Nat) (hps : p.size = row + 1)
    (hmono : ∀ a b, a ≤ b → b ≤ row → p[a]! ≤ p[b]!) (hpN : p[row]! ≤ N) :
    ∀ n i (j : Array Nat) (x : Array Q), i + n = row → j.size = N → x.size = N →
      (∀ k, k < N → j[k]! < col) →
      ∃ j' x', sortRows p n i j x = .ok (j', x') ∧ j'.size = N ∧ x'.size = N ∧
        (∀ k, k < p[i]! → j'[k]! = j[k]! ∧ x'[k]! = x[k]!) ∧
        (∀ k, k < N → j'[k]! < col) ∧
        ∀ r, i ≤ r → r < row → SortedLeOn j' p[r]! p[r + 1]! ∧
          ∀ c, ∑ k ∈ Ico p[r]! p[r + 1]!, cellOf j' x' c k
             = ∑ k ∈ Ico p[r]! p[r + 1]!, cellOf j x c k := by
  intro n
  induction n with
  | zero =>
    intro i j x _ hj hx hcol
    exact ⟨j, x, rfl, hj, hx, fun _ _ => ⟨rfl, rfl⟩, hcol, fun r h1 h2 => by omega⟩
  | succ n ih =>
    intro i j x hin hj hx hcol
    have hi : i < row := by omega
    have h1 : i < p.size := by omega
    have h2 : i + 1 < p.size := by omega
    have hm1 := hmono i (i + 1) (by omega) (by omega)
    have hm2 := hmono (i + 1) row (by omega) (by omega)
    obtain ⟨j1, x1, e1, s1, s2, g1, g2, g3, g4⟩ :=
      sortSegment_spec j x p[i]! p[i + 1]! col hm1 (by omega) (by omega)
        (fun k hk => hcol k (by omega))
    unfold sortRows
    simp only [rd_lt h1, rd_lt h2, ok_bind]
    rw [readPairs_spec j x (p[i + 1]! - p[i]!) p[i]! (by omega) (by omega)]
    simp only [ok_bind, e1]
    obtain ⟨j', x', e2, t1, t2, f1, f2, f3⟩ := ih (i + 1) j1 x1 (by omega) (by omega) (by omega)
      (fun k hk => g2 k (by omega))
    refine ⟨j', x', e2, t1, t2, ?_, f2, ?_⟩
    · intro k hk
      obtain ⟨a1, a2⟩ := f1 k (by omega)
      obtain ⟨b1, b2⟩ := g1 k (by omega)
      exact ⟨a1.trans b1, a2.trans b2⟩
    · intro r hr1 hr2
      by_cases hri : r = i
      · subst hri
        refine ⟨?_, fun c => ?_⟩
        · intro a b ha hab hb
          rw [(f1 a (by omega)).1, (f1 b (by omega)).1]
          exact g3 a b ha hab hb
        · rw [← g4 c]
          apply sum_Ico_congr
          intro k hk1 hk2
          unfold cellOf
          rw [(f1 k hk2).1, (f1 k hk2).2]
      · obtain ⟨a1, a2⟩ := f3 r (by omega) hr2
        refine ⟨a1, fun c => ?_⟩
        rw [a2 c]
        apply sum_Ico_congr
        intro k hk1 hk2
        have := hmono (i + 1) r (by omega) (by omega)
        obtain ⟨b1, b2⟩ := g1 k (by omega)
        unfold cellOf
        rw [b1, b2]

end SymVerif.C25
