import SymVerif.Lemmas.C27Iv

/-! FiniteSet with Interval: union (the `left`/`right` flag loop). -/
namespace SymVerif.Sets

/-- the step function of the fold in `fsUnionIv` -/
def fsUnionStep (s e : ENum) (lo ro : Bool) (st : FsUnionSt) (a : ENum) : FsUnionSt :=
  if ivContains s e lo ro a then st
  else if st.left && s == a then { st with left := false }
  else if st.right && e == a then { st with right := false }
  else { st with container := insertK ENum.hash a st.container }

/-- loop invariant of `FiniteSet::set_union(Interval)` after the elements `p` -/
structure FsUnionInv (s e : ENum) (lo ro : Bool) (p : List ENum) (st : FsUnionSt) : Prop where
  sub : ∀ x ∈ st.container, x ∈ p
  cov : ∀ x ∈ p, ivContains s e lo ro x = true ∨ x ∈ st.container ∨ (x = s ∧ st.left = false) ∨
          (x = e ∧ st.right = false)
  left_le : st.left = true → lo = true
  right_le : st.right = true → ro = true
  left_seen : st.left = false → lo = true → s ∈ p
  right_seen : st.right = false → ro = true → e ∈ p

theorem fsUnionInv_step (s e : ENum) (lo ro : Bool) (p : List ENum) (st : FsUnionSt) (a : ENum)
    (h : FsUnionInv s e lo ro p st) : FsUnionInv s e lo ro (p ++ [a]) (fsUnionStep s e lo ro st a) := by
  obtain ⟨sub, cov, ll, rl, ls, rs⟩ := h
  unfold fsUnionStep
  split
  · rename_i hc
    exact ⟨fun x hx => List.mem_append_left _ (sub x hx),
      fun x hx => by
        rcases List.mem_append.1 hx with hx | hx
        · exact cov x hx
        · simp only [List.mem_singleton] at hx; subst hx; exact Or.inl hc,
      ll, rl, fun h1 h2 => List.mem_append_left _ (ls h1 h2), fun h1 h2 => List.mem_append_left _ (rs h1 h2)⟩
  · split
    · rename_i hc hl
      simp only [Bool.and_eq_true, beq_iff_eq] at hl
      obtain ⟨hl1, rfl⟩ := hl
      refine ⟨fun x hx => List.mem_append_left _ (sub x hx), fun x hx => ?_, by simp, rl,
        fun _ _ => by simp, fun h1 h2 => List.mem_append_left _ (rs h1 h2)⟩
      rcases List.mem_append.1 hx with hx | hx
      · rcases cov x hx with h | h | h | h
        · exact Or.inl h
        · exact Or.inr (Or.inl h)
        · exact Or.inr (Or.inr (Or.inl ⟨h.1, rfl⟩))
        · exact Or.inr (Or.inr (Or.inr h))
      · simp only [List.mem_singleton] at hx; subst hx
        exact Or.inr (Or.inr (Or.inl ⟨rfl, rfl⟩))
    · split
      · rename_i hc hl hr
        simp only [Bool.and_eq_true, beq_iff_eq] at hr
        obtain ⟨hr1, rfl⟩ := hr
        refine ⟨fun x hx => List.mem_append_left _ (sub x hx), fun x hx => ?_, ll, by simp,
          fun h1 h2 => List.mem_append_left _ (ls h1 h2), fun _ _ => by simp⟩
        rcases List.mem_append.1 hx with hx | hx
        · rcases cov x hx with h | h | h | h
          · exact Or.inl h
          · exact Or.inr (Or.inl h)
          · exact Or.inr (Or.inr (Or.inl h))
          · exact Or.inr (Or.inr (Or.inr ⟨h.1, rfl⟩))
        · simp only [List.mem_singleton] at hx; subst hx
          exact Or.inr (Or.inr (Or.inr ⟨rfl, rfl⟩))
      · refine ⟨fun x hx => ?_, fun x hx => ?_, ll, rl,
          fun h1 h2 => List.mem_append_left _ (ls h1 h2), fun h1 h2 => List.mem_append_left _ (rs h1 h2)⟩
        · rcases (mem_insertK soundBEq_ENum _ _ _ _).1 hx with rfl | hx
          · simp
          · exact List.mem_append_left _ (sub x hx)
        · rcases List.mem_append.1 hx with hx | hx
          · rcases cov x hx with h | h | h | h
            · exact Or.inl h
            · exact Or.inr (Or.inl ((mem_insertK soundBEq_ENum _ _ _ _).2 (Or.inr h)))
            · exact Or.inr (Or.inr (Or.inl h))
            · exact Or.inr (Or.inr (Or.inr h))
          · simp only [List.mem_singleton] at hx; subst hx
            exact Or.inr (Or.inl ((mem_insertK soundBEq_ENum _ _ _ _).2 (Or.inl rfl)))

theorem fsUnionInv_fold (s e : ENum) (lo ro : Bool) (l : List ENum) :
    ∀ (p : List ENum) (st : FsUnionSt), FsUnionInv s e lo ro p st →
      FsUnionInv s e lo ro (p ++ l) (l.foldl (fsUnionStep s e lo ro) st) := by
  induction l with
  | nil => intro p st h; simpa using h
  | cons a t ih =>
    intro p st h
    have := ih (p ++ [a]) _ (fsUnionInv_step s e lo ro p st a h)
    simpa [List.append_assoc] using this

theorem memIv_weaken (s e : ENum) (lo ro left right : Bool) (q : ℚ) (hl : left = true → lo = true)
    (hr : right = true → ro = true) (h : memIv s e lo ro q) : memIv s e left right q := by
  unfold memIv at *
  grind

theorem fsUnionIv_ok (l : List ENum) (s e : ENum) (lo ro : Bool) (hse : s < e) {r : SetE}
    (h : fsUnionIv l s e lo ro = .ok r) :
    WF r ∧ ∀ q, mem r q ↔ (ENum.fin q ∈ l ∨ memIv s e lo ro q) := by
  unfold fsUnionIv at h
  have hinv := fsUnionInv_fold s e lo ro l [] { left := lo, right := ro, container := [] }
    ⟨by simp, by simp, by simp, by simp, by simp, by simp⟩
  simp only [List.nil_append] at hinv
  change FsUnionInv s e lo ro l (l.foldl (fun (st : FsUnionSt) a =>
      if ivContains s e lo ro a then st
      else if st.left && s == a then { st with left := false }
      else if st.right && e == a then { st with right := false }
      else { st with container := insertK ENum.hash a st.container })
    { left := lo, right := ro, container := [] }) at hinv
  revert h
  generalize (l.foldl _ _ : FsUnionSt) = st at hinv ⊢
  intro h
  obtain ⟨sub, cov, ll, rl, ls, rs⟩ := hinv
  -- the semantic core: container ∪ [s,e] with the new flags = l ∪ [s,e] with the old ones
  have core : ∀ q, (ENum.fin q ∈ st.container ∨ memIv s e st.left st.right q) ↔
      (ENum.fin q ∈ l ∨ memIv s e lo ro q) := by
    intro q
    constructor
    · rintro (hq | hq)
      · exact Or.inl (sub _ hq)
      · by_cases hm : memIv s e lo ro q
        · exact Or.inr hm
        · left
          unfold memIv at hq hm
          by_cases h1 : s = ENum.fin q
          · have : st.left = false ∧ lo = true := by grind
            exact h1 ▸ ls this.1 this.2
          · have h2 : e = ENum.fin q := by grind
            have : st.right = false ∧ ro = true := by grind
            exact h2 ▸ rs this.1 this.2
    · rintro (hq | hq)
      · rcases cov _ hq with hc | hc | hc | hc
        · exact Or.inr (memIv_weaken s e lo ro _ _ q ll rl ((ivContains_iff s e lo ro q hse).1 hc))
        · exact Or.inl hc
        · right; obtain ⟨rfl, h2⟩ := hc; unfold memIv; simp [h2, hse]
        · right; obtain ⟨rfl, h2⟩ := hc; unfold memIv; simp [h2, hse]
      · exact Or.inr (memIv_weaken s e lo ro _ _ q ll rl hq)
  have hwfo : WF (SetE.iv s e lo ro) := by simpa [WF] using hse
  dsimp only at h
  split at h
  · split at h
    · rename_i hflags
      simp only [Bool.and_eq_true, beq_iff_eq] at hflags
      have hu := makeUnion_ok h
      refine ⟨hu.2 ?_, fun q => ?_⟩
      · rw [WFL_iff]; intro x hx; rw [mem_mkSS] at hx
        simp only [List.mem_cons, List.not_mem_nil, or_false] at hx
        rcases hx with rfl | rfl
        · exact WF_finiteset _
        · exact hwfo
      · rw [hu.1 q, memAny_iff, ← core q]
        simp only [mem_mkSS, List.mem_cons, List.not_mem_nil, or_false, exists_eq_or_imp, exists_eq_left,
          mem_finiteset, mem, hflags.1, hflags.2]
    · have hu := makeUnion_ok h
      refine ⟨hu.2 ?_, fun q => ?_⟩
      · rw [WFL_iff]; intro x hx; rw [mem_mkSS] at hx
        simp only [List.mem_cons, List.not_mem_nil, or_false] at hx
        rcases hx with rfl | rfl
        · exact WF_finiteset _
        · exact WF_interval _ _ _ _
      · rw [hu.1 q, memAny_iff, ← core q]
        simp only [mem_mkSS, List.mem_cons, List.not_mem_nil, or_false, exists_eq_or_imp, exists_eq_left,
          mem_finiteset, mem_interval]
  · rename_i hemp
    have hemp' : st.container = [] := by
      cases hc : st.container with
      | nil => rfl
      | cons a t => simp [hc] at hemp
    split at h
    · rename_i hflags
      simp only [Bool.and_eq_true, beq_iff_eq] at hflags
      simp only [Except.ok.injEq] at h; subst h
      refine ⟨hwfo, fun q => ?_⟩
      rw [← core q]
      simp [mem, hemp', hflags.1, hflags.2]
    · simp only [Except.ok.injEq] at h; subst h
      refine ⟨WF_interval _ _ _ _, fun q => ?_⟩
      rw [← core q, mem_interval]
      simp [hemp']

end SymVerif.Sets
