import SymVerif.Model.MatExpr
import Mathlib.Algebra.Ring.Rat
import Mathlib.Algebra.BigOperators.Ring.Finset
import Mathlib.Tactic.Ring
import Mathlib.Tactic.Linarith
/-!
Semantics of matrix expressions for C26: Gaussian rationals form a commutative ring, a matrix
value is a triple (rows, columns, entry function), `valOf` gives the value of an expression under
an environment (interpretation of matrix symbols and of dimension symbols) and `okOf` says that
all the sizes inside the expression fit.
-/
namespace SymVerif.MatExpr

namespace GQ

@[ext] theorem ext' {a b : GQ} (h1 : a.re = b.re) (h2 : a.im = b.im) : a = b := by
  cases a; cases b; simp_all

@[simp] theorem add_re (a b : GQ) : (a + b).re = a.re + b.re := rfl
@[simp] theorem add_im (a b : GQ) : (a + b).im = a.im + b.im := rfl
@[simp] theorem mul_re (a b : GQ) : (a * b).re = a.re * b.re - a.im * b.im := rfl
@[simp] theorem mul_im (a b : GQ) : (a * b).im = a.re * b.im + a.im * b.re := rfl
@[simp] theorem neg_re (a : GQ) : (-a).re = -a.re := rfl
@[simp] theorem neg_im (a : GQ) : (-a).im = -a.im := rfl
@[simp] theorem sub_re (a b : GQ) : (a - b).re = a.re - b.re := rfl
@[simp] theorem sub_im (a b : GQ) : (a - b).im = a.im - b.im := rfl
@[simp] theorem zero_re : (0 : GQ).re = 0 := rfl
@[simp] theorem zero_im : (0 : GQ).im = 0 := rfl
@[simp] theorem one_re : (1 : GQ).re = 1 := rfl
@[simp] theorem one_im : (1 : GQ).im = 0 := rfl

instance : CommRing GQ where
  add := (· + ·)
  zero := 0
  neg := Neg.neg
  sub := (· - ·)
  mul := (· * ·)
  one := 1
  nsmul := nsmulRec
  zsmul := zsmulRec
  add_assoc a b c := by ext <;> simp <;> ring
  zero_add a := by ext <;> simp
  add_zero a := by ext <;> simp
  add_comm a b := by ext <;> simp <;> ring
  neg_add_cancel a := by ext <;> simp
  sub_eq_add_neg a b := by ext <;> simp <;> ring
  mul_assoc a b c := by ext <;> simp <;> ring
  one_mul a := by ext <;> simp
  mul_one a := by ext <;> simp
  left_distrib a b c := by ext <;> simp <;> ring
  right_distrib a b c := by ext <;> simp <;> ring
  mul_comm a b := by ext <;> simp <;> ring
  zero_mul a := by ext <;> simp
  mul_zero a := by ext <;> simp

example (a b c : GQ) : (a + b) * c = c * b + a * c := by ring

@[simp] theorem isZero_iff (a : GQ) : a.isZero = true ↔ a = 0 := by
  simp [isZero]
@[simp] theorem isOne_iff (a : GQ) : a.isOne = true ↔ a = 1 := by
  simp [isOne]

end GQ
end SymVerif.MatExpr

namespace SymVerif.MatExpr
open MExpr

/-! ## values -/

/-- a concrete matrix: number of rows, of columns, and the entries (only `f i j` with `i < r`,
    `j < c` matter) -/
structure Val where
  r : Nat
  c : Nat
  f : Nat → Nat → GQ

/-- equality of matrices: same shape, same entries inside the shape -/
def Val.Eqv (a b : Val) : Prop :=
  a.r = b.r ∧ a.c = b.c ∧ ∀ i j, i < a.r → j < a.c → a.f i j = b.f i j

infix:50 " ≃ " => Val.Eqv

theorem Val.Eqv.refl (a : Val) : a ≃ a := ⟨rfl, rfl, fun _ _ _ _ => rfl⟩
theorem Val.Eqv.symm {a b : Val} (h : a ≃ b) : b ≃ a :=
  ⟨h.1.symm, h.2.1.symm, fun i j hi hj => (h.2.2 i j (h.1 ▸ hi) (h.2.1 ▸ hj)).symm⟩
theorem Val.Eqv.trans {a b c : Val} (h1 : a ≃ b) (h2 : b ≃ c) : a ≃ c :=
  ⟨h1.1.trans h2.1, h1.2.1.trans h2.2.1, fun i j hi hj =>
    (h1.2.2 i j hi hj).trans (h2.2.2 i j (h1.1 ▸ hi) (h1.2.1 ▸ hj))⟩

/-- interpretation of matrix symbols and of dimension symbols -/
structure Env where
  mat : String → Val
  dim : String → Nat

def Dim.eval (env : Env) : Dim → Nat
  | .nat n => n
  | .sym s => env.dim s

/-- entrywise sum of a list of matrices (shape of the first) -/
def sumV : List Val → Val
  | [] => ⟨0, 0, fun _ _ => 0⟩
  | v :: vs => ⟨v.r, v.c, fun i j => ((v :: vs).map fun w => w.f i j).sum⟩

/-- entrywise (Hadamard) product of a list of matrices (shape of the first) -/
def hadV : List Val → Val
  | [] => ⟨0, 0, fun _ _ => 0⟩
  | v :: vs => ⟨v.r, v.c, fun i j => ((v :: vs).map fun w => w.f i j).prod⟩

/-- matrix product -/
def mulV (a b : Val) : Val :=
  ⟨a.r, b.c, fun i j => ∑ k ∈ Finset.range a.c, a.f i k * b.f k j⟩

/-- product of a chain of matrices -/
def prodV : List Val → Val
  | [] => ⟨0, 0, fun _ _ => 0⟩
  | [v] => v
  | v :: w :: rest => mulV v (prodV (w :: rest))

def smulV (s : GQ) (a : Val) : Val := ⟨a.r, a.c, fun i j => s * a.f i j⟩
def Val.transpose (a : Val) : Val := ⟨a.c, a.r, fun i j => a.f j i⟩
def Val.conj (a : Val) : Val := ⟨a.r, a.c, fun i j => (a.f i j).conj⟩

/-- all matrices of the list have the same shape -/
def SameDims (vs : List Val) : Prop := ∀ v ∈ vs, ∀ w ∈ vs, v.r = w.r ∧ v.c = w.c

/-- the columns of each matrix are the rows of the next -/
def ChainOk : List Val → Prop
  | [] => True
  | [_] => True
  | v :: w :: rest => v.c = w.r ∧ ChainOk (w :: rest)

mutual
  /-- the value of a matrix expression -/
  def valOf (env : Env) : MExpr → Val
    | ident n => ⟨n.eval env, n.eval env, fun i j => if i = j then 1 else 0⟩
    | zero r c => ⟨r.eval env, c.eval env, fun _ _ => 0⟩
    | diag d => ⟨d.length, d.length, fun i j => if i = j then d.getD i 0 else 0⟩
    | dense r c v => ⟨r, c, fun i j => ent v c i j⟩
    | sym n => env.mat n
    | add ts => sumV (valsOf env ts)
    | had fs => hadV (valsOf env fs)
    | mul s fs => smulV s (prodV (valsOf env fs))
    | transpose e => (valOf env e).transpose
    | conj e => (valOf env e).conj
  def valsOf (env : Env) : List MExpr → List Val
    | [] => []
    | e :: t => valOf env e :: valsOf env t
end

mutual
  /-- all the shapes inside the expression fit (the value is defined) -/
  def okOf (env : Env) : MExpr → Prop
    | ident _ => True
    | zero _ _ => True
    | diag _ => True
    | dense r c v => v.length = r * c
    | sym _ => True
    | add ts => ts ≠ [] ∧ okAll env ts ∧ SameDims (valsOf env ts)
    | had fs => fs ≠ [] ∧ okAll env fs ∧ SameDims (valsOf env fs)
    | mul _ fs => fs ≠ [] ∧ okAll env fs ∧ ChainOk (valsOf env fs)
    | transpose e => okOf env e
    | conj e => okOf env e
  def okAll (env : Env) : List MExpr → Prop
    | [] => True
    | e :: t => okOf env e ∧ okAll env t
end

theorem valsOf_eq_map (env : Env) (l : List MExpr) : valsOf env l = l.map (valOf env) := by
  induction l with
  | nil => simp [valsOf]
  | cons e t ih => simp [valsOf, ih]

theorem okAll_iff (env : Env) (l : List MExpr) : okAll env l ↔ ∀ e ∈ l, okOf env e := by
  induction l with
  | nil => simp [okAll]
  | cons e t ih => simp [okAll, ih]

/-! ## the meaning of the predicates -/

def Val.IsZero (v : Val) : Prop := ∀ i j, i < v.r → j < v.c → v.f i j = 0
def Val.IsSquare (v : Val) : Prop := v.r = v.c
def Val.IsDiagonal (v : Val) : Prop :=
  v.r = v.c ∧ ∀ i j, i < v.r → j < v.c → i ≠ j → v.f i j = 0
def Val.IsSymmetric (v : Val) : Prop :=
  v.r = v.c ∧ ∀ i j, i < v.r → j < v.c → v.f i j = v.f j i
def Val.IsLower (v : Val) : Prop :=
  v.r = v.c ∧ ∀ i j, i < v.r → j < v.c → i < j → v.f i j = 0
def Val.IsUpper (v : Val) : Prop :=
  v.r = v.c ∧ ∀ i j, i < v.r → j < v.c → j < i → v.f i j = 0
def Val.IsReal (v : Val) : Prop := ∀ i j, i < v.r → j < v.c → (v.f i j).im = 0
def Val.IsToeplitz (v : Val) : Prop :=
  ∀ i j, i + 1 < v.r → j + 1 < v.c → v.f i j = v.f (i + 1) (j + 1)

def Val.Holds (p : Pred) (v : Val) : Prop :=
  match p with
  | .zero => v.IsZero
  | .diagonal => v.IsDiagonal
  | .symmetric => v.IsSymmetric
  | .lower => v.IsLower
  | .upper => v.IsUpper
  | .real => v.IsReal
  | .square => v.IsSquare
  | .toeplitz => v.IsToeplitz

/-! ## flat containers -/

theorem flat_idx_lt {r c i j : Nat} (hi : i < r) (hj : j < c) : i * c + j < r * c := by
  have : (i + 1) * c ≤ r * c := Nat.mul_le_mul_right c hi
  have h2 : (i + 1) * c = i * c + c := by ring
  omega

theorem length_mkFlat (r c : Nat) (f : Nat → Nat → GQ) : (mkFlat r c f).length = r * c := by
  induction r with
  | zero => simp [mkFlat]
  | succ n ih =>
    have : mkFlat (n + 1) c f = mkFlat n c f ++ (List.range c).map (fun j => f n j) := by
      simp [mkFlat, List.range_succ, List.flatMap_append]
    rw [this, List.length_append, ih]; simp; ring

theorem mkFlat_succ (n c : Nat) (f : Nat → Nat → GQ) :
    mkFlat (n + 1) c f = mkFlat n c f ++ (List.range c).map (fun j => f n j) := by
  simp [mkFlat, List.range_succ, List.flatMap_append]

theorem ent_mkFlat {r c : Nat} (f : Nat → Nat → GQ) {i j : Nat} (hi : i < r) (hj : j < c) :
    ent (mkFlat r c f) c i j = f i j := by
  induction r with
  | zero => omega
  | succ n ih =>
    rw [mkFlat_succ]
    unfold ent
    by_cases h : i < n
    · have hlt : i * c + j < (mkFlat n c f).length := by
        rw [length_mkFlat]; exact flat_idx_lt h hj
      have := ih h
      unfold ent at this
      rw [List.getD_eq_getElem?_getD, List.getElem?_append_left hlt,
        ← List.getD_eq_getElem?_getD]
      exact this
    · have hin : i = n := by omega
      subst hin
      have hge : (mkFlat i c f).length ≤ i * c + j := by rw [length_mkFlat]; omega
      rw [List.getD_eq_getElem?_getD, List.getElem?_append_right hge, length_mkFlat]
      simp [hj]

end SymVerif.MatExpr
