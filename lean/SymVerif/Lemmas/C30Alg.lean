import Mathlib.Tactic.Ring
import Mathlib.Tactic.FieldSimp
import Mathlib.Tactic.LinearCombination
import Mathlib.Algebra.BigOperators.Group.List.Basic
import Mathlib.Data.Rat.Cast.CharZero
import SymVerif.Model.SolveCert
/-!
C30 — the formal algebra `RP` (ℚ with formal square roots) evaluates homomorphically into every field
`K` of characteristic 0 equipped with a function `sq : ℚ → K` such that `sq r * sq r = r`.
-/
namespace SymVerif.C30
open SymVerif.Solve SymVerif.Solve.RP

set_option linter.unusedSectionVars false
variable {K : Type*} [Field K] [CharZero K]

/-- value of a monomial: the product of the chosen square roots -/
def monoVal (sq : ℚ → K) (m : Mono) : K := (m.map sq).prod
def termVal (sq : ℚ → K) (t : Term) : K := (t.1 : K) * monoVal sq t.2
/-- value of a formal number -/
def ev (sq : ℚ → K) (p : RP) : K := (p.map (termVal sq)).sum

variable (sq : ℚ → K)

@[simp] theorem monoVal_nil : monoVal sq [] = 1 := by simp [monoVal]
@[simp] theorem monoVal_cons (a : ℚ) (m : Mono) : monoVal sq (a :: m) = sq a * monoVal sq m := by
  simp [monoVal]
theorem monoVal_append (m m' : Mono) : monoVal sq (m ++ m') = monoVal sq m * monoVal sq m' := by
  simp [monoVal, List.map_append, List.prod_append]

@[simp] theorem ev_nil : ev sq [] = 0 := by simp [ev]
@[simp] theorem ev_cons (t : Term) (p : RP) : ev sq (t :: p) = termVal sq t + ev sq p := by
  simp [ev]
theorem ev_append (p q : RP) : ev sq (p ++ q) = ev sq p + ev sq q := by
  simp [ev, List.map_append, List.sum_append]

@[simp] theorem ev_ofRat (r : ℚ) : ev sq (ofRat r) = (r : K) := by
  simp [ofRat, termVal]
@[simp] theorem ev_one : ev sq one = 1 := by simp [one]
@[simp] theorem ev_atom (r : ℚ) : ev sq (atom r) = sq r := by
  simp [atom, termVal]
@[simp] theorem ev_add (p q : RP) : ev sq (add p q) = ev sq p + ev sq q := ev_append sq p q

@[simp] theorem ev_neg (p : RP) : ev sq (neg p) = - ev sq p := by
  induction p with
  | nil => simp [neg]
  | cons t p ih =>
    have : neg (t :: p) = (-t.1, t.2) :: neg p := rfl
    rw [this, ev_cons, ev_cons, ih]
    simp [termVal]
    ring

@[simp] theorem ev_sub (p q : RP) : ev sq (sub p q) = ev sq p - ev sq q := by
  simp [sub, sub_eq_add_neg]

theorem ev_scale (c : ℚ) (m : Mono) (q : RP) :
    ev sq (scale c m q) = (c : K) * monoVal sq m * ev sq q := by
  induction q with
  | nil => simp [scale]
  | cons t q ih =>
    have : scale c m (t :: q) = (c * t.1, m ++ t.2) :: scale c m q := rfl
    rw [this, ev_cons, ev_cons, ih]
    simp [termVal, monoVal_append]
    ring

theorem ev_mulRaw (p q : RP) : ev sq (mulRaw p q) = ev sq p * ev sq q := by
  induction p with
  | nil => simp [mulRaw]
  | cons t p ih =>
    have : mulRaw (t :: p) q = scale t.1 t.2 q ++ mulRaw p q := rfl
    rw [this, ev_append, ev_scale, ih, ev_cons]
    simp [termVal]
    ring

section norm
variable (hsq : ∀ r : ℚ, sq r * sq r = (r : K))
include hsq

theorem termVal_insAtom (r c : ℚ) (m : Mono) :
    termVal sq (insAtom r c m) = sq r * ((c : K) * monoVal sq m) := by
  induction m with
  | nil => simp [insAtom, termVal]; ring
  | cons a as ih =>
    unfold insAtom
    split
    · rename_i h
      subst h
      simp only [termVal, monoVal_cons, Rat.cast_mul]
      rw [← hsq r]
      ring
    · split
      · simp only [termVal, monoVal_cons]
        ring
      · simp only [termVal, monoVal_cons] at ih ⊢
        rw [mul_left_comm, ih]
        ring

theorem termVal_foldr_insAtom (m : Mono) (c : ℚ) :
    termVal sq (m.foldr (fun a u => insAtom a u.1 u.2) (c, [])) = (c : K) * monoVal sq m := by
  induction m with
  | nil => simp [termVal]
  | cons a as ih =>
    simp only [List.foldr_cons]
    rw [termVal_insAtom sq hsq]
    have := ih
    simp only [termVal] at this
    rw [this]
    simp only [monoVal_cons]
    ring

theorem termVal_reduceTerm (t : Term) : termVal sq (reduceTerm t) = termVal sq t := by
  unfold reduceTerm
  rw [termVal_foldr_insAtom sq hsq]
  rfl

omit hsq in
theorem ev_addTerm (t : Term) (p : RP) : ev sq (addTerm t p) = termVal sq t + ev sq p := by
  induction p with
  | nil => simp [addTerm]
  | cons u us ih =>
    unfold addTerm
    split
    · rename_i h
      simp only [ev_cons, termVal, Rat.cast_add, h]
      ring
    · split
      · simp only [ev_cons]
      · simp only [ev_cons, ih]
        ring

omit hsq in
theorem ev_filter_ne_zero (p : RP) :
    ev sq (p.filter fun t => decide (t.1 ≠ 0)) = ev sq p := by
  induction p with
  | nil => simp
  | cons t p ih =>
    by_cases h : t.1 = 0
    · have : (t :: p).filter (fun t => decide (t.1 ≠ 0)) = p.filter (fun t => decide (t.1 ≠ 0)) := by
        simp [h]
      rw [this, ih, ev_cons]
      simp [termVal, h]
    · have : (t :: p).filter (fun t => decide (t.1 ≠ 0)) = t :: p.filter (fun t => decide (t.1 ≠ 0)) := by
        simp [h]
      rw [this, ev_cons, ev_cons, ih]

theorem ev_norm_foldr (p : RP) :
    ev sq (p.foldr (fun t acc => addTerm (reduceTerm t) acc) []) = ev sq p := by
  induction p with
  | nil => simp
  | cons t p ih =>
    simp only [List.foldr_cons, ev_cons]
    rw [ev_addTerm, termVal_reduceTerm sq hsq, ih]

theorem ev_norm (p : RP) : ev sq (norm p) = ev sq p := by
  unfold norm
  rw [ev_filter_ne_zero, ev_norm_foldr sq hsq]

theorem ev_mul (p q : RP) : ev sq (mul p q) = ev sq p * ev sq q := by
  unfold mul
  rw [ev_norm sq hsq, ev_mulRaw]

theorem ev_pow (p : RP) (n : ℕ) : ev sq (pow p n) = ev sq p ^ n := by
  induction n with
  | zero => simp [pow]
  | succ n ih =>
    simp only [pow]
    rw [ev_mul sq hsq, ih, pow_succ]
    ring

theorem isZero_sound (p : RP) (h : isZero p = true) : ev sq p = 0 := by
  unfold isZero at h
  rw [← ev_norm sq hsq p]
  have : norm p = [] := List.isEmpty_iff.mp h
  rw [this]
  simp

theorem norm_eq_nil_sound (p : RP) (h : norm p = []) : ev sq p = 0 := by
  rw [← ev_norm sq hsq p, h]
  simp

/-- a verified inverse really is the inverse -/
theorem invQ_sound (p q : RP) (h : inv? p = some q) : ev sq p * ev sq q = 1 := by
  unfold inv? at h
  split at h
  · simp at h
  · rename_i q' _
    split at h
    · rename_i hn
      have hq : q' = q := by simpa using h
      subst hq
      have := norm_eq_nil_sound sq hsq _ hn
      rw [ev_sub, ev_mul sq hsq, ev_one] at this
      exact sub_eq_zero.mp this
    · simp at h

theorem isNonZero_sound (p : RP) (h : isNonZero p = true) : ev sq p ≠ 0 := by
  unfold isNonZero at h
  obtain ⟨q, hq⟩ := Option.isSome_iff_exists.mp h
  have := invQ_sound sq hsq p q hq
  intro h0
  rw [h0, zero_mul] at this
  exact zero_ne_one this

end norm

end SymVerif.C30
