import SymVerif.Lemmas.C22Dict
/-! Dictionary arithmetic of `Model/MPoly.lean` (`+=`, `-=`, unary minus, `mul`, `*=`, `pow`)
against `MvPolynomial ℕ R`, with preservation of the container invariant. -/

open SymVerif.MPoly MvPolynomial

namespace SymVerif.C22
set_option linter.unusedSectionVars false

variable {R : Type} [CommRing R] [DecidableEq R]

theorem canon_tail {n : Nat} {kc : Mono × R} {t : Dict R} (hd : Canon n (kc :: t)) : Canon n t :=
  ⟨fun x hx => hd.len x (List.mem_cons_of_mem _ hx),
   fun x hx => hd.nz x (List.mem_cons_of_mem _ hx), (List.nodup_cons.mp hd.nodup).2⟩

theorem canon_nil (n : Nat) : Canon n ([] : Dict R) :=
  ⟨fun _ h => by simp at h, fun _ h => by simp at h, by simp [keys]⟩

theorem mem_keys_subTerm {d : Dict R} {k k2 : Mono} {c : R} (h : k2 ∈ keys (subTerm d k c)) :
    k2 ∈ keys d ∨ k2 = k := by
  induction d with
  | nil => simpa [subTerm, keys] using h
  | cons kc t ih =>
    obtain ⟨k', c'⟩ := kc
    simp only [subTerm] at h
    by_cases hk : k' = k
    · simp only [hk, if_true] at h
      by_cases hz : c' - c = 0
      · simp only [hz, if_true] at h
        left; simp only [keys, List.map_cons, List.mem_cons]; right; exact h
      · simp only [hz, if_false, keys, List.map_cons, List.mem_cons] at h
        rcases h with h | h
        · right; exact h
        · left; simp only [keys, List.map_cons, List.mem_cons]; right; exact h
    · simp only [hk, if_false, keys, List.map_cons, List.mem_cons] at h
      rcases h with h | h
      · left; simp [keys, h]
      · rcases ih h with h | h
        · left; simp only [keys, List.map_cons, List.mem_cons]; right; exact h
        · right; exact h

theorem canon_subTerm {n : Nat} {d : Dict R} {k : Mono} {c : R} (hd : Canon n d) (hk : k.length = n)
    (hc : c ≠ 0) : Canon n (subTerm d k c) := by
  induction d with
  | nil =>
    refine ⟨?_, ?_, ?_⟩
    · intro kc h; simp only [subTerm, List.mem_singleton] at h; subst h; exact hk
    · intro kc h; simp only [subTerm, List.mem_singleton] at h; subst h; simpa using hc
    · simp [subTerm, keys]
  | cons kc t ih =>
    obtain ⟨k', c'⟩ := kc
    have ht : Canon n t := canon_tail hd
    have hk'notin : k' ∉ keys t := (List.nodup_cons.mp hd.nodup).1
    simp only [subTerm]
    by_cases hkk : k' = k
    · simp only [hkk, if_true]
      by_cases hz : c' - c = 0
      · simp only [hz, if_true]; exact ht
      · simp only [hz, if_false]
        refine ⟨?_, ?_, ?_⟩
        · intro x hx
          rcases List.mem_cons.mp hx with hx | hx
          · subst hx; exact hk
          · exact ht.len x hx
        · intro x hx
          rcases List.mem_cons.mp hx with hx | hx
          · subst hx; exact hz
          · exact ht.nz x hx
        · simp only [keys, List.map_cons, List.nodup_cons]
          exact ⟨hkk ▸ hk'notin, ht.nodup⟩
    · simp only [hkk, if_false]
      have ih' := ih ht
      refine ⟨?_, ?_, ?_⟩
      · intro x hx
        rcases List.mem_cons.mp hx with hx | hx
        · subst hx; exact hd.len _ (List.mem_cons_self ..)
        · exact ih'.len x hx
      · intro x hx
        rcases List.mem_cons.mp hx with hx | hx
        · subst hx; exact hd.nz _ (List.mem_cons_self ..)
        · exact ih'.nz x hx
      · simp only [keys, List.map_cons, List.nodup_cons]
        refine ⟨?_, ih'.nodup⟩
        intro hmem
        rcases mem_keys_subTerm hmem with h | h
        · exact hk'notin h
        · exact hkk h

theorem addDict_spec (vars : List Var) {n : Nat} (x y : Dict R) (hx : Canon n x) (hy : Canon n y) :
    Canon n (addDict x y) ∧ dictMv vars (addDict x y) = dictMv vars x + dictMv vars y := by
  unfold addDict
  induction y generalizing x with
  | nil => simpa using hx
  | cons kc t ih =>
    simp only [List.foldl_cons]
    have h1 : Canon n (addTerm x kc.1 kc.2) :=
      canon_addTerm hx (hy.len kc (List.mem_cons_self ..)) (hy.nz kc (List.mem_cons_self ..))
    obtain ⟨hc, hs⟩ := ih (addTerm x kc.1 kc.2) h1 (canon_tail hy)
    refine ⟨hc, ?_⟩
    rw [hs, dictMv_addTerm, dictMv_cons]; abel

theorem subDict_spec (vars : List Var) {n : Nat} (x y : Dict R) (hx : Canon n x) (hy : Canon n y) :
    Canon n (subDict x y) ∧ dictMv vars (subDict x y) = dictMv vars x - dictMv vars y := by
  unfold subDict
  induction y generalizing x with
  | nil => simpa using hx
  | cons kc t ih =>
    simp only [List.foldl_cons]
    have h1 : Canon n (subTerm x kc.1 kc.2) :=
      canon_subTerm hx (hy.len kc (List.mem_cons_self ..)) (hy.nz kc (List.mem_cons_self ..))
    obtain ⟨hc, hs⟩ := ih (subTerm x kc.1 kc.2) h1 (canon_tail hy)
    refine ⟨hc, ?_⟩
    rw [hs, dictMv_subTerm, dictMv_cons]; abel

theorem keys_negDict (x : Dict R) : keys (negDict x) = keys x := by
  simp [keys, negDict, List.map_map, Function.comp_def]

theorem negDict_spec (vars : List Var) {n : Nat} (x : Dict R) (hx : Canon n x) :
    Canon n (negDict x) ∧ dictMv vars (negDict x) = - dictMv vars x := by
  refine ⟨⟨?_, ?_, ?_⟩, ?_⟩
  · intro kc h
    simp only [negDict, List.mem_map] at h
    obtain ⟨a, ha, rfl⟩ := h
    exact hx.len a ha
  · intro kc h
    simp only [negDict, List.mem_map] at h
    obtain ⟨a, ha, rfl⟩ := h
    simpa using hx.nz a ha
  · rw [keys_negDict]; exact hx.nodup
  · clear hx
    induction x with
    | nil => simp [negDict]
    | cons kc t ih =>
      simp only [negDict, List.map_cons, dictMv_cons, map_neg] at ih ⊢
      rw [ih]; abel

/-! ### multiplication -/

theorem dictMv_accTerm (vars : List Var) (d : Dict R) (k : Mono) (c : R) :
    dictMv vars (accTerm d k c) = dictMv vars d + monomial (monoOf vars k) c := by
  induction d with
  | nil => simp [accTerm]
  | cons kc t ih =>
    obtain ⟨k', c'⟩ := kc
    simp only [accTerm]
    by_cases hk : k' = k
    · subst hk
      simp only [if_true, dictMv_cons, map_add]
      abel
    · simp only [hk, if_false, dictMv_cons, ih]
      abel

theorem keys_accTerm (d : Dict R) (k : Mono) (c : R) :
    keys (accTerm d k c) = if k ∈ keys d then keys d else keys d ++ [k] := by
  induction d with
  | nil => simp [accTerm, keys]
  | cons kc t ih =>
    obtain ⟨k', c'⟩ := kc
    simp only [accTerm]
    by_cases hk : k' = k
    · simp [hk, keys]
    · have hk2 : ¬ k = k' := fun e => hk e.symm
      simp only [hk, if_false]
      simp only [keys, List.map_cons, List.mem_cons, hk2, false_or] at ih ⊢
      rw [ih]
      by_cases hm : k ∈ List.map Prod.fst t <;> simp [hm]

/-- lengths right and keys distinct (zeros allowed): the state of `p` inside `mul` -/
def KeysOk (n : Nat) (d : Dict R) : Prop := LenOk n d ∧ (keys d).Nodup

theorem keysOk_accTerm {n : Nat} {d : Dict R} {k : Mono} {c : R} (hd : KeysOk n d) (hk : k.length = n) :
    KeysOk n (accTerm d k c) := by
  constructor
  · intro kc h
    have hm : kc.1 ∈ keys (accTerm d k c) := List.mem_map_of_mem (f := Prod.fst) h
    rw [keys_accTerm] at hm
    have hlen : ∀ k2 ∈ keys d, k2.length = n := by
      intro k2 h2
      obtain ⟨a, ha, rfl⟩ := List.mem_map.mp h2
      exact hd.1 a ha
    split at hm
    · exact hlen _ hm
    · rcases List.mem_append.mp hm with h | h
      · exact hlen _ h
      · simp only [List.mem_singleton] at h; rw [h]; exact hk
  · rw [keys_accTerm]
    split
    · exact hd.2
    · rename_i hnot
      refine List.Nodup.append hd.2 (by simp) ?_
      intro a ha hb
      simp only [List.mem_singleton] at hb
      exact hnot (hb ▸ ha)

theorem mulRow_spec (vars : List Var) {n : Nat} (ka : Mono) (ca : R) (b acc : Dict R)
    (hka : ka.length = n) (hb : LenOk n b) (hacc : KeysOk n acc) :
    ∃ r, mulRow n ka ca b acc = .ok r ∧ KeysOk n r ∧
      dictMv vars r = dictMv vars acc + monomial (monoOf vars ka) ca * dictMv vars b := by
  induction b generalizing acc with
  | nil => exact ⟨acc, rfl, hacc, by simp⟩
  | cons kc t ih =>
    obtain ⟨kb, cb⟩ := kc
    have hkb : kb.length = n := hb (kb, cb) (List.mem_cons_self ..)
    have hav : addVec n ka kb = .ok (List.zipWith (· + ·) ka kb) := by simp [addVec, hka, hkb]
    have hlen : (List.zipWith (· + ·) ka kb).length = n := by simp [hka, hkb]
    obtain ⟨r, hr, hk, hs⟩ := ih (accTerm acc (List.zipWith (· + ·) ka kb) (ca * cb))
      (fun x hx => hb x (List.mem_cons_of_mem _ hx)) (keysOk_accTerm hacc hlen)
    refine ⟨r, ?_, hk, ?_⟩
    · simp only [mulRow, hav]; exact hr
    · rw [hs, dictMv_accTerm, monoOf_zipWith_add vars ka kb (hka.trans hkb.symm), dictMv_cons, mul_add,
        monomial_mul]
      abel

theorem mulRows_spec (vars : List Var) {n : Nat} (a b acc : Dict R)
    (ha : LenOk n a) (hb : LenOk n b) (hacc : KeysOk n acc) :
    ∃ r, mulRows n a b acc = .ok r ∧ KeysOk n r ∧
      dictMv vars r = dictMv vars acc + dictMv vars a * dictMv vars b := by
  induction a generalizing acc with
  | nil => exact ⟨acc, rfl, hacc, by simp⟩
  | cons kc t ih =>
    obtain ⟨ka, ca⟩ := kc
    obtain ⟨r1, hr1, hk1, hs1⟩ := mulRow_spec vars ka ca b acc (ha (ka, ca) (List.mem_cons_self ..)) hb hacc
    obtain ⟨r, hr, hk, hs⟩ := ih r1 (fun x hx => ha x (List.mem_cons_of_mem _ hx)) hk1
    refine ⟨r, ?_, hk, ?_⟩
    · simp only [mulRows, hr1]; exact hr
    · rw [hs, hs1, dictMv_cons, add_mul]; abel

/-- `UDictWrapper::mul` -/
theorem mulRaw_spec (vars : List Var) {n : Nat} (a b : Dict R) (ha : LenOk n a) (hb : LenOk n b) :
    ∃ r, mulRaw n a b = .ok r ∧ Canon n r ∧ dictMv vars r = dictMv vars a * dictMv vars b := by
  obtain ⟨r, hr, hk, hs⟩ := mulRows_spec vars a b [] ha hb ⟨fun _ h => by simp at h, by simp [keys]⟩
  refine ⟨stripZeros r, ?_, canon_stripZeros hk.1 hk.2, ?_⟩
  · simp only [mulRaw, hr]
  · rw [dictMv_stripZeros, hs]; simp

theorem find?_singleton {k z : Mono} {c c' : R} (h : find? [(k, c')] z = some c) : k = z ∧ c' = c := by
  simp only [find?] at h
  by_cases hk : k = z
  · simp only [hk, if_true, Option.some.injEq] at h; exact ⟨hk, h⟩
  · simp [hk] at h

/-- `operator*=` with its shortcuts -/
theorem mulDict_spec [NoZeroDivisors R] (vars : List Var) {n : Nat} (x y : Dict R)
    (hx : Canon n x) (hy : Canon n y) :
    ∃ r, mulDict n x y = .ok r ∧ Canon n r ∧ dictMv vars r = dictMv vars x * dictMv vars y := by
  unfold mulDict
  by_cases h1 : x.isEmpty
  · have : x = [] := List.isEmpty_iff.mp h1
    subst this
    exact ⟨[], by simp, canon_nil n, by simp⟩
  by_cases h2 : y.isEmpty
  · have : y = [] := List.isEmpty_iff.mp h2
    subst this
    exact ⟨[], by simp [h1], canon_nil n, by simp⟩
  simp only [h1, h2, Bool.false_eq_true, if_false]
  have hraw := mulRaw_spec vars x y hx.len hy.len
  split
  · rename_i kc c hfind
    obtain ⟨k, c'⟩ := kc
    obtain ⟨hk, hc⟩ := find?_singleton hfind
    subst hk hc
    have hc0 : c' ≠ 0 := hy.nz (_, c') (List.mem_cons_self ..)
    refine ⟨_, rfl, ⟨?_, ?_, ?_⟩, ?_⟩
    · intro kc h
      obtain ⟨a, ha, rfl⟩ := List.mem_map.mp h
      exact hx.len a ha
    · intro kc h
      obtain ⟨a, ha, rfl⟩ := List.mem_map.mp h
      exact mul_ne_zero (hx.nz a ha) hc0
    · have : keys (x.map (fun kc => (kc.1, kc.2 * c'))) = keys x := by
        simp [keys, List.map_map, Function.comp_def]
      rw [this]; exact hx.nodup
    · simp only [dictMv_cons, dictMv_nil, add_zero, monoOf_replicate_zero]
      clear hx h1 hraw
      induction x with
      | nil => simp
      | cons a t ih =>
        simp only [List.map_cons, dictMv_cons, ih, add_mul, monomial_mul, add_zero]
  · exact hraw

/-! ### powers -/

theorem powLoop_spec (vars : List Var) {n : Nat} (p : Nat) (tmp res : Dict R) (hp : 1 ≤ p)
    (ht : LenOk n tmp) (hr : LenOk n res) :
    ∃ r, powLoop n tmp res p = .ok r ∧ Canon n r ∧
      dictMv vars r = dictMv vars res * dictMv vars tmp ^ p := by
  induction p using Nat.strong_induction_on generalizing tmp res with
  | _ p ih =>
    rw [powLoop]
    by_cases h1 : p ≤ 1
    · have : p = 1 := by omega
      subst this
      simp only [le_refl, dite_true]
      obtain ⟨r, h, hc, hs⟩ := mulRaw_spec vars res tmp hr ht
      exact ⟨r, h, hc, by rw [hs, pow_one]⟩
    · simp only [h1, dite_false]
      obtain ⟨t2, ht2, hc2, hs2⟩ := mulRaw_spec vars tmp tmp ht ht
      simp only [ht2]
      by_cases hev : p % 2 = 0
      · simp only [hev, if_true]
        obtain ⟨r, h, hc, hs⟩ := ih (p / 2) (by omega) t2 res (by omega) hc2.len hr
        refine ⟨r, h, hc, ?_⟩
        rw [hs, hs2, ← pow_two, ← pow_mul]
        congr 2; omega
      · simp only [hev, if_false]
        obtain ⟨r2, hr2, hcr2, hsr2⟩ := mulRaw_spec vars res tmp hr ht
        simp only [hr2]
        obtain ⟨r, h, hc, hs⟩ := ih (p / 2) (by omega) t2 r2 (by omega) hc2.len hcr2.len
        refine ⟨r, h, hc, ?_⟩
        rw [hs, hs2, hsr2, ← pow_two, ← pow_mul, mul_assoc, ← pow_succ']
        congr 2; omega

theorem powDict_spec [Nontrivial R] (vars : List Var) {n : Nat} (a : Dict R) (p : Nat) (ha : LenOk n a) :
    ∃ r, powDict n a p = .ok r ∧ Canon n r ∧ dictMv vars r = dictMv vars a ^ p := by
  unfold powDict
  have hres : LenOk n ([(List.replicate n 0, 1)] : Dict R) := by
    intro kc h; simp only [List.mem_singleton] at h; subst h; simp
  by_cases hp : p = 0
  · subst hp
    refine ⟨_, by simp, ⟨hres, ?_, by simp [keys]⟩, ?_⟩
    · intro kc h; simp only [List.mem_singleton] at h; subst h; simp
    · simp [monoOf_replicate_zero]
  · simp only [hp, if_false]
    obtain ⟨r, h, hc, hs⟩ := powLoop_spec vars p a _ (by omega) ha hres
    refine ⟨r, h, hc, ?_⟩
    rw [hs]; simp [monoOf_replicate_zero]

end SymVerif.C22
