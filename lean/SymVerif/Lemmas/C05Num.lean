import SymVerif.Lemmas.C05Q
import Mathlib.Data.Complex.Basic
/-!
Value semantics of the exact number kinds (`Integer`, `Rational`, `Complex`) as Gaussian rationals
inside `ℂ`, the normal-form predicate, and the two constructor lemmas (`Rational::from_mpq`,
`Complex::from_mpq` return a normalised number with the given value).
-/
namespace SymVerif.C05
open SymVerif.Num

set_option linter.unusedSimpArgs false
set_option linter.unusedSectionVars false
set_option linter.unusedVariables false

variable {F : Type} [FloatOps F]

/-- the complex number `re + im·i` of two `mpq`s -/
noncomputable def gv (re im : Q) : ℂ := ⟨((re.toRat : ℚ) : ℝ), ((im.toRat : ℚ) : ℝ)⟩

/-- the mathematical value of an exact number (none for floats, infinities, nan) -/
noncomputable def val : Num F → Option ℂ
  | .int n => some (gv (.ofInt n) (.ofInt 0))
  | .rat q => some (gv q (.ofInt 0))
  | .cplx re im => some (gv re im)
  | _ => none

theorem gv_ofInt (n : Int) : gv (.ofInt n) (.ofInt 0) = (n : ℂ) := by
  apply Complex.ext <;> simp [gv]

theorem val_int (n : Int) : val (F := F) (.int n) = some (n : ℂ) := by
  simp [val, gv_ofInt]

theorem val_rat (q : Q) : val (F := F) (.rat q) = some ((q.toRat : ℚ) : ℂ) := by
  simp only [val]; congr 1; apply Complex.ext <;> simp [gv]

theorem gv_re (re im : Q) : (gv re im).re = ((re.toRat : ℚ) : ℝ) := rfl
theorem gv_im (re im : Q) : (gv re im).im = ((im.toRat : ℚ) : ℝ) := rfl

/-- normal form: rationals in lowest terms with positive denominator `≠ 1`; complex numbers with
canonical parts and nonzero imaginary part (this is `Num.normalised` of the model) -/
def Normalised (a : Num F) : Prop := a.normalised = true
def Exact (a : Num F) : Prop := a.isExact = true

theorem normalised_rat {q : Q} : Normalised (F := F) (.rat q) ↔ q.Canon ∧ q.den ≠ 1 := by
  simp [Normalised, Num.normalised, Q.canon_iff]

theorem normalised_cplx {re im : Q} :
    Normalised (F := F) (.cplx re im) ↔ re.Canon ∧ im.Canon ∧ im.num ≠ 0 := by
  simp [Normalised, Num.normalised, Q.canon_iff, and_assoc]

/-- `r` is an exact, normalised number whose value is `z` -/
structure Good (r : Num F) (z : ℂ) : Prop where
  exact : Exact r
  normal : Normalised r
  value : val r = some z

theorem fromMpq_good {q : Q} (h : q.Canon) {z : ℂ} (hz : z = gv q (.ofInt 0)) :
    Good (F := F) (fromMpq q) z := by
  subst hz
  unfold fromMpq
  split
  · next h1 =>
    have h1 : q.den = 1 := by simpa using h1
    refine ⟨rfl, rfl, ?_⟩
    simp only [val]; congr 1
    apply Complex.ext <;> simp [gv, Q.toRat, Q.ofInt, h1]
  · next h1 =>
    have h1 : q.den ≠ 1 := by simpa using h1
    exact ⟨rfl, normalised_rat.mpr ⟨h, h1⟩, rfl⟩

theorem cFromMpq_good {re im : Q} (hre : re.Canon) (him : im.Canon) {z : ℂ} (hz : z = gv re im) :
    Good (F := F) (cFromMpq re im) z := by
  subst hz
  unfold cFromMpq
  split
  · next h0 =>
    have h0 : im.num = 0 := by simpa using h0
    apply fromMpq_good hre
    apply Complex.ext <;> simp [gv, Q.toRat, h0, Q.ofInt]
  · next h0 =>
    have h0 : im.num ≠ 0 := by simpa using h0
    exact ⟨rfl, normalised_cplx.mpr ⟨hre, him, h0⟩, rfl⟩

/-- an exact normalised number is given by two canonical `mpq`s -/
theorem exact_parts {a : Num F} (he : Exact a) (hn : Normalised a) :
    ∃ re im : Q, re.Canon ∧ im.Canon ∧ val a = some (gv re im) := by
  cases a with
  | int n => exact ⟨.ofInt n, .ofInt 0, Q.Canon.ofInt _, Q.Canon.ofInt _, rfl⟩
  | rat q => exact ⟨q, .ofInt 0, (normalised_rat.mp hn).1, Q.Canon.ofInt _, rfl⟩
  | cplx re im =>
    obtain ⟨h1, h2, _⟩ := normalised_cplx.mp hn
    exact ⟨re, im, h1, h2, rfl⟩
  | _ => simp [Exact, Num.isExact] at he

/-- real and imaginary part of an exact number as `mpq`s -/
def parts : Num F → Q × Q
  | .int n => (.ofInt n, .ofInt 0)
  | .rat q => (q, .ofInt 0)
  | .cplx re im => (re, im)
  | _ => (.ofInt 0, .ofInt 0)

theorem parts_canon {a : Num F} (he : Exact a) (hn : Normalised a) :
    (parts a).1.Canon ∧ (parts a).2.Canon := by
  cases a with
  | int n => exact ⟨Q.Canon.ofInt _, Q.Canon.ofInt _⟩
  | rat q => exact ⟨(normalised_rat.mp hn).1, Q.Canon.ofInt _⟩
  | cplx re im => exact ⟨(normalised_cplx.mp hn).1, (normalised_cplx.mp hn).2.1⟩
  | _ => simp [Exact, Num.isExact] at he

theorem rat_num_ne_zero {q : Q} (hn : Normalised (F := F) (.rat q)) : q.num ≠ 0 :=
  Q.canon_num_ne_zero (normalised_rat.mp hn).1 (normalised_rat.mp hn).2

/-- the value determines a normalised exact number: normal forms are unique -/
theorem val_injective {a b : Num F} (ha : Exact a) (hb : Exact b) (na : Normalised a)
    (nb : Normalised b) (h : val a = val b) : a = b := by
  have key : ∀ {r1 i1 r2 i2 : Q}, r1.Canon → i1.Canon → r2.Canon → i2.Canon →
      gv r1 i1 = gv r2 i2 → r1 = r2 ∧ i1 = i2 := by
    intro r1 i1 r2 i2 h1 h2 h3 h4 hg
    have hre := congrArg Complex.re hg
    have him := congrArg Complex.im hg
    simp only [gv] at hre him
    exact ⟨Q.canon_ext h1 h3 (by exact_mod_cast hre), Q.canon_ext h2 h4 (by exact_mod_cast him)⟩
  have c0 := Q.Canon.ofInt 0
  cases a <;> cases b <;> simp only [Exact, Num.isExact, Bool.false_eq_true] at ha hb
  all_goals simp only [val, Option.some.injEq] at h
  · rename_i n m
    have := (key (Q.Canon.ofInt n) c0 (Q.Canon.ofInt m) c0 h).1
    simp only [Q.ofInt, Q.mk.injEq, and_true] at this; rw [this]
  · rename_i n q
    obtain ⟨hc, hd⟩ := normalised_rat.mp nb
    have := (key (Q.Canon.ofInt n) c0 hc c0 h).1
    rw [← this] at hd; simp [Q.ofInt] at hd
  · rename_i n re im
    obtain ⟨h1, h2, h3⟩ := normalised_cplx.mp nb
    have := (key (Q.Canon.ofInt n) c0 h1 h2 h).2
    rw [← this] at h3; simp [Q.ofInt] at h3
  · rename_i q n
    obtain ⟨hc, hd⟩ := normalised_rat.mp na
    have := (key hc c0 (Q.Canon.ofInt n) c0 h).1
    rw [this] at hd; simp [Q.ofInt] at hd
  · rename_i q p
    have := (key (normalised_rat.mp na).1 c0 (normalised_rat.mp nb).1 c0 h).1
    rw [this]
  · rename_i q re im
    obtain ⟨h1, h2, h3⟩ := normalised_cplx.mp nb
    have := (key (normalised_rat.mp na).1 c0 h1 h2 h).2
    rw [← this] at h3; simp [Q.ofInt] at h3
  · rename_i re im n
    obtain ⟨h1, h2, h3⟩ := normalised_cplx.mp na
    have := (key h1 h2 (Q.Canon.ofInt n) c0 h).2
    rw [this] at h3; simp [Q.ofInt] at h3
  · rename_i re im q
    obtain ⟨h1, h2, h3⟩ := normalised_cplx.mp na
    have := (key h1 h2 (normalised_rat.mp nb).1 c0 h).2
    rw [this] at h3; simp [Q.ofInt] at h3
  · rename_i re im re' im'
    obtain ⟨h1, h2, _⟩ := normalised_cplx.mp na
    obtain ⟨h3, h4, _⟩ := normalised_cplx.mp nb
    obtain ⟨e1, e2⟩ := key h1 h2 h3 h4 h
    rw [e1, e2]

end SymVerif.C05
