import SymVerif.Model.Surd
import Mathlib.Analysis.SpecialFunctions.Pow.Real
import Mathlib.Analysis.SpecialFunctions.Sqrt
import Mathlib.Tactic.Ring
import Mathlib.Tactic.FieldSimp
import Mathlib.Tactic.Linarith
import Mathlib.Tactic.NormNum
/-!
C08: real semantics of the recipe language and of the exact arithmetic in Q(√2, √3);
`Recipe.evalS_sound`: whatever the executable evaluator prints is the real value of the recipe.
-/
namespace SymVerif.Funcs
open Real

noncomputable section

/-- the real number a recipe denotes (`pow` with a real exponent, total like Mathlib's `rpow`) -/
def Recipe.evalR : Recipe → ℝ
  | .int n => (n : ℝ)
  | .add a b => a.evalR + b.evalR
  | .sub a b => a.evalR - b.evalR
  | .mul a b => a.evalR * b.evalR
  | .div a b => a.evalR / b.evalR
  | .pow a b => a.evalR ^ b.evalR
  | .sqrt a => Real.sqrt a.evalR

def Surd.toReal (s : Surd) : ℝ := (s.a : ℝ) + s.b * √2 + s.c * √3 + s.d * √6

end

theorem sqrt2_sq : (√2 : ℝ) * √2 = 2 := Real.mul_self_sqrt (by norm_num)
theorem sqrt3_sq : (√3 : ℝ) * √3 = 3 := Real.mul_self_sqrt (by norm_num)
theorem sqrt6_eq : (√6 : ℝ) = √2 * √3 := by
  rw [← Real.sqrt_mul (by norm_num : (0:ℝ) ≤ 2)]; norm_num

namespace Surd

@[simp] theorem toReal_ofRat (q : Rat) : (ofRat q).toReal = (q : ℝ) := by
  simp [toReal, ofRat]

theorem toReal_add (x y : Surd) : (add x y).toReal = x.toReal + y.toReal := by
  simp only [toReal, add]; push_cast; ring

theorem toReal_sub (x y : Surd) : (sub x y).toReal = x.toReal - y.toReal := by
  simp only [toReal, sub]; push_cast; ring

theorem toReal_neg (x : Surd) : (neg x).toReal = -x.toReal := by
  simp only [toReal, neg]; push_cast; ring

theorem toReal_smul (q : Rat) (x : Surd) : (smul q x).toReal = (q : ℝ) * x.toReal := by
  simp only [toReal, smul]; push_cast; ring

theorem toReal_mul (x y : Surd) : (mul x y).toReal = x.toReal * y.toReal := by
  simp only [toReal, mul, sqrt6_eq]; push_cast
  have h2 := sqrt2_sq
  have h3 := sqrt3_sq
  generalize (√2 : ℝ) = u at *
  generalize (√3 : ℝ) = v at *
  have e2 : u ^ 2 = 2 := by rw [pow_two]; exact h2
  have e3 : v ^ 2 = 3 := by rw [pow_two]; exact h3
  ring_nf
  rw [e2, e3]
  ring

theorem toReal_one : one.toReal = 1 := by simp [one]

theorem toReal_npow (x : Surd) (n : Nat) : (npow x n).toReal = x.toReal ^ n := by
  induction n with
  | zero => simp [npow, toReal_one]
  | succ n ih => simp [npow, toReal_mul, ih, pow_succ]

theorem inv?_sound {x y : Surd} (h : inv? x = some y) : x.toReal * y.toReal = 1 := by
  unfold inv? at h
  simp only at h
  split at h
  · cases h
  · rename_i hn
    cases h
    rw [toReal_smul, toReal_mul]
    -- x * conj3 x = n3 (coordinates c, d vanish); n3 * conj2 n3 = n
    set n3 := mul x (conj3 x) with hn3
    have hc : n3.c = 0 := by simp [hn3, mul, conj3]; ring
    have hd : n3.d = 0 := by simp [hn3, mul, conj3]; ring
    have h1 : x.toReal * (conj3 x).toReal = n3.toReal := by rw [hn3, toReal_mul]
    have h2 : n3.toReal * (conj2 n3).toReal = ((n3.a * n3.a - 2 * (n3.b * n3.b) : Rat) : ℝ) := by
      simp only [toReal, conj2, hc, hd]; push_cast
      have := sqrt2_sq
      generalize (√2 : ℝ) = u at *
      have e2 : u ^ 2 = 2 := by rw [pow_two]; exact this
      linear_combination (-((n3.b : ℝ)) ^ 2) * e2
    have hne : ((n3.a * n3.a - 2 * (n3.b * n3.b) : Rat) : ℝ) ≠ 0 := by
      exact_mod_cast hn
    calc x.toReal * (((1 / (n3.a * n3.a - 2 * (n3.b * n3.b)) : Rat) : ℝ) * ((conj3 x).toReal * (conj2 n3).toReal))
        = ((1 / (n3.a * n3.a - 2 * (n3.b * n3.b)) : Rat) : ℝ) * ((x.toReal * (conj3 x).toReal) * (conj2 n3).toReal) := by ring
      _ = ((1 / (n3.a * n3.a - 2 * (n3.b * n3.b)) : Rat) : ℝ) * ((n3.a * n3.a - 2 * (n3.b * n3.b) : Rat) : ℝ) := by rw [h1, h2]
      _ = 1 := by
        rw [one_div, Rat.cast_inv]
        exact inv_mul_cancel₀ hne

theorem div?_sound {x y z : Surd} (h : div? x y = some z) : z.toReal = x.toReal / y.toReal := by
  unfold div? at h
  cases hi : inv? y with
  | none => simp [hi] at h
  | some yi =>
    simp [hi] at h
    subst h
    have := inv?_sound hi
    have hy : y.toReal ≠ 0 := by
      intro h0; rw [h0] at this; simp at this
    rw [toReal_mul, eq_div_iff hy, mul_assoc, mul_comm yi.toReal, this, mul_one]

theorem isRat_toReal {x : Surd} (h : x.isRat = true) : x.toReal = (x.a : ℝ) := by
  simp only [isRat, Bool.and_eq_true, beq_iff_eq] at h
  obtain ⟨⟨hb, hc⟩, hd⟩ := h
  simp [toReal, hb, hc, hd]

theorem ratSqrt?_sound {q s : Rat} (h : ratSqrt? q = some s) : Real.sqrt (q : ℝ) = (s : ℝ) := by
  unfold ratSqrt? at h
  split at h
  · cases h
  · rename_i hq
    simp only at h
    split at h
    · rename_i hc
      cases h
      simp only [Bool.and_eq_true, beq_iff_eq, bne_iff_ne, ne_eq] at hc
      obtain ⟨⟨hn, hd⟩, hd0⟩ := hc
      have hq0 : 0 ≤ q := not_lt.mp hq
      have hnum : 0 ≤ q.num := Rat.num_nonneg.mpr hq0
      have hqv : (q : ℝ) = ((q.num.toNat : ℕ) : ℝ) / (q.den : ℝ) := by
        have : ((q.num.toNat : ℕ) : ℤ) = q.num := Int.toNat_of_nonneg hnum
        have h2 : (q : ℝ) = (q.num : ℝ) / (q.den : ℝ) := by
          exact_mod_cast (Rat.num_div_den q).symm
        rw [h2]
        congr 1
        exact_mod_cast this.symm
      have hs : ((mkRat (Nat.sqrt q.num.toNat) (Nat.sqrt q.den) : Rat) : ℝ)
          = ((Nat.sqrt q.num.toNat : ℕ) : ℝ) / ((Nat.sqrt q.den : ℕ) : ℝ) := by
        rw [Rat.mkRat_eq_div]; push_cast; rfl
      rw [hs, hqv]
      have hdpos : (0 : ℝ) < ((Nat.sqrt q.den : ℕ) : ℝ) := by
        have : 0 < Nat.sqrt q.den := Nat.pos_of_ne_zero hd0
        exact_mod_cast this
      have e1 : ((q.num.toNat : ℕ) : ℝ) = ((Nat.sqrt q.num.toNat : ℕ) : ℝ) * ((Nat.sqrt q.num.toNat : ℕ) : ℝ) := by
        exact_mod_cast hn.symm
      have e2 : ((q.den : ℕ) : ℝ) = ((Nat.sqrt q.den : ℕ) : ℝ) * ((Nat.sqrt q.den : ℕ) : ℝ) := by
        exact_mod_cast hd.symm
      rw [e1, e2]
      rw [show ((Nat.sqrt q.num.toNat : ℕ) : ℝ) * ((Nat.sqrt q.num.toNat : ℕ) : ℝ)
            / (((Nat.sqrt q.den : ℕ) : ℝ) * ((Nat.sqrt q.den : ℕ) : ℝ))
          = (((Nat.sqrt q.num.toNat : ℕ) : ℝ) / ((Nat.sqrt q.den : ℕ) : ℝ)) * (((Nat.sqrt q.num.toNat : ℕ) : ℝ) / ((Nat.sqrt q.den : ℕ) : ℝ)) by
        field_simp]
      exact Real.sqrt_mul_self (by positivity)
    · cases h

theorem sqrtRat?_sound {q : Rat} {s : Surd} (h : sqrtRat? q = some s) : s.toReal = Real.sqrt (q : ℝ) := by
  unfold sqrtRat? at h
  split at h
  · rename_i r hr
    cases h
    simp [toReal, ratSqrt?_sound hr]
  · split at h
    · rename_i r hr
      cases h
      have := ratSqrt?_sound hr
      have hq : (q : ℝ) = ((q / 2 : Rat) : ℝ) * 2 := by push_cast; ring
      rw [hq, Real.sqrt_mul' _ (by norm_num : (0:ℝ) ≤ 2), this]
      simp [toReal]
    · split at h
      · rename_i r hr
        cases h
        have := ratSqrt?_sound hr
        have hq : (q : ℝ) = ((q / 3 : Rat) : ℝ) * 3 := by push_cast; ring
        rw [hq, Real.sqrt_mul' _ (by norm_num : (0:ℝ) ≤ 3), this]
        simp [toReal]
      · split at h
        · rename_i r hr
          cases h
          have := ratSqrt?_sound hr
          have hq : (q : ℝ) = ((q / 6 : Rat) : ℝ) * 6 := by push_cast; ring
          rw [hq, Real.sqrt_mul' _ (by norm_num : (0:ℝ) ≤ 6), this]
          simp [toReal]
        · cases h

end Surd

theorem Recipe.evalS_sound : ∀ (r : Recipe) (s : Surd), r.evalS = some s → s.toReal = r.evalR
  | .int n, s, h => by
    simp [Recipe.evalS] at h; subst h; simp [Recipe.evalR]
  | .add a b, s, h => by
    simp only [Recipe.evalS, Option.bind_eq_bind, Option.bind_eq_some_iff] at h
    obtain ⟨x, hx, y, hy, hs⟩ := h
    simp at hs; subst hs
    rw [Surd.toReal_add, Recipe.evalS_sound a x hx, Recipe.evalS_sound b y hy]; rfl
  | .sub a b, s, h => by
    simp only [Recipe.evalS, Option.bind_eq_bind, Option.bind_eq_some_iff] at h
    obtain ⟨x, hx, y, hy, hs⟩ := h
    simp at hs; subst hs
    rw [Surd.toReal_sub, Recipe.evalS_sound a x hx, Recipe.evalS_sound b y hy]; rfl
  | .mul a b, s, h => by
    simp only [Recipe.evalS, Option.bind_eq_bind, Option.bind_eq_some_iff] at h
    obtain ⟨x, hx, y, hy, hs⟩ := h
    simp at hs; subst hs
    rw [Surd.toReal_mul, Recipe.evalS_sound a x hx, Recipe.evalS_sound b y hy]; rfl
  | .div a b, s, h => by
    simp only [Recipe.evalS, Option.bind_eq_bind, Option.bind_eq_some_iff] at h
    obtain ⟨x, hx, y, hy, hs⟩ := h
    rw [Surd.div?_sound hs, Recipe.evalS_sound a x hx, Recipe.evalS_sound b y hy]; rfl
  | .pow a b, s, h => by
    simp only [Recipe.evalS, Option.bind_eq_bind, Option.bind_eq_some_iff] at h
    obtain ⟨x, hx, y, hy, hs⟩ := h
    have hxa := Recipe.evalS_sound a x hx
    have hyb := Recipe.evalS_sound b y hy
    split at hs
    · rename_i hc
      simp only [Bool.and_eq_true, beq_iff_eq] at hc
      obtain ⟨hrat, hden⟩ := hc
      have hyv : b.evalR = ((y.a.num : ℤ) : ℝ) := by
        rw [← hyb, Surd.isRat_toReal hrat]
        have : (y.a : ℝ) = (y.a.num : ℝ) / (y.a.den : ℝ) := by exact_mod_cast (Rat.num_div_den y.a).symm
        rw [this, hden]; simp
      split at hs
      · rename_i hnn
        simp at hs; subst hs
        rw [Surd.toReal_npow, hxa]
        show a.evalR ^ y.a.num.toNat = a.evalR ^ b.evalR
        obtain ⟨k, hk⟩ := Int.eq_ofNat_of_zero_le hnn
        rw [hyv, hk]
        simp only [Int.toNat_natCast, Int.cast_natCast, Real.rpow_natCast]
      · rename_i hneg
        simp only [Option.map_eq_some_iff] at hs
        obtain ⟨xi, hxi, hs⟩ := hs
        subst hs
        have hinv := Surd.inv?_sound hxi
        rw [Surd.toReal_npow]
        show xi.toReal ^ y.a.num.natAbs = a.evalR ^ b.evalR
        rw [hyv, ← hxa]
        have hx0 : x.toReal ≠ 0 := by
          intro h0; rw [h0] at hinv; simp at hinv
        have hxi' : xi.toReal = (x.toReal)⁻¹ := by
          field_simp; linarith [hinv]
        obtain ⟨k, hk⟩ : ∃ k : ℕ, y.a.num = -(k : ℤ) := ⟨y.a.num.natAbs, by
          have : y.a.num < 0 := not_le.mp hneg
          omega⟩
        rw [hk]
        simp only [Int.natAbs_neg, Int.natAbs_natCast]
        rw [Real.rpow_intCast, zpow_neg, zpow_natCast, hxi', inv_pow]
    · cases hs
  | .sqrt a, s, h => by
    simp only [Recipe.evalS, Option.bind_eq_bind, Option.bind_eq_some_iff] at h
    obtain ⟨x, hx, hs⟩ := h
    split at hs
    · rename_i hrat
      rw [Surd.sqrtRat?_sound hs, ← Surd.isRat_toReal hrat, Recipe.evalS_sound a x hx]; rfl
    · cases hs

end SymVerif.Funcs
