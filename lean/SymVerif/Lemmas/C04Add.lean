/-
C04, Add side.  Every operand `a` of `add` has a representation `repr a = (coef, dict)`
(`Add`: its fields; Number: `(a, {})`; anything else: `(0, {term: coef})` through `as_coef_term`);
on *normal* representations (`NR`: canonical exact numbers, sorted non-zero dictionary, keys that are
legal terms and not sums)

    addCore a b = Add::from_dict (repr a ⊕ repr b)            (`addCore_eq`)
    repr (Add::from_dict s) = s                                (`repr_fromDict`)

where `⊕` (`radd`) adds the coefficients in ℚ(i) and merges the dictionaries point-wise.  `⊕` is
commutative and associative by Lemmas/C04Dict.lean, which gives commutativity, associativity,
permutation invariance of the n-ary constructor and its agreement with the fold of the binary one.
-/
import SymVerif.Lemmas.C04Dict
import SymVerif.Model.AC

namespace SymVerif.AC
open SymVerif SymVerif.Arith

/-- normal (coef, dict) pair -/
def NR (s : Expr × Dict) : Prop := ExOK s.1 ∧ DOK s.2 ∧ ∀ p ∈ s.2, termOK p.1 = true

/-- a summand: its representation is normal and `Add::from_dict` rebuilds it -/
def AOK (a : Expr) : Prop := NR (repr a) ∧ addFromDict (repr a).1 (repr a).2 = .ok a

/-- `⊕` on representations -/
noncomputable def radd (r s : Expr × Dict) : Expr × Dict := (ofG (gq r.1 + gq s.1), merge r.2 s.2)

theorem exOK_isNum {e : Expr} (h : ExOK e) : e.isNum = true := h.numOK.1

@[simp] theorem ok_bind {α β : Type} (x : α) (f : α → R β) : (Except.ok x >>= f) = f x := rfl

theorem ofG_gq_add_zero {c : Expr} (h : ExOK c) : ofG (gq c + gq zero) = c := by
  rw [gq_zero, add_zero, ofG_gq h]

theorem NR.radd {r s : Expr × Dict} (hr : NR r) (hs : NR s) : NR (radd r s) := by
  refine ⟨exOK_ofG _, merge_DOK _ hr.2.1 hs.2.1.vals, ?_⟩
  intro p hp
  -- every key of the merge is a key of one side
  have key_mem : ∀ (l d : Dict), (∀ q ∈ d, termOK q.1 = true) → (∀ q ∈ l, termOK q.1 = true) →
      DOK d → ValsOK l → ∀ q ∈ merge d l, termOK q.1 = true := by
    intro l
    induction l with
    | nil => intro d hd _ _ _ q hq; exact hd q hq
    | cons x r ih =>
      obtain ⟨k, v⟩ := x
      intro d hd hl hdok hv q hq
      have hvk : ExOK v := hv (k, v) List.mem_cons_self
      refine ih (upd d v k) ?_ (fun q hq => hl q (List.mem_cons_of_mem _ hq)) (upd_DOK k hdok hvk)
        (fun q hq => hv q (List.mem_cons_of_mem _ hq)) q hq
      intro q hq
      unfold upd at hq
      split at hq
      · split at hq
        · rcases mem_dinsert hq with rfl | hq
          · exact hl (k, v) List.mem_cons_self
          · exact hd q hq
        · exact hd q hq
      · split at hq
        · exact hd q (mem_derase hq)
        · rcases mem_dset hq with rfl | hq
          · exact hl (k, v) List.mem_cons_self
          · exact hd q hq
  exact key_mem s.2 r.2 hr.2.2 hs.2.2 hr.2.1 hs.2.1.vals p hp

theorem radd_comm {r s : Expr × Dict} (hr : NR r) (hs : NR s) : radd r s = radd s r := by
  unfold radd
  rw [add_comm, merge_comm hr.2.1 hs.2.1]

theorem radd_assoc {r s t : Expr × Dict} (hr : NR r) (hs : NR s) (ht : NR t) :
    radd (radd r s) t = radd r (radd s t) := by
  unfold radd
  simp only [gq_ofG]
  rw [add_assoc, merge_assoc hr.2.1 hs.2.1 ht.2.1]

/-! ### `Add::from_dict` and `repr` are inverse on normal representations -/

theorem termOK_not_num {k : Expr} (h : termOK k = true) : k.isNum = false := by
  unfold termOK at h
  simp only [Bool.and_eq_true, Bool.not_eq_true'] at h
  exact h.1.1.2

theorem termOK_not_add {k : Expr} (h : termOK k = true) : isAdd k = false := by
  unfold termOK at h
  simp only [Bool.and_eq_true, Bool.not_eq_true'] at h
  exact h.1.2

theorem termOK_exact {k : Expr} (h : termOK k = true) : exact k = true := by
  unfold termOK at h
  simp only [Bool.and_eq_true, Bool.not_eq_true'] at h
  exact h.1.1.1

/-- `as_coef_term` of a legal term is `(1, term)` -/
theorem asCoefTerm_term {k : Expr} (h : termOK k = true) : asCoefTerm k = .ok (one, k) := by
  have h1 := termOK_not_num h
  have h2 := termOK_not_add h
  cases k <;> simp_all [asCoefTerm, termOK, Expr.isNum, isAdd]

theorem repr_term {k : Expr} (h : termOK k = true) : repr k = (zero, [(k, one)]) := by
  have h1 := termOK_not_num h
  have h2 := termOK_not_add h
  have h3 := asCoefTerm_term h
  cases k <;> simp_all [repr, isAdd]

theorem isIntLit_eq {e : Expr} {n : Int} (h : isIntLit e n = true) : e = .int n := by
  cases e <;> simp_all [isIntLit]

/-- the single-term arm of `Add::from_dict` -/
theorem fromDict_single {k v : Expr} (hk : termOK k = true) (hv : ExOK v) (hv0 : gq v ≠ 0) :
    ∃ r, addFromDict zero [(k, v)] = .ok r ∧ repr r = (zero, [(k, v)]) ∧ exact r = true := by
  have hvn := exOK_isNum hv
  have hv0' : isIntLit v 0 = false := by
    cases h : isIntLit v 0 with
    | false => rfl
    | true =>
      have := isIntLit_eq h
      subst this
      exact absurd (gq_int 0 ▸ by simp : gq (.int 0) = 0) hv0
  have hvz : numIsZero v = false := by
    cases h : numIsZero v with
    | false => rfl
    | true => exact absurd ((numIsZero_iff hv).mp h) hv0
  have hvx : exact v = true := by
    have := hv.1
    cases v <;> simp_all [isExactNum, exact]
  have hz0 : numIsZero zero = true := rfl
  have ho0 : numIsZero one = false := rfl
  have ho1 : numIsOne one = true := rfl
  have hi1 : isIntLit one 1 = true := rfl
  have hon : one.isNum = true := rfl
  by_cases h1 : isIntLit v 1 = true
  · have := isIntLit_eq h1
    subst this
    refine ⟨k, ?_, repr_term hk, termOK_exact hk⟩
    simp [addFromDict, hz0, Expr.isNum, isIntLit]
  · have h1' : isIntLit v 1 = false := by simpa using h1
    have hkn := termOK_not_num hk
    have hka := termOK_not_add hk
    have hkx := termOK_exact hk
    -- a key that is neither a Mul nor a Pow nor a Number nor an Add
    have other : ∀ k : Expr, k.isNum = false → exact k = true →
        (∀ c fs, k ≠ .mul c fs) → (∀ b e, k ≠ .pow b e) → (∀ c ts, k ≠ .add c ts) →
        ∃ r, addFromDict zero [(k, v)] = .ok r ∧ repr r = (zero, [(k, v)]) ∧ exact r = true := by
      intro k hkn hkx hm hp ha
      refine ⟨.mul v [(k, one)], ?_, ?_, ?_⟩
      · unfold addFromDict
        simp only [hz0, hvn, hv0', h1', if_true, Bool.not_true, Bool.false_eq_true, if_false]
        all_goals
          split
          · rename_i c fs; exact absurd rfl (hm c fs)
          · rename_i b e; exact absurd rfl (hp b e)
          · rfl
      · simp [repr, Expr.isNum, asCoefTerm, h1', mulFromDict, ho0, ho1, hi1]
      · have : exact one = true := rfl
        simp [exact, exactPairs, hvx, hkx, this]
    cases k with
    | mul c fs =>
      simp only [termOK, Bool.and_eq_true, decide_eq_true_eq] at hk
      have hc := isIntLit_eq hk.2.1
      subst hc
      cases fs with
      | nil => simp at hk
      | cons p1 fs' =>
        cases fs' with
        | nil => simp at hk
        | cons p2 rest =>
          refine ⟨.mul v (p1 :: p2 :: rest), ?_, ?_, ?_⟩
          · simp [addFromDict, hz0, hvn, hv0', h1', mulFromDict, hvz]
          · simp [repr, Expr.isNum, asCoefTerm, h1', mulFromDict, ho0]
            rfl
          · simp only [exact, Bool.and_eq_true] at hkx ⊢
            exact ⟨hvx, hkx.2⟩
    | pow b e =>
      simp only [termOK, Bool.and_eq_true, Bool.not_eq_true'] at hk
      refine ⟨.mul v [(b, e)], ?_, ?_, ?_⟩
      · simp [addFromDict, hz0, hvn, hv0', h1']
      · simp [repr, Expr.isNum, asCoefTerm, h1', mulFromDict, ho0, ho1, hk.2]
      · simp only [exact, exactPairs, Bool.and_eq_true] at hkx ⊢
        exact ⟨hvx, ⟨hkx.1, hkx.2⟩, trivial⟩
    | add c ts => simp [isAdd] at hka
    | int n => simp [Expr.isNum] at hkn
    | rat n d => simp [Expr.isNum] at hkn
    | cplx re im => simp [Expr.isNum] at hkn
    | dbl b => simp [Expr.isNum] at hkn
    | cdbl r i => simp [Expr.isNum] at hkn
    | infty d => simp [Expr.isNum] at hkn
    | nan => simp [Expr.isNum] at hkn
    | sym n => exact other _ hkn hkx (by simp) (by simp) (by simp)
    | dummy n i => simp [exact] at hkx
    | const n => exact other _ hkn hkx (by simp) (by simp) (by simp)
    | fsym n args => exact other _ hkn hkx (by simp) (by simp) (by simp)
    | app h args => exact other _ hkn hkx (by simp) (by simp) (by simp)
    | bool b => simp [exact] at hkx

theorem exactPairs_of_NR : ∀ {d : Dict}, (∀ p ∈ d, ExOK p.2) → (∀ p ∈ d, termOK p.1 = true) →
    exactPairs d = true
  | [], _, _ => rfl
  | (k, v) :: r, hv, hk => by
    have h1 := termOK_exact (hk (k, v) List.mem_cons_self)
    have h2 : exact v = true := by
      have := (hv (k, v) List.mem_cons_self).1
      cases v <;> simp_all [isExactNum, exact]
    simp only [exactPairs, h1, h2, Bool.and_self, Bool.true_and]
    exact exactPairs_of_NR (fun p hp => hv p (List.mem_cons_of_mem _ hp))
      (fun p hp => hk p (List.mem_cons_of_mem _ hp))

theorem exact_of_exOK {c : Expr} (h : ExOK c) : exact c = true := by
  have := h.1
  cases c <;> simp_all [isExactNum, exact]

/-- `Add::from_dict` succeeds on a normal representation and `repr` recovers it -/
theorem repr_fromDict {s : Expr × Dict} (h : NR s) :
    ∃ r, addFromDict s.1 s.2 = .ok r ∧ repr r = s ∧ exact r = true := by
  obtain ⟨c, d⟩ := s
  obtain ⟨hc, hd, hk⟩ := h
  simp only at hc hd hk
  have hcx := exact_of_exOK hc
  have hdx := exactPairs_of_NR (fun p hp => (hd.2 p hp).1) hk
  cases d with
  | nil =>
    refine ⟨c, rfl, ?_, hcx⟩
    have := exOK_isNum hc
    cases c <;> simp_all [repr, Expr.isNum]
  | cons p r =>
    obtain ⟨k, v⟩ := p
    cases r with
    | nil =>
      by_cases hz : numIsZero c = true
      · have := numIsZero_eq_zero hc hz
        subst this
        have hv := hd.2 (k, v) List.mem_cons_self
        exact fromDict_single (hk (k, v) List.mem_cons_self) hv.1 hv.2
      · refine ⟨.add c [(k, v)], ?_, rfl, ?_⟩
        · simp [addFromDict, hz]
        · simp [exact, hcx, hdx]
    | cons q r =>
      refine ⟨.add c ((k, v) :: q :: r), rfl, rfl, ?_⟩
      simp [exact, hcx, hdx]

/-- the rebuilt expression is again a summand -/
theorem AOK_fromDict {s : Expr × Dict} (h : NR s) {r : Expr} (hr : addFromDict s.1 s.2 = .ok r) :
    AOK r ∧ repr r = s ∧ exact r = true := by
  obtain ⟨r', h1, h2, h3⟩ := repr_fromDict h
  rw [hr] at h1
  cases h1
  exact ⟨⟨h2 ▸ h, by rw [h2]; exact hr⟩, h2, h3⟩

/-! ### `add(a, b)` adds the representations -/

theorem asCoefTerm_ok {a : Expr} (h : isAdd a = false) : ∃ c t, asCoefTerm a = .ok (c, t) := by
  unfold asCoefTerm
  split
  · split <;> exact ⟨_, _, rfl⟩
  · simp [isAdd] at h
  · split <;> exact ⟨_, _, rfl⟩

/-- the last arm of `add(a, b)`: neither operand is an Add -/
def genArm (a b : Expr) : R Expr := do
  let (c1, t1) ← asCoefTerm a
  let d ← addDictAddTerm [] c1 t1
  let (c2, t2) ← asCoefTerm b
  let d ← addDictAddTerm d c2 t2
  match dfind d one with
  | none => addFromDict zero d
  | some v => addFromDict v (derase d one)

theorem addCore_general {a b : Expr} (ha : isAdd a = false) (hb : isAdd b = false) :
    addCore a b = genArm a b := by
  unfold addCore
  split
  · simp [isAdd] at ha
  · simp [isAdd] at ha
  · simp [isAdd] at hb
  · rfl

theorem addCore_add_left {ac : Expr} {ad : Dict} {b : Expr} (hb : isAdd b = false) :
    addCore (.add ac ad) b = addOntoAdd ac ad b := by
  unfold addCore
  split
  · simp [isAdd] at hb
  · rename_i heq h; cases heq; rfl
  · simp [isAdd] at hb
  · simp_all

theorem addCore_add_right {a : Expr} {bc : Expr} {bd : Dict} (ha : isAdd a = false) :
    addCore a (.add bc bd) = addOntoAdd bc bd a := by
  unfold addCore
  split
  · simp [isAdd] at ha
  · simp [isAdd] at ha
  · rename_i heq; cases heq; rfl
  · simp_all

/-- what `as_coef_term` returns on a summand that is not an Add -/
theorem asCoefTerm_of_AOK {a : Expr} (ha : AOK a) (hna : isAdd a = false) :
    ∃ c t, asCoefTerm a = .ok (c, t) ∧ ExOK c ∧
      ((a.isNum = true ∧ t = one ∧ c = a ∧ repr a = (a, []))
       ∨ (a.isNum = false ∧ termOK t = true ∧ gq c ≠ 0 ∧ repr a = (zero, [(t, c)]))) := by
  by_cases hn : a.isNum = true
  · have hr : repr a = (a, []) := by
      cases a <;> simp_all [repr, Expr.isNum]
    have hex : ExOK a := by
      have := ha.1.1
      rw [hr] at this
      exact this
    refine ⟨a, one, ?_, hex, Or.inl ⟨hn, rfl, rfl, hr⟩⟩
    cases a <;> simp_all [asCoefTerm, Expr.isNum]
  · have hn' : a.isNum = false := by simpa using hn
    obtain ⟨c, t, hct⟩ := asCoefTerm_ok hna
    have hr : repr a = (zero, [(t, c)]) := by
      cases a <;> simp_all [repr, isAdd, Expr.isNum]
    · have hnr := ha.1
      rw [hr] at hnr
      have hv := hnr.2.1.2 (t, c) List.mem_cons_self
      exact ⟨c, t, hct, hv.1, Or.inr ⟨hn', hnr.2.2 (t, c) List.mem_cons_self, hv.2, hr⟩⟩

theorem merge_single (d : Dict) (t c : Expr) : merge d [(t, c)] = upd d c t := rfl

/-- the arm of `add` in which one operand is an Add -/
theorem addOntoAdd_eq {ac : Expr} {ad : Dict} {b : Expr} (ha : NR (ac, ad)) (hb : AOK b)
    (hnb : isAdd b = false) :
    addOntoAdd ac ad b = addFromDict (radd (ac, ad) (repr b)).1 (radd (ac, ad) (repr b)).2 := by
  obtain ⟨c, t, hct, hc, hcase⟩ := asCoefTerm_of_AOK hb hnb
  unfold addOntoAdd
  rcases hcase with ⟨hn, _, hca, hr⟩ | ⟨hn, _, _, hr⟩
  · subst hca
    simp only [hn, if_true, hr, radd, merge]
    by_cases hz : numIsZero c = true
    · have hz0 := (numIsZero_iff hc).mp hz
      simp [hz, hz0, ofG_gq ha.1]
    · simp [hz, numAdd_eq ha.1 hc]
  · simp only [hn, hct, hr, radd, merge_single, Bool.false_eq_true, if_false]
    rw [ofG_gq_add_zero ha.1]
    simp only [ok_bind, addDictAddTerm_eq t ha.2.1 hc]

theorem lk_nil (u : Expr) : lk [] u = 0 := by simp [lk, dfind]

theorem lk_single (t c u : Expr) : lk [(t, c)] u = if key u == key t then gq c else 0 := by
  unfold lk
  rw [dfind_cons, keq_comm]
  by_cases h : (key u == key t) = true
  · simp [h]
  · simp [h, dfind]

theorem repr_snd_lk {a c t : Expr} (u : Expr)
    (hcase : (a.isNum = true ∧ t = one ∧ c = a ∧ repr a = (a, []))
       ∨ (a.isNum = false ∧ termOK t = true ∧ gq c ≠ 0 ∧ repr a = (zero, [(t, c)]))) :
    lk (repr a).2 u = if key u == key one then 0 else (if key u == key t then gq c else 0) := by
  rcases hcase with ⟨_, ht, _, hr⟩ | ⟨_, ht, _, hr⟩
  · subst ht
    rw [hr, lk_nil]
    split <;> rfl
  · rw [hr, lk_single]
    by_cases h1 : (key u == key one) = true
    · have e : u = one := key_beq_iff.mp h1
      subst e
      have : ¬ (key one == key t) = true := by
        intro h
        have e := key_beq_iff.mp h
        subst e
        simp [termOK, one, Expr.isNum] at ht
      simp [this]
    · simp [h1]

theorem repr_fst_gq {a c t : Expr}
    (hcase : (a.isNum = true ∧ t = one ∧ c = a ∧ repr a = (a, []))
       ∨ (a.isNum = false ∧ termOK t = true ∧ gq c ≠ 0 ∧ repr a = (zero, [(t, c)]))) :
    gq (repr a).1 = if key one == key t then gq c else 0 := by
  rcases hcase with ⟨_, ht, hc, hr⟩ | ⟨_, ht, _, hr⟩
  · subst ht; subst hc
    rw [hr]; simp
  · rw [hr]
    have : ¬ (key one == key t) = true := by
      intro h
      have e := key_beq_iff.mp h
      subst e
      simp [termOK, one, Expr.isNum] at ht
    simp [this, gq_zero]

/-- `add(a, b)` is `Add::from_dict` of the sum of the representations -/
theorem addCore_eq {a b : Expr} (ha : AOK a) (hb : AOK b) :
    addCore a b = addFromDict (radd (repr a) (repr b)).1 (radd (repr a) (repr b)).2 := by
  by_cases haa : isAdd a = true
  · obtain ⟨ac, ad, rfl⟩ : ∃ ac ad, a = .add ac ad := by
      cases a <;> simp_all [isAdd]
    have hnr : NR (ac, ad) := ha.1
    by_cases hbb : isAdd b = true
    · obtain ⟨bc, bd, rfl⟩ : ∃ bc bd, b = .add bc bd := by
        cases b <;> simp_all [isAdd]
      have hnb : NR (bc, bd) := hb.1
      simp only [addCore, repr, radd]
      rw [addMergeLoop_eq bd hnr.2.1 hnb.2.1.vals, numAdd_eq hnr.1 hnb.1]
      rfl
    · have hbb' : isAdd b = false := by simpa using hbb
      rw [addCore_add_left hbb']
      exact addOntoAdd_eq hnr hb hbb'
  · have haa' : isAdd a = false := by simpa using haa
    by_cases hbb : isAdd b = true
    · obtain ⟨bc, bd, rfl⟩ : ∃ bc bd, b = .add bc bd := by
        cases b <;> simp_all [isAdd]
      have hnb : NR (bc, bd) := hb.1
      rw [addCore_add_right haa', addOntoAdd_eq hnb ha haa']
      have e : repr (.add bc bd) = (bc, bd) := rfl
      rw [e, radd_comm hnb ha.1]
    · have hbb' : isAdd b = false := by simpa using hbb
      obtain ⟨c1, t1, hct1, hc1, hcase1⟩ := asCoefTerm_of_AOK ha haa'
      obtain ⟨c2, t2, hct2, hc2, hcase2⟩ := asCoefTerm_of_AOK hb hbb'
      rw [addCore_general haa' hbb', genArm, hct1, hct2]
      simp only [ok_bind, addDictAddTerm_eq t1 DOK.nil hc1,
        addDictAddTerm_eq t2 (upd_DOK t1 DOK.nil hc1) hc2]
      have hd : DOK (upd (upd [] c1 t1) c2 t2) := upd_DOK t2 (upd_DOK t1 DOK.nil hc1) hc2
      have hlk : ∀ u, lk (upd (upd [] c1 t1) c2 t2) u
          = (if key u == key t1 then gq c1 else 0) + (if key u == key t2 then gq c2 else 0) := by
        intro u
        rw [lk_upd t2 u (upd_DOK t1 DOK.nil hc1) hc2, lk_upd t1 u DOK.nil hc1, lk_nil, zero_add]
      have hnra := ha.1
      have hnrb := hb.1
      -- the dictionary part
      have hdict : derase (upd (upd [] c1 t1) c2 t2) one = merge (repr a).2 (repr b).2 := by
        apply dok_ext ⟨sorted_derase hd.1, fun p hp => hd.2 p (mem_derase hp)⟩
          (merge_DOK _ hnra.2.1 hnrb.2.1.vals)
        intro u
        rw [lk_merge u hnra.2.1 hnrb.2.1, repr_snd_lk u hcase1, repr_snd_lk u hcase2]
        unfold lk
        rw [dfind_derase one u hd.1]
        by_cases h1 : (key u == key one) = true
        · simp [h1]
        · have := hlk u
          unfold lk at this
          simp only [h1, Bool.false_eq_true, if_false]
          exact this
      -- the coefficient part
      have hcoef : ∀ v, (match dfind (upd (upd [] c1 t1) c2 t2) one with | none => zero | some v => v) = v →
          v = ofG (gq (repr a).1 + gq (repr b).1) := by
        intro v hv
        have hone := hlk one
        rw [← repr_fst_gq hcase1, ← repr_fst_gq hcase2] at hone
        rw [← hone]
        unfold lk
        cases hf : dfind (upd (upd [] c1 t1) c2 t2) one with
        | none =>
          rw [hf] at hv
          subst hv
          simp [ofG_zero]
        | some w =>
          rw [hf] at hv
          subst hv
          simp only []
          exact (ofG_gq (hd.2 _ (dfind_some hf)).1).symm
      cases hf : dfind (upd (upd [] c1 t1) c2 t2) one with
      | none =>
        have h0 := hcoef zero (by rw [hf])
        have hde : derase (upd (upd [] c1 t1) c2 t2) one = upd (upd [] c1 t1) c2 t2 := by
          apply dok_ext ⟨sorted_derase hd.1, fun p hp => hd.2 p (mem_derase hp)⟩ hd
          intro u
          unfold lk
          rw [dfind_derase one u hd.1]
          by_cases h1 : (key u == key one) = true
          · have e : u = one := key_beq_iff.mp h1
            subst e
            simp [hf]
          · simp [h1]
        simp only [radd]
        rw [← h0, ← hdict, hde]
      | some w =>
        have h0 := hcoef w (by rw [hf])
        simp only [radd]
        rw [← h0, ← hdict]

/-! ### the decidable operand predicate of the model implies `AOK` -/

theorem exNum_iff {e : Expr} : exNum e = true ↔ ExOK e := by
  simp [exNum, ExOK]

theorem NR_of_nrB {s : Expr × Dict} (h : nrB s = true) : NR s := by
  unfold nrB at h
  simp only [Bool.and_eq_true, List.all_eq_true, Bool.not_eq_true'] at h
  obtain ⟨⟨h1, h2⟩, h3⟩ := h
  refine ⟨exNum_iff.mp h1, ⟨(keysSorted_iff _).mp h2, ?_⟩, fun p hp => (h3 p hp).2⟩
  intro p hp
  have hv := exNum_iff.mp (h3 p hp).1.1
  refine ⟨hv, ?_⟩
  intro h0
  have := (numIsZero_iff hv).mpr h0
  rw [(h3 p hp).1.2] at this
  cases this

theorem AOK_of_addOperandOK {a : Expr} (h : addOperandOK a = true) : AOK a ∧ exact a = true := by
  unfold addOperandOK at h
  simp only [Bool.and_eq_true] at h
  obtain ⟨⟨h1, h2⟩, h3⟩ := h
  refine ⟨⟨NR_of_nrB h2, ?_⟩, h1⟩
  split at h3
  · rename_i r hr
    have : r = a := key_inj (by simpa [eqE] using h3)
    rw [hr, this]
  · cases h3

/-! ### the n-ary constructor -/

theorem coefDictAddTerm_eq {coef : Expr} {d : Dict} {a : Expr} (hs : NR (coef, d)) (ha : AOK a) :
    coefDictAddTerm coef d one a = .ok (radd (coef, d) (repr a)) := by
  have hone : ExOK one := exOK_int 1
  have mul_one : ∀ {c : Expr}, ExOK c → numMul one c = .ok c := by
    intro c hc
    rw [numMul_eq hone hc, gq_one, one_cmul, ofG_gq hc]
  by_cases haa : isAdd a = true
  · obtain ⟨tc, td, rfl⟩ : ∃ tc td, a = .add tc td := by
      cases a <;> simp_all [isAdd]
    have hnr : NR (tc, td) := ha.1
    have h1 : numIsOne one = true := rfl
    simp only [coefDictAddTerm, Expr.isNum, Bool.false_eq_true, if_false, h1, if_true, repr, radd]
    rw [addMergeLoop_eq td hs.2.1 hnr.2.1.vals]
    simp only [ok_bind, numAdd_eq hs.1 hnr.1]
    rfl
  · have haa' : isAdd a = false := by simpa using haa
    obtain ⟨c, t, hct, hc, hcase⟩ := asCoefTerm_of_AOK ha haa'
    rcases hcase with ⟨hn, _, hca, hr⟩ | ⟨hn, _, _, hr⟩
    · subst hca
      unfold coefDictAddTerm
      simp only [hn, if_true, mul_one hc, ok_bind, numAdd_eq hs.1 hc, hr, radd, merge]
      rfl
    · have hcd : coefDictAddTerm coef d one a = (do
          let (c2, t) ← asCoefTerm a
          let m ← numMul one c2
          let d' ← addDictAddTerm d m t
          pure (coef, d')) := by
        unfold coefDictAddTerm
        simp only [hn, Bool.false_eq_true, if_false]
        split
        · simp [isAdd] at haa'
        · rfl
      rw [hcd, hct]
      simp only [ok_bind, mul_one hc, addDictAddTerm_eq t hs.2.1 hc, hr, radd, merge_single,
        ofG_gq_add_zero hs.1]
      rfl

/-- the accumulated representation of a list of summands -/
noncomputable def rsum (s : Expr × Dict) (l : List Expr) : Expr × Dict :=
  l.foldl (fun s a => radd s (repr a)) s

theorem rsum_NR : ∀ (l : List Expr) {s : Expr × Dict}, NR s → (∀ a ∈ l, AOK a) → NR (rsum s l)
  | [], _, hs, _ => hs
  | a :: r, s, hs, hl => by
    have ha := hl a List.mem_cons_self
    exact rsum_NR r (hs.radd ha.1) (fun x hx => hl x (List.mem_cons_of_mem _ hx))

theorem addNLoop_eq : ∀ (l : List Expr) {coef : Expr} {d : Dict}, NR (coef, d) → (∀ a ∈ l, AOK a) →
    addNLoop coef d l = .ok (rsum (coef, d) l)
  | [], _, _, _, _ => rfl
  | a :: r, coef, d, hs, hl => by
    have ha := hl a List.mem_cons_self
    simp only [addNLoop, coefDictAddTerm_eq hs ha, ok_bind]
    exact addNLoop_eq r (hs.radd ha.1) (fun x hx => hl x (List.mem_cons_of_mem _ hx))

theorem rsum_perm {l₁ l₂ : List Expr} (hp : l₁.Perm l₂) :
    (∀ a ∈ l₁, AOK a) → ∀ s, NR s → rsum s l₁ = rsum s l₂ := by
  induction hp with
  | nil => intros; rfl
  | cons x _ ih =>
    intro hl s hs
    exact ih (fun a ha => hl a (List.mem_cons_of_mem _ ha)) _
      (hs.radd (hl x List.mem_cons_self).1)
  | swap x y l =>
    intro hl s hs
    have hx := (hl x (by simp)).1
    have hy := (hl y (by simp)).1
    show rsum (radd (radd s (repr y)) (repr x)) l = rsum (radd (radd s (repr x)) (repr y)) l
    rw [radd_assoc hs hy hx, radd_assoc hs hx hy, radd_comm hy hx]
  | trans h1 _ ih1 ih2 =>
    intro hl s hs
    rw [ih1 hl s hs, ih2 (fun a ha => hl a (h1.mem_iff.mpr ha)) s hs]

theorem NR_unit : NR (zero, []) := ⟨exOK_int 0, DOK.nil, by simp⟩

theorem radd_unit {s : Expr × Dict} (hs : NR s) : radd (zero, []) s = s := by
  obtain ⟨c, d⟩ := s
  unfold radd
  simp only [gq_zero, zero_add, ofG_gq hs.1, merge_nil_left hs.2.1]

theorem exactList_iff' : ∀ l : List Expr, exactList l = true ↔ ∀ a ∈ l, exact a = true
  | [] => by simp [exactList]
  | a :: t => by simp [exactList, exactList_iff' t]

/-- the fold of the binary constructor computes `Add::from_dict` of the accumulated representation -/
theorem foldlM_addE_eq : ∀ (l : List Expr) {acc : Expr}, AOK acc → exact acc = true →
    (∀ a ∈ l, AOK a ∧ exact a = true) →
    l.foldlM addE acc = addFromDict (rsum (repr acc) l).1 (rsum (repr acc) l).2
  | [], acc, hacc, _, _ => by
    simp only [List.foldlM, rsum, List.foldl]
    exact hacc.2.symm
  | a :: r, acc, hacc, hx, hl => by
    have ha := hl a List.mem_cons_self
    have hnr : NR (radd (repr acc) (repr a)) := hacc.1.radd ha.1.1
    obtain ⟨r', hr', _⟩ := repr_fromDict hnr
    obtain ⟨hok, hrep, hex⟩ := AOK_fromDict hnr hr'
    have hstep : addE acc a = .ok r' := by
      unfold addE guard2
      simp only [hx, ha.2, Bool.and_self, if_true]
      rw [addCore_eq hacc ha.1, hr']
    simp only [List.foldlM, hstep, ok_bind]
    rw [foldlM_addE_eq r hok hex (fun x hx => hl x (List.mem_cons_of_mem _ hx)), hrep]
    rfl

theorem addN_eq {l : List Expr} (hl : ∀ a ∈ l, AOK a ∧ exact a = true) :
    addN l = addFromDict (rsum (zero, []) l).1 (rsum (zero, []) l).2 := by
  unfold addN
  have : exactList l = true := (exactList_iff' l).mpr (fun a ha => (hl a ha).2)
  simp only [this, if_true, addNLoop_eq l NR_unit (fun a ha => (hl a ha).1), ok_bind]

end SymVerif.AC
