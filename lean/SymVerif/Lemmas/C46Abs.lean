import SymVerif.Lemmas.C46Vec
/-!
C46: the algorithm of `homogeneous_lde` on an abstract stack (a list of pairs
`(vector, frozen set)`, top first) and the invariants that give soundness, the antichain property,
the bound on the stack depth and completeness.
-/
namespace SymVerif.C46
open SymVerif.LDE

abbrev Ent := Vec × Array Bool

/-- component `i` is frozen -/
def fz (F : Array Bool) (i : ℕ) : Bool := F.getD i false

/-- number of frozen components -/
def cnt (F : Array Bool) : ℕ := F.count true

theorem fz_set (F : Array Bool) (i x : ℕ) :
    fz (F.setIfInBounds i true) x = if x = i ∧ i < F.size then true else fz F x := by
  unfold fz
  simp only [Array.getD_eq_getD_getElem?, Array.getElem?_setIfInBounds]
  by_cases h : i = x
  · subst h
    by_cases h2 : i < F.size
    · simp [h2]
    · simp [h2]
  · have : ¬ (x = i) := fun h' => h h'.symm
    simp [h, this]

theorem fz_false_lt {F : Array Bool} {i : ℕ} (hi : i < F.size) (h : fz F i = false) : F[i] = false := by
  simpa [fz, Array.getD_eq_getD_getElem?, hi] using h

theorem cnt_le (F : Array Bool) : cnt F ≤ F.size := Array.count_le_size

theorem cnt_lt_of_false {F : Array Bool} {i : ℕ} (hi : i < F.size) (h : fz F i = false) :
    cnt F < F.size := by
  have h1 := cnt_le F
  have h2 : cnt F ≠ F.size := by
    intro he
    have := (Array.count_eq_size (a := true) (xs := F)).mp he F[i] (Array.getElem_mem hi)
    rw [fz_false_lt hi h] at this
    exact absurd this (by simp)
  omega

theorem cnt_set {F : Array Bool} {i : ℕ} (hi : i < F.size) (h : fz F i = false) :
    cnt (F.setIfInBounds i true) = cnt F + 1 := by
  unfold cnt
  have : F.setIfInBounds i true = F.set i true hi := by
    simp [Array.setIfInBounds, hi]
  rw [this, Array.count_set hi, fz_false_lt hi h]
  simp

/-- the condition under which the C++ pushes `t + e_i` (apart from `F[i] == false`) -/
def kcond (A : List Vec) (product : Vec) (basis : List Vec) (tZero : Bool) (t : Vec) (i : ℕ) : Bool :=
  (decide (colDot A product i < 0) && isMinimum (incAt t i 1) basis) || tZero

/-- the children pushed by the `for (i < q)` loop, in push order, with the frozen set stored for each -/
def akids (A : List Vec) (product : Vec) (basis : List Vec) (tZero : Bool) (t : Vec) :
    ℕ → ℕ → Array Bool → List Ent
  | 0, _, _ => []
  | rem + 1, i, F =>
    if fz F i == false && kcond A product basis tZero t i then
      (incAt t i 1, F) :: akids A product basis tZero t rem (i + 1) (F.setIfInBounds i true)
    else akids A product basis tZero t rem (i + 1) F

/-- one iteration of the `while` loop on the abstract stack (top first) -/
def astep (A : List Vec) (q : ℕ) : List Ent × List Vec → List Ent × List Vec
  | ((t, F) :: rest, basis) =>
    if isZero (mulVec A t) && !isZero t then (rest, t :: basis)
    else ((akids A (mulVec A t) basis (isZero t) t q 0 F).reverse ++ rest, basis)
  | ([], basis) => ([], basis)

/-! ### solutions -/

/-- non-zero non-negative solution of `A x = 0` of length `q` -/
def IsSol (A : List Vec) (q : ℕ) (v : Vec) : Prop :=
  v.length = q ∧ (∀ i, 0 ≤ cmp v i) ∧ isZero (mulVec A v) = true ∧ isZero v = false

/-- minimal for the componentwise order among the solutions -/
def Minimal (A : List Vec) (q : ℕ) (m : Vec) : Prop :=
  IsSol A q m ∧ ∀ v, IsSol A q v → (∀ i, cmp v i ≤ cmp m i) → v = m

theorem exists_minimal_le (A : List Vec) (q : ℕ) :
    ∀ (n : ℕ) (v : Vec), IsSol A q v → v.sum.toNat ≤ n →
      ∃ m, Minimal A q m ∧ ∀ i, cmp m i ≤ cmp v i := by
  intro n
  induction n with
  | zero =>
    intro v hv hn
    refine ⟨v, ⟨hv, ?_⟩, fun _ => le_refl _⟩
    intro u hu hle
    by_contra hne
    have := sum_lt_of_le_ne u v (hu.1.trans hv.1.symm) hle hne
    have := sum_nonneg_of_nonneg u hu.2.1
    omega
  | succ n ih =>
    intro v hv hn
    by_cases hmin : ∀ u, IsSol A q u → (∀ i, cmp u i ≤ cmp v i) → u = v
    · exact ⟨v, ⟨hv, hmin⟩, fun _ => le_refl _⟩
    · push Not at hmin
      obtain ⟨u, hu, hle, hne⟩ := hmin
      have h1 := sum_lt_of_le_ne u v (hu.1.trans hv.1.symm) hle hne
      have h2 := sum_nonneg_of_nonneg u hu.2.1
      obtain ⟨m, hm, hmle⟩ := ih u hu (by omega)
      exact ⟨m, hm, fun i => le_trans (hmle i) (hle i)⟩

/-- `m` can still be reached from the stack entry `(s, F)`: above `s`, equal on the frozen part -/
def Reach (s : Vec) (F : Array Bool) (m : Vec) : Prop :=
  (∀ i, cmp s i ≤ cmp m i) ∧ (∀ i, fz F i = true → cmp m i = cmp s i)

/-- relation between a later-pushed (upper) and an earlier-pushed (lower) stack entry -/
def Rrel (e' e : Ent) : Prop :=
  (∃ i, fz e'.2 i = true ∧ cmp e'.1 i < cmp e.1 i) ∧ (∃ i, cmp e.1 i < cmp e'.1 i)

/-- depth bound: an entry with `k` entries below it has at least `k` frozen components -/
def DepthOK : List Ent → Prop
  | [] => True
  | e :: rest => rest.length ≤ cnt e.2 ∧ DepthOK rest

structure AInv (A : List Vec) (q : ℕ) (L : List Ent) (basis : List Vec) : Prop where
  shape : ∀ e ∈ L, e.1.length = q ∧ e.2.size = q ∧ ∀ i, 0 ≤ cmp e.1 i
  free : ∀ e ∈ L, cnt e.2 < q
  depth : DepthOK L
  pair : L.Pairwise Rrel
  noreach : ∀ b ∈ basis, ∀ e ∈ L, ¬ Reach e.1 e.2 b
  nodom : ∀ b ∈ basis, ∀ e ∈ L, ¬ ((∀ i, cmp b i ≤ cmp e.1 i) ∧ e.1 ≠ b)
  minimal : ∀ b ∈ basis, Minimal A q b
  complete : ∀ m, Minimal A q m → m ∈ basis ∨ ∃ e ∈ L, Reach e.1 e.2 m
  nodup : basis.Nodup

/-! ### the children -/

section kids
variable (A : List Vec) (product : Vec) (basis : List Vec) (tZero : Bool) (t : Vec)

theorem akids_mem : ∀ (rem i : ℕ) (F : Array Bool) (e : Ent),
    e ∈ akids A product basis tZero t rem i F →
    ∃ j, i ≤ j ∧ j < i + rem ∧ e.1 = incAt t j 1 ∧ fz e.2 j = false ∧ e.2.size = F.size ∧
      (∀ x, fz F x = true → fz e.2 x = true) ∧ kcond A product basis tZero t j = true := by
  intro rem
  induction rem with
  | zero => intro i F e h; simp [akids] at h
  | succ rem ih =>
    intro i F e h
    unfold akids at h
    split at h
    · rename_i hc
      rw [Bool.and_eq_true] at hc
      rcases List.mem_cons.mp h with h | h
      · subst h
        exact ⟨i, le_refl _, by omega, rfl, by simpa using hc.1, rfl, fun _ hx => hx, hc.2⟩
      · obtain ⟨j, h1, h2, h3, h4, h5, h6, h7⟩ := ih (i + 1) _ e h
        refine ⟨j, by omega, by omega, h3, h4, by simpa using h5, ?_, h7⟩
        intro x hx
        apply h6
        rw [fz_set]; simp [hx]
    · obtain ⟨j, h1, h2, h3, h4, h5, h6, h7⟩ := ih (i + 1) F e h
      exact ⟨j, by omega, by omega, h3, h4, h5, h6, h7⟩

/-- earlier child `e1`, later child `e2` -/
def KRel (t : Vec) (n : ℕ) (e1 e2 : Ent) : Prop :=
  ∃ a b, a < n ∧ b < n ∧ a ≠ b ∧ e1.1 = incAt t a 1 ∧ e2.1 = incAt t b 1 ∧ fz e2.2 a = true

theorem akids_pairwise (n : ℕ) : ∀ (rem i : ℕ) (F : Array Bool), i + rem = n → F.size = n →
    (akids A product basis tZero t rem i F).Pairwise (KRel t n) := by
  intro rem
  induction rem with
  | zero => intro i F _ _; simp [akids]
  | succ rem ih =>
    intro i F hi hF
    unfold akids
    split
    · rw [List.pairwise_cons]
      refine ⟨?_, ih (i + 1) _ (by omega) (by simpa using hF)⟩
      intro e2 he2
      obtain ⟨j, h1, h2, h3, _, _, h6, _⟩ := akids_mem A product basis tZero t rem (i + 1) _ e2 he2
      refine ⟨i, j, by omega, by omega, by omega, rfl, h3, ?_⟩
      apply h6
      rw [fz_set]
      have : i < F.size := by omega
      simp [this]
    · exact ih (i + 1) F (by omega) hF

theorem akids_depth : ∀ (rem i : ℕ) (F : Array Bool) (rest : List Ent), i + rem ≤ F.size →
    DepthOK rest → rest.length ≤ cnt F →
    DepthOK ((akids A product basis tZero t rem i F).reverse ++ rest) := by
  intro rem
  induction rem with
  | zero => intro i F rest _ h _; simpa [akids] using h
  | succ rem ih =>
    intro i F rest hi hd hc
    unfold akids
    split
    · rename_i hcond
      rw [Bool.and_eq_true] at hcond
      have hfz : fz F i = false := by simpa using hcond.1
      have hlt : i < F.size := by omega
      rw [List.reverse_cons, List.append_assoc, List.singleton_append]
      apply ih (i + 1) _ ((incAt t i 1, F) :: rest) (by simp; omega) ⟨hc, hd⟩
      rw [cnt_set hlt hfz]
      simp; omega
    · exact ih (i + 1) F rest (by omega) hd hc

theorem akids_reach (q : ℕ) (m : Vec) (ht : t.length = q) (hle : ∀ x, cmp t x ≤ cmp m x) :
    ∀ (rem i : ℕ) (F : Array Bool), i + rem = q → F.size = q →
    (∀ x, fz F x = true → cmp m x = cmp t x) →
    (∃ j, i ≤ j ∧ j < q ∧ cmp t j < cmp m j ∧ kcond A product basis tZero t j = true) →
    ∃ e ∈ akids A product basis tZero t rem i F, Reach e.1 e.2 m := by
  intro rem
  induction rem with
  | zero =>
    intro i F hi _ _ hw
    obtain ⟨j, h1, h2, _, _⟩ := hw
    omega
  | succ rem ih =>
    intro i F hi hF hfr hw
    obtain ⟨j, hj1, hj2, hj3, hj4⟩ := hw
    have hiq : i < q := by omega
    unfold akids
    split
    · rename_i hcond
      rw [Bool.and_eq_true] at hcond
      have hfz : fz F i = false := by simpa using hcond.1
      by_cases hlt : cmp t i < cmp m i
      · refine ⟨(incAt t i 1, F), List.mem_cons_self, ?_, ?_⟩
        · intro x
          rw [cmp_incAt]
          by_cases hx : x = i ∧ i < t.length
          · rw [if_pos hx, hx.1]; omega
          · rw [if_neg hx]; exact hle x
        · intro x hx
          rw [cmp_incAt]
          have : ¬ (x = i ∧ i < t.length) := by
            rintro ⟨rfl, _⟩
            rw [hfz] at hx; exact absurd hx (by simp)
          rw [if_neg this]
          exact hfr x hx
      · have heq : cmp m i = cmp t i := by have := hle i; omega
        have hji : j ≠ i := by rintro rfl; exact hlt hj3
        obtain ⟨e, he, hr⟩ := ih (i + 1) (F.setIfInBounds i true) (by omega) (by simpa using hF)
          (by
            intro x hx
            rw [fz_set] at hx
            by_cases hxi : x = i ∧ i < F.size
            · rw [hxi.1]; exact heq
            · rw [if_neg hxi] at hx; exact hfr x hx)
          ⟨j, by omega, hj2, hj3, hj4⟩
        exact ⟨e, List.mem_cons_of_mem _ he, hr⟩
    · rename_i hcond
      have hji : j ≠ i := by
        rintro rfl
        apply hcond
        rw [Bool.and_eq_true]
        refine ⟨?_, hj4⟩
        cases hf : fz F j with
        | false => rfl
        | true => have := hfr j hf; omega
      exact ih (i + 1) F (by omega) hF hfr ⟨j, by omega, hj2, hj3, hj4⟩

end kids

end SymVerif.C46
