/-
C11, cache independence of the substitution model: if the keys of σ are pairwise different (σ is a map), the
traversal with the `visited` table — seeded with σ itself, as the `XReplaceVisitor` constructor does — returns
literally the same tree as the traversal that only consults σ.

Invariant of the table `m`:  (1) every entry maps a tree to its own image `subsE σ k`;
                             (2) whatever σ knows, the table knows (`find m e = none → lookup σ e = none`).
(1) for the seed is exactly `subsE σ k = σ k` for the keys `k`, which is where `KeysDistinct` is needed.
-/
import SymVerif.Lemmas.C11Struct

namespace SymVerif
namespace Subs
open Expr Diff

/-- no two entries of σ have the same key -/
def KeysDistinct : Sigma → Prop
  | [] => True
  | (k, _) :: t => (∀ k' v', (k', v') ∈ t → Expr.eqb k k' = false) ∧ KeysDistinct t

theorem lookup_of_mem : ∀ {σ : Sigma}, KeysDistinct σ → ∀ {k v : Expr}, (k, v) ∈ σ → lookup σ k = some v
  | [], _, k, v, h => by cases h
  | (k0, v0) :: t, hd, k, v, h => by
    simp only [KeysDistinct] at hd
    simp only [lookup, Memo.find]
    rcases List.mem_cons.mp h with h | h
    · cases h
      simp [Expr.eqb_refl]
    · rw [hd.1 k v h]
      simp only [Bool.false_eq_true, ↓reduceIte]
      exact lookup_of_mem hd.2 h

/-- a successful lookup of the whole node short-cuts `subsE` -/
theorem subsE_of_lookup {pp : Bool} {σ : Sigma} {e v : Expr} (h : lookup σ e = some v) : subsE pp σ e = v := by
  cases e <;> simp [subsE, h]

theorem subsE_of_lookup_none_leaf {pp : Bool} {σ : Sigma} {e : Expr} (h : lookup σ e = none)
    (hl : match e with | .add _ _ | .mul _ _ | .pow _ _ | .fsym _ _ | .app _ _ => False | _ => True) :
    subsE pp σ e = e := by
  cases e <;> simp_all [subsE]

/-- the invariant of the `visited` table -/
def TableOK (pp : Bool) (σ : Sigma) (m : Memo) : Prop :=
  (∀ k v, (k, v) ∈ m → v = subsE pp σ k) ∧ (∀ e, Memo.find m e = none → lookup σ e = none)

theorem tableOK_seed (pp : Bool) {σ : Sigma} (hd : KeysDistinct σ) : TableOK pp σ σ :=
  ⟨fun k v h => (subsE_of_lookup (lookup_of_mem hd h)).symm, fun _ h => h⟩

theorem tableOK_cons {pp : Bool} {σ : Sigma} {m : Memo} {k v : Expr} (hm : TableOK pp σ m)
    (hv : v = subsE pp σ k) : TableOK pp σ ((k, v) :: m) := by
  refine ⟨?_, ?_⟩
  · intro k' v' h
    rcases List.mem_cons.mp h with h | h
    · cases h; exact hv
    · exact hm.1 k' v' h
  · intro e h
    simp only [Memo.find] at h
    split at h
    · cases h
    · exact hm.2 e h

theorem table_find {pp : Bool} {σ : Sigma} : ∀ {m : Memo} {e d : Expr},
    (∀ k v, (k, v) ∈ m → v = subsE pp σ k) → Memo.find m e = some d → d = subsE pp σ e
  | [], e, d, _, h => by simp [Memo.find] at h
  | (k, v) :: t, e, d, hm, h => by
    simp only [Memo.find] at h
    split at h
    · rename_i hk
      cases h
      have := Expr.eqb_eq k e hk
      subst this
      exact hm k _ (List.mem_cons_self ..)
    · exact table_find (fun k' v' hkv => hm k' v' (List.mem_cons_of_mem _ hkv)) h

/-- `memoize key m k`: if `k` computes what `subsE` computes below a failed lookup, the result is `subsE σ key` -/
theorem memoize_subs {pp : Bool} {σ : Sigma} {key : Expr} {m : Memo} {k : Memo → Expr × Memo} {x : Expr}
    (hm : TableOK pp σ m) (hx : lookup σ key = none → subsE pp σ key = x)
    (hk : ∀ m', TableOK pp σ m' → (k m').1 = x ∧ TableOK pp σ (k m').2) :
    (memoize key m k).1 = subsE pp σ key ∧ TableOK pp σ (memoize key m k).2 := by
  unfold memoize
  split
  · rename_i d hd
    exact ⟨table_find hm.1 hd, hm⟩
  · rename_i hnone
    obtain ⟨h1, h2⟩ := hk m hm
    have hval : (k m).1 = subsE pp σ key := by rw [h1, hx (hm.2 key hnone)]
    exact ⟨hval, tableOK_cons h2 hval⟩

mutual
  theorem subsC_spec (pp : Bool) (σ : Sigma) : ∀ (e : Expr) (m : Memo), TableOK pp σ m →
      (subsC pp σ e m).1 = subsE pp σ e ∧ TableOK pp σ (subsC pp σ e m).2
    | .add c ts, m, hm => by
      unfold subsC
      refine memoize_subs (x := .add (subsE pp σ c) (subsTerms pp σ ts)) hm (fun h => by simp [subsE, h])
        (fun m' hm' => ?_)
      obtain ⟨h1, h2⟩ := subsC_spec pp σ c m' hm'
      obtain ⟨h3, h4⟩ := subsCTerms_spec pp σ ts _ h2
      exact ⟨by simp [h1, h3], h4⟩
    | .mul c fs, m, hm => by
      unfold subsC
      refine memoize_subs (x := .mul (subsE pp σ c) (subsFacs pp σ fs)) hm (fun h => by simp [subsE, h])
        (fun m' hm' => ?_)
      obtain ⟨h1, h2⟩ := subsC_spec pp σ c m' hm'
      obtain ⟨h3, h4⟩ := subsCFacs_spec pp σ fs _ h2
      exact ⟨by simp [h1, h3], h4⟩
    | .pow b e, m, hm => by
      unfold subsC
      refine memoize_subs (x := powNode pp σ (subsE pp σ b) (subsE pp σ e)) hm (fun h => by simp [subsE, h])
        (fun m' hm' => ?_)
      obtain ⟨h1, h2⟩ := subsC_spec pp σ b m' hm'
      obtain ⟨h3, h4⟩ := subsC_spec pp σ e _ h2
      exact ⟨by simp [h1, h3], h4⟩
    | .fsym f args, m, hm => by
      unfold subsC
      refine memoize_subs (x := .fsym f (subsList pp σ args)) hm (fun h => by simp [subsE, h]) (fun m' hm' => ?_)
      obtain ⟨h1, h2⟩ := subsCList_spec pp σ args m' hm'
      exact ⟨by simp [h1], h2⟩
    | .app hd args, m, hm => by
      unfold subsC
      refine memoize_subs (x := .app hd (subsList pp σ args)) hm (fun h => by simp [subsE, h]) (fun m' hm' => ?_)
      obtain ⟨h1, h2⟩ := subsCList_spec pp σ args m' hm'
      exact ⟨by simp [h1], h2⟩
    | .sym n, m, hm => by
      unfold subsC
      exact memoize_subs (x := .sym n) hm (fun h => by simp [subsE, h]) (fun m' hm' => ⟨rfl, hm'⟩)
    | .int n, m, hm => by
      unfold subsC
      exact memoize_subs (x := .int n) hm (fun h => by simp [subsE, h]) (fun m' hm' => ⟨rfl, hm'⟩)
    | .rat n d, m, hm => by
      unfold subsC
      exact memoize_subs (x := .rat n d) hm (fun h => by simp [subsE, h]) (fun m' hm' => ⟨rfl, hm'⟩)
    | .cplx a b, m, hm => by
      unfold subsC
      exact memoize_subs (x := .cplx a b) hm (fun h => by simp [subsE, h]) (fun m' hm' => ⟨rfl, hm'⟩)
    | .dbl a, m, hm => by
      unfold subsC
      exact memoize_subs (x := .dbl a) hm (fun h => by simp [subsE, h]) (fun m' hm' => ⟨rfl, hm'⟩)
    | .cdbl a b, m, hm => by
      unfold subsC
      exact memoize_subs (x := .cdbl a b) hm (fun h => by simp [subsE, h]) (fun m' hm' => ⟨rfl, hm'⟩)
    | .infty a, m, hm => by
      unfold subsC
      exact memoize_subs (x := .infty a) hm (fun h => by simp [subsE, h]) (fun m' hm' => ⟨rfl, hm'⟩)
    | .nan, m, hm => by
      unfold subsC
      exact memoize_subs (x := .nan) hm (fun h => by simp [subsE, h]) (fun m' hm' => ⟨rfl, hm'⟩)
    | .dummy a b, m, hm => by
      unfold subsC
      exact memoize_subs (x := .dummy a b) hm (fun h => by simp [subsE, h]) (fun m' hm' => ⟨rfl, hm'⟩)
    | .const a, m, hm => by
      unfold subsC
      exact memoize_subs (x := .const a) hm (fun h => by simp [subsE, h]) (fun m' hm' => ⟨rfl, hm'⟩)
    | .bool a, m, hm => by
      unfold subsC
      exact memoize_subs (x := .bool a) hm (fun h => by simp [subsE, h]) (fun m' hm' => ⟨rfl, hm'⟩)
  theorem subsCList_spec (pp : Bool) (σ : Sigma) : ∀ (l : List Expr) (m : Memo), TableOK pp σ m →
      (subsCList pp σ l m).1 = subsList pp σ l ∧ TableOK pp σ (subsCList pp σ l m).2
    | [], m, hm => by simp [subsCList, subsList, hm]
    | a :: t, m, hm => by
      obtain ⟨h1, h2⟩ := subsC_spec pp σ a m hm
      obtain ⟨h3, h4⟩ := subsCList_spec pp σ t _ h2
      simp only [subsCList, subsList]
      exact ⟨by rw [h1, h3], h4⟩
  theorem subsCTerms_spec (pp : Bool) (σ : Sigma) : ∀ (l : List (Expr × Expr)) (m : Memo), TableOK pp σ m →
      (subsCTerms pp σ l m).1 = subsTerms pp σ l ∧ TableOK pp σ (subsCTerms pp σ l m).2
    | [], m, hm => by simp [subsCTerms, subsTerms, hm]
    | (k, c) :: t, m, hm => by
      unfold subsCTerms
      simp only [subsTerms]
      cases hl : lookup σ (termKey k c) with
      | some w =>
        obtain ⟨h3, h4⟩ := subsCTerms_spec pp σ t m hm
        exact ⟨by simp [h3], h4⟩
      | none =>
        obtain ⟨h1, h2⟩ := subsC_spec pp σ k m hm
        obtain ⟨h1', h2'⟩ := subsC_spec pp σ c _ h2
        obtain ⟨h3, h4⟩ := subsCTerms_spec pp σ t _ h2'
        exact ⟨by simp [h1, h1', h3], h4⟩
  theorem subsCFacs_spec (pp : Bool) (σ : Sigma) : ∀ (l : List (Expr × Expr)) (m : Memo), TableOK pp σ m →
      (subsCFacs pp σ l m).1 = subsFacs pp σ l ∧ TableOK pp σ (subsCFacs pp σ l m).2
    | [], m, hm => by simp [subsCFacs, subsFacs, hm]
    | (b, e) :: t, m, hm => by
      unfold subsCFacs
      simp only [subsFacs]
      split
      · obtain ⟨h1, h2⟩ := subsC_spec pp σ b m hm
        obtain ⟨h3, h4⟩ := subsCFacs_spec pp σ t _ h2
        exact ⟨by simp [h1, h3], h4⟩
      · have key := memoize_subs (pp := pp) (σ := σ) (key := .pow b e) (m := m)
          (k := fun m =>
            let rb := subsC pp σ b m
            let re := subsC pp σ e rb.2
            (powNode pp σ rb.1 re.1, re.2))
          (x := powNode pp σ (subsE pp σ b) (subsE pp σ e)) hm (fun h => by simp [subsE, h])
          (fun m' hm' => by
            obtain ⟨h1, h2⟩ := subsC_spec pp σ b m' hm'
            obtain ⟨h3, h4⟩ := subsC_spec pp σ e _ h2
            exact ⟨by simp [h1, h3], h4⟩)
        obtain ⟨h1, h2⟩ := key
        obtain ⟨h3, h4⟩ := subsCFacs_spec pp σ t _ h2
        refine ⟨?_, h4⟩
        simp only [h1, h3]
        cases hl : lookup σ (.pow b e) <;> simp [subsE, hl]
end

/-- **Cache independence (model)**: with pairwise different keys, substituting with the `visited` table
(seeded with σ) gives literally the same tree as substituting without it. -/
theorem subs_cache (pp : Bool) (σ : Sigma) (hd : KeysDistinct σ) (e : Expr) :
    subsCached pp σ e = subsE pp σ e :=
  (subsC_spec pp σ e σ (tableOK_seed pp hd)).1

end Subs
end SymVerif
