/-
C02, part 1: the hypotheses bundle `OK`, "equal type code => same constructor", the list forms of the
loops, reflexivity (`beq' a a`, `cmp a a = 0`) and the range of `cmp`.
-/
import SymVerif.Lemmas.C02Leaf

namespace SymVerif
namespace Expr
open TC (Kind)

/-- the hypotheses of the order theorems: well-formed, no NaN double, no `-0.0` double -/
def OK (a : Expr) : Prop := WF a = true ∧ noNaN a = true ∧ noSignedZero a = true

theorem OK.children {a : Expr} (h : OK a) : ∀ x ∈ children a, OK x := fun x hx =>
  ⟨WF_children h.1 x hx, allNodes_children _ h.2.1 x hx, allNodes_children _ h.2.2 x hx⟩

/-! ### type code and constructor -/

def cix : Expr → Nat
  | int _ => 0 | rat _ _ => 1 | cplx _ _ => 2 | dbl _ => 3 | cdbl _ _ => 4 | infty _ => 5 | nan => 6
  | sym _ => 7 | dummy _ _ => 8 | const _ => 9 | add _ _ => 10 | mul _ _ => 11 | pow _ _ => 12
  | fsym _ _ => 13 | app _ _ => 14 | bool _ => 15

def isApp : Expr → Bool
  | app _ _ => true
  | _ => false

def builtinCodes : List Nat :=
  [TC.cInteger, TC.cRational, TC.cComplex, TC.cRealDouble, TC.cComplexDouble, TC.cInfty, TC.cNaN, TC.cSymbol,
   TC.cDummy, TC.cConstant, TC.cAdd, TC.cMul, TC.cPow, TC.cFunctionSymbol, TC.cBooleanAtom, TC.count]

/-- re-checked against the regenerated table: no built-in class (and not the out-of-range code of an
unknown head) is in the table of generically modelled classes -/
theorem builtin_kind_none : ∀ c ∈ builtinCodes, kindOfCode c = none := by decide

/-- re-checked against the regenerated table: the built-in classes have pairwise different type codes -/
theorem builtinCodes_nodup : builtinCodes.Nodup := by decide

theorem tc_builtin {a : Expr} (h : isApp a = false) : typeCode a ∈ builtinCodes := by
  cases a <;> simp_all [isApp, typeCode, builtinCodes]

theorem app_tc_not_builtin {a : Expr} (ia : isApp a = true) (hw : WF a = true) : typeCode a ∉ builtinCodes := by
  cases a <;> simp [isApp] at ia
  rename_i h args
  obtain ⟨k, hk, _⟩ := WF_app hw
  intro hm
  rw [builtin_kind_none _ hm] at hk
  cases hk

theorem tc_eq_ctor {a b : Expr} (ha : WF a = true) (hb : WF b = true) (hc : typeCode a = typeCode b) :
    cix a = cix b := by
  by_cases ia : isApp a = true <;> by_cases ib : isApp b = true
  · cases a <;> cases b <;> simp_all [isApp, cix]
  · exact absurd (hc ▸ tc_builtin (by simpa using ib)) (app_tc_not_builtin ia ha)
  · exact absurd (hc ▸ tc_builtin (by simpa using ia)) (app_tc_not_builtin ib hb)
  · have nd := builtinCodes_nodup
    cases a <;> cases b <;> first
      | rfl
      | (exfalso; revert hc; simp only [typeCode]; decide)
      | (exfalso; simp [isApp] at ia; done)
      | (exfalso; simp [isApp] at ib; done)

/-! ### the name table is injective on class names -/

theorem lookup_mem {α β : Type} [BEq α] [LawfulBEq α] : ∀ {l : List (α × β)} {k : α} {v : β},
    l.lookup k = some v → (k, v) ∈ l
  | [], _, _ => by simp
  | (k', v') :: t, k, v => by
    simp only [List.lookup]
    split
    · rename_i h
      intro hv
      have : k = k' := by simpa using h
      simp_all
    · intro hv
      exact List.mem_cons_of_mem _ (lookup_mem hv)

theorem snd_inj_of_nodup {α β : Type} : ∀ {l : List (α × β)}, (l.map Prod.snd).Nodup →
    ∀ {p q : α × β}, p ∈ l → q ∈ l → p.2 = q.2 → p = q
  | [], _, _, _, hp, _, _ => by simp at hp
  | x :: t, hn, p, q, hp, hq, e => by
    simp only [List.map_cons, List.nodup_cons, List.mem_map, not_exists, not_and] at hn
    rcases List.mem_cons.mp hp with rfl | hp' <;> rcases List.mem_cons.mp hq with rfl | hq'
    · rfl
    · exact absurd e.symm (hn.1 q hq')
    · exact absurd e (hn.1 p hp')
    · exact snd_inj_of_nodup hn.2 hp' hq' e

/-- re-checked against the regenerated table -/
theorem table_codes_nodup : (TC.table.map Prod.snd).Nodup := by decide

theorem ofName_inj {h h' : String} {c : Nat} (e : ofName h = some c) (e' : ofName h' = some c) : h = h' := by
  have m := lookup_mem e
  have m' := lookup_mem e'
  have := snd_inj_of_nodup table_codes_nodup m m' rfl
  exact congrArg Prod.fst this

theorem head_eq_of_tc {h h' : String} {as bs : List Expr} (hw : WF (app h as) = true)
    (hw' : WF (app h' bs) = true) (hc : typeCode (app h as) = typeCode (app h' bs)) : h = h' := by
  obtain ⟨k, hk, _⟩ := WF_app hw
  obtain ⟨k', hk', _⟩ := WF_app hw'
  simp only [typeCode] at hc hk hk'
  cases e : ofName h with
  | none =>
    rw [e] at hk; simp only [Option.getD_none] at hk
    rw [builtin_kind_none TC.count (by simp [builtinCodes])] at hk; cases hk
  | some c =>
    cases e' : ofName h' with
    | none =>
      rw [e'] at hk'; simp only [Option.getD_none] at hk'
      rw [builtin_kind_none TC.count (by simp [builtinCodes])] at hk'; cases hk'
    | some c' =>
      rw [e, e'] at hc
      simp only [Option.getD_some] at hc
      subst hc
      exact ofName_inj e e'

/-! ### list forms -/

theorem allFind_iff : ∀ {l l' : List (Expr × Expr)}, allFind l l' = true ↔
    ∀ p ∈ l, ∃ q ∈ l', hash q.1 = hash p.1 ∧ beq' p.1 q.1 = true ∧ beq' p.2 q.2 = true
  | [], l' => by simp [allFind]
  | (k, v) :: t, l' => by
    simp only [allFind, Bool.and_eq_true, List.any_eq_true, allFind_iff (l := t), List.mem_cons,
      forall_eq_or_imp, beq_iff_eq, and_assoc]

theorem cmpArgs_self : ∀ {l : List Expr}, (∀ x ∈ l, cmp x x = 0) → cmpArgs l l = 0
  | [], _ => by simp [cmpArgs]
  | a :: t, h => by
    rw [cmpArgs_cons, h a (List.mem_cons_self ..)]
    simpa using cmpArgs_self (fun x hx => h x (List.mem_cons_of_mem _ hx))

theorem beqArgs_self : ∀ {l : List Expr}, (∀ x ∈ l, beq' x x = true) → beqArgs l l = true
  | [], _ => by simp [beqArgs]
  | a :: t, h => by
    simp only [beqArgs, Bool.and_eq_true]
    exact ⟨h a (List.mem_cons_self ..), beqArgs_self (fun x hx => h x (List.mem_cons_of_mem _ hx))⟩

theorem beqArgs_length : ∀ {l l' : List Expr}, beqArgs l l' = true → l.length = l'.length
  | [], [] => by simp
  | [], _ :: _ => by simp [beqArgs]
  | _ :: _, [] => by simp [beqArgs]
  | a :: t, b :: t' => by
    simp only [beqArgs, Bool.and_eq_true, List.length_cons, Nat.add_right_cancel_iff]
    exact fun h => beqArgs_length h.2

theorem arityOK_ivFlags {args : List Expr} (h : arityOK Kind.interval args = true) :
    ∃ s e lo ro, args = [s, e, bool lo, bool ro] := by
  match args, h with
  | [s, e, bool lo, bool ro], _ => exact ⟨s, e, lo, ro, rfl⟩

theorem arityOK_one {args : List Expr} (h : arityOK Kind.one args = true) : ∃ x, args = [x] := by
  match args, h with
  | [x], _ => exact ⟨x, rfl⟩

theorem arityOK_two {args : List Expr} (h : arityOK Kind.two args = true) : ∃ x y, args = [x, y] := by
  match args, h with
  | [x, y], _ => exact ⟨x, y, rfl⟩

theorem arityOK_lex {n : Nat} {args : List Expr} (h : arityOK (Kind.lex n) args = true) : args.length = n := by
  simpa [arityOK] using h

/-! ### reflexivity -/

theorem refl_leaf_dbl {x : UInt64} (h : dblIsNaN x = false) : dblEq x x = true := by
  simp [dblEq, h]

theorem refl_all : ∀ a, OK a → beq' a a = true ∧ cmp a a = 0 := by
  apply induct_children
  intro a ih ok
  have ihc : ∀ x ∈ children a, beq' x x = true ∧ cmp x x = 0 := fun x hx => ih x hx (ok.children x hx)
  have nn := allNodes_self _ ok.2.1
  cases a with
  | int n => simp [beq', cmp_int, cmpInt]
  | rat n d => simp [beq', cmp_rat, cmpQ]
  | cplx r i => simp [beq', cmp_cplx]
  | dbl x =>
    simp only [notNaNNode, Bool.not_eq_true'] at nn
    simp [beq', cmp_dbl, cmpDbl, refl_leaf_dbl nn]
  | cdbl r i =>
    simp only [notNaNNode, Bool.and_eq_true, Bool.not_eq_true'] at nn
    simp [beq', cmp_cdbl, refl_leaf_dbl nn.1, refl_leaf_dbl nn.2]
  | infty d => simp [beq', cmp_infty, cmpInt]
  | nan => simp [beq', cmp_nan]
  | sym n => simp [beq', cmp_sym, cmpStr]
  | dummy n i => simp [beq', cmp_dummy, cmpNat]
  | const n => simp [beq', cmp_const, cmpStr]
  | bool b => cases b <;> simp [beq', cmp_bool]
  | add c ts =>
    constructor
    · rw [beq'_add]
      simp only [Bool.and_eq_true, beq_iff_eq, true_and]
      refine ⟨⟨(ihc c (by simp [children])).1, trivial⟩, ?_⟩
      rw [allFind_iff]
      intro p hp
      have h1 : p.1 ∈ children (add c ts) := by
        simp only [children, List.mem_cons]; right; exact mem_flat.mpr ⟨p, hp, Or.inl rfl⟩
      have h2 : p.2 ∈ children (add c ts) := by
        simp only [children, List.mem_cons]; right; exact mem_flat.mpr ⟨p, hp, Or.inr rfl⟩
      exact ⟨p, hp, rfl, (ihc _ h1).1, (ihc _ h2).1⟩
    · rw [cmp_add]; simp only [bne_self_eq_false, Bool.false_eq_true, ↓reduceIte]
      exact cmpArgs_self (fun x hx => (ihc x hx).2)
  | mul c fs =>
    constructor
    · rw [beq'_mul]; exact beqArgs_self (fun x hx => (ihc x hx).1)
    · rw [cmp_mul]; simp only [bne_self_eq_false, Bool.false_eq_true, ↓reduceIte]
      exact cmpArgs_self (fun x hx => (ihc x hx).2)
  | pow b e =>
    constructor
    · rw [beq'_pow]; exact beqArgs_self (fun x hx => (ihc x hx).1)
    · rw [cmp_pow]; exact cmpArgs_self (fun x hx => (ihc x hx).2)
  | fsym n args =>
    constructor
    · rw [beq'_fsym]; simp only [beq_self_eq_true, Bool.true_and]
      exact beqArgs_self (fun x hx => (ihc x hx).1)
    · rw [cmp_fsym]; simp only [beq_self_eq_true, ↓reduceIte, bne_self_eq_false, Bool.false_eq_true]
      exact cmpArgs_self (fun x hx => (ihc x hx).2)
  | app h args =>
    have ca : cmpArgs args args = 0 := cmpArgs_self (fun x hx => (ihc x hx).2)
    constructor
    · rw [beq'_app]; simp only [beq_self_eq_true, Bool.true_and]
      exact beqArgs_self (fun x hx => (ihc x hx).1)
    · rw [cmp_app rfl]
      obtain ⟨k, hk, har⟩ := WF_app ok.1
      rw [hk]
      cases k with
      | one =>
        obtain ⟨x, rfl⟩ := arityOK_one har
        simp [appCmp, ca]
      | two =>
        obtain ⟨x, y, rfl⟩ := arityOK_two har
        have bx := (ihc x (by simp [children])).1
        have cy := (ihc y (by simp [children])).2
        simp [appCmp, cmpTwo, bx, cmpArgs, cy]
      | multi => simp [appCmp, ca]
      | set => simp [appCmp, ca]
      | lex n =>
        have := arityOK_lex har
        simp [appCmp, ca, this]
      | interval =>
        obtain ⟨s, e, lo, ro, rfl⟩ := arityOK_ivFlags har
        cases lo <;> cases ro <;> simp [appCmp, ivFlags, ca]

theorem beq'_refl {a : Expr} (h : OK a) : beq' a a = true := (refl_all a h).1
theorem cmp_refl {a : Expr} (h : OK a) : cmp a a = 0 := (refl_all a h).2

end Expr
end SymVerif
