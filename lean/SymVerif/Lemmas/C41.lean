import SymVerif.Model.Conc
import SymVerif.Lemmas.C40
/-! Inductive invariant of the interleaving semantics (thread-safe build: `atomic = true`). -/
namespace SymVerif.Conc
open SymVerif.RC (sum_map_set lt_of_getElem?)

/-- what must hold of one thread -/
def ThreadOk (s0 : State) (nodes : List Node) (tid : Nat) (t : Thread) : Prop :=
  (t.fault = none ∨ t.fault = some .notHeld) ∧
  t.results = seqResults s0.nodes t.past ∧
  (∃ t0, s0.threads[tid]? = some t0 ∧ t.past ++ t.prog = t0.prog) ∧
  (∀ (o : Nat) (rest : List TOp) (n : Node), t.prog = .hash o :: rest → t.phase = .hashHit →
      nodes[o]? = some n → n.hash = n.H)

structure Inv (s0 s : State) : Prop where
  imm : ∀ (o : Nat) (n : Node), s.nodes[o]? = some n → ∃ n0, s0.nodes[o]? = some n0 ∧ n.val = n0.val ∧ n.H = n0.H
  hashv : ∀ (o : Nat) (n : Node), s.nodes[o]? = some n → n.hash = 0 ∨ n.hash = n.H
  counts : ∀ o, totalHeld s o = cnt s o
  pos : ∀ (o : Nat) (n : Node), s.nodes[o]? = some n → n.live = true → 0 < n.count
  nthreads : s.threads.length = s0.threads.length
  thr : ∀ (tid : Nat) (t : Thread), s.threads[tid]? = some t → ThreadOk s0 s.nodes tid t

theorem getElem?_set' {α : Type} (l : List α) (i j : Nat) (a : α) :
    (l.set i a)[j]? = if i = j then (if i < l.length then some a else none) else l[j]? := by
  simp [List.getElem?_set]

theorem set_self {α : Type} : ∀ (l : List α) (i : Nat) (a : α), l[i]? = some a → l.set i a = l := by
  intro l
  induction l with
  | nil => intro i a h; simp at h
  | cons x xs ih =>
    intro i a h
    cases i with
    | zero => simp at h; subst h; rfl
    | succ i => simp at h; simp [ih i a h]

theorem totalHeld_set {s s' : State} {tid : Nat} {t t' : Thread} (ht : s.threads[tid]? = some t)
    (hs : s'.threads = s.threads.set tid t') (x : Nat) :
    totalHeld s' x + t.held.count x = totalHeld s x + t'.held.count x := by
  unfold totalHeld
  rw [hs]
  exact sum_map_set (fun t => t.held.count x) s.threads tid t' t ht

theorem cnt_set {s s' : State} {o : Nat} {n n' : Node} (hn : s.nodes[o]? = some n)
    (hs : s'.nodes = s.nodes.set o n') (x : Nat) :
    cnt s' x = if x = o then (if n'.live then n'.count else 0) else cnt s x := by
  have hl := lt_of_getElem? hn
  unfold cnt
  rw [hs, getElem?_set']
  by_cases hx : x = o
  · subst hx; simp [hl]
  · have : ¬ o = x := fun e => hx e.symm
    simp [hx, this]

/-- update of one node and one thread -/
theorem inv_update {s0 s s' : State} (i : Inv s0 s) {tid o : Nat} {t t' : Thread} {n n' : Node}
    (ht : s.threads[tid]? = some t) (hn : s.nodes[o]? = some n)
    (hthreads : s'.threads = s.threads.set tid t') (hnodes : s'.nodes = s.nodes.set o n')
    (himm : n'.val = n.val ∧ n'.H = n.H)
    (hhash : n'.hash = n.hash ∨ n'.hash = n'.H)
    (hcount : (if n'.live then n'.count else 0) + t.held.count o = (if n.live then n.count else 0) + t'.held.count o)
    (hheld : ∀ x, x ≠ o → t'.held.count x = t.held.count x)
    (hpos : n'.live = true → 0 < n'.count)
    (hthr : ThreadOk s0 s'.nodes tid t') : Inv s0 s' := by
  have hlo := lt_of_getElem? hn
  have hlt := lt_of_getElem? ht
  have nodes' : ∀ x, s'.nodes[x]? = if o = x then some n' else s.nodes[x]? := by
    intro x; rw [hnodes, getElem?_set']; simp [hlo]
  have threads' : ∀ x, s'.threads[x]? = if tid = x then some t' else s.threads[x]? := by
    intro x; rw [hthreads, getElem?_set']; simp [hlt]
  have hash' : n.hash = n.H → n'.hash = n'.H := by
    intro h; rcases hhash with h1 | h1
    · rw [h1, h, himm.2]
    · exact h1
  refine ⟨?_, ?_, ?_, ?_, ?_, ?_⟩
  · intro x m hm
    rw [nodes'] at hm
    by_cases e : o = x
    · subst e; simp at hm; subst hm
      obtain ⟨n0, h1, h2, h3⟩ := i.imm o n hn
      exact ⟨n0, h1, by rw [himm.1]; exact h2, by rw [himm.2]; exact h3⟩
    · simp [e] at hm; exact i.imm x m hm
  · intro x m hm
    rw [nodes'] at hm
    by_cases e : o = x
    · subst e; simp at hm; subst hm
      rcases hhash with h1 | h1
      · rcases i.hashv o n hn with h2 | h2
        · left; rw [h1, h2]
        · right; exact hash' h2
      · right; exact h1
    · simp [e] at hm; exact i.hashv x m hm
  · intro x
    have h1 := totalHeld_set ht hthreads x
    have h2 := cnt_set hn hnodes x
    have h3 := i.counts x
    by_cases e : x = o
    · subst e
      have hc : cnt s x = if n.live then n.count else 0 := by unfold cnt; simp [hn]
      simp at h2; omega
    · have := hheld x e
      simp [e] at h2; omega
  · intro x m hm hl
    rw [nodes'] at hm
    by_cases e : o = x
    · subst e; simp at hm; subst hm; exact hpos hl
    · simp [e] at hm; exact i.pos x m hm hl
  · rw [hthreads]; simp [i.nthreads]
  · intro x u hu
    rw [threads'] at hu
    by_cases e : tid = x
    · subst e; simp at hu; subst hu; exact hthr
    · simp [e] at hu
      obtain ⟨a, b, c, d⟩ := i.thr x u hu
      refine ⟨a, b, c, ?_⟩
      intro y rest m hp hph hm
      rw [nodes'] at hm
      by_cases e2 : o = y
      · subst e2; simp at hm; subst hm
        exact hash' (d o rest n hp hph hn)
      · simp [e2] at hm; exact d y rest m hp hph hm

/-- update of one thread only (references held unchanged) -/
theorem inv_thread_only {s0 s s' : State} (i : Inv s0 s) {tid : Nat} {t t' : Thread}
    (ht : s.threads[tid]? = some t) (hthreads : s'.threads = s.threads.set tid t') (hnodes : s'.nodes = s.nodes)
    (hheld : t'.held = t.held) (hthr : ThreadOk s0 s.nodes tid t') : Inv s0 s' := by
  have hlt := lt_of_getElem? ht
  have threads' : ∀ x, s'.threads[x]? = if tid = x then some t' else s.threads[x]? := by
    intro x; rw [hthreads, getElem?_set']; simp [hlt]
  refine ⟨?_, ?_, ?_, ?_, ?_, ?_⟩
  · rw [hnodes]; exact i.imm
  · rw [hnodes]; exact i.hashv
  · intro x
    have h1 := totalHeld_set ht hthreads x
    have h3 := i.counts x
    have : cnt s' x = cnt s x := by unfold cnt; rw [hnodes]
    rw [hheld] at h1; omega
  · rw [hnodes]; exact i.pos
  · rw [hthreads]; simp [i.nthreads]
  · intro x u hu
    rw [threads'] at hu
    rw [hnodes]
    by_cases e : tid = x
    · subst e; simp at hu; subst hu; exact hthr
    · simp [e] at hu; exact i.thr x u hu

theorem seqResults_append (nodes : List Node) : ∀ (a b : List TOp),
    seqResults nodes (a ++ b) = seqResults nodes a ++ seqResults nodes b := by
  intro a
  induction a with
  | nil => intro b; rfl
  | cons op ops ih =>
    intro b
    cases op <;> simp [seqResults, ih]

/-- a thread that holds `o` can rely on `o` being there and alive -/
theorem Inv.held_live {s0 s : State} (i : Inv s0 s) {tid o : Nat} {t : Thread}
    (ht : s.threads[tid]? = some t) (hh : t.held.contains o = true) :
    ∃ n, s.nodes[o]? = some n ∧ n.live = true ∧ 0 < n.count := by
  have hmem : o ∈ t.held := by simpa using hh
  have h1 : 0 < t.held.count o := List.count_pos_iff.mpr hmem
  have h2 : t.held.count o ≤ totalHeld s o := by
    have := totalHeld_set (s' := { s with threads := s.threads.set tid { t with held := [] } }) ht rfl o
    simp at this; omega
  have h3 := i.counts o
  have h4 : 0 < cnt s o := by omega
  unfold cnt at h4
  cases hn : s.nodes[o]? with
  | none => simp [hn] at h4
  | some n =>
    simp [hn] at h4
    by_cases hl : n.live = true
    · exact ⟨n, rfl, hl, i.pos o n hn hl⟩
    · simp [hl] at h4

theorem setThread_threads (s : State) (tid : Nat) (t : Thread) : (setThread s tid t).threads = s.threads.set tid t := rfl
theorem setThread_nodes (s : State) (tid : Nat) (t : Thread) : (setThread s tid t).nodes = s.nodes := rfl

theorem step_inv (s0 s : State) (tid : Nat) (i : Inv s0 s) : Inv s0 (step true s tid) := by
  unfold step
  cases ht : s.threads[tid]? with
  | none => exact i
  | some t =>
    simp only []
    by_cases hf : t.fault.isSome = true
    · simp only [hf, if_true]; exact i
    · rw [if_neg hf]
      have hfn : t.fault = none := by cases h : t.fault <;> simp [h] at hf ⊢
      obtain ⟨tf, tres, ⟨t0, ht0, tpast⟩, thit⟩ := i.thr tid t ht
      cases hp : t.prog with
      | nil => exact i
      | cons op rest =>
        simp only []
        -- the object the operation works on
        generalize ho : op.target = o
        by_cases hh : t.held.contains o = true
        · obtain ⟨n, hn, hl, hc⟩ := i.held_live ht hh
          simp only [hh, hn, hl, Bool.not_true, Bool.false_eq_true, if_false]
          have hmem : o ∈ t.held := by simpa using hh
          obtain ⟨n0, hn0, hv0, hH0⟩ := i.imm o n hn
          have tpast' : (t.past ++ [op]) ++ rest = t0.prog := by rw [← tpast, hp]; simp
          cases op with
          | hash o' =>
            simp [TOp.target] at ho; subst ho
            cases hph : t.phase with
            | hashMiss =>
              simp only []
              refine inv_update i ht hn rfl rfl ⟨rfl, rfl⟩ (Or.inr rfl) (by simp [hl]) (fun _ _ => rfl)
                (fun _ => hc) ?_
              refine ⟨Or.inl hfn, tres, ⟨t0, ht0, by simpa [hp] using tpast⟩, ?_⟩
              intro y rs m hpy _ hm
              simp [hp] at hpy
              obtain ⟨e1, _⟩ := hpy; subst e1
              change (s.nodes.set o' _)[o']? = some m at hm
              rw [getElem?_set'] at hm
              simp [lt_of_getElem? hn] at hm
              subst hm; rfl
            | hashHit =>
              simp only []
              refine inv_thread_only i ht rfl rfl rfl ?_
              have hnh : n.hash = n.H := thit o' rest n hp hph hn
              refine ⟨Or.inl hfn, ?_, ⟨t0, ht0, tpast'⟩, ?_⟩
              · show t.results ++ [n.hash] = seqResults s0.nodes (t.past ++ [TOp.hash o'])
                rw [seqResults_append, ← tres]
                simp [seqResults, hn0, hnh, hH0]
              · intro y rs m _ hph' _
                simp [Thread.complete] at hph'
            | idle =>
              simp only []
              refine inv_thread_only i ht rfl rfl rfl ?_
              refine ⟨Or.inl hfn, tres, ⟨t0, ht0, by simpa [hp] using tpast⟩, ?_⟩
              intro y rs m hpy hph' hm
              simp [hp] at hpy
              obtain ⟨e1, _⟩ := hpy; subst e1
              rw [hn] at hm; simp at hm; subst hm
              by_cases hz : n.hash = 0
              · simp [hz] at hph'
              · rcases i.hashv o' n hn with h | h
                · exact absurd h hz
                · exact h
            | rcLoaded r =>
              simp only []
              refine inv_thread_only i ht rfl rfl rfl ?_
              refine ⟨Or.inl hfn, tres, ⟨t0, ht0, by simpa [hp] using tpast⟩, ?_⟩
              intro y rs m hpy hph' hm
              simp [hp] at hpy
              obtain ⟨e1, _⟩ := hpy; subst e1
              rw [hn] at hm; simp at hm; subst hm
              by_cases hz : n.hash = 0
              · simp [hz] at hph'
              · rcases i.hashv o' n hn with h | h
                · exact absurd h hz
                · exact h
          | read o' =>
            simp [TOp.target] at ho; subst ho
            simp only []
            refine inv_thread_only i ht rfl rfl rfl ?_
            refine ⟨Or.inl hfn, ?_, ⟨t0, ht0, tpast'⟩, ?_⟩
            · show t.results ++ [n.val] = seqResults s0.nodes (t.past ++ [TOp.read o'])
              rw [seqResults_append, ← tres]
              simp [seqResults, hn0, hv0]
            · intro y rs m _ hph' _
              simp [Thread.complete] at hph'
          | copy o' =>
            simp [TOp.target] at ho; subst ho
            simp only [if_true]
            refine inv_update i ht hn rfl rfl ⟨rfl, rfl⟩ (Or.inl rfl) ?_ ?_ ?_ ?_
            · simp [hl, Thread.complete, List.count_cons]; omega
            · intro x hx
              have : ¬ o' = x := fun e => hx e.symm
              simp [Thread.complete, List.count_cons, this]
            · intro _; simp
            · refine ⟨Or.inl hfn, ?_, ⟨t0, ht0, tpast'⟩, ?_⟩
              · show t.results = seqResults s0.nodes (t.past ++ [TOp.copy o'])
                rw [seqResults_append, ← tres]; simp [seqResults]
              · intro y rs m _ hph' _
                simp [Thread.complete] at hph'
          | drop o' =>
            simp [TOp.target] at ho; subst ho
            have hc0 : ¬ n.count = 0 := by omega
            simp only [if_true, hc0, if_false]
            refine inv_update i ht hn rfl rfl ⟨rfl, rfl⟩ (Or.inl rfl) ?_ ?_ ?_ ?_
            · have h1 : 0 < t.held.count o' := List.count_pos_iff.mpr hmem
              have h2 : (t.held.erase o').count o' = t.held.count o' - 1 := by
                simp [List.count_erase_self]
              simp only [Thread.complete, hl, if_true, h2]
              by_cases hz : n.count - 1 = 0
              · simp [hz]; omega
              · simp [hz]; omega
            · intro x hx
              have : ¬ (x == o') = true := by simpa using hx
              simp [Thread.complete, List.count_erase_of_ne hx]
            · intro h
              have h' : ¬ (n.count - 1 = 0) := by simpa using h
              show 0 < n.count - 1
              omega
            · refine ⟨Or.inl hfn, ?_, ⟨t0, ht0, tpast'⟩, ?_⟩
              · show t.results = seqResults s0.nodes (t.past ++ [TOp.drop o'])
                rw [seqResults_append, ← tres]; simp [seqResults]
              · intro y rs m _ hph' _
                simp [Thread.complete] at hph'
        · -- ill-formed program: the thread stops with `notHeld`
          have hb : t.held.contains o = false := by simpa using hh
          simp only [hb, Bool.not_false, if_true]
          refine inv_thread_only i ht rfl rfl rfl ?_
          exact ⟨Or.inr rfl, tres, ⟨t0, ht0, tpast⟩, thit⟩

theorem run_inv (s0 : State) : ∀ (sched : List Nat) (s : State), Inv s0 s → Inv s0 (runSched true s sched) := by
  intro sched
  induction sched with
  | nil => intro s i; exact i
  | cons tid rest ih => intro s i; exact ih _ (step_inv s0 s tid i)

end SymVerif.Conc
