import SymVerif.Model.MpSpec
import SymVerif.Model.MpBoost
/-! C43, division families: the floor/ceiling fix-ups of `mp_fdiv_qr` / `mp_cdiv_qr` (mp_boost.cpp)
on top of Boost's truncated `divide_qr` give GMP's `fdiv`/`cdiv` results for all four sign combinations. -/
namespace SymVerif.C43
open SymVerif

theorem tmod_sign_nonpos {a : Int} (b : Int) (h : a ≤ 0) : a.tmod b ≤ 0 := by
  have h1 : 0 ≤ (-a).tmod b := Int.tmod_nonneg b (by omega)
  rw [Int.neg_tmod] at h1
  omega

theorem dvd_iff_tmod {a b : Int} : b ∣ a ↔ a.tmod b = 0 :=
  ⟨fun h => Int.tmod_eq_zero_of_dvd h, fun h => Int.dvd_of_tmod_eq_zero h⟩

/-- floor quotient / remainder from the truncated ones, as a case table -/
theorem fdiv_fmod_cases (a b : Int) (hb : b ≠ 0) :
    (a.tmod b = 0 → a.fdiv b = a.tdiv b ∧ a.fmod b = 0) ∧
    (a.tmod b ≠ 0 → ((0 ≤ a ↔ 0 < b) → a.fdiv b = a.tdiv b ∧ a.fmod b = a.tmod b) ∧
                    (¬(0 ≤ a ↔ 0 < b) → a.fdiv b = a.tdiv b - 1 ∧ a.fmod b = a.tmod b + b)) := by
  have hd := @dvd_iff_tmod a b
  rw [Int.fdiv_eq_tdiv, Int.fmod_eq_tmod]
  have hs1 : 0 < b → b.sign = 1 := fun h => Int.sign_eq_one_of_pos h
  have hs2 : b < 0 → b.sign = -1 := fun h => Int.sign_eq_neg_one_of_neg h
  refine ⟨fun h0 => ?_, fun h0 => ⟨fun hs => ?_, fun hs => ?_⟩⟩
  · have : b ∣ a := hd.mpr h0
    simp [this, h0]
  · have : ¬ b ∣ a := fun h => h0 (hd.mp h)
    simp only [this, if_false]
    by_cases ha : 0 ≤ a
    · have hb' : 0 < b := hs.mp ha
      have : 0 ≤ b := by omega
      simp [ha, this]
    · have hb' : ¬ 0 < b := fun h => ha (hs.mpr h)
      have hb'' : b < 0 := by omega
      have : ¬ 0 ≤ b := by omega
      have h3 := hs2 hb''
      simp only [ha, this, if_false, h3]
      have : b.toNat = 0 := by omega
      omega
  · have : ¬ b ∣ a := fun h => h0 (hd.mp h)
    simp only [this, if_false]
    by_cases ha : 0 ≤ a
    · have hb'' : b < 0 := by
        rcases Int.lt_or_gt_of_ne hb with h | h
        · exact h
        · exact absurd ⟨fun _ => h, fun _ => ha⟩ hs
      have : ¬ 0 ≤ b := by omega
      simp [ha, this]
    · have hb'' : 0 < b := by
        rcases Int.lt_or_gt_of_ne hb with h | h
        · exact absurd ⟨fun h' => absurd h' ha, fun h' => absurd h' (by omega)⟩ hs
        · exact h
      have : 0 ≤ b := by omega
      have h3 := hs1 hb''
      simp only [ha, this, if_false, if_true, h3]
      refine ⟨trivial, ?_⟩
      rw [Int.natAbs_of_nonneg this]

/-- `mp_fdiv_qr` returns `(⌊a/b⌋, a - b⌊a/b⌋)` for all four sign combinations -/
theorem boost_fdivQr_spec (a b : Int) (hb : b ≠ 0) :
    MpBoost.fdivQr a b = (MpSpec.fdivQ a b, MpSpec.fdivR a b) := by
  obtain ⟨c0, c1⟩ := fdiv_fmod_cases a b hb
  have hneg := @tmod_sign_nonpos a b
  have hpos := @Int.tmod_nonneg a b
  unfold MpBoost.fdivQr MpBoost.divideQr MpSpec.fdivQ MpSpec.fdivR
  by_cases h0 : a.tmod b = 0
  · obtain ⟨e1, e2⟩ := c0 h0
    simp [h0, e1, e2]
  · obtain ⟨d1, d2⟩ := c1 h0
    by_cases hs : (0 ≤ a ↔ 0 < b)
    · obtain ⟨e1, e2⟩ := d1 hs
      rw [e1, e2]
      by_cases ha : 0 ≤ a
      · have hb' := hs.mp ha
        have := hpos ha
        have h1 : ¬ a < 0 := by omega
        have h2 : ¬ b < 0 := by omega
        have h3 : ¬ a.tmod b < 0 := by omega
        simp [h1, h2, h3, hb']
      · have hb' : ¬ 0 < b := fun h => ha (hs.mpr h)
        have := hneg (by omega)
        have h1 : a < 0 := by omega
        have h2 : ¬ 0 < a := by omega
        have h3 : ¬ 0 < a.tmod b := by omega
        simp [h1, h2, h3, hb']
    · obtain ⟨e1, e2⟩ := d2 hs
      rw [e1, e2]
      by_cases ha : 0 ≤ a
      · have hb' : b < 0 := by
          rcases Int.lt_or_gt_of_ne hb with h | h
          · exact h
          · exact absurd ⟨fun _ => h, fun _ => ha⟩ hs
        have := hpos ha
        have h1 : 0 < a := by
          rcases Int.lt_or_gt_of_ne (show a ≠ 0 from fun h => h0 (by simp [h])) with h | h <;> omega
        have h3 : 0 < a.tmod b := by omega
        have h4 : ¬ 0 < b := by omega
        simp [h1, h3, hb', h0, h4]
      · have hb' : 0 < b := by
          rcases Int.lt_or_gt_of_ne hb with h | h
          · exact absurd ⟨fun h' => absurd h' ha, fun h' => absurd h' (by omega)⟩ hs
          · exact h
        have := hneg (by omega)
        have h1 : a < 0 := by omega
        have h3 : a.tmod b < 0 := by omega
        simp [h1, h3, hb', h0]

theorem boost_fdivQ_spec (a b : Int) (hb : b ≠ 0) : MpBoost.fdivQ a b = MpSpec.fdivQ a b := by
  simp [MpBoost.fdivQ, boost_fdivQr_spec a b hb]

theorem boost_fdivR_spec (a b : Int) (hb : b ≠ 0) : MpBoost.fdivR a b = MpSpec.fdivR a b := by
  simp [MpBoost.fdivR, boost_fdivQr_spec a b hb]


/-- `mp_cdiv_q` (through `mp_cdiv_qr`) returns `⌈a/b⌉ = -⌊-a/b⌋` for all four sign combinations -/
theorem boost_cdivQ_spec (a b : Int) (hb : b ≠ 0) : MpBoost.cdivQ a b = MpSpec.cdivQ a b := by
  obtain ⟨c0, c1⟩ := fdiv_fmod_cases (-a) b hb
  rw [Int.neg_tmod, Int.neg_tdiv] at c0 c1
  unfold MpBoost.cdivQ MpBoost.cdivQr MpBoost.divideQr MpSpec.cdivQ
  by_cases h0 : a.tmod b = 0
  · obtain ⟨e1, _⟩ := c0 (by omega)
    rw [e1]
    simp [h0]
  · obtain ⟨d1, d2⟩ := c1 (by omega)
    have ha0 : a ≠ 0 := fun h => h0 (by simp [h])
    by_cases hs : (0 ≤ -a ↔ 0 < b)
    · obtain ⟨e1, _⟩ := d1 hs
      rw [e1]
      have hpq : ¬ ((a < 0 ∧ b < 0) ∨ (0 < a ∧ 0 < b)) := by
        rintro (⟨h1, h2⟩ | ⟨h1, h2⟩)
        · have := hs.mp (by omega); omega
        · have := hs.mpr h2; omega
      have : ((decide (a < 0) && decide (b < 0) || decide (a > 0) && decide (b > 0)) && (a.tmod b != 0)) = false := by
        simp only [Bool.and_eq_false_iff, Bool.or_eq_false_iff, decide_eq_false_iff_not]
        left
        constructor
        · have := hs; omega
        · have := hs; omega
      simp only [this]
      split <;> simp
    · obtain ⟨e1, _⟩ := d2 hs
      rw [e1]
      have hpq : (a < 0 ∧ b < 0) ∨ (0 < a ∧ 0 < b) := by
        by_cases ha : a < 0
        · left
          refine ⟨ha, ?_⟩
          rcases Int.lt_or_gt_of_ne hb with h | h
          · exact h
          · exact absurd ⟨fun _ => h, fun _ => by omega⟩ hs
        · right
          have ha' : 0 < a := by omega
          refine ⟨ha', ?_⟩
          rcases Int.lt_or_gt_of_ne hb with h | h
          · exact absurd ⟨fun h' => by omega, fun h' => by omega⟩ hs
          · exact h
      have : ((decide (a < 0) && decide (b < 0) || decide (a > 0) && decide (b > 0)) && (a.tmod b != 0)) = true := by
        rcases hpq with ⟨h1, h2⟩ | ⟨h1, h2⟩ <;> simp [h1, h2, h0]
      simp only [this]
      split <;> simp <;> omega

/-- `mp_tdiv_qr`, `mp_tdiv_q`, `operator/`, `operator%` are Boost's truncated division itself -/
theorem boost_tdivQr_spec (a b : Int) : MpBoost.tdivQr a b = (MpSpec.tdivQ a b, MpSpec.tdivR a b) := rfl
theorem boost_tdivQ_spec (a b : Int) : MpBoost.tdivQ a b = MpSpec.tdivQ a b := rfl

end SymVerif.C43
