import SymVerif.Lemmas.C46Abs
/-!
C46: the invariant `AInv` holds initially and is preserved by every iteration (`astep`).
-/
namespace SymVerif.C46
open SymVerif.LDE

theorem cmp_incAt_ge (t : Vec) (j x : ℕ) : cmp t x ≤ cmp (incAt t j 1) x := by
  rw [cmp_incAt]; split <;> omega

theorem exists_lt_of_ne {u v : Vec} (hl : u.length = v.length) (hle : ∀ i, cmp u i ≤ cmp v i)
    (hne : u ≠ v) : ∃ j, j < u.length ∧ cmp u j < cmp v j := by
  by_contra hcon
  push Not at hcon
  apply hne
  apply vec_ext hl
  intro i
  by_cases hi : i < u.length
  · have := hcon i hi; have := hle i; omega
  · rw [cmp_of_le_length (by omega), cmp_of_le_length (by omega)]

theorem fz_replicate_false (q i : ℕ) : fz (Array.replicate q false) i = false := by
  unfold fz
  rw [Array.getD_eq_getD_getElem?]
  by_cases h : i < q
  · simp [h]
  · simp [h]

theorem AInv.init (A : List Vec) (q : ℕ) (hq : 0 < q) :
    AInv A q [(List.replicate q 0, Array.replicate q false)] [] where
  shape := by
    intro e he
    rw [List.mem_singleton] at he
    subst he
    exact ⟨by simp, by simp, fun i => by rw [cmp_replicate_zero]⟩
  free := by
    intro e he
    rw [List.mem_singleton] at he
    subst he
    have : cnt (Array.replicate q false) = 0 := by unfold cnt; rw [Array.count_replicate]; simp
    rw [this]; exact hq
  depth := ⟨by simp, trivial⟩
  pair := List.pairwise_singleton _ _
  noreach := fun b hb => absurd hb (by simp)
  nodom := fun b hb => absurd hb (by simp)
  minimal := fun b hb => absurd hb (by simp)
  complete := by
    intro m hm
    right
    refine ⟨_, List.mem_singleton.mpr rfl, ?_, ?_⟩
    · intro i; rw [cmp_replicate_zero]; exact hm.1.2.1 i
    · intro i hi
      rw [fz_replicate_false] at hi
      exact absurd hi (by simp)
  nodup := List.nodup_nil

theorem AInv.step_sol {A : List Vec} {q : ℕ} {t : Vec} {F : Array Bool} {rest : List Ent}
    {basis : List Vec} (h : AInv A q ((t, F) :: rest) basis)
    (hz : isZero (mulVec A t) = true) (hnz : isZero t = false) :
    AInv A q rest (t :: basis) := by
  obtain ⟨htl, hFs, htnn⟩ : t.length = q ∧ F.size = q ∧ ∀ i, 0 ≤ cmp t i :=
    h.shape (t, F) List.mem_cons_self
  have hpair : (∀ e ∈ rest, (∃ i, fz F i = true ∧ cmp t i < cmp e.1 i) ∧ (∃ i, cmp e.1 i < cmp t i))
      ∧ rest.Pairwise Rrel := List.pairwise_cons.mp h.pair
  have hsolt : IsSol A q t := ⟨htl, htnn, hz, hnz⟩
  refine ⟨fun e he => h.shape e (List.mem_cons_of_mem _ he),
    fun e he => h.free e (List.mem_cons_of_mem _ he), h.depth.2, hpair.2, ?_, ?_, ?_, ?_, ?_⟩
  · -- noreach
    intro b hb e he
    rcases List.mem_cons.mp hb with rfl | hb
    · obtain ⟨⟨i, _, hlt⟩, _⟩ := hpair.1 e he
      intro hr
      have := hr.1 i
      omega
    · exact h.noreach b hb e (List.mem_cons_of_mem _ he)
  · -- nodom
    intro b hb e he
    rcases List.mem_cons.mp hb with rfl | hb
    · obtain ⟨_, ⟨i, hlt⟩⟩ := hpair.1 e he
      rintro ⟨hle, _⟩
      have := hle i
      omega
    · exact h.nodom b hb e (List.mem_cons_of_mem _ he)
  · -- minimal
    intro b hb
    rcases List.mem_cons.mp hb with rfl | hb
    · refine ⟨hsolt, ?_⟩
      intro v hv hle
      by_contra hne
      obtain ⟨m, hm, hmle⟩ := exists_minimal_le A q _ v hv (le_refl _)
      have hmt : ∀ i, cmp m i ≤ cmp b i := fun i => le_trans (hmle i) (hle i)
      have hmne : b ≠ m := by
        rintro rfl
        apply hne
        exact vec_ext (hv.1.trans htl.symm) (fun i => le_antisymm (hle i) (hmle i))
      rcases h.complete m hm with hmem | ⟨e, he, hr⟩
      · exact h.nodom m hmem (b, F) List.mem_cons_self ⟨hmt, hmne⟩
      · rcases List.mem_cons.mp he with rfl | he
        · apply hmne
          exact vec_ext (htl.trans hm.1.1.symm) (fun i => le_antisymm (hr.1 i) (hmt i))
        · obtain ⟨⟨i, _, hlt⟩, _⟩ := hpair.1 e he
          have := hr.1 i
          have := hmt i
          omega
    · exact h.minimal b hb
  · -- complete
    intro m hm
    rcases h.complete m hm with hmem | ⟨e, he, hr⟩
    · exact Or.inl (List.mem_cons_of_mem _ hmem)
    · rcases List.mem_cons.mp he with rfl | he
      · left
        have := hm.2 t hsolt hr.1
        rw [this]; exact List.mem_cons_self
      · exact Or.inr ⟨e, he, hr⟩
  · -- nodup
    rw [List.nodup_cons]
    refine ⟨?_, h.nodup⟩
    intro hmem
    exact h.noreach t hmem (t, F) List.mem_cons_self ⟨fun _ => le_refl _, fun _ _ => rfl⟩

theorem AInv.step_expand {A : List Vec} {q : ℕ} (hA : ∀ r ∈ A, r.length = q) {t : Vec}
    {F : Array Bool} {rest : List Ent} {basis : List Vec} (h : AInv A q ((t, F) :: rest) basis)
    (hbr : ¬ (isZero (mulVec A t) = true ∧ isZero t = false)) :
    AInv A q ((akids A (mulVec A t) basis (isZero t) t q 0 F).reverse ++ rest) basis := by
  obtain ⟨htl, hFs, htnn⟩ : t.length = q ∧ F.size = q ∧ ∀ i, 0 ≤ cmp t i :=
    h.shape (t, F) List.mem_cons_self
  have hpair : (∀ e ∈ rest, (∃ i, fz F i = true ∧ cmp t i < cmp e.1 i) ∧ (∃ i, cmp e.1 i < cmp t i))
      ∧ rest.Pairwise Rrel := List.pairwise_cons.mp h.pair
  have hkid : ∀ e ∈ akids A (mulVec A t) basis (isZero t) t q 0 F,
      ∃ j, j < q ∧ e.1 = incAt t j 1 ∧ fz e.2 j = false ∧ e.2.size = q ∧
        (∀ x, fz F x = true → fz e.2 x = true) ∧
        kcond A (mulVec A t) basis (isZero t) t j = true := by
    intro e he
    obtain ⟨j, _, h2, h3, h4, h5, h6, h7⟩ := akids_mem A (mulVec A t) basis (isZero t) t q 0 F e he
    exact ⟨j, by omega, h3, h4, h5.trans hFs, h6, h7⟩
  refine ⟨?_, ?_, ?_, ?_, ?_, ?_, h.minimal, ?_, h.nodup⟩
  · -- shape
    intro e he
    rcases List.mem_append.mp he with he | he
    · obtain ⟨j, _, h3, _, h5, _, _⟩ := hkid e (List.mem_reverse.mp he)
      refine ⟨by rw [h3, length_incAt, htl], h5, ?_⟩
      intro i
      rw [h3]
      exact le_trans (htnn i) (cmp_incAt_ge t j i)
    · exact h.shape e (List.mem_cons_of_mem _ he)
  · -- free
    intro e he
    rcases List.mem_append.mp he with he | he
    · obtain ⟨j, hjq, _, h4, h5, _, _⟩ := hkid e (List.mem_reverse.mp he)
      have := cnt_lt_of_false (F := e.2) (i := j) (by omega) h4
      omega
    · exact h.free e (List.mem_cons_of_mem _ he)
  · -- depth
    exact akids_depth A (mulVec A t) basis (isZero t) t q 0 F rest (by omega) h.depth.2 h.depth.1
  · -- pair
    rw [List.pairwise_append]
    refine ⟨?_, hpair.2, ?_⟩
    · rw [List.pairwise_reverse]
      refine (akids_pairwise A (mulVec A t) basis (isZero t) t q q 0 F (by omega) hFs).imp ?_
      rintro e1 e2 ⟨a, b, ha, hb, hab, h1, h2, h3⟩
      refine ⟨⟨a, h3, ?_⟩, ⟨b, ?_⟩⟩
      · rw [h1, h2, cmp_incAt, cmp_incAt]
        have : ¬ (a = b ∧ b < t.length) := by omega
        have h' : a = a ∧ a < t.length := ⟨rfl, by omega⟩
        rw [if_neg this, if_pos h']; omega
      · rw [h1, h2, cmp_incAt, cmp_incAt]
        have : ¬ (b = a ∧ a < t.length) := by omega
        have h' : b = b ∧ b < t.length := ⟨rfl, by omega⟩
        rw [if_neg this, if_pos h']; omega
    · intro e' he' e he
      obtain ⟨j, _, h3, h4, _, h6, _⟩ := hkid e' (List.mem_reverse.mp he')
      obtain ⟨⟨i, hFi, hlt⟩, ⟨i', hlt'⟩⟩ := hpair.1 e he
      refine ⟨⟨i, h6 i hFi, ?_⟩, ⟨i', ?_⟩⟩
      · have hij : i ≠ j := by
          rintro rfl
          rw [h6 i hFi] at h4; exact absurd h4 (by simp)
        rw [h3, cmp_incAt]
        have : ¬ (i = j ∧ j < t.length) := by omega
        rw [if_neg this]; exact hlt
      · rw [h3]
        exact lt_of_lt_of_le hlt' (cmp_incAt_ge t j i')
  · -- noreach
    intro b hb e he
    rcases List.mem_append.mp he with he | he
    · obtain ⟨j, _, h3, h4, _, h6, _⟩ := hkid e (List.mem_reverse.mp he)
      intro hr
      apply h.noreach b hb (t, F) List.mem_cons_self
      refine ⟨fun x => le_trans (cmp_incAt_ge t j x) (by rw [← h3]; exact hr.1 x), ?_⟩
      intro x hx
      have hxj : x ≠ j := by
        rintro rfl
        rw [h6 x hx] at h4; exact absurd h4 (by simp)
      have := hr.2 x (h6 x hx)
      rw [this, h3, cmp_incAt]
      have : ¬ (x = j ∧ j < t.length) := by omega
      rw [if_neg this]
    · exact h.noreach b hb e (List.mem_cons_of_mem _ he)
  · -- nodom
    intro b hb e he
    rcases List.mem_append.mp he with he | he
    · obtain ⟨j, hjq, h3, _, _, _, h7⟩ := hkid e (List.mem_reverse.mp he)
      have hbs := (h.minimal b hb).1
      unfold kcond at h7
      rw [Bool.or_eq_true] at h7
      rcases h7 with h7 | h7
      · rw [Bool.and_eq_true] at h7
        have hord := (isMinimum_spec _ _).mp h7.2 b hb
        rw [h3]
        intro hcon
        have := (order_spec (t := incAt t j 1) (b := b) (by rw [length_incAt, htl, hbs.1])).mpr hcon
        rw [hord] at this
        exact absurd this (by simp)
      · -- t = 0, the child is a unit vector
        have ht0 := (isZero_iff t).mp h7
        rintro ⟨hle, hne⟩
        rw [h3] at hle hne
        have hT : ∀ x, cmp (incAt t j 1) x = if x = j then 1 else 0 := by
          intro x
          rw [cmp_incAt, ht0 x]
          by_cases hx : x = j
          · have : x = j ∧ j < t.length := ⟨hx, by omega⟩
            rw [if_pos this, if_pos hx]; rfl
          · have : ¬ (x = j ∧ j < t.length) := fun h' => hx h'.1
            rw [if_neg this, if_neg hx]
        by_cases hbj : cmp b j = 1
        · apply hne
          apply vec_ext (by rw [length_incAt, htl, hbs.1])
          intro x
          rw [hT x]
          by_cases hx : x = j
          · rw [if_pos hx, hx, hbj]
          · rw [if_neg hx]
            have h1 := hle x
            rw [hT x, if_neg hx] at h1
            have := hbs.2.1 x
            omega
        · have hzero : isZero b = true := by
            rw [isZero_iff]
            intro x
            have h1 := hle x
            rw [hT x] at h1
            have h2 := hbs.2.1 x
            by_cases hx : x = j
            · rw [if_pos hx] at h1
              subst hx
              omega
            · rw [if_neg hx] at h1
              omega
          rw [hbs.2.2.2] at hzero
          exact absurd hzero (by simp)
    · exact h.nodom b hb e (List.mem_cons_of_mem _ he)
  · -- complete
    intro m hm
    rcases h.complete m hm with hmem | ⟨e, he, hr⟩
    · exact Or.inl hmem
    · rcases List.mem_cons.mp he with rfl | he
      · right
        have hml := hm.1.1
        have htm : t ≠ m := by
          rintro rfl
          exact hbr ⟨hm.1.2.2.1, hm.1.2.2.2⟩
        have hw : ∃ j, 0 ≤ j ∧ j < q ∧ cmp t j < cmp m j ∧
            kcond A (mulVec A t) basis (isZero t) t j = true := by
          cases htz : isZero t with
          | true =>
            obtain ⟨j, hj, hlt⟩ := exists_lt_of_ne (htl.trans hml.symm) hr.1 htm
            exact ⟨j, Nat.zero_le _, by omega, hlt, by simp [kcond]⟩
          | false =>
            have hAt : isZero (mulVec A t) = false := by
              cases hz : isZero (mulVec A t) with
              | false => rfl
              | true => exact absurd ⟨hz, htz⟩ hbr
            obtain ⟨j, hjq, hlt, hneg⟩ := exists_descent q A hA m t hml htl hr.1 hm.1.2.2.1 hAt
            refine ⟨j, Nat.zero_le _, hjq, hlt, ?_⟩
            unfold kcond
            rw [Bool.or_eq_true, Bool.and_eq_true]
            left
            refine ⟨by simpa using hneg, ?_⟩
            rw [isMinimum_spec]
            intro b hb
            have hbs := (h.minimal b hb).1
            cases hord : order (incAt t j 1) b with
            | false => rfl
            | true =>
              exfalso
              have hTm : ∀ x, cmp (incAt t j 1) x ≤ cmp m x := by
                intro x
                rw [cmp_incAt]
                by_cases hx : x = j ∧ j < t.length
                · rw [if_pos hx, hx.1]; omega
                · rw [if_neg hx]; exact hr.1 x
              obtain ⟨hle, hne⟩ := (order_spec (t := incAt t j 1) (b := b)
                (by rw [length_incAt, htl, hbs.1])).mp hord
              have hbm := hm.2 b hbs (fun x => le_trans (hle x) (hTm x))
              apply hne
              rw [hbm]
              apply vec_ext (by rw [length_incAt, htl, hml])
              intro x
              have := hle x
              rw [hbm] at this
              exact le_antisymm (hTm x) this
        obtain ⟨e, he, hre⟩ := akids_reach A (mulVec A t) basis (isZero t) t q m htl hr.1 q 0 F
          (by omega) hFs hr.2 hw
        exact ⟨e, List.mem_append_left _ (List.mem_reverse.mpr he), hre⟩
      · exact Or.inr ⟨e, List.mem_append_right _ he, hr⟩

/-- the invariant is preserved by every iteration -/
theorem AInv.step {A : List Vec} {q : ℕ} (hA : ∀ r ∈ A, r.length = q) {L : List Ent}
    {basis : List Vec} (h : AInv A q L basis) :
    AInv A q (astep A q (L, basis)).1 (astep A q (L, basis)).2 := by
  match L, h with
  | [], h => simpa [astep] using h
  | (t, F) :: rest, h =>
    by_cases hc : (isZero (mulVec A t) && !isZero t) = true
    · have he : astep A q ((t, F) :: rest, basis) = (rest, t :: basis) := by simp [astep, hc]
      rw [he]
      rw [Bool.and_eq_true] at hc
      exact h.step_sol hc.1 (by simpa using hc.2)
    · have he : astep A q ((t, F) :: rest, basis)
          = ((akids A (mulVec A t) basis (isZero t) t q 0 F).reverse ++ rest, basis) := by
        simp [astep, hc]
      rw [he]
      apply h.step_expand hA
      rintro ⟨h1, h2⟩
      apply hc
      simp [h1, h2]

end SymVerif.C46
