/-
Kernel evaluation of the multinomial model on the small tables (separate file: slow to check).
-/
import SymVerif.Lemmas.C09Multinomial

namespace SymVerif
namespace Multinomial

/-- totality and completeness for the small tables (kernel evaluation of the model): no error, and the table
has exactly `C(n + m − 1, m − 1)` distinct keys, i.e. (with `multinomial_sound`) every composition of `n` into
`m` parts occurs. -/
theorem multinomial_small_complete :
    ∀ m ∈ [2, 3, 4, 5], ∀ n ∈ [0, 1, 2, 3, 4, 5, 6],
      (match multinomial m n with
       | .ok r => decide ((sortTab r).length = Nat.choose (n + m - 1) (m - 1)) && decide ((sortTab r).map (·.1)).Nodup
       | .error _ => false) = true := by
  decide +kernel

/-- non-vacuity: `(a + b + c)^4` -/
example : multinomial 3 4 = .ok [([0, 0, 4], 1), ([0, 1, 3], 4), ([1, 0, 3], 4), ([0, 2, 2], 6), ([1, 1, 2], 12),
    ([2, 0, 2], 6), ([0, 3, 1], 4), ([1, 2, 1], 12), ([2, 1, 1], 12), ([3, 0, 1], 4), ([0, 4, 0], 1), ([1, 3, 0], 4),
    ([2, 2, 0], 6), ([3, 1, 0], 4), ([4, 0, 0], 1)] := by decide +kernel

end Multinomial
end SymVerif
