/-
The mutual induction: `toT` succeeds on serialisable expressions, `semT` rebuilds the expression, and the
graph is well formed at its load site.
-/
import SymVerif.Lemmas.C19Ser

namespace SymVerif.Codec
open SymVerif.Gen.SerialCodes

theorem semFlds_ptrs : ∀ (l : List T) (es : List Expr), semTs l = .ok es →
    semFlds (l.map .ptr) = .ok (es.map .ptr)
  | [], es, h => by simp [semTs] at h; subst h; rfl
  | t :: ts, es, h => by
    simp only [semTs] at h
    split at h
    · simp at h
    · rename_i e he
      split at h
      · simp at h
      · rename_i es' hes
        simp at h; subst h
        simp [semFlds, semFld, he, semFlds_ptrs ts es' hes]

theorem ptrs_map : ∀ es : List Expr, ptrs (es.map .ptr) = some es
  | [] => rfl
  | e :: es => by simp [ptrs, ptrs_map es]

theorem semTs_length : ∀ (l : List T) (es : List Expr), semTs l = .ok es → l.length = es.length
  | [], es, h => by simp [semTs] at h; subst h; rfl
  | t :: ts, es, h => by
    simp only [semTs] at h
    split at h
    · simp at h
    · split at h
      · simp at h
      · rename_i es' hes
        simp at h; subst h
        simp [semTs_length ts es' hes]

theorem lookup_all {P : NK → Bool} : ∀ (l : List (String × NK)), l.all (fun p => P p.2) = true →
    ∀ a k, l.lookup a = some k → P k = true
  | [], _, a, k, h => by simp [List.lookup] at h
  | (n, k') :: t, hall, a, k, h => by
    simp only [List.all_cons, Bool.and_eq_true] at hall
    simp only [List.lookup_cons] at h
    split at h
    · simp at h; subst h; exact hall.1
    · exact lookup_all t hall.2 a k h

theorem kindOfName_vec_elem {h : String} {el : Nat} {c : Cls} {d : Bool} (hk : kindOfName h = .vec el c d) : el ≤ 8 := by
  unfold kindOfName at hk
  split at hk
  · simp at hk
  · split at hk
    · rename_i k hlook
      subst hk
      have hall : kindByName.all (fun p => (match p.2 with | .vec e _ _ => decide (e ≤ 8) | _ => true)) = true := by decide
      have := lookup_all (P := fun k => match k with | .vec e _ _ => decide (e ≤ 8) | _ => true) kindByName hall _ _ hlook
      simpa using this
    · simp at hk

theorem boolByte_ne (b : Bool) : (boolByte b != 0) = b := by cases b <;> decide

section
variable (cap : Nat) (hcap : 2 ^ 20 ≤ cap) (lab : List Nat → UInt64)
include hcap

set_option linter.unusedSectionVars false
set_option maxHeartbeats 1000000

mutual
  theorem sem_toT : ∀ (e : Expr) (c : Cls) (p : List Nat), Ser c e →
      ∃ t, toT lab p e = some t ∧ semT t = .ok e ∧ WfT cap c t
    | .int n, c, p, h => by
      obtain ⟨hc, hn⟩ := h
      obtain ⟨s, w⟩ := intNode_ok cap hcap lab p n c hc hn
      exact ⟨_, rfl, s, w⟩
    | .rat n d, c, p, h => by
      obtain ⟨hc, ⟨hn, hd, hcase⟩, h2⟩ := h
      have hg : Nat.gcd n.natAbs d = 1 := by
        rcases hcase with h1 | ⟨_, hg⟩
        · simp at h1; omega
        · exact hg
      have hne : (d == 1) = false := by simp; omega
      obtain ⟨s, w⟩ := ratNode_ok cap hcap lab p n d c hc hn hd h2 hg
      refine ⟨_, ?_, s, w⟩
      simp [toT, qNode, hne]
    | .cplx re im, c, p, h => by
      obtain ⟨hc, hre, him, hnz⟩ := h
      obtain ⟨e1, s1, q1, w1, _⟩ := qNode_ok cap hcap lab (p ++ [0]) re hre
      obtain ⟨e2, s2, q2, w2, _⟩ := qNode_ok cap hcap lab (p ++ [1]) im him
      have hs : semT (.mk (lab p) (codeOf "Complex") [.ptr (qNode lab (p ++ [0]) re), .ptr (qNode lab (p ++ [1]) im)])
          = .ok (.cplx re im) := by
        simp only [semT, semFlds, semFld, s1, s2]
        rw [show className (codeOf "Complex") = "Complex" from by decide,
            show kindOfName "Complex" = NK.complex from by decide]
        have : (im.num == 0) = false := by simpa using hnz
        simp [build, fromTwoNums, q1, q2, this]
      refine ⟨_, rfl, hs, by decide, ⟨[.ptr .number, .ptr .number], by decide, ⟨w1, w2, trivial⟩⟩, ⟨_, hs, hc⟩, ?_⟩
      rw [show className (codeOf "Complex") = "Complex" from by decide]; exact hc
    | .dbl b, c, p, h => by
      obtain ⟨s, w⟩ := dblNode_ok cap hcap lab p b c h
      exact ⟨_, rfl, s, w⟩
    | .cdbl re im, c, p, h => by
      obtain ⟨s1, w1⟩ := dblNode_ok cap hcap lab (p ++ [0]) re .number (by decide)
      obtain ⟨s2, w2⟩ := dblNode_ok cap hcap lab (p ++ [1]) im .number (by decide)
      have hs : semT (.mk (lab p) (codeOf "ComplexDouble") [.ptr (dblNode lab (p ++ [0]) re), .ptr (dblNode lab (p ++ [1]) im)])
          = .ok (.cdbl re im) := by
        simp only [semT, semFlds, semFld, s1, s2]
        rw [show className (codeOf "ComplexDouble") = "ComplexDouble" from by decide,
            show kindOfName "ComplexDouble" = NK.cdouble from by decide]
        simp [build]
      refine ⟨_, rfl, hs, by decide, ⟨[.ptr .number, .ptr .number], by decide, ⟨w1, w2, trivial⟩⟩, ⟨_, hs, h⟩, ?_⟩
      rw [show className (codeOf "ComplexDouble") = "ComplexDouble" from by decide]; exact h
    | .infty d, c, p, h => by
      obtain ⟨hc, hd⟩ := h
      obtain ⟨s1, w1⟩ := intNode_ok cap hcap lab (p ++ [0]) d .number (by decide) hd
      have hs : semT (.mk (lab p) (codeOf "Infty") [.ptr (intNode lab (p ++ [0]) d)]) = .ok (.infty d) := by
        simp only [semT, semFlds, semFld, s1]
        rw [show className (codeOf "Infty") = "Infty" from by decide,
            show kindOfName "Infty" = NK.infty from by decide]
        simp [build]
      refine ⟨_, rfl, hs, by decide, ⟨[.ptr .number], by decide, ⟨w1, trivial⟩⟩, ⟨_, hs, hc⟩, ?_⟩
      rw [show className (codeOf "Infty") = "Infty" from by decide]; exact hc
    | .nan, c, p, h => by
      have hs : semT (.mk (lab p) (codeOf "NaN") []) = .ok .nan := by
        simp only [semT, semFlds]
        rw [show className (codeOf "NaN") = "NaN" from by decide,
            show kindOfName "NaN" = NK.nan from by decide]
        simp [build]
      refine ⟨_, rfl, hs, by decide, ⟨[], by decide, trivial⟩, ⟨_, hs, h⟩, ?_⟩
      rw [show className (codeOf "NaN") = "NaN" from by decide]; exact h
    | .sym s, c, p, h => by
      obtain ⟨hc, hok, hlen⟩ := h
      have hs : semT (.mk (lab p) (codeOf "Symbol") [.str (bytesOfName s)]) = .ok (.sym s) := by
        simp only [semT, semFlds, semFld]
        rw [show className (codeOf "Symbol") = "Symbol" from by decide,
            show kindOfName "Symbol" = NK.symbol from by decide]
        simp [build, nameOfBytes_bytesOfName hok]
      have hl : (bytesOfName s).length < 65536 := by simpa [bytesOfName] using hlen
      refine ⟨_, rfl, hs, by decide, ⟨[.str], by decide, ⟨wf_str cap hcap hl, trivial⟩⟩, ⟨_, hs, hc⟩, ?_⟩
      rw [show className (codeOf "Symbol") = "Symbol" from by decide]; exact hc
    | .dummy s i, c, p, h => by
      obtain ⟨hc, ⟨hok, hlen⟩, hi⟩ := h
      have hs : semT (.mk (lab p) (codeOf "Dummy") [.str (bytesOfName s), .u64 (UInt64.ofNat i)]) = .ok (.dummy s i) := by
        simp only [semT, semFlds, semFld]
        rw [show className (codeOf "Dummy") = "Dummy" from by decide,
            show kindOfName "Dummy" = NK.dummy from by decide]
        have : (UInt64.ofNat i).toNat = i := by
          simp only [UInt64.toNat_ofNat']; exact Nat.mod_eq_of_lt hi
        simp [build, nameOfBytes_bytesOfName hok, this]
      have hl : (bytesOfName s).length < 65536 := by simpa [bytesOfName] using hlen
      refine ⟨_, rfl, hs, by decide, ⟨[.str, .u64], by decide, ⟨wf_str cap hcap hl, trivial, trivial⟩⟩, ⟨_, hs, hc⟩, ?_⟩
      rw [show className (codeOf "Dummy") = "Dummy" from by decide]; exact hc
    | .const s, c, p, h => by
      obtain ⟨hc, hok, hlen⟩ := h
      have hs : semT (.mk (lab p) (codeOf "Constant") [.str (bytesOfName s)]) = .ok (.const s) := by
        simp only [semT, semFlds, semFld]
        rw [show className (codeOf "Constant") = "Constant" from by decide,
            show kindOfName "Constant" = NK.constant from by decide]
        simp [build, nameOfBytes_bytesOfName hok]
      have hl : (bytesOfName s).length < 65536 := by simpa [bytesOfName] using hlen
      refine ⟨_, rfl, hs, by decide, ⟨[.str], by decide, ⟨wf_str cap hcap hl, trivial⟩⟩, ⟨_, hs, hc⟩, ?_⟩
      rw [show className (codeOf "Constant") = "Constant" from by decide]; exact hc
    | .add co ts, c, p, h => by
      obtain ⟨hc, hco, hps, hnd, hlen⟩ := h
      obtain ⟨tc, e1, s1, w1⟩ := sem_toT co .number (p ++ [0]) hco
      obtain ⟨l, e2, s2, w2, hl⟩ := sem_toTPairs ts .basic .number p 1 0 rfl hps
      have hs : semT (.mk (lab p) (codeOf "Add") [.ptr tc, .seq 2 l]) = .ok (.add co ts) := by
        simp only [semT, semFlds, semFld, s1, s2]
        rw [show className (codeOf "Add") = "Add" from by decide,
            show kindOfName "Add" = NK.add from by decide]
        simp [build, pairUp_flatPairs, dedupPairs_nodup ts [] (by simp) hnd]
      refine ⟨_, by simp [toT, e1, e2], hs, by decide, ⟨[.ptr .number, .seq 0 [.basic, .number]], by decide, ⟨w1, ?_, trivial⟩⟩, ⟨_, hs, hc⟩, ?_⟩
      · exact ⟨rfl, by decide, ⟨ts.length, by simpa using hl, by omega, by simp⟩, w2⟩
      · rw [show className (codeOf "Add") = "Add" from by decide]; exact hc
    | .mul co ts, c, p, h => by
      obtain ⟨hc, hco, hps, hnd, hlen⟩ := h
      obtain ⟨tc, e1, s1, w1⟩ := sem_toT co .number (p ++ [0]) hco
      obtain ⟨l, e2, s2, w2, hl⟩ := sem_toTPairs ts .basic .basic p 1 0 rfl hps
      have hs : semT (.mk (lab p) (codeOf "Mul") [.ptr tc, .seq 2 l]) = .ok (.mul co ts) := by
        simp only [semT, semFlds, semFld, s1, s2]
        rw [show className (codeOf "Mul") = "Mul" from by decide,
            show kindOfName "Mul" = NK.mul from by decide]
        simp [build, pairUp_flatPairs, dedupPairs_nodup ts [] (by simp) hnd]
      refine ⟨_, by simp [toT, e1, e2], hs, by decide, ⟨[.ptr .number, .seq 0 [.basic, .basic]], by decide, ⟨w1, ?_, trivial⟩⟩, ⟨_, hs, hc⟩, ?_⟩
      · exact ⟨rfl, by decide, ⟨ts.length, by simpa using hl, by omega, by simp⟩, w2⟩
      · rw [show className (codeOf "Mul") = "Mul" from by decide]; exact hc
    | .pow b ex, c, p, h => by
      obtain ⟨hc, hb, he⟩ := h
      obtain ⟨t1, e1, s1, w1⟩ := sem_toT b .basic (p ++ [0]) hb
      obtain ⟨t2, e2, s2, w2⟩ := sem_toT ex .basic (p ++ [1]) he
      have hs : semT (.mk (lab p) (codeOf "Pow") [.ptr t1, .ptr t2]) = .ok (.pow b ex) := by
        simp only [semT, semFlds, semFld, s1, s2]
        rw [show className (codeOf "Pow") = "Pow" from by decide,
            show kindOfName "Pow" = NK.pow from by decide]
        simp [build]
      refine ⟨_, by simp [toT, e1, e2], hs, by decide, ⟨[.ptr .basic, .ptr .basic], by decide, ⟨w1, w2, trivial⟩⟩, ⟨_, hs, hc⟩, ?_⟩
      rw [show className (codeOf "Pow") = "Pow" from by decide]; exact hc
    | .fsym n args, c, p, h => by
      obtain ⟨hc, ⟨hok, hnl⟩, hargs, hlen⟩ := h
      obtain ⟨l, e1, s1, w1, hl⟩ := sem_toTs_all args .basic p 0 0 hargs
      have hs : semT (.mk (lab p) (codeOf "FunctionSymbol") [.str (bytesOfName n), .seq 1 l]) = .ok (.fsym n args) := by
        simp only [semT, semFlds, semFld, s1]
        rw [show className (codeOf "FunctionSymbol") = "FunctionSymbol" from by decide,
            show kindOfName "FunctionSymbol" = NK.fsym from by decide]
        simp [build, nameOfBytes_bytesOfName hok]
      have hbl : (bytesOfName n).length < 65536 := by simpa [bytesOfName] using hnl
      refine ⟨_, by simp [toT, e1], hs, by decide, ⟨[.str, .seq 8 [.basic]], by decide, ⟨wf_str cap hcap hbl, ?_, trivial⟩⟩, ⟨_, hs, hc⟩, ?_⟩
      · exact ⟨rfl, by decide, ⟨args.length, by simp [hl], by omega, by intro _; omega⟩, w1⟩
      · rw [show className (codeOf "FunctionSymbol") = "FunctionSymbol" from by decide]; exact hc
    | .bool b, c, p, h => by
      have hs : semT (.mk (lab p) (codeOf "BooleanAtom") [.byte (boolByte b)]) = .ok (.bool b) := by
        simp only [semT, semFlds, semFld]
        rw [show className (codeOf "BooleanAtom") = "BooleanAtom" from by decide,
            show kindOfName "BooleanAtom" = NK.boolAtom from by decide]
        simp [build, boolByte_ne]
      refine ⟨_, rfl, hs, by decide, ⟨[.byte], by decide, ⟨trivial, trivial⟩⟩, ⟨_, hs, h⟩, ?_⟩
      rw [show className (codeOf "BooleanAtom") = "BooleanAtom" from by decide]; exact h
    | .app hd args, c, p, h => by
      obtain ⟨hmem, hc, hlen, hk⟩ := h
      have hcn := className_codeOf hmem
      rcases hk with ⟨cs, hkind, hargs⟩ | ⟨el, c', dd, hkind, hargs, hnd⟩
      · obtain ⟨l, e1, s1, w1⟩ := sem_toTs_args args cs p 0 hargs
        have hs : semT (.mk (lab p) (codeOf hd) (l.map .ptr)) = .ok (.app hd args) := by
          simp only [semT, semFlds_ptrs l args s1, hcn, hkind]
          simp [build, ptrs_map]
        refine ⟨_, by simp [toT, e1, hkind], hs, codeOf_lt hmem, ⟨cs.map .ptr, by rw [hcn, hkind]; rfl, w1⟩, ⟨_, hs, hc⟩, ?_⟩
        rw [hcn]; exact hc
      · obtain ⟨l, e1, s1, w1, hl⟩ := sem_toTs_all args c' p 0 0 hargs
        have hs : semT (.mk (lab p) (codeOf hd) [.seq 1 l]) = .ok (.app hd args) := by
          simp only [semT, semFlds, semFld, s1, hcn, hkind]
          cases dd with
          | false => simp [build]
          | true => simp [build, dedupArgs_nodup args [] (by simp) (hnd rfl)]
        refine ⟨_, by simp [toT, e1, hkind], hs, codeOf_lt hmem, ⟨[.seq el [c']], by rw [hcn, hkind]; rfl, ⟨?_, trivial⟩⟩, ⟨_, hs, hc⟩, ?_⟩
        · refine ⟨rfl, by simp, ⟨args.length, by simp [hl], by omega, ?_⟩, w1⟩
          intro _
          have h8 : el ≤ 8 := kindOfName_vec_elem hkind
          have : args.length * el ≤ 65536 * 8 := Nat.mul_le_mul (by omega) h8
          omega
        · rw [hcn]; exact hc
  theorem sem_toTs_args : ∀ (args : List Expr) (cs : List Cls) (p : List Nat) (i : Nat), SerArgs cs args →
      ∃ l, toTs lab p i args = some l ∧ semTs l = .ok args ∧ WfFlds cap (cs.map .ptr) (l.map .ptr)
    | [], cs, p, i, h => by
      cases cs with
      | nil => exact ⟨[], rfl, rfl, trivial⟩
      | cons c cs => simp [SerArgs] at h
    | a :: as, cs, p, i, h => by
      cases cs with
      | nil => simp [SerArgs] at h
      | cons c cs =>
        obtain ⟨h1, h2⟩ := h
        obtain ⟨t, e1, s1, w1⟩ := sem_toT a c (p ++ [i]) h1
        obtain ⟨l, e2, s2, w2⟩ := sem_toTs_args as cs p (i + 1) h2
        exact ⟨t :: l, by simp [toTs, e1, e2], by simp [semTs, s1, s2], ⟨w1, w2⟩⟩
  theorem sem_toTs_all : ∀ (args : List Expr) (c' : Cls) (p : List Nat) (i j : Nat), SerAll c' args →
      ∃ l, toTs lab p i args = some l ∧ semTs l = .ok args ∧ WfSeq cap [c'] j l ∧ l.length = args.length
    | [], c', p, i, j, _ => ⟨[], rfl, rfl, trivial, rfl⟩
    | a :: as, c', p, i, j, h => by
      obtain ⟨h1, h2⟩ := h
      obtain ⟨t, e1, s1, w1⟩ := sem_toT a c' (p ++ [i]) h1
      obtain ⟨l, e2, s2, w2, hl⟩ := sem_toTs_all as c' p (i + 1) (j + 1) h2
      refine ⟨t :: l, by simp [toTs, e1, e2], by simp [semTs, s1, s2], ⟨?_, w2⟩, by simp [hl]⟩
      simpa [Nat.mod_one] using w1
  theorem sem_toTPairs : ∀ (ts : List (Expr × Expr)) (ck cv : Cls) (p : List Nat) (i j : Nat), j % 2 = 0 →
      SerPairs ck cv ts →
      ∃ l, toTPairs lab p i ts = some l ∧ semTs l = .ok (flatPairs ts) ∧ WfSeq cap [ck, cv] j l ∧ l.length = ts.length * 2
    | [], ck, cv, p, i, j, _, _ => ⟨[], rfl, rfl, trivial, rfl⟩
    | (k, v) :: t, ck, cv, p, i, j, hj, h => by
      obtain ⟨h1, h2, h3⟩ := h
      obtain ⟨tk, e1, s1, w1⟩ := sem_toT k ck (p ++ [i]) h1
      obtain ⟨tv, e2, s2, w2⟩ := sem_toT v cv (p ++ [i + 1]) h2
      obtain ⟨l, e3, s3, w3, hl⟩ := sem_toTPairs t ck cv p (i + 2) (j + 2) (by omega) h3
      refine ⟨tk :: tv :: l, by simp [toTPairs, e1, e2, e3], by simp [semTs, s1, s2, s3, flatPairs], ⟨?_, ?_, w3⟩, by simp [hl]; omega⟩
      · have : j % 2 = 0 := hj
        simpa [this] using w1
      · have : (j + 1) % 2 = 1 := by omega
        simpa [this] using w2
end

end

end SymVerif.Codec
