import SymVerif.Model.UPoly
import Mathlib.Algebra.Polynomial.Basic
import Mathlib.Algebra.Polynomial.Eval.Defs
import Mathlib.Algebra.Polynomial.Derivative
import Mathlib.Algebra.Polynomial.Degree.Lemmas
import Mathlib.Tactic.Ring
import Mathlib.Tactic.Linarith

/-! Basic facts about the dictionary model of C21: denotation `toPoly`, the canonical-form
invariant, and the specifications of the `std::map` primitives and of `+= -= unary- mul`. -/
set_option linter.unusedSectionVars false
open Polynomial
namespace SymVerif.C21
open SymVerif.UPoly

variable {R : Type} [CommRing R] [DecidableEq R]

/-- the polynomial denoted by a dictionary -/
noncomputable def toPoly (d : Dict R) : R[X] := (d.map fun p => monomial p.1 p.2).sum

/-- `std::map` order: strictly increasing keys -/
def Sorted (d : Dict R) : Prop := d.Pairwise (fun p q => p.1 < q.1)
/-- the polynomial classes' `is_canonical`: no stored zero coefficient -/
def NoZero (d : Dict R) : Prop := ∀ p ∈ d, p.2 ≠ 0
/-- canonical dictionary -/
def Canon (d : Dict R) : Prop := Sorted d ∧ NoZero d

@[simp] theorem toPoly_nil : toPoly ([] : Dict R) = 0 := by simp [toPoly]
@[simp] theorem toPoly_cons (p : Nat × R) (t : Dict R) :
    toPoly (p :: t) = monomial p.1 p.2 + toPoly t := by simp [toPoly]
theorem toPoly_append (a b : Dict R) : toPoly (a ++ b) = toPoly a + toPoly b := by
  induction a with
  | nil => simp
  | cons p t ih => simp [ih, add_assoc]

theorem sorted_nil : Sorted ([] : Dict R) := List.Pairwise.nil
theorem canon_nil : Canon ([] : Dict R) := ⟨sorted_nil, by intro p hp; cases hp⟩

theorem sorted_cons {p : Nat × R} {t : Dict R} :
    Sorted (p :: t) ↔ (∀ q ∈ t, p.1 < q.1) ∧ Sorted t := List.pairwise_cons

theorem noZero_cons {p : Nat × R} {t : Dict R} :
    NoZero (p :: t) ↔ p.2 ≠ 0 ∧ NoZero t := by
  simp [NoZero]

theorem Sorted.tail {p : Nat × R} {t : Dict R} (h : Sorted (p :: t)) : Sorted t :=
  (sorted_cons.1 h).2

/-- coefficients below every key vanish -/
theorem coeff_eq_zero_of_lt {d : Dict R} {k : Nat} (h : ∀ q ∈ d, k < q.1) :
    (toPoly d).coeff k = 0 := by
  induction d with
  | nil => simp
  | cons p t ih =>
    have h1 : k < p.1 := h p (List.mem_cons_self)
    have h2 : ∀ q ∈ t, k < q.1 := fun q hq => h q (List.mem_cons_of_mem _ hq)
    simp [coeff_monomial, ih h2, Nat.ne_of_gt h1]

theorem coeff_eq_zero_of_gt {d : Dict R} {k : Nat} (h : ∀ q ∈ d, q.1 < k) :
    (toPoly d).coeff k = 0 := by
  induction d with
  | nil => simp
  | cons p t ih =>
    have h1 : p.1 < k := h p (List.mem_cons_self)
    have h2 : ∀ q ∈ t, q.1 < k := fun q hq => h q (List.mem_cons_of_mem _ hq)
    simp [coeff_monomial, ih h2, Nat.ne_of_lt h1]

/-- `get_coeff` (a `find`) returns the coefficient of the denoted polynomial -/
theorem getCoeff_spec {d : Dict R} (hs : Sorted d) (k : Nat) :
    getCoeff d k = (toPoly d).coeff k := by
  induction d with
  | nil => simp [getCoeff]
  | cons p t ih =>
    obtain ⟨k', c'⟩ := p
    have ⟨h1, h2⟩ := sorted_cons.1 hs
    simp only [getCoeff, toPoly_cons, coeff_add, coeff_monomial]
    by_cases hk : k' = k
    · subst hk
      simp [coeff_eq_zero_of_lt h1]
    · simp [hk, ih h2]

/-- two canonical dictionaries denoting the same polynomial are equal -/
theorem canon_ext {a b : Dict R} (ha : Canon a) (hb : Canon b) (h : toPoly a = toPoly b) : a = b := by
  induction a generalizing b with
  | nil =>
    cases b with
    | nil => rfl
    | cons q u =>
      exfalso
      have hq := (noZero_cons.1 hb.2).1
      have := congrArg (fun p => p.coeff q.1) h
      simp [coeff_eq_zero_of_lt (sorted_cons.1 hb.1).1] at this
      exact hq this.symm
  | cons p t ih =>
    cases b with
    | nil =>
      exfalso
      have hp := (noZero_cons.1 ha.2).1
      have := congrArg (fun q => q.coeff p.1) h
      simp [coeff_eq_zero_of_lt (sorted_cons.1 ha.1).1] at this
      exact hp this
    | cons q u =>
      have ⟨ha1, ha2⟩ := sorted_cons.1 ha.1
      have ⟨hb1, hb2⟩ := sorted_cons.1 hb.1
      have ⟨hp, hpt⟩ := noZero_cons.1 ha.2
      have ⟨hq, hqu⟩ := noZero_cons.1 hb.2
      have hkey : p.1 = q.1 := by
        rcases Nat.lt_trichotomy p.1 q.1 with hlt | heq | hgt
        · exfalso
          have := congrArg (fun r => r.coeff p.1) h
          have hz : (toPoly u).coeff p.1 = 0 :=
            coeff_eq_zero_of_lt (fun r hr => Nat.lt_trans hlt (hb1 r hr))
          simp [coeff_eq_zero_of_lt ha1, hz, coeff_monomial, Nat.ne_of_gt hlt] at this
          exact hp this
        · exact heq
        · exfalso
          have := congrArg (fun r => r.coeff q.1) h
          have hz : (toPoly t).coeff q.1 = 0 :=
            coeff_eq_zero_of_lt (fun r hr => Nat.lt_trans hgt (ha1 r hr))
          simp [coeff_eq_zero_of_lt hb1, hz, coeff_monomial, Nat.ne_of_gt hgt] at this
          exact hq this.symm
      have hval : p.2 = q.2 := by
        have := congrArg (fun r => r.coeff q.1) h
        have hz1 : (toPoly t).coeff q.1 = 0 := by
          apply coeff_eq_zero_of_lt; intro r hr; rw [← hkey]; exact ha1 r hr
        have hz2 : (toPoly u).coeff q.1 = 0 := coeff_eq_zero_of_lt hb1
        simpa [hz1, hz2, coeff_monomial, hkey] using this
      have hpq : p = q := Prod.ext hkey hval
      subst hpq
      have ht : toPoly t = toPoly u := by
        simpa using h
      rw [ih ⟨ha2, hpt⟩ ⟨hb2, hqu⟩ ht]

/-! ### `operator+=` -/

theorem toPoly_addTerm (d : Dict R) (k : Nat) (c : R) :
    toPoly (addTerm d k c) = toPoly d + monomial k c := by
  induction d with
  | nil => simp [addTerm]
  | cons p t ih =>
    obtain ⟨k', c'⟩ := p
    simp only [addTerm]
    split
    · simp [ih, add_assoc]
    · split
      · rename_i h1 h2
        subst h2
        split
        · rename_i h3
          have : monomial k' c' + (monomial k' c : R[X]) = 0 := by
            rw [← map_add, h3, monomial_zero_right]
          simp only [toPoly_cons]
          calc toPoly t = (monomial k' c' + monomial k' c) + toPoly t := by rw [this, zero_add]
            _ = _ := by ring
        · simp only [toPoly_cons, map_add]; ring
      · simp only [toPoly_cons]; ring

theorem key_mem_addTerm {d : Dict R} {k : Nat} {c : R} {q : Nat × R} (h : q ∈ addTerm d k c) :
    q.1 = k ∨ ∃ r ∈ d, r.1 = q.1 := by
  induction d with
  | nil => simp [addTerm] at h; left; rw [h]
  | cons p t ih =>
    obtain ⟨k', c'⟩ := p
    simp only [addTerm] at h
    split at h
    · rcases List.mem_cons.1 h with h | h
      · right; exact ⟨(k', c'), List.mem_cons_self, by rw [h]⟩
      · rcases ih h with h | ⟨r, hr, hrk⟩
        · left; exact h
        · right; exact ⟨r, List.mem_cons_of_mem _ hr, hrk⟩
    · split at h
      · split at h
        · right; exact ⟨q, List.mem_cons_of_mem _ h, rfl⟩
        · rcases List.mem_cons.1 h with h | h
          · right; exact ⟨(k', c'), List.mem_cons_self, by rw [h]⟩
          · right; exact ⟨q, List.mem_cons_of_mem _ h, rfl⟩
      · rcases List.mem_cons.1 h with h | h
        · left; rw [h]
        · right; exact ⟨q, h, rfl⟩

theorem canon_addTerm {d : Dict R} {k : Nat} {c : R} (hd : Canon d) (hc : c ≠ 0) :
    Canon (addTerm d k c) := by
  induction d with
  | nil =>
    refine ⟨by simp [addTerm, Sorted], ?_⟩
    intro p hp; simp [addTerm] at hp; rw [hp]; exact hc
  | cons p t ih =>
    obtain ⟨k', c'⟩ := p
    have ⟨h1, h2⟩ := sorted_cons.1 hd.1
    have ⟨hp, hpt⟩ := noZero_cons.1 hd.2
    have iht := ih ⟨h2, hpt⟩
    simp only [addTerm]
    split
    · rename_i hlt
      refine ⟨sorted_cons.2 ⟨?_, iht.1⟩, noZero_cons.2 ⟨hp, iht.2⟩⟩
      intro q hq
      rcases key_mem_addTerm hq with h | ⟨r, hr, hrk⟩
      · rw [h]; exact hlt
      · rw [← hrk]; exact h1 r hr
    · split
      · split
        · exact ⟨h2, hpt⟩
        · rename_i hne
          exact ⟨sorted_cons.2 ⟨h1, h2⟩, noZero_cons.2 ⟨hne, hpt⟩⟩
      · rename_i hnlt hne
        have hgt : k < k' := by omega
        refine ⟨sorted_cons.2 ⟨?_, hd.1⟩, noZero_cons.2 ⟨hc, hd.2⟩⟩
        intro q hq
        rcases List.mem_cons.1 hq with h | h
        · rw [h]; exact hgt
        · exact Nat.lt_trans hgt (h1 q h)

theorem toPoly_add (a b : Dict R) : toPoly (add a b) = toPoly a + toPoly b := by
  unfold add
  induction b generalizing a with
  | nil => simp
  | cons p t ih => simp [ih, toPoly_addTerm]; ring

theorem canon_add {a b : Dict R} (ha : Canon a) (hb : NoZero b) : Canon (add a b) := by
  unfold add
  induction b generalizing a with
  | nil => simpa using ha
  | cons p t ih =>
    have ⟨hp, hpt⟩ := noZero_cons.1 hb
    simp only [List.foldl_cons]
    exact ih (canon_addTerm ha hp) hpt

/-! ### `operator-=` -/

theorem toPoly_subTerm (d : Dict R) (k : Nat) (c : R) :
    toPoly (subTerm d k c) = toPoly d - monomial k c := by
  induction d with
  | nil => simp [subTerm]
  | cons p t ih =>
    obtain ⟨k', c'⟩ := p
    simp only [subTerm]
    split
    · simp [ih]; ring
    · split
      · rename_i h1 h2
        subst h2
        split
        · rename_i h3
          have : monomial k' c' - (monomial k' c : R[X]) = 0 := by
            rw [← map_sub, h3, monomial_zero_right]
          simp only [toPoly_cons]
          calc toPoly t = (monomial k' c' - monomial k' c) + toPoly t := by rw [this, zero_add]
            _ = _ := by ring
        · simp only [toPoly_cons, map_sub]; ring
      · simp only [toPoly_cons, map_neg]; ring

theorem key_mem_subTerm {d : Dict R} {k : Nat} {c : R} {q : Nat × R} (h : q ∈ subTerm d k c) :
    q.1 = k ∨ ∃ r ∈ d, r.1 = q.1 := by
  induction d with
  | nil => simp [subTerm] at h; left; rw [h]
  | cons p t ih =>
    obtain ⟨k', c'⟩ := p
    simp only [subTerm] at h
    split at h
    · rcases List.mem_cons.1 h with h | h
      · right; exact ⟨(k', c'), List.mem_cons_self, by rw [h]⟩
      · rcases ih h with h | ⟨r, hr, hrk⟩
        · left; exact h
        · right; exact ⟨r, List.mem_cons_of_mem _ hr, hrk⟩
    · split at h
      · split at h
        · right; exact ⟨q, List.mem_cons_of_mem _ h, rfl⟩
        · rcases List.mem_cons.1 h with h | h
          · right; exact ⟨(k', c'), List.mem_cons_self, by rw [h]⟩
          · right; exact ⟨q, List.mem_cons_of_mem _ h, rfl⟩
      · rcases List.mem_cons.1 h with h | h
        · left; rw [h]
        · right; exact ⟨q, h, rfl⟩

theorem canon_subTerm {d : Dict R} {k : Nat} {c : R} (hd : Canon d) (hc : c ≠ 0) :
    Canon (subTerm d k c) := by
  have hnc : -c ≠ 0 := neg_ne_zero.2 hc
  induction d with
  | nil =>
    refine ⟨by simp [subTerm, Sorted], ?_⟩
    intro p hp; simp [subTerm] at hp; rw [hp]; exact hnc
  | cons p t ih =>
    obtain ⟨k', c'⟩ := p
    have ⟨h1, h2⟩ := sorted_cons.1 hd.1
    have ⟨hp, hpt⟩ := noZero_cons.1 hd.2
    have iht := ih ⟨h2, hpt⟩
    simp only [subTerm]
    split
    · rename_i hlt
      refine ⟨sorted_cons.2 ⟨?_, iht.1⟩, noZero_cons.2 ⟨hp, iht.2⟩⟩
      intro q hq
      rcases key_mem_subTerm hq with h | ⟨r, hr, hrk⟩
      · rw [h]; exact hlt
      · rw [← hrk]; exact h1 r hr
    · split
      · split
        · exact ⟨h2, hpt⟩
        · rename_i hne
          exact ⟨sorted_cons.2 ⟨h1, h2⟩, noZero_cons.2 ⟨hne, hpt⟩⟩
      · rename_i hnlt hne
        have hgt : k < k' := by omega
        refine ⟨sorted_cons.2 ⟨?_, hd.1⟩, noZero_cons.2 ⟨hnc, hd.2⟩⟩
        intro q hq
        rcases List.mem_cons.1 hq with h | h
        · rw [h]; exact hgt
        · exact Nat.lt_trans hgt (h1 q h)

theorem toPoly_sub (a b : Dict R) : toPoly (sub a b) = toPoly a - toPoly b := by
  unfold sub
  induction b generalizing a with
  | nil => simp
  | cons p t ih => simp [ih, toPoly_subTerm]; ring

theorem canon_sub {a b : Dict R} (ha : Canon a) (hb : NoZero b) : Canon (sub a b) := by
  unfold sub
  induction b generalizing a with
  | nil => simpa using ha
  | cons p t ih =>
    have ⟨hp, hpt⟩ := noZero_cons.1 hb
    simp only [List.foldl_cons]
    exact ih (canon_subTerm ha hp) hpt

/-! ### unary minus -/

theorem toPoly_neg (a : Dict R) : toPoly (neg a) = - toPoly a := by
  unfold neg
  induction a with
  | nil => simp
  | cons p t ih =>
    rw [List.map_cons, toPoly_cons, ih, toPoly_cons]
    simp only [mul_neg, mul_one, map_neg]; ring

theorem toPoly_scale (a : Dict R) (c : R) :
    toPoly (a.map (fun p => (p.1, p.2 * c))) = toPoly a * C c := by
  induction a with
  | nil => simp
  | cons p t ih =>
    simp only [List.map_cons, toPoly_cons, ih, add_mul]
    congr 1
    rw [← monomial_zero_left, monomial_mul_monomial, add_zero]

theorem canon_scale [NoZeroDivisors R] {a : Dict R} (ha : Canon a) {c : R} (hc : c ≠ 0) :
    Canon (a.map (fun p => (p.1, p.2 * c))) := by
  constructor
  · unfold Sorted
    rw [List.pairwise_map]
    exact ha.1
  · intro p hp
    obtain ⟨q, hq, rfl⟩ := List.mem_map.1 hp
    exact mul_ne_zero (ha.2 q hq) hc

theorem canon_neg {a : Dict R} (ha : Canon a) : Canon (neg a) := by
  constructor
  · unfold Sorted neg
    rw [List.pairwise_map]
    exact ha.1
  · intro p hp
    obtain ⟨q, hq, rfl⟩ := List.mem_map.1 hp
    simp only [mul_neg, mul_one]
    exact neg_ne_zero.2 (ha.2 q hq)

end SymVerif.C21
