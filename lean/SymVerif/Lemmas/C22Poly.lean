import SymVerif.Lemmas.C22Recon
import Mathlib.Data.List.Perm.Subperm
/-! Polynomial-level lemmas for C22: `from_dict`, `eval`, coefficients and `__eq__`. -/

open SymVerif.MPoly MvPolynomial

namespace SymVerif.C22
set_option linter.unusedSectionVars false

variable {R : Type} [CommRing R] [DecidableEq R]

/-! ### sorting the variable vector (`from_dict`) -/

theorem mem_sortVars (v : List Var) (y : Var) : y ∈ sortVars v ↔ y ∈ v := by
  induction v with
  | nil => simp [sortVars]
  | cons a t ih =>
    have : sortVars (a :: t) = insertSorted a (sortVars t) := rfl
    rw [this, mem_insertSorted, ih]; simp

theorem sorted_sortVars (v : List Var) : (sortVars v).Pairwise (· < ·) := by
  induction v with
  | nil => simp [sortVars]
  | cons a t ih => exact sorted_insertSorted a _ ih

theorem length_sortVars (v : List Var) (h : v.Nodup) : (sortVars v).length = v.length := by
  induction v with
  | nil => simp [sortVars]
  | cons a t ih =>
    have : sortVars (a :: t) = insertSorted a (sortVars t) := rfl
    rw [this, length_insertSorted, ih (List.nodup_cons.mp h).2, List.length_cons]
    rw [mem_sortVars]; exact (List.nodup_cons.mp h).1

/-! ### evaluation -/

theorem rpow_eq (x : R) (n : Nat) : rpow x n = x ^ n := by
  induction n with
  | zero => simp [rpow]
  | succ n ih => simp [rpow, ih, pow_succ]

/-- the assignment as a total function (missing variables read 0; `eval` never gets there) -/
def valFn (vals : List (Var × R)) (v : Var) : R := (lookupVal vals v).getD 0

theorem evalTerm_spec (vals : List (Var × R)) (vars : List Var) (k : Mono) (acc : R)
    (hv : ∀ v ∈ vars, (lookupVal vals v).isSome) (hk : k.length = vars.length) :
    evalTerm vals vars k acc = .ok (acc * eval (valFn vals) (monomial (monoOf vars k) (1 : R))) := by
  induction vars generalizing k acc with
  | nil => simp [evalTerm, eval_monomial]
  | cons v vs ih =>
    cases k with
    | nil => simp at hk
    | cons e es =>
      have h1 := hv v (List.mem_cons_self ..)
      obtain ⟨x, hx⟩ := Option.isSome_iff_exists.mp h1
      simp only [evalTerm, hx]
      rw [ih es (acc * rpow x e) (fun w hw => hv w (List.mem_cons_of_mem _ hw)) (by simpa using hk)]
      simp only [monoOf_cons, monomial_single_add, map_mul, map_pow, eval_X, rpow_eq]
      have : valFn vals v = x := by simp [valFn, hx]
      rw [this, mul_assoc]

theorem evalDict_spec (vals : List (Var × R)) (vars : List Var) (d : Dict R) (ans : R)
    (hv : ∀ v ∈ vars, (lookupVal vals v).isSome) (hd : LenOk vars.length d) :
    evalDict vals vars d ans = .ok (ans + eval (valFn vals) (dictMv vars d)) := by
  induction d generalizing ans with
  | nil => simp [evalDict]
  | cons kc t ih =>
    obtain ⟨k, c⟩ := kc
    simp only [evalDict, evalTerm_spec vals vars k c hv (hd (k, c) (List.mem_cons_self ..))]
    rw [ih _ (fun x hx => hd x (List.mem_cons_of_mem _ hx))]
    simp only [dictMv_cons, map_add, eval_monomial, one_mul]
    congr 1
    abel

/-! ### coefficients; `unordered_map::operator==` -/

theorem dictMv_perm (vars : List Var) {d1 d2 : Dict R} (h : d1.Perm d2) : dictMv vars d1 = dictMv vars d2 := by
  induction h with
  | nil => rfl
  | cons x _ ih => simp [ih]
  | swap x y l => simp only [dictMv_cons]; abel
  | trans _ _ ih1 ih2 => exact ih1.trans ih2

theorem coeff_dictMv (vars : List Var) (d : Dict R) (k : Mono) (hv : vars.Nodup)
    (hd : KeysOk vars.length d) (hk : k.length = vars.length) :
    coeff (monoOf vars k) (dictMv vars d) = (find? d k).getD 0 := by
  classical
  induction d with
  | nil => simp [find?]
  | cons kc t ih =>
    obtain ⟨k', c⟩ := kc
    have ht : KeysOk vars.length t := ⟨fun x hx => hd.1 x (List.mem_cons_of_mem _ hx),
      (List.nodup_cons.mp hd.2).2⟩
    have hk' : k'.length = vars.length := hd.1 (k', c) (List.mem_cons_self ..)
    simp only [dictMv_cons, coeff_add, coeff_monomial, find?, ih ht]
    by_cases h : k' = k
    · subst h
      have : find? t k' = none := (find?_eq_none_iff t k').mpr (List.nodup_cons.mp hd.2).1
      simp [this]
    · have hne : monoOf vars k' ≠ monoOf vars k := fun e => h (monoOf_injective vars k' k hv hk' hk e)
      simp [h, hne]

theorem nodup_of_keys_nodup {d : Dict R} (h : (keys d).Nodup) : d.Nodup :=
  List.Nodup.of_map _ h

theorem dictEq_iff_subset (d1 d2 : Dict R) (h1 : (keys d1).Nodup) (h2 : (keys d2).Nodup) :
    dictEq d1 d2 = true ↔ d1.length = d2.length ∧ ∀ kc ∈ d1, kc ∈ d2 := by
  simp only [dictEq, Bool.and_eq_true, beq_iff_eq, List.all_eq_true]
  constructor
  · rintro ⟨hl, hall⟩
    exact ⟨hl, fun kc hkc => find?_some_mem (hall kc hkc)⟩
  · rintro ⟨hl, hall⟩
    exact ⟨hl, fun kc hkc => find?_of_mem_nodup h2 (hall kc hkc)⟩

theorem dictEq_sound (vars : List Var) (d1 d2 : Dict R) (h1 : (keys d1).Nodup) (h2 : (keys d2).Nodup)
    (h : dictEq d1 d2 = true) : dictMv vars d1 = dictMv vars d2 := by
  obtain ⟨hl, hsub⟩ := (dictEq_iff_subset d1 d2 h1 h2).mp h
  have hsp : d1.Subperm d2 := List.subperm_of_subset (nodup_of_keys_nodup h1) hsub
  exact dictMv_perm vars (hsp.perm_of_length_le (by omega))

theorem mem_of_dictMv_eq (vars : List Var) (d1 d2 : Dict R) (hv : vars.Nodup)
    (h1 : Canon vars.length d1) (h2 : Canon vars.length d2) (h : dictMv vars d1 = dictMv vars d2) :
    ∀ kc ∈ d1, kc ∈ d2 := by
  intro kc hkc
  have hlen := h1.len kc hkc
  have hc1 := coeff_dictMv vars d1 kc.1 hv ⟨h1.len, h1.nodup⟩ hlen
  have hc2 := coeff_dictMv vars d2 kc.1 hv ⟨h2.len, h2.nodup⟩ hlen
  rw [find?_of_mem_nodup h1.nodup (show (kc.1, kc.2) ∈ d1 from hkc)] at hc1
  rw [h, hc2] at hc1
  have hnz := h1.nz kc hkc
  cases hf : find? d2 kc.1 with
  | none => rw [hf] at hc1; simp at hc1; exact absurd hc1.symm hnz
  | some c =>
    rw [hf] at hc1
    simp only [Option.getD_some] at hc1
    have := find?_some_mem hf
    rw [hc1] at this
    exact this

theorem dictEq_complete (vars : List Var) (d1 d2 : Dict R) (hv : vars.Nodup)
    (h1 : Canon vars.length d1) (h2 : Canon vars.length d2) (h : dictMv vars d1 = dictMv vars d2) :
    dictEq d1 d2 = true := by
  rw [dictEq_iff_subset d1 d2 h1.nodup h2.nodup]
  have s12 := mem_of_dictMv_eq vars d1 d2 hv h1 h2 h
  have s21 := mem_of_dictMv_eq vars d2 d1 hv h2 h1 h.symm
  refine ⟨?_, s12⟩
  have l12 := (List.subperm_of_subset (nodup_of_keys_nodup h1.nodup) s12).length_le
  have l21 := (List.subperm_of_subset (nodup_of_keys_nodup h2.nodup) s21).length_le
  omega

end SymVerif.C22
