import SymVerif.Lemmas.C26Size
import SymVerif.Lemmas.C26Add
import Mathlib.Algebra.BigOperators.Group.Finset.Sigma
/-!
Algebra of the matrix product on `Val`: associativity, congruence, identity, the merge rules of
`matrix_mul` on concrete leaves, products of chains.
-/
namespace SymVerif.MatExpr
open MExpr

theorem mulV_assoc (a b c : Val) : mulV (mulV a b) c ≃ mulV a (mulV b c) := by
  refine ⟨rfl, rfl, fun i j _ _ => ?_⟩
  simp only [mulV, Finset.sum_mul, Finset.mul_sum]
  rw [Finset.sum_comm]
  apply Finset.sum_congr rfl; intro l _
  apply Finset.sum_congr rfl; intro k _
  ring

theorem mulV_congr {a a' b b' : Val} (ha : a ≃ a') (hb : b ≃ b') (hc : a.c = b.r) :
    mulV a b ≃ mulV a' b' := by
  refine ⟨ha.1, hb.2.1, fun i j hi hj => ?_⟩
  simp only [mulV] at hi hj ⊢
  rw [← ha.2.1]
  apply Finset.sum_congr rfl
  intro k hk
  have hk' : k < a.c := Finset.mem_range.1 hk
  rw [ha.2.2 i k hi hk', hb.2.2 k j (hc ▸ hk') hj]

theorem smulV_congr {a a' : Val} (s : GQ) (ha : a ≃ a') : smulV s a ≃ smulV s a' :=
  ⟨ha.1, ha.2.1, fun i j hi hj => by simp only [smulV]; rw [ha.2.2 i j hi hj]⟩

theorem mulV_smul_left (s : GQ) (a b : Val) : mulV (smulV s a) b ≃ smulV s (mulV a b) :=
  ⟨rfl, rfl, fun i j _ _ => by
    simp only [mulV, smulV, Finset.mul_sum]
    apply Finset.sum_congr rfl; intro k _; ring⟩

theorem mulV_smul_right (s : GQ) (a b : Val) : mulV a (smulV s b) ≃ smulV s (mulV a b) :=
  ⟨rfl, rfl, fun i j _ _ => by
    simp only [mulV, smulV, Finset.mul_sum]
    apply Finset.sum_congr rfl; intro k _; ring⟩

theorem smulV_smulV (s t : GQ) (a : Val) : smulV s (smulV t a) ≃ smulV (s * t) a :=
  ⟨rfl, rfl, fun i j _ _ => by simp only [smulV]; ring⟩

theorem smulV_one (a : Val) : smulV 1 a ≃ a :=
  ⟨rfl, rfl, fun i j _ _ => by simp only [smulV]; ring⟩

/-- the identity matrix as a value -/
def identV (n : Nat) : Val := ⟨n, n, fun i j => if i = j then 1 else 0⟩

theorem mulV_ident_right {a : Val} {n : Nat} (h : a.c = n) : mulV a (identV n) ≃ a := by
  refine ⟨rfl, h.symm, fun i j _ hj => ?_⟩
  simp only [mulV, identV] at hj ⊢
  simp only [mul_ite, mul_one, mul_zero]
  rw [Finset.sum_ite_eq' (Finset.range a.c) j]
  simp [h, hj]

theorem mulV_ident_left {a : Val} {n : Nat} (h : n = a.r) : mulV (identV n) a ≃ a := by
  refine ⟨h, rfl, fun i j hi _ => ?_⟩
  simp only [mulV, identV] at hi ⊢
  simp only [ite_mul, one_mul, zero_mul]
  rw [Finset.sum_ite_eq (Finset.range n) i]
  simp [hi]

/-! ### the merge rules on concrete leaves -/

theorem foldl_range_sum (n : Nat) (g : Nat → GQ) :
    (List.range n).foldl (fun acc k => acc + g k) 0 = ∑ k ∈ Finset.range n, g k := by
  induction n with
  | zero => simp
  | succ m ih => rw [List.range_succ, List.foldl_append, ih, Finset.sum_range_succ]; simp

theorem diag_mul_diag {env : Env} {d0 d : List GQ} (h : d0.length = d.length) :
    mulV (valOf env (diag d0)) (valOf env (diag d)) ≃ valOf env (diag (List.zipWith (· * ·) d0 d)) := by
  refine ⟨by simp [mulV, valOf, h], by simp [mulV, valOf, h], fun i j hi hj => ?_⟩
  simp only [mulV, valOf] at hi hj ⊢
  simp only [ite_mul, zero_mul]
  rw [Finset.sum_ite_eq (Finset.range d0.length) i]
  simp only [Finset.mem_range, hi, if_true]
  rw [getD_zipWith_mul h]
  split <;> simp_all

theorem dense_mul_diag {env : Env} {r c : Nat} {v d : List GQ} (hd : d.length = c) :
    mulV (valOf env (dense r c v)) (valOf env (diag d))
      ≃ valOf env (dense r c (mkFlat r c fun i j => ent v c i j * d.getD j 0)) := by
  refine ⟨rfl, by simp [mulV, valOf, hd], fun i j hi hj => ?_⟩
  simp only [mulV, valOf] at hi hj ⊢
  rw [ent_mkFlat _ hi (hd ▸ hj)]
  simp only [mul_ite, mul_zero]
  rw [Finset.sum_ite_eq' (Finset.range c) j]
  simp [hd ▸ hj]

theorem diag_mul_dense {env : Env} {r c : Nat} {v d : List GQ} (hd : d.length = r) :
    mulV (valOf env (diag d)) (valOf env (dense r c v))
      ≃ valOf env (dense r c (mkFlat r c fun i j => ent v c i j * d.getD i 0)) := by
  refine ⟨by simp [mulV, valOf, hd], rfl, fun i j hi hj => ?_⟩
  simp only [mulV, valOf] at hi hj ⊢
  rw [ent_mkFlat _ (hd ▸ hi) hj]
  simp only [ite_mul, zero_mul]
  rw [Finset.sum_ite_eq (Finset.range d.length) i]
  simp [hi]; ring

theorem dense_mul_dense {env : Env} {ar ac bc : Nat} {av bv : List GQ} :
    mulV (valOf env (dense ar ac av)) (valOf env (dense ac bc bv))
      ≃ valOf env (dense ar bc (mkFlat ar bc fun i j =>
          (List.range ac).foldl (fun acc k => acc + ent av ac i k * ent bv bc k j) 0)) := by
  refine ⟨rfl, rfl, fun i j hi hj => ?_⟩
  simp only [mulV, valOf] at hi hj ⊢
  rw [ent_mkFlat _ hi hj, foldl_range_sum]

/-! ### chains -/

theorem chainOk_cons_cons {v w : Val} {l : List Val} :
    ChainOk (v :: w :: l) ↔ v.c = w.r ∧ ChainOk (w :: l) := Iff.rfl

theorem chainOk_tail {v : Val} {l : List Val} (h : ChainOk (v :: l)) : ChainOk l := by
  cases l with
  | nil => trivial
  | cons w t => exact h.2

theorem prodV_cons_cons (v w : Val) (l : List Val) : prodV (v :: w :: l) = mulV v (prodV (w :: l)) := rfl

theorem chainOk_append_left {a b : List Val} (h : ChainOk (a ++ b)) : ChainOk a := by
  induction a with
  | nil => trivial
  | cons v t ih =>
    cases t with
    | nil => trivial
    | cons w t' =>
      simp only [List.cons_append] at h ih ⊢
      exact ⟨h.1, ih h.2⟩

theorem chainOk_append_right {a b : List Val} (h : ChainOk (a ++ b)) : ChainOk b := by
  induction a with
  | nil => exact h
  | cons v t ih => exact ih (chainOk_tail h)

/-- the link between two chained lists -/
theorem chainOk_append_link {a b : List Val} (ha : a ≠ []) (hb : b ≠ []) (h : ChainOk (a ++ b)) :
    (prodV a).c = (prodV b).r := by
  induction a with
  | nil => exact absurd rfl ha
  | cons v t ih =>
    cases t with
    | nil =>
      obtain ⟨w, b', rfl⟩ := List.exists_cons_of_ne_nil hb
      simp only [List.cons_append, List.nil_append] at h
      rw [prodV_r]; exact h.1
    | cons w t' =>
      simp only [List.cons_append] at h ih
      have := ih (by simp) h.2
      rw [prodV_cons_cons]
      simpa [mulV] using this

theorem chainOk_append_of {a b : List Val} (ha : ChainOk a) (hb : ChainOk b)
    (hl : a ≠ [] → b ≠ [] → (prodV a).c = (prodV b).r) : ChainOk (a ++ b) := by
  induction a with
  | nil => exact hb
  | cons v t ih =>
    cases t with
    | nil =>
      cases b with
      | nil => trivial
      | cons w b' =>
        have := hl (by simp) (by simp)
        rw [prodV_r] at this
        exact ⟨this, hb⟩
    | cons w t' =>
      simp only [List.cons_append]
      refine ⟨ha.1, ?_⟩
      apply ih ha.2
      intro h1 h2
      have := hl (by simp) h2
      rw [prodV_cons_cons] at this
      simpa [mulV] using this

theorem prodV_append {a b : List Val} (ha : a ≠ []) (hb : b ≠ []) (h : ChainOk (a ++ b)) :
    prodV (a ++ b) ≃ mulV (prodV a) (prodV b) := by
  induction a with
  | nil => exact absurd rfl ha
  | cons v t ih =>
    cases t with
    | nil =>
      obtain ⟨w, b', rfl⟩ := List.exists_cons_of_ne_nil hb
      exact Val.Eqv.refl _
    | cons w t' =>
      simp only [List.cons_append] at h ih ⊢
      have ih' := ih (by simp) h.2
      rw [prodV_cons_cons, prodV_cons_cons]
      refine Val.Eqv.trans (mulV_congr (Val.Eqv.refl v) ih' ?_) (mulV_assoc _ _ _).symm
      rw [show w :: (t' ++ b) = (w :: t') ++ b from rfl]
      have : (prodV ((w :: t') ++ b)).r = w.r := by simp [prodV_r]
      rw [this]; exact h.1

theorem prodV_single (v : Val) : prodV [v] = v := rfl

/-- a product containing a zero matrix is zero everywhere -/
theorem prodV_zero_mem {l : List Val} {z : Val} (hz : z ∈ l) (hf : ∀ i j, z.f i j = 0) :
    ∀ i j, (prodV l).f i j = 0 := by
  induction l with
  | nil => simp at hz
  | cons v t ih =>
    cases t with
    | nil =>
      simp at hz; subst hz; exact hf
    | cons w t' =>
      intro i j
      rw [prodV_cons_cons]
      simp only [mulV]
      rcases List.mem_cons.1 hz with h | h
      · subst h; simp [hf]
      · have := ih h
        simp [this]

end SymVerif.MatExpr
