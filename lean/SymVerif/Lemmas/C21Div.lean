import SymVerif.Lemmas.C21Eval
import Mathlib.Algebra.Polynomial.Degree.Domain

/-! C21: `divides_upoly` (as repaired) decides exact divisibility and returns the quotient. -/
set_option linter.unusedSectionVars false
open Polynomial
namespace SymVerif.C21
open SymVerif.UPoly

variable {R : Type} [CommRing R] [DecidableEq R]

/-- what the theorem needs to know about the leading-coefficient division -/
def DivOK (dv : R → R → Option R) : Prop :=
  ∀ x y, y ≠ 0 → (∀ q, dv x y = some q → x = y * q) ∧ (dv x y = none → ¬ ∃ q, x = y * q)

theorem divExactInt_ok : DivOK divExactInt := by
  intro x y hy
  unfold divExactInt
  constructor
  · intro q h
    split at h
    · rename_i hm
      have hd := Int.dvd_of_tmod_eq_zero hm
      have := Int.mul_tdiv_cancel' hd
      simp at h; rw [← h, this]
    · cases h
  · intro h
    split at h
    · cases h
    · rename_i hm
      rintro ⟨q, hq⟩
      apply hm
      rw [hq]
      exact Int.mul_tmod_right _ _

theorem divExactRat_ok : DivOK divExactRat := by
  intro x y hy
  unfold divExactRat
  constructor
  · intro q h
    simp at h
    rw [← h, mul_comm, div_mul_cancel₀ x hy]
  · intro h; cases h

theorem setKey_front {d : Dict R} {k : Nat} {c : R} (h : ∀ q ∈ d, k < q.1) :
    setKey d k c = (k, c) :: d := by
  cases d with
  | nil => simp [setKey]
  | cons p t =>
    obtain ⟨k', c'⟩ := p
    have h1 : k < k' := h (k', c') List.mem_cons_self
    have h2 : ¬ k' < k := by omega
    have h3 : ¬ k' = k := by omega
    simp [setKey, h2, h3]

theorem fromMap_of_noZero {d : Dict R} (h : NoZero d) : fromMap d = d := by
  unfold fromMap
  apply List.filter_eq_self.2
  intro p hp
  simpa using h p hp

/-- one step of the long division: the leading term cancels -/
theorem degree_step [IsDomain R] {a b b' : Dict R} (ha : Canon a) (hb : Canon b) (hb' : Canon b')
    (hae : a ≠ []) (hbe : b ≠ []) (hdeg : UPoly.degree a ≤ UPoly.degree b) {q : R}
    (hq : getLc b = getLc a * q)
    (hpoly : toPoly b' = toPoly b - toPoly a * monomial (UPoly.degree b - UPoly.degree a) q) :
    b' ≠ [] → UPoly.degree b' < UPoly.degree b := by
  intro hb'e
  have hpa := toPoly_ne_zero ha hae
  have hpb := toPoly_ne_zero hb hbe
  have hpb' := toPoly_ne_zero hb' hb'e
  have hq0 : q ≠ 0 := by
    intro h; rw [h, mul_zero] at hq
    exact getLc_ne_zero hb hbe hq
  have hmon : (monomial (UPoly.degree b - UPoly.degree a) q : R[X]) ≠ 0 := by
    rw [Ne, monomial_eq_zero_iff]; exact hq0
  have hnd : (toPoly a * monomial (UPoly.degree b - UPoly.degree a) q).natDegree = (toPoly b).natDegree := by
    rw [natDegree_mul hpa hmon, natDegree_monomial_eq _ hq0, natDegree_toPoly ha hae,
      natDegree_toPoly hb hbe]
    omega
  have hprod : toPoly a * monomial (UPoly.degree b - UPoly.degree a) q ≠ 0 := mul_ne_zero hpa hmon
  have hd : (toPoly b).degree = (toPoly a * monomial (UPoly.degree b - UPoly.degree a) q).degree := by
    rw [degree_eq_natDegree hpb, degree_eq_natDegree hprod, hnd]
  have hlc : (toPoly b).leadingCoeff
      = (toPoly a * monomial (UPoly.degree b - UPoly.degree a) q).leadingCoeff := by
    rw [leadingCoeff_mul, leadingCoeff_monomial, leadingCoeff_toPoly ha hae, leadingCoeff_toPoly hb hbe, hq]
  have hlt := degree_sub_lt_left hd hpb hlc
  rw [← hpoly] at hlt
  have := natDegree_lt_natDegree hpb' hlt
  rwa [natDegree_toPoly hb' hb'e, natDegree_toPoly hb hbe] at this

theorem dividesLoop_spec [IsDomain R] {mul : Dict R → Dict R → Except Err (Dict R)} (hmul : MulOK mul)
    {dv : R → R → Option R} (hdv : DivOK dv) {a : Dict R} (ha : Canon a) (hae : a ≠ []) (fuel : Nat) :
    ∀ (b res : Dict R), Canon b → Canon res →
      (b ≠ [] → ∀ p ∈ res, UPoly.degree b < p.1 + UPoly.degree a) →
      (if b = [] then 1 else UPoly.degree b + 2) ≤ fuel →
      (∃ q, dividesLoop true mul dv a fuel b res = .ok (some q) ∧ Canon q ∧
          toPoly a * toPoly q = toPoly a * toPoly res + toPoly b) ∨
      (dividesLoop true mul dv a fuel b res = .ok none ∧ ¬ toPoly a ∣ toPoly b) := by
  have hpa := toPoly_ne_zero ha hae
  induction fuel with
  | zero =>
    intro b res hb hres hinv hfuel
    exfalso
    split at hfuel <;> omega
  | succ fuel ih =>
    intro b res hb hres hinv hfuel
    rw [dividesLoop]
    by_cases hbe : b = []
    · subst hbe
      left
      refine ⟨fromMap res, by simp [divCond], canon_fromMap hres.1, ?_⟩
      rw [toPoly_fromMap]; simp
    · have hbe' : b.isEmpty = false := by simpa [List.isEmpty_iff] using hbe
      have hpb := toPoly_ne_zero hb hbe
      simp only [hbe, if_false] at hfuel
      by_cases hdeg : UPoly.degree a ≤ UPoly.degree b
      · have hcond : divCond true a b = true := by simp [divCond, hbe', hdeg]
        simp only [hcond, if_true]
        have hlca := getLc_ne_zero ha hae
        obtain ⟨hd1, hd2⟩ := hdv (getLc b) (getLc a) hlca
        cases hdvq : dv (getLc b) (getLc a) with
        | none =>
          right
          refine ⟨rfl, ?_⟩
          rintro ⟨Q, hQ⟩
          apply hd2 hdvq
          refine ⟨Q.leadingCoeff, ?_⟩
          rw [← leadingCoeff_toPoly hb hbe, ← leadingCoeff_toPoly ha hae, hQ, leadingCoeff_mul]
        | some q =>
          have hq := hd1 q hdvq
          have hq0 : q ≠ 0 := by
            intro h; rw [h, mul_zero] at hq
            exact getLc_ne_zero hb hbe hq
          have hnlt : ¬ UPoly.degree b < UPoly.degree a := by omega
          simp only [hnlt, if_false]
          set k := UPoly.degree b - UPoly.degree a with hk
          have hfront : ∀ p ∈ res, k < p.1 := by
            intro p hp
            have := hinv hbe p hp
            omega
          have htmp : fromMap [(k, q)] = [(k, q)] := by
            apply fromMap_of_noZero; intro p hp; simp at hp; rw [hp]; exact hq0
          have hctmp : Canon ([(k, q)] : Dict R) := by
            refine ⟨by simp [Sorted], ?_⟩
            intro p hp; simp at hp; rw [hp]; exact hq0
          rw [htmp, setKey_front hfront]
          obtain ⟨prod, hprod, hcprod, hpprod⟩ := hmul a [(k, q)] ha hctmp
          simp only [hprod]
          have hcb' : Canon (sub b prod) := canon_sub hb hcprod.2
          have hpb' : toPoly (sub b prod) = toPoly b - toPoly a * monomial k q := by
            rw [toPoly_sub, hpprod]; simp
          have hstep := degree_step ha hb hcb' hae hbe hdeg hq hpb'
          have hcres' : Canon ((k, q) :: res) :=
            ⟨sorted_cons.2 ⟨hfront, hres.1⟩, noZero_cons.2 ⟨hq0, hres.2⟩⟩
          have hinv' : sub b prod ≠ [] → ∀ p ∈ (k, q) :: res,
              UPoly.degree (sub b prod) < p.1 + UPoly.degree a := by
            intro hne p hp
            have h1 := hstep hne
            rcases List.mem_cons.1 hp with h | h
            · rw [h]; simp only; omega
            · have := hinv hbe p h; omega
          have hfuel' : (if sub b prod = [] then 1 else UPoly.degree (sub b prod) + 2) ≤ fuel := by
            split
            · omega
            · rename_i hne
              have := hstep hne; omega
          rcases ih (sub b prod) ((k, q) :: res) hcb' hcres' hinv' hfuel' with ⟨q', h1, h2, h3⟩ | ⟨h1, h2⟩
          · left
            refine ⟨q', h1, h2, ?_⟩
            rw [h3, hpb', toPoly_cons]; ring
          · right
            refine ⟨h1, ?_⟩
            intro hdvd
            apply h2
            rw [hpb']
            exact dvd_sub hdvd (dvd_mul_right _ _)
      · have hcond : divCond true a b = false := by simp [divCond, hbe', hdeg]
        simp only [hcond, Bool.false_eq_true, if_false, hbe']
        right
        refine ⟨by trivial, ?_⟩
        rintro ⟨Q, hQ⟩
        have hQ0 : Q ≠ 0 := by
          intro h; rw [h, mul_zero] at hQ; exact hpb hQ
        have := natDegree_mul hpa hQ0
        rw [← hQ, natDegree_toPoly hb hbe, natDegree_toPoly ha hae] at this
        omega

/-- `divides_upoly(a, b, out)` as repaired, for a non-zero divisor: terminates within the fuel,
    never wraps, returns `true` with the exact quotient iff `a` divides `b`. -/
theorem divides_spec [IsDomain R] {mul : Dict R → Dict R → Except Err (Dict R)} (hmul : MulOK mul)
    {dv : R → R → Option R} (hdv : DivOK dv) {a b : Dict R} (ha : Canon a) (hb : Canon b) (hae : a ≠ []) :
    (∃ q, dividesWith true mul dv a b = .ok (some q) ∧ Canon q ∧ toPoly b = toPoly a * toPoly q) ∨
    (dividesWith true mul dv a b = .ok none ∧ ¬ toPoly a ∣ toPoly b) := by
  unfold dividesWith
  have hae' : a.isEmpty = false := by simpa [List.isEmpty_iff] using hae
  simp only [hae', Bool.false_eq_true, if_false]
  have hfuel : (if b = [] then 1 else UPoly.degree b + 2) ≤ UPoly.degree b + 2 := by split <;> omega
  rcases dividesLoop_spec hmul hdv ha hae (UPoly.degree b + 2) b [] hb canon_nil
      (by intro _ p hp; cases hp) hfuel with ⟨q, h1, h2, h3⟩ | ⟨h1, h2⟩
  · left
    refine ⟨q, h1, h2, ?_⟩
    rw [h3]; simp
  · right; exact ⟨h1, h2⟩

theorem divides_zero_divisor (mul : Dict R → Dict R → Except Err (Dict R)) (dv : R → R → Option R)
    (b : Dict R) : dividesWith true mul dv [] b = .ok none := by
  simp [dividesWith]

end SymVerif.C21
