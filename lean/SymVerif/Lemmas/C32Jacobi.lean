import Mathlib.NumberTheory.LegendreSymbol.JacobiSymbol
import SymVerif.Lemmas.C32Factor
/-! The Kronecker/Jacobi model agrees with Mathlib's Jacobi symbol for odd positive moduli. -/
namespace SymVerif.C32
open SymVerif.NTheory
open NumberTheorySymbols jacobiSym

theorem jacobiAux_eq {a b : ℕ} {flip : Bool} (ha0 : 0 < a) (hb2 : b % 2 = 1) (hb1 : b > 1) :
    jacobiAux a b flip = if flip then -J(a | b) else J(a | b) := by
  induction a using Nat.strongRecOn generalizing b flip with | ind a IH =>
  unfold jacobiAux
  have hane : ¬ a = 0 := by omega
  simp only [hane, dite_false]
  split <;> rename_i ha4
  · rw [IH (a / 4) (a.div_lt_self ha0 (by decide)) (Nat.div_pos (Nat.le_of_dvd ha0 (Nat.dvd_of_mod_eq_zero ha4)) (by decide)) hb2 hb1]
    simp only [Int.natCast_ediv, Nat.cast_ofNat, div_four_left (a := a) (mod_cast ha4) hb2]
  split <;> rename_i ha2
  · rw [IH (a / 2) (a.div_lt_self ha0 (by decide)) (Nat.div_pos (Nat.le_of_dvd ha0 (Nat.dvd_of_mod_eq_zero ha2)) (by decide)) hb2 hb1]
    simp only [Int.natCast_ediv, Nat.cast_ofNat, ← even_odd (a := a) (mod_cast ha2) hb2]
    by_cases h : b % 8 = 3 ∨ b % 8 = 5 <;> simp [h]; cases flip <;> simp
  split <;> rename_i ha1
  · subst ha1; simp
  split <;> rename_i hba
  · suffices J(a | b) = 0 by simp [this]
    refine eq_zero_iff.mpr ⟨fun h ↦ absurd (h ▸ hb1) (by decide), ?_⟩
    rwa [Int.gcd_natCast_natCast, Nat.gcd_eq_left (Nat.dvd_of_mod_eq_zero hba)]
  rw [IH (b % a) (b.mod_lt ha0) (Nat.pos_of_ne_zero hba) (Nat.mod_two_ne_zero.mp ha2)
    (lt_of_le_of_ne ha0 (Ne.symm ha1))]
  simp only [Int.natCast_mod, ← mod_left]
  rw [← quadratic_reciprocity_if (Nat.mod_two_ne_zero.mp ha2) hb2]
  by_cases h : a % 4 = 3 ∧ b % 4 = 3 <;> simp [h]; cases flip <;> simp

theorem jacobiOdd_eq (a : ℤ) {b : ℕ} (hb2 : b % 2 = 1) : jacobiOdd a b = J(a | b) := by
  unfold jacobiOdd
  by_cases hb1 : b = 1
  · subst hb1; simp
  · have hb : (b == 1) = false := by simpa using hb1
    simp only [hb, Bool.false_eq_true, if_false]
    have hbgt : b > 1 := by omega
    have hnn : 0 ≤ a % (b : ℤ) := Int.emod_nonneg _ (by omega)
    by_cases hr : (a % (b : ℤ)).toNat = 0
    · have : ((a % (b : ℤ)).toNat == 0) = true := by simpa using hr
      simp only [this, if_true]
      have h0 : a % (b : ℤ) = 0 := by omega
      rw [mod_left, h0, zero_left hbgt]
    · have : ((a % (b : ℤ)).toNat == 0) = false := by simpa using hr
      simp only [this, Bool.false_eq_true, if_false]
      rw [jacobiAux_eq (Nat.pos_of_ne_zero hr) hb2 hbgt]
      simp only [Bool.false_eq_true, if_false]
      rw [Int.toNat_of_nonneg hnn, ← mod_left]

theorem val2_odd {n : ℕ} (h : n % 2 = 1) : val2 n = 0 := by
  unfold val2
  cases n with
  | zero => simp at h
  | succ k =>
    unfold divOut
    have : ((k + 1) % 2 == 0) = false := by simp [h]
    simp [this]

/-- for an odd positive modulus the model's `kronecker` (= `jacobi` = `legendre`) is the Jacobi symbol -/
theorem kronecker_eq_jacobiSym (a : ℤ) {b : ℕ} (hb2 : b % 2 = 1) : kronecker a (b : ℤ) = J(a | b) := by
  unfold kronecker
  have hb0 : ((b : ℤ) == 0) = false := by
    have : (b : ℤ) ≠ 0 := by omega
    simpa using this
  have hbodd : (((b : ℤ) % 2) == 0) = false := by
    have : (b : ℤ) % 2 = 1 := by omega
    simp [this]
  simp only [hb0, Bool.false_eq_true, if_false, hbodd, Bool.and_false, Int.natAbs_natCast,
    val2_odd hb2, pow_zero, Nat.div_one]
  have : ¬ ((b : ℤ) < 0) := by omega
  simp [this, jacobiOdd_eq a hb2]

end SymVerif.C32
