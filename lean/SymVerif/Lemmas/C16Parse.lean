/-
C16 — the precedence-climbing parser re-reads the flattening of every well-parenthesised tree.
-/
import SymVerif.Model.StrParse

namespace SymVerif.StrP

/-! ### more fuel never changes a successful result -/

theorem mono_step (f : Nat) :
    (∀ m ts v, pExpr f m ts = .ok v → pExpr (f + 1) m ts = .ok v) ∧
    (∀ m l ts v, pLoop f m l ts = .ok v → pLoop (f + 1) m l ts = .ok v) ∧
    (∀ ts v, pPrefix f ts = .ok v → pPrefix (f + 1) ts = .ok v) ∧
    (∀ ts v, pArgs f ts = .ok v → pArgs (f + 1) ts = .ok v) := by
  induction f with
  | zero => simp [pExpr, pLoop, pPrefix, pArgs]
  | succ f ih =>
    obtain ⟨ihE, ihL, ihP, ihA⟩ := ih
    refine ⟨?_, ?_, ?_, ?_⟩
    · intro m ts v h
      rw [pExpr.eq_def] at h ⊢
      simp only at h ⊢
      cases hp : pPrefix f ts with
      | error e => rw [hp] at h; simp at h
      | ok x =>
        obtain ⟨lhs, r⟩ := x
        rw [hp] at h
        simp only at h
        rw [ihP _ _ hp]
        exact ihL _ _ _ _ h
    · intro m l ts v h
      rw [pLoop.eq_def] at h ⊢
      simp only at h ⊢
      cases ts with
      | nil => simpa using h
      | cons t r =>
        simp only at h ⊢
        cases hb : binOfTok t with
        | none => rw [hb] at h; simpa using h
        | some o =>
          rw [hb] at h
          simp only at h ⊢
          by_cases hm : lbp o > m
          · simp only [hm, if_true] at h ⊢
            cases he : pExpr f (rbp o) r with
            | error e => rw [he] at h; simp at h
            | ok x =>
              obtain ⟨rhs, r'⟩ := x
              rw [he] at h
              simp only at h
              rw [ihE _ _ _ he]
              exact ihL _ _ _ _ h
          · simp only [hm, if_false] at h ⊢
            exact h
    · intro ts v h
      rw [pPrefix.eq_def] at h ⊢
      simp only at h ⊢
      split at h
      · rename_i r
        cases he : pExpr f 0 r with
        | error e => rw [he] at h; simp at h
        | ok x =>
          obtain ⟨e, r'⟩ := x
          rw [he] at h
          rw [ihE _ _ _ he]
          exact h
      · rename_i b r
        cases he : pExpr f ubp r with
        | error e => rw [he] at h; simp at h
        | ok x =>
          obtain ⟨e, r'⟩ := x
          rw [he] at h
          rw [ihE _ _ _ he]
          exact h
      · exact h
      · rename_i s r
        cases he : pArgs f r with
        | error e => rw [he] at h; simp at h
        | ok x =>
          obtain ⟨as, r'⟩ := x
          rw [he] at h
          rw [ihA _ _ he]
          exact h
      · exact h
      · simp at h
    · intro ts v h
      rw [pArgs.eq_def] at h ⊢
      simp only at h ⊢
      cases he : pExpr f 0 ts with
      | error e => rw [he] at h; simp at h
      | ok x =>
        obtain ⟨e, r⟩ := x
        rw [he] at h
        rw [ihE _ _ _ he]
        simp only at h ⊢
        split at h
        · rename_i r'
          cases ha : pArgs f r' with
          | error e => rw [ha] at h; simp at h
          | ok y =>
            obtain ⟨es, r''⟩ := y
            rw [ha] at h
            rw [ihA _ _ ha]
            exact h
        · exact h
        · exact h


theorem pExpr_mono {f f' m : Nat} {ts : List Tok} {v} (h : pExpr f m ts = .ok v) (hle : f ≤ f') :
    pExpr f' m ts = .ok v := by
  obtain ⟨k, rfl⟩ := Nat.exists_eq_add_of_le hle
  induction k with
  | zero => exact h
  | succ k ih => exact (mono_step (f + k)).1 _ _ _ (ih (Nat.le_add_right _ _))

theorem pLoop_mono {f f' m : Nat} {l : PExpr} {ts : List Tok} {v} (h : pLoop f m l ts = .ok v) (hle : f ≤ f') :
    pLoop f' m l ts = .ok v := by
  obtain ⟨k, rfl⟩ := Nat.exists_eq_add_of_le hle
  induction k with
  | zero => exact h
  | succ k ih => exact (mono_step (f + k)).2.1 _ _ _ _ (ih (Nat.le_add_right _ _))

theorem pPrefix_mono {f f' : Nat} {ts : List Tok} {v} (h : pPrefix f ts = .ok v) (hle : f ≤ f') :
    pPrefix f' ts = .ok v := by
  obtain ⟨k, rfl⟩ := Nat.exists_eq_add_of_le hle
  induction k with
  | zero => exact h
  | succ k ih => exact (mono_step (f + k)).2.2.1 _ _ (ih (Nat.le_add_right _ _))

theorem pArgs_mono {f f' : Nat} {ts : List Tok} {v} (h : pArgs f ts = .ok v) (hle : f ≤ f') :
    pArgs f' ts = .ok v := by
  obtain ⟨k, rfl⟩ := Nat.exists_eq_add_of_le hle
  induction k with
  | zero => exact h
  | succ k ih => exact (mono_step (f + k)).2.2.2 _ _ (ih (Nat.le_add_right _ _))

/-! ### the main lemma -/

/-- the left binding power of the first token (0 if it is not a binary operator) -/
def headBp : List Tok → Nat
  | [] => 0
  | t :: _ => match binOfTok t with
    | some o => lbp o
    | none => 0

/-- the first token is not `(` (an identifier followed by `(` is a call) -/
def noLp : List Tok → Bool
  | .lp :: _ => false
  | _ => true

theorem binOfTok_opTok (o : BinOp) : binOfTok (opTok o) = some o := by cases o <;> rfl

theorem opTok_ne_lp (o : BinOp) (r : List Tok) : noLp (opTok o :: r) = true := by cases o <;> rfl

theorem loop_stop {m : Nat} {r : List Tok} (lhs : PExpr) (h : headBp r ≤ m) (f : Nat) :
    pLoop (f + 1) m lhs r = .ok (lhs, r) := by
  rw [pLoop.eq_def]
  simp only
  cases r with
  | nil => rfl
  | cons t r' =>
    simp only
    cases hb : binOfTok t with
    | none => rfl
    | some o =>
      simp only
      have : ¬ (lbp o > m) := by
        simp only [headBp, hb] at h
        omega
      simp only [this, if_false]

theorem expr_of_prefix_loop {f1 f2 m : Nat} {ts r : List Tok} {l : PExpr} {v}
    (h1 : pPrefix f1 ts = .ok (l, r)) (h2 : pLoop f2 m l r = .ok v) : ∃ f, pExpr f m ts = .ok v := by
  refine ⟨max f1 f2 + 1, ?_⟩
  rw [pExpr.eq_def]
  simp only
  rw [pPrefix_mono h1 (Nat.le_max_left _ _)]
  exact pLoop_mono h2 (Nat.le_max_right _ _)

theorem rbp_ge (o : BinOp) : 2 * level o - 1 ≤ rbp o := by
  unfold rbp
  split <;> omega

theorem lt_lv_le_edge {m : Nat} (t : PExpr) (h : m < 2 * lv t) : m ≤ edge t := by
  cases t with
  | bin o a b =>
    have := rbp_ge o
    simp only [lv] at h
    simp only [edge]
    omega
  | neg c =>
    simp only [lv] at h
    simp only [edge, ubp]
    omega
  | num s => simp only [lv] at h; simp only [edge, edgeAtom]; omega
  | id s => simp only [lv] at h; simp only [edge, edgeAtom]; omega
  | call f args => simp only [lv] at h; simp only [edge, edgeAtom]; omega
  | paren c => simp only [lv] at h; simp only [edge, edgeAtom]; omega

theorem level_pos (o : BinOp) : 0 < level o := by cases o <;> decide +kernel
theorem levelNeg_pos : 0 < levelNeg := by decide +kernel

theorem lv_pos (t : PExpr) : 0 < lv t := by
  cases t with
  | bin o a b => exact level_pos o
  | neg c => exact levelNeg_pos
  | num s => simp [lv, levelAtom]
  | id s => simp [lv, levelAtom]
  | call f args => simp [lv, levelAtom]
  | paren c => simp [lv, levelAtom]

theorem prefix_id {s : String} {r : List Tok} (h : noLp r = true) (f : Nat) :
    pPrefix (f + 1) (.id s :: r) = .ok (.id s, r) := by
  rw [pPrefix.eq_def]
  simp only
  cases r with
  | nil => rfl
  | cons t r' =>
    cases t <;> first | rfl | (simp [noLp] at h)

mutual
  theorem parse_tree : (t : PExpr) → WP t = true → ∀ (m : Nat) (r : List Tok) (v : PExpr × List Tok),
      m < 2 * lv t → headBp r ≤ edge t → noLp r = true → (∃ f, pLoop f m t r = .ok v) →
      ∃ f, pExpr f m (flat t ++ r) = .ok v
    | .num s, _, m, r, v, _, _, _, ⟨f, hL⟩ => by
      have hp : pPrefix 1 (.num s :: r) = .ok (.num s, r) := by
        rw [pPrefix.eq_def]
      simpa [flat] using expr_of_prefix_loop hp hL
    | .id s, _, m, r, v, _, _, hnl, ⟨f, hL⟩ => by
      simpa [flat] using expr_of_prefix_loop (prefix_id hnl 0) hL
    | .neg c, hw, m, r, v, _, he, hnl, ⟨f, hL⟩ => by
      simp only [WP, Bool.and_eq_true, decide_eq_true_eq] at hw
      obtain ⟨hwc, hlc⟩ := hw
      simp only [edge] at he
      obtain ⟨f1, h1⟩ := parse_tree c hwc ubp r (c, r) hlc (Nat.le_trans he (lt_lv_le_edge c hlc)) hnl
        ⟨1, loop_stop c he 0⟩
      have hp : pPrefix (f1 + 1) (.minus false :: (flat c ++ r)) = .ok (.neg c, r) := by
        rw [pPrefix.eq_def]
        simp only
        rw [h1]
      simpa [flat] using expr_of_prefix_loop hp hL
    | .paren c, hw, m, r, v, _, _, _, ⟨f, hL⟩ => by
      simp only [WP] at hw
      obtain ⟨f1, h1⟩ := parse_tree c hw 0 (.rp :: r) (c, .rp :: r) (Nat.mul_pos (by decide) (lv_pos c))
        (by simp [headBp, binOfTok]) rfl ⟨1, loop_stop c (by simp [headBp, binOfTok]) 0⟩
      have hp : pPrefix (f1 + 1) (.lp :: (flat c ++ .rp :: r)) = .ok (.paren c, r) := by
        rw [pPrefix.eq_def]
        simp only
        rw [h1]
      simpa [flat] using expr_of_prefix_loop hp hL
    | .call g args, hw, m, r, v, _, _, _, ⟨f, hL⟩ => by
      simp only [WP, Bool.and_eq_true, Bool.not_eq_true', List.isEmpty_eq_false_iff] at hw
      obtain ⟨hne, hws⟩ := hw
      obtain ⟨f1, h1⟩ := parse_args args hne hws r
      have hp : pPrefix (f1 + 1) (.id g :: .lp :: (flatArgs args ++ .rp :: r)) = .ok (.call g args, r) := by
        rw [pPrefix.eq_def]
        simp only
        rw [h1]
      simpa [flat] using expr_of_prefix_loop hp hL
    | .bin o a b, hw, m, r, v, hm, he, hnl, ⟨f, hL⟩ => by
      simp only [WP, Bool.and_eq_true, decide_eq_true_eq] at hw
      obtain ⟨⟨⟨⟨hwa, hwb⟩, hla⟩, hea⟩, hlb⟩ := hw
      simp only [lv] at hm
      simp only [edge] at he
      have hlbp : lbp o = 2 * level o := rfl
      -- the right operand
      obtain ⟨f1, h1⟩ := parse_tree b hwb (rbp o) r (b, r) hlb (Nat.le_trans he (lt_lv_le_edge b hlb)) hnl
        ⟨1, loop_stop b he 0⟩
      -- the loop standing on the operator with `a` as left operand
      have hloop : pLoop (max f1 f + 1) m a (opTok o :: (flat b ++ r)) = .ok v := by
        rw [pLoop.eq_def]
        simp only [binOfTok_opTok]
        have : lbp o > m := by omega
        simp only [this, if_true]
        rw [pExpr_mono h1 (Nat.le_max_left _ _)]
        exact pLoop_mono hL (Nat.le_max_right _ _)
      have := parse_tree a hwa m (opTok o :: (flat b ++ r)) v (by omega)
        (by simp only [headBp, binOfTok_opTok]; exact hea) (opTok_ne_lp o _) ⟨_, hloop⟩
      simpa [flat, List.append_assoc] using this
  theorem parse_args : (args : List PExpr) → args ≠ [] → WPs args = true → ∀ (r : List Tok),
      ∃ f, pArgs f (flatArgs args ++ .rp :: r) = .ok (args, r)
    | [], hne, _, _ => absurd rfl hne
    | a :: t, _, hw, r => by
      simp only [WPs, Bool.and_eq_true] at hw
      obtain ⟨hwa, hwt⟩ := hw
      cases t with
      | nil =>
        obtain ⟨f1, h1⟩ := parse_tree a hwa 0 (.rp :: r) (a, .rp :: r) (Nat.mul_pos (by decide) (lv_pos a))
          (by simp [headBp, binOfTok]) rfl ⟨1, loop_stop a (by simp [headBp, binOfTok]) 0⟩
        refine ⟨f1 + 1, ?_⟩
        rw [pArgs.eq_def]
        simp only [flatArgs, flatRest, List.append_nil]
        rw [h1]
      | cons b t' =>
        obtain ⟨f2, h2⟩ := parse_args (b :: t') (by simp) hwt r
        obtain ⟨f1, h1⟩ := parse_tree a hwa 0 (.comma :: (flatArgs (b :: t') ++ .rp :: r))
          (a, .comma :: (flatArgs (b :: t') ++ .rp :: r)) (Nat.mul_pos (by decide) (lv_pos a))
          (by simp [headBp, binOfTok]) rfl ⟨1, loop_stop a (by simp [headBp, binOfTok]) 0⟩
        refine ⟨max f1 f2 + 1, ?_⟩
        rw [pArgs.eq_def]
        simp only
        have e : flatArgs (a :: b :: t') ++ .rp :: r = flat a ++ .comma :: (flatArgs (b :: t') ++ .rp :: r) := by
          simp [flatArgs, flatRest, List.append_assoc]
        rw [e, pExpr_mono h1 (Nat.le_max_left _ _)]
        simp only
        rw [pArgs_mono h2 (Nat.le_max_right _ _)]
end

/-- **the syntactic round trip**: the flattening of a well-parenthesised tree parses back to the tree, for every
sufficiently large fuel -/
theorem parse_flat (t : PExpr) (h : WP t = true) : ∃ f0, ∀ f, f0 ≤ f → parseToks f (flat t) = .ok t := by
  obtain ⟨f0, h0⟩ := parse_tree t h 0 [] (t, []) (Nat.mul_pos (by decide) (lv_pos t)) (by simp [headBp]) rfl
    ⟨1, loop_stop t (by simp [headBp]) 0⟩
  refine ⟨f0, fun f hf => ?_⟩
  simp only [List.append_nil] at h0
  simp [parseToks, pExpr_mono h0 hf]

end SymVerif.StrP
