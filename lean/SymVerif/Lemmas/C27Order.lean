import SymVerif.Model.Sets
import Mathlib.Order.WithBot
import Mathlib.Algebra.Order.Ring.Rat
import Mathlib.Order.Basic

namespace SymVerif.Sets
namespace ENum

/-- embedding into `WithBot (WithTop ℚ)` -/
def toW : ENum → WithBot (WithTop ℚ)
  | ninf => ⊥
  | fin q => ((q : WithTop ℚ) : WithBot (WithTop ℚ))
  | pinf => ((⊤ : WithTop ℚ) : WithBot (WithTop ℚ))

theorem toW_injective : Function.Injective toW := by
  intro a b h
  cases a <;> cases b <;> simp_all [toW]

instance : LinearOrder ENum := LinearOrder.lift' toW toW_injective

theorem lt_def (a b : ENum) : a < b ↔ toW a < toW b := Iff.rfl
theorem le_def (a b : ENum) : a ≤ b ↔ toW a ≤ toW b := Iff.rfl

@[simp] theorem fin_lt_fin (a b : ℚ) : (fin a : ENum) < fin b ↔ a < b := by
  simp [lt_def, toW]
@[simp] theorem fin_le_fin (a b : ℚ) : (fin a : ENum) ≤ fin b ↔ a ≤ b := by
  simp [le_def, toW]
@[simp] theorem ninf_lt_fin (b : ℚ) : (ninf : ENum) < fin b := by
  simp [lt_def, toW]
@[simp] theorem fin_lt_pinf (b : ℚ) : (fin b : ENum) < pinf := by
  rw [lt_def]; exact WithBot.coe_lt_coe.2 (WithTop.coe_lt_top b)
@[simp] theorem ninf_lt_pinf : (ninf : ENum) < pinf := by
  simp [lt_def, toW]
@[simp] theorem ninf_le (b : ENum) : (ninf : ENum) ≤ b := by
  simp [le_def, toW]
@[simp] theorem le_pinf (b : ENum) : b ≤ (pinf : ENum) := by
  cases b <;> simp [le_def, toW]

theorem lt_iff (a b : ENum) : lt a b = true ↔ a < b := by
  cases a <;> cases b <;> simp [lt, lt_def, toW]
  exact WithBot.coe_lt_coe.2 (WithTop.coe_lt_top _)

theorem max2_eq (a b : ENum) : max2 a b = max a b := by
  unfold max2
  by_cases h : a < b
  · simp [(lt_iff a b).2 h, max_eq_right h.le]
  · have : lt a b = false := by
      cases hl : lt a b
      · rfl
      · exact absurd ((lt_iff a b).1 hl) h
    simp [this, max_eq_left (not_lt.1 h)]

theorem min2_eq (a b : ENum) : min2 a b = min a b := by
  unfold min2
  by_cases h : b < a
  · simp [(lt_iff b a).2 h, min_eq_right h.le]
  · have : lt b a = false := by
      cases hl : lt b a
      · rfl
      · exact absurd ((lt_iff b a).1 hl) h
    simp [this, min_eq_left (not_lt.1 h)]

end ENum

/-- membership of a rational point in an interval with extended end points -/
def memIv (s e : ENum) (lo ro : Bool) (q : ℚ) : Prop :=
  (s < .fin q ∨ (s = .fin q ∧ lo = false)) ∧ (.fin q < e ∨ (e = .fin q ∧ ro = false))

theorem ivContains_iff (s e : ENum) (lo ro : Bool) (q : ℚ) (h : s < e) :
    ivContains s e lo ro (.fin q) = true ↔ memIv s e lo ro q := by
  unfold ivContains memIv
  simp only [ENum.max2_eq, ENum.min2_eq, beq_iff_eq]
  grind

end SymVerif.Sets
