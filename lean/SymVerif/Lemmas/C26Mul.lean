import SymVerif.Lemmas.C26MulBase
/-!
Value preservation of `matrix_mul`: the merge loop.
-/
namespace SymVerif.MatExpr
open MExpr

/-- the pending DiagonalMatrix / ImmutableDenseMatrix of the merge loop -/
def pend (st : MulSt) : List MExpr :=
  match st.dg, st.dn with
  | some d, _ => [diag d]
  | none, some (r, c, v) => [dense r c v]
  | none, none => []

def baseL (st : MulSt) : List MExpr := st.keep ++ pend st

/-- the factors the state stands for: `keep`, the pending merged leaf, or the remembered identity
    if there is nothing else -/
def semL (st : MulSt) : List MExpr :=
  if baseL st = [] then (match st.idn with | some n => [ident n] | none => []) else baseL st

structure MulInv (env : Env) (Pr : List MExpr) (st : MulSt) : Prop where
  excl : st.dg = none ∨ st.dn = none
  ok : okAll env (semL st)
  chain : ChainOk (valsOf env (semL st))
  nil : Pr = [] → semL st = []
  val : Pr ≠ [] → semL st ≠ [] ∧ prodV (valsOf env (semL st)) ≃ prodV (valsOf env Pr)

theorem valsOf_single (env : Env) (t : MExpr) : valsOf env [t] = [valOf env t] := by simp [valsOf]

theorem prodV_valsOf_snoc_c (env : Env) (K : List MExpr) (p : MExpr) :
    (prodV (valsOf env (K ++ [p]))).c = (valOf env p).c := by
  rw [valsOf_append, valsOf_single, prodV_c _ (by simp)]; simp

/-- the conclusion of a step from the shape of the new state -/
theorem inv_of_snoc {env : Env} {Pr : List MExpr} {st st1 : MulSt} {t : MExpr}
    (hinv : MulInv env Pr st) (hch : ChainOk (valsOf env (Pr ++ [t])))
    (hexcl : st1.dg = none ∨ st1.dn = none) (hok1 : okAll env (semL st1)) (hne : semL st1 ≠ [])
    (hch1 : ChainOk (valsOf env (semL st1)))
    (hv0 : semL st = [] → prodV (valsOf env (semL st1)) ≃ valOf env t)
    (hv1 : semL st ≠ [] → (prodV (valsOf env (semL st))).c = (valOf env t).r →
      prodV (valsOf env (semL st1)) ≃ mulV (prodV (valsOf env (semL st))) (valOf env t)) :
    MulInv env (Pr ++ [t]) st1 := by
  refine ⟨hexcl, hok1, hch1, fun h => by simp at h, fun _ => ⟨hne, ?_⟩⟩
  by_cases hp : Pr = []
  · subst hp
    have := hv0 (hinv.nil rfl)
    simpa [valsOf, prodV] using this
  · obtain ⟨hs, he⟩ := hinv.val hp
    rw [valsOf_append, valsOf_single] at hch ⊢
    have hlink := chainOk_append_link (valsOf_ne_nil hp) (by simp) hch
    rw [prodV_single] at hlink
    have hc : (prodV (valsOf env (semL st))).c = (valOf env t).r := by rw [he.2.1]; exact hlink
    refine (hv1 hs hc).trans ?_
    refine (mulV_congr he (Val.Eqv.refl _) hc).trans ?_
    have := prodV_append (valsOf_ne_nil hp) (by simp) hch
    rw [prodV_single] at this
    exact this.symm

/-- replacing the pending leaf `p` at the end by the merged leaf `p'` -/
theorem merge_lemma {env : Env} (K : List MExpr) (p p' t : MExpr)
    (hK : ChainOk (valsOf env (K ++ [p]))) (hpt : (valOf env p).c = (valOf env t).r)
    (he : mulV (valOf env p) (valOf env t) ≃ valOf env p') :
    ChainOk (valsOf env (K ++ [p'])) ∧
      prodV (valsOf env (K ++ [p'])) ≃ mulV (prodV (valsOf env (K ++ [p]))) (valOf env t) := by
  by_cases hk : K = []
  · subst hk
    simp only [List.nil_append, valsOf_single, prodV_single]
    exact ⟨trivial, he.symm⟩
  · have hkv := valsOf_ne_nil (env := env) hk
    simp only [valsOf_append, valsOf_single] at hK ⊢
    have hlink := chainOk_append_link hkv (by simp) hK
    rw [prodV_single] at hlink
    have hp'r : (valOf env p').r = (valOf env p).r := he.1.symm
    have hch' : ChainOk (valsOf env K ++ [valOf env p']) :=
      chainOk_append_of (chainOk_append_left hK) trivial
        (fun _ _ => by rw [prodV_single, hp'r]; exact hlink)
    refine ⟨hch', ?_⟩
    have e1 := prodV_append hkv (by simp) hch'
    have e2 := prodV_append hkv (by simp) hK
    rw [prodV_single] at e1 e2
    refine e1.trans ?_
    refine (mulV_congr (Val.Eqv.refl _) he.symm (by rw [hp'r]; exact hlink)).trans ?_
    refine (mulV_assoc _ _ _).symm.trans ?_
    exact mulV_congr e2.symm (Val.Eqv.refl _) (by simpa [mulV] using hpt)

theorem semL_of_base_ne {st : MulSt} (h : baseL st ≠ []) : semL st = baseL st := by
  simp [semL, h]

/-- appending `t` as a new last element (pending leaf or kept factor) -/
theorem snoc_lemma {env : Env} (st : MulSt) (t : MExpr) (hok : okAll env (semL st))
    (hch : ChainOk (valsOf env (semL st))) (hokt : okOf env t) :
    let L1 := baseL st ++ [t]
    okAll env L1 ∧
      ((semL st ≠ [] → (prodV (valsOf env (semL st))).c = (valOf env t).r) → ChainOk (valsOf env L1)) ∧
      (semL st = [] → prodV (valsOf env L1) ≃ valOf env t) ∧
      (semL st ≠ [] → (prodV (valsOf env (semL st))).c = (valOf env t).r →
        prodV (valsOf env L1) ≃ mulV (prodV (valsOf env (semL st))) (valOf env t)) := by
  intro L1
  by_cases hb : baseL st = []
  · have hL1 : L1 = [t] := by simp [L1, hb]
    rw [hL1]
    refine ⟨⟨hokt, trivial⟩, fun _ => by simp [valsOf, ChainOk], fun _ => ?_, fun hs hc => ?_⟩
    · simp [valsOf, prodV]; exact Val.Eqv.refl _
    · -- the state is a remembered identity
      simp only [semL, hb, if_true] at hs hc ⊢
      cases hid : st.idn with
      | none => simp [hid] at hs
      | some n =>
        simp only [hid, valsOf_single, prodV_single] at hc ⊢
        exact (mulV_ident_left (a := valOf env t) (by simpa [valOf] using hc)).symm
  · have hs : semL st = baseL st := semL_of_base_ne hb
    rw [hs] at hok hch ⊢
    have hbv := valsOf_ne_nil (env := env) hb
    refine ⟨(okAll_append _ _ _).2 ⟨hok, hokt, trivial⟩, fun hl => ?_, fun h => absurd h hb, fun _ hc => ?_⟩
    · rw [valsOf_append, valsOf_single]
      exact chainOk_append_of hch trivial (fun _ _ => by rw [prodV_single]; exact hl hb)
    · have hch' : ChainOk (valsOf env (baseL st) ++ [valOf env t]) :=
        chainOk_append_of hch trivial (fun _ _ => by rw [prodV_single]; exact hc)
      rw [valsOf_append, valsOf_single]
      have := prodV_append hbv (by simp) hch'
      rwa [prodV_single] at this

end SymVerif.MatExpr

namespace SymVerif.MatExpr
open MExpr

/-- the generic branch of `mulStep`: flush the pending leaf, push the factor -/
def flushPush (st : MulSt) (f : MExpr) : MulSt :=
  match st.dg, st.dn with
  | some d, _ => { st with keep := st.keep ++ [diag d, f], dg := none }
  | none, some (r, c, v) => { st with keep := st.keep ++ [dense r c v, f], dn := none }
  | none, none => { st with keep := st.keep ++ [f] }

theorem flushPush_spec (st : MulSt) (f : MExpr) (hex : st.dg = none ∨ st.dn = none) :
    baseL (flushPush st f) = baseL st ++ [f] ∧
      ((flushPush st f).dg = none ∨ (flushPush st f).dn = none) := by
  cases hdg : st.dg with
  | some d =>
    have hdn : st.dn = none := by rcases hex with h | h; simp [hdg] at h; exact h
    simp [flushPush, baseL, pend, hdg, hdn]
  | none =>
    cases hdn : st.dn with
    | some x => obtain ⟨r, c, v⟩ := x; simp [flushPush, baseL, pend, hdg, hdn]
    | none => simp [flushPush, baseL, pend, hdg, hdn]

theorem step_generic {env : Env} {Pr : List MExpr} {st : MulSt} {f : MExpr}
    (hinv : MulInv env Pr st) (hokt : okOf env f) (hch : ChainOk (valsOf env (Pr ++ [f]))) :
    MulInv env (Pr ++ [f]) (flushPush st f) := by
  obtain ⟨hb, hex⟩ := flushPush_spec st f hinv.excl
  have hs : semL (flushPush st f) = baseL st ++ [f] := by
    rw [semL_of_base_ne (by rw [hb]; simp), hb]
  obtain ⟨s1, s2, s3, s4⟩ := snoc_lemma st f hinv.ok hinv.chain hokt
  -- the link, needed for the chain of the new list
  have hlink : semL st ≠ [] → (prodV (valsOf env (semL st))).c = (valOf env f).r := by
    intro hne
    have hp : Pr ≠ [] := fun h => hne (hinv.nil h)
    obtain ⟨_, he⟩ := hinv.val hp
    have hch' := hch
    rw [valsOf_append, valsOf_single] at hch'
    have := chainOk_append_link (valsOf_ne_nil hp) (by simp) hch'
    rw [prodV_single] at this
    rw [he.2.1]; exact this
  refine inv_of_snoc hinv hch hex ?_ ?_ ?_ ?_ ?_
  · rw [hs]; exact s1
  · rw [hs]; simp
  · rw [hs]; exact s2 hlink
  · rw [hs]; exact s3
  · rw [hs]; exact s4

theorem link_of {env : Env} {Pr : List MExpr} {st : MulSt} {t : MExpr} (hinv : MulInv env Pr st)
    (hch : ChainOk (valsOf env (Pr ++ [t]))) (hne : semL st ≠ []) :
    (prodV (valsOf env (semL st))).c = (valOf env t).r := by
  have hp : Pr ≠ [] := fun h => hne (hinv.nil h)
  obtain ⟨_, he⟩ := hinv.val hp
  rw [valsOf_append, valsOf_single] at hch
  have := chainOk_append_link (valsOf_ne_nil hp) (by simp) hch
  rw [prodV_single] at this
  rw [he.2.1]; exact this

/-- a step that appends `t` as the new pending leaf (nothing was pending) -/
theorem step_new_pending {env : Env} {Pr : List MExpr} {st st1 : MulSt} {t : MExpr}
    (hinv : MulInv env Pr st) (hokt : okOf env t) (hch : ChainOk (valsOf env (Pr ++ [t])))
    (hb : baseL st1 = baseL st ++ [t]) (hex : st1.dg = none ∨ st1.dn = none) :
    MulInv env (Pr ++ [t]) st1 := by
  have hs : semL st1 = baseL st ++ [t] := by
    rw [semL_of_base_ne (by rw [hb]; simp), hb]
  obtain ⟨s1, s2, s3, s4⟩ := snoc_lemma st t hinv.ok hinv.chain hokt
  refine inv_of_snoc hinv hch hex ?_ ?_ ?_ ?_ ?_
  · rw [hs]; exact s1
  · rw [hs]; simp
  · rw [hs]; exact s2 (link_of hinv hch)
  · rw [hs]; exact s3
  · rw [hs]; exact s4

/-- a step that merges `t` into the pending leaf `p`, giving `p'` -/
theorem step_merge {env : Env} {Pr : List MExpr} {st st1 : MulSt} {t p p' : MExpr}
    (hinv : MulInv env Pr st) (hch : ChainOk (valsOf env (Pr ++ [t])))
    (hp : pend st = [p]) (hk1 : st1.keep = st.keep) (hp1 : pend st1 = [p'])
    (hex : st1.dg = none ∨ st1.dn = none) (hokp' : okOf env p')
    (he : (valOf env p).c = (valOf env t).r → mulV (valOf env p) (valOf env t) ≃ valOf env p') :
    MulInv env (Pr ++ [t]) st1 := by
  have hb : baseL st = st.keep ++ [p] := by simp [baseL, hp]
  have hb1 : baseL st1 = st.keep ++ [p'] := by simp [baseL, hp1, hk1]
  have hs : semL st = st.keep ++ [p] := by rw [semL_of_base_ne (by rw [hb]; simp), hb]
  have hs1 : semL st1 = st.keep ++ [p'] := by rw [semL_of_base_ne (by rw [hb1]; simp), hb1]
  have hok := hinv.ok
  have hchain := hinv.chain
  rw [hs] at hok hchain
  have hlink := link_of hinv hch (by rw [hs]; simp)
  rw [hs, prodV_valsOf_snoc_c] at hlink
  obtain ⟨m1, m2⟩ := merge_lemma st.keep p p' t hchain hlink (he hlink)
  refine inv_of_snoc hinv hch hex ?_ ?_ ?_ ?_ ?_
  · rw [hs1]; exact (okAll_append _ _ _).2 ⟨((okAll_append _ _ _).1 hok).1, hokp', trivial⟩
  · rw [hs1]; simp
  · rw [hs1]; exact m1
  · intro h; rw [hs] at h; simp at h
  · intro _ _; rw [hs1, hs]; exact m2

theorem mkDenseT_ok {x : Nat × Nat × List GQ} {u : Unit} (_h : mkDenseT x = .ok u) : True := trivial

theorem mulStep_spec {env : Env} {Pr : List MExpr} {st st1 : MulSt} {t : MExpr}
    (h : mulStep st t = .ok st1) (hinv : MulInv env Pr st) (hokt : okOf env t)
    (hch : ChainOk (valsOf env (Pr ++ [t]))) : MulInv env (Pr ++ [t]) st1 := by
  have gen : mulStep st t = .ok (flushPush st t) → MulInv env (Pr ++ [t]) st1 := by
    intro hg
    rw [hg] at h
    simp at h
    rw [← h]
    exact step_generic hinv hokt hch
  cases t with
  | zero a b => exact gen (by simp only [mulStep, flushPush]; split <;> simp [*])
  | sym n => exact gen (by simp only [mulStep, flushPush]; split <;> simp [*])
  | add ts => exact gen (by simp only [mulStep, flushPush]; split <;> simp [*])
  | mul s fs => exact gen (by simp only [mulStep, flushPush]; split <;> simp [*])
  | had fs => exact gen (by simp only [mulStep, flushPush]; split <;> simp [*])
  | transpose e => exact gen (by simp only [mulStep, flushPush]; split <;> simp [*])
  | conj e => exact gen (by simp only [mulStep, flushPush]; split <;> simp [*])
  | ident n =>
    simp [mulStep] at h
    subst h
    by_cases hb : baseL st = []
    · have hs1 : semL { st with idn := some n } = [ident n] := by
        simp [semL, baseL, pend] at hb ⊢
        simp [hb]
      refine inv_of_snoc hinv hch hinv.excl ?_ ?_ ?_ ?_ ?_
      · rw [hs1]; exact ⟨trivial, trivial⟩
      · rw [hs1]; simp
      · rw [hs1]; simp [valsOf, ChainOk]
      · intro _; rw [hs1]; simp [valsOf, prodV]; exact Val.Eqv.refl _
      · intro hne hc
        rw [hs1]
        simp only [semL, hb, if_true] at hne hc ⊢
        cases hid : st.idn with
        | none => simp [hid] at hne
        | some n0 =>
          simp only [hid, valsOf_single, prodV_single] at hc ⊢
          exact (mulV_ident_left (a := valOf env (ident n)) (by simpa [valOf] using hc)).symm
    · have hs : semL st = baseL st := semL_of_base_ne hb
      have hs1 : semL { st with idn := some n } = baseL st := by
        have : baseL { st with idn := some n } = baseL st := rfl
        rw [semL_of_base_ne (by rw [this]; exact hb), this]
      refine inv_of_snoc hinv hch hinv.excl ?_ ?_ ?_ ?_ ?_
      · rw [hs1, ← hs]; exact hinv.ok
      · rw [hs1]; exact hb
      · rw [hs1, ← hs]; exact hinv.chain
      · intro h0; rw [hs] at h0; exact absurd h0 hb
      · intro _ hc
        rw [hs1, ← hs]
        exact (mulV_ident_right (n := n.eval env) (by simpa [valOf] using hc)).symm
  | diag d =>
    simp only [mulStep] at h
    split at h
    · -- diag * diag
      rename_i d0 hdg
      simp only [bind_ok] at h
      obtain ⟨p, hp, _, _, h⟩ := h
      simp [pure, Except.pure] at h; subst h
      obtain ⟨hlen, rfl⟩ := zipSame_ok hp
      have hdn : st.dn = none := by rcases hinv.excl with h | h; simp [hdg] at h; exact h
      refine step_merge (p := diag d0) (p' := diag (List.zipWith (· * ·) d0 d)) hinv hch
        (by simp [pend, hdg]) rfl (by simp [pend]) (Or.inr hdn) trivial (fun _ => diag_mul_diag hlen)
    · -- dense * diag
      rename_i r c v hdg hdn
      simp only [bind_ok] at h
      obtain ⟨p, hp, _, _, h⟩ := h
      simp [pure, Except.pure] at h; subst h
      simp only [mulDenseDiag] at hp
      split at hp
      · rename_i hg
        simp at hp; subst hp
        refine step_merge (p := dense r c v) (p' := dense r c _) hinv hch
          (by simp [pend, hdg, hdn]) rfl (by simp [pend, hdg]) (Or.inl hdg)
          (by simp [okOf, length_mkFlat]) (fun _ => dense_mul_diag hg.2)
      · simp at hp
    · rename_i hdg hdn
      simp at h; subst h
      exact step_new_pending hinv hokt hch (by simp [baseL, pend, hdg, hdn]) (Or.inr hdn)
  | dense r c v =>
    have hlenv : v.length = r * c := hokt
    simp only [mulStep] at h
    split at h
    · -- dense * dense
      rename_i r0 c0 v0 hdn
      simp only [bind_ok] at h
      obtain ⟨p, hp, _, _, h⟩ := h
      simp [pure, Except.pure] at h; subst h
      simp only [mulDenseDense] at hp
      split at hp
      · rename_i hg
        simp at hp; subst hp
        obtain ⟨_, _, hcr⟩ := hg
        subst hcr
        have hdg : st.dg = none := by rcases hinv.excl with h | h; exact h; simp [hdn] at h
        refine step_merge (p := dense r0 c0 v0) (p' := dense r0 c _) hinv hch
          (by simp [pend, hdg, hdn]) rfl (by simp [pend, hdg]) (Or.inl hdg)
          (by simp [okOf, length_mkFlat]) (fun _ => dense_mul_dense)
      · simp at hp
    · -- diag * dense
      rename_i d0 hdn hdg
      simp only [bind_ok] at h
      obtain ⟨p, hp, _, _, h⟩ := h
      simp [pure, Except.pure] at h; subst h
      simp only [mulDiagDense] at hp
      split at hp
      · rename_i hg
        simp at hp; subst hp
        refine step_merge (p := diag d0) (p' := dense r c _) hinv hch
          (by simp [pend, hdg]) rfl (by simp [pend]) (Or.inl rfl)
          (by simp [okOf, length_mkFlat]) (fun _ => diag_mul_dense hg.2)
      · simp at hp
    · rename_i hdn hdg
      simp at h; subst h
      exact step_new_pending hinv hokt hch (by simp [baseL, pend, hdg, hdn]) (Or.inl hdg)

theorem mulLoop_spec {env : Env} : ∀ (l Pr : List MExpr) (st st' : MulSt),
    mulLoop l st = .ok st' → MulInv env Pr st → okAll env l → ChainOk (valsOf env (Pr ++ l)) →
    MulInv env (Pr ++ l) st'
  | [], Pr, st, st', h, hinv, _, _ => by
    simp [mulLoop] at h; subst h; simpa using hinv
  | t :: rest, Pr, st, st', h, hinv, hok, hch => by
    simp only [mulLoop, bind_ok] at h
    obtain ⟨st1, h1, h2⟩ := h
    have hch1 : ChainOk (valsOf env (Pr ++ [t])) := by
      have : Pr ++ t :: rest = (Pr ++ [t]) ++ rest := by simp
      rw [this, valsOf_append] at hch
      exact chainOk_append_left hch
    have i1 := mulStep_spec h1 hinv hok.1 hch1
    have := mulLoop_spec rest (Pr ++ [t]) st1 st' h2 i1 hok.2 (by simpa using hch)
    simpa using this

end SymVerif.MatExpr
