/-
C04 helper lemmas: the *value* of the exact numeric leaves.

`Arith.Q` (the `rational_class` representation) is mapped to Lean's `Rat` by `qr`; canonical
representations are in bijection with `Rat` (`qr_inj`, `ofR`), and `Q.add / Q.mul / Q.neg` compute
`+ / * / -`.  On top of it `gq : Expr → ℚ × ℚ` is the Gaussian-rational value of an exact Number leaf
and `ofG` its inverse on canonical leaves, so that `numAdd` / `numMul` become the ring operations of
ℚ(i) (`numAdd_eq`, `numMul_eq`) and inherit commutativity / associativity from `Rat`.
-/
import Mathlib.Tactic.Ring
import Mathlib.Algebra.Order.Ring.Rat
import Mathlib.Algebra.Group.Prod
import Mathlib.Algebra.BigOperators.Group.List.Basic
import SymVerif.Lemmas.C03Num

namespace SymVerif.AC
open SymVerif SymVerif.Arith

/-! ### rational_class ↔ Rat -/

def qr (q : Q) : ℚ := mkRat q.num q.den

def ofR (r : ℚ) : Q := ⟨r.num, r.den⟩

theorem qr_ofR (r : ℚ) : qr (ofR r) = r := by simp [qr, ofR]

theorem ofR_canon (r : ℚ) : Q.canon (ofR r) = true := by
  rw [Q.canon_iff]
  exact ⟨r.den_nz, r.reduced⟩

theorem qr_num_den {q : Q} (h : Q.canon q = true) : (qr q).num = q.num ∧ (qr q).den = q.den := by
  rw [Q.canon_iff] at h
  obtain ⟨h1, h2⟩ := h
  have h2' : q.den.gcd q.num.natAbs = 1 := by rw [Nat.gcd_comm]; exact h2
  constructor
  · simp [qr, Rat.num_mkRat, h1, h2']
  · simp [qr, Rat.den_mkRat, h1, h2']

theorem ofR_qr {q : Q} (h : Q.canon q = true) : ofR (qr q) = q := by
  obtain ⟨h1, h2⟩ := qr_num_den h
  cases q
  simp_all [ofR]

theorem qr_inj {a b : Q} (ha : Q.canon a = true) (hb : Q.canon b = true) (h : qr a = qr b) : a = b := by
  rw [← ofR_qr ha, ← ofR_qr hb, h]

theorem qr_norm (n : Int) {d : Nat} (hd : d ≠ 0) : qr (Q.norm n d) = mkRat n d := by
  unfold Q.norm
  have hg : Nat.gcd n.natAbs d ≠ 0 := by
    intro h
    exact hd (Nat.eq_zero_of_gcd_eq_zero_right h)
  simp only [beq_iff_eq, hg, if_false, qr]
  have h1 : ((Nat.gcd n.natAbs d : Nat) : Int) ∣ n := by
    rw [Int.natCast_dvd]
    exact Nat.gcd_dvd_left _ _
  have h2 : Nat.gcd n.natAbs d ∣ d := Nat.gcd_dvd_right _ _
  have e : mkRat n d = mkRat (((Nat.gcd n.natAbs d : Nat) : Int) * (n / ((Nat.gcd n.natAbs d : Nat) : Int)))
      (Nat.gcd n.natAbs d * (d / Nat.gcd n.natAbs d)) := by
    rw [Int.mul_ediv_cancel' h1, Nat.mul_div_cancel' h2]
  rw [e, Rat.mkRat_mul_left hg]

theorem qr_add {a b : Q} (ha : a.den ≠ 0) (hb : b.den ≠ 0) : qr (Q.add a b) = qr a + qr b := by
  unfold Q.add
  rw [qr_norm _ (Nat.mul_ne_zero ha hb)]
  simp only [qr]
  rw [Rat.mkRat_add_mkRat _ _ ha hb]

theorem qr_mul {a b : Q} (ha : a.den ≠ 0) (hb : b.den ≠ 0) : qr (Q.mul a b) = qr a * qr b := by
  unfold Q.mul
  rw [qr_norm _ (Nat.mul_ne_zero ha hb)]
  simp only [qr]
  rw [Rat.mkRat_mul_mkRat]

theorem qr_neg (a : Q) : qr (Q.neg a) = - qr a := by
  simp [qr, Q.neg, Rat.neg_mkRat]

theorem qr_sub {a b : Q} (ha : a.den ≠ 0) (hb : b.den ≠ 0) : qr (Q.sub a b) = qr a - qr b := by
  unfold Q.sub
  rw [qr_add ha (by simpa [Q.neg] using hb), qr_neg]
  ring

theorem Q.den_ne_zero {q : Q} (h : Q.canon q = true) : q.den ≠ 0 := (Q.canon_iff.mp h).1

theorem qr_zero : qr Q.zero = 0 := by simp [qr, Q.zero]
theorem qr_ofInt (n : Int) : qr (Q.ofInt n) = n := by
  simp [qr, Q.ofInt, Rat.mkRat_one]

/-! ### exact Number leaves ↔ ℚ × ℚ -/

/-- Gaussian-rational value of an exact Number leaf (`(0,0)` on anything else) -/
def gq (e : Expr) : ℚ × ℚ :=
  match toGQ e with
  | some (re, im) => (qr re, qr im)
  | none => (0, 0)

/-- the canonical leaf with a given value -/
def ofG (p : ℚ × ℚ) : Expr := ofGQ (ofR p.1) (ofR p.2)

theorem exOK_ofG (p : ℚ × ℚ) : ExOK (ofG p) := ofGQ_exOK (ofR_canon _) (ofR_canon _)

theorem ofQ_ofR_toGQ (r : ℚ) : toGQ (ofQ (ofR r)) = some (ofR r, Q.zero) := by
  unfold ofQ
  split
  · rename_i h
    simp only [ofR, beq_iff_eq] at h
    simp [toGQ, ofR, h]
  · simp [toGQ, ofR]

theorem gq_ofG (p : ℚ × ℚ) : gq (ofG p) = p := by
  obtain ⟨a, b⟩ := p
  unfold ofG ofGQ
  split
  · rename_i h
    simp only [ofR, beq_iff_eq] at h
    have hb : b = 0 := Rat.zero_of_num_zero h
    simp [gq, ofQ_ofR_toGQ, qr_ofR, qr_zero, hb]
  · simp [gq, toGQ, qr_ofR]

theorem ofG_gq {e : Expr} (h : ExOK e) : ofG (gq e) = e := by
  obtain ⟨re, im, hg, hr, hi⟩ := exOK_toGQ h
  have hc := h.2
  simp only [gq, hg, ofG, ofR_qr hr, ofR_qr hi]
  cases e <;> simp [toGQ] at hg
  · obtain ⟨rfl, rfl⟩ := hg
    simp [ofGQ, ofQ, Q.zero]
  · obtain ⟨rfl, rfl⟩ := hg
    rw [canon_rat] at hc
    simp [ratCanon] at hc
    simp [ofGQ, ofQ, Q.zero, hc.1.2]
  · obtain ⟨rfl, rfl⟩ := hg
    rw [canon_cplx] at hc
    simp [cplxCanon] at hc
    simp [ofGQ, hc.1.1]

theorem gq_inj {a b : Expr} (ha : ExOK a) (hb : ExOK b) (h : gq a = gq b) : a = b := by
  rw [← ofG_gq ha, ← ofG_gq hb, h]

/-- complex multiplication on pairs -/
def cmul (a b : ℚ × ℚ) : ℚ × ℚ := (a.1 * b.1 - a.2 * b.2, a.1 * b.2 + a.2 * b.1)

theorem cmul_comm (a b : ℚ × ℚ) : cmul a b = cmul b a := by
  simp only [cmul, Prod.mk.injEq]; constructor <;> ring

theorem cmul_assoc (a b c : ℚ × ℚ) : cmul (cmul a b) c = cmul a (cmul b c) := by
  simp only [cmul, Prod.mk.injEq]; constructor <;> ring

theorem cmul_one (a : ℚ × ℚ) : cmul a (1, 0) = a := by
  obtain ⟨x, y⟩ := a
  simp [cmul]

theorem one_cmul (a : ℚ × ℚ) : cmul (1, 0) a = a := by rw [cmul_comm, cmul_one]

theorem numAdd_eq {a b : Expr} (ha : ExOK a) (hb : ExOK b) :
    numAdd a b = .ok (ofG (gq a + gq b)) := by
  obtain ⟨ar, ai, hga, har, hai⟩ := exOK_toGQ ha
  obtain ⟨br, bi, hgb, hbr, hbi⟩ := exOK_toGQ hb
  have e1 : Q.add ar br = ofR (qr ar + qr br) :=
    qr_inj (Q.add_canon har hbr) (ofR_canon _)
      (by rw [qr_add (Q.den_ne_zero har) (Q.den_ne_zero hbr), qr_ofR])
  have e2 : Q.add ai bi = ofR (qr ai + qr bi) :=
    qr_inj (Q.add_canon hai hbi) (ofR_canon _)
      (by rw [qr_add (Q.den_ne_zero hai) (Q.den_ne_zero hbi), qr_ofR])
  simp [numAdd, hga, hgb, gq, ofG, e1, e2]

theorem numMul_eq {a b : Expr} (ha : ExOK a) (hb : ExOK b) :
    numMul a b = .ok (ofG (cmul (gq a) (gq b))) := by
  obtain ⟨ar, ai, hga, har, hai⟩ := exOK_toGQ ha
  obtain ⟨br, bi, hgb, hbr, hbi⟩ := exOK_toGQ hb
  have dar := Q.den_ne_zero har
  have dai := Q.den_ne_zero hai
  have dbr := Q.den_ne_zero hbr
  have dbi := Q.den_ne_zero hbi
  have e1 : Q.sub (Q.mul ar br) (Q.mul ai bi) = ofR (qr ar * qr br - qr ai * qr bi) :=
    qr_inj (Q.sub_canon (Q.mul_canon har hbr) (Q.mul_canon hai hbi)) (ofR_canon _)
      (by rw [qr_sub (Q.den_ne_zero (Q.mul_canon har hbr)) (Q.den_ne_zero (Q.mul_canon hai hbi)),
            qr_mul dar dbr, qr_mul dai dbi, qr_ofR])
  have e2 : Q.add (Q.mul ar bi) (Q.mul ai br) = ofR (qr ar * qr bi + qr ai * qr br) :=
    qr_inj (Q.add_canon (Q.mul_canon har hbi) (Q.mul_canon hai hbr)) (ofR_canon _)
      (by rw [qr_add (Q.den_ne_zero (Q.mul_canon har hbi)) (Q.den_ne_zero (Q.mul_canon hai hbr)),
            qr_mul dar dbi, qr_mul dai dbr, qr_ofR])
  simp [numMul, hga, hgb, gq, ofG, cmul, e1, e2]

/-! ### the Number predicates on canonical leaves -/

theorem numIsZero_ofG (p : ℚ × ℚ) : numIsZero (ofG p) = decide (p = 0) := by
  obtain ⟨a, b⟩ := p
  unfold ofG ofGQ
  split
  · rename_i h
    simp only [ofR, beq_iff_eq] at h
    have hb : b = 0 := Rat.zero_of_num_zero h
    subst hb
    unfold ofQ
    split
    · by_cases ha : a = 0
      · subst ha; simp [numIsZero, ofR]
      · have : a.num ≠ 0 := fun h0 => ha (Rat.zero_of_num_zero h0)
        simp [numIsZero, ofR, Prod.ext_iff, ha, this]
    · rename_i h2
      simp only [ofR, beq_iff_eq] at h2
      have : a ≠ 0 := by
        intro h0; subst h0; simp at h2
      simp [numIsZero, ofR, Prod.ext_iff, Rat.num_eq_zero, this]
  · rename_i h
    simp only [ofR, beq_iff_eq] at h
    have : b ≠ 0 := by
      intro h0; subst h0; simp at h
    simp [numIsZero, Prod.ext_iff, this]

theorem gq_zero : gq zero = 0 := by
  simp [gq, toGQ, zero, qr, Q.zero, Prod.ext_iff]

theorem gq_one : gq one = (1, 0) := by
  simp [gq, toGQ, one, qr, Q.zero, Rat.mkRat_one]

theorem gq_int (n : Int) : gq (.int n) = ((n : ℚ), 0) := by
  simp [gq, toGQ, qr, Q.zero, Rat.mkRat_one]

theorem ofG_zero : ofG 0 = zero := by
  rw [← gq_zero]; exact ofG_gq (exOK_int 0)

theorem numIsZero_iff {e : Expr} (h : ExOK e) : numIsZero e = true ↔ gq e = 0 := by
  conv_lhs => rw [← ofG_gq h, numIsZero_ofG]
  simp

theorem numIsZero_eq_zero {e : Expr} (h : ExOK e) (hz : numIsZero e = true) : e = zero := by
  rw [numIsZero_iff h] at hz
  rw [← ofG_gq h, hz, ofG_zero]

theorem isIntLit_one_iff {e : Expr} (h : ExOK e) : isIntLit e 1 = true ↔ gq e = (1, 0) := by
  constructor
  · intro h1
    cases e <;> simp [isIntLit] at h1
    subst h1
    exact gq_one
  · intro h1
    have : e = one := gq_inj h (exOK_int 1) (by rw [h1]; exact gq_one.symm)
    subst this
    rfl

end SymVerif.AC
