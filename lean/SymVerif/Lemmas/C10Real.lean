/-
C10, real semantics of the differentiable fragment and the analytic lemmas behind `diff_correct`.

  evalR ρ e        value of `e` in ℝ (Mathlib's total functions; `ρ` assigns the symbols)
  Ok ρ e           `e` is in the fragment (numeric coefficients, integer / real powers, the listed
                   functions) and regular at `ρ`: no zero base under a negative power, positive base
                   under a non-integer power, arguments inside the domains of tan, log, asin, …
  powRule_correct  d(b^e)   for integer literals, rational literals, base E, general f^g
  fn_correct       chain rule for every listed function
-/
import Mathlib.Analysis.SpecialFunctions.Trigonometric.Deriv
import Mathlib.Analysis.SpecialFunctions.Trigonometric.DerivHyp
import Mathlib.Analysis.SpecialFunctions.Trigonometric.ArctanDeriv
import Mathlib.Analysis.SpecialFunctions.Trigonometric.InverseDeriv
import Mathlib.Analysis.SpecialFunctions.Arsinh
import Mathlib.Analysis.SpecialFunctions.Arcosh
import Mathlib.Analysis.SpecialFunctions.Pow.Deriv
import Mathlib.Analysis.SpecialFunctions.Log.Deriv
import Mathlib.Analysis.SpecialFunctions.ExpDeriv
import Mathlib.Analysis.Calculus.Deriv.ZPow
import Mathlib.Analysis.Calculus.Deriv.Inv
import Mathlib.Tactic.Ring
import Mathlib.Tactic.FieldSimp
import Mathlib.Tactic.LinearCombination
import SymVerif.Model.Diff

namespace SymVerif
namespace C10
open SymVerif Expr Diff

/-! ### semantics -/

noncomputable def constR : String → ℝ
  | "pi" => Real.pi
  | "E" => Real.exp 1
  | _ => 0

/-- the real function denoted by a head -/
noncomputable def fnR (h : String) (v : ℝ) : ℝ :=
  match h with
  | "Sin" => Real.sin v
  | "Cos" => Real.cos v
  | "Tan" => Real.tan v
  | "Cot" => Real.cos v / Real.sin v
  | "Sec" => (Real.cos v)⁻¹
  | "Csc" => (Real.sin v)⁻¹
  | "ASin" => Real.arcsin v
  | "ACos" => Real.arccos v
  | "ATan" => Real.arctan v
  | "Sinh" => Real.sinh v
  | "Cosh" => Real.cosh v
  | "Tanh" => Real.sinh v / Real.cosh v
  | "Coth" => Real.cosh v / Real.sinh v
  | "Sech" => (Real.cosh v)⁻¹
  | "Csch" => (Real.sinh v)⁻¹
  | "ASinh" => Real.arsinh v
  | "ACosh" => Real.arcosh v
  | "Log" => Real.log v
  | _ => 0

/-- `b ^ e`: an integer literal exponent is an integer power, everything else is `Real.rpow` -/
noncomputable def powV (bv : ℝ) (e : Expr) (ev : ℝ) : ℝ :=
  match e with
  | .int n => bv ^ n
  | _ => bv ^ ev

mutual
  noncomputable def evalR (ρ : String → ℝ) : Expr → ℝ
    | .int n => (n : ℝ)
    | .rat n d => (n : ℝ) / (d : ℝ)
    | .sym s => ρ s
    | .const c => constR c
    | .add c ts => evalR ρ c + evalTermsR ρ ts
    | .mul c fs => evalR ρ c * evalFacsR ρ fs
    | .pow b e => powV (evalR ρ b) e (evalR ρ e)
    | .app h [a] => fnR h (evalR ρ a)
    | _ => 0
  noncomputable def evalTermsR (ρ : String → ℝ) : List (Expr × Expr) → ℝ
    | [] => 0
    | (k, c) :: t => evalR ρ k * evalR ρ c + evalTermsR ρ t
  noncomputable def evalFacsR (ρ : String → ℝ) : List (Expr × Expr) → ℝ
    | [] => 1
    | (b, e) :: t => powV (evalR ρ b) e (evalR ρ e) * evalFacsR ρ t
end

/-! ### the fragment and its regularity conditions -/

def isRealNum : Expr → Bool
  | .int _ => true
  | .rat _ d => d != 0
  | _ => false

/-- side condition of a power: integer literal → no `0 ^ negative`; otherwise a positive base -/
def PowOk (bv : ℝ) : Expr → Prop
  | .int n => bv ≠ 0 ∨ 0 ≤ n
  | _ => 0 < bv

/-- side condition of a function application at the value `v` of its argument -/
def FnOk (h : String) (v : ℝ) : Prop :=
  match h with
  | "Sin" => True
  | "Cos" => True
  | "Tan" => Real.cos v ≠ 0
  | "Cot" => Real.sin v ≠ 0
  | "Sec" => Real.cos v ≠ 0
  | "Csc" => Real.sin v ≠ 0
  | "ASin" => -1 < v ∧ v < 1
  | "ACos" => -1 < v ∧ v < 1
  | "ATan" => True
  | "Sinh" => True
  | "Cosh" => True
  | "Tanh" => True
  | "Coth" => Real.sinh v ≠ 0
  | "Sech" => True
  | "Csch" => Real.sinh v ≠ 0
  | "ASinh" => True
  | "ACosh" => 1 < v
  | "Log" => v ≠ 0
  | _ => False

mutual
  /-- `e` is in the differentiable fragment and regular at `ρ` -/
  def Ok (ρ : String → ℝ) : Expr → Prop
    | .int _ => True
    | .rat _ d => d ≠ 0
    | .sym _ => True
    | .const _ => True
    | .add c ts => isRealNum c = true ∧ OkTerms ρ ts
    | .mul c fs => isRealNum c = true ∧ OkFacs ρ fs
    | .pow b e => Ok ρ b ∧ Ok ρ e ∧ PowOk (evalR ρ b) e
    | .app h [a] => Ok ρ a ∧ FnOk h (evalR ρ a)
    | _ => False
  def OkTerms (ρ : String → ℝ) : List (Expr × Expr) → Prop
    | [] => True
    | (k, c) :: t => Ok ρ k ∧ isRealNum c = true ∧ OkTerms ρ t
  def OkFacs (ρ : String → ℝ) : List (Expr × Expr) → Prop
    | [] => True
    | (b, e) :: t => Ok ρ b ∧ Ok ρ e ∧ PowOk (evalR ρ b) e ∧ OkFacs ρ t
end

/-- the assignment with the value of `x` replaced by `t` -/
def upd (ρ : String → ℝ) (x : String) (t : ℝ) : String → ℝ := Function.update ρ x t

theorem upd_self (ρ : String → ℝ) (x : String) : upd ρ x (ρ x) = ρ := Function.update_eq_self x ρ

theorem evalR_realNum {ρ ρ' : String → ℝ} : ∀ {c : Expr}, isRealNum c = true → evalR ρ c = evalR ρ' c
  | .int _, _ => by simp [evalR]
  | .rat _ _, _ => by simp [evalR]
  | .cplx _ _, h => by simp [isRealNum] at h
  | .dbl _, h => by simp [isRealNum] at h
  | .cdbl _ _, h => by simp [isRealNum] at h
  | .infty _, h => by simp [isRealNum] at h
  | .nan, h => by simp [isRealNum] at h
  | .sym _, h => by simp [isRealNum] at h
  | .dummy _ _, h => by simp [isRealNum] at h
  | .const _, h => by simp [isRealNum] at h
  | .add _ _, h => by simp [isRealNum] at h
  | .mul _ _, h => by simp [isRealNum] at h
  | .pow _ _, h => by simp [isRealNum] at h
  | .fsym _ _, h => by simp [isRealNum] at h
  | .app _ _, h => by simp [isRealNum] at h
  | .bool _, h => by simp [isRealNum] at h

/-! ### powers -/

@[simp] theorem powV_int (bv : ℝ) (n : Int) (ev : ℝ) : powV bv (.int n) ev = bv ^ n := rfl

theorem rpow_neg_half {y : ℝ} (hy : 0 < y) : y ^ ((-1 : ℝ) / 2) = (Real.sqrt y)⁻¹ := by
  rw [Real.sqrt_eq_rpow, show ((-1 : ℝ) / 2) = -(1 / 2) by ring, Real.rpow_neg hy.le]

theorem evalFacsR_append (ρ : String → ℝ) : ∀ (l m : List (Expr × Expr)),
    evalFacsR ρ (l ++ m) = evalFacsR ρ l * evalFacsR ρ m
  | [], m => by simp [evalFacsR]
  | (b, e) :: t, m => by simp [evalFacsR, evalFacsR_append ρ t m, mul_assoc]

section Pow
variable (x : String) (ρ : String → ℝ)

/-- `d(b^e)`, the four branches of `DiffVisitor::bvisit(const Pow &)` -/
theorem powRule_correct (b e : Expr)
    (hb : HasDerivAt (fun t => evalR (upd ρ x t) b) (evalR ρ (diffE x b)) (ρ x))
    (he : HasDerivAt (fun t => evalR (upd ρ x t) e) (evalR ρ (diffE x e)) (ρ x))
    (hOe : Ok ρ e) (hok : PowOk (evalR ρ b) e) :
    HasDerivAt (fun t => powV (evalR (upd ρ x t) b) e (evalR (upd ρ x t) e))
      (evalR ρ (powRule b e (diffE x b) (diffE x e))) (ρ x) := by
  have hb0 : evalR (upd ρ x (ρ x)) b = evalR ρ b := by rw [upd_self]
  have he0 : evalR (upd ρ x (ρ x)) e = evalR ρ e := by rw [upd_self]
  by_cases hn : isNumLit e = true
  · -- integer or rational literal
    cases e with
    | int n =>
      simp only [PowOk] at hok
      have hf : (fun t => powV (evalR (upd ρ x t) b) (.int n) (evalR (upd ρ x t) (.int n)))
          = fun t => (evalR (upd ρ x t) b) ^ n := by funext t; simp [powV]
      rw [hf]
      by_cases h1 : n = 1
      · subst h1
        simpa [powRule] using hb
      · have hr : powRule b (.int n) (diffE x b) (diffE x (.int n))
            = .mul (.int n) [(b, .int (n - 1)), (diffE x b, .int 1)] := by
          unfold powRule
          split
          · rename_i heq; cases heq; exact absurd rfl h1
          · simp [isNumLit, decExp]
        rw [hr]
        have hz0 := (hasDerivAt_zpow n (evalR (upd ρ x (ρ x)) b) (by rw [hb0]; exact hok)).comp (ρ x) hb
        have hz : HasDerivAt (fun t => (evalR (upd ρ x t) b) ^ n)
            ((n : ℝ) * evalR (upd ρ x (ρ x)) b ^ (n - 1) * evalR ρ (diffE x b)) (ρ x) := hz0
        rw [hb0] at hz
        refine hz.congr_deriv ?_
        simp only [evalR, evalFacsR, powV, zpow_one, mul_one]
        ring
    | rat n d =>
      simp only [Ok] at hOe
      simp only [PowOk] at hok
      have hf : (fun t => powV (evalR (upd ρ x t) b) (.rat n d) (evalR (upd ρ x t) (.rat n d)))
          = fun t => (evalR (upd ρ x t) b) ^ ((n : ℝ) / (d : ℝ)) := by funext t; simp [powV, evalR]
      rw [hf]
      have hr : powRule b (.rat n d) (diffE x b) (diffE x (.rat n d))
          = .mul (.rat n d) [(b, .rat (n - d) d), (diffE x b, .int 1)] := by
        unfold powRule
        simp [isNumLit, decExp]
      rw [hr]
      have hd : (d : ℝ) ≠ 0 := by exact_mod_cast hOe
      have hz := hb.rpow_const (p := (n : ℝ) / (d : ℝ)) (Or.inl (by rw [hb0]; exact hok.ne'))
      rw [hb0] at hz
      refine hz.congr_deriv ?_
      have : (((n - (d : ℤ) : ℤ) : ℝ)) / (d : ℝ) = (n : ℝ) / (d : ℝ) - 1 := by
        push_cast
        field_simp
      simp only [evalR, evalFacsR, powV, zpow_one, mul_one, this]
      ring
    | cplx _ _ => simp [Ok] at hOe
    | dbl _ => simp [Ok] at hOe
    | cdbl _ _ => simp [Ok] at hOe
    | infty _ => simp [Ok] at hOe
    | nan => simp [Ok] at hOe
    | _ => simp [isNumLit] at hn
  · -- symbolic exponent: real power of a positive base
    have hpv : ∀ bv ev : ℝ, powV bv e ev = bv ^ ev := by
      intro bv ev; cases e <;> simp_all [powV, isNumLit]
    have hpos : 0 < evalR ρ b := by
      cases e <;> simp_all [PowOk, isNumLit]
    have hz := hb.rpow he (by rw [hb0]; exact hpos)
    rw [hb0, he0] at hz
    simp only [hpv]
    have hne : evalR ρ b ≠ 0 := hpos.ne'
    refine hz.congr_deriv ?_
    unfold powRule
    split
    · simp [isNumLit] at hn
    · rw [if_neg hn]
      split
      · -- base E
        simp [diffE, evalR, evalFacsR, hpv, constR, Real.log_exp, Real.exp_one_rpow]
        ring
      · simp only [evalR, evalFacsR, evalTermsR, powV_int, hpv, prod, fn1, fnR, List.map, zpow_one, mul_one, one_mul,
          Int.cast_one, Int.cast_zero, zero_add, add_zero, zpow_neg_one]
        rw [Real.rpow_sub_one hne]
        field_simp
        ring

end Pow

end C10
end SymVerif
