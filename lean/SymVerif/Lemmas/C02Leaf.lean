/-
Order lemmas for the leaf classes of the C02 model: every leaf `compare` is the three-way comparison
`cmpLin` of a key in a linear order, and the key is injective on well-formed leaves (canonical
rationals; doubles without NaN / without -0.0).
-/
import SymVerif.Lemmas.C02Struct
import Mathlib.Data.String.Basic
import Mathlib.Tactic.Ring
import Mathlib.Tactic.Linarith

namespace SymVerif
namespace Expr

/-! ### three-way comparison in a linear order -/

def cmpLin {α : Type} [LinearOrder α] (x y : α) : Int := if x = y then 0 else if x < y then -1 else 1

section
variable {α : Type} [LinearOrder α] (x y z : α)
theorem cmpLin_self : cmpLin x x = 0 := by simp [cmpLin]
theorem cmpLin_eq_zero : cmpLin x y = 0 ↔ x = y := by
  unfold cmpLin; split <;> [simp_all; (split <;> simp_all)]
theorem cmpLin_eq_neg_one : cmpLin x y = -1 ↔ x < y := by
  unfold cmpLin
  split
  · subst_vars; simp
  · split <;> simp_all
theorem cmpLin_eq_one : cmpLin x y = 1 ↔ y < x := by
  unfold cmpLin
  split
  · subst_vars; simp
  · rename_i h
    split
    · rename_i h2; simp; exact le_of_lt h2
    · rename_i h2; simp; exact lt_of_le_of_ne (not_lt.mp h2) (Ne.symm h)
theorem cmpLin_range : cmpLin x y = -1 ∨ cmpLin x y = 0 ∨ cmpLin x y = 1 := by
  unfold cmpLin; split <;> [simp; (split <;> simp)]
theorem cmpLin_antisymm : cmpLin x y = - cmpLin y x := by
  rcases lt_trichotomy x y with h | h | h
  · rw [(cmpLin_eq_neg_one x y).mpr h, (cmpLin_eq_one y x).mpr h]
  · subst h; simp [cmpLin_self]
  · rw [(cmpLin_eq_one x y).mpr h, (cmpLin_eq_neg_one y x).mpr h]; simp
theorem cmpLin_trans (h1 : cmpLin x y = -1) (h2 : cmpLin y z = -1) : cmpLin x z = -1 :=
  (cmpLin_eq_neg_one x z).mpr (lt_trans ((cmpLin_eq_neg_one x y).mp h1) ((cmpLin_eq_neg_one y z).mp h2))
end

/-! ### Int / Nat / String / Bool -/

theorem cmpInt_eq (x y : Int) : cmpInt x y = cmpLin x y := by simp [cmpInt, cmpLin]
theorem cmpNat_eq (x y : Nat) : cmpNat x y = cmpLin x y := by simp [cmpNat, cmpLin]
theorem cmpStr_eq (x y : String) : cmpStr x y = cmpLin x y := by simp [cmpStr, cmpLin]

/-! ### rationals in lowest terms -/

structure QKey where
  n : Int
  d : Nat
  deriving DecidableEq

theorem qCanon_iff {n : Int} {d : Nat} : qCanon n d = true ↔ 0 < d ∧ Int.gcd n d = 1 := by
  simp [qCanon, Int.gcd]

theorem q_cross_inj {n n' : Int} {d d' : Nat} (h : qCanon n d = true) (h' : qCanon n' d' = true)
    (e : n * (d' : Int) = n' * (d : Int)) : n = n' ∧ d = d' := by
  obtain ⟨hd, hg⟩ := qCanon_iff.mp h
  obtain ⟨hd', hg'⟩ := qCanon_iff.mp h'
  have hdz : (0 : Int) < d := by exact_mod_cast hd
  have hdz' : (0 : Int) < d' := by exact_mod_cast hd'
  have d1 : (d : Int) ∣ (d' : Int) := by
    have : (d : Int) ∣ (d' : Int) * n := ⟨n', by rw [mul_comm, e]; ring⟩
    exact Int.dvd_of_dvd_mul_left_of_gcd_one this (by rw [Int.gcd_comm]; exact hg)
  have d2 : (d' : Int) ∣ (d : Int) := by
    have : (d' : Int) ∣ (d : Int) * n' := ⟨n, by rw [mul_comm, ← e]; ring⟩
    exact Int.dvd_of_dvd_mul_left_of_gcd_one this (by rw [Int.gcd_comm]; exact hg')
  have hdd : (d : Int) = d' := Int.dvd_antisymm (le_of_lt hdz) (le_of_lt hdz') d1 d2
  have hdn : d = d' := by exact_mod_cast hdd
  subst hdn
  refine ⟨?_, rfl⟩
  exact mul_right_cancel₀ (ne_of_gt hdz) e

/-- strict order of fractions with positive denominators -/
def qLt (n : Int) (d : Nat) (n' : Int) (d' : Nat) : Prop := n * (d' : Int) < n' * (d : Int)

theorem qLt_trans {n n' n'' : Int} {d d' d'' : Nat} (hd : 0 < d) (hd' : 0 < d') (hd'' : 0 < d'')
    (h1 : qLt n d n' d') (h2 : qLt n' d' n'' d'') : qLt n d n'' d'' := by
  unfold qLt at *
  have hdz : (0 : Int) < d := by exact_mod_cast hd
  have hdz' : (0 : Int) < d' := by exact_mod_cast hd'
  have hdz'' : (0 : Int) < d'' := by exact_mod_cast hd''
  have h1' := mul_lt_mul_of_pos_right h1 hdz''
  have h2' := mul_lt_mul_of_pos_right h2 hdz
  have : (n * (d'' : Int)) * d' < (n'' * (d : Int)) * d' := by
    calc (n * (d'' : Int)) * d' = n * d' * d'' := by ring
      _ < n' * d * d'' := h1'
      _ = n' * d'' * d := by ring
      _ < n'' * d' * d := h2'
      _ = (n'' * (d : Int)) * d' := by ring
  exact lt_of_mul_lt_mul_right this (le_of_lt hdz')

theorem cmpQ_eq_zero {n n' : Int} {d d' : Nat} (h : qCanon n d = true) (h' : qCanon n' d' = true) :
    cmpQ n d n' d' = 0 ↔ (n = n' ∧ d = d') := by
  unfold cmpQ
  by_cases e : n = n' ∧ d = d'
  · simp [e]
  · have : (n == n' && d == d') = false := by
      simp only [Bool.and_eq_false_iff, beq_eq_false_iff_ne]
      by_cases h1 : n = n'
      · right; intro h2; exact e ⟨h1, h2⟩
      · left; exact h1
    rw [this]; simp only [Bool.false_eq_true, ↓reduceIte, e, iff_false]
    split <;> simp

theorem cmpQ_eq_neg_one {n n' : Int} {d d' : Nat} (h : qCanon n d = true) (h' : qCanon n' d' = true) :
    cmpQ n d n' d' = -1 ↔ qLt n d n' d' := by
  unfold cmpQ qLt
  by_cases e : n = n' ∧ d = d'
  · obtain ⟨rfl, rfl⟩ := e; simp
  · have : (n == n' && d == d') = false := by
      simp only [Bool.and_eq_false_iff, beq_eq_false_iff_ne]
      by_cases h1 : n = n'
      · right; intro h2; exact e ⟨h1, h2⟩
      · left; exact h1
    rw [this]; simp only [Bool.false_eq_true, ↓reduceIte, Int.ofNat_eq_natCast]
    split <;> simp_all

theorem cmpQ_range (n n' : Int) (d d' : Nat) :
    cmpQ n d n' d' = -1 ∨ cmpQ n d n' d' = 0 ∨ cmpQ n d n' d' = 1 := by
  unfold cmpQ; split <;> [simp; (split <;> simp)]

theorem cmpQ_antisymm {n n' : Int} {d d' : Nat} (h : qCanon n d = true) (h' : qCanon n' d' = true) :
    cmpQ n d n' d' = - cmpQ n' d' n d := by
  by_cases e : n = n' ∧ d = d'
  · obtain ⟨rfl, rfl⟩ := e; simp [cmpQ]
  · have ne : n * (d' : Int) ≠ n' * (d : Int) := fun hh => e (q_cross_inj h h' hh)
    have e' : ¬ (n' = n ∧ d' = d) := fun hh => e ⟨hh.1.symm, hh.2.symm⟩
    have b1 : (n == n' && d == d') = false := by
      simp only [Bool.and_eq_false_iff, beq_eq_false_iff_ne]
      by_cases h1 : n = n'
      · right; intro h2; exact e ⟨h1, h2⟩
      · left; exact h1
    have b2 : (n' == n && d' == d) = false := by
      simp only [Bool.and_eq_false_iff, beq_eq_false_iff_ne]
      by_cases h1 : n' = n
      · right; intro h2; exact e' ⟨h1, h2⟩
      · left; exact h1
    unfold cmpQ
    rw [b1, b2]
    simp only [Bool.false_eq_true, ↓reduceIte, Int.ofNat_eq_natCast]
    rcases lt_or_gt_of_ne ne with hlt | hgt
    · rw [if_pos hlt, if_neg (not_lt.mpr (le_of_lt hlt))]
    · rw [if_neg (not_lt.mpr (le_of_lt hgt)), if_pos hgt]; simp

theorem cmpQ_trans {n n' n'' : Int} {d d' d'' : Nat} (h : qCanon n d = true) (h' : qCanon n' d' = true)
    (h'' : qCanon n'' d'' = true) (h1 : cmpQ n d n' d' = -1) (h2 : cmpQ n' d' n'' d'' = -1) :
    cmpQ n d n'' d'' = -1 :=
  (cmpQ_eq_neg_one h h'').mpr
    (qLt_trans (qCanon_iff.mp h).1 (qCanon_iff.mp h').1 (qCanon_iff.mp h'').1
      ((cmpQ_eq_neg_one h h').mp h1) ((cmpQ_eq_neg_one h' h'').mp h2))

/-! ### doubles -/

theorem dbl_decomp (x : UInt64) :
    x.toNat = (x >>> 63).toNat * 2 ^ 63 + (dblMag x).toNat := by
  unfold dblMag
  rw [UInt64.toNat_shiftRight, UInt64.toNat_and]
  have : (0x7fffffffffffffff : UInt64).toNat = 2 ^ 63 - 1 := by decide
  rw [this, Nat.and_two_pow_sub_one_eq_mod]
  simp
  omega

theorem dbl_shift_lt (x : UInt64) : (x >>> 63).toNat < 2 := by
  rw [UInt64.toNat_shiftRight]
  have := x.toNat_lt
  simp
  omega

theorem dblMag_lt (x : UInt64) : (dblMag x).toNat < 2 ^ 63 := by
  unfold dblMag
  rw [UInt64.toNat_and]
  have : (0x7fffffffffffffff : UInt64).toNat = 2 ^ 63 - 1 := by decide
  rw [this, Nat.and_two_pow_sub_one_eq_mod]
  exact Nat.mod_lt _ (by decide)

theorem dblNeg_iff (x : UInt64) : dblNeg x = true ↔ (x >>> 63).toNat = 1 := by
  unfold dblNeg
  rw [beq_iff_eq, ← UInt64.toNat_inj]
  rfl

/-- `dblKey` is injective away from `-0.0` -/
theorem dblKey_inj {x y : UInt64} (hx : x ≠ negZeroBits) (hy : y ≠ negZeroBits)
    (h : dblKey x = dblKey y) : x = y := by
  have dx := dbl_decomp x
  have dy := dbl_decomp y
  have sx := dbl_shift_lt x
  have sy := dbl_shift_lt y
  have mx := dblMag_lt x
  have my := dblMag_lt y
  have nx : x.toNat ≠ 2 ^ 63 := fun e => hx (UInt64.toNat_inj.mp (by rw [e]; decide))
  have ny : y.toNat ≠ 2 ^ 63 := fun e => hy (UInt64.toNat_inj.mp (by rw [e]; decide))
  apply UInt64.toNat_inj.mp
  unfold dblKey at h
  simp only [Int.ofNat_eq_natCast] at h
  by_cases bx : dblNeg x = true <;> by_cases bY : dblNeg y = true
  · rw [if_pos bx, if_pos bY] at h
    have e1 := (dblNeg_iff x).mp bx
    have e2 := (dblNeg_iff y).mp bY
    omega
  · rw [if_pos bx, if_neg bY] at h
    have e1 := (dblNeg_iff x).mp bx
    have e2 : (y >>> 63).toNat ≠ 1 := fun e => bY ((dblNeg_iff y).mpr e)
    omega
  · rw [if_neg bx, if_pos bY] at h
    have e1 : (x >>> 63).toNat ≠ 1 := fun e => bx ((dblNeg_iff x).mpr e)
    have e2 := (dblNeg_iff y).mp bY
    omega
  · rw [if_neg bx, if_neg bY] at h
    have e1 : (x >>> 63).toNat ≠ 1 := fun e => bx ((dblNeg_iff x).mpr e)
    have e2 : (y >>> 63).toNat ≠ 1 := fun e => bY ((dblNeg_iff y).mpr e)
    omega

theorem cmpDbl_eq {x y : UInt64} (hx : dblIsNaN x = false) (hy : dblIsNaN y = false) :
    cmpDbl x y = cmpLin (dblKey x) (dblKey y) := by
  simp [cmpDbl, cmpLin, dblEq, dblLt, hx, hy]

theorem dblEq_iff {x y : UInt64} (hx : dblIsNaN x = false) (hy : dblIsNaN y = false) :
    dblEq x y = true ↔ dblKey x = dblKey y := by
  simp [dblEq, hx, hy]

theorem dblLt_iff {x y : UInt64} (hx : dblIsNaN x = false) (hy : dblIsNaN y = false) :
    dblLt x y = true ↔ dblKey x < dblKey y := by
  simp [dblLt, hx, hy]

end Expr
end SymVerif
