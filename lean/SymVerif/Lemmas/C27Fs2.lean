import SymVerif.Lemmas.C27Fs

/-! FiniteSet complement in an Interval (the cutting loop over the numerically sorted elements), and the
    Interval ∩ Integers/Naturals/Naturals0 enumeration. -/
namespace SymVerif.Sets

/-! ### `sortNum` -/

theorem mem_insertNum (x y : ENum) (l : List ENum) : y ∈ insertNum x l ↔ y = x ∨ y ∈ l := by
  induction l with
  | nil => simp [insertNum]
  | cons z t ih =>
    unfold insertNum
    split
    · simp
    · simp [ih]; tauto

theorem pairwise_insertNum (x : ENum) (l : List ENum) (h : l.Pairwise (· ≤ ·)) :
    (insertNum x l).Pairwise (· ≤ ·) := by
  induction l with
  | nil => simp [insertNum]
  | cons z t ih =>
    unfold insertNum
    rw [List.pairwise_cons] at h
    split
    · rename_i hlt
      have hlt' : x < z := (ENum.lt_iff x z).1 hlt
      rw [List.pairwise_cons]
      refine ⟨fun y hy => ?_, List.pairwise_cons.2 h⟩
      rcases List.mem_cons.1 hy with rfl | hy
      · exact hlt'.le
      · exact hlt'.le.trans (h.1 y hy)
    · rename_i hlt
      have hge : z ≤ x := by
        by_contra hc
        exact hlt ((ENum.lt_iff x z).2 (not_le.1 hc))
      rw [List.pairwise_cons]
      refine ⟨fun y hy => ?_, ih h.2⟩
      rcases (mem_insertNum x y t).1 hy with rfl | hy
      · exact hge
      · exact h.1 y hy

theorem mem_sortNum (y : ENum) (l : List ENum) : y ∈ sortNum l ↔ y ∈ l := by
  unfold sortNum
  suffices ∀ acc, y ∈ l.foldl (fun acc x => insertNum x acc) acc ↔ y ∈ acc ∨ y ∈ l by simpa using this []
  induction l with
  | nil => simp
  | cons z t ih => intro acc; simp only [List.foldl_cons, ih, mem_insertNum, List.mem_cons]; tauto

theorem pairwise_sortNum (l : List ENum) : (sortNum l).Pairwise (· ≤ ·) := by
  unfold sortNum
  suffices ∀ acc : List ENum, acc.Pairwise (· ≤ ·) →
      (l.foldl (fun acc x => insertNum x acc) acc).Pairwise (· ≤ ·) from this [] List.Pairwise.nil
  induction l with
  | nil => intro acc h; simpa using h
  | cons z t ih => intro acc h; exact ih _ (pairwise_insertNum z acc h)

/-! ### the cutting loop -/

/-- frame property of the loop: the pending piece `(last, e)` loses the points of `rest`, everything cut off goes
    to `intervals` -/
theorem fsComplLoop_spec (s e : ENum) (hse : s < e) :
    ∀ (rest : List ENum) (st : FsComplSt), rest.Pairwise (· ≤ ·) →
      s ≤ st.last → st.last < e → (st.last = s ∨ st.lo = true) →
      (∀ y ∈ rest, st.last ≤ y ∨ y ≤ s) → WFL st.intervals →
      let st' := fsComplLoop s e rest st
      (s ≤ st'.last ∧ st'.last < e ∧ WFL st'.intervals) ∧
      ∀ q : ℚ, (memAny st'.intervals q ∨ memIv st'.last e st'.lo st'.ro q) ↔
        (memAny st.intervals q ∨ (memIv st.last e st.lo st.ro q ∧ ENum.fin q ∉ rest)) := by
  intro rest
  induction rest with
  | nil => intro st _ h1 h2 _ _ hw; simp [fsComplLoop, h1, h2, hw]
  | cons a t ih =>
    intro st hsorted h1 h2 h3 h4 hw
    rw [List.pairwise_cons] at hsorted
    simp only [fsComplLoop, ENum.max2_eq, beq_iff_eq]
    have ha := h4 a List.mem_cons_self
    split
    · -- a ≤ s : continue
      rename_i hle
      have hle' : a ≤ s := by grind
      split
      · rename_i has
        subst has
        have := ih { st with lo := true } hsorted.2 h1 h2 (Or.inr rfl)
          (fun y hy => h4 y (List.mem_cons_of_mem _ hy)) hw
        refine ⟨this.1, fun q => ?_⟩
        rw [this.2 q]
        simp only [List.mem_cons, not_or]
        unfold memIv
        have hq : ∀ y ∈ t, a ≤ y := hsorted.1
        grind
      · rename_i has
        have := ih st hsorted.2 h1 h2 h3 (fun y hy => h4 y (List.mem_cons_of_mem _ hy)) hw
        refine ⟨this.1, fun q => ?_⟩
        rw [this.2 q]
        simp only [List.mem_cons, not_or]
        unfold memIv
        grind
    · rename_i hnle
      have hgt : s < a := by grind
      have hla : st.last ≤ a := by grind
      split
      · -- a ≥ e : break
        rename_i hge
        have hge' : e ≤ a := by grind
        have htl : ∀ y ∈ t, e ≤ y := fun y hy => hge'.trans (hsorted.1 y hy)
        split
        · rename_i hae
          subst hae
          refine ⟨⟨h1, h2, hw⟩, fun q => ?_⟩
          simp only [List.mem_cons, not_or]
          unfold memIv
          have : ∀ y ∈ t, ENum.fin q = y → a ≤ ENum.fin q := fun y hy h => h ▸ htl y hy
          grind
        · rename_i hae
          refine ⟨⟨h1, h2, hw⟩, fun q => ?_⟩
          simp only [List.mem_cons, not_or]
          unfold memIv
          have hlt : e < a := lt_of_le_of_ne hge' (Ne.symm hae)
          have : ∀ y ∈ t, ENum.fin q = y → e < ENum.fin q := fun y hy h => h ▸ lt_of_lt_of_le hlt (hsorted.1 y hy)
          grind
      · -- s < a < e : cut
        rename_i hnge
        have hlt : a < e := by grind
        have hw' : WFL (insertK SetE.hash (interval st.last a st.lo true) st.intervals) := by
          rw [WFL_iff] at hw ⊢
          intro x hx
          rcases (mem_insertK soundBEq_SetE _ _ _ _).1 hx with rfl | hx
          · exact WF_interval _ _ _ _
          · exact hw x hx
        have := ih { st with intervals := insertK SetE.hash (interval st.last a st.lo true) st.intervals,
                             last := a, lo := true } hsorted.2 hgt.le hlt (Or.inr rfl)
          (fun y hy => Or.inl (hsorted.1 y hy)) hw'
        refine ⟨this.1, fun q => ?_⟩
        rw [this.2 q]
        simp only [List.mem_cons, not_or, memAny_iff, mem_insertK soundBEq_SetE, exists_eq_or_imp, mem_interval]
        have hq : ∀ y ∈ t, ENum.fin q = y → a ≤ ENum.fin q := fun y hy h => h ▸ hsorted.1 y hy
        unfold memIv
        grind

theorem fsComplIv_ok (l : List ENum) (s e : ENum) (lo ro : Bool) (hse : s < e) {r : SetE}
    (h : fsComplIv l s e lo ro = .ok r) :
    WF r ∧ ∀ q, mem r q ↔ (memIv s e lo ro q ∧ ENum.fin q ∉ l) := by
  unfold fsComplIv fsComplIvOn at h
  have hspec := fsComplLoop_spec s e hse (sortNum l) { last := s, lo := lo, ro := ro, intervals := [] }
    (pairwise_sortNum l) le_rfl hse (Or.inl rfl) (fun y _ => by exact (le_total s y)) (by simp [WFL])
  dsimp only at h hspec
  revert h hspec
  generalize fsComplLoop s e (sortNum l) { last := s, lo := lo, ro := ro, intervals := [] } = st
  intro h hspec
  obtain ⟨⟨hs1, hs2, hw⟩, hq⟩ := hspec
  have hmax : (ENum.max2 st.last e == e) = true := by
    simp only [ENum.max2_eq, beq_iff_eq]; exact max_eq_right hs2.le
  simp only [hmax, if_true] at h
  have hu := makeUnion_ok h
  refine ⟨hu.2 ?_, fun q => ?_⟩
  · rw [WFL_iff] at hw ⊢
    intro x hx
    rcases (mem_insertK soundBEq_SetE _ _ _ _).1 hx with rfl | hx
    · exact WF_interval _ _ _ _
    · exact hw x hx
  · rw [hu.1 q]
    have := hq q
    simp only [memAny, false_or, mem_sortNum] at this
    rw [← this, memAny_iff, memAny_iff]
    simp only [mem_insertK soundBEq_SetE, exists_eq_or_imp, mem_interval]
    exact or_comm

end SymVerif.Sets
