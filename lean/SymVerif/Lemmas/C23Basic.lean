import Mathlib.FieldTheory.Finite.Basic
import Mathlib.Algebra.Polynomial.Derivative
import Mathlib.Tactic.Ring
import Mathlib.Tactic.LinearCombination
import SymVerif.Model.GF

/-!
C23 helper lemmas, part 1: the abstraction `toPoly : List ℕ → (ZMod p)[X]`, the class
invariant, and the ring operations / eval / diff / monic of the model.
-/
namespace SymVerif.C23
open Polynomial SymVerif.GF

/-- abstraction function: coefficient vector (lowest exponent first) ↦ polynomial over `ZMod p` -/
noncomputable def toPoly (p : ℕ) : Poly → (ZMod p)[X]
  | [] => 0
  | a :: l => C (a : ZMod p) + X * toPoly p l

/-- all coefficients reduced -/
def Red (p : ℕ) (l : Poly) : Prop := ∀ x ∈ l, x < p

variable {p : ℕ}

@[simp] theorem toPoly_nil : toPoly p [] = 0 := rfl
@[simp] theorem toPoly_cons (a : ℕ) (l : Poly) : toPoly p (a :: l) = C (a : ZMod p) + X * toPoly p l := rfl

theorem toPoly_append (a b : Poly) : toPoly p (a ++ b) = toPoly p a + X ^ a.length * toPoly p b := by
  induction a with
  | nil => simp
  | cons x a ih => simp [ih, pow_succ]; ring

theorem coeff_toPoly (l : Poly) (i : ℕ) : (toPoly p l).coeff i = ((l.getD i 0 : ℕ) : ZMod p) := by
  induction l generalizing i with
  | nil => simp
  | cons a l ih =>
    cases i with
    | zero => simp
    | succ i => simp [ih, coeff_C_succ]

theorem getD_lt (l : Poly) (i : ℕ) (h : i < l.length) : l.getD i 0 = l[i] := by
  simp [List.getD, h]

theorem getD_of_le (l : Poly) (i : ℕ) (h : l.length ≤ i) : l.getD i 0 = 0 := by
  simp [List.getD, List.getElem?_eq_none h]

theorem getLast?_cons_ne_none (c : ℕ) (l : List ℕ) : (c :: l).getLast? ≠ none := by
  simp [List.getLast?_eq_none_iff]

/-! ### strip and the invariant -/

theorem strip_eq_nil_iff (l : Poly) : strip l = [] ↔ ∀ x ∈ l, x = 0 := by
  induction l with
  | nil => simp [strip]
  | cons a l ih =>
    simp only [strip]
    by_cases hs : strip l = []
    · by_cases ha : a = 0
      · simp [hs, ha]; exact ih.mp hs
      · simp [hs, ha]
    · have : ¬ ∀ x ∈ l, x = 0 := fun h => hs (ih.mpr h)
      have e : (strip l).isEmpty = false := by cases h : strip l <;> simp_all
      simp [e]
      intro _
      simpa using this

theorem toPoly_strip (l : Poly) : toPoly p (strip l) = toPoly p l := by
  induction l with
  | nil => simp [strip]
  | cons a l ih =>
    simp only [strip]
    split
    · rename_i h
      simp only [Bool.and_eq_true, List.isEmpty_iff, beq_iff_eq] at h
      rw [toPoly_cons, ← ih, h.1, h.2]; simp
    · simp [ih]

theorem mem_strip {l : Poly} {x : ℕ} (h : x ∈ strip l) : x ∈ l := by
  induction l with
  | nil => simp [strip] at h
  | cons a l ih =>
    simp only [strip] at h
    split at h
    · simp at h
    · rcases List.mem_cons.mp h with h | h
      · simp [h]
      · exact List.mem_cons_of_mem _ (ih h)

theorem strip_getLast (l : Poly) : (strip l).getLast? ≠ some 0 := by
  induction l with
  | nil => simp [strip]
  | cons a l ih =>
    simp only [strip]
    split
    · simp
    · rename_i h
      cases hs : strip l with
      | nil =>
        simp [hs] at h
        simp [h]
      | cons b s =>
        rw [hs] at ih
        rw [List.getLast?_cons_cons]
        exact ih

theorem Red.strip {l : Poly} (h : Red p l) : Red p (strip l) := fun x hx => h x (mem_strip hx)

theorem wf_strip {l : Poly} (h : Red p l) : WF p (strip l) := ⟨h.strip, strip_getLast l⟩

theorem WF.red {l : Poly} (h : WF p l) : Red p l := h.1

theorem wf_nil : WF p [] := by simp [WF]

theorem strip_of_wf {l : Poly} (h : WF p l) : strip l = l := by
  induction l with
  | nil => simp [strip]
  | cons a l ih =>
    have hl : WF p l := by
      refine ⟨fun x hx => h.1 x (List.mem_cons_of_mem _ hx), ?_⟩
      cases l with
      | nil => simp
      | cons b l => have := h.2; rwa [List.getLast?_cons_cons] at this
    simp only [strip, ih hl]
    cases l with
    | nil =>
      have := h.2
      simp at this
      simp [this]
    | cons b l => simp

/-- a reduced coefficient is zero in `ZMod p` only if it is zero -/
theorem cast_eq_zero_of_lt {x : ℕ} (h : x < p) (h0 : (x : ZMod p) = 0) : x = 0 := by
  rw [ZMod.natCast_eq_zero_iff] at h0
  exact Nat.eq_zero_of_dvd_of_lt h0 h

theorem toPoly_eq_zero_iff {l : Poly} (h : WF p l) : toPoly p l = 0 ↔ l = [] := by
  constructor
  · intro h0
    by_contra hne
    obtain ⟨x, hx⟩ : ∃ x, l.getLast? = some x := by
      cases hl : l.getLast? with
      | none => simp at hl; exact absurd hl hne
      | some x => exact ⟨x, rfl⟩
    have hxl : x ∈ l := List.mem_of_getLast? hx
    have hc : (toPoly p l).coeff (l.length - 1) = (x : ZMod p) := by
      rw [coeff_toPoly]
      congr 1
      rw [List.getLast?_eq_getElem?] at hx
      simp [List.getD, hx]
    rw [h0] at hc
    simp at hc
    have := cast_eq_zero_of_lt (h.1 x hxl) hc.symm
    exact h.2 (this ▸ hx)
  · rintro rfl; simp

theorem natDegree_toPoly {l : Poly} (h : WF p l) : (toPoly p l).natDegree = l.length - 1 := by
  by_cases hne : l = []
  · subst hne; simp
  · obtain ⟨x, hx⟩ : ∃ x, l.getLast? = some x := by
      cases hl : l.getLast? with
      | none => simp at hl; exact absurd hl hne
      | some x => exact ⟨x, rfl⟩
    have hxl : x ∈ l := List.mem_of_getLast? hx
    have hx0 : (x : ZMod p) ≠ 0 := fun h0 => h.2 ((cast_eq_zero_of_lt (h.1 x hxl) h0) ▸ hx)
    apply le_antisymm
    · rw [natDegree_le_iff_coeff_eq_zero]
      intro N hN
      rw [coeff_toPoly, getD_of_le _ _ (by omega)]; simp
    · apply le_natDegree_of_ne_zero
      rw [coeff_toPoly]
      rw [List.getLast?_eq_getElem?] at hx
      simp [List.getD, hx, hx0]

theorem natDegree_toPoly_lt (l : Poly) (hl : l ≠ []) : (toPoly p l).natDegree < l.length := by
  have : (toPoly p l).natDegree ≤ l.length - 1 := by
    rw [natDegree_le_iff_coeff_eq_zero]
    intro N hN
    rw [coeff_toPoly, getD_of_le _ _ (by omega)]; simp
  have := List.length_pos_iff.mpr hl
  omega

/-- the leading coefficient of a well-formed non-empty vector -/
theorem leadingCoeff_toPoly {l : Poly} (h : WF p l) (hne : l ≠ []) :
    (toPoly p l).leadingCoeff = ((l.getLastD 0 : ℕ) : ZMod p) := by
  rw [leadingCoeff, natDegree_toPoly h, coeff_toPoly]
  congr 1
  cases hl : l.getLast? with
  | none => simp at hl; exact absurd hl hne
  | some x =>
    have := hl
    rw [List.getLast?_eq_getElem?] at this
    simp [List.getD, this, List.getLastD_eq_getLast?, hl]

/-! ### integer helpers -/

theorem intEmod_cast (hp : 0 < p) (z : ℤ) : (((z % (p : ℤ)).toNat : ℕ) : ZMod p) = (z : ZMod p) := by
  have h : 0 ≤ z % (p : ℤ) := Int.emod_nonneg _ (by exact_mod_cast hp.ne')
  calc (((z % (p : ℤ)).toNat : ℕ) : ZMod p) = (((z % (p : ℤ)).toNat : ℤ) : ZMod p) := (Int.cast_natCast _).symm
    _ = ((z % (p : ℤ) : ℤ) : ZMod p) := by rw [Int.toNat_of_nonneg h]
    _ = z := ZMod.intCast_mod z p

theorem intEmod_lt (hp : 0 < p) (z : ℤ) : (z % (p : ℤ)).toNat < p := by
  have h : 0 ≤ z % (p : ℤ) := Int.emod_nonneg _ (by exact_mod_cast hp.ne')
  have h2 : z % (p : ℤ) < p := Int.emod_lt_of_pos _ (by exact_mod_cast hp)
  omega

theorem tmod_cast (z : ℤ) : ((z.tmod (p : ℤ) : ℤ) : ZMod p) = (z : ZMod p) := by
  have h := Int.mul_tdiv_add_tmod z (p : ℤ)
  have h2 := congrArg (fun t : ℤ => (t : ZMod p)) h
  simp at h2
  exact h2

/-! ### addition, negation, subtraction -/

theorem toPoly_addAux (a b : Poly) : toPoly p (addAux p a b) = toPoly p a + toPoly p b := by
  induction a generalizing b with
  | nil => simp [addAux]
  | cons x a ih =>
    cases b with
    | nil => simp [addAux]
    | cons y b =>
      simp [addAux, ih, ZMod.natCast_mod]; ring

theorem red_addAux (hp : 0 < p) {a b : Poly} (ha : Red p a) (hb : Red p b) : Red p (addAux p a b) := by
  induction a generalizing b with
  | nil => simpa [addAux] using hb
  | cons x a ih =>
    cases b with
    | nil => simpa [addAux] using ha
    | cons y b =>
      intro z hz
      simp only [addAux, List.mem_cons] at hz
      rcases hz with rfl | hz
      · exact Nat.mod_lt _ hp
      · exact ih (fun t ht => ha t (List.mem_cons_of_mem _ ht)) (fun t ht => hb t (List.mem_cons_of_mem _ ht)) z hz

theorem addAux_getLast_lt {a b : Poly} (h : a.length < b.length) :
    (addAux p a b).getLast? = b.getLast? := by
  induction a generalizing b with
  | nil => simp [addAux]
  | cons x a ih =>
    cases b with
    | nil => simp at h
    | cons y b =>
      simp only [addAux]
      have h' : a.length < b.length := by simpa using h
      have hb : b ≠ [] := by intro e; simp [e] at h'
      have := ih h'
      obtain ⟨c, b', rfl⟩ := List.exists_cons_of_ne_nil hb
      cases hq : addAux p a (c :: b') with
      | nil => rw [hq] at this; exact absurd this.symm (getLast?_cons_ne_none _ _)
      | cons d r => rw [List.getLast?_cons_cons, List.getLast?_cons_cons, ← hq, this]

theorem addAux_getLast_gt {a b : Poly} (h : b.length < a.length) :
    (addAux p a b).getLast? = a.getLast? := by
  induction a generalizing b with
  | nil => simp at h
  | cons x a ih =>
    cases b with
    | nil => simp [addAux]
    | cons y b =>
      simp only [addAux]
      have h' : b.length < a.length := by simpa using h
      have ha : a ≠ [] := by intro e; simp [e] at h'
      have := ih h'
      obtain ⟨c, a', rfl⟩ := List.exists_cons_of_ne_nil ha
      cases hq : addAux p (c :: a') b with
      | nil => rw [hq] at this; exact absurd this.symm (getLast?_cons_ne_none _ _)
      | cons d r => rw [List.getLast?_cons_cons, List.getLast?_cons_cons, ← hq, this]

theorem toPoly_add (a b : Poly) : toPoly p (add p a b) = toPoly p a + toPoly p b := by
  unfold add
  split
  · rename_i h; simp [List.isEmpty_iff.mp h]
  · split
    · rename_i h; simp [List.isEmpty_iff.mp h]
    · split
      · rw [toPoly_strip, toPoly_addAux]
      · rw [toPoly_addAux]

theorem wf_add (hp : 0 < p) {a b : Poly} (ha : WF p a) (hb : WF p b) : WF p (add p a b) := by
  unfold add
  split
  · exact ha
  · split
    · exact hb
    · split
      · exact wf_strip (red_addAux hp ha.1 hb.1)
      · rename_i hne
        refine ⟨red_addAux hp ha.1 hb.1, ?_⟩
        have hne' : a.length ≠ b.length := by simpa using hne
        rcases Nat.lt_or_gt_of_ne hne' with h | h
        · rw [addAux_getLast_lt h]; exact hb.2
        · rw [addAux_getLast_gt h]; exact ha.2

theorem negC_cast {x : ℕ} (hx : x < p) : ((negC p x : ℕ) : ZMod p) = -(x : ZMod p) := by
  unfold negC
  split
  · rename_i h; simp at h; simp [h]
  · rw [Nat.cast_sub hx.le]; simp

theorem toPoly_neg {a : Poly} (ha : Red p a) : toPoly p (neg p a) = -toPoly p a := by
  induction a with
  | nil => simp [neg]
  | cons x a ih =>
    have := ih (fun t ht => ha t (List.mem_cons_of_mem _ ht))
    simp only [neg, List.map_cons, toPoly_cons] at *
    rw [this, negC_cast (ha x (by simp))]
    simp; ring

theorem negC_lt {x : ℕ} (hx : x < p) : negC p x < p := by
  unfold negC
  split
  · omega
  · rename_i h
    have : x ≠ 0 := by simpa using h
    omega

theorem negC_eq_zero {x : ℕ} (hx : x < p) (h : negC p x = 0) : x = 0 := by
  unfold negC at h; split at h
  · rename_i h'; simpa using h'
  · omega

theorem wf_neg {a : Poly} (ha : WF p a) : WF p (neg p a) := by
  refine ⟨?_, ?_⟩
  · intro x hx
    simp only [neg, List.mem_map] at hx
    obtain ⟨y, hy, rfl⟩ := hx
    exact negC_lt (ha.1 y hy)
  · simp only [neg, List.getLast?_map]
    intro h
    cases hl : a.getLast? with
    | none => simp [hl] at h
    | some y =>
      simp [hl] at h
      have hy : y ∈ a := List.mem_of_getLast? hl
      have := negC_eq_zero (ha.1 y hy) h
      exact ha.2 (this ▸ hl)

theorem subC_cast (hp : 0 < p) (x y : ℕ) : ((subC p x y : ℕ) : ZMod p) = (x : ZMod p) - (y : ZMod p) := by
  unfold subC; rw [intEmod_cast hp]; simp

theorem toPoly_subAux (hp : 0 < p) (a : Poly) {b : Poly} (hb : Red p b) :
    toPoly p (subAux p a b) = toPoly p a - toPoly p b := by
  induction a generalizing b with
  | nil =>
    cases b with
    | nil => simp [subAux]
    | cons y b => simp only [subAux]; rw [toPoly_neg hb]; simp
  | cons x a ih =>
    cases b with
    | nil => simp [subAux]
    | cons y b =>
      simp only [subAux, toPoly_cons, subC_cast hp]
      rw [ih (fun t ht => hb t (List.mem_cons_of_mem _ ht))]
      simp; ring

theorem red_subAux (hp : 0 < p) {a b : Poly} (ha : Red p a) (hb : Red p b) : Red p (subAux p a b) := by
  induction a generalizing b with
  | nil =>
    cases b with
    | nil => simpa [subAux] using ha
    | cons y b =>
      simp only [subAux]
      intro x hx
      simp only [neg, List.mem_map] at hx
      obtain ⟨z, hz, rfl⟩ := hx
      exact negC_lt (hb z hz)
  | cons x a ih =>
    cases b with
    | nil => simpa [subAux] using ha
    | cons y b =>
      intro z hz
      simp only [subAux, List.mem_cons] at hz
      rcases hz with rfl | hz
      · exact intEmod_lt hp _
      · exact ih (fun t ht => ha t (List.mem_cons_of_mem _ ht)) (fun t ht => hb t (List.mem_cons_of_mem _ ht)) z hz

theorem subAux_getLast_gt {a b : Poly} (h : b.length < a.length) :
    (subAux p a b).getLast? = a.getLast? := by
  induction a generalizing b with
  | nil => simp at h
  | cons x a ih =>
    cases b with
    | nil => simp [subAux]
    | cons y b =>
      simp only [subAux]
      have h' : b.length < a.length := by simpa using h
      have ha : a ≠ [] := by intro e; simp [e] at h'
      have := ih h'
      obtain ⟨c, a', rfl⟩ := List.exists_cons_of_ne_nil ha
      cases hq : subAux p (c :: a') b with
      | nil => rw [hq] at this; exact absurd this.symm (getLast?_cons_ne_none _ _)
      | cons d r => rw [List.getLast?_cons_cons, List.getLast?_cons_cons, ← hq, this]

theorem subAux_getLast_lt {a b : Poly} (h : a.length < b.length) :
    (subAux p a b).getLast? = (neg p b).getLast? := by
  induction a generalizing b with
  | nil =>
    cases b with
    | nil => simp at h
    | cons y b => simp [subAux]
  | cons x a ih =>
    cases b with
    | nil => simp at h
    | cons y b =>
      simp only [subAux]
      have h' : a.length < b.length := by simpa using h
      have hb : b ≠ [] := by intro e; simp [e] at h'
      have := ih h'
      obtain ⟨c, b', rfl⟩ := List.exists_cons_of_ne_nil hb
      cases hq : subAux p a (c :: b') with
      | nil => rw [hq] at this; exact absurd this.symm (getLast?_cons_ne_none (negC p c) (List.map (negC p) b'))
      | cons d r =>
        rw [List.getLast?_cons_cons, ← hq, this]
        simp [neg]

theorem toPoly_sub (hp : 0 < p) (a : Poly) {b : Poly} (hb : Red p b) :
    toPoly p (sub p a b) = toPoly p a - toPoly p b := by
  unfold sub
  split
  · rename_i h; simp [List.isEmpty_iff.mp h]
  · split
    · rename_i h; rw [toPoly_neg hb]; simp [List.isEmpty_iff.mp h]
    · split
      · rw [toPoly_strip, toPoly_subAux hp a hb]
      · rw [toPoly_subAux hp a hb]

theorem wf_sub (hp : 0 < p) {a b : Poly} (ha : WF p a) (hb : WF p b) : WF p (sub p a b) := by
  unfold sub
  split
  · exact ha
  · split
    · exact wf_neg hb
    · split
      · exact wf_strip (red_subAux hp ha.1 hb.1)
      · rename_i hne
        refine ⟨red_subAux hp ha.1 hb.1, ?_⟩
        have hne' : a.length ≠ b.length := by simpa using hne
        rcases Nat.lt_or_gt_of_ne hne' with h | h
        · rw [subAux_getLast_lt h]; exact (wf_neg hb).2
        · rw [subAux_getLast_gt h]; exact ha.2

/-! ### multiplication -/

theorem toPoly_map_mul_left (x : ℕ) (b : Poly) :
    toPoly p (b.map (fun y => (x * y) % p)) = C (x : ZMod p) * toPoly p b := by
  induction b with
  | nil => simp
  | cons y b ih => simp [ih, ZMod.natCast_mod]; ring

theorem toPoly_map_mul_right (c : ℕ) (b : Poly) :
    toPoly p (b.map (fun y => y * c % p)) = C (c : ZMod p) * toPoly p b := by
  induction b with
  | nil => simp
  | cons y b ih => simp [ih, ZMod.natCast_mod]; ring

theorem red_map_mod (hp : 0 < p) (f : ℕ → ℕ) (b : Poly) : Red p (b.map (fun y => f y % p)) := by
  intro x hx
  simp only [List.mem_map] at hx
  obtain ⟨y, _, rfl⟩ := hx
  exact Nat.mod_lt _ hp

theorem toPoly_mulAux (a b : Poly) : toPoly p (mulAux p a b) = toPoly p a * toPoly p b := by
  induction a with
  | nil => simp [mulAux]
  | cons x a ih =>
    simp only [mulAux, toPoly_addAux, toPoly_map_mul_left, toPoly_cons, ih]
    simp; ring

theorem red_mulAux (hp : 0 < p) (a b : Poly) : Red p (mulAux p a b) := by
  induction a with
  | nil => intro x hx; simp [mulAux] at hx
  | cons x a ih =>
    simp only [mulAux]
    apply red_addAux hp (red_map_mod hp _ b)
    intro z hz
    rcases List.mem_cons.mp hz with rfl | hz
    · exact hp
    · exact ih z hz

theorem toPoly_mul (a b : Poly) : toPoly p (mul p a b) = toPoly p a * toPoly p b := by
  unfold mul
  split
  · rename_i h; simp [List.isEmpty_iff.mp h]
  · split
    · rename_i h; simp [List.isEmpty_iff.mp h]
    · rw [toPoly_strip, toPoly_mulAux]

theorem wf_mul (hp : 0 < p) {a b : Poly} (ha : WF p a) (hb : WF p b) : WF p (mul p a b) := by
  unfold mul
  split
  · exact ha
  · split
    · exact hb
    · exact wf_strip (red_mulAux hp a b)

theorem toPoly_mulAssign (a b : Poly) : toPoly p (mulAssign p a b) = toPoly p a * toPoly p b := by
  unfold mulAssign
  split
  · rename_i h; simp [List.isEmpty_iff.mp h]
  · split
    · simp
    · rw [toPoly_strip, toPoly_map_mul_right]; simp; ring
    · exact toPoly_mul a b

theorem wf_mulAssign (hp : 0 < p) {a b : Poly} (ha : WF p a) (hb : WF p b) : WF p (mulAssign p a b) := by
  unfold mulAssign
  split
  · exact ha
  · split
    · exact wf_nil
    · exact wf_strip (red_map_mod hp _ a)
    · exact wf_mul hp ha hb

theorem toPoly_sqr (a : Poly) : toPoly p (sqr p a) = toPoly p a * toPoly p a := toPoly_mul a a

theorem wf_sqr (hp : 0 < p) {a : Poly} (ha : WF p a) : WF p (sqr p a) := wf_mul hp ha ha

theorem toPoly_scale (a : Poly) (c : ℕ) : toPoly p (scale p a c) = C (c : ZMod p) * toPoly p a := by
  unfold scale
  split
  · rename_i h; simp [List.isEmpty_iff.mp h]
  · split
    · rename_i h; simp at h; simp [h]
    · rw [toPoly_strip, toPoly_map_mul_right]

theorem wf_scale (hp : 0 < p) {a : Poly} (ha : WF p a) (c : ℕ) : WF p (scale p a c) := by
  unfold scale
  split
  · exact ha
  · split
    · exact wf_nil
    · exact wf_strip (red_map_mod hp _ a)

/-! ### constants -/

theorem toPoly_addConst (hp : 0 < p) (a : Poly) (c : ℤ) :
    toPoly p (addConst p a c) = toPoly p a + C (c : ZMod p) := by
  unfold addConst
  split
  · rename_i h; simp at h; simp [h]
  · cases a with
    | nil =>
      simp only []
      split
      · rename_i h
        have h := beq_iff_eq.mp h
        have := intEmod_cast hp c
        rw [h] at this
        simp at this
        simp [← this]
      · simp [intEmod_cast hp]
    | cons x l =>
      simp only []
      split
      · rename_i h
        rw [toPoly_strip]
        simp [List.isEmpty_iff.mp h, intEmod_cast hp]
      · simp [intEmod_cast hp]; ring

theorem wf_addConst (hp : 0 < p) {a : Poly} (ha : WF p a) (c : ℤ) : WF p (addConst p a c) := by
  unfold addConst
  split
  · exact ha
  · cases a with
    | nil =>
      simp only []
      split
      · exact wf_nil
      · rename_i h
        refine ⟨?_, ?_⟩
        · intro x hx; simp at hx; subst hx; exact intEmod_lt hp c
        · simpa using h
    | cons x l =>
      simp only []
      split
      · apply wf_strip
        intro y hy; simp at hy; subst hy; exact intEmod_lt hp _
      · rename_i h
        refine ⟨?_, ?_⟩
        · intro y hy
          rcases List.mem_cons.mp hy with rfl | hy
          · exact intEmod_lt hp _
          · exact ha.1 y (List.mem_cons_of_mem _ hy)
        · have := ha.2
          cases l with
          | nil => simp at h
          | cons b l => rw [List.getLast?_cons_cons] at this ⊢; exact this

theorem toPoly_subConst (hp : 0 < p) (a : Poly) (c : ℤ) :
    toPoly p (subConst p a c) = toPoly p a - C (c : ZMod p) := by
  unfold subConst; rw [toPoly_addConst hp]; simp; ring

theorem toPoly_fromVec (hp : 0 < p) (v : List ℤ) :
    toPoly p (fromVec p v) = (v.map (fun z => (z : ZMod p))).foldr (fun c acc => C c + X * acc) 0 := by
  unfold fromVec
  rw [toPoly_strip]
  induction v with
  | nil => simp
  | cons z v ih => simp [ih, intEmod_cast hp]

theorem wf_fromVec (hp : 0 < p) (v : List ℤ) : WF p (fromVec p v) := by
  unfold fromVec
  apply wf_strip
  intro x hx
  simp only [List.mem_map] at hx
  obtain ⟨z, _, rfl⟩ := hx
  exact intEmod_lt hp z

theorem toPoly_one (hp : 1 < p) : toPoly p (fromVec p [1]) = 1 := by
  rw [toPoly_fromVec (by omega)]; simp

theorem toPoly_X (hp : 1 < p) : toPoly p (fromVec p [0, 1]) = X := by
  rw [toPoly_fromVec (by omega)]; simp

theorem toPoly_one' (hp : 1 < p) : toPoly p (one p) = 1 := by
  unfold one
  rw [Nat.mod_eq_of_lt hp]; simp

theorem wf_one' (hp : 1 < p) : WF p (one p) := by
  unfold one
  rw [Nat.mod_eq_of_lt hp]
  refine ⟨?_, by simp⟩
  intro x hx; simp at hx; omega

/-! ### evaluation -/

theorem eval_spec (a : Poly) (x : ℤ) :
    ((GF.eval p a x : ℤ) : ZMod p) = Polynomial.eval (x : ZMod p) (toPoly p a) := by
  induction a with
  | nil => simp [GF.eval]
  | cons c a ih =>
    have : GF.eval p (c :: a) x = (GF.eval p a x * x + (c : ℤ)).tmod (p : ℤ) := rfl
    rw [this, tmod_cast]
    simp [ih]; ring

/-! ### derivative -/

theorem toPoly_diffAux (i : ℕ) (l : Poly) :
    toPoly p (diffAux p i l) = (i : (ZMod p)[X]) * toPoly p l + X * derivative (toPoly p l) := by
  induction l generalizing i with
  | nil => simp [diffAux]
  | cons x l ih =>
    simp only [diffAux, toPoly_cons, ih, ZMod.natCast_mod]
    simp [derivative_mul]
    ring

theorem red_diffAux (hp : 0 < p) (i : ℕ) (l : Poly) : Red p (diffAux p i l) := by
  induction l generalizing i with
  | nil => intro x hx; simp [diffAux] at hx
  | cons x l ih =>
    intro z hz
    simp only [diffAux, List.mem_cons] at hz
    rcases hz with rfl | hz
    · exact Nat.mod_lt _ hp
    · exact ih _ z hz

theorem toPoly_diff (a : Poly) : toPoly p (diff p a) = derivative (toPoly p a) := by
  unfold diff
  rw [toPoly_strip]
  cases a with
  | nil => simp [diffAux]
  | cons c l =>
    simp [toPoly_diffAux, derivative_mul]

theorem wf_diff (hp : 0 < p) (a : Poly) : WF p (diff p a) := wf_strip (red_diffAux hp _ _)

/-! ### modular inverse and monic -/

theorem npowModAux_eq (b m : ℕ) : ∀ (fuel e : ℕ), e ≤ fuel → npowModAux b m fuel e = b ^ e % m := by
  intro fuel
  induction fuel with
  | zero => intro e he; have : e = 0 := by omega
            subst this; simp [npowModAux]
  | succ fuel ih =>
    intro e he
    unfold npowModAux
    split
    · rename_i h; simp [h]
    · rename_i h
      rw [ih (e / 2) (by omega)]
      have key : b ^ (e / 2) % m * (b ^ (e / 2) % m) % m = b ^ (2 * (e / 2)) % m := by
        rw [← Nat.mul_mod, ← pow_add, two_mul]
      simp only []
      split
      · rename_i h1
        have h1' : e % 2 = 1 := by simpa using h1
        rw [key, Nat.mod_mul_mod, ← pow_succ]
        congr 2; omega
      · rename_i h1
        have h1' : e % 2 = 0 := by
          have : e % 2 ≠ 1 := by simpa using h1
          omega
        rw [key]
        congr 2; omega

theorem npowMod_eq (b e m : ℕ) : npowMod b e m = b ^ e % m := npowModAux_eq b m e e le_rfl

theorem invMod_cast [Fact p.Prime] {x : ℕ} (hx : (x : ZMod p) ≠ 0) :
    ((invMod p x : ℕ) : ZMod p) = (x : ZMod p)⁻¹ := by
  unfold invMod
  rw [npowMod_eq, ZMod.natCast_mod, Nat.cast_pow]
  have hp : 2 ≤ p := (Fact.out : p.Prime).two_le
  have h1 : (x : ZMod p) ^ (p - 1) = 1 := ZMod.pow_card_sub_one_eq_one hx
  have h2 : (x : ZMod p) ^ (p - 2) * (x : ZMod p) = 1 := by
    rw [← pow_succ]
    have : p - 2 + 1 = p - 1 := by omega
    rw [this, h1]
  exact eq_inv_of_mul_eq_one_left h2

theorem invMod_lt (hp : 0 < p) (x : ℕ) : invMod p x < p := by
  unfold invMod; rw [npowMod_eq]; exact Nat.mod_lt _ hp

end SymVerif.C23
