/-
Real-valued semantics of the arithmetic fragment of `Expr`, satisfaction of assumption statements, and
the lemmas tying `get_args()` (argsOf) to the semantics.  Used by Props/C34.lean and Props/C35.lean.
-/
import SymVerif.Model.Queries
import Mathlib.Analysis.SpecialFunctions.Pow.Real
import Mathlib.Analysis.SpecialFunctions.Trigonometric.Basic
import Mathlib.Analysis.Real.Pi.Bounds
import Mathlib.Analysis.Complex.ExponentialBounds
import Mathlib.NumberTheory.Real.GoldenRatio
import Mathlib.NumberTheory.Harmonic.EulerMascheroni
import Mathlib.Data.Real.Sign
import Mathlib.Tactic.Linarith
import Mathlib.Tactic.Positivity

namespace SymVerif.C34
open SymVerif SymVerif.Queries

/-! ## semantics -/

/-- values of the named constants (Catalan's constant and user constants have no value here) -/
noncomputable def constVal (c : String) : Option ℝ :=
  if c = "pi" then some Real.pi
  else if c = "E" then some (Real.exp 1)
  else if c = "GoldenRatio" then some Real.goldenRatio
  else if c = "EulerGamma" then some Real.eulerMascheroniConstant
  else none

/-- `b ** e`: integer literal exponents on any base (negative ones need a non-zero base), any real exponent
    on a positive base -/
noncomputable def powSem (vb : Option ℝ) (e : Expr) (ve : Option ℝ) : Option ℝ :=
  match vb with
  | none => none
  | some b =>
    match e with
    | .int n =>
      if 0 ≤ n then some (b ^ n.toNat)
      else if b = 0 then none else some ((b ^ n.natAbs)⁻¹)
    | _ =>
      match ve with
      | some x => if 0 < b then some (Real.rpow b x) else none
      | none => none

/-- the functions with a real meaning (log: positive argument only; tan, cot, csc, sec: away from their poles) -/
noncomputable def appSem (h : String) (args : Option (List ℝ)) : Option ℝ :=
  match args with
  | some [x] =>
    if h = "Abs" then some |x|
    else if h = "Sign" then some (Real.sign x)
    else if h = "Conjugate" then some x
    else if h = "Floor" then some (⌊x⌋ : ℝ)
    else if h = "Ceiling" then some (⌈x⌉ : ℝ)
    else if h = "Sin" then some (Real.sin x)
    else if h = "Cos" then some (Real.cos x)
    else if h = "Log" then (if 0 < x then some (Real.log x) else none)
    else if h = "Tan" then (if Real.cos x = 0 then none else some (Real.sin x / Real.cos x))
    else if h = "Cot" then (if Real.sin x = 0 then none else some (Real.cos x / Real.sin x))
    else if h = "Csc" then (if Real.sin x = 0 then none else some (Real.sin x)⁻¹)
    else if h = "Sec" then (if Real.cos x = 0 then none else some (Real.cos x)⁻¹)
    else none
  | some (x :: y :: rest) =>
    if h = "Max" then some ((y :: rest).foldl max x)
    else if h = "Min" then some ((y :: rest).foldl min x)
    else none
  | _ => none

mutual
  noncomputable def evalR (ρ : String → ℝ) : Expr → Option ℝ
    | .int n => some (n : ℝ)
    | .rat n d => if d = 0 then none else some ((n : ℝ) / (d : ℝ))
    | .sym s => some (ρ s)
    | .const c => constVal c
    | .add c ts => (evalR ρ c).bind fun vc => (evalTerms ρ ts).map fun vs => vc + vs
    | .mul c fs => (evalR ρ c).bind fun vc => (evalFacs ρ fs).map fun vs => vc * vs
    | .pow b e => powSem (evalR ρ b) e (evalR ρ e)
    | .app h args => appSem h (evalArgs ρ args)
    | _ => none
  noncomputable def evalTerms (ρ : String → ℝ) : List (Expr × Expr) → Option ℝ
    | [] => some 0
    | (k, v) :: t =>
      (evalR ρ k).bind fun vk => (evalR ρ v).bind fun vv => (evalTerms ρ t).map fun vt => vk * vv + vt
  noncomputable def evalFacs (ρ : String → ℝ) : List (Expr × Expr) → Option ℝ
    | [] => some 1
    | (b, e) :: t =>
      (powSem (evalR ρ b) e (evalR ρ e)).bind fun p => (evalFacs ρ t).map fun vt => p * vt
  noncomputable def evalArgs (ρ : String → ℝ) : List Expr → Option (List ℝ)
    | [] => some []
    | a :: t => (evalR ρ a).bind fun va => (evalArgs ρ t).map fun vt => va :: vt
end

/-! ## satisfaction -/

/-- meaning of an entry `(symbol, b)` of one of the six sign maps -/
def mapSem : MapId → ℝ → Prop
  | .pos, x => 0 < x
  | .nonneg, x => 0 ≤ x
  | .neg, x => x < 0
  | .nonpos, x => x ≤ 0
  | .nonzero, x => x ≠ 0
  | .zero, x => x = 0

/-- an assignment satisfies the internal fact tables -/
structure FactsSat (ρ : String → ℝ) (A : Assumptions) : Prop where
  rat : ∀ s ∈ A.ratS, ∃ q : ℚ, ρ s = (q : ℝ)
  int : ∀ s ∈ A.intS, ∃ n : ℤ, ρ s = (n : ℝ)
  maps : ∀ id s b, (s, b) ∈ A.getMap id → (b = true ↔ mapSem id (ρ s))

/-- meaning of one assumption statement for a real assignment: a relational holds when both sides have
    real values in the stated relation; membership in Reals/Complexes is true of every real assignment -/
def holds (ρ : String → ℝ) (s : Expr) : Prop :=
  match s with
  | .app h [a, b] =>
    if h = "Contains" then
      match a, b with
      | .sym x, .app st [] =>
        if st = "Rationals" then ∃ q : ℚ, ρ x = (q : ℝ)
        else if st = "Integers" then ∃ n : ℤ, ρ x = (n : ℝ)
        else True
      | _, _ => True
    else if h = "LessThan" then ∃ va vb, evalR ρ a = some va ∧ evalR ρ b = some vb ∧ va ≤ vb
    else if h = "StrictLessThan" then ∃ va vb, evalR ρ a = some va ∧ evalR ρ b = some vb ∧ va < vb
    else if h = "Equality" then ∃ va vb, evalR ρ a = some va ∧ evalR ρ b = some vb ∧ va = vb
    else if h = "Unequality" then ∃ va vb, evalR ρ a = some va ∧ evalR ρ b = some vb ∧ va ≠ vb
    else True
  | _ => True

/-- an assignment satisfies a list of assumption statements -/
def Sat (ρ : String → ℝ) (stmts : List Expr) : Prop := ∀ s ∈ stmts, holds ρ s

/-! ## lookups -/

theorem lookupB_mem {m : List (String × Bool)} {s : String} {b : Bool} (h : lookupB m s = some b) :
    (s, b) ∈ m := by
  induction m with
  | nil => simp [lookupB] at h
  | cons p t ih =>
    obtain ⟨k, v⟩ := p
    simp only [lookupB] at h
    split at h
    · rename_i hk
      have : k = s := by simpa using hk
      simp at h
      subst this; subst h; simp
    · exact List.mem_cons_of_mem _ (ih h)

theorem fromMap_t {m : List (String × Bool)} {s : String} (h : fromMap m s = .t) : (s, true) ∈ m := by
  unfold fromMap at h
  split at h
  · rename_i b hb
    cases b <;> simp [Tri.ofBool] at h
    exact lookupB_mem hb
  · cases h

theorem fromMap_f {m : List (String × Bool)} {s : String} (h : fromMap m s = .f) : (s, false) ∈ m := by
  unfold fromMap at h
  split at h
  · rename_i b hb
    cases b <;> simp [Tri.ofBool] at h
    exact lookupB_mem hb
  · cases h

theorem fromSet_t {l : List String} {s : String} (h : fromSet l s = .t) : s ∈ l := by
  unfold fromSet at h
  split at h
  · rename_i hc; simpa using hc
  · cases h

theorem fromSet_ne_f {l : List String} {s : String} : fromSet l s ≠ .f := by
  unfold fromSet; split <;> simp

theorem FactsSat.map_t {ρ A} (h : FactsSat ρ A) {id s} (hm : fromMap (A.getMap id) s = .t) :
    mapSem id (ρ s) := (h.maps id s true (fromMap_t hm)).mp rfl

theorem FactsSat.map_f {ρ A} (h : FactsSat ρ A) {id s} (hm : fromMap (A.getMap id) s = .f) :
    ¬ mapSem id (ρ s) := fun hs => by
  have := (h.maps id s false (fromMap_f hm)).mpr hs
  cases this

/-! ## constants -/

theorem constVal_pos {c : String} {v : ℝ} (h : constVal c = some v) : 0 < v := by
  unfold constVal at h
  split at h
  · cases h; exact Real.pi_pos
  split at h
  · cases h; exact Real.exp_pos 1
  split at h
  · cases h; exact Real.goldenRatio_pos
  split at h
  · cases h; linarith [Real.one_half_lt_eulerMascheroniConstant]
  · cases h

theorem constVal_not_int {c : String} {v : ℝ} (h : constVal c = some v) : ¬ ∃ n : ℤ, v = (n : ℝ) := by
  unfold constVal at h
  rintro ⟨n, hn⟩
  split at h
  · cases h
    have h3 := Real.pi_gt_three
    have h4 := Real.pi_lt_four
    rw [hn] at h3 h4
    have : (3 : ℤ) < n := by exact_mod_cast h3
    have : n < (4 : ℤ) := by exact_mod_cast h4
    omega
  split at h
  · cases h
    have h3 := Real.exp_one_gt_two
    have h4 := Real.exp_one_lt_three
    rw [hn] at h3 h4
    have : (2 : ℤ) < n := by exact_mod_cast h3
    have : n < (3 : ℤ) := by exact_mod_cast h4
    omega
  split at h
  · cases h
    have h3 := Real.one_lt_goldenRatio
    have h4 := Real.goldenRatio_lt_two
    rw [hn] at h3 h4
    have : (1 : ℤ) < n := by exact_mod_cast h3
    have : n < (2 : ℤ) := by exact_mod_cast h4
    omega
  split at h
  · cases h
    have h3 := Real.one_half_lt_eulerMascheroniConstant
    have h4 := Real.eulerMascheroniConstant_lt_two_thirds
    rw [hn] at h3 h4
    have h5 : (0 : ℝ) < n := by linarith
    have h6 : (n : ℝ) < 1 := by linarith
    have : (0 : ℤ) < n := by exact_mod_cast h5
    have : n < (1 : ℤ) := by exact_mod_cast h6
    omega
  · cases h

/-! ## numbers -/

theorem evalR_isNum_cases {ρ : String → ℝ} {e : Expr} {v : ℝ} (hn : e.isNum = true) (h : evalR ρ e = some v) :
    (∃ n : ℤ, e = .int n ∧ v = n) ∨ (∃ (n : ℤ) (d : ℕ), e = .rat n d ∧ d ≠ 0 ∧ v = (n : ℝ) / (d : ℝ)) := by
  cases e with
  | int n =>
    left
    refine ⟨n, rfl, ?_⟩
    simp [evalR] at h
    exact h.symm
  | rat n d =>
    right
    refine ⟨n, d, rfl, ?_⟩
    simp [evalR] at h
    exact ⟨h.1, h.2.symm⟩
  | _ => simp [Expr.isNum, evalR] at hn h

theorem rat_sign {n : ℤ} {d : ℕ} (hd : d ≠ 0) :
    ((0 : ℝ) < (n : ℝ) / (d : ℝ) ↔ 0 < n) ∧ ((n : ℝ) / (d : ℝ) < 0 ↔ n < 0) ∧ ((n : ℝ) / (d : ℝ) = 0 ↔ n = 0) := by
  have hd' : (0 : ℝ) < (d : ℝ) := by exact_mod_cast Nat.pos_of_ne_zero hd
  refine ⟨?_, ?_, ?_⟩
  · rw [div_pos_iff_of_pos_right hd']; exact_mod_cast Iff.rfl
  · rw [div_lt_iff₀ hd', zero_mul]; exact_mod_cast Iff.rfl
  · rw [div_eq_zero_iff]
    constructor
    · rintro (h | h)
      · exact_mod_cast h
      · exact absurd h (ne_of_gt hd')
    · intro h; left; exact_mod_cast h

end SymVerif.C34
