/-
Soundness of the rational-function normaliser `SymVerif.NF` (Model/NF.lean).

  evalK I ρ : Expr → Option K     denotation of the integer-exponent exact fragment in a field `K`
                                  of characteristic 0 with a chosen square root `I` of -1
  Rep I ρ f v                     the fraction `f` represents the value `v`:
                                  `den ≠ 0 ∧ num = v · den` after evaluation
  normT_sound                     evalK e = some v → Rep (normT e) v
  rep_addF / rep_mulF / …         the fraction operations are homomorphic
  equivF_sound, equiv_sound       the checker accepts only equal values
-/
import Mathlib.Algebra.Field.Basic
import Mathlib.Algebra.CharZero.Defs
import Mathlib.Algebra.Order.Ring.Int
import Mathlib.Data.Int.Cast.Lemmas
import Mathlib.Tactic.Ring
import Mathlib.Tactic.LinearCombination
import Mathlib.Tactic.FieldSimp
import SymVerif.Model.NF

namespace SymVerif
namespace NF

open Classical

section Ring
variable {K : Type*} [CommRing K]

/-! ### evaluation of coefficients, monomials, polynomials -/

def evalGI (I : K) (c : GI) : K := (c.re : K) + (c.im : K) * I

def evalMono (ρ : String → K) : Mono → K
  | [] => 1
  | (a, i) :: t => ρ a ^ i * evalMono ρ t

def evalPoly (I : K) (ρ : String → K) : Poly → K
  | [] => 0
  | (m, c) :: t => evalGI I c * evalMono ρ m + evalPoly I ρ t

variable (I : K) (ρ : String → K)

theorem evalGI_add (a b : GI) : evalGI I (GI.add a b) = evalGI I a + evalGI I b := by
  simp only [evalGI, GI.add, Int.cast_add]; ring

theorem evalGI_neg (a : GI) : evalGI I (GI.neg a) = - evalGI I a := by
  simp only [evalGI, GI.neg, Int.cast_neg]; ring

theorem evalGI_mul (hI : I * I = -1) (a b : GI) :
    evalGI I (GI.mul a b) = evalGI I a * evalGI I b := by
  simp only [evalGI, GI.mul, Int.cast_add, Int.cast_sub, Int.cast_mul]
  linear_combination (-(a.im : K) * (b.im : K)) * hI

theorem evalGI_isZero {c : GI} (h : c.isZero = true) : evalGI I c = 0 := by
  obtain ⟨re, im⟩ := c
  simp only [GI.isZero, Bool.and_eq_true, beq_iff_eq] at h
  simp [evalGI, h.1, h.2]

@[simp] theorem evalGI_one : evalGI I GI.one = 1 := by simp [evalGI, GI.one]
@[simp] theorem evalGI_ofInt (n : Int) : evalGI I (GI.ofInt n) = (n : K) := by simp [evalGI, GI.ofInt]

theorem evalMono_mmul (m n : Mono) : evalMono ρ (mmul m n) = evalMono ρ m * evalMono ρ n := by
  fun_induction mmul m n with
  | case1 m => simp [evalMono]
  | case2 a i s => simp [evalMono]
  | case3 a i s j t ih => simp only [evalMono, ih, pow_add]; ring
  | case4 a i s b j t _ _ ih => simp only [evalMono, ih]; ring
  | case5 a i s b j t _ _ ih => simp only [evalMono, ih]; ring

theorem evalPoly_padd (p q : Poly) : evalPoly I ρ (padd p q) = evalPoly I ρ p + evalPoly I ρ q := by
  fun_induction padd p q with
  | case1 q => simp [evalPoly]
  | case2 m c s => simp [evalPoly]
  | case3 c s m d t hz ih =>
    have := evalGI_isZero I hz
    rw [evalGI_add] at this
    simp only [evalPoly, ih]
    linear_combination (-(evalMono ρ m)) * this
  | case4 c s m d t hz ih =>
    simp only [evalPoly, ih, evalGI_add]; ring
  | case5 m c s n d t _ _ ih => simp only [evalPoly, ih]; ring
  | case6 m c s n d t _ _ ih => simp only [evalPoly, ih]; ring

theorem evalPoly_pneg (p : Poly) : evalPoly I ρ (pneg p) = - evalPoly I ρ p := by
  induction p with
  | nil => simp [pneg, evalPoly]
  | cons t s ih => obtain ⟨m, c⟩ := t; simp only [pneg, evalPoly, ih, evalGI_neg]; ring

theorem evalPoly_pmulTerm (hI : I * I = -1) (m : Mono) (c : GI) (q : Poly) :
    evalPoly I ρ (pmulTerm m c q) = evalGI I c * evalMono ρ m * evalPoly I ρ q := by
  induction q with
  | nil => simp [pmulTerm, evalPoly]
  | cons t s ih =>
    obtain ⟨n, d⟩ := t
    simp only [pmulTerm]
    split
    · rename_i hz
      have := evalGI_isZero I hz
      rw [evalGI_mul I hI] at this
      simp only [evalPoly, ih]
      linear_combination (-(evalMono ρ m * evalMono ρ n)) * this
    · simp only [evalPoly, ih, evalGI_mul I hI, evalMono_mmul]; ring

theorem evalPoly_pmul (hI : I * I = -1) (p q : Poly) :
    evalPoly I ρ (pmul p q) = evalPoly I ρ p * evalPoly I ρ q := by
  induction p with
  | nil => simp [pmul, evalPoly]
  | cons t s ih =>
    obtain ⟨m, c⟩ := t
    simp only [pmul, evalPoly_padd, evalPoly_pmulTerm I ρ hI, ih, evalPoly]; ring

@[simp] theorem evalPoly_pone : evalPoly I ρ pone = 1 := by simp [pone, evalPoly, evalMono]
@[simp] theorem evalPoly_pzero : evalPoly I ρ pzero = 0 := by simp [pzero, evalPoly]

theorem evalPoly_pconst (c : GI) : evalPoly I ρ (pconst c) = evalGI I c := by
  unfold pconst; split
  · rename_i h; simp [evalPoly, evalGI_isZero I h]
  · simp [evalPoly, evalMono]

@[simp] theorem evalPoly_patom (s : String) : evalPoly I ρ (patom s) = ρ s := by
  simp [patom, evalPoly, evalMono]

theorem evalPoly_ppow (hI : I * I = -1) (p : Poly) (n : Nat) :
    evalPoly I ρ (ppow p n) = evalPoly I ρ p ^ n := by
  induction n with
  | zero => simp [ppow]
  | succ n ih => simp only [ppow, evalPoly_pmul I ρ hI, ih, pow_succ]; ring

theorem evalPoly_psub (p q : Poly) : evalPoly I ρ (psub p q) = evalPoly I ρ p - evalPoly I ρ q := by
  simp only [psub, evalPoly_padd, evalPoly_pneg]; ring

end Ring

section Field
variable {K : Type*} [Field K] (I : K) (ρ : String → K)

/-! ### fractions -/

/-- the fraction `f` represents the value `v` under the assignment `ρ` -/
def Rep (f : Frac) (v : K) : Prop :=
  evalPoly I ρ f.den ≠ 0 ∧ evalPoly I ρ f.num = v * evalPoly I ρ f.den

theorem rep_constF (c : GI) : Rep I ρ (constF c) (evalGI I c) := by
  simp [Rep, constF, evalPoly_pconst]

theorem rep_zeroF : Rep I ρ zeroF 0 := by simp [Rep, zeroF]
theorem rep_oneF : Rep I ρ oneF 1 := by simp [Rep, oneF]
theorem rep_atomF (s : String) : Rep I ρ (atomF s) (ρ s) := by simp [Rep, atomF]

theorem rep_quotF (n d : GI) (h : evalGI I d ≠ 0) : Rep I ρ (quotF n d) (evalGI I n / evalGI I d) := by
  refine ⟨by simpa [quotF, evalPoly_pconst] using h, ?_⟩
  simp only [quotF, evalPoly_pconst]
  field_simp

variable {I ρ}

theorem rep_addF (hI : I * I = -1) {f g : Frac} {a b : K} (hf : Rep I ρ f a) (hg : Rep I ρ g b) :
    Rep I ρ (addF f g) (a + b) := by
  obtain ⟨hf0, hf⟩ := hf
  obtain ⟨hg0, hg⟩ := hg
  unfold addF
  split
  · rename_i h
    refine ⟨hf0, ?_⟩
    simp only [evalPoly_padd, hf, hg, ← h]; ring
  · refine ⟨by simpa [evalPoly_pmul I ρ hI] using ⟨hf0, hg0⟩, ?_⟩
    simp only [evalPoly_padd, evalPoly_pmul I ρ hI, hf, hg]; ring

theorem rep_negF {f : Frac} {a : K} (hf : Rep I ρ f a) : Rep I ρ (negF f) (-a) := by
  obtain ⟨hf0, hf⟩ := hf
  refine ⟨hf0, ?_⟩
  simp only [negF, evalPoly_pneg, hf]; ring

theorem rep_subF (hI : I * I = -1) {f g : Frac} {a b : K} (hf : Rep I ρ f a) (hg : Rep I ρ g b) :
    Rep I ρ (subF f g) (a - b) := by
  have := rep_addF hI hf (rep_negF hg)
  simpa [subF, sub_eq_add_neg] using this

theorem rep_mulF (hI : I * I = -1) {f g : Frac} {a b : K} (hf : Rep I ρ f a) (hg : Rep I ρ g b) :
    Rep I ρ (mulF f g) (a * b) := by
  obtain ⟨hf0, hf⟩ := hf
  obtain ⟨hg0, hg⟩ := hg
  refine ⟨by simpa [mulF, evalPoly_pmul I ρ hI] using ⟨hf0, hg0⟩, ?_⟩
  simp only [mulF, evalPoly_pmul I ρ hI, hf, hg]; ring

theorem rep_invF {f : Frac} {a : K} (hf : Rep I ρ f a) (ha : a ≠ 0) : Rep I ρ (invF f) a⁻¹ := by
  obtain ⟨hf0, hf⟩ := hf
  refine ⟨by simpa [invF, hf] using ⟨ha, hf0⟩, ?_⟩
  simp only [invF, hf]
  field_simp

theorem rep_divF (hI : I * I = -1) {f g : Frac} {a b : K} (hf : Rep I ρ f a) (hg : Rep I ρ g b)
    (hb : b ≠ 0) : Rep I ρ (divF f g) (a / b) := by
  have := rep_mulF hI hf (rep_invF hg hb)
  simpa [divF, div_eq_mul_inv] using this

theorem rep_npowF (hI : I * I = -1) {f : Frac} {a : K} (hf : Rep I ρ f a) (n : Nat) :
    Rep I ρ (npowF f n) (a ^ n) := by
  obtain ⟨hf0, hf⟩ := hf
  refine ⟨by simpa [npowF, evalPoly_ppow I ρ hI] using pow_ne_zero n hf0, ?_⟩
  simp only [npowF, evalPoly_ppow I ρ hI, hf, mul_pow]

theorem rep_powF (hI : I * I = -1) {f : Frac} {a : K} (hf : Rep I ρ f a) (n : Int)
    (ha : n < 0 → a ≠ 0) : Rep I ρ (powF f n) (a ^ n) := by
  unfold powF
  split
  · rename_i hn
    have h := rep_npowF hI (rep_invF hf (ha hn)) n.natAbs
    have e : a ^ n = a⁻¹ ^ n.natAbs := by
      conv_lhs => rw [show n = -((n.natAbs : ℕ) : ℤ) by omega]
      rw [zpow_neg, zpow_natCast, inv_pow]
    rw [e]; exact h
  · rename_i hn
    have h := rep_npowF hI hf n.natAbs
    have e : a ^ n = a ^ n.natAbs := by
      conv_lhs => rw [show n = ((n.natAbs : ℕ) : ℤ) by omega]
      rw [zpow_natCast]
    rw [e]; exact h

/-- the checker accepts only fractions that represent the same value -/
theorem equivF_sound (hI : I * I = -1) {f g : Frac} {a b : K} (hf : Rep I ρ f a) (hg : Rep I ρ g b)
    (h : equivF f g = true) : a = b := by
  obtain ⟨hf0, hf⟩ := hf
  obtain ⟨hg0, hg⟩ := hg
  have h1 : pmul f.num g.den = pmul g.num f.den := by simpa [equivF] using h
  have h2 := congrArg (evalPoly I ρ) h1
  simp only [evalPoly_pmul I ρ hI, hf, hg] at h2
  have h3 : a * (evalPoly I ρ f.den * evalPoly I ρ g.den) = b * (evalPoly I ρ f.den * evalPoly I ρ g.den) := by
    linear_combination h2
  exact mul_right_cancel₀ (mul_ne_zero hf0 hg0) h3

/-- two representations of one value are accepted provided the polynomial arithmetic is canonical;
only the converse direction (`equivF_sound`) is needed for soundness. -/
theorem rep_unique {f : Frac} {a b : K} (hf : Rep I ρ f a) (hg : Rep I ρ f b) : a = b := by
  obtain ⟨hf0, hf⟩ := hf
  obtain ⟨_, hg⟩ := hg
  exact mul_right_cancel₀ hf0 (hf.symm.trans hg)

end Field

section Sem
variable {K : Type*} [Field K] (I : K) (ρ : String → K)

/-! ### denotation of the fragment -/

/-- value of `b ^ n` for an integer literal `n`; undefined for `0 ^ negative` -/
noncomputable def powVal (v : K) (n : Int) : Option K :=
  if n < 0 ∧ v = 0 then none else some (v ^ n)

noncomputable def add2 : Option K → Option K → Option K
  | some a, some b => some (a + b)
  | _, _ => none

noncomputable def mul2 : Option K → Option K → Option K
  | some a, some b => some (a * b)
  | _, _ => none

mutual
  /-- Denotation of an expression tree of the integer-exponent exact fragment in the field `K`.
  `I` interprets the imaginary unit, `ρ` assigns a value to every atom (keyed by `Expr.dumpCanon`).
  `none`: outside the fragment (floats, infinities, NaN, booleans), malformed number leaves, or a
  zero base under a negative exponent. -/
  noncomputable def evalK : Expr → Option K
    | .int n => some (n : K)
    | .rat n d => if d = 0 then none else some ((n : K) / (d : K))
    | .cplx re im =>
      if re.den = 0 ∨ im.den = 0 then none
      else some ((re.num : K) / (re.den : K) + I * ((im.num : K) / (im.den : K)))
    | .add c ts => add2 (evalK c) (evalTerms ts)
    | .mul c fs => mul2 (evalK c) (evalFacs fs)
    | .pow b e =>
      match intLit? e with
      | some n => (evalK b).bind (fun v => powVal v n)
      | none => some (ρ (Expr.dumpCanon (.pow b e)))
    | .dbl _ => none
    | .cdbl _ _ => none
    | .infty _ => none
    | .nan => none
    | .bool _ => none
    | .sym n => some (ρ (Expr.dumpCanon (.sym n)))
    | .dummy n i => some (ρ (Expr.dumpCanon (.dummy n i)))
    | .const n => some (ρ (Expr.dumpCanon (.const n)))
    | .fsym n args => some (ρ (Expr.dumpCanon (.fsym n args)))
    | .app h args => some (ρ (Expr.dumpCanon (.app h args)))
  /-- `Σ kᵢ·vᵢ` over the entries of an `Add` dictionary -/
  noncomputable def evalTerms : List (Expr × Expr) → Option K
    | [] => some 0
    | (k, v) :: t => add2 (mul2 (evalK k) (evalK v)) (evalTerms t)
  /-- `Π bᵢ^eᵢ` over the entries of a `Mul` dictionary -/
  noncomputable def evalFacs : List (Expr × Expr) → Option K
    | [] => some 1
    | (b, e) :: t =>
      match intLit? e with
      | some n => mul2 ((evalK b).bind (fun v => powVal v n)) (evalFacs t)
      | none => mul2 (some (ρ (Expr.dumpCanon (.pow b e)))) (evalFacs t)
end

variable {I ρ}

theorem add2_some {x y : Option K} {v : K} (h : add2 x y = some v) :
    ∃ a b, x = some a ∧ y = some b ∧ v = a + b := by
  cases x <;> cases y <;> simp [add2] at h
  exact ⟨_, _, rfl, rfl, h.symm⟩

theorem mul2_some {x y : Option K} {v : K} (h : mul2 x y = some v) :
    ∃ a b, x = some a ∧ y = some b ∧ v = a * b := by
  cases x <;> cases y <;> simp [mul2] at h
  exact ⟨_, _, rfl, rfl, h.symm⟩

theorem powVal_some {a v : K} {n : Int} (h : powVal a n = some v) : (n < 0 → a ≠ 0) ∧ v = a ^ n := by
  unfold powVal at h
  split at h
  · cases h
  · rename_i hn
    simp only [Option.some.injEq] at h
    exact ⟨fun h1 h2 => hn ⟨h1, h2⟩, h.symm⟩

theorem bind_powVal_some {x : Option K} {v : K} {n : Int} (h : x.bind (fun a => powVal a n) = some v) :
    ∃ a, x = some a ∧ (n < 0 → a ≠ 0) ∧ v = a ^ n := by
  cases x with
  | none => simp at h
  | some a => exact ⟨a, rfl, powVal_some (by simpa using h)⟩

variable [CharZero K]

theorem rep_rat (n : Int) (d : Nat) (hd : d ≠ 0) :
    Rep I ρ (quotF (GI.ofInt n) (GI.ofInt d)) ((n : K) / (d : K)) := by
  have := rep_quotF I ρ (GI.ofInt n) (GI.ofInt d) (by simpa using hd)
  simpa using this

theorem rep_cplxF (re im : Q) (h1 : re.den ≠ 0) (h2 : im.den ≠ 0) :
    Rep I ρ (cplxF re im) ((re.num : K) / (re.den : K) + I * ((im.num : K) / (im.den : K))) := by
  have hr : (re.den : K) ≠ 0 := by exact_mod_cast h1
  have hi : (im.den : K) ≠ 0 := by exact_mod_cast h2
  refine ⟨?_, ?_⟩
  · simp only [cplxF, evalPoly_pconst, evalGI]
    push_cast
    simpa using ⟨h1, h2⟩
  · simp only [cplxF, evalPoly_pconst, evalGI]
    push_cast
    field_simp
    ring

/-! ### soundness of the normaliser -/

set_option linter.unusedSectionVars false

mutual
  theorem normT_sound (hI : I * I = -1) : ∀ (e : Expr) (v : K), evalK I ρ e = some v → Rep I ρ (normT e) v
    | .int n, v, h => by
      simp only [evalK, Option.some.injEq] at h
      subst h
      simpa [normT] using rep_constF I ρ (GI.ofInt n)
    | .rat n d, v, h => by
      simp only [evalK] at h
      split at h
      · cases h
      · rename_i hd
        simp only [Option.some.injEq] at h
        subst h
        simpa [normT] using rep_rat n d hd
    | .cplx re im, v, h => by
      simp only [evalK] at h
      split at h
      · cases h
      · rename_i hd
        simp only [Option.some.injEq] at h
        subst h
        simp only [not_or] at hd
        simpa [normT] using rep_cplxF re im hd.1 hd.2
    | .add c ts, v, h => by
      simp only [evalK] at h
      obtain ⟨a, b, ha, hb, rfl⟩ := add2_some h
      simpa [normT] using rep_addF hI (normT_sound hI c a ha) (normTerms_sound hI ts b hb)
    | .mul c fs, v, h => by
      simp only [evalK] at h
      obtain ⟨a, b, ha, hb, rfl⟩ := mul2_some h
      simpa [normT] using rep_mulF hI (normT_sound hI c a ha) (normFacs_sound hI fs b hb)
    | .pow b e, v, h => by
      simp only [evalK] at h
      simp only [normT]
      cases he : intLit? e with
      | some n =>
        simp only [he] at h ⊢
        obtain ⟨a, ha, hz, rfl⟩ := bind_powVal_some h
        exact rep_powF hI (normT_sound hI b a ha) n hz
      | none =>
        simp only [he, Option.some.injEq] at h ⊢
        subst h
        exact rep_atomF I ρ _
    | .dbl _, v, h => by simp [evalK] at h
    | .cdbl _ _, v, h => by simp [evalK] at h
    | .infty _, v, h => by simp [evalK] at h
    | .nan, v, h => by simp [evalK] at h
    | .bool _, v, h => by simp [evalK] at h
    | .sym n, v, h => by
      simp only [evalK, Option.some.injEq] at h; subst h; simpa [normT] using rep_atomF I ρ _
    | .dummy n i, v, h => by
      simp only [evalK, Option.some.injEq] at h; subst h; simpa [normT] using rep_atomF I ρ _
    | .const n, v, h => by
      simp only [evalK, Option.some.injEq] at h; subst h; simpa [normT] using rep_atomF I ρ _
    | .fsym n args, v, h => by
      simp only [evalK, Option.some.injEq] at h; subst h; simpa [normT] using rep_atomF I ρ _
    | .app hd args, v, h => by
      simp only [evalK, Option.some.injEq] at h; subst h; simpa [normT] using rep_atomF I ρ _
  theorem normTerms_sound (hI : I * I = -1) :
      ∀ (ts : List (Expr × Expr)) (v : K), evalTerms I ρ ts = some v → Rep I ρ (normTerms ts) v
    | [], v, h => by
      simp only [evalTerms, Option.some.injEq] at h; subst h; simpa [normTerms] using rep_zeroF I ρ
    | (k, c) :: t, v, h => by
      simp only [evalTerms] at h
      obtain ⟨x, y, hx, hy, rfl⟩ := add2_some h
      obtain ⟨a, b, ha, hb, rfl⟩ := mul2_some hx
      simpa [normTerms] using
        rep_addF hI (rep_mulF hI (normT_sound hI k a ha) (normT_sound hI c b hb)) (normTerms_sound hI t y hy)
  theorem normFacs_sound (hI : I * I = -1) :
      ∀ (fs : List (Expr × Expr)) (v : K), evalFacs I ρ fs = some v → Rep I ρ (normFacs fs) v
    | [], v, h => by
      simp only [evalFacs, Option.some.injEq] at h; subst h; simpa [normFacs] using rep_oneF I ρ
    | (b, e) :: t, v, h => by
      simp only [evalFacs] at h
      simp only [normFacs]
      cases he : intLit? e with
      | some n =>
        simp only [he] at h ⊢
        obtain ⟨x, y, hx, hy, rfl⟩ := mul2_some h
        obtain ⟨a, ha, hz, rfl⟩ := bind_powVal_some hx
        exact rep_mulF hI (rep_powF hI (normT_sound hI b a ha) n hz) (normFacs_sound hI t y hy)
      | none =>
        simp only [he] at h ⊢
        obtain ⟨x, y, hx, hy, rfl⟩ := mul2_some h
        simp only [Option.some.injEq] at hx
        subst hx
        exact rep_mulF hI (rep_atomF I ρ _) (normFacs_sound hI t y hy)
end

/-- `norm` only ever returns `normT` -/
theorem norm_ok {e : Expr} {f : Frac} (h : norm e = .ok f) : f = normT e := by
  unfold norm at h
  split at h
  · cases h
  · cases h; rfl

/-- **Soundness of `NF.norm`**: a normal form represents the value of the expression wherever the
expression has a value. -/
theorem norm_sound (hI : I * I = -1) {e : Expr} {f : Frac} {v : K}
    (h : norm e = .ok f) (hv : evalK I ρ e = some v) : Rep I ρ f v := by
  rw [norm_ok h]; exact normT_sound hI e v hv

/-- **Soundness of `NF.equiv`**: for every field `K` of characteristic 0, every square root `I` of
`-1` in `K` and every assignment `ρ` of the atoms, expressions accepted by `equiv` have equal values
wherever both are defined. -/
theorem equiv_sound (hI : I * I = -1) {a b : Expr} {va vb : K}
    (h : equiv a b = true) (ha : evalK I ρ a = some va) (hb : evalK I ρ b = some vb) : va = vb := by
  unfold equiv at h
  split at h
  · rename_i f g hf hg
    exact equivF_sound hI (norm_sound hI hf ha) (norm_sound hI hg hb) h
  · cases h

end Sem

end NF
end SymVerif
