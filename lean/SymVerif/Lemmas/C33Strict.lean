import SymVerif.Lemmas.C33Trace
/-! Histories whose iterators all carry a limit in `(0, 2^31)`: no error of any kind. -/
namespace SymVerif.C33
open SymVerif.Sieve

theorem extendTarget_lt {it : Iter} (h0 : 0 < it.limit) (h1 : it.limit < maxLimit) :
    extendTarget it < maxLimit := by
  unfold extendTarget
  split
  · exact h1
  · rename_i h; omega

theorem nextMany_ne_range (k : Nat) (s : State) (it : Iter) (acc : List Nat) (hinv : Inv s)
    (hidx : it.index ≤ s.buf.size) (h0 : 0 < it.limit) (h1 : it.limit < maxLimit) :
    nextMany k s it acc ≠ .error .range := by
  induction k generalizing s it acc with
  | zero => simp [nextMany]
  | succ k ih =>
    unfold nextMany
    obtain ⟨s1, i1, g1, _, _, h⟩ := nextPrime_spec s it hinv hidx
    rcases h with ⟨e, hi, _⟩ | ⟨e, _, _, _⟩ | ⟨_, _, hr⟩
    · rw [e]; exact ih s1 _ _ i1 hi h0 h1
    · rw [e]; exact ih s1 _ _ i1 (le_trans hidx g1) h0 h1
    · have := extendTarget_lt h0 h1; omega

/-- every live iterator has a limit in `(0, 2^31)` -/
def LimOk (w : World) : Prop :=
  ∀ k it, lookupIter w.iters k = some it → 0 < it.limit ∧ it.limit < maxLimit

/-- `opOk`, and iterators are created with a limit in `(0, 2^31)` -/
def opOkStrict : Op → Bool
  | .iterNew _ limit => decide (0 < limit) && decide (limit < maxLimit)
  | op => opOk op

theorem opOk_of_strict {op : Op} (h : opOkStrict op = true) : opOk op = true := by
  cases op with
  | iterNew slot limit =>
    have : 0 < limit ∧ limit < maxLimit := by simpa [opOkStrict] using h
    have hm : maxLimit = 2 ^ 31 := rfl
    simp only [opOk, decide_eq_true_eq]
    omega
  | _ => exact h

theorem step_strict (w : World) (op : Op) (hw : WInv w) (hl : LimOk w) (hop : opOkStrict op = true) :
    ∃ w' out, step w op = .ok (w', out) ∧ WInv w' ∧ LimOk w' ∧ OutOk w op out w' := by
  rcases step_spec w op hw (opOk_of_strict hop) with ⟨w', out, e, hw', ho⟩ | ⟨e, slot, count, rfl⟩
  · refine ⟨w', out, e, hw', ?_, ho⟩
    intro k it hit
    cases op with
    | gen limit => simp only [OutOk] at ho; rw [ho.2] at hit; exact hl k it hit
    | clear => simp only [OutOk] at ho; rw [ho.2] at hit; exact hl k it hit
    | setClear b => simp only [OutOk] at ho; rw [ho.2] at hit; exact hl k it hit
    | setSize n => simp only [OutOk] at ho; rw [ho.2] at hit; exact hl k it hit
    | setBits n => simp only [OutOk] at ho; rw [ho.2] at hit; exact hl k it hit
    | iterNew slot limit =>
      simp only [OutOk] at ho
      obtain ⟨_, h1, h2⟩ := ho
      by_cases hk : k = slot
      · subst hk
        rw [h1] at hit
        simp only [Option.some.injEq] at hit
        subst hit
        simpa [opOkStrict] using hop
      · rw [h2 k hk] at hit; exact hl k it hit
    | iterDel slot =>
      simp only [OutOk] at ho
      obtain ⟨_, h1, h2⟩ := ho
      by_cases hk : k = slot
      · subst hk; rw [h1] at hit; simp at hit
      · rw [h2 k hk] at hit; exact hl k it hit
    | iterNext slot count =>
      simp only [OutOk] at ho
      obtain ⟨h2, h1⟩ := ho
      by_cases hk : k = slot
      · subst hk
        cases hlk : lookupIter w.iters k with
        | none => rw [hlk] at h1; rw [h1.2] at hit; simp at hit
        | some it0 =>
          rw [hlk] at h1
          obtain ⟨_, it', e', lim, _⟩ := h1
          rw [e'] at hit
          simp only [Option.some.injEq] at hit
          subst hit
          rw [lim]; exact hl k it0 hlk
      · rw [h2 k hk] at hit; exact hl k it hit
  · exfalso
    simp only [step] at e
    cases hlk : lookupIter w.iters slot with
    | none => rw [hlk] at e; simp at e
    | some it =>
      rw [hlk] at e
      simp only [] at e
      have hne := nextMany_ne_range count w.s it [] hw.inv (hw.idx slot it hlk)
        (hl slot it hlk).1 (hl slot it hlk).2
      cases hn : nextMany count w.s it [] with
      | error err =>
        rw [hn] at e
        simp only [Except.error.injEq] at e
        subst e; exact hne hn
      | ok v => rw [hn] at e; simp at e

def OpsOkStrict (ops : List Op) : Prop := ops.all opOkStrict = true

instance (ops : List Op) : Decidable (OpsOkStrict ops) := by unfold OpsOkStrict; infer_instance

theorem OpsOk_of_strict {ops : List Op} (h : OpsOkStrict ops) : OpsOk ops := by
  unfold OpsOkStrict at h; unfold OpsOk opsOk
  rw [List.all_eq_true] at h ⊢
  exact fun op hop => opOk_of_strict (h op hop)

theorem run_strict (w : World) (ops : List Op) (acc : List (Except Err (List Nat)))
    (hw : WInv w) (hl : LimOk w) (hops : OpsOkStrict ops) :
    ∃ outs : List (List Nat), (run w ops acc).2 = acc.reverse ++ outs.map .ok ∧
      outs.length = ops.length := by
  induction ops generalizing w acc with
  | nil => exact ⟨[], by simp [run], rfl⟩
  | cons op ops ih =>
    have h1 : opOkStrict op = true := by
      have := hops; unfold OpsOkStrict at this; simp at this; exact this.1
    have h2 : OpsOkStrict ops := by
      have := hops; unfold OpsOkStrict at this ⊢; simp at this ⊢; exact this.2
    obtain ⟨w', out, e, hw', hl', _⟩ := step_strict w op hw hl h1
    obtain ⟨outs, er, len⟩ := ih w' (.ok out :: acc) hw' hl' h2
    refine ⟨out :: outs, ?_, by simp [len]⟩
    unfold run; rw [e]; simp only []; rw [er]; simp

end SymVerif.C33
