/-
C31 helper lemmas, part 2: the precision schedule `step_list`, the generic Newton-iteration fold
principle, and `series_invert`.
-/
import SymVerif.Lemmas.C31Basic

namespace SymVerif.C31
open SymVerif.Series PowerSeries

/-- a precision schedule starting from accuracy `m`: each step at most doubles the accuracy reached -/
def Chain : ℕ → List ℕ → Prop
  | _, [] => True
  | m, s :: l => s ≤ 2 * m ∧ Chain s l

/-- accuracy reached at the end of a schedule -/
def lastD : ℕ → List ℕ → ℕ
  | m, [] => m
  | _, s :: l => lastD s l

theorem chain_append_singleton (m : ℕ) (l : List ℕ) (b : ℕ) :
    Chain m (l ++ [b]) ↔ Chain m l ∧ b ≤ 2 * lastD m l := by
  induction l generalizing m with
  | nil => simp [Chain, lastD]
  | cons a t ih => simp only [List.cons_append, Chain, ih a, lastD, and_assoc]

theorem lastD_append_singleton (l : List ℕ) (b m : ℕ) : lastD m (l ++ [b]) = b := by
  induction l generalizing m with
  | nil => rfl
  | cons a t ih => simp only [List.cons_append, lastD, ih]

theorem chain_stepsUp (t : ℕ) : Chain 2 (stepsUp t ++ [t]) := by
  induction t using stepsUp.induct with
  | case1 t ht ih =>
    rw [stepsUp, dif_pos ht, chain_append_singleton]
    refine ⟨ih, ?_⟩
    rw [lastD_append_singleton]
    omega
  | case2 t ht =>
    rw [stepsUp, dif_neg ht]
    simp only [List.nil_append, Chain, and_true]
    omega

/-- `step_list(prec)` is a doubling schedule from accuracy 1 and ends with `prec` -/
theorem chain_stepList (prec : ℕ) : Chain 1 (stepList prec) := by
  unfold stepList
  exact ⟨by omega, chain_stepsUp prec⟩

theorem lastD_stepList (prec m : ℕ) : lastD m (stepList prec) = prec := by
  unfold stepList
  rw [← List.cons_append, lastD_append_singleton]

/-- Newton fold principle: if one step at precision `s ≤ 2m` turns an `m`-accurate iterate into an
`s`-accurate one, the fold over a doubling schedule ends with the accuracy of its last entry. -/
theorem newton_foldl {α : Type} (P : ℕ → α → Prop) (F : α → ℕ → α)
    (hstep : ∀ m s a, 1 ≤ m → P m a → s ≤ 2 * m → P s (F a s)) :
    ∀ (l : List ℕ) (m : ℕ) (a : α), (∀ s ∈ l, 1 ≤ s) → 1 ≤ m → Chain m l → P m a →
      P (lastD m l) (l.foldl F a) := by
  intro l
  induction l with
  | nil => intro m a _ _ _ h; simpa [lastD] using h
  | cons s t ih =>
    intro m a hpos hm hc h
    obtain ⟨hs, hc'⟩ := hc
    have hs1 : 1 ≤ s := hpos s (by simp)
    exact ih s (F a s) (fun x hx => hpos x (by simp [hx])) hs1 hc' (hstep m s a hm h hs)

/-- the same for a step function that can fail -/
theorem newton_foldlM {α : Type} (P : ℕ → α → Prop) (F : α → ℕ → Except Err α)
    (hstep : ∀ m s a b, 1 ≤ m → P m a → s ≤ 2 * m → F a s = .ok b → P s b) :
    ∀ (l : List ℕ) (m : ℕ) (a r : α), (∀ s ∈ l, 1 ≤ s) → 1 ≤ m → Chain m l → P m a →
      l.foldlM F a = .ok r → P (lastD m l) r := by
  intro l
  induction l with
  | nil =>
    intro m a r _ _ _ h hr
    simp only [List.foldlM_nil, pure, Except.pure, Except.ok.injEq] at hr
    subst hr
    simpa [lastD] using h
  | cons s t ih =>
    intro m a r hpos hm hc h hr
    obtain ⟨hs, hc'⟩ := hc
    have hs1 : 1 ≤ s := hpos s (by simp)
    simp only [List.foldlM_cons, bind, Except.bind] at hr
    split at hr
    · cases hr
    · next b hb =>
      exact ih s b r (fun x hx => hpos x (by simp [hx])) hs1 hc' (hstep m s a b hm h hs hb) hr

/-- every entry of the schedule is ≥ 1 when the target precision is -/
theorem stepList_pos (prec : ℕ) (hp : 1 ≤ prec) : ∀ s ∈ stepList prec, 1 ≤ s := by
  have hup : ∀ t, ∀ s ∈ stepsUp t, 1 ≤ s := by
    intro t
    induction t using stepsUp.induct with
    | case1 t ht ih =>
      rw [stepsUp, dif_pos ht]
      intro s hs
      rcases List.mem_append.mp hs with h | h
      · exact ih s h
      · simp at h; omega
    | case2 t ht => rw [stepsUp, dif_neg ht]; simp
  intro s hs
  unfold stepList at hs
  rcases List.mem_cons.mp hs with h | h
  · omega
  · rcases List.mem_append.mp h with h | h
    · exact hup prec s h
    · simp at h; omega

/-! ### series_invert -/

theorem invStep_spec (s p : Poly) (m step : ℕ) (h : EqMod m (toPS p * toPS s) 1) (hs : step ≤ 2 * m) :
    EqMod step (toPS (invStep s p step) * toPS s) 1 := by
  set P := toPS p
  set S := toPS s
  have h1 : EqMod step (toPS (invStep s p step)) ((2 - P * S) * P) := by
    unfold invStep
    refine (toPS_mulTrunc _ _ _).trans ?_
    apply EqMod.mul_right
    rw [toPS_psub]
    apply EqMod.sub
    · rw [toPS_singleton]; exact EqMod.of_eq (map_ofNat (C (R := ℚ)) 2)
    · exact toPS_mulTrunc _ _ _
  have h2 : EqMod step ((2 - P * S) * P * S) 1 := by
    have he : EqMod m (1 - P * S) 0 := by
      have := (EqMod.refl m (1 : ℚ⟦X⟧)).sub h
      simpa using this
    have hsq := (eqMod_sq_of_eqMod he).mono hs
    have : (2 - P * S) * P * S = 1 - (1 - P * S) * (1 - P * S) := by ring
    rw [this]
    have := (EqMod.refl step (1 : ℚ⟦X⟧)).sub hsq
    simpa using this
  exact (h1.mul_right S).trans h2

/-- **series_invert**: the result times the argument is `1` modulo `X^prec` -/
theorem invert_spec (s p : Poly) (prec : ℕ) (h : invert s prec = .ok p) :
    EqMod prec (toPS p * toPS s) 1 := by
  unfold invert at h
  split at h
  · cases h
  · split at h
    · next h1 =>
      cases h
      rw [toPS_of_isOne h1, toPS_one, mul_one]
      exact EqMod.refl _ _
    · split at h
      · cases h
      · next hl =>
        cases h
        by_cases hp : prec = 0
        · subst hp; exact eqMod_zero _ _
        have hc := coeff_zero_of_ldegree hl
        have hinit : EqMod 1 (toPS [1 / Series.coeff s 0] * toPS s) 1 := by
          intro k hk
          have : k = 0 := by omega
          subst this
          have hcs : coeff 0 (toPS s) = Series.coeff s 0 := by simp [toPS]
          rw [hcs] at hc
          rw [toPS_singleton, coeff_C_mul, hcs, coeff_zero_one]
          field_simp
        have := newton_foldl (fun m q => EqMod m (toPS q * toPS s) 1) (invStep s)
          (fun m st a _ ha hst => invStep_spec s a m st ha hst)
          (stepList prec) 1 _ (stepList_pos prec (by omega)) le_rfl (chain_stepList prec) hinit
        rwa [lastD_stepList] at this
      · cases h

/-- in the power-series field: the result of series_invert is the inverse modulo `X^prec` -/
theorem invert_eqMod_inv (s p : Poly) (prec : ℕ) (h : invert s prec = .ok p)
    (h0 : constantCoeff (toPS s) ≠ 0) : EqMod prec (toPS p) (toPS s)⁻¹ := by
  have := (invert_spec s p prec h).mul_right (toPS s)⁻¹
  rwa [mul_assoc, PowerSeries.mul_inv_cancel _ h0, mul_one, one_mul] at this

/-- series_invert succeeds only on arguments with non-zero constant term or the literal 1 -/
theorem invert_ok_constantCoeff (s p : Poly) (prec : ℕ) (h : invert s prec = .ok p) :
    constantCoeff (toPS s) ≠ 0 := by
  unfold invert at h
  split at h
  · cases h
  · split at h
    · next h1 => rw [toPS_of_isOne h1]; simp
    · split at h
      · cases h
      · next hl =>
        have := coeff_zero_of_ldegree hl
        rwa [coeff_zero_eq_constantCoeff_apply] at this
      · cases h

end SymVerif.C31
