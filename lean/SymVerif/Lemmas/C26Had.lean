import SymVerif.Lemmas.C26Add
/-!
Value preservation of `hadamard_product`.
-/
namespace SymVerif.MatExpr
open MExpr

/-- entrywise product of the values of a list of expressions -/
def P (env : Env) (l : List MExpr) (i j : Nat) : GQ := ((valsOf env l).map fun w => w.f i j).prod

theorem P_nil (env : Env) (i j : Nat) : P env [] i j = 1 := by simp [P, valsOf]
theorem P_cons (env : Env) (t : MExpr) (l : List MExpr) (i j : Nat) :
    P env (t :: l) i j = (valOf env t).f i j * P env l i j := by simp [P, valsOf]
theorem P_append (env : Env) (l1 l2 : List MExpr) (i j : Nat) :
    P env (l1 ++ l2) i j = P env l1 i j * P env l2 i j := by
  simp [P, valsOf_eq_map, List.prod_append]
theorem P_single (env : Env) (t : MExpr) (i j : Nat) : P env [t] i j = (valOf env t).f i j := by
  simp [P, valsOf]

theorem P_zero_mem (env : Env) {l : List MExpr} {a b : Dim} (h : zero a b ∈ l) (i j : Nat) :
    P env l i j = 0 := by
  induction l with
  | nil => simp at h
  | cons t rest ih =>
    rw [P_cons]
    rcases List.mem_cons.1 h with h | h
    · rw [← h]; simp [valOf]
    · rw [ih h]; ring

theorem had_node {env : Env} {R C : Nat} {l : List MExpr} (hne : l ≠ []) (hok : okAll env l)
    (hd : AllDims R C (valsOf env l)) :
    okOf env (had l) ∧ (valOf env (had l)).r = R ∧ (valOf env (had l)).c = C ∧
      ∀ i j, (valOf env (had l)).f i j = P env l i j := by
  have hv := valsOf_ne_nil (env := env) hne
  refine ⟨⟨hne, hok, sameDims_of_allDims hd⟩, ?_, ?_, fun i j => ?_⟩
  · simp only [valOf]; exact (hadV_r_c hv hd).1
  · simp only [valOf]; exact (hadV_r_c hv hd).2
  · simp only [valOf]; rw [hadV_f' hv]; rfl

theorem had_node_inv {env : Env} {l : List MExpr} (h : okOf env (had l)) :
    l ≠ [] ∧ okAll env l ∧
      AllDims (valOf env (had l)).r (valOf env (had l)).c (valsOf env l) := by
  obtain ⟨hne, hok, hsd⟩ := h
  refine ⟨hne, hok, ?_⟩
  have hv := valsOf_ne_nil (env := env) hne
  obtain ⟨v, t, hvt⟩ := List.exists_cons_of_ne_nil hv
  simp only [valOf]
  rw [hvt] at hsd ⊢
  exact allDims_of_sameDims hsd

theorem flattenHad_spec (env : Env) (R C : Nat) : ∀ (l : List MExpr), okAll env l →
    AllDims R C (valsOf env l) →
    okAll env (flattenHad l) ∧ AllDims R C (valsOf env (flattenHad l)) ∧
      (l ≠ [] → flattenHad l ≠ []) ∧ ∀ i j, P env (flattenHad l) i j = P env l i j
  | [], _, _ => by simp [flattenHad, okAll, valsOf, AllDims]
  | t :: rest, hok, hd => by
    have hd' : ((valOf env t).r = R ∧ (valOf env t).c = C) ∧ AllDims R C (valsOf env rest) := by
      simpa [valsOf, allDims_cons] using hd
    obtain ⟨ih1, ih2, _, ih4⟩ := flattenHad_spec env R C rest hok.2 hd'.2
    by_cases ha : ∃ us, t = had us
    · obtain ⟨us, rfl⟩ := ha
      obtain ⟨hne, hoku, hdu⟩ := had_node_inv hok.1
      rw [hd'.1.1, hd'.1.2] at hdu
      simp only [flattenHad]
      refine ⟨(okAll_append _ _ _).2 ⟨hoku, ih1⟩, ?_, fun _ => by simp [hne], fun i j => ?_⟩
      · rw [valsOf_append]; exact allDims_append.2 ⟨hdu, ih2⟩
      · rw [P_append, P_cons, ih4]
        congr 1
        simp only [valOf]
        rw [hadV_f' (valsOf_ne_nil hne)]; rfl
    · have hfl : flattenHad (t :: rest) = t :: flattenHad rest := by
        cases t <;> first | rfl | exact absurd ⟨_, rfl⟩ ha
      rw [hfl]
      refine ⟨⟨hok.1, ih1⟩, ?_, fun _ => by simp, fun i j => ?_⟩
      · simpa [valsOf, allDims_cons] using ⟨hd'.1, ih2⟩
      · rw [P_cons, P_cons, ih4]

/-! ### the loop -/

def dgH (dg : Option (List GQ)) (i j : Nat) : GQ :=
  match dg with
  | none => 1
  | some d => if i = j then d.getD i 0 else 0

def dnH (dn : Option (Nat × Nat × List GQ)) (i j : Nat) : GQ :=
  match dn with
  | none => 1
  | some (_, c, v) => ent v c i j

structure HadWF (env : Env) (R C : Nat) (st : HadSt) : Prop where
  keepOk : okAll env st.keep
  keepDims : AllDims R C (valsOf env st.keep)
  dgOk : ∀ d, st.dg = some d → d.length = R ∧ R = C
  dnOk : ∀ r c v, st.dn = some (r, c, v) → r = R ∧ c = C ∧ v.length = R * C
  idOk : st.haveId = true → ∀ i j, i ≠ j → P env st.keep i j = 0

def hadF (env : Env) (st : HadSt) (i j : Nat) : GQ :=
  P env st.keep i j * dgH st.dg i j * dnH st.dn i j

theorem had_keep_push {env : Env} {R C : Nat} {st : HadSt} (hwf : HadWF env R C st) (t : MExpr)
    (hok : okOf env t) (hdt : (valOf env t).r = R ∧ (valOf env t).c = C) :
    HadWF env R C { st with keep := st.keep ++ [t] } ∧
      ∀ i j, hadF env { st with keep := st.keep ++ [t] } i j = hadF env st i j * (valOf env t).f i j := by
  refine ⟨⟨?_, ?_, hwf.dgOk, hwf.dnOk, ?_⟩, fun i j => ?_⟩
  · exact (okAll_append _ _ _).2 ⟨hwf.keepOk, hok, trivial⟩
  · rw [valsOf_append]
    exact allDims_append.2 ⟨hwf.keepDims, by simpa [valsOf, AllDims] using hdt⟩
  · intro hid i j hij
    rw [P_append, hwf.idOk hid i j hij]; ring
  · simp only [hadF, P_append, P_single]; ring

/-- what the loop returns: an early ZeroMatrix of the list, or a final state -/
def HadRes (env : Env) (R C : Nat) (st : HadSt) (l : List MExpr) (res : MExpr ⊕ HadSt) : Prop :=
  match res with
  | .inl z => ∃ a b, z = zero a b ∧ zero a b ∈ l
  | .inr st' => HadWF env R C st' ∧
      ∀ i j, i < R → j < C → hadF env st' i j = hadF env st i j * P env l i j

theorem hadLoop_spec {env : Env} {R C : Nat} : ∀ (l : List MExpr) (st : HadSt) (res : MExpr ⊕ HadSt),
    hadLoop l st = .ok res → HadWF env R C st → okAll env l → AllDims R C (valsOf env l) →
    HadRes env R C st l res
  | [], st, res, h, hwf, _, _ => by
    simp [hadLoop] at h; subst h
    exact ⟨hwf, fun i j _ _ => by simp [P_nil]⟩
  | t :: rest, st, res, h, hwf, hok, hd => by
    unfold HadRes
    have hd' : ((valOf env t).r = R ∧ (valOf env t).c = C) ∧ AllDims R C (valsOf env rest) := by
      simpa [valsOf, allDims_cons] using hd
    -- the generic continuation: `t` is pushed on `keep`
    have push : hadLoop rest { st with keep := st.keep ++ [t] } = .ok res →
        HadRes env R C st (t :: rest) res := by
      intro h
      obtain ⟨w1, f1⟩ := had_keep_push hwf t hok.1 hd'.1
      have := hadLoop_spec rest _ res h w1 hok.2 hd'.2
      unfold HadRes at this ⊢
      cases res with
      | inl z => obtain ⟨a, b, h1, h2⟩ := this; exact ⟨a, b, h1, by simp [h2]⟩
      | inr st' =>
        exact ⟨this.1, fun i j hi hj => by rw [this.2 i j hi hj, f1, P_cons]; ring⟩
    cases t with
    | zero a b =>
      simp [hadLoop] at h; subst h
      exact ⟨a, b, rfl, by simp⟩
    | ident n =>
      simp only [hadLoop] at h
      split at h
      · rename_i hid
        have := hadLoop_spec rest st res h hwf hok.2 hd'.2
        unfold HadRes at this
        cases res with
        | inl z => obtain ⟨a, b, h1, h2⟩ := this; exact ⟨a, b, h1, by simp [h2]⟩
        | inr st' =>
          refine ⟨this.1, fun i j hi hj => ?_⟩
          rw [this.2 i j hi hj, P_cons]
          simp only [valOf, hadF]
          by_cases hij : i = j
          · simp [hij]
          · rw [hwf.idOk hid i j hij]; simp
      · obtain ⟨w1, f1⟩ := had_keep_push hwf (ident n) hok.1 hd'.1
        have w1' : HadWF env R C { st with haveId := true, keep := st.keep ++ [ident n] } := by
          refine ⟨w1.keepOk, w1.keepDims, w1.dgOk, w1.dnOk, fun _ i j hij => ?_⟩
          show P env (st.keep ++ [ident n]) i j = 0
          rw [P_append, P_single]; simp [valOf, hij]
        have := hadLoop_spec rest _ res h w1' hok.2 hd'.2
        unfold HadRes at this
        cases res with
        | inl z => obtain ⟨a, b, h1, h2⟩ := this; exact ⟨a, b, h1, by simp [h2]⟩
        | inr st' =>
          refine ⟨this.1, fun i j hi hj => ?_⟩
          rw [this.2 i j hi hj, P_cons]
          have := f1 i j
          simp only [hadF] at this ⊢
          rw [this]; ring
    | diag d =>
      have hdl : d.length = R ∧ R = C := by
        have := hd'.1; simp only [valOf] at this; exact ⟨this.1, this.1.symm.trans this.2⟩
      simp only [hadLoop] at h
      split at h
      · rename_i hdg
        have w1 : HadWF env R C { st with dg := some d } :=
          ⟨hwf.keepOk, hwf.keepDims, by intro d' hd'; simp at hd'; subst hd'; exact hdl, hwf.dnOk,
            hwf.idOk⟩
        have := hadLoop_spec rest _ res h w1 hok.2 hd'.2
        unfold HadRes at this
        cases res with
        | inl z => obtain ⟨a, b, h1, h2⟩ := this; exact ⟨a, b, h1, by simp [h2]⟩
        | inr st' =>
          refine ⟨this.1, fun i j hi hj => ?_⟩
          rw [this.2 i j hi hj, P_cons]
          simp only [hadF, dgH, hdg, valOf]; ring
      · rename_i d0 hdg
        simp only [bind_ok] at h
        obtain ⟨s, hs, _, _, h⟩ := h
        obtain ⟨hlen, rfl⟩ := zipSame_ok hs
        have h0 := hwf.dgOk d0 hdg
        have w1 : HadWF env R C { st with dg := some (List.zipWith (· * ·) d0 d) } :=
          ⟨hwf.keepOk, hwf.keepDims, by
            intro d' hd'; simp at hd'; subst hd'
            exact ⟨by simp [List.length_zipWith, hlen, hdl.1], h0.2⟩, hwf.dnOk, hwf.idOk⟩
        have := hadLoop_spec rest _ res h w1 hok.2 hd'.2
        unfold HadRes at this
        cases res with
        | inl z => obtain ⟨a, b, h1, h2⟩ := this; exact ⟨a, b, h1, by simp [h2]⟩
        | inr st' =>
          refine ⟨this.1, fun i j hi hj => ?_⟩
          rw [this.2 i j hi hj, P_cons]
          simp only [hadF, dgH, hdg, valOf]
          split
          · rw [getD_zipWith_mul hlen]; ring
          · ring
    | dense a b v =>
      have hlenv : v.length = a * b := hok.1
      have hab : a = R ∧ b = C := by simpa [valOf] using hd'.1
      simp only [hadLoop] at h
      split at h
      · rename_i hdn
        have w1 : HadWF env R C { st with dn := some (a, b, v) } :=
          ⟨hwf.keepOk, hwf.keepDims, hwf.dgOk, by
            intro r c v' hv'; simp at hv'; obtain ⟨rfl, rfl, rfl⟩ := hv'
            exact ⟨hab.1, hab.2, by rw [hlenv, hab.1, hab.2]⟩, hwf.idOk⟩
        have := hadLoop_spec rest _ res h w1 hok.2 hd'.2
        unfold HadRes at this
        cases res with
        | inl z => obtain ⟨a, b, h1, h2⟩ := this; exact ⟨a, b, h1, by simp [h2]⟩
        | inr st' =>
          refine ⟨this.1, fun i j hi hj => ?_⟩
          rw [this.2 i j hi hj, P_cons]
          simp only [hadF, dnH, hdn, valOf]; ring
      · rename_i r0 c0 v0 hdn
        simp only [bind_ok] at h
        obtain ⟨s, hs, _, _, h⟩ := h
        obtain ⟨hl, rfl⟩ := zipSame_ok hs
        have h0 := hwf.dnOk r0 c0 v0 hdn
        have w1 : HadWF env R C { st with dn := some (r0, c0, List.zipWith (· * ·) v v0) } :=
          ⟨hwf.keepOk, hwf.keepDims, hwf.dgOk, by
            intro r c v' hv'; simp at hv'; obtain ⟨rfl, rfl, rfl⟩ := hv'
            exact ⟨h0.1, h0.2.1, by simp [List.length_zipWith, hl, h0.2.2]⟩, hwf.idOk⟩
        have := hadLoop_spec rest _ res h w1 hok.2 hd'.2
        unfold HadRes at this
        cases res with
        | inl z => obtain ⟨a, b, h1, h2⟩ := this; exact ⟨a, b, h1, by simp [h2]⟩
        | inr st' =>
          refine ⟨this.1, fun i j hi hj => ?_⟩
          rw [this.2 i j hi hj, P_cons]
          simp only [hadF, dnH, hdn, valOf, ent]
          rw [getD_zipWith_mul hl, h0.2.1, hab.2]; ring
    | sym n => have := push (by simpa [hadLoop] using h); unfold HadRes at this; exact this
    | add ts => have := push (by simpa [hadLoop] using h); unfold HadRes at this; exact this
    | mul s fs => have := push (by simpa [hadLoop] using h); unfold HadRes at this; exact this
    | had fs => have := push (by simpa [hadLoop] using h); unfold HadRes at this; exact this
    | transpose e => have := push (by simpa [hadLoop] using h); unfold HadRes at this; exact this
    | conj e => have := push (by simpa [hadLoop] using h); unfold HadRes at this; exact this

theorem getD_map_range (n : Nat) (g : Nat → GQ) {i : Nat} (hi : i < n) :
    ((List.range n).map g).getD i 0 = g i := by
  simp [List.getD_eq_getElem?_getD, List.getElem?_map, List.getElem?_range hi]

theorem hadMerge_spec {env : Env} {R C : Nat} {st : HadSt} {keep : List MExpr}
    (h : hadMerge st = .ok keep) (hwf : HadWF env R C st) :
    okAll env keep ∧ AllDims R C (valsOf env keep) ∧
      ∀ i j, i < R → j < C → P env keep i j = hadF env st i j := by
  simp only [hadMerge] at h
  split at h
  · rename_i r c v d hdn hdg
    split at h
    · rename_i hg
      simp only [bind_ok] at h
      obtain ⟨_, _, h⟩ := h
      simp [pure, Except.pure] at h; subst h
      obtain ⟨h1, h2, h3⟩ := hwf.dnOk r c v hdn
      obtain ⟨g1, g2⟩ := hwf.dgOk d hdg
      subst h1; subst h2
      refine ⟨(okAll_append _ _ _).2 ⟨hwf.keepOk, by simp [okOf, okAll]⟩, ?_,
        fun i j hi hj => ?_⟩
      · rw [valsOf_append]
        exact allDims_append.2 ⟨hwf.keepDims, by simp [valsOf, AllDims, valOf, ← g2]⟩
      · simp only [P_append, P_single, hadF, dgH, dnH, hdg, hdn, valOf]
        split
        · rename_i hij
          subst hij
          rw [getD_map_range _ _ hi]; simp only [List.getD_eq_getElem?_getD]; ring
        · ring
    · simp at h
  · rename_i r c v hdn hdg
    simp at h; subst h
    obtain ⟨h1, h2, h3⟩ := hwf.dnOk r c v hdn
    refine ⟨(okAll_append _ _ _).2 ⟨hwf.keepOk, by simp [okOf, okAll, h3, h1, h2]⟩, ?_,
      fun i j _ _ => ?_⟩
    · rw [valsOf_append]
      exact allDims_append.2 ⟨hwf.keepDims, by simp [valsOf, AllDims, valOf, h1, h2]⟩
    · simp [P_append, P_single, hadF, dgH, dnH, hdg, hdn, valOf]
  · rename_i d hdn hdg
    simp at h; subst h
    obtain ⟨h1, h2⟩ := hwf.dgOk d hdg
    refine ⟨(okAll_append _ _ _).2 ⟨hwf.keepOk, by simp [okOf, okAll]⟩, ?_, fun i j _ _ => ?_⟩
    · rw [valsOf_append]
      exact allDims_append.2 ⟨hwf.keepDims, by simp [valsOf, AllDims, valOf, h1, ← h2]⟩
    · simp [P_append, P_single, hadF, dgH, dnH, hdg, hdn, valOf]
  · rename_i hdn hdg
    simp at h; subst h
    exact ⟨hwf.keepOk, hwf.keepDims, fun i j _ _ => by simp [hadF, dgH, dnH, hdg, hdn]⟩

theorem hadFinish_spec {env : Env} {R C : Nat} {st : HadSt} {r : MExpr}
    (h : hadFinish st = .ok r) (hwf : HadWF env R C st) :
    okOf env r ∧ (valOf env r).r = R ∧ (valOf env r).c = C ∧
      ∀ i j, i < R → j < C → (valOf env r).f i j = hadF env st i j := by
  simp only [hadFinish, bind_ok] at h
  obtain ⟨keep, hk, h⟩ := h
  obtain ⟨k1, k2, k3⟩ := hadMerge_spec hk hwf
  rcases keep with _ | ⟨k, _ | ⟨k', t⟩⟩
  · simp [mkHad, hadCanonical] at h
  · simp [pure, Except.pure] at h
    rw [← h]
    have hd : (valOf env k).r = R ∧ (valOf env k).c = C := by
      simpa [valsOf, AllDims] using k2
    exact ⟨k1.1, hd.1, hd.2, fun i j hi hj => by rw [← k3 i j hi hj, P_single]⟩
  · have h' : mkHad (k :: k' :: t) = .ok r := by simpa using h
    have := mkHad_ok h'; subst this
    obtain ⟨a1, a2, a3, a4⟩ := had_node (by simp) k1 k2
    exact ⟨a1, a2, a3, fun i j hi hj => by rw [a4, k3 i j hi hj]⟩

theorem hadWF_init (env : Env) (R C : Nat) : HadWF env R C {} :=
  ⟨trivial, by simp [valsOf, AllDims], by simp, by simp, by simp⟩

/-- `hadamard_product` preserves the value -/
theorem hadamard_value_aux (env : Env) (fs : List MExpr) (r : MExpr)
    (h : hadamardProduct fs = .ok r) (hok : okOf env (had fs)) :
    okOf env r ∧ valOf env r ≃ valOf env (had fs) := by
  obtain ⟨hne, hoks, hd⟩ := had_node_inv hok
  obtain ⟨_, a2, a3, a4⟩ := had_node hne hoks hd
  match fs, h with
  | [], h => simp [hadamardProduct] at h
  | [t], h =>
    simp [hadamardProduct] at h; subst h
    have hdt : (valOf env t).r = (valOf env (had [t])).r ∧ (valOf env t).c = (valOf env (had [t])).c := by
      simpa [valsOf, AllDims] using hd
    exact ⟨hoks.1, hdt.1, hdt.2, fun i j _ _ => by rw [a4, P_single]⟩
  | t1 :: t2 :: rest, h =>
    simp only [hadamardProduct, bind_ok] at h
    obtain ⟨_, _, res, hl, hf⟩ := h
    obtain ⟨f1, f2, _, f4⟩ := flattenHad_spec env _ _ _ hoks hd
    have hls := hadLoop_spec _ _ res hl (hadWF_init env _ _) f1 f2
    unfold HadRes at hls
    cases res with
    | inl z =>
      obtain ⟨a, b, rfl, hmem⟩ := hls
      simp [pure, Except.pure] at hf; subst hf
      have hdz := f2 (valOf env (zero a b)) (by rw [valsOf_eq_map]; exact List.mem_map_of_mem hmem)
      refine ⟨trivial, hdz.1, hdz.2, fun i j _ _ => ?_⟩
      rw [a4, ← f4, P_zero_mem env hmem]; simp [valOf]
    | inr st =>
      obtain ⟨w, hw⟩ := hls
      simp only at hf
      obtain ⟨r1, r2, r3, r4⟩ := hadFinish_spec hf w
      refine ⟨r1, r2, r3, fun i j hi hj => ?_⟩
      rw [r2] at hi; rw [r3] at hj
      rw [r4 i j hi hj, hw i j hi hj, f4, a4]
      simp [hadF, dgH, dnH, P_nil]

end SymVerif.MatExpr
