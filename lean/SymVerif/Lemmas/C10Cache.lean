/-
C10, cache independence of the model: `Diff.diffCached x e = Diff.diffE x e`.

  eqb_eq            `Expr.eqb` (the key comparison of the memo table) only identifies equal trees
  MemoOK x m        every entry of the table maps a tree to its own derivative
  diffC_spec        the memoised traversal returns `diffE` and keeps the table `MemoOK`
-/
import SymVerif.Model.Diff

namespace SymVerif
namespace Expr

theorem Q_beq_eq (a c : Q) (h : (a == c) = true) : a = c := by
  cases a; cases c
  simp only [BEq.beq] at h
  simp_all [instBEqQ.beq]

mutual
  theorem eqb_eq : ∀ (a b : Expr), Expr.eqb a b = true → a = b
    | .int a, b, h => by cases b <;> simp_all [Expr.eqb]
    | .rat a a', b, h => by cases b <;> simp_all [Expr.eqb]
    | .cplx a a', b, h => by
      cases b <;> simp [Expr.eqb] at h
      rename_i c c'
      rw [Q_beq_eq a c h.1, Q_beq_eq a' c' h.2]
    | .dbl a, b, h => by cases b <;> simp_all [Expr.eqb]
    | .cdbl a a', b, h => by cases b <;> simp_all [Expr.eqb]
    | .infty a, b, h => by cases b <;> simp_all [Expr.eqb]
    | .nan, b, h => by cases b <;> simp_all [Expr.eqb]
    | .sym a, b, h => by cases b <;> simp_all [Expr.eqb]
    | .dummy a a', b, h => by cases b <;> simp_all [Expr.eqb]
    | .const a, b, h => by cases b <;> simp_all [Expr.eqb]
    | .bool a, b, h => by cases b <;> simp_all [Expr.eqb]
    | .add c ts, b, h => by
      cases b <;> simp [Expr.eqb] at h
      rename_i c' ts'
      rw [eqb_eq c c' h.1, eqbPairs_eq ts ts' h.2]
    | .mul c ts, b, h => by
      cases b <;> simp [Expr.eqb] at h
      rename_i c' ts'
      rw [eqb_eq c c' h.1, eqbPairs_eq ts ts' h.2]
    | .pow a a', b, h => by
      cases b <;> simp [Expr.eqb] at h
      rename_i c c'
      rw [eqb_eq a c h.1, eqb_eq a' c' h.2]
    | .fsym n as, b, h => by
      cases b <;> simp [Expr.eqb] at h
      rename_i m bs
      rw [h.1, eqbList_eq as bs h.2]
    | .app n as, b, h => by
      cases b <;> simp [Expr.eqb] at h
      rename_i m bs
      rw [h.1, eqbList_eq as bs h.2]
  theorem eqbList_eq : ∀ (a b : List Expr), Expr.eqbList a b = true → a = b
    | [], b, h => by cases b <;> simp_all [Expr.eqbList]
    | x :: t, b, h => by
      cases b with
      | nil => simp [Expr.eqbList] at h
      | cons y u =>
        simp [Expr.eqbList] at h
        rw [eqb_eq x y h.1, eqbList_eq t u h.2]
  theorem eqbPairs_eq : ∀ (a b : List (Expr × Expr)), Expr.eqbPairs a b = true → a = b
    | [], b, h => by cases b <;> simp_all [Expr.eqbPairs]
    | (x, x') :: t, b, h => by
      cases b with
      | nil => simp [Expr.eqbPairs] at h
      | cons p u =>
        obtain ⟨y, y'⟩ := p
        simp [Expr.eqbPairs] at h
        rw [eqb_eq x y h.1.1, eqb_eq x' y' h.1.2, eqbPairs_eq t u h.2]
end

end Expr

namespace Diff
open Expr

/-- every entry of the table maps a tree to its own derivative -/
def MemoOK (x : String) (m : Memo) : Prop := ∀ k v, (k, v) ∈ m → v = diffE x k

theorem memoOK_nil (x : String) : MemoOK x [] := by
  intro k v h; cases h

theorem memoOK_cons {x : String} {m : Memo} {k v : Expr} (hm : MemoOK x m) (hv : v = diffE x k) :
    MemoOK x ((k, v) :: m) := by
  intro k' v' h
  rcases List.mem_cons.mp h with h | h
  · cases h; exact hv
  · exact hm k' v' h

theorem find_sound {x : String} : ∀ {m : Memo} {e d : Expr}, MemoOK x m → Memo.find m e = some d → d = diffE x e
  | [], e, d, _, h => by simp [Memo.find] at h
  | (k, v) :: t, e, d, hm, h => by
    simp only [Memo.find] at h
    split at h
    · rename_i hk
      cases h
      have := Expr.eqb_eq k e hk
      subst this
      exact hm k _ (List.mem_cons_self ..)
    · exact find_sound (fun k' v' hkv => hm k' v' (List.mem_cons_of_mem _ hkv)) h

/-- `memoize` returns the derivative and keeps the invariant provided the computation `k` does -/
theorem memoize_spec {x : String} {key : Expr} {m : Memo} {k : Memo → Expr × Memo} (hm : MemoOK x m)
    (hk : ∀ m', MemoOK x m' → (k m').1 = diffE x key ∧ MemoOK x (k m').2) :
    (memoize key m k).1 = diffE x key ∧ MemoOK x (memoize key m k).2 := by
  unfold memoize
  split
  · rename_i d hd
    exact ⟨find_sound hm hd, hm⟩
  · obtain ⟨h1, h2⟩ := hk m hm
    exact ⟨h1, memoOK_cons h2 h1⟩

mutual
  theorem diffC_spec (x : String) : ∀ (e : Expr) (m : Memo), MemoOK x m →
      (diffC x e m).1 = diffE x e ∧ MemoOK x (diffC x e m).2
    | .sym n, m, hm => by
      unfold diffC
      exact memoize_spec hm (fun m' hm' => ⟨by simp [diffE], hm'⟩)
    | .add c ts, m, hm => by
      unfold diffC
      refine memoize_spec hm (fun m' hm' => ?_)
      obtain ⟨h1, h2⟩ := diffCTerms_spec x ts m' hm'
      exact ⟨by simp [diffE, h1], h2⟩
    | .mul c fs, m, hm => by
      unfold diffC
      refine memoize_spec hm (fun m' hm' => ?_)
      obtain ⟨h1, h2⟩ := diffCFacs_spec x c [] fs m' hm'
      exact ⟨by simp [diffE, h1], h2⟩
    | .pow b e, m, hm => by
      unfold diffC
      refine memoize_spec hm (fun m' hm' => ?_)
      obtain ⟨h1, h2⟩ := diffC_spec x b m' hm'
      obtain ⟨h3, h4⟩ := diffC_spec x e _ h2
      exact ⟨by simp [diffE, h1, h3], h4⟩
    | .fsym f args, m, hm => by
      unfold diffC
      refine memoize_spec hm (fun m' hm' => ?_)
      obtain ⟨h1, h2⟩ := diffCList_spec x args m' hm'
      exact ⟨by simp [diffE, h1], h2⟩
    | .app h args, m, hm => by
      unfold diffC
      refine memoize_spec hm (fun m' hm' => ?_)
      obtain ⟨h1, h2⟩ := diffCList_spec x args m' hm'
      exact ⟨by simp [diffE, h1], h2⟩
    | .int n, m, hm => by
      unfold diffC
      exact memoize_spec hm (fun m' hm' => ⟨by simp [diffE], hm'⟩)
    | .rat n d, m, hm => by
      unfold diffC
      exact memoize_spec hm (fun m' hm' => ⟨by simp [diffE], hm'⟩)
    | .cplx a b, m, hm => by
      unfold diffC
      exact memoize_spec hm (fun m' hm' => ⟨by simp [diffE], hm'⟩)
    | .dbl a, m, hm => by
      unfold diffC
      exact memoize_spec hm (fun m' hm' => ⟨by simp [diffE], hm'⟩)
    | .cdbl a b, m, hm => by
      unfold diffC
      exact memoize_spec hm (fun m' hm' => ⟨by simp [diffE], hm'⟩)
    | .infty a, m, hm => by
      unfold diffC
      exact memoize_spec hm (fun m' hm' => ⟨by simp [diffE], hm'⟩)
    | .nan, m, hm => by
      unfold diffC
      exact memoize_spec hm (fun m' hm' => ⟨by simp [diffE], hm'⟩)
    | .dummy a b, m, hm => by
      unfold diffC
      exact memoize_spec hm (fun m' hm' => ⟨by simp [diffE], hm'⟩)
    | .const a, m, hm => by
      unfold diffC
      exact memoize_spec hm (fun m' hm' => ⟨by simp [diffE], hm'⟩)
    | .bool a, m, hm => by
      unfold diffC
      exact memoize_spec hm (fun m' hm' => ⟨by simp [diffE], hm'⟩)
  theorem diffCList_spec (x : String) : ∀ (l : List Expr) (m : Memo), MemoOK x m →
      (diffCList x l m).1 = diffList x l ∧ MemoOK x (diffCList x l m).2
    | [], m, hm => by simp [diffCList, diffList, hm]
    | a :: t, m, hm => by
      obtain ⟨h1, h2⟩ := diffC_spec x a m hm
      obtain ⟨h3, h4⟩ := diffCList_spec x t _ h2
      simp only [diffCList, diffList]
      exact ⟨by rw [h1, h3], h4⟩
  theorem diffCTerms_spec (x : String) : ∀ (l : List (Expr × Expr)) (m : Memo), MemoOK x m →
      (diffCTerms x l m).1 = diffTerms x l ∧ MemoOK x (diffCTerms x l m).2
    | [], m, hm => by simp [diffCTerms, diffTerms, hm]
    | (k, c) :: t, m, hm => by
      obtain ⟨h1, h2⟩ := diffC_spec x k m hm
      obtain ⟨h3, h4⟩ := diffCTerms_spec x t _ h2
      simp only [diffCTerms, diffTerms]
      exact ⟨by rw [h1, h3], h4⟩
  theorem diffCFacs_spec (x : String) (c : Expr) : ∀ (pre l : List (Expr × Expr)) (m : Memo), MemoOK x m →
      (diffCFacs x c pre l m).1 = diffFacs x c pre l ∧ MemoOK x (diffCFacs x c pre l m).2
    | pre, [], m, hm => by simp [diffCFacs, diffFacs, hm]
    | pre, (b, e) :: t, m, hm => by
      -- the factor is looked up / recorded under the key `pow(b, e)` (`b` when `e = 1`)
      have hk : diffE x (facKey b e) = powRule b e (diffE x b) (diffE x e) := by
        unfold facKey
        split
        · simp [powRule]
        · simp [diffE]
      have key := memoize_spec (x := x) (key := facKey b e) (m := m)
        (k := fun m =>
              let rb := diffC x b m
              let re := diffC x e rb.2
              (powRule b e rb.1 re.1, re.2)) hm (fun m' hm' => by
          obtain ⟨h1, h2⟩ := diffC_spec x b m' hm'
          obtain ⟨h3, h4⟩ := diffC_spec x e _ h2
          exact ⟨by simp [hk, h1, h3], h4⟩)
      obtain ⟨h1, h2⟩ := key
      obtain ⟨h3, h4⟩ := diffCFacs_spec x c (pre ++ [(b, e)]) t _ h2
      rw [hk] at h1
      unfold diffCFacs
      simp only [diffFacs]
      exact ⟨by rw [h1, h3], h4⟩
end

/-- **Cache independence (model)**: differentiating with the memo table gives literally the same tree. -/
theorem diff_cache (x : String) (e : Expr) : diffCached x e = diffE x e :=
  (diffC_spec x e [] (memoOK_nil x)).1

end Diff
end SymVerif
