/-
Lemmas for the C09 certificate checker (Model/C09Check.lean):
  eqb_eq              `Expr.eqb` decides equality
  Expanded            the completeness predicate as an inductive proposition; `expandedB_sound`
  polyB_evalK_some    a polynomial expression has a value under every assignment
-/
import SymVerif.Lemmas.NFSound
import SymVerif.Model.C09Check

namespace SymVerif
namespace C09

open NF

/-! ### `Expr.eqb` decides equality -/

theorem q_beq_eq {a b : Q} (h : (a == b) = true) : a = b := by
  obtain ⟨an, ad⟩ := a
  obtain ⟨bn, bd⟩ := b
  have h' : (an == bn && ad == bd) = true := h
  simp only [Bool.and_eq_true, beq_iff_eq] at h'
  rw [h'.1, h'.2]

mutual
  theorem eqb_eq : ∀ (a b : Expr), Expr.eqb a b = true → a = b
    | .int x, b, h => by
      cases b <;> simp [Expr.eqb] at h
      rw [h]
    | .rat x y, b, h => by
      cases b <;> simp [Expr.eqb] at h
      rw [h.1, h.2]
    | .cplx x y, b, h => by
      cases b <;> simp only [Expr.eqb, Bool.and_eq_true, reduceCtorEq] at h
      rw [q_beq_eq h.1, q_beq_eq h.2]
    | .dbl x, b, h => by
      cases b <;> simp [Expr.eqb] at h
      rw [h]
    | .cdbl x y, b, h => by
      cases b <;> simp [Expr.eqb] at h
      rw [h.1, h.2]
    | .infty x, b, h => by
      cases b <;> simp [Expr.eqb] at h
      rw [h]
    | .nan, b, h => by
      cases b <;> simp [Expr.eqb] at h
      rfl
    | .sym x, b, h => by
      cases b <;> simp [Expr.eqb] at h
      rw [h]
    | .dummy x y, b, h => by
      cases b <;> simp [Expr.eqb] at h
      rw [h.1, h.2]
    | .const x, b, h => by
      cases b <;> simp [Expr.eqb] at h
      rw [h]
    | .add c ts, b, h => by
      cases b <;> simp only [Expr.eqb, Bool.and_eq_true, reduceCtorEq] at h
      rw [eqb_eq c _ h.1, eqbPairs_eq ts _ h.2]
    | .mul c ts, b, h => by
      cases b <;> simp only [Expr.eqb, Bool.and_eq_true, reduceCtorEq] at h
      rw [eqb_eq c _ h.1, eqbPairs_eq ts _ h.2]
    | .pow x y, b, h => by
      cases b <;> simp only [Expr.eqb, Bool.and_eq_true, reduceCtorEq] at h
      rw [eqb_eq x _ h.1, eqb_eq y _ h.2]
    | .fsym n l, b, h => by
      cases b <;> simp only [Expr.eqb, Bool.and_eq_true, beq_iff_eq, reduceCtorEq] at h
      rw [h.1, eqbList_eq l _ h.2]
    | .app n l, b, h => by
      cases b <;> simp only [Expr.eqb, Bool.and_eq_true, beq_iff_eq, reduceCtorEq] at h
      rw [h.1, eqbList_eq l _ h.2]
    | .bool x, b, h => by
      cases b <;> simp [Expr.eqb] at h
      rw [h]
  theorem eqbList_eq : ∀ (l m : List Expr), Expr.eqbList l m = true → l = m
    | [], m, h => by
      cases m <;> simp [Expr.eqbList] at h
      rfl
    | a :: t, m, h => by
      cases m <;> simp only [Expr.eqbList, Bool.and_eq_true, reduceCtorEq] at h
      rw [eqb_eq a _ h.1, eqbList_eq t _ h.2]
  theorem eqbPairs_eq : ∀ (l m : List (Expr × Expr)), Expr.eqbPairs l m = true → l = m
    | [], m, h => by
      cases m <;> simp [Expr.eqbPairs] at h
      rfl
    | (a, b) :: t, m, h => by
      cases m with
      | nil => simp [Expr.eqbPairs] at h
      | cons p u =>
        obtain ⟨c, d⟩ := p
        simp only [Expr.eqbPairs, Bool.and_eq_true] at h
        rw [eqb_eq a _ h.1.1, eqb_eq b _ h.1.2, eqbPairs_eq t _ h.2]
end

theorem q_beq_refl (a : Q) : (a == a) = true := by
  obtain ⟨an, ad⟩ := a
  show (an == an && ad == ad) = true
  simp

mutual
  theorem eqb_refl : ∀ (a : Expr), Expr.eqb a a = true
    | .int _ => by simp [Expr.eqb]
    | .rat _ _ => by simp [Expr.eqb]
    | .cplx x y => by simp [Expr.eqb, q_beq_refl]
    | .dbl _ => by simp [Expr.eqb]
    | .cdbl _ _ => by simp [Expr.eqb]
    | .infty _ => by simp [Expr.eqb]
    | .nan => by simp [Expr.eqb]
    | .sym _ => by simp [Expr.eqb]
    | .dummy _ _ => by simp [Expr.eqb]
    | .const _ => by simp [Expr.eqb]
    | .add c ts => by simp [Expr.eqb, eqb_refl c, eqbPairs_refl ts]
    | .mul c ts => by simp [Expr.eqb, eqb_refl c, eqbPairs_refl ts]
    | .pow x y => by simp [Expr.eqb, eqb_refl x, eqb_refl y]
    | .fsym _ l => by simp [Expr.eqb, eqbList_refl l]
    | .app _ l => by simp [Expr.eqb, eqbList_refl l]
    | .bool _ => by simp [Expr.eqb]
  theorem eqbList_refl : ∀ (l : List Expr), Expr.eqbList l l = true
    | [] => by simp [Expr.eqbList]
    | a :: t => by simp [Expr.eqbList, eqb_refl a, eqbList_refl t]
  theorem eqbPairs_refl : ∀ (l : List (Expr × Expr)), Expr.eqbPairs l l = true
    | [] => by simp [Expr.eqbPairs]
    | (a, b) :: t => by simp [Expr.eqbPairs, eqb_refl a, eqb_refl b, eqbPairs_refl t]
end

theorem eqb_iff {a b : Expr} : Expr.eqb a b = true ↔ a = b :=
  ⟨eqb_eq a b, fun h => h ▸ eqb_refl a⟩

/-! ### completeness as a proposition -/

/-- `R` contains, outside function arguments and exponents, no sum as a key of a sum, no factor
`(sum)^(positive integer)` in a product and no power `(sum)^(positive integer)`. -/
inductive Expanded : Expr → Prop
  | add (c : Expr) (ts : List (Expr × Expr))
      (h1 : ∀ k v, (k, v) ∈ ts → isAdd k = false)
      (h2 : ∀ k v, (k, v) ∈ ts → Expanded k) : Expanded (.add c ts)
  | mul (c : Expr) (fs : List (Expr × Expr))
      (h1 : ∀ b x, (b, x) ∈ fs → ¬(isAdd b = true ∧ posInt x = true))
      (h2 : ∀ b x, (b, x) ∈ fs → Expanded b) : Expanded (.mul c fs)
  | pow (b x : Expr) (h1 : ¬(isAdd b = true ∧ posInt x = true)) (h2 : Expanded b) : Expanded (.pow b x)
  | leaf (e : Expr) (h : ∀ c ts, e ≠ .add c ts) (h' : ∀ c fs, e ≠ .mul c fs) (h'' : ∀ b x, e ≠ .pow b x) :
      Expanded e

mutual
  theorem expandedB_sound : ∀ (e : Expr), expandedB e = true → Expanded e
    | .add c ts, h => by
      simp only [expandedB] at h
      exact .add c ts (fun k v hm => (expandedTerms_sound ts h k v hm).1)
        (fun k v hm => (expandedTerms_sound ts h k v hm).2)
    | .mul c fs, h => by
      simp only [expandedB] at h
      exact .mul c fs (fun b x hm => (expandedFacs_sound fs h b x hm).1)
        (fun b x hm => (expandedFacs_sound fs h b x hm).2)
    | .pow b x, h => by
      simp only [expandedB, Bool.and_eq_true, Bool.not_eq_true'] at h
      refine .pow b x ?_ (expandedB_sound b h.2)
      intro hh
      have := h.1
      simp [hh.1, hh.2] at this
    | .int _, _ => .leaf _ (by simp) (by simp) (by simp)
    | .rat _ _, _ => .leaf _ (by simp) (by simp) (by simp)
    | .cplx _ _, _ => .leaf _ (by simp) (by simp) (by simp)
    | .dbl _, _ => .leaf _ (by simp) (by simp) (by simp)
    | .cdbl _ _, _ => .leaf _ (by simp) (by simp) (by simp)
    | .infty _, _ => .leaf _ (by simp) (by simp) (by simp)
    | .nan, _ => .leaf _ (by simp) (by simp) (by simp)
    | .sym _, _ => .leaf _ (by simp) (by simp) (by simp)
    | .dummy _ _, _ => .leaf _ (by simp) (by simp) (by simp)
    | .const _, _ => .leaf _ (by simp) (by simp) (by simp)
    | .fsym _ _, _ => .leaf _ (by simp) (by simp) (by simp)
    | .app _ _, _ => .leaf _ (by simp) (by simp) (by simp)
    | .bool _, _ => .leaf _ (by simp) (by simp) (by simp)
  theorem expandedTerms_sound : ∀ (ts : List (Expr × Expr)), expandedTerms ts = true →
      ∀ k v, (k, v) ∈ ts → isAdd k = false ∧ Expanded k
    | [], _, k, v, hm => by simp at hm
    | (k0, v0) :: t, h, k, v, hm => by
      simp only [expandedTerms, Bool.and_eq_true, Bool.not_eq_true'] at h
      simp only [List.mem_cons, Prod.mk.injEq] at hm
      rcases hm with ⟨rfl, rfl⟩ | hm
      · exact ⟨h.1.1, expandedB_sound k h.1.2⟩
      · exact expandedTerms_sound t h.2 k v hm
  theorem expandedFacs_sound : ∀ (fs : List (Expr × Expr)), expandedFacs fs = true →
      ∀ b x, (b, x) ∈ fs → ¬(isAdd b = true ∧ posInt x = true) ∧ Expanded b
    | [], _, b, x, hm => by simp at hm
    | (b0, x0) :: t, h, b, x, hm => by
      simp only [expandedFacs, Bool.and_eq_true, Bool.not_eq_true'] at h
      simp only [List.mem_cons, Prod.mk.injEq] at hm
      rcases hm with ⟨rfl, rfl⟩ | hm
      · refine ⟨?_, expandedB_sound b h.1.2⟩
        intro hh
        have := h.1.1
        simp [hh.1, hh.2] at this
      · exact expandedFacs_sound t h.2 b x hm
end

/-! ### polynomial expressions always have a value -/

section
variable {K : Type*} [Field K] (I : K) (ρ : String → K)

theorem isNumLit_evalK {c : Expr} (h : isNumLit c = true) : ∃ v, evalK I ρ c = some v := by
  cases c <;> simp [isNumLit] at h
  · simp [evalK]
  · simp [evalK, h]
  · simp [evalK, h.1, h.2]

theorem natExp_spec {x : Expr} (h : natExp x = true) : ∃ n : Int, x = .int n ∧ 0 ≤ n := by
  cases x <;> simp [natExp] at h
  exact ⟨_, rfl, h.1⟩

mutual
  theorem polyB_evalK_some : ∀ (e : Expr), polyB e = true → ∃ v, evalK I ρ e = some v
    | .int n, _ => by simp [evalK]
    | .rat n d, h => by
      simp [polyB] at h
      simp [evalK, h]
    | .cplx re im, h => by
      simp [polyB] at h
      simp [evalK, h.1, h.2]
    | .sym n, _ => by simp [evalK]
    | .add c ts, h => by
      simp only [polyB, Bool.and_eq_true] at h
      obtain ⟨a, ha⟩ := isNumLit_evalK I ρ h.1
      obtain ⟨b, hb⟩ := polyTerms_evalK_some ts h.2
      exact ⟨a + b, by simp [evalK, ha, hb, add2]⟩
    | .mul c fs, h => by
      simp only [polyB, Bool.and_eq_true] at h
      obtain ⟨a, ha⟩ := isNumLit_evalK I ρ h.1
      obtain ⟨b, hb⟩ := polyFacs_evalK_some fs h.2
      exact ⟨a * b, by simp [evalK, ha, hb, mul2]⟩
    | .pow b x, h => by
      simp only [polyB, Bool.and_eq_true] at h
      obtain ⟨n, rfl, hn⟩ := natExp_spec h.1
      obtain ⟨v, hv⟩ := polyB_evalK_some b h.2
      have : ¬ (n < 0 ∧ v = 0) := fun hh => absurd hh.1 (by omega)
      exact ⟨v ^ n, by simp [evalK, intLit?, hv, powVal, this]⟩
    | .dbl _, h => by simp [polyB] at h
    | .cdbl _ _, h => by simp [polyB] at h
    | .infty _, h => by simp [polyB] at h
    | .nan, h => by simp [polyB] at h
    | .dummy _ _, _ => by simp [evalK]
    | .const _, _ => by simp [evalK]
    | .fsym _ _, _ => by simp [evalK]
    | .app _ _, _ => by simp [evalK]
    | .bool _, h => by simp [polyB] at h
  theorem polyTerms_evalK_some : ∀ (ts : List (Expr × Expr)), polyTerms ts = true →
      ∃ v, evalTerms I ρ ts = some v
    | [], _ => ⟨0, by simp [evalTerms]⟩
    | (k, c) :: t, h => by
      simp only [polyTerms, Bool.and_eq_true] at h
      obtain ⟨a, ha⟩ := polyB_evalK_some k h.1.1
      obtain ⟨b, hb⟩ := isNumLit_evalK I ρ h.1.2
      obtain ⟨r, hr⟩ := polyTerms_evalK_some t h.2
      exact ⟨a * b + r, by simp [evalTerms, ha, hb, hr, add2, mul2]⟩
  theorem polyFacs_evalK_some : ∀ (fs : List (Expr × Expr)), polyFacs fs = true →
      ∃ v, evalFacs I ρ fs = some v
    | [], _ => ⟨1, by simp [evalFacs]⟩
    | (b, x) :: t, h => by
      simp only [polyFacs, Bool.and_eq_true] at h
      obtain ⟨n, rfl, hn⟩ := natExp_spec h.1.2
      obtain ⟨v, hv⟩ := polyB_evalK_some b h.1.1
      obtain ⟨r, hr⟩ := polyFacs_evalK_some t h.2
      have : ¬ (n < 0 ∧ v = 0) := fun hh => absurd hh.1 (by omega)
      exact ⟨v ^ n * r, by simp [evalFacs, intLit?, hv, hr, powVal, this, mul2]⟩
end

end

end C09
end SymVerif
