import SymVerif.Model.Dense
/-! Basic facts about the checked array accesses and the loop combinators of `Model/Dense.lean`. -/
namespace SymVerif.Dense

theorem rd_ok {m : Array X} {k : Nat} (h : k < m.size) : rd m k = .ok m[k] := by
  simp [rd, h, pure, Except.pure]

theorem rd_getD {m : Array X} {k : Nat} (h : k < m.size) : rd m k = .ok (m.getD k X.unk) := by
  simp [rd, h, pure, Except.pure, Array.getD]

theorem wr_ok {m : Array X} {k : Nat} (v : X) (h : k < m.size) : wr m k v = .ok (m.set k v h) := by
  simp [wr, h, pure, Except.pure]

theorem getD_set {m : Array X} {k : Nat} (v : X) (h : k < m.size) (t : Nat) :
    (m.set k v h).getD t X.unk = if t = k then v else m.getD t X.unk := by
  by_cases htk : t = k
  · subst htk; simp [Array.getD, h]
  · simp only [Array.getD, Array.size_set, htk, if_false]
    by_cases ht : t < m.size
    · simp [ht, Ne.symm htk]
    · simp [ht]

theorem req_true {b : Bool} (h : b = true) : req b = .ok () := by simp [req, h, pure, Except.pure]

/-- row-major indexing is injective on in-range column indices -/
theorem idx_inj {col i j i' j' : Nat} (hj : j < col) (hj' : j' < col) (h : i * col + j = i' * col + j') :
    i = i' ∧ j = j' := by
  have hc : 0 < col := by omega
  have h1 : (i * col + j) / col = i := by
    rw [Nat.mul_comm, Nat.mul_add_div hc, Nat.div_eq_of_lt hj]; simp
  have h2 : (i' * col + j') / col = i' := by
    rw [Nat.mul_comm, Nat.mul_add_div hc, Nat.div_eq_of_lt hj']; simp
  have : i = i' := by rw [← h1, ← h2, h]
  subst this
  exact ⟨rfl, by omega⟩

theorem idx_lt {row col i j : Nat} (hi : i < row) (hj : j < col) : i * col + j < row * col := by
  have : (i + 1) * col ≤ row * col := Nat.mul_le_mul_right col hi
  have h2 : (i + 1) * col = i * col + col := by rw [Nat.add_mul]; simp
  omega

/-- invariant rule for `forN` (total correctness) -/
theorem forN_spec {σ : Type} (body : Nat → σ → M σ) (P : Nat → σ → Prop) :
    ∀ (n i : Nat) (s : σ), P i s →
      (∀ k s, i ≤ k → k < i + n → P k s → ∃ s', body k s = .ok s' ∧ P (k + 1) s') →
      ∃ s', forN n i body s = .ok s' ∧ P (i + n) s' := by
  intro n
  induction n with
  | zero => intro i s h _; exact ⟨s, rfl, h⟩
  | succ n ih =>
    intro i s h hstep
    obtain ⟨s1, hb, hp⟩ := hstep i s (Nat.le_refl _) (by omega) h
    obtain ⟨s2, hf, hp2⟩ := ih (i + 1) s1 hp (fun k s hk hk2 hP => hstep k s (by omega) (by omega) hP)
    refine ⟨s2, ?_, ?_⟩
    · simp [forN, hb, bind, Except.bind, hf]
    · have : i + (n + 1) = i + 1 + n := by omega
      rw [this]; exact hp2

/-- invariant rule for `forN` (partial correctness) -/
theorem forN_inv {σ : Type} (body : Nat → σ → M σ) (P : Nat → σ → Prop) :
    ∀ (n i : Nat) (s s' : σ), P i s →
      (∀ k s s', i ≤ k → k < i + n → P k s → body k s = .ok s' → P (k + 1) s') →
      forN n i body s = .ok s' → P (i + n) s' := by
  intro n
  induction n with
  | zero => intro i s s' h _ hf; simp [forN, pure, Except.pure] at hf; subst hf; exact h
  | succ n ih =>
    intro i s s' h hstep hf
    simp only [forN, bind, Except.bind] at hf
    cases hb : body i s with
    | error e => simp [hb] at hf
    | ok s1 =>
      simp [hb] at hf
      have hp := hstep i s s1 (Nat.le_refl _) (by omega) h hb
      have := ih (i + 1) s1 s' hp (fun k s s' hk hk2 hP hb => hstep k s s' (by omega) (by omega) hP hb) hf
      have e : i + (n + 1) = i + 1 + n := by omega
      rw [e]; exact this

/-- invariant rule for `forDown` -/
theorem forDown_spec {σ : Type} (body : Nat → σ → M σ) (P : Nat → σ → Prop) (lo : Nat) :
    ∀ (n : Nat) (s : σ), P (lo + n) s →
      (∀ k s, lo ≤ k → k < lo + n → P (k + 1) s → ∃ s', body k s = .ok s' ∧ P k s') →
      ∃ s', forDown n lo body s = .ok s' ∧ P lo s' := by
  intro n
  induction n with
  | zero => intro s h _; exact ⟨s, rfl, h⟩
  | succ n ih =>
    intro s h hstep
    obtain ⟨s1, hb, hp⟩ := hstep (lo + n) s (by omega) (by omega) (by simpa [Nat.add_assoc] using h)
    obtain ⟨s2, hf, hp2⟩ := ih s1 hp (fun k s hk hk2 hP => hstep k s hk (by omega) hP)
    exact ⟨s2, by simp [forDown, hb, bind, Except.bind, hf], hp2⟩

/-- A doubly nested loop that assigns `v i j` to cell `f i j` (the value does not depend on the
    output storage): every cell `f i j` ends up with `v i j`, all other cells keep their content,
    and no access is out of bounds. -/
theorem fill2 (row col : Nat) (f : Nat → Nat → Nat) (v : Nat → Nat → X)
    (body : Nat → Nat → Array X → M (Array X)) (c0 : Array X)
    (hb : ∀ i, i < row → ∀ j, j < col → ∀ c, body i j c = wr c (f i j) (v i j))
    (hf : ∀ i, i < row → ∀ j, j < col → f i j < c0.size)
    (hinj : ∀ i, i < row → ∀ j, j < col → ∀ i', i' < row → ∀ j', j' < col →
      f i j = f i' j' → i = i' ∧ j = j') :
    ∃ c, forN row 0 (fun i c => forN col 0 (fun j c => body i j c) c) c0 = .ok c ∧ c.size = c0.size ∧
      (∀ i, i < row → ∀ j, j < col → c.getD (f i j) X.unk = v i j) ∧
      (∀ t, (∀ i, i < row → ∀ j, j < col → f i j ≠ t) → c.getD t X.unk = c0.getD t X.unk) := by
  -- outer invariant: rows < i are filled, everything else untouched
  let P : Nat → Array X → Prop := fun i c => c.size = c0.size ∧
      (∀ i', i' < i → ∀ j, j < col → c.getD (f i' j) X.unk = v i' j) ∧
      (∀ t, (∀ i', i' < i → ∀ j, j < col → f i' j ≠ t) → c.getD t X.unk = c0.getD t X.unk)
  have h := forN_spec (fun i c => forN col 0 (fun j c => body i j c) c) P row 0 c0
    ⟨rfl, fun _ h => absurd h (Nat.not_lt_zero _), fun _ _ => rfl⟩ ?_
  · obtain ⟨c, hc, hs, h1, h2⟩ := h
    simp only [Nat.zero_add] at h1 h2
    exact ⟨c, hc, hs, h1, h2⟩
  · intro i c _ hi hP
    simp only [Nat.zero_add] at hi
    obtain ⟨hs, h1, h2⟩ := hP
    -- inner invariant: additionally columns < j of row i are filled
    let Q : Nat → Array X → Prop := fun j c => c.size = c0.size ∧
        (∀ i', i' < i → ∀ j', j' < col → c.getD (f i' j') X.unk = v i' j') ∧
        (∀ j', j' < j → c.getD (f i j') X.unk = v i j') ∧
        (∀ t, (∀ i', i' < i → ∀ j', j' < col → f i' j' ≠ t) → (∀ j', j' < j → f i j' ≠ t) →
          c.getD t X.unk = c0.getD t X.unk)
    have hin := forN_spec (fun j c => body i j c) Q col 0 c
      ⟨hs, h1, fun _ h => absurd h (Nat.not_lt_zero _), fun t ht _ => h2 t ht⟩ ?_
    · obtain ⟨c', hc', hs', q1, q2, q3⟩ := hin
      simp only [Nat.zero_add] at q2 q3
      refine ⟨c', hc', hs', ?_, ?_⟩
      · intro i' hi' j hj
        by_cases e : i' = i
        · subst e; exact q2 j hj
        · exact q1 i' (by omega) j hj
      · intro t ht
        exact q3 t (fun i' hi' j' hj' => ht i' (by omega) j' hj') (fun j' hj' => ht i (by omega) j' hj')
    · intro j c _ hj hQ
      simp only [Nat.zero_add] at hj
      obtain ⟨qs, q1, q2, q3⟩ := hQ
      have hlt : f i j < c.size := by rw [qs]; exact hf i hi j hj
      refine ⟨c.set (f i j) (v i j) hlt, by rw [hb i hi j hj, wr_ok _ hlt], by simp [qs], ?_, ?_, ?_⟩
      · intro i' hi' j' hj'
        rw [getD_set]
        have : f i' j' ≠ f i j := fun e => by
          have := (hinj i' (by omega) j' hj' i hi j hj e).1; omega
        simp [this, q1 i' hi' j' hj']
      · intro j' hj'
        rw [getD_set]
        by_cases e : j' = j
        · subst e; simp
        · have : f i j' ≠ f i j := fun e2 => e (hinj i hi j' (by omega) i hi j hj e2).2
          simp [this, q2 j' (by omega)]
      · intro t ht1 ht2
        rw [getD_set]
        have : t ≠ f i j := fun e => ht2 j (by omega) e.symm
        rw [if_neg this]
        exact q3 t ht1 (fun j' hj' => ht2 j' (by omega))

end SymVerif.Dense
