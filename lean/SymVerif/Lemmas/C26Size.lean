import SymVerif.Lemmas.C26Sem
/-!
Soundness of `size`: every known component is the concrete dimension of the value.
-/
namespace SymVerif.MatExpr
open MExpr

def SizeOK (env : Env) (e : MExpr) : Prop :=
  (∀ a, (size e).1 = some a → a.eval env = (valOf env e).r) ∧
  (∀ b, (size e).2 = some b → b.eval env = (valOf env e).c)

theorem sizeList_eq_map (l : List MExpr) : sizeList l = l.map size := by
  induction l with
  | nil => simp [sizeList]
  | cons e t ih => simp [sizeList, ih]

theorem allSameLoop_spec (l : List Size) (r c : Option Dim) :
    ((allSameLoop l r c).1 = r ∨ ∃ s ∈ l, s.1 = (allSameLoop l r c).1) ∧
    ((allSameLoop l r c).2 = c ∨ ∃ s ∈ l, s.2 = (allSameLoop l r c).2) := by
  induction l generalizing r c with
  | nil => simp [allSameLoop]
  | cons s t ih =>
    obtain ⟨nr, nc⟩ := s
    simp only [allSameLoop]
    generalize hr' : (if optIsInt nr || (r.isNone && nr.isSome) then nr else r) = r'
    generalize hc' : (if optIsInt nc || (c.isNone && nc.isSome) then nc else c) = c'
    have hr : r' = r ∨ r' = nr := by rw [← hr']; split <;> simp
    have hc : c' = c ∨ c' = nc := by rw [← hc']; split <;> simp
    by_cases hb : (optIsInt r' && optIsInt c') = true
    · rw [if_pos hb]
      constructor
      · rcases hr with h | h
        · left; exact h
        · right; exact ⟨(nr, nc), by simp, h.symm⟩
      · rcases hc with h | h
        · left; exact h
        · right; exact ⟨(nr, nc), by simp, h.symm⟩
    · rw [if_neg hb]
      have := ih r' c'
      constructor
      · rcases this.1 with h | ⟨s, hs, h⟩
        · rcases hr with h' | h'
          · left; rw [h, h']
          · right; exact ⟨(nr, nc), by simp, by rw [h, h']⟩
        · right; exact ⟨s, by simp [hs], h⟩
      · rcases this.2 with h | ⟨s, hs, h⟩
        · rcases hc with h' | h'
          · left; rw [h, h']
          · right; exact ⟨(nr, nc), by simp, by rw [h, h']⟩
        · right; exact ⟨s, by simp [hs], h⟩

theorem allSameSize_spec (l : List Size) :
    ((allSameSize l).1 = none ∨ ∃ s ∈ l, s.1 = (allSameSize l).1) ∧
    ((allSameSize l).2 = none ∨ ∃ s ∈ l, s.2 = (allSameSize l).2) := by
  cases l with
  | nil => simp [allSameSize]
  | cons s t =>
    obtain ⟨r, c⟩ := s
    simp only [allSameSize]
    split
    · exact ⟨Or.inr ⟨(r, c), by simp, rfl⟩, Or.inr ⟨(r, c), by simp, rfl⟩⟩
    · have := allSameLoop_spec t r c
      constructor
      · rcases this.1 with h | ⟨s, hs, h⟩
        · right; exact ⟨(r, c), by simp, h.symm⟩
        · right; exact ⟨s, by simp [hs], h⟩
      · rcases this.2 with h | ⟨s, hs, h⟩
        · right; exact ⟨(r, c), by simp, h.symm⟩
        · right; exact ⟨s, by simp [hs], h⟩

theorem prodV_r (v : Val) (l : List Val) : (prodV (v :: l)).r = v.r := by
  cases l <;> simp [prodV, mulV]

theorem prodV_c (l : List Val) (hne : l ≠ []) : (prodV l).c = (l.getLast hne).c := by
  induction l with
  | nil => exact absurd rfl hne
  | cons v t ih =>
    cases t with
    | nil => simp [prodV]
    | cons w rest =>
      simp only [prodV, mulV]
      rw [ih (by simp)]
      simp

theorem sumV_dims' {vs : List Val} (hne : vs ≠ []) (hd : SameDims vs) :
    ∀ w ∈ vs, (sumV vs).r = w.r ∧ (sumV vs).c = w.c := by
  cases vs with
  | nil => exact absurd rfl hne
  | cons v t => intro w hw; exact hd v (by simp) w hw

theorem hadV_dims' {vs : List Val} (hne : vs ≠ []) (hd : SameDims vs) :
    ∀ w ∈ vs, (hadV vs).r = w.r ∧ (hadV vs).c = w.c := by
  cases vs with
  | nil => exact absurd rfl hne
  | cons v t => intro w hw; exact hd v (by simp) w hw

theorem sizeOK_same (env : Env) (l : List MExpr) (V : Val)
    (hV : ∀ t ∈ l, V.r = (valOf env t).r ∧ V.c = (valOf env t).c)
    (hS : ∀ t ∈ l, SizeOK env t) :
    (∀ a, (allSameSize (sizeList l)).1 = some a → a.eval env = V.r) ∧
    (∀ b, (allSameSize (sizeList l)).2 = some b → b.eval env = V.c) := by
  have hsp := allSameSize_spec (sizeList l)
  rw [sizeList_eq_map] at hsp ⊢
  constructor
  · intro a ha
    rcases hsp.1 with h | ⟨s, hs, h⟩
    · rw [h] at ha; simp at ha
    · obtain ⟨t, ht, rfl⟩ := List.mem_map.1 hs
      rw [(hV t ht).1]
      exact (hS t ht).1 a (h.trans ha)
  · intro a ha
    rcases hsp.2 with h | ⟨s, hs, h⟩
    · rw [h] at ha; simp at ha
    · obtain ⟨t, ht, rfl⟩ := List.mem_map.1 hs
      rw [(hV t ht).2]
      exact (hS t ht).2 a (h.trans ha)

mutual
  theorem size_sound_aux (env : Env) : ∀ e, okOf env e → SizeOK env e
    | ident n, _ => ⟨by simp [size, valOf], by simp [size, valOf]⟩
    | zero r c, _ => ⟨by simp [size, valOf], by simp [size, valOf]⟩
    | diag d, _ => ⟨by simp [size, valOf, Dim.eval], by simp [size, valOf, Dim.eval]⟩
    | dense r c v, _ => ⟨by simp [size, valOf, Dim.eval], by simp [size, valOf, Dim.eval]⟩
    | sym _, _ => ⟨by simp [size], by simp [size]⟩
    | transpose _, _ => ⟨by simp [size], by simp [size]⟩
    | conj _, _ => ⟨by simp [size], by simp [size]⟩
    | add ts, h => by
      have hS := size_sound_list env ts h.2.1
      have hvne : valsOf env ts ≠ [] := by rw [valsOf_eq_map]; simpa using h.1
      have hd := sumV_dims' hvne h.2.2
      simp only [SizeOK, size, valOf]
      exact sizeOK_same env ts _ (fun t ht => hd _ (by rw [valsOf_eq_map]; exact List.mem_map_of_mem ht)) hS
    | had fs, h => by
      have hS := size_sound_list env fs h.2.1
      have hvne : valsOf env fs ≠ [] := by rw [valsOf_eq_map]; simpa using h.1
      have hd := hadV_dims' hvne h.2.2
      simp only [SizeOK, size, valOf]
      exact sizeOK_same env fs _ (fun t ht => hd _ (by rw [valsOf_eq_map]; exact List.mem_map_of_mem ht)) hS
    | mul s fs, h => by
      have hS := size_sound_list env fs h.2.1
      simp only [SizeOK, size, valOf, smulV]
      rw [sizeList_eq_map, valsOf_eq_map]
      cases fs with
      | nil => exact absurd rfl h.1
      | cons f rest =>
        constructor
        · intro a ha
          simp only [List.map_cons, List.head?_cons, Option.bind_some] at ha
          rw [List.map_cons, prodV_r]
          exact (hS f (by simp)).1 a ha
        · intro b hb
          rw [prodV_c _ (by simp)]
          rw [List.getLast?_eq_some_getLast (by simp)] at hb
          simp only [Option.bind_some] at hb
          rw [List.getLast_map (by simp)] at hb ⊢
          exact (hS _ (List.getLast_mem _)).2 b hb
  theorem size_sound_list (env : Env) : ∀ l, okAll env l → ∀ e ∈ l, SizeOK env e
    | [], _ => by simp
    | a :: t, h => by
      intro e he
      rcases List.mem_cons.1 he with he | he
      · rw [he]; exact size_sound_aux env a h.1
      · exact size_sound_list env t h.2 e he
end

end SymVerif.MatExpr
