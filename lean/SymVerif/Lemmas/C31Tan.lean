/-
C31 helper lemmas, part 8: series_tan and series_tanh — Newton iterations on `atan` / `atanh`
(`y ← y + (s - atan y)(1 + y²)`), and series_asin / series_asinh (integrals over series_nthroot).
-/
import Mathlib.Tactic.LinearCombination
import SymVerif.Lemmas.C31Root

namespace SymVerif.C31
open SymVerif.Series PowerSeries

/-- `∫ S'/(1 + σ S²)`: `σ = 1` is atan, `σ = -1` is atanh -/
noncomputable def fat (σ : ℚ) (S : ℚ⟦X⟧) : ℚ⟦X⟧ := integ (d⁄dX ℚ S * (1 + C σ * (S * S))⁻¹)

theorem fatan_eq_fat (S : ℚ⟦X⟧) : fatan S = fat 1 S := by
  unfold fatan fat; simp
theorem fatanh_eq_fat (S : ℚ⟦X⟧) : fatanh S = fat (-1) S := by
  unfold fatanh fat
  congr 3
  rw [map_neg, map_one]; ring

theorem constantCoeff_fat (σ : ℚ) (S : ℚ⟦X⟧) : constantCoeff (fat σ S) = 0 := constantCoeff_integ _

theorem fat_congr (σ : ℚ) {n : ℕ} {S S' : ℚ⟦X⟧} (h : EqMod n S S') (hS : constantCoeff S = 0)
    (hS' : constantCoeff S' = 0) : EqMod n (fat σ S) (fat σ S') :=
  integ_deriv_mul_congr h (inv_congr ((EqMod.refl _ _).add (EqMod.mul_left _ (h.mul h)))
    (by rw [map_add, map_mul, map_mul, hS]; simp) (by rw [map_add, map_mul, map_mul, hS']; simp))

/-- one exact Newton step on `fat σ`: if `fat σ R ≡ S mod X^k` then `fat σ (R + (S - fat σ R)(1 + σR²)) ≡ S
mod X^(2k)` -/
theorem fat_newton (σ : ℚ) {k : ℕ} (hk : 1 ≤ k) {R S : ℚ⟦X⟧} (hR : constantCoeff R = 0)
    (hS : constantCoeff S = 0) (h : EqMod k (fat σ R) S) :
    EqMod (2 * k) (fat σ (R + (S - fat σ R) * (1 + C σ * (R * R)))) S := by
  set A := 1 + C σ * (R * R) with hA
  set δ := S - fat σ R with hδ
  set Y := R + δ * A with hY
  set B := 1 + C σ * (Y * Y) with hB
  have hAc : constantCoeff A ≠ 0 := by rw [hA, map_add, map_mul, map_mul, hR]; simp
  have hδk : EqMod k δ 0 := by
    have := (h.symm).sub (EqMod.refl k (fat σ R))
    simpa [hδ] using this
  have hδ0 : constantCoeff δ = 0 := by rw [hδ, map_sub, hS, constantCoeff_fat]; simp
  have hYc : constantCoeff Y = 0 := by rw [hY, map_add, map_mul, hR, hδ0]; simp
  have hBc : constantCoeff B ≠ 0 := by rw [hB, map_add, map_mul, map_mul, hYc]; simp
  -- δ'·A = S'·A - R'
  have hδA : d⁄dX ℚ δ * A = d⁄dX ℚ S * A - d⁄dX ℚ R := by
    rw [hδ, map_sub]
    have : d⁄dX ℚ (fat σ R) = d⁄dX ℚ R * A⁻¹ := derivative_integ _
    rw [this, sub_mul, mul_assoc, PowerSeries.inv_mul_cancel A hAc, mul_one]
  have hdA : d⁄dX ℚ A = C σ * (R * d⁄dX ℚ R + R * d⁄dX ℚ R) := by
    rw [hA, map_add, derivative_one, zero_add, Derivation.leibniz, derivative_C, Derivation.leibniz]
    simp only [smul_eq_mul]
    ring
  have hdY : d⁄dX ℚ Y = d⁄dX ℚ R + (d⁄dX ℚ δ * A + δ * d⁄dX ℚ A) := by
    rw [hY, map_add, Derivation.leibniz]
    simp only [smul_eq_mul]
    ring
  -- Y' - S'·B is a combination of δ·δ' and δ·δ
  have key : d⁄dX ℚ Y - d⁄dX ℚ S * B
      = -(δ * d⁄dX ℚ δ) * (2 * C σ * R * A) - (δ * δ) * (C σ * d⁄dX ℚ S * A * A) := by
    rw [hdY, hdA, hB, hY]
    linear_combination (1 + 2 * C σ * δ * R) * hδA
  obtain ⟨n, rfl⟩ : ∃ n, k = n + 1 := ⟨k - 1, by omega⟩
  have hdδ : EqMod n (d⁄dX ℚ δ) 0 := by
    have := hδk.derivative
    simpa using this
  have h1 : EqMod (n + (n + 1)) (δ * d⁄dX ℚ δ) 0 := by
    have := eqMod_mul_zero hdδ hδk
    rwa [mul_comm] at this
  have h2 : EqMod (n + (n + 1)) (δ * δ) 0 := (eqMod_sq_of_eqMod hδk).mono (by omega)
  have hkey : EqMod (n + (n + 1)) (d⁄dX ℚ Y - d⁄dX ℚ S * B) 0 := by
    rw [key]
    have a1 := (h1.neg).mul_right (2 * C σ * R * A)
    have a2 := h2.mul_right (C σ * d⁄dX ℚ S * A * A)
    have := a1.sub a2
    simpa using this
  have hYB : EqMod (n + (n + 1)) (d⁄dX ℚ Y) (d⁄dX ℚ S * B) := by
    intro j hj
    have := hkey j hj
    simpa [sub_eq_zero] using this
  have : 2 * (n + 1) = (n + (n + 1)) + 1 := by ring
  rw [this]
  apply eqMod_of_derivative
  · rw [coeff_zero_eq_constantCoeff_apply, coeff_zero_eq_constantCoeff_apply, constantCoeff_fat, hS]
  · have hd : d⁄dX ℚ (fat σ Y) = d⁄dX ℚ Y * B⁻¹ := derivative_integ _
    rw [hd]
    have := hYB.mul_right B⁻¹
    rwa [mul_assoc, PowerSeries.mul_inv_cancel B hBc, mul_one] at this

/-- the accuracy predicate carried through the Newton loops on `fat σ` -/
def FatInv (σ : ℚ) (S : ℚ⟦X⟧) (k : ℕ) (r : Poly) : Prop :=
  (1 ≤ k → constantCoeff (toPS r) = 0) ∧ EqMod k (fat σ (toPS r)) S

/-- common step lemma: a model iterate congruent to `R + (S - fat σ R)(1 + σR²)` inherits the accuracy -/
theorem fatInv_step (σ : ℚ) {S : ℚ⟦X⟧} (hS : constantCoeff S = 0) {k step : ℕ} (hk : 1 ≤ k)
    (hst : step ≤ 2 * k) {r r' : Poly} (h : FatInv σ S k r)
    (hr' : EqMod step (toPS r') (toPS r + (S - fat σ (toPS r)) * (1 + C σ * (toPS r * toPS r)))) :
    FatInv σ S step r' := by
  have hR := h.1 hk
  set R := toPS r
  set Y := R + (S - fat σ R) * (1 + C σ * (R * R))
  have hYc : constantCoeff Y = 0 := by
    show constantCoeff (R + (S - fat σ R) * (1 + C σ * (R * R))) = 0
    rw [map_add, map_mul, map_sub, hR, hS, constantCoeff_fat]; simp
  have hc : 1 ≤ step → constantCoeff (toPS r') = 0 := fun h1 => by
    rw [constantCoeff_eq_of_eqMod h1 hr', hYc]
  refine ⟨hc, ?_⟩
  by_cases h0 : step = 0
  · subst h0; exact eqMod_zero _ _
  have h1 : 1 ≤ step := by omega
  exact (fat_congr σ hr' (hc h1) hYc).trans ((fat_newton σ hk hR hS h.2).mono hst)

/-- **series_tan**: `atan(g) ≡ s` modulo `X^prec`, `g(0) = 0` -/
theorem tan_spec (s g : Poly) (prec : ℕ) (hp : 1 ≤ prec) (h : seriesTan s prec = .ok g) :
    constantCoeff (toPS s) = 0 ∧ constantCoeff (toPS g) = 0 ∧ EqMod prec (fatan (toPS g)) (toPS s) := by
  unfold seriesTan at h
  split at h
  · cases h
  · next hc =>
    have hc0 : Series.coeff s 0 = 0 := by simpa using hc
    have hS : constantCoeff (toPS s) = 0 := by rw [constantCoeff_toPS, hc0]
    set S := toPS s
    have hinit : FatInv 1 S 1 [] := by
      refine ⟨fun _ => by simp, ?_⟩
      intro k hk
      have : k = 0 := by omega
      subst this
      rw [coeff_zero_eq_constantCoeff_apply, coeff_zero_eq_constantCoeff_apply, constantCoeff_fat, hS]
    have := newton_foldlM (FatInv 1 S) _
      (fun k st a b hk ha hst hb => by
        simp only [bind, Except.bind] at hb
        split at hb
        · cases hb
        · next at_ hat =>
          simp only [pure, Except.pure, Except.ok.injEq] at hb
          subst hb
          apply fatInv_step 1 hS hk hst ha
          rw [toPS_padd]
          apply (EqMod.refl _ _).add
          refine (toPS_mulTrunc _ _ _).trans ?_
          rw [toPS_psub, toPS_padd, toPS_one]
          have hA := (atan_spec a at_ st hat).2
          rw [fatan_eq_fat] at hA
          apply ((EqMod.refl _ _).sub hA).mul
          have := toPS_powPos a 2 st (by omega)
          rw [pow_two] at this
          have h2 := this.add (EqMod.refl st (1 : ℚ⟦X⟧))
          refine h2.trans (EqMod.of_eq ?_)
          simp; ring)
      (stepList prec) 1 [] g (stepList_pos prec hp) le_rfl (chain_stepList prec) hinit h
    rw [lastD_stepList] at this
    exact ⟨hS, this.1 hp, by rw [fatan_eq_fat]; exact this.2⟩

/-- **series_tanh**: `atanh(g) ≡ s` modulo `X^prec`, `g(0) = 0` -/
theorem tanh_spec (s g : Poly) (prec : ℕ) (hp : 1 ≤ prec) (h : seriesTanh s prec = .ok g) :
    constantCoeff (toPS s) = 0 ∧ constantCoeff (toPS g) = 0 ∧ EqMod prec (fatanh (toPS g)) (toPS s) := by
  unfold seriesTanh at h
  split at h
  · cases h
  · next hc =>
    have hc0 : Series.coeff s 0 = 0 := by simpa using hc
    have hS : constantCoeff (toPS s) = 0 := by rw [constantCoeff_toPS, hc0]
    set S := toPS s
    have hinit : FatInv (-1) S 1 s := by
      refine ⟨fun _ => hS, ?_⟩
      intro k hk
      have : k = 0 := by omega
      subst this
      rw [coeff_zero_eq_constantCoeff_apply, coeff_zero_eq_constantCoeff_apply, constantCoeff_fat, hS]
    have := newton_foldlM (FatInv (-1) S) _
      (fun k st a b hk ha hst hb => by
        simp only [bind, Except.bind] at hb
        split at hb
        · cases hb
        · next at_ hat =>
          simp only [pure, Except.pure, Except.ok.injEq] at hb
          subst hb
          apply fatInv_step (-1) hS hk hst ha
          rw [toPS_padd]
          apply (EqMod.refl _ _).add
          refine (toPS_mulTrunc _ _ _).trans ?_
          rw [toPS_pneg, toPS_psub, toPS_psub, toPS_one]
          have hA := (atanh_spec a at_ st hat).2
          rw [fatanh_eq_fat] at hA
          have h1 : EqMod st (-(S - toPS at_)) (-(S - fat (-1) (toPS a))) :=
            ((EqMod.refl _ _).sub hA).neg
          have hp2 := toPS_powPos a 2 st (by omega)
          rw [pow_two] at hp2
          have h2 := hp2.sub (EqMod.refl st (1 : ℚ⟦X⟧))
          refine (h1.mul h2).trans (EqMod.of_eq ?_)
          rw [map_neg, map_one]; ring)
      (stepList prec) 1 s g (stepList_pos prec hp) le_rfl (chain_stepList prec) hinit h
    rw [lastD_stepList] at this
    exact ⟨hS, this.1 hp, by rw [fatanh_eq_fat]; exact this.2⟩

/-! ### series_asin / series_asinh -/

/-- the common part of series_asin and series_asinh: `g = ∫ s'·r` with `r²·t ≡ 1` -/
theorem integ_root_spec (s r : Poly) (n : ℕ) (T : ℚ⟦X⟧) (hr : EqMod n (toPS r ^ 2 * T) 1) :
    constantCoeff (toPS (integrate (mulFull (diff s) r))) = 0 ∧
    EqMod n (d⁄dX ℚ (toPS (integrate (mulFull (diff s) r))) ^ 2 * T) (d⁄dX ℚ (toPS s) ^ 2) := by
  rw [toPS_integrate, toPS_mulFull, toPS_diff]
  refine ⟨constantCoeff_integ _, ?_⟩
  rw [derivative_integ]
  have := EqMod.mul_left (d⁄dX ℚ (toPS s) ^ 2) hr
  refine (EqMod.of_eq ?_).trans (this.trans (EqMod.of_eq (by ring)))
  ring

/-- **series_asin**: `g'²·(1 - s²) ≡ s'²` modulo `X^(prec-1)`, `g(0) = 0` -/
theorem asin_spec (s g : Poly) (prec : ℕ) (h : seriesAsin s prec = .ok g) :
    constantCoeff (toPS g) = 0 ∧
    EqMod (prec - 1) (d⁄dX ℚ (toPS g) ^ 2 * (1 - toPS s ^ 2)) (d⁄dX ℚ (toPS s) ^ 2) := by
  unfold seriesAsin at h
  split at h
  · cases h
  · simp only [bind, Except.bind] at h
    split at h
    · cases h
    · next r hr =>
      split at h
      · simp only [pure, Except.pure, Except.ok.injEq] at h
        subst h
        obtain ⟨_, hneg, _⟩ := nthroot_spec _ r (-2) (prec - 1) (by decide) hr
        have h2 := hneg (by decide)
        have hT : EqMod (prec - 1) (toPS (psub [1] (powPos s 2 (prec - 1)))) (1 - toPS s ^ 2) := by
          rw [toPS_psub, toPS_one]
          exact (EqMod.refl _ _).sub (toPS_powPos s 2 (prec - 1) (by omega))
        have h3 : EqMod (prec - 1) (toPS r ^ 2 * (1 - toPS s ^ 2)) 1 :=
          ((EqMod.mul_left _ hT).symm).trans (by simpa using h2)
        exact integ_root_spec s r (prec - 1) _ h3
      · cases h

/-- **series_asinh**: `g'²·(1 + s²) ≡ s'²` modulo `X^(prec-1)`, `g(0) = 0` -/
theorem asinh_spec (s g : Poly) (prec : ℕ) (h : seriesAsinh s prec = .ok g) :
    constantCoeff (toPS g) = 0 ∧
    EqMod (prec - 1) (d⁄dX ℚ (toPS g) ^ 2 * (1 + toPS s ^ 2)) (d⁄dX ℚ (toPS s) ^ 2) := by
  unfold seriesAsinh at h
  split at h
  · cases h
  · simp only [bind, Except.bind] at h
    split at h
    · cases h
    · next p hp =>
      split at h
      · cases h
      · next ip hip =>
        split at h
        · simp only [pure, Except.pure, Except.ok.injEq] at h
          subst h
          obtain ⟨hpos, _, _⟩ := nthroot_spec _ p 2 (prec - 1) (by decide) hp
          have h2 := hpos (by decide)
          have hT : EqMod (prec - 1) (toPS (padd (powPos s 2 (prec - 1)) [1])) (1 + toPS s ^ 2) := by
            rw [toPS_padd, toPS_one, add_comm]
            exact (EqMod.refl _ _).add (toPS_powPos s 2 (prec - 1) (by omega))
          have hi := invert_spec p ip (prec - 1) hip
          -- ip²·p² ≡ 1 and p² ≡ 1 + s²
          have h3 : EqMod (prec - 1) (toPS ip ^ 2 * (1 + toPS s ^ 2)) 1 := by
            have a1 : EqMod (prec - 1) (toPS ip ^ 2 * toPS p ^ 2) 1 := by
              have := hi.pow 2
              rwa [mul_pow, one_pow] at this
            have a2 : EqMod (prec - 1) (toPS p ^ 2) (1 + toPS s ^ 2) := by
              have : Int.natAbs 2 = 2 := rfl
              rw [this] at h2
              exact h2.trans hT
            exact ((EqMod.mul_left _ a2).symm).trans a1
          exact integ_root_spec s ip (prec - 1) _ h3
        · cases h

end SymVerif.C31
