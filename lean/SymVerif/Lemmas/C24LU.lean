import SymVerif.Lemmas.C24Row
/-! The LU recurrences (`luReduce`, `luColumn`, `luDecomp`, `splitLU`) at the level of entries. -/
namespace SymVerif.Dense

theorem forN_succ_last {σ : Type} (body : Nat → σ → M σ) :
    ∀ (n i : Nat) (s : σ), forN (n + 1) i body s = forN n i body s >>= body (i + n) := by
  intro n
  induction n with
  | zero => intro i s; simp [forN, bind, Except.bind, pure, Except.pure]; cases body i s <;> rfl
  | succ n ih =>
    intro i s
    rw [forN]
    conv => rhs; rw [forN]
    cases hb : body i s with
    | error e => rfl
    | ok s1 =>
      simp only [bind_ok]
      rw [ih (i + 1) s1]
      have : i + 1 + n = i + (n + 1) := by omega
      rw [this]

theorem forN_append {σ : Type} (body : Nat → σ → M σ) (a : Nat) :
    ∀ (b i : Nat) (s : σ), forN (a + b) i body s = forN a i body s >>= forN b (i + a) body := by
  intro b
  induction b with
  | zero => intro i s; simp [forN, pure]; cases forN a i body s <;> rfl
  | succ b ih =>
    intro i s
    have e : a + (b + 1) = (a + b) + 1 := by omega
    rw [e, forN_succ_last, ih]
    cases h : forN a i body s with
    | error e => rfl
    | ok s1 =>
      simp only [bind_ok]
      rw [forN_succ_last]
      have : i + (a + b) = i + a + b := by omega
      rw [this]

theorem forN_congr {σ : Type} (body body' : Nat → σ → M σ) :
    ∀ (n i : Nat) (s : σ), (∀ k, i ≤ k → k < i + n → body k = body' k) →
      forN n i body s = forN n i body' s := by
  intro n
  induction n with
  | zero => intro i s _; rfl
  | succ n ih =>
    intro i s h
    rw [forN, forN, h i (Nat.le_refl _) (by omega)]
    cases body' i s with
    | error e => rfl
    | ok s1 => exact ih (i + 1) s1 (fun k hk hk2 => h k (by omega) (by omega))

theorem forN_shift {σ : Type} :
    ∀ (n i : Nat) (body : Nat → σ → M σ) (s : σ), forN n i body s = forN n 0 (fun k => body (i + k)) s := by
  intro n
  induction n with
  | zero => intro i body s; rfl
  | succ n ih =>
    intro i body s
    rw [forN, forN]
    simp only [Nat.add_zero]
    cases body i s with
    | error e => rfl
    | ok s1 =>
      simp only [bind_ok]
      rw [ih (i + 1) body s1, ih 1 (fun k => body (i + k)) s1]
      congr 1
      funext k
      have : i + 1 + k = i + (1 + k) := by omega
      rw [this]

/-- accumulate `g 0, g 1, …, g (n-1)` -/
def accF (g : Nat → X → X) (init : X) : Nat → X
  | 0 => init
  | n + 1 => g n (accF g init n)

theorem accF_congr (g g' : Nat → X → X) (init : X) :
    ∀ n, (∀ k, k < n → g k = g' k) → accF g init n = accF g' init n := by
  intro n
  induction n with
  | zero => intro _; rfl
  | succ n ih => intro h; simp only [accF]; rw [h n (by omega), ih (fun k hk => h k (by omega))]

/-- a loop that keeps updating the single cell `idx`; the other cells it reads never change -/
theorem forN_cell0 (idx : Nat) (g : Nat → X → X) (body : Nat → Array X → M (Array X))
    (m : Array X) (h : idx < m.size) :
    ∀ (n : Nat),
      (∀ k, k < n → ∀ (m' : Array X) (h' : idx < m'.size), m'.size = m.size →
        (∀ t, t ≠ idx → m'.getD t X.unk = m.getD t X.unk) →
        body k m' = .ok (m'.set idx (g k (m'.getD idx X.unk)) h')) →
      forN n 0 body m = .ok (m.set idx (accF g (m.getD idx X.unk) n) h) := by
  intro n
  induction n with
  | zero =>
    intro _
    simp [forN, pure, Except.pure, accF, Array.getD, h]
  | succ n ih =>
    intro hb
    rw [forN_succ_last, ih (fun k hk => hb k (by omega))]
    simp only [bind_ok, Nat.zero_add]
    have hsz : idx < (m.set idx (accF g (m.getD idx X.unk) n) h).size := by simp [h]
    rw [hb n (by omega) _ hsz (by simp) (fun t ht => by rw [getD_set, if_neg ht])]
    simp only [Array.set_set, getD_set, if_true, accF]

/-- entry `(i, j)` of an `n`-column storage -/
def cell (m : Array X) (n i j : Nat) : X := m.getD (i * n + j) X.unk

/-- `init - Σ_{k<lim} row k * colv k`, accumulated left to right as the code does -/
def redF (row colv : Nat → X) (init : X) (lim : Nat) : X :=
  accF (fun k acc => X.sub acc (X.mul (row k) (colv k))) init lim

theorem redF_congr (row row' colv colv' : Nat → X) (init init' : X) (lim : Nat)
    (h1 : ∀ k, k < lim → row k = row' k) (h2 : ∀ k, k < lim → colv k = colv' k) (h3 : init = init') :
    redF row colv init lim = redF row' colv' init' lim := by
  subst h3
  unfold redF
  apply accF_congr
  intro k hk
  funext acc
  rw [h1 k hk, h2 k hk]

theorem luReduce_spec (n j i lim : Nat) (m : Array X) (hs : m.size = n * n) (hi : i < n) (hj : j < n)
    (hlim : ∀ k, k < lim → k < n ∧ k ≠ i ∧ k ≠ j) :
    ∃ h, luReduce n j i lim m =
      .ok (m.set (i * n + j) (redF (fun k => cell m n i k) (fun k => cell m n k j) (cell m n i j) lim) h) := by
  have h : i * n + j < m.size := by rw [hs]; exact idx_lt hi hj
  refine ⟨h, ?_⟩
  unfold luReduce redF
  apply forN_cell0 (i * n + j) _ _ m h lim
  intro k hk m' h' hsz hag
  obtain ⟨hkn, hki, hkj⟩ := hlim k hk
  have h1 : i * n + k < m'.size := by rw [hsz, hs]; exact idx_lt hi hkn
  have h2 : k * n + j < m'.size := by rw [hsz, hs]; exact idx_lt hkn hj
  have e1 : m'.getD (i * n + k) X.unk = cell m n i k :=
    hag _ (fun e => hkj (idx_inj hkn hj e).2)
  have e2 : m'.getD (k * n + j) X.unk = cell m n k j :=
    hag _ (fun e => hki (idx_inj hj hj e).1)
  rw [rd_getD h', rd_getD h1, rd_getD h2]
  simp only [bind_ok, wr_ok _ h', e1, e2]

theorem cell_set (m : Array X) (n i j : Nat) (t : Nat) (v : X) (h : t < m.size) :
    cell (m.set t v h) n i j = if i * n + j = t then v else cell m n i j := by
  unfold cell; rw [getD_set]

/-- the two reduction loops of a column are one loop with bound `min i j` -/
theorem luColumn_eq (n j : Nat) (m : Array X) (hj : j ≤ n) :
    luColumn n j m = (do
      let m ← forN n 0 (fun i m => luReduce n j i (min i j) m) m
      let scale := X.div X.one (← rd m (j * n + j))
      forR (j + 1) n (fun i m => do wr m (i * n + j) (X.mul (← rd m (i * n + j)) scale)) m) := by
  unfold luColumn
  have e : n = j + (n - j) := by omega
  conv => rhs; rw [e, forN_append]
  rw [forN_congr (fun i m => luReduce (j + (n - j)) j i (min i j) m) (fun i m => luReduce (j + (n - j)) j i i m) j 0 m
    (by intro k _ hk; funext m; rw [Nat.min_eq_left (by omega)])]
  simp only [← e]
  cases h1 : forN j 0 (fun i m => luReduce n j i i m) m with
  | error er => rfl
  | ok m1 =>
    simp only [bind_ok, Nat.zero_add, forR]
    rw [forN_congr (fun i m => luReduce n j i (min i j) m) (fun i m => luReduce n j i j m) (n - j) j m1
      (by intro k hk _; funext m; rw [Nat.min_eq_right hk])]

/-- the value column `j` receives: reduction, and division by the pivot below the diagonal -/
def colVal (row : Nat → Nat → X) (colv : Nat → X) (init : Nat → X) (j i : Nat) : X :=
  let r := fun i => redF (row i) colv (init i) (min i j)
  if i ≤ j then r i else X.mul (r i) (X.div X.one (r j))

theorem colVal_congr (row row' : Nat → Nat → X) (colv colv' init init' : Nat → X) (j i : Nat)
    (h1 : ∀ i', (i' = i ∨ i' = j) → ∀ k, k < j → row i' k = row' i' k)
    (h2 : ∀ k, k < j → colv k = colv' k)
    (h3 : ∀ i', (i' = i ∨ i' = j) → init i' = init' i') :
    colVal row colv init j i = colVal row' colv' init' j i := by
  unfold colVal
  have e : ∀ i', (i' = i ∨ i' = j) →
      redF (row i') colv (init i') (min i' j) = redF (row' i') colv' (init' i') (min i' j) := by
    intro i' hi'
    exact redF_congr _ _ _ _ _ _ _ (fun k hk => h1 i' hi' k (by omega)) (fun k hk => h2 k (by omega)) (h3 i' hi')
  simp only [e i (Or.inl rfl), e j (Or.inr rfl)]

/-- what one column step does to the storage -/
def ColPost (n j : Nat) (m m' : Array X) : Prop :=
  m'.size = m.size ∧
  (∀ t, (∀ i, i < n → t ≠ i * n + j) → m'.getD t X.unk = m.getD t X.unk) ∧
  (∀ i, i < n → cell m' n i j =
    colVal (fun i k => cell m n i k) (fun k => cell m' n k j) (fun i => cell m n i j) j i)

theorem reduceLoop_spec (n j : Nat) (m : Array X) (hs : m.size = n * n) (hj : j < n) :
    ∃ m2, forN n 0 (fun i m => luReduce n j i (min i j) m) m = .ok m2 ∧ m2.size = n * n ∧
      (∀ t, (∀ i, i < n → t ≠ i * n + j) → m2.getD t X.unk = m.getD t X.unk) ∧
      (∀ i, i < n → cell m2 n i j =
        redF (fun k => cell m n i k) (fun k => cell m2 n k j) (cell m n i j) (min i j)) := by
  let P : Nat → Array X → Prop := fun i m1 => m1.size = n * n ∧
    (∀ t, (∀ i', i' < i → t ≠ i' * n + j) → m1.getD t X.unk = m.getD t X.unk) ∧
    (∀ i', i' < i → cell m1 n i' j =
      redF (fun k => cell m n i' k) (fun k => cell m1 n k j) (cell m n i' j) (min i' j))
  have h := forN_spec (fun i m => luReduce n j i (min i j) m) P n 0 m
    ⟨hs, fun _ _ => rfl, fun _ h => absurd h (Nat.not_lt_zero _)⟩ ?_
  · obtain ⟨m2, hm, hs2, h1, h2⟩ := h
    simp only [Nat.zero_add] at h1 h2
    exact ⟨m2, hm, hs2, fun t ht => h1 t (fun i' hi' => ht i' hi'), h2⟩
  · intro i m1 _ hi hP
    simp only [Nat.zero_add] at hi
    obtain ⟨hs1, hfr, hval⟩ := hP
    obtain ⟨hlt, hred⟩ := luReduce_spec n j i (min i j) m1 hs1 hi hj
      (fun k hk => ⟨by omega, by omega, by omega⟩)
    refine ⟨_, hred, by simp [hs1], ?_, ?_⟩
    · intro t ht
      rw [getD_set, if_neg (ht i (by omega))]
      exact hfr t (fun i' hi' => ht i' (by omega))
    · intro i' hi'
      rw [cell_set]
      by_cases e : i' = i
      · subst e
        simp only [if_true]
        apply redF_congr
        · intro k hk
          show m1.getD (i' * n + k) X.unk = m.getD (i' * n + k) X.unk
          exact hfr _ (fun i'' _ h => by have := (idx_inj (by omega) hj h).2; omega)
        · intro k hk
          rw [cell_set, if_neg (fun h => by have := (idx_inj hj hj h).1; omega)]
        · exact hfr _ (fun i'' hi'' h => by have := (idx_inj hj hj h).1; omega)
      · have hne : i' * n + j ≠ i * n + j := fun h => e (idx_inj hj hj h).1
        rw [if_neg hne, hval i' (by omega)]
        apply redF_congr
        · intro k _; rfl
        · intro k hk
          rw [cell_set, if_neg (fun h => by have := (idx_inj hj hj h).1; omega)]
        · rfl

theorem luColumn_spec (n j : Nat) (m : Array X) (hs : m.size = n * n) (hj : j < n) :
    ∃ m', luColumn n j m = .ok m' ∧ ColPost n j m m' := by
  rw [luColumn_eq n j m (Nat.le_of_lt hj)]
  obtain ⟨m2, h2, hs2, hfr2, hv2⟩ := reduceLoop_spec n j m hs hj
  have hjj : j * n + j < m2.size := by rw [hs2]; exact idx_lt hj hj
  simp only [h2, bind_ok, rd_getD hjj, forR]
  rw [forN_shift]
  obtain ⟨m3, h3, hs3, hv3, hfr3⟩ := forN_blocks (n - (j + 1)) (fun k t => t = (j + 1 + k) * n + j)
    (fun k _ => X.mul (m2.getD ((j + 1 + k) * n + j) X.unk) (X.div X.one (m2.getD (j * n + j) X.unk)))
    (fun k m => do
      wr m ((j + 1 + k) * n + j) (X.mul (← rd m ((j + 1 + k) * n + j)) (X.div X.one (m2.getD (j * n + j) X.unk))))
    m2
    (by intro k _ k' _ t h h'; subst h; have := (idx_inj hj hj h').1; omega)
    (by
      intro k hk m' hs' hag
      have hlt : (j + 1 + k) * n + j < m'.size := by rw [hs', hs2]; exact idx_lt (by omega) hj
      refine ⟨m'.set ((j + 1 + k) * n + j) (X.mul (m'.getD ((j + 1 + k) * n + j) X.unk)
        (X.div X.one (m2.getD (j * n + j) X.unk))) hlt, ?_, by simp [hs'], ?_, ?_⟩
      · rw [rd_getD hlt]; simp only [bind_ok, wr_ok _ hlt]
      · intro t ht; subst ht
        rw [getD_set]; simp only [if_true]
        rw [hag _ (fun k' _ hne h => hne (by have := (idx_inj hj hj h).1; omega))]
      · intro t ht; rw [getD_set, if_neg ht])
  refine ⟨m3, h3, ?_, ?_, ?_⟩
  · rw [hs3, hs2, hs]
  · intro t ht
    rw [hfr3 t (fun k hk h => ht (j + 1 + k) (by omega) h)]
    exact hfr2 t ht
  · intro i hi
    -- rows ≤ j of column j are those of m2
    have low : ∀ k, k ≤ j → cell m3 n k j = cell m2 n k j := by
      intro k hk
      exact hfr3 _ (fun k' _ h => by have := (idx_inj hj hj h).1; omega)
    have hr : ∀ i, i < n →
        redF (fun k => cell m n i k) (fun k => cell m3 n k j) (cell m n i j) (min i j) = cell m2 n i j := by
      intro i hi
      rw [hv2 i hi]
      exact redF_congr _ _ _ _ _ _ _ (fun _ _ => rfl) (fun k hk => low k (by omega)) rfl
    unfold colVal
    simp only [hr i hi, hr j hj]
    by_cases hij : i ≤ j
    · rw [if_pos hij]; exact low i hij
    · rw [if_neg hij]
      have e : i = j + 1 + (i - (j + 1)) := by omega
      have := hv3 (i - (j + 1)) (by omega) _ rfl
      rw [← e] at this
      exact this

/-- column `c` of the combined storage `W` satisfies the Doolittle recurrences w.r.t. the input `A` -/
def ColEq (n : Nat) (A W : Array X) (c : Nat) : Prop :=
  ∀ i, i < n → cell W n i c =
    colVal (fun i k => cell W n i k) (fun k => cell W n k c) (fun i => cell A n i c) c i

theorem luLoop_spec (n : Nat) (A : Array X) (hs : A.size = n * n) :
    ∃ W, forN n 0 (fun j m => luColumn n j m) A = .ok W ∧ W.size = n * n ∧
      ∀ c, c < n → ColEq n A W c := by
  let P : Nat → Array X → Prop := fun j m => m.size = n * n ∧
    (∀ c, j ≤ c → c < n → ∀ i, i < n → cell m n i c = cell A n i c) ∧
    (∀ c, c < j → c < n → ColEq n A m c)
  have h := forN_spec (fun j m => luColumn n j m) P n 0 A
    ⟨hs, fun _ _ _ _ _ => rfl, fun _ h => absurd h (Nat.not_lt_zero _)⟩ ?_
  · obtain ⟨W, hW, hsW, _, h2⟩ := h
    simp only [Nat.zero_add] at h2
    exact ⟨W, hW, hsW, fun c hc => h2 c hc hc⟩
  · intro j m _ hj hP
    simp only [Nat.zero_add] at hj
    obtain ⟨hsm, hA, hcols⟩ := hP
    obtain ⟨m', hm', hs', hfr, hval⟩ := luColumn_spec n j m hsm hj
    -- cells outside column j are unchanged
    have keep : ∀ i c, i < n → c < n → c ≠ j → cell m' n i c = cell m n i c := by
      intro i c _ hc hne
      exact hfr _ (fun i' _ h => hne (idx_inj hc hj h).2)
    refine ⟨m', hm', by rw [hs', hsm], ?_, ?_⟩
    · intro c hc hcn i hi
      rw [keep i c hi hcn (by omega)]
      exact hA c (by omega) hcn i hi
    · intro c hc hcn i hi
      have hin : ∀ i', (i' = i ∨ i' = c) → i' < n := by
        intro i' h; rcases h with h | h <;> omega
      by_cases e : c = j
      · subst e
        rw [hval i hi]
        apply colVal_congr
        · intro i' h' k hk
          exact (keep i' k (hin i' h') (by omega) (by omega)).symm
        · intro k _; rfl
        · intro i' h'
          exact hA c (Nat.le_refl _) hcn i' (hin i' h')
      · rw [keep i c hi hcn e, hcols c (by omega) hcn i hi]
        apply colVal_congr
        · intro i' h' k hk
          exact (keep i' k (hin i' h') (by omega) (by omega)).symm
        · intro k hk; exact (keep k c (by omega) hcn e).symm
        · intro _ _; rfl

/-- the entries `splitLU` leaves in row `i` of `L` and `U` -/
def RowDone (n : Nat) (um l u : Array X) (i : Nat) : Prop :=
  ∀ j, j < n →
    cell l n i j = (if j < i then cell um n i j else if j = i then X.one else X.zero) ∧
    cell u n i j = (if j < i then X.zero else cell um n i j)

theorem splitLU_spec (n : Nat) (um lm : Array X) (hu : um.size = n * n) (hl : lm.size = n * n) :
    ∃ l u, splitLU n um lm = .ok (l, u) ∧ l.size = n * n ∧ u.size = n * n ∧
      ∀ i, i < n → RowDone n um l u i := by
  let P : Nat → Array X × Array X → Prop := fun i s => s.1.size = n * n ∧ s.2.size = n * n ∧
    (∀ i', i' < i → RowDone n um s.1 s.2 i') ∧
    (∀ i', i ≤ i' → i' < n → ∀ j, j < n → cell s.2 n i' j = cell um n i' j)
  have h := forN_spec (fun i (s : Array X × Array X) => do
      let s ← forN i 0 (fun j (s : Array X × Array X) => do
        let l ← wr s.1 (i * n + j) (← rd s.2 (i * n + j))
        let u ← wr s.2 (i * n + j) X.zero
        pure (l, u)) s
      let l ← wr s.1 (i * n + i) X.one
      let l ← forR (i + 1) n (fun j l => wr l (i * n + j) X.zero) l
      pure (l, s.2)) P n 0 (lm, um)
    ⟨hl, hu, fun _ h => absurd h (Nat.not_lt_zero _), fun _ _ _ _ _ => rfl⟩ ?_
  · obtain ⟨⟨l, u⟩, hok, h1, h2, h3, _⟩ := h
    simp only [Nat.zero_add] at h3
    exact ⟨l, u, hok, h1, h2, h3⟩
  · intro i s _ hi hP
    simp only [Nat.zero_add] at hi
    obtain ⟨l0, u0⟩ := s
    obtain ⟨hl0, hu0, hdone, hrest⟩ := hP
    simp only at hl0 hu0 hdone hrest
    -- first inner loop
    let Q : Nat → Array X × Array X → Prop := fun j s => s.1.size = n * n ∧ s.2.size = n * n ∧
      (∀ t, (∀ j', j' < j → t ≠ i * n + j') → s.1.getD t X.unk = l0.getD t X.unk) ∧
      (∀ t, (∀ j', j' < j → t ≠ i * n + j') → s.2.getD t X.unk = u0.getD t X.unk) ∧
      (∀ j', j' < j → cell s.1 n i j' = cell u0 n i j' ∧ cell s.2 n i j' = X.zero)
    have hq := forN_spec (fun j (s : Array X × Array X) => do
        let l ← wr s.1 (i * n + j) (← rd s.2 (i * n + j))
        let u ← wr s.2 (i * n + j) X.zero
        pure (l, u)) Q i 0 (l0, u0)
      ⟨hl0, hu0, fun _ _ => rfl, fun _ _ => rfl, fun _ h => absurd h (Nat.not_lt_zero _)⟩ ?_
    · obtain ⟨⟨l1, u1⟩, hok1, hl1, hu1, fl1, fu1, v1⟩ := hq
      simp only [Nat.zero_add] at fl1 fu1 v1 hl1 hu1
      have hii : i * n + i < l1.size := by rw [hl1]; exact idx_lt hi hi
      -- third loop
      obtain ⟨l3, h3, hs3, hv3, hfr3⟩ := forN_blocks (n - (i + 1)) (fun k t => t = i * n + (i + 1 + k))
        (fun _ _ => X.zero) (fun k l => wr l (i * n + (i + 1 + k)) X.zero) (l1.set (i * n + i) X.one hii)
        (by intro k _ k' _ t h h'; subst h; omega)
        (by
          intro k hk m' hs' _
          have hlt : i * n + (i + 1 + k) < m'.size := by
            rw [hs']; simp only [Array.size_set]; rw [hl1]; exact idx_lt hi (by omega)
          refine ⟨m'.set (i * n + (i + 1 + k)) X.zero hlt, wr_ok _ hlt, by simp [hs'], ?_, ?_⟩
          · intro t ht; subst ht; rw [getD_set]; simp
          · intro t ht; rw [getD_set, if_neg ht])
      refine ⟨(l3, u1), ?_, ?_, hu1, ?_, ?_⟩
      · simp only [hok1, bind_ok, wr_ok _ hii, forR]
        rw [forN_shift, h3]; rfl
      · show l3.size = n * n
        rw [hs3]; simp [hl1]
      · -- rows ≤ i are done
        intro i' hi' j hj
        show cell l3 n i' j = _ ∧ cell u1 n i' j = _
        by_cases e : i' = i
        · subst e
          have hum : cell u0 n i' j = cell um n i' j := hrest i' (Nat.le_refl _) hi j hj
          by_cases c1 : j < i'
          · simp only [if_pos c1]
            refine ⟨?_, (v1 j c1).2⟩
            have a : cell l3 n i' j = (l1.set (i' * n + i') X.one hii).getD (i' * n + j) X.unk :=
              hfr3 _ (fun k _ h => by omega)
            rw [a, getD_set, if_neg (by omega)]
            exact (v1 j c1).1.trans hum
          · simp only [if_neg c1]
            have ukeep : cell u1 n i' j = cell um n i' j := by
              rw [← hum]; exact fu1 _ (fun j' hj' h => by omega)
            refine ⟨?_, ukeep⟩
            by_cases c2 : j = i'
            · subst c2
              simp only [if_true]
              have a : cell l3 n j j = (l1.set (j * n + j) X.one hii).getD (j * n + j) X.unk :=
                hfr3 _ (fun k _ h => by omega)
              rw [a, getD_set]; simp
            · simp only [if_neg c2]
              have e2 : j = i' + 1 + (j - (i' + 1)) := by omega
              have := hv3 (j - (i' + 1)) (by omega) (i' * n + j) (by rw [← e2])
              exact this
        · have hlt' : i' < i := by omega
          have ne : ∀ j', j' < n → i' * n + j ≠ i * n + j' := fun j' hj' => idx_ne_row hj hj' e
          obtain ⟨d1, d2⟩ := hdone i' hlt' j hj
          refine ⟨?_, ?_⟩
          · have a : cell l3 n i' j = (l1.set (i * n + i) X.one hii).getD (i' * n + j) X.unk :=
              hfr3 _ (fun k hk h => ne (i + 1 + k) (by omega) h)
            rw [a, getD_set, if_neg (ne i hi)]
            have b : l1.getD (i' * n + j) X.unk = l0.getD (i' * n + j) X.unk :=
              fl1 _ (fun j' hj' => ne j' (by omega))
            rw [b]; exact d1
          · have b : cell u1 n i' j = cell u0 n i' j := fu1 _ (fun j' hj' => ne j' (by omega))
            rw [b]; exact d2
      · intro i' hi' hi'n j hj
        show cell u1 n i' j = cell um n i' j
        have ne : ∀ j', j' < n → i' * n + j ≠ i * n + j' := fun j' hj' => idx_ne_row hj hj' (by omega)
        have b : cell u1 n i' j = cell u0 n i' j := fu1 _ (fun j' hj' => ne j' (by omega))
        rw [b]; exact hrest i' (by omega) hi'n j hj
    · intro j s _ hj hQ
      simp only [Nat.zero_add] at hj
      obtain ⟨l, u⟩ := s
      obtain ⟨ql, qu, fl, fu, qv⟩ := hQ
      simp only at ql qu fl fu qv
      have hl' : i * n + j < l.size := by rw [ql]; exact idx_lt hi (by omega)
      have hu' : i * n + j < u.size := by rw [qu]; exact idx_lt hi (by omega)
      refine ⟨(l.set (i * n + j) (u.getD (i * n + j) X.unk) hl', u.set (i * n + j) X.zero hu'), ?_,
        by simp [ql], by simp [qu], ?_, ?_, ?_⟩
      · rw [rd_getD hu']; simp only [bind_ok, wr_ok _ hl', wr_ok _ hu']; rfl
      · intro t ht
        show (l.set _ _ hl').getD t X.unk = _
        rw [getD_set, if_neg (ht j (by omega))]
        exact fl t (fun j' hj' => ht j' (by omega))
      · intro t ht
        show (u.set _ _ hu').getD t X.unk = _
        rw [getD_set, if_neg (ht j (by omega))]
        exact fu t (fun j' hj' => ht j' (by omega))
      · intro j' hj'
        show cell (l.set _ _ hl') n i j' = _ ∧ cell (u.set _ _ hu') n i j' = _
        rw [cell_set, cell_set]
        by_cases e : j' = j
        · subst e
          simp only [if_true]
          exact ⟨fu _ (fun j'' hj'' => by omega), trivial⟩
        · have ne : i * n + j' ≠ i * n + j := by omega
          rw [if_neg ne, if_neg ne]
          exact qv j' (by omega)

/-- `LU(A, L, U)` never leaves the storage on a well-formed square input, and its two results are
    the split of a combined storage `W` that satisfies the Doolittle recurrences column by column. -/
theorem luDecomp_spec (A : DM) (hA : A.wf) (hsq : A.row = A.col) :
    ∃ L U W, luDecomp A = .ok (L, U) ∧ L.row = A.row ∧ L.col = A.row ∧ U.row = A.row ∧ U.col = A.row ∧
      L.wf ∧ U.wf ∧ W.size = A.row * A.row ∧ (∀ c, c < A.row → ColEq A.row A.m W c) ∧
      (∀ i, i < A.row → RowDone A.row W L.m U.m i) := by
  have hs : A.m.size = A.row * A.row := by rw [hA, ← hsq]
  obtain ⟨W, hW, hsW, hcol⟩ := luLoop_spec A.row A.m hs
  obtain ⟨l, u, hsp, hl, hu, hrows⟩ := splitLU_spec A.row W (DM.fresh A.row A.row).m hsW (fresh_size _ _)
  refine ⟨{ row := A.row, col := A.row, m := l }, { row := A.row, col := A.row, m := u }, W,
    ?_, rfl, rfl, rfl, rfl, hl, hu, hsW, hcol, hrows⟩
  have hq : (A.row == A.col) = true := by simp [hsq]
  simp only [luDecomp, req_true hq, bind_ok, hW, hsp]
  rfl

end SymVerif.Dense
