/-
C37 — compositional semantics of expression trees (`evalS`) and the substitution lemma.

Unlike `NF.evalK` (atoms interpreted through their dump strings) function applications are
interpreted *functionally*: `f(a₁,…,aₙ)` is `M.app f [v₁,…,vₙ]` for the values `vᵢ` of the
arguments, so that equal arguments give equal values and substitution inside arguments is meaningful.
-/
import SymVerif.Lemmas.NFSound
import SymVerif.Model.CSE

namespace SymVerif
namespace CSE

open NF
open Classical

set_option linter.unusedSectionVars false

/-- an interpretation of the non-arithmetic nodes in a field `K` -/
structure Interp (K : Type) where
  I : K
  sym : String → K
  dummy : String → Nat → K
  const : String → K
  fsym : String → List K → K
  app : String → List K → K
  /-- `b ** e` for an exponent that is not an integer literal -/
  pw : K → K → K

section Sem
variable {K : Type} [Field K]

/-- value of a power with a non-literal exponent; undefined for a zero base -/
noncomputable def pwVal (M : Interp K) : Option K → Option K → Option K
  | some vb, some ve => if vb = 0 then none else some (M.pw vb ve)
  | _, _ => none

noncomputable def consO : Option K → Option (List K) → Option (List K)
  | some v, some vs => some (v :: vs)
  | _, _ => none

mutual
  /-- compositional denotation; `none` = undefined (floats, infinities, NaN, Booleans, malformed
  numbers, `0 ** negative`, zero base under a non-literal exponent, an undefined argument) -/
  noncomputable def evalS (M : Interp K) : Expr → Option K
    | .int n => some (n : K)
    | .rat n d => if d = 0 then none else some ((n : K) / (d : K))
    | .cplx re im =>
      if re.den = 0 ∨ im.den = 0 then none
      else some ((re.num : K) / (re.den : K) + M.I * ((im.num : K) / (im.den : K)))
    | .add c ts => add2 (evalS M c) (evalSTerms M ts)
    | .mul c fs => mul2 (evalS M c) (evalSFacs M fs)
    | .pow b e =>
      match intLit? e with
      | some n => (evalS M b).bind (fun v => powVal v n)
      | none => pwVal M (evalS M b) (evalS M e)
    | .dbl _ => none
    | .cdbl _ _ => none
    | .infty _ => none
    | .nan => none
    | .bool _ => none
    | .sym n => some (M.sym n)
    | .dummy n i => some (M.dummy n i)
    | .const n => some (M.const n)
    | .fsym n args => (evalSList M args).map (M.fsym n)
    | .app h args => (evalSList M args).map (M.app h)
  noncomputable def evalSList (M : Interp K) : List Expr → Option (List K)
    | [] => some []
    | a :: t => consO (evalS M a) (evalSList M t)
  noncomputable def evalSTerms (M : Interp K) : List (Expr × Expr) → Option K
    | [] => some 0
    | (k, v) :: t => add2 (mul2 (evalS M k) (evalS M v)) (evalSTerms M t)
  noncomputable def evalSFacs (M : Interp K) : List (Expr × Expr) → Option K
    | [] => some 1
    | (b, e) :: t =>
      match intLit? e with
      | some n => mul2 ((evalS M b).bind (fun v => powVal v n)) (evalSFacs M t)
      | none => mul2 (pwVal M (evalS M b) (evalS M e)) (evalSFacs M t)
end

/-- the laws of the interpretation used by the checker -/
structure Lawful (M : Interp K) : Prop where
  I_sq : M.I * M.I = -1
  /-- `b ** (k + e) = b**k · b**e` for an integer `k` -/
  pw_add_int : ∀ (b e : K) (k : ℤ), b ≠ 0 → M.pw b ((k : K) + e) = b ^ k * M.pw b e
  /-- `(b ** e) ** k = b ** (k·e)` for an integer `k` -/
  pw_mul_int : ∀ (b e : K) (k : ℤ), b ≠ 0 → M.pw b e ^ k = M.pw b ((k : K) * e)
  /-- `b ** (-e) = (b ** e)⁻¹` -/
  pw_neg : ∀ (b e : K), b ≠ 0 → M.pw b (-e) = (M.pw b e)⁻¹
  pw_ne_zero : ∀ (b e : K), b ≠ 0 → M.pw b e ≠ 0
  app_odd : ∀ h, h ∈ oddHeads → ∀ v : K, M.app h [-v] = - M.app h [v]
  app_even : ∀ h, h ∈ evenHeads → ∀ v : K, M.app h [-v] = M.app h [v]

/-- update of one symbol -/
def Interp.setSym (M : Interp K) (s : String) (v : K) : Interp K :=
  { M with sym := fun n => if n = s then v else M.sym n }

@[simp] theorem setSym_I (M : Interp K) (s : String) (v : K) : (M.setSym s v).I = M.I := rfl
@[simp] theorem setSym_pw (M : Interp K) (s : String) (v : K) : (M.setSym s v).pw = M.pw := rfl
@[simp] theorem setSym_app (M : Interp K) (s : String) (v : K) : (M.setSym s v).app = M.app := rfl
@[simp] theorem setSym_fsym (M : Interp K) (s : String) (v : K) : (M.setSym s v).fsym = M.fsym := rfl
@[simp] theorem setSym_const (M : Interp K) (s : String) (v : K) : (M.setSym s v).const = M.const := rfl
@[simp] theorem setSym_dummy (M : Interp K) (s : String) (v : K) : (M.setSym s v).dummy = M.dummy := rfl

theorem pwVal_setSym (M : Interp K) (s : String) (v : K) (a b : Option K) :
    pwVal (M.setSym s v) a b = pwVal M a b := by
  cases a <;> cases b <;> simp [pwVal]

/-! ### substitution lemma -/

theorem intLit_substSym (s : String) (r : Expr) (hr : intLit? r = none) (e : Expr) :
    intLit? (substSym s r e) = intLit? e := by
  cases e with
  | sym n =>
    simp only [substSym]
    split
    · rw [hr]; rfl
    · rfl
  | _ => simp [substSym, intLit?]

mutual
  theorem evalS_substSym (M : Interp K) (s : String) (r : Expr) (v : K) (hr : intLit? r = none)
      (hv : evalS M r = some v) :
      ∀ e : Expr, evalS M (substSym s r e) = evalS (M.setSym s v) e
    | .int n => by simp [substSym, evalS]
    | .rat n d => by simp [substSym, evalS]
    | .cplx re im => by simp [substSym, evalS]
    | .add c ts => by
      simp only [substSym, evalS, evalS_substSym M s r v hr hv c, evalSTerms_substSym M s r v hr hv ts]
    | .mul c fs => by
      simp only [substSym, evalS, evalS_substSym M s r v hr hv c, evalSFacs_substSym M s r v hr hv fs]
    | .pow b e => by
      simp only [substSym, evalS, intLit_substSym s r hr e, evalS_substSym M s r v hr hv b,
        evalS_substSym M s r v hr hv e, pwVal_setSym]
    | .dbl _ => by simp [substSym, evalS]
    | .cdbl _ _ => by simp [substSym, evalS]
    | .infty _ => by simp [substSym, evalS]
    | .nan => by simp [substSym, evalS]
    | .bool _ => by simp [substSym, evalS]
    | .sym n => by
      simp only [substSym]
      split
      · rename_i h; simp [evalS, Interp.setSym, h, hv]
      · rename_i h; simp [evalS, Interp.setSym, h]
    | .dummy n i => by simp [substSym, evalS]
    | .const n => by simp [substSym, evalS]
    | .fsym n args => by
      simp only [substSym, evalS, evalSList_substSym M s r v hr hv args, setSym_fsym]
    | .app h args => by
      simp only [substSym, evalS, evalSList_substSym M s r v hr hv args, setSym_app]
  theorem evalSList_substSym (M : Interp K) (s : String) (r : Expr) (v : K) (hr : intLit? r = none)
      (hv : evalS M r = some v) :
      ∀ l : List Expr, evalSList M (substSymList s r l) = evalSList (M.setSym s v) l
    | [] => by simp [substSymList, evalSList]
    | a :: t => by
      simp only [substSymList, evalSList, evalS_substSym M s r v hr hv a,
        evalSList_substSym M s r v hr hv t]
  theorem evalSTerms_substSym (M : Interp K) (s : String) (r : Expr) (v : K) (hr : intLit? r = none)
      (hv : evalS M r = some v) :
      ∀ l : List (Expr × Expr), evalSTerms M (substSymPairs s r l) = evalSTerms (M.setSym s v) l
    | [] => by simp [substSymPairs, evalSTerms]
    | (k, c) :: t => by
      simp only [substSymPairs, evalSTerms, evalS_substSym M s r v hr hv k,
        evalS_substSym M s r v hr hv c, evalSTerms_substSym M s r v hr hv t]
  theorem evalSFacs_substSym (M : Interp K) (s : String) (r : Expr) (v : K) (hr : intLit? r = none)
      (hv : evalS M r = some v) :
      ∀ l : List (Expr × Expr), evalSFacs M (substSymPairs s r l) = evalSFacs (M.setSym s v) l
    | [] => by simp [substSymPairs, evalSFacs]
    | (b, e) :: t => by
      simp only [substSymPairs, evalSFacs, intLit_substSym s r hr e, evalS_substSym M s r v hr hv b,
        evalS_substSym M s r v hr hv e, evalSFacs_substSym M s r v hr hv t, pwVal_setSym]
end

/-! ### evaluating the replacements in order -/

/-- the environment after evaluating the replacements first to last; `none` when a right-hand
side is undefined -/
noncomputable def envAfter (M : Interp K) : List (String × Expr) → Option (Interp K)
  | [] => some M
  | (s, r) :: rest =>
    match evalS M r with
    | some v => envAfter (M.setSym s v) rest
    | none => none

theorem rhsOkB_cons {s : String} {r : Expr} {rest : List (String × Expr)}
    (h : rhsOkB ((s, r) :: rest) = true) : intLit? r = none ∧ rhsOkB rest = true := by
  simp only [rhsOkB, List.all_cons, Bool.and_eq_true, Option.isNone_iff_eq_none] at h ⊢
  exact h

/-- back-substitution (last to first) followed by evaluation in `M` is evaluation of the reduced
expression in the environment obtained by evaluating the replacements first to last -/
theorem evalS_backSubst :
    ∀ (reps : List (String × Expr)) (M M' : Interp K) (e : Expr), rhsOkB reps = true →
      envAfter M reps = some M' → evalS M (backSubst reps e) = evalS M' e
  | [], M, M', e, _, h => by
    simp only [envAfter, Option.some.injEq] at h
    subst h
    simp [backSubst]
  | (s, r) :: rest, M, M', e, hok, h => by
    obtain ⟨hr, hrest⟩ := rhsOkB_cons hok
    simp only [envAfter] at h
    cases hv : evalS M r with
    | none => simp [hv] at h
    | some v =>
      simp only [hv] at h
      simp only [backSubst]
      rw [evalS_substSym M s r v hr hv]
      exact evalS_backSubst rest (M.setSym s v) M' e hrest h

end Sem

end CSE
end SymVerif
