import SymVerif.Lemmas.C27Sem

/-! Interval with Interval: intersection, union, complement. -/
namespace SymVerif.Sets

theorem ivInterIv_mem (s1 e1 : ENum) (lo1 ro1 : Bool) (s2 e2 : ENum) (lo2 ro2 : Bool)
    (h1 : s1 < e1) (h2 : s2 < e2) (q : ℚ) :
    mem (ivInterIv s1 e1 lo1 ro1 s2 e2 lo2 ro2) q ↔ (memIv s1 e1 lo1 ro1 q ∧ memIv s2 e2 lo2 ro2 q) := by
  unfold ivInterIv
  simp only [ENum.min2_eq, Bool.and_eq_true, beq_iff_eq, bne_iff_ne, ne_eq]
  split
  · simp only [mem_interval]; unfold memIv; grind
  · simp only [mem]; unfold memIv; grind

theorem ivInterIv_WF (s1 e1 : ENum) (lo1 ro1 : Bool) (s2 e2 : ENum) (lo2 ro2 : Bool) :
    WF (ivInterIv s1 e1 lo1 ro1 s2 e2 lo2 ro2) := by
  unfold ivInterIv
  dsimp only
  split_ifs <;> first | exact WF_interval _ _ _ _ | simp [WF]

theorem ivUnionIv_ok (s1 e1 : ENum) (lo1 ro1 : Bool) (s2 e2 : ENum) (lo2 ro2 : Bool)
    (h1 : s1 < e1) (h2 : s2 < e2) {s : SetE} (h : ivUnionIv s1 e1 lo1 ro1 s2 e2 lo2 ro2 = .ok s) :
    WF s ∧ ∀ q, mem s q ↔ (memIv s1 e1 lo1 ro1 q ∨ memIv s2 e2 lo2 ro2 q) := by
  unfold ivUnionIv ivUnionIvWith at h
  simp only [ENum.min2_eq, ENum.max2_eq, Bool.and_eq_true, Bool.or_eq_true, beq_iff_eq,
    Bool.not_true, Bool.or_false, Bool.not_eq_eq_eq_not] at h
  split at h
  · have hu := makeUnion_ok h
    refine ⟨hu.2 ?_, fun q => ?_⟩
    · rw [WFL_iff]; intro x hx; rw [mem_mkSS] at hx
      simp only [List.mem_cons, List.not_mem_nil, or_false] at hx
      rcases hx with rfl | rfl <;> simpa [WF]
    · rw [hu.1 q, memAny_iff]
      simp only [mem_mkSS, List.mem_cons, List.not_mem_nil, or_false, exists_eq_or_imp, exists_eq_left, mem]
  · simp only [Except.ok.injEq] at h
    subst h
    refine ⟨WF_interval _ _ _ _, fun q => ?_⟩
    rw [mem_interval]
    unfold memIv
    grind

/-- the two intervals have a common point (possibly an infinite one) -/
def ivMeet (s1 e1 : ENum) (lo1 ro1 : Bool) (s2 e2 : ENum) (lo2 ro2 : Bool) : Prop :=
  (s1 < e2 ∨ (s1 = e2 ∧ lo1 = false ∧ ro2 = false)) ∧ (s2 < e1 ∨ (s2 = e1 ∧ lo2 = false ∧ ro1 = false))

/-- the pieces of `other \ this` when the two intervals meet -/
theorem ivComplPieces_mem (s1 e1 : ENum) (lo1 ro1 : Bool) (s2 e2 : ENum) (lo2 ro2 : Bool)
    (h1 : s1 < e1) (h2 : s2 < e2) (q : ℚ) (hm : ivMeet s1 e1 lo1 ro1 s2 e2 lo2 ro2) :
    memAny (ivComplPieces s1 e1 lo1 ro1 s2 e2 lo2 ro2) q ↔
      (memIv s2 e2 lo2 ro2 q ∧ ¬ memIv s1 e1 lo1 ro1 q) := by
  unfold ivComplPieces
  unfold ivMeet at hm
  simp only [ENum.min2_eq, ENum.max2_eq, beq_iff_eq]
  rw [memAny_iff]
  simp only [mem_mkSS, List.mem_append]
  unfold memIv at *
  split <;> split <;>
    simp only [List.mem_cons, List.not_mem_nil, or_false, false_or, exists_eq_left, exists_eq_or_imp,
      mem_interval, or_self, false_and, exists_false] <;> (try unfold memIv) <;> grind

theorem ivComplPieces_WFL (s1 e1 : ENum) (lo1 ro1 : Bool) (s2 e2 : ENum) (lo2 ro2 : Bool) :
    WFL (ivComplPieces s1 e1 lo1 ro1 s2 e2 lo2 ro2) := by
  rw [WFL_iff]
  intro x hx
  unfold ivComplPieces at hx
  rw [mem_mkSS] at hx
  simp only [List.mem_append] at hx
  rcases hx with hx | hx <;> split at hx <;> simp at hx <;> subst hx <;> exact WF_interval _ _ _ _

theorem interval_ne_empty (s e : ENum) (lo ro : Bool) (h : interval s e lo ro ≠ .empty) :
    s < e ∨ (s = e ∧ lo = false ∧ ro = false) := by
  unfold interval at h
  split at h
  · rename_i hc
    exact Or.inl ((ivCanonical_iff s e).1 hc)
  · split at h
    · rename_i h2
      simp only [Bool.and_eq_true, beq_iff_eq, Bool.not_eq_true', Bool.or_eq_false_iff] at h2
      exact Or.inr h2
    · exact absurd rfl h

theorem ivInterIv_ne_empty (s1 e1 : ENum) (lo1 ro1 : Bool) (s2 e2 : ENum) (lo2 ro2 : Bool)
    (h1 : s1 < e1) (h2 : s2 < e2)
    (h : ivInterIv s1 e1 lo1 ro1 s2 e2 lo2 ro2 ≠ .empty) : ivMeet s1 e1 lo1 ro1 s2 e2 lo2 ro2 := by
  unfold ivInterIv at h
  dsimp only at h
  split at h
  · rename_i hc
    have := interval_ne_empty _ _ _ _ h
    simp only [ENum.min2_eq, Bool.and_eq_true, beq_iff_eq, bne_iff_ne, ne_eq] at hc this
    unfold ivMeet
    grind
  · exact absurd rfl h

end SymVerif.Sets
