/-
Safety of `decT` (load_rcp_basic) on arbitrary bytes, by induction on the nesting fuel.
-/
import SymVerif.Lemmas.C20Safe
import SymVerif.Lemmas.C20IsA

namespace SymVerif.Codec

theorem castRef_typed {c : Cls} {t : T} (h : castRef c t = true) :
    ∃ e, semT t = .ok e ∧ isA c (Expr.className e) = true := by
  unfold castRef at h
  split at h
  · rename_i e he; exact ⟨e, he, h⟩
  · simp at h

theorem semT_build {a : UInt64} {tc : UInt8} {fs : List Fld} {e : Expr} (h : semT (.mk a tc fs) = .ok e) :
    ∃ fvs, build (kindOfName (className tc)) (className tc) fvs = .ok e := by
  simp only [semT] at h
  split at h
  · simp at h
  · rename_i fvs _; exact ⟨fvs, h⟩

theorem decT_recOK (cfg : Cfg) : ∀ f : Nat, RecOK (decT cfg f) f
  | 0 => ⟨by intro c m bs t m' rest h; simp [decT] at h, by intro c m bs h; omega,
          by intro c m bs t m' rest h; simp [decT] at h⟩
  | f + 1 => by
    have ih := decT_recOK cfg f
    refine ⟨?_, ?_, ?_⟩
    · -- what remains is a suffix of the input
      intro c m bs t m' rest h
      simp only [decT] at h
      split at h
      · simp at h
      · rename_i a bs1 h1
        split at h
        · simp at h
        · rename_i fs bs2 h2
          have s1 : bs2 <:+ bs := by
            rw [(rdNat_suffix h2).1, (rdNat_suffix h1).1]
            exact (List.drop_suffix _ _).trans (List.drop_suffix _ _)
          split at h
          · simp at h
          · split at h
            · split at h
              · simp at h
              · split at h
                · simp at h; rw [← h.2.2]; exact s1
                · simp at h
            · split at h
              · simp at h
              · rename_i tc bs3 h3
                split at h
                · simp at h
                · split at h
                  · simp at h
                  · rename_i ks hl
                    split at h
                    · simp at h
                    · rename_i flds m4 bs4 h4
                      split at h
                      · simp at h
                      · split at h
                        · simp at h
                          rw [← h.2.2]
                          refine (decFlds_suffix ih cfg _ _ _ _ _ _ h4).trans ?_
                          rw [(rdNat_suffix h3).1]
                          exact (List.drop_suffix _ _).trans s1
                        · simp at h
    · -- the fuel is never exhausted when it exceeds the number of bytes
      intro c m bs hl
      simp only [decT]
      split
      · rename_i e h1; intro h; simp at h; subst h; exact rdNat_ne_fuel h1
      · rename_i a bs1 h1
        split
        · rename_i e h2; intro h; simp at h; subst h; exact rdNat_ne_fuel h2
        · rename_i fs bs2 h2
          have l2 : bs2.length + 9 ≤ bs.length := by
            obtain ⟨e1, g1⟩ := rdNat_suffix h1
            obtain ⟨e2, g2⟩ := rdNat_suffix h2
            subst e1; subst e2
            simp at g2 ⊢; omega
          split
          · simp
          · split
            · split
              · simp
              · split <;> simp
            · split
              · rename_i e h3; intro h; simp at h; subst h; exact rdNat_ne_fuel h3
              · rename_i tc bs3 h3
                have l3 : bs3.length ≤ bs2.length := by rw [(rdNat_suffix h3).1]; simp
                split
                · simp
                · split
                  · split <;> simp
                  · split
                    · rename_i e h4; intro h; simp at h; subst h
                      exact decFlds_nofuel ih cfg _ _ _ (by omega) h4
                    · split
                      · rename_i e h5; intro h; simp at h; subst h; exact semT_ne_fuel _ h5
                      · split <;> simp
    · -- the object handed to the load site has a class the site may cast to
      intro c m bs t m' rest h
      simp only [decT] at h
      split at h
      · simp at h
      · split at h
        · simp at h
        · split at h
          · simp at h
          · split at h
            · split at h
              · simp at h
              · split at h
                · rename_i hc
                  simp at h; rw [← h.1]; exact castRef_typed hc
                · simp at h
            · split at h
              · simp at h
              · split at h
                · simp at h
                · split at h
                  · simp at h
                  · split at h
                    · simp at h
                    · split at h
                      · simp at h
                      · rename_i e hs
                        split at h
                        · rename_i hc
                          simp at h
                          rw [← h.1]
                          obtain ⟨fvs, hb⟩ := semT_build hs
                          exact ⟨e, hs, build_isA c _ fvs e hb hc⟩
                        · simp at h

end SymVerif.Codec
