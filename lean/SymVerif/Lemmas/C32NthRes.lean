import Mathlib.RingTheory.ZMod.UnitsCyclic
import Mathlib.GroupTheory.SpecificGroups.Cyclic
import SymVerif.Lemmas.C32Order
/-! The solvability test `_is_nthroot_mod1` (odd prime powers, unit residues). -/
namespace SymVerif.C32
open SymVerif.NTheory

/-- in a finite cyclic group, `u` is an `n`-th power iff `u^(N / gcd(N, n)) = 1`, `N = |G|` -/
theorem cyclic_pow_iff {G : Type*} [CommGroup G] [Fintype G] [IsCyclic G] (u : G) (n : ℕ) :
    (∃ v : G, v ^ n = u) ↔ u ^ (Fintype.card G / Nat.gcd (Fintype.card G) n) = 1 := by
  set N := Fintype.card G with hN
  have hNpos : 0 < N := Fintype.card_pos
  set d := Nat.gcd N n with hd
  have hdN : d ∣ N := Nat.gcd_dvd_left _ _
  have hdn : d ∣ n := Nat.gcd_dvd_right _ _
  have hdpos : 0 < d := Nat.gcd_pos_of_pos_left _ hNpos
  constructor
  · rintro ⟨v, rfl⟩
    obtain ⟨c, hc⟩ := hdn
    rw [← pow_mul, hc, mul_assoc, mul_comm c, ← mul_assoc, Nat.mul_div_cancel' hdN, pow_mul,
      pow_card_eq_one, one_pow]
  · intro h
    obtain ⟨g, hg⟩ := IsCyclic.exists_generator (α := G)
    have hord : orderOf g = N := by
      rw [orderOf_eq_card_of_forall_mem_zpowers hg, Nat.card_eq_fintype_card]
    obtain ⟨j, rfl⟩ : ∃ j : ℕ, g ^ j = u := by
      obtain ⟨z, hz⟩ := Subgroup.mem_zpowers_iff.mp (hg u)
      refine ⟨(z % (N : ℤ)).toNat, ?_⟩
      rw [← hz, ← zpow_natCast, Int.toNat_of_nonneg (Int.emod_nonneg _ (by omega)), ← hord,
        zpow_mod_orderOf]
    -- `N ∣ j * (N / d)`, hence `d ∣ j`
    rw [← pow_mul] at h
    have hdiv : N ∣ j * (N / d) := by
      have := orderOf_dvd_of_pow_eq_one h
      rwa [hord] at this
    obtain ⟨e, he⟩ := hdN
    have hNd : N / d = e := by rw [he]; exact Nat.mul_div_cancel_left _ hdpos
    have hepos : 0 < e := by
      rcases Nat.eq_zero_or_pos e with h0 | h0
      · rw [h0, mul_zero] at he; omega
      · exact h0
    rw [hNd, he] at hdiv
    have hdj : d ∣ j := by
      have : d * e ∣ j * e := hdiv
      exact Nat.dvd_of_mul_dvd_mul_right hepos this
    obtain ⟨c, hc⟩ := hdj
    -- Bézout: d = N s + n t
    have hbez : (d : ℤ) = N * Nat.gcdA N n + n * Nat.gcdB N n := Nat.gcd_eq_gcd_ab N n
    refine ⟨g ^ (Nat.gcdB N n * c), ?_⟩
    have hgN : g ^ (N : ℤ) = 1 := by rw [zpow_natCast, ← hord, pow_orderOf_eq_one]
    rw [← zpow_natCast, ← zpow_mul, ← zpow_natCast g j, hc]
    have : (Nat.gcdB N n * c * (n : ℤ)) = ((d * c : ℕ) : ℤ) - N * (Nat.gcdA N n * c) := by
      push_cast; rw [hbez]; ring
    rw [this, zpow_sub, zpow_mul, hgN, one_zpow]
    simp

section
variable {p : ℕ} (hp : p.Prime) (hp2 : p ≠ 2)
include hp hp2

/-- `_is_nthroot_mod1(a, n, p, k)` decides whether `x^n ≡ a (mod p^k)` is solvable, for an odd prime `p`,
    `p ∤ a`, `k ≥ 1`, `n ≥ 1`. -/
theorem isNthrootMod1_iff (a n : ℤ) (k : ℕ) (hk : 1 ≤ k) (hn : 1 ≤ n) (ha : ¬ (p : ℤ) ∣ a) :
    isNthrootMod1 a n p k = true ↔ ∃ x : ZMod (p ^ k), x ^ n.toNat = (a : ZMod (p ^ k)) := by
  have hpk : 0 < p ^ k := Nat.pow_pos hp.pos
  have hpk2 : 2 ≤ p ^ k := by
    calc 2 ≤ p := hp.two_le
      _ = p ^ 1 := (pow_one p).symm
      _ ≤ p ^ k := Nat.pow_le_pow_right hp.pos hk
  haveI : NeZero (p ^ k) := ⟨hpk.ne'⟩
  haveI := ZMod.isCyclic_units_of_prime_pow p hp hp2 k
  -- the unit of `a`
  set N := p ^ k with hNdef
  set x0 := (a % (N : ℤ)).toNat with hx0
  have hx0a : ((x0 : ℕ) : ZMod N) = (a : ZMod N) := by
    rw [hx0, ← Int.cast_natCast, Int.toNat_of_nonneg (Int.emod_nonneg _ (by omega))]
    simp
  have hcop : Nat.Coprime x0 N := by
    apply Nat.Coprime.pow_right
    rw [Nat.coprime_comm, Nat.Prime.coprime_iff_not_dvd hp]
    intro hd
    apply ha
    have hx : ((x0 : ℕ) : ℤ) = a % (N : ℤ) := Int.toNat_of_nonneg (Int.emod_nonneg _ (by omega))
    have hpN : (p : ℤ) ∣ (N : ℤ) := by
      rw [hNdef]; exact_mod_cast dvd_pow_self p (by omega : k ≠ 0)
    have h1 : (p : ℤ) ∣ a % (N : ℤ) := by rw [← hx]; exact_mod_cast hd
    have h2 := Int.emod_add_mul_ediv a (N : ℤ)
    rw [← h2]
    exact Int.dvd_add h1 (Dvd.dvd.mul_right hpN _)
  set u : (ZMod N)ˣ := ZMod.unitOfCoprime x0 hcop with hu
  have hua : (u : ZMod N) = (a : ZMod N) := by rw [hu, ZMod.coe_unitOfCoprime, hx0a]
  -- the group order
  have hphi : N * (p - 1) / p = Fintype.card (ZMod N)ˣ := by
    rw [ZMod.card_units_eq_totient, hNdef, Nat.totient_prime_pow hp (by omega)]
    conv_lhs => rw [show k = (k - 1) + 1 by omega, pow_succ, mul_assoc, mul_comm p, ← mul_assoc]
    exact Nat.mul_div_cancel _ hp.pos
  have hnn : n = (n.toNat : ℤ) := by omega
  unfold isNthrootMod1
  simp only [← hNdef]
  have hm : Int.gcd ((N * (p - 1) / p : ℕ) : ℤ) n = Nat.gcd (Fintype.card (ZMod N)ˣ) n.toNat := by
    rw [hphi]
    conv_lhs => rw [hnn]
    rfl
  rw [hm, hphi]
  set e := Fintype.card (ZMod N)ˣ / Nat.gcd (Fintype.card (ZMod N)ˣ) n.toNat with he
  have hpow : (powmN a e N == 1) = true ↔ (a : ZMod N) ^ e = 1 := by
    rw [powmN_eq a e N hpk, beq_iff_eq]
    have hnn' : 0 ≤ a ^ e % (N : ℤ) := Int.emod_nonneg _ (by omega)
    have hlt : (a ^ e % (N : ℤ)).toNat < N := by
      have := Int.emod_lt_of_pos (a ^ e) (show (0 : ℤ) < N by omega)
      omega
    have key := natCast_eq_one_iff hpk2 hlt
    have hc : (((a ^ e % (N : ℤ)).toNat : ℕ) : ZMod N) = (a : ZMod N) ^ e := by
      rw [← Int.cast_natCast, Int.toNat_of_nonneg hnn']
      simp
    rw [hc] at key
    rw [key]
    constructor
    · intro h; omega
    · intro h; omega
  rw [hpow, ← hua, ← Units.val_pow_eq_pow_val, Units.val_eq_one, ← cyclic_pow_iff u n.toNat]
  constructor
  · rintro ⟨v, hv⟩
    exact ⟨(v : ZMod N), by rw [← Units.val_pow_eq_pow_val, hv]⟩
  · rintro ⟨x, hx⟩
    have hxu : IsUnit x := by
      have : IsUnit (x ^ n.toNat) := by rw [hx]; exact u.isUnit
      exact (isUnit_pow_iff (by omega)).mp this
    obtain ⟨v, rfl⟩ := hxu
    refine ⟨v, Units.ext ?_⟩
    rw [Units.val_pow_eq_pow_val, hx]

end

end SymVerif.C32
