/-
C02, part 3: the induction that establishes `J a b` for all well-formed, NaN-free, `-0.0`-free
expressions.
-/
import SymVerif.Lemmas.C02Anti

namespace SymVerif
namespace Expr
open TC (Kind)

theorem J.symm {a b : Expr} (j : J a b) : J b a where
  eq1 := fun h => (j.eq2 h).symm
  eq2 := fun h => (j.eq1 h).symm
  z := fun h => (j.z (by rw [j.anti, h]; rfl)).symm
  anti := by rw [j.anti]; omega

theorem guard_z {n m : Nat} {X : Int}
    (h : (if (n != m) = true then (if n < m then (-1 : Int) else 1) else X) = 0) : n = m ∧ X = 0 := by
  by_cases e : n = m
  · subst e; simpa using h
  · have : (n != m) = true := by simpa using e
    rw [if_pos this] at h
    split at h <;> simp at h

theorem guard_anti {n m : Nat} {X Y : Int} (h : n = m → X = -Y) :
    (if (n != m) = true then (if n < m then (-1 : Int) else 1) else X)
      = - (if (m != n) = true then (if m < n then (-1 : Int) else 1) else Y) := by
  rcases Nat.lt_trichotomy n m with h1 | h1 | h1
  · have a1 : (n != m) = true := by simp; omega
    have a2 : (m != n) = true := by simp; omega
    rw [if_pos a1, if_pos a2, if_pos h1, if_neg (by omega)]
  · subst h1; simpa using h rfl
  · have a1 : (n != m) = true := by simp; omega
    have a2 : (m != n) = true := by simp; omega
    rw [if_pos a1, if_pos a2, if_neg (by omega), if_pos h1]; simp

theorem OK_dbl {x : UInt64} (h : OK (dbl x)) : dblIsNaN x = false ∧ x ≠ negZeroBits := by
  have h1 := allNodes_self _ h.2.1
  have h2 := allNodes_self _ h.2.2
  simp only [notNaNNode, Bool.not_eq_true'] at h1
  simp only [notNegZeroNode, bne_iff_ne, ne_eq] at h2
  exact ⟨h1, h2⟩

theorem OK_cdbl {r i : UInt64} (h : OK (cdbl r i)) :
    (dblIsNaN r = false ∧ dblIsNaN i = false) ∧ (r ≠ negZeroBits ∧ i ≠ negZeroBits) := by
  have h1 := allNodes_self _ h.2.1
  have h2 := allNodes_self _ h.2.2
  simp only [notNaNNode, Bool.and_eq_true, Bool.not_eq_true'] at h1
  simp only [notNegZeroNode, Bool.and_eq_true, bne_iff_ne, ne_eq] at h2
  exact ⟨h1, h2⟩

theorem WF_add {c : Expr} {ts : List (Expr × Expr)} (h : WF (add c ts) = true) :
    pairwiseB keyLess (ts.map Prod.fst) = true := by
  simp only [WF, Bool.and_eq_true] at h; exact h.2

/-- children of equal lists: head and dictionary -/
theorem children_cons_inj {c c' : Expr} {ts ts' : List (Expr × Expr)}
    (h : c :: flat ts = c' :: flat ts') : c = c' ∧ ts = ts' := by
  simp only [List.cons.injEq] at h
  exact ⟨h.1, flat_inj h.2⟩

theorem J_all : ∀ a b, OK a → OK b → J a b := by
  intro a
  refine induct_children (fun a => ∀ b, OK a → OK b → J a b) ?_ a
  clear a
  intro a ih b oa ob
  by_cases hc : typeCode a = typeCode b
  swap
  · exact J_of_tc_ne hc
  have hx := tc_eq_ctor oa.1 ob.1 hc
  have jl : JL (children a) := fun x hx y ox oy => ih x hx y ox oy
  have oca := oa.children
  have ocb := ob.children
  cases a <;> cases b <;> simp [cix] at hx
  case int.int x y => exact J_int x y
  case rat.rat n d n' d' =>
    exact J_rat (by simpa [WF] using oa.1) (by simpa [WF] using ob.1)
  case cplx.cplx r i r' i' =>
    have w1 : qCanon r.num r.den = true ∧ qCanon i.num i.den = true := by simpa [WF] using oa.1
    have w2 : qCanon r'.num r'.den = true ∧ qCanon i'.num i'.den = true := by simpa [WF] using ob.1
    exact J_cplx w1.1 w1.2 w2.1 w2.2
  case dbl.dbl x y =>
    exact J_dbl (OK_dbl oa).1 (OK_dbl ob).1 (OK_dbl oa).2 (OK_dbl ob).2
  case cdbl.cdbl r i r' i' =>
    have p := OK_cdbl oa
    have q := OK_cdbl ob
    exact J_cdbl p.1.1 p.1.2 q.1.1 q.1.2 p.2.1 p.2.2 q.2.1 q.2.2
  case infty.infty x y => exact J_infty x y
  case nan.nan => exact J_nan
  case sym.sym x y => exact J_sym x y
  case dummy.dummy n i m j => exact J_dummy n i m j
  case const.const x y => exact J_const x y
  case bool.bool x y => exact J_bool x y
  case pow.pow b e b' e' =>
    simp only [children] at jl oca ocb
    constructor
    · rw [beq'_pow]; intro h
      have := beqArgs_eq jl oca ocb h
      simp only [List.cons.injEq, and_true] at this
      rw [this.1, this.2]
    · rw [beq'_pow]; intro h
      have := beqArgs_eq' jl oca ocb h
      simp only [List.cons.injEq, and_true] at this
      rw [this.1, this.2]
    · rw [cmp_pow]; intro h
      have := cmpArgs_zero jl oca ocb h
      simp only [List.cons.injEq, and_true] at this
      rw [this.1, this.2]
    · rw [cmp_pow, cmp_pow]; exact cmpArgs_anti jl oca ocb rfl
  case mul.mul c fs c' fs' =>
    simp only [children] at jl oca ocb
    constructor
    · rw [beq'_mul]; intro h
      obtain ⟨e1, e2⟩ := children_cons_inj (beqArgs_eq jl oca ocb h)
      rw [e1, e2]
    · rw [beq'_mul]; intro h
      obtain ⟨e1, e2⟩ := children_cons_inj (beqArgs_eq' jl oca ocb h)
      rw [e1, e2]
    · rw [cmp_mul]; intro h
      obtain ⟨_, h2⟩ := guard_z h
      obtain ⟨e1, e2⟩ := children_cons_inj (cmpArgs_zero jl oca ocb h2)
      rw [e1, e2]
    · rw [cmp_mul, cmp_mul]
      refine guard_anti (fun hl => cmpArgs_anti jl oca ocb ?_)
      simp [flat_length, hl]
  case add.add c ts c' ts' =>
    simp only [children] at jl oca ocb
    have okt : ∀ p ∈ ts, OK p.1 ∧ OK p.2 := fun p hp =>
      ⟨oca _ (List.mem_cons_of_mem _ (mem_flat.mpr ⟨p, hp, Or.inl rfl⟩)),
       oca _ (List.mem_cons_of_mem _ (mem_flat.mpr ⟨p, hp, Or.inr rfl⟩))⟩
    have okt' : ∀ p ∈ ts', OK p.1 ∧ OK p.2 := fun p hp =>
      ⟨ocb _ (List.mem_cons_of_mem _ (mem_flat.mpr ⟨p, hp, Or.inl rfl⟩)),
       ocb _ (List.mem_cons_of_mem _ (mem_flat.mpr ⟨p, hp, Or.inr rfl⟩))⟩
    have jk : ∀ p ∈ ts, ∀ q ∈ ts', J p.1 q.1 ∧ J p.2 q.2 := fun p hp q hq =>
      ⟨jl _ (List.mem_cons_of_mem _ (mem_flat.mpr ⟨p, hp, Or.inl rfl⟩)) _ (okt p hp).1 (okt' q hq).1,
       jl _ (List.mem_cons_of_mem _ (mem_flat.mpr ⟨p, hp, Or.inr rfl⟩)) _ (okt p hp).2 (okt' q hq).2⟩
    have jc : J c c' := jl c (List.mem_cons_self ..) c' (oca c (List.mem_cons_self ..)) (ocb c' (List.mem_cons_self ..))
    constructor
    · rw [beq'_add]; intro h
      simp only [Bool.and_eq_true, beq_iff_eq] at h
      obtain ⟨⟨hcc, hlen⟩, hfind⟩ := h
      have e1 := jc.eq1 hcc
      have hsub : ts ⊆ ts' := by
        intro p hp
        obtain ⟨q, hq, _, b1, b2⟩ := allFind_iff.mp hfind p hp
        have j := jk p hp q hq
        have : p = q := Prod.ext (j.1.eq1 b1) (j.2.eq1 b2)
        rw [this]; exact hq
      have e2 := sorted_eq_of_subset (fun p hp => keyLess_irrefl (okt p hp).1)
        (fun p hp q hq h1 h2 => keyLess_asymm (jk p hp q hq).1 h1 h2) (WF_add oa.1) (WF_add ob.1) hlen hsub
      rw [e1, e2]
    · rw [beq'_add]; intro h
      simp only [Bool.and_eq_true, beq_iff_eq] at h
      obtain ⟨⟨hcc, hlen⟩, hfind⟩ := h
      have e1 := jc.eq2 hcc
      have hsub : ts' ⊆ ts := by
        intro p hp
        obtain ⟨q, hq, _, b1, b2⟩ := allFind_iff.mp hfind p hp
        have j := jk q hq p hp
        have : q = p := Prod.ext (j.1.eq2 b1) (j.2.eq2 b2)
        rw [← this]; exact hq
      have e2 := sorted_eq_of_subset (fun p hp => keyLess_irrefl (okt' p hp).1)
        (fun p hp q hq h1 h2 => keyLess_asymm (jk q hq p hp).1 h2 h1) (WF_add ob.1) (WF_add oa.1) hlen hsub
      rw [e1, e2]
    · rw [cmp_add]; intro h
      obtain ⟨_, h2⟩ := guard_z h
      obtain ⟨e1, e2⟩ := children_cons_inj (cmpArgs_zero jl oca ocb h2)
      rw [e1, e2]
    · rw [cmp_add, cmp_add]
      refine guard_anti (fun hl => cmpArgs_anti jl oca ocb ?_)
      simp [flat_length, hl]
  case fsym.fsym n as m bs =>
    simp only [children] at jl oca ocb
    constructor
    · rw [beq'_fsym]; intro h
      simp only [Bool.and_eq_true, beq_iff_eq] at h
      rw [h.1, beqArgs_eq jl oca ocb h.2]
    · rw [beq'_fsym]; intro h
      simp only [Bool.and_eq_true, beq_iff_eq] at h
      rw [← h.1, beqArgs_eq' jl oca ocb h.2]
    · rw [cmp_fsym]
      by_cases e : n = m
      · subst e; simp only [beq_self_eq_true, ↓reduceIte]
        intro h
        rw [cmpArgs_zero jl oca ocb (guard_z h).2]
      · have : (n == m) = false := by simpa using e
        rw [this]; simp only [Bool.false_eq_true, ↓reduceIte]
        split <;> simp
    · rw [cmp_fsym, cmp_fsym]
      by_cases e : n = m
      · subst e; simp only [beq_self_eq_true, ↓reduceIte]
        exact guard_anti (fun hl => cmpArgs_anti jl oca ocb hl)
      · have h1 : (n == m) = false := by simpa using e
        have h2 : (m == n) = false := by simpa using (Ne.symm e)
        rw [h1, h2]; simp only [Bool.false_eq_true, ↓reduceIte]
        rcases lt_trichotomy n m with h3 | h3 | h3
        · rw [if_pos h3, if_neg (lt_asymm h3)]
        · exact absurd h3 e
        · rw [if_neg (lt_asymm h3), if_pos h3]; simp
  case app.app h as h' bs =>
    simp only [children] at jl oca ocb
    have hh : h = h' := head_eq_of_tc oa.1 ob.1 hc
    subst hh
    obtain ⟨k, hk, har⟩ := WF_app oa.1
    obtain ⟨k', hk', har'⟩ := WF_app ob.1
    have hkk : k' = k := by
      rw [← hc, hk] at hk'; exact (Option.some.inj hk').symm
    subst hkk
    have hkb : kindOfCode (typeCode (app h bs)) = some k' := hk'
    -- the class compare in terms of the plain loop
    have key : cmp (app h as) (app h bs) = 0 → as = bs := by
      rw [cmp_app hc, hk]
      cases k' with
      | one =>
        obtain ⟨x, rfl⟩ := arityOK_one har
        obtain ⟨y, rfl⟩ := arityOK_one har'
        simp only [appCmp, List.length_cons, List.length_nil, beq_self_eq_true, Bool.and_self, ↓reduceIte]
        exact cmpArgs_zero jl oca ocb
      | two =>
        obtain ⟨x1, x2, rfl⟩ := arityOK_two har
        obtain ⟨y1, y2, rfl⟩ := arityOK_two har'
        simp only [appCmp, List.length_cons, List.length_nil, beq_self_eq_true, Bool.and_self, ↓reduceIte]
        rw [cmpTwo_eq (jl x1 (by simp) y1 (oca x1 (by simp)) (ocb y1 (by simp))) (oca x1 (by simp))]
        exact cmpArgs_zero jl oca ocb
      | multi => simp only [appCmp]; exact fun h => cmpArgs_zero jl oca ocb (guard_z h).2
      | set => simp only [appCmp]; exact fun h => cmpArgs_zero jl oca ocb (guard_z h).2
      | lex n =>
        have l1 := arityOK_lex har
        have l2 := arityOK_lex har'
        simp only [appCmp, l1, l2, beq_self_eq_true, Bool.and_self, ↓reduceIte]
        exact cmpArgs_zero jl oca ocb
      | interval =>
        obtain ⟨s, e, lo, ro, rfl⟩ := arityOK_ivFlags har
        obtain ⟨s', e', lo', ro', rfl⟩ := arityOK_ivFlags har'
        cases lo <;> cases lo' <;> cases ro <;> cases ro' <;>
          simp [appCmp, ivFlags] <;>
          (intro hz; have := cmpArgs_zero jl oca ocb hz; simp only [List.cons.injEq, and_true] at this;
           exact this)
    constructor
    · rw [beq'_app]; intro hb
      simp only [Bool.and_eq_true, beq_iff_eq] at hb
      rw [beqArgs_eq jl oca ocb hb.2]
    · rw [beq'_app]; intro hb
      simp only [Bool.and_eq_true, beq_iff_eq] at hb
      rw [beqArgs_eq' jl oca ocb hb.2]
    · intro hz; rw [key hz]
    · rw [cmp_app hc, cmp_app hc.symm, hk, hkb]
      cases k' with
      | one =>
        obtain ⟨x, rfl⟩ := arityOK_one har
        obtain ⟨y, rfl⟩ := arityOK_one har'
        simp only [appCmp, List.length_cons, List.length_nil, beq_self_eq_true, Bool.and_self, ↓reduceIte]
        exact cmpArgs_anti jl oca ocb rfl
      | two =>
        obtain ⟨x1, x2, rfl⟩ := arityOK_two har
        obtain ⟨y1, y2, rfl⟩ := arityOK_two har'
        simp only [appCmp, List.length_cons, List.length_nil, beq_self_eq_true, Bool.and_self, ↓reduceIte]
        have j1 := jl x1 (by simp) y1 (oca x1 (by simp)) (ocb y1 (by simp))
        rw [cmpTwo_eq j1 (oca x1 (by simp)), cmpTwo_eq j1.symm (ocb y1 (by simp))]
        exact cmpArgs_anti jl oca ocb rfl
      | multi => simp only [appCmp]; exact guard_anti (fun hl => cmpArgs_anti jl oca ocb hl)
      | set => simp only [appCmp]; exact guard_anti (fun hl => cmpArgs_anti jl oca ocb hl)
      | lex n =>
        have l1 := arityOK_lex har
        have l2 := arityOK_lex har'
        simp only [appCmp, l1, l2, beq_self_eq_true, Bool.and_self, ↓reduceIte]
        exact cmpArgs_anti jl oca ocb (by rw [l1, l2])
      | interval =>
        obtain ⟨s, e, lo, ro, rfl⟩ := arityOK_ivFlags har
        obtain ⟨s', e', lo', ro', rfl⟩ := arityOK_ivFlags har'
        cases lo <;> cases lo' <;> cases ro <;> cases ro' <;>
          simp [appCmp, ivFlags] <;> exact cmpArgs_anti jl oca ocb rfl

end Expr
end SymVerif
