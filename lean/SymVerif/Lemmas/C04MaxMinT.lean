/-
C04, max / min: grouping.  `max({max(l₁), max(l₂)}) = max(l₁ ++ l₂)` — nested results are flattened and
re-folded to the same loop state — hence every binary bracketing of the operands evaluates to the n-ary
function on the leaves.
-/
import SymVerif.Lemmas.C04MaxMin
import SymVerif.Lemmas.C04Tree

namespace SymVerif.AC
open SymVerif SymVerif.Arith

/-- the loop state after the operands `l`: (extremum of the numbers, set of the other arguments) -/
noncomputable def mmState (isMax : Bool) (l : List Expr) : Option Expr × List Expr :=
  (numFold isMax none ((items isMax l).filter (·.isNum)),
   setFold [] ((items isMax l).filter (fun x => !x.isNum)))

/-- the tail of `max(vec)` / `min(vec)` -/
def mmBuild (isMax : Bool) (st : Option Expr × List Expr) : R Expr :=
  let set := match st.1 with
    | some m => setInsert st.2 m
    | none => st.2
  match set with
  | [] => .error .runtime
  | [a] => pure a
  | _ => pure (.app (if isMax then "Max" else "Min") set)

theorem maxMinE_eq_build {isMax : Bool} {l : List Expr} (h : ∀ a ∈ l, mmOperandOK isMax a = true) :
    maxMinE isMax l = mmBuild isMax (mmState isMax l) := by
  obtain ⟨e1, _⟩ := mmInner_eq isMax (items isMax l) none [] (items_ok h) (by simp)
  unfold maxMinE
  rw [mmLoop_eq isMax l none [] h, e1]
  simp only [ok_bind]
  rfl

/-! ### facts about the state -/

theorem mmState_facts {isMax : Bool} {l : List Expr} (h : ∀ a ∈ l, mmOperandOK isMax a = true) :
    (∀ m, (mmState isMax l).1 = some m → realNumB m = true) ∧ SSorted (mmState isMax l).2 ∧
    (∀ x ∈ (mmState isMax l).2, itemOK isMax x = true ∧ x.isNum = false) := by
  obtain ⟨_, e2⟩ := mmInner_eq isMax (items isMax l) none [] (items_ok h) (by simp)
  refine ⟨e2, ssorted_setFold _ List.Pairwise.nil, ?_⟩
  intro x hx
  simp only [mmState] at hx
  rcases (mem_setFold _).mp hx with hx | hx
  · simp at hx
  · have hx' := List.mem_filter.mp hx
    exact ⟨items_ok h x hx'.1, by simpa using hx'.2⟩

theorem setFold_nil_sorted {s : List Expr} (hs : SSorted s) : setFold [] s = s := by
  apply ssorted_ext (ssorted_setFold _ List.Pairwise.nil) hs
  intro x
  rw [mem_setFold]
  simp

theorem itemOK_nonnum {isMax : Bool} {x : Expr} (h : itemOK isMax x = true) (hn : x.isNum = false) :
    isMaxMin isMax x = none := by
  unfold itemOK at h
  rcases Bool.or_eq_true _ _ |>.mp h with h | h
  · cases x <;> simp_all [realNumB, Expr.isNum]
  · simp only [Bool.and_eq_true, Option.isNone_iff_eq_none] at h
    exact h.2

theorem realNum_isNum {m : Expr} (h : realNumB m = true) : m.isNum = true := by
  cases m <;> simp_all [realNumB, Expr.isNum]

theorem isMaxMin_num {isMax : Bool} {m : Expr} (h : m.isNum = true) : isMaxMin isMax m = none := by
  cases m <;> simp_all [isMaxMin, Expr.isNum]

theorem items_single_none {isMax : Bool} {a : Expr} (h : isMaxMin isMax a = none) : items isMax [a] = [a] := by
  simp [items, h]

theorem items_single_some {isMax : Bool} {a : Expr} {args : List Expr} (h : isMaxMin isMax a = some args) :
    items isMax [a] = args := by
  simp [items, h]

theorem setInsert_perm : ∀ {s : List Expr} {a : Expr}, a ∉ s → (setInsert s a).Perm (a :: s)
  | [], a, _ => by simp [setInsert]
  | b :: r, a, h => by
    simp only [setInsert]
    split
    · exact List.Perm.refl _
    · split
      · rename_i hk
        have e : b = a := key_beq_iff.mp hk
        subst e
        simp at h
      · have hr : a ∉ r := fun hh => h (List.mem_cons_of_mem _ hh)
        exact ((setInsert_perm hr).cons b).trans (List.Perm.swap a b r)

theorem numFold_single (isMax : Bool) (m : Expr) : numFold isMax none [m] = some m := rfl

/-- the result of the loop is again a legal operand and re-reading it gives the same state -/
theorem mmState_build {isMax : Bool} {l : List Expr} {r : Expr} (h : ∀ a ∈ l, mmOperandOK isMax a = true)
    (hb : mmBuild isMax (mmState isMax l) = .ok r) :
    mmOperandOK isMax r = true ∧ mmState isMax [r] = mmState isMax l := by
  obtain ⟨hc, hs, hitems⟩ := mmState_facts h
  generalize hst : mmState isMax l = st at hb hc hs hitems
  obtain ⟨c, s⟩ := st
  simp only at hc hs hitems
  have hname : ∀ set, isMaxMin isMax (.app (if isMax then "Max" else "Min") set) = some set := by
    intro set; simp [isMaxMin]
  -- filtering a set of non-numbers
  have hfilt_nn : ∀ (q : List Expr), (∀ x ∈ q, x.isNum = false) →
      q.filter (·.isNum) = [] ∧ q.filter (fun x => !x.isNum) = q := by
    intro q hq
    constructor
    · apply List.filter_eq_nil_iff.mpr
      intro x hx; simp [hq x hx]
    · apply List.filter_eq_self.mpr
      intro x hx; simp [hq x hx]
  cases c with
  | none =>
    simp only [mmBuild] at hb
    have hsn : ∀ x ∈ s, x.isNum = false := fun x hx => (hitems x hx).2
    obtain ⟨f1, f2⟩ := hfilt_nn s hsn
    match s, hb, hs, hitems, hsn, f1, f2 with
    | [], hb, _, _, _, _, _ => simp at hb
    | [a], hb, _, hitems, _, _, _ =>
      simp [pure, Except.pure] at hb
      subst hb
      have ha := hitems a (by simp)
      have hnone := itemOK_nonnum ha.1 ha.2
      refine ⟨by unfold mmOperandOK; rw [hnone]; exact ha.1, ?_⟩
      simp [mmState, items_single_none hnone, ha.2, numFold, setFold, setInsert]
    | a :: b :: q, hb, hs, hitems, hsn, f1, f2 =>
      simp [pure, Except.pure] at hb
      subst hb
      refine ⟨?_, ?_⟩
      · unfold mmOperandOK
        rw [hname]
        exact List.all_eq_true.mpr (fun x hx => (hitems x hx).1)
      · simp only [mmState, items_single_some (hname _), f1, f2, setFold_nil_sorted hs]
        rfl
  | some m =>
    have hm := hc m rfl
    have hmn := realNum_isNum hm
    have hms : m ∉ s := fun hh => by have := (hitems m hh).2; rw [hmn] at this; cases this
    have hsn : ∀ x ∈ s, x.isNum = false := fun x hx => (hitems x hx).2
    obtain ⟨f1, f2⟩ := hfilt_nn s hsn
    have hperm := setInsert_perm hms
    have hss : SSorted (setInsert s m) := ssorted_setInsert hs
    have hnums : numFold isMax none ((setInsert s m).filter (·.isNum)) = some m := by
      have hp : ((setInsert s m).filter (·.isNum)).Perm [m] := by
        have := hperm.filter (·.isNum)
        simpa [List.filter_cons, hmn, f1] using this
      rw [numFold_perm hp (fun a ha => by
        have ha' := hp.mem_iff.mp ha
        simp at ha'
        subst ha'
        exact hm)]
      rfl
    have hoth : setFold [] ((setInsert s m).filter (fun x => !x.isNum)) = s := by
      have hp : ((setInsert s m).filter (fun x => !x.isNum)).Perm s := by
        have := hperm.filter (fun x => !x.isNum)
        simpa [List.filter_cons, hmn, f2] using this
      rw [setFold_perm List.Pairwise.nil hp, setFold_nil_sorted hs]
    have hall : ∀ x ∈ setInsert s m, itemOK isMax x = true := by
      intro x hx
      rcases mem_setInsert.mp hx with rfl | hx
      · unfold itemOK; simp [hm]
      · exact (hitems x hx).1
    simp only [mmBuild] at hb
    generalize hset : setInsert s m = set at hb hnums hoth hall hperm
    match set, hb, hperm with
    | [], hb, _ => simp at hb
    | [a], hb, hperm =>
      simp [pure, Except.pure] at hb
      subst hb
      -- the single element is the number, the set is empty
      have hlen := hperm.length_eq
      have hs0 : s = [] := by
        cases s with
        | nil => rfl
        | cons _ _ => simp at hlen
      subst hs0
      have ha : a = m := by
        have := hperm.mem_iff.mp (List.mem_singleton.mpr rfl)
        simpa using this
      subst ha
      have hnone := isMaxMin_num (isMax := isMax) hmn
      refine ⟨by unfold mmOperandOK; rw [hnone]; unfold itemOK; simp [hm], ?_⟩
      simp [mmState, items_single_none hnone, hmn, numFold, numStep, setFold]
    | a :: b :: q, hb, _ =>
      simp [pure, Except.pure] at hb
      subst hb
      refine ⟨?_, ?_⟩
      · unfold mmOperandOK
        rw [hname]
        exact List.all_eq_true.mpr hall
      · simp only [mmState, items_single_some (hname _), hnums, hoth]

/-! ### congruence of the state under concatenation -/

theorem items_append (isMax : Bool) (l₁ l₂ : List Expr) :
    items isMax (l₁ ++ l₂) = items isMax l₁ ++ items isMax l₂ := by
  simp [items]

theorem numFold_append (isMax : Bool) (c : Option Expr) (A B : List Expr) :
    numFold isMax c (A ++ B) = numFold isMax (numFold isMax c A) B := by
  simp [numFold, List.foldl_append]

theorem numFold_append_congr {isMax : Bool} {A A' B B' : List Expr}
    (hA : ∀ a ∈ A, realNumB a = true) (hA' : ∀ a ∈ A', realNumB a = true)
    (hB : ∀ a ∈ B, realNumB a = true) (hB' : ∀ a ∈ B', realNumB a = true)
    (h1 : numFold isMax none A = numFold isMax none A') (h2 : numFold isMax none B = numFold isMax none B') :
    numFold isMax none (A ++ B) = numFold isMax none (A' ++ B') := by
  have mem_app : ∀ {X Y : List Expr}, (∀ a ∈ X, realNumB a = true) → (∀ a ∈ Y, realNumB a = true) →
      ∀ a ∈ X ++ Y, realNumB a = true := by
    intro X Y hX hY a ha
    rcases List.mem_append.mp ha with h | h
    · exact hX a h
    · exact hY a h
  calc numFold isMax none (A ++ B)
      = numFold isMax none (A' ++ B) := by rw [numFold_append, h1, ← numFold_append]
    _ = numFold isMax none (B ++ A') := numFold_perm List.perm_append_comm (mem_app hA' hB)
    _ = numFold isMax none (B' ++ A') := by rw [numFold_append, h2, ← numFold_append]
    _ = numFold isMax none (A' ++ B') := numFold_perm List.perm_append_comm (mem_app hB' hA')

theorem setFold_append_congr {A A' B B' : List Expr}
    (h1 : setFold [] A = setFold [] A') (h2 : setFold [] B = setFold [] B') :
    setFold [] (A ++ B) = setFold [] (A' ++ B') := by
  apply ssorted_ext (ssorted_setFold _ List.Pairwise.nil) (ssorted_setFold _ List.Pairwise.nil)
  intro x
  have m1 : x ∈ A ↔ x ∈ A' := by
    have a := mem_setFold A (s := []) (x := x)
    have b := mem_setFold A' (s := []) (x := x)
    rw [h1] at a
    simp at a b
    exact a.symm.trans b
  have m2 : x ∈ B ↔ x ∈ B' := by
    have a := mem_setFold B (s := []) (x := x)
    have b := mem_setFold B' (s := []) (x := x)
    rw [h2] at a
    simp at a b
    exact a.symm.trans b
  rw [mem_setFold, mem_setFold]
  simp [m1, m2]

theorem nums_real {isMax : Bool} {l : List Expr} (h : ∀ a ∈ l, mmOperandOK isMax a = true) :
    ∀ a ∈ (items isMax l).filter (·.isNum), realNumB a = true := by
  intro a ha
  have ha' := List.mem_filter.mp ha
  have hok := items_ok h a ha'.1
  unfold itemOK at hok
  rcases Bool.or_eq_true _ _ |>.mp hok with hh | hh
  · exact hh
  · have hnum' : a.isNum = true := by simpa using ha'.2
    rw [hnum'] at hh
    simp at hh

theorem mmState_append_congr {isMax : Bool} {l₁ l₁' l₂ l₂' : List Expr}
    (h1 : ∀ a ∈ l₁, mmOperandOK isMax a = true) (h1' : ∀ a ∈ l₁', mmOperandOK isMax a = true)
    (h2 : ∀ a ∈ l₂, mmOperandOK isMax a = true) (h2' : ∀ a ∈ l₂', mmOperandOK isMax a = true)
    (e1 : mmState isMax l₁ = mmState isMax l₁') (e2 : mmState isMax l₂ = mmState isMax l₂') :
    mmState isMax (l₁ ++ l₂) = mmState isMax (l₁' ++ l₂') := by
  simp only [mmState, items_append, List.filter_append]
  have a1 := congrArg Prod.fst e1
  have a2 := congrArg Prod.fst e2
  have b1 := congrArg Prod.snd e1
  have b2 := congrArg Prod.snd e2
  simp only [mmState] at a1 a2 b1 b2
  rw [numFold_append_congr (nums_real h1) (nums_real h1') (nums_real h2) (nums_real h2') a1 a2,
    setFold_append_congr b1 b2]

/-! ### bracketings -/

/-- the binary constructor -/
def mm2 (isMax : Bool) (a b : Expr) : R Expr := maxMinE isMax [a, b]

/-- every bracketing of canonical operands evaluates to the n-ary function on its leaves -/
theorem evalT_mm (isMax : Bool) : ∀ (t : BTree),
    (∀ a ∈ t.leaves, mmOperandOK isMax a = true ∧ maxMinE isMax [a] = .ok a) →
    ∃ r, evalT (mm2 isMax) t = .ok r ∧ mmBuild isMax (mmState isMax t.leaves) = .ok r ∧
      mmOperandOK isMax r = true ∧ mmState isMax [r] = mmState isMax t.leaves
  | .leaf a, h => by
    have ha := h a (by simp [BTree.leaves])
    have hl : ∀ x ∈ [a], mmOperandOK isMax x = true := by intro x hx; simp at hx; subst hx; exact ha.1
    refine ⟨a, rfl, ?_, ha.1, rfl⟩
    show mmBuild isMax (mmState isMax [a]) = .ok a
    rw [← maxMinE_eq_build hl]
    exact ha.2
  | .node l r, h => by
    have hl : ∀ a ∈ l.leaves, mmOperandOK isMax a = true ∧ maxMinE isMax [a] = .ok a :=
      fun a ha => h a (by simp [BTree.leaves, ha])
    have hr : ∀ a ∈ r.leaves, mmOperandOK isMax a = true ∧ maxMinE isMax [a] = .ok a :=
      fun a ha => h a (by simp [BTree.leaves, ha])
    obtain ⟨x, hx, hxb, hxo, hxs⟩ := evalT_mm isMax l hl
    obtain ⟨y, hy, hyb, hyo, hys⟩ := evalT_mm isMax r hr
    have hxl : ∀ a ∈ [x], mmOperandOK isMax a = true := by intro a ha; simp at ha; subst ha; exact hxo
    have hyl : ∀ a ∈ [y], mmOperandOK isMax a = true := by intro a ha; simp at ha; subst ha; exact hyo
    have hxy : ∀ a ∈ [x, y], mmOperandOK isMax a = true := by
      intro a ha; simp at ha; rcases ha with rfl | rfl <;> assumption
    have hall : ∀ a ∈ l.leaves ++ r.leaves, mmOperandOK isMax a = true := by
      intro a ha
      rcases List.mem_append.mp ha with h' | h'
      · exact (hl a h').1
      · exact (hr a h').1
    have hst : mmState isMax [x, y] = mmState isMax (l.leaves ++ r.leaves) :=
      mmState_append_congr (l₁ := [x]) (l₂ := [y]) hxl (fun a ha => (hl a ha).1) hyl
        (fun a ha => (hr a ha).1) hxs hys
    -- the combined state is not empty, so the tail succeeds
    have hne : ∃ z, mmBuild isMax (mmState isMax (l.leaves ++ r.leaves)) = .ok z := by
      rw [← hst]
      -- x contributes an item
      have hxne : mmBuild isMax (mmState isMax [x]) = .ok x := by rw [hxs]; exact hxb
      generalize hsx : mmState isMax [x] = sx at hxne
      have hsplit : mmState isMax [x, y] = mmState isMax ([x] ++ [y]) := rfl
      rw [hsplit]
      simp only [mmState, items_append, List.filter_append]
      simp only [mmState] at hsx
      -- either a number or a set element is present on the left
      by_cases hnum : (items isMax [x]).filter (·.isNum) = []
      · have hc : sx.1 = none := by rw [← hsx]; simp [hnum, numFold]
        have hsne : sx.2 ≠ [] := by
          intro h0
          obtain ⟨c, s⟩ := sx
          simp only at hc h0
          subst hc; subst h0
          simp [mmBuild] at hxne
        have hmem : ∃ w, w ∈ (items isMax [x]).filter (fun x => !x.isNum) := by
          cases hq : (items isMax [x]).filter (fun x => !x.isNum) with
          | nil => rw [← hsx] at hsne; simp [hq, setFold] at hsne
          | cons w _ => exact ⟨w, by simp⟩
        obtain ⟨w, hw⟩ := hmem
        have hwin : w ∈ setFold [] ((items isMax [x]).filter (fun x => !x.isNum)
            ++ (items isMax [y]).filter (fun x => !x.isNum)) :=
          (mem_setFold _).mpr (Or.inr (List.mem_append_left _ hw))
        generalize setFold [] ((items isMax [x]).filter (fun x => !x.isNum)
            ++ (items isMax [y]).filter (fun x => !x.isNum)) = S at hwin
        generalize numFold isMax none ((items isMax [x]).filter (·.isNum)
            ++ (items isMax [y]).filter (·.isNum)) = C
        cases C with
        | none =>
          match S, hwin with
          | [a], _ => exact ⟨a, rfl⟩
          | a :: b :: q, _ => exact ⟨_, rfl⟩
        | some m =>
          have : w ∈ setInsert S m := mem_setInsert.mpr (Or.inr hwin)
          simp only [mmBuild]
          generalize setInsert S m = S' at this
          match S', this with
          | [a], _ => exact ⟨a, rfl⟩
          | a :: b :: q, _ => exact ⟨_, rfl⟩
      · -- a number on the left: the extremum exists
        obtain ⟨n0, rest, hn0⟩ : ∃ n0 rest, (items isMax [x]).filter (·.isNum) = n0 :: rest := by
          cases hq : (items isMax [x]).filter (·.isNum) with
          | nil => exact absurd hq hnum
          | cons a b => exact ⟨a, b, rfl⟩
        rcases numFold_none isMax ((items isMax [x]).filter (·.isNum) ++ (items isMax [y]).filter (·.isNum))
          with ⟨e, _⟩ | ⟨m, hm, _⟩
        · rw [hn0] at e; simp at e
        · rw [hm]
          simp only [mmBuild]
          have : m ∈ setInsert (setFold [] ((items isMax [x]).filter (fun x => !x.isNum)
              ++ (items isMax [y]).filter (fun x => !x.isNum))) m := mem_setInsert.mpr (Or.inl rfl)
          generalize setInsert (setFold [] ((items isMax [x]).filter (fun x => !x.isNum)
              ++ (items isMax [y]).filter (fun x => !x.isNum))) m = S' at this
          match S', this with
          | [a], _ => exact ⟨a, rfl⟩
          | a :: b :: q, _ => exact ⟨_, rfl⟩
    obtain ⟨z, hz⟩ := hne
    obtain ⟨hzo, hzs⟩ := mmState_build hall hz
    refine ⟨z, ?_, hz, hzo, hzs⟩
    simp only [evalT, hx, hy, ok_bind, mm2]
    rw [maxMinE_eq_build hxy, hst]
    exact hz

theorem evalT_mm_eq (isMax : Bool) (t : BTree)
    (h : ∀ a ∈ t.leaves, mmOperandOK isMax a = true ∧ maxMinE isMax [a] = .ok a) :
    evalT (mm2 isMax) t = maxMinE isMax t.leaves := by
  obtain ⟨r, h1, h2, _, _⟩ := evalT_mm isMax t h
  rw [h1, maxMinE_eq_build (fun a ha => (h a ha).1), h2]

end SymVerif.AC
