import SymVerif.Lemmas.C38Loop
/-!
C38: every index computed by the model stays inside `grid` / `weights` for *every* non-empty grid
(also with repeated points, where the run ends in `Err.divzero`): the index sequence does not depend
on the data.
-/
namespace SymVerif.C38
open SymVerif.FiniteDiff

/-- the run ended in a division by zero, or produced a vector of the right size -/
def Safe (n : ℕ) (r : Except Err (Array ℚ)) : Prop :=
  r = .error .divzero ∨ ∃ w, r = .ok w ∧ w.size = n

def Safe2 (n : ℕ) (r : Except Err (ℚ × Array ℚ)) : Prop :=
  r = .error .divzero ∨ ∃ c w, r = .ok (c, w) ∧ w.size = n

theorem qdiv_cases (a b : ℚ) : qdiv a b = .error .divzero ∨ ∃ v, qdiv a b = .ok v := by
  unfold qdiv; split
  · left; rfl
  · right; exact ⟨_, rfl⟩

theorem setW_in {w : Array ℚ} {p : ℕ} (v : ℚ) (h : p < w.size) :
    ∃ w', setW w p v = .ok w' ∧ w'.size = w.size :=
  ⟨_, setW_ok v h, by simp⟩

section
variable (len M : ℕ)

theorem oldLoop_safe (j : ℕ) (c3 c4 : ℚ) (hj : j < len) :
    ∀ (K : ℕ) (w : Array ℚ), K ≤ M → w.size = len * (M + 1) →
      Safe (len * (M + 1)) (oldLoop len j c3 c4 K w) := by
  intro K
  induction K with
  | zero => intro w _ hw; right; exact ⟨w, rfl, hw⟩
  | succ K ih =>
    intro w hK hw
    have h1 : j + (K + 1) * len < w.size := by rw [hw]; exact idx_lt hj hK
    have h2 : j + K * len < w.size := by rw [hw]; exact idx_lt hj (by omega)
    rcases qdiv_cases (c4 * rd w (j + (K + 1) * len) - ((K + 1 : ℕ) : ℚ) * rd w (j + K * len)) c3
      with hq | ⟨v, hq⟩
    · left
      simp only [oldLoop, getW_ok h1, getW_ok h2, hq, bind, Except.bind]
    · obtain ⟨w1, hw1, hs1⟩ := setW_in v h1
      have := ih w1 (by omega) (hs1.trans hw)
      simpa only [oldLoop, getW_ok h1, getW_ok h2, hq, hw1, bind, Except.bind] using this

theorem newLoop_safe (i : ℕ) (c1 c2 c5 : ℚ) (hi : i + 1 < len) :
    ∀ (K : ℕ) (w : Array ℚ), K ≤ M → w.size = len * (M + 1) →
      Safe (len * (M + 1)) (newLoop len (i + 1) c1 c2 c5 K w) := by
  intro K
  induction K with
  | zero => intro w _ hw; right; exact ⟨w, rfl, hw⟩
  | succ K ih =>
    intro w hK hw
    have hi' : i < len := by omega
    have h1 : i + K * len < w.size := by rw [hw]; exact idx_lt hi' (by omega)
    have h2 : i + (K + 1) * len < w.size := by rw [hw]; exact idx_lt hi' hK
    have h3 : i + 1 + (K + 1) * len < w.size := by rw [hw]; exact idx_lt hi hK
    rcases qdiv_cases (c1 * (((K + 1 : ℕ) : ℚ) * rd w (i + K * len) - c5 * rd w (i + (K + 1) * len))) c2
      with hq | ⟨v, hq⟩
    · left
      simp only [newLoop, Nat.add_sub_cancel, getW_ok h1, getW_ok h2, hq, bind, Except.bind]
    · obtain ⟨w1, hw1, hs1⟩ := setW_in v h3
      have := ih w1 (by omega) (hs1.trans hw)
      simpa only [newLoop, Nat.add_sub_cancel, getW_ok h1, getW_ok h2, hq, hw1, bind, Except.bind]
        using this

theorem idx0_lt {j : ℕ} (hj : j < len) : j < len * (M + 1) := by
  simpa using idx_lt (M := M) (k := 0) hj (Nat.zero_le _)

theorem oldCol_safe (j mn : ℕ) (c3 c4 : ℚ) (hj : j < len) (hmn : mn ≤ M) (w : Array ℚ)
    (hw : w.size = len * (M + 1)) : Safe (len * (M + 1)) (oldCol len j mn c3 c4 w) := by
  rcases oldLoop_safe len M j c3 c4 hj mn w hmn hw with h | ⟨w1, h, hs1⟩
  · left; simp only [oldCol, h, bind, Except.bind]
  · have h1 : j < w1.size := by rw [hs1]; exact idx0_lt len M hj
    rcases qdiv_cases (c4 * rd w1 j) c3 with hq | ⟨v, hq⟩
    · left; simp only [oldCol, h, getW_ok h1, hq, bind, Except.bind]
    · obtain ⟨w2, hw2, hs2⟩ := setW_in v h1
      right
      exact ⟨w2, by simp only [oldCol, h, getW_ok h1, hq, hw2, bind, Except.bind], hs2.trans hs1⟩

theorem newBlock_safe (i mn : ℕ) (c1 c2 c5 : ℚ) (hi : i + 1 < len) (hmn : mn ≤ M) (w : Array ℚ)
    (hw : w.size = len * (M + 1)) : Safe (len * (M + 1)) (newBlock len (i + 1) mn c1 c2 c5 w) := by
  rcases newLoop_safe len M i c1 c2 c5 hi mn w hmn hw with h | ⟨w1, h, hs1⟩
  · left; simp only [newBlock, h, bind, Except.bind]
  · have h1 : i < w1.size := by rw [hs1]; exact idx0_lt len M (by omega)
    have h2 : i + 1 < w1.size := by rw [hs1]; exact idx0_lt len M hi
    rcases qdiv_cases (c1 * (c5 * rd w1 i)) c2 with hq | ⟨v, hq⟩
    · left; simp only [newBlock, h, Nat.add_sub_cancel, getW_ok h1, hq, bind, Except.bind]
    · obtain ⟨w2, hw2, hs2⟩ := setW_in (-1 * v) h2
      right
      exact ⟨w2, by simp only [newBlock, h, Nat.add_sub_cancel, getW_ok h1, hq, hw2, bind, Except.bind],
        hs2.trans hs1⟩

theorem jLoop_safe (grid : Array ℚ) (hlen : grid.size = len) (i mn : ℕ) (c1 c4 c5 : ℚ)
    (hi : i + 1 < len) (hmn : mn ≤ M) :
    ∀ (rem j : ℕ) (c2 : ℚ) (w : Array ℚ), j + rem = i + 1 → w.size = len * (M + 1) →
      Safe2 (len * (M + 1)) (jLoop grid len (i + 1) mn c1 c4 c5 rem j c2 w) := by
  intro rem
  induction rem with
  | zero => intro j c2 w _ hw; right; exact ⟨c2, w, rfl, hw⟩
  | succ rem ih =>
    intro j c2 w hj hw
    have hg1 : getG grid (i + 1) = .ok (rd grid (i + 1)) := getG_ok (by omega)
    have hg2 : getG grid j = .ok (rd grid j) := getG_ok (by omega)
    have hblock : Safe (len * (M + 1)) (if j + 1 = i + 1 then
        newBlock len (i + 1) mn c1 (c2 * (rd grid (i + 1) - rd grid j)) c5 w else pure w) := by
      split
      · exact newBlock_safe len M i mn c1 _ c5 hi hmn w hw
      · right; exact ⟨w, rfl, hw⟩
    rcases hblock with hb | ⟨w1, hb, hs1⟩
    · left; simp only [jLoop, hg1, hg2, hb, bind, Except.bind]
    · rcases oldCol_safe len M j mn (rd grid (i + 1) - rd grid j) c4 (by omega) hmn w1 hs1
        with hc | ⟨w2, hc, hs2⟩
      · left; simp only [jLoop, hg1, hg2, hb, hc, bind, Except.bind]
      · have := ih (j + 1) (c2 * (rd grid (i + 1) - rd grid j)) w2 (by omega) hs2
        simpa only [jLoop, hg1, hg2, hb, hc, bind, Except.bind] using this

theorem iLoop_safe (grid : Array ℚ) (hlen : grid.size = len) (z : ℚ) :
    ∀ (rem i : ℕ) (c1 c4 : ℚ) (w : Array ℚ), i + 1 + rem = len → w.size = len * (M + 1) →
      Safe (len * (M + 1)) (iLoop grid z len M rem (i + 1) c1 c4 w) := by
  intro rem
  induction rem with
  | zero => intro i c1 c4 w _ hw; right; exact ⟨w, rfl, hw⟩
  | succ rem ih =>
    intro i c1 c4 w hi hw
    have hg1 : getG grid (i + 1) = .ok (rd grid (i + 1)) := getG_ok (by omega)
    have hmn : (if i + 1 < M then i + 1 else M) ≤ M := by split <;> omega
    rcases jLoop_safe len M grid hlen i _ c1 (rd grid (i + 1) - z) c4 (by omega) hmn (i + 1) 0 1 w
      (by omega) hw with hj | ⟨c2, w1, hj, hs1⟩
    · left; simp only [iLoop, hg1, hj, bind, Except.bind]
    · have := ih (i + 1) c2 (rd grid (i + 1) - z) w1 (by omega) hs1
      simpa only [iLoop, hg1, hj, bind, Except.bind] using this

end

/-- **bounds, unconditional**: for every non-empty grid (distinct or not), every order and centre,
no index leaves `grid` or `weights` -/
theorem weights_safe (grid : Array ℚ) (M : ℕ) (z : ℚ) (hne : 0 < grid.size) :
    Safe (grid.size * (M + 1)) (weights grid M z) := by
  have hg0 : getG grid 0 = .ok (rd grid 0) := getG_ok hne
  have hpos : 0 < (Array.replicate (grid.size * (M + 1)) (0 : ℚ)).size := by
    rw [Array.size_replicate]; exact Nat.mul_pos hne (Nat.succ_pos _)
  obtain ⟨w0, hw0, hs0⟩ := setW_in 1 hpos
  have := iLoop_safe grid.size M grid rfl z (grid.size - 1) 0 1 (rd grid 0 - z) w0 (by omega)
    (by rw [hs0]; simp)
  simpa only [weights, hg0, hw0, bind, Except.bind] using this

end SymVerif.C38
